(* C08, layouts: two texts that consist of the same non-blank characters with (possibly different) legal trivia at the
   same places parse to token lists of equal skeleton, and the first parses without diagnostics iff the second does.
   Lockstep argument over a relation `lay` on the remaining texts; fuel is made common to both runs and the runs with
   their own fuel are connected by the fuel independence of the blindness family. *)
From Coq Require Import List NArith Bool Arith Lia.
Import ListNotations.
From Mos Require Import model.Utf model.Nom Gen.ParserTables model.Parser model.Display spec.Lossless spec.LayoutEquiv
  proofs.NomProofs proofs.TriviaProofs proofs.ParserProofs proofs.C05Proofs proofs.ParserBlind.
From Mos Require Gen.BinOps Gen.ExprGrammar proofs.ParserProgressProofs.
Module PP := ParserProgressProofs.
Open Scope N_scope.

(* ================================================================ part 1: fuel independence (blindness, two fuels) *)
Lemma recognize_blindh {A} n (RA : A -> A -> Prop) p p' : blindh n RA p p' -> blindh n eq (recognize p) (recognize p').
Proof.
  intros Hp st st' i i' Hs Hi Hl. specialize (Hp st st' i i' Hs Hi Hl). unfold recognize, RR in *.
  destruct (p st i) as [s [v r| |a]], (p' st' i') as [s' [v' r'| |a']]; cbn in *; destruct Hp as [H1 H2]; try contradiction; split; auto.
  destruct H2 as [_ Hr]. rewrite Hi, Hr. split; reflexivity.
Qed.
Lemma wr_blindh {A} n (RA : A -> A -> Prop) w p p' : blindh n RA p p' -> blindh n (Rloc RA) (wr w p) (wr w p').
Proof.
  intros Hp. assert (T1 : shrinks (opt trivia_p)) by (apply (shrinks_of_sound _ _ (opt_sound anyP _ _ (trivia_p_sound anyP)))).
  assert (T2 : shrinks (opt multiline_trivia)) by (apply (shrinks_of_sound _ _ (opt_sound anyP _ _ (multiline_trivia_sound anyP)))).
  destruct w; cbn [wr].
  - intros st st' i i' Hs Hi Hl. unfold ws, with_trivia. pose proof (opt_blind Rany _ trivia_p_blind st st' i i' Hs Hi) as H. unfold RR in H.
    destruct (opt trivia_p st i) as [s [t r| |a]] eqn:E, (opt trivia_p st' i') as [s' [t' r'| |a']]; cbn in H; destruct H as [H1 H2]; try contradiction; try (split; cbn; auto; fail).
    destruct H2 as [_ Hr]. apply T1 in E. assert (Hl2 : (length (rem r) <= n)%nat) by lia. specialize (Hp s s' r r' H1 Hr Hl2). unfold RR in *.
    destruct (p s r) as [t2 [w u| |b]], (p' s' r') as [t2' [w' u'| |b']]; cbn in *; destruct Hp as [H3 H4]; try contradiction; split; auto.
  - intros st st' i i' Hs Hi Hl. unfold mws, with_trivia. pose proof (opt_blind Rany _ multiline_trivia_blind st st' i i' Hs Hi) as H. unfold RR in H.
    destruct (opt multiline_trivia st i) as [s [t r| |a]] eqn:E, (opt multiline_trivia st' i') as [s' [t' r'| |a']]; cbn in H; destruct H as [H1 H2]; try contradiction; try (split; cbn; auto; fail).
    destruct H2 as [_ Hr]. apply T2 in E. assert (Hl2 : (length (rem r) <= n)%nat) by lia. specialize (Hp s s' r r' H1 Hr Hl2). unfold RR in *.
    destruct (p s r) as [t2 [w u| |b]], (p' s' r') as [t2' [w' u'| |b']]; cbn in *; destruct Hp as [H3 H4]; try contradiction; split; auto.
  - intros st st' i i' Hs Hi Hl. specialize (Hp st st' i i' Hs Hi Hl). unfold located_p, RR in *.
    destruct (p st i) as [s [v r| |a]], (p' st' i') as [s' [v' r'| |a']]; cbn in *; destruct Hp as [H1 H2]; try contradiction; split; auto.
Qed.
Lemma arg_list_loop_blindh {T} n (RT : T -> T -> Prop) (item item' : parser T) : blindh n RT item item' -> shrinks item ->
  forall fuel acc acc' cur cur' st st' i i', Forall2 (Ritem RT) acc acc' -> Rloc RT cur cur' -> SR st st' -> rem i = rem i' -> (length (rem i) <= n)%nat ->
    RR (Forall2 (Ritem RT)) (arg_list_loop fuel item acc cur st i) (arg_list_loop fuel item' acc' cur' st' i').
Proof.
  intros Hi Hsh fuel. induction fuel as [|g IH]; intros acc acc' cur cur' st st' i i' Ha Hc Hs Hr Hl; cbn [arg_list_loop]; [split; cbn; auto|].
  pose proof (wr_blind eq (slot W_arg_list 1) (char_p 44) (char_blind 44) st st' i i' Hs Hr) as H. unfold RR in H.
  destruct (wr (slot W_arg_list 1) (char_p 44) st i) as [s [c r| |a]] eqn:E1, (wr (slot W_arg_list 1) (char_p 44) st' i') as [s' [c' r'| |a']];
    cbn in H; destruct H as [H1 H2]; try contradiction.
  - destruct H2 as [_ Hr2]. apply (shrinks_wr _ _ (sh_char 44)) in E1.
    assert (Hl2 : (length (rem r) <= n)%nat) by lia.
    pose proof (wr_blindh n RT (slot W_arg_list 2) item item' Hi s s' r r' H1 Hr2 Hl2) as H3. unfold RR in H3.
    destruct (wr (slot W_arg_list 2) item s r) as [t [nx u| |b]] eqn:E2, (wr (slot W_arg_list 2) item' s' r') as [t' [nx' u'| |b']];
      cbn in H3; destruct H3 as [H4 H5]; try contradiction; try (split; cbn; auto; fail).
    destruct H5 as [Hn Hu]. apply (shrinks_wr _ _ Hsh) in E2. apply IH; auto; [|lia]. apply Forall2_app_one; [assumption|]. split; [exact Hc|exact I].
  - split; cbn; [assumption|]. split; [|assumption]. apply Forall2_app_one; [assumption|]. split; [exact Hc|exact I].
  - split; cbn; auto.
Qed.
Lemma arg_list_blindh {T} n (RT : T -> T -> Prop) (item item' : parser T) : blindh n RT item item' -> shrinks item ->
  blindh n (Forall2 (Ritem RT)) (arg_list item) (arg_list item').
Proof.
  intros Hi Hsh st st' i i' Hs Hr Hl. unfold arg_list.
  pose proof (wr_blindh n RT (slot W_arg_list 0) item item' Hi st st' i i' Hs Hr Hl) as H. unfold RR in H.
  destruct (wr (slot W_arg_list 0) item st i) as [s [c r| |a]] eqn:E, (wr (slot W_arg_list 0) item' st' i') as [s' [c' r'| |a']];
    cbn in H; destruct H as [H1 H2]; try contradiction; try (split; cbn; auto; fail).
  destruct H2 as [Hc Hr2]. rewrite Hr2. apply (shrinks_wr _ _ Hsh) in E. rewrite <- Hr2. apply (arg_list_loop_blindh n); auto. lia.
Qed.

Section ExprH.
  Variables (n : nat) (pe pe' : parser (located expr)).
  Hypothesis Hok : expr_parser_ok pe.
  Hypothesis Hrec : forall m, (m < n)%nat -> blindh m (Rloc Rexp) pe pe'.
  Let lft {A} (RA : A -> A -> Prop) p : blind2 RA p -> blindh n RA p p := blindh_of_blind n RA p.

  Lemma expression_arg_list_blindh m : (m < n)%nat -> blindh m Rargs (expression_arg_list pe) (expression_arg_list pe').
  Proof.
    intros Hm. unfold expression_arg_list. intros st st' i i' Hs Hi Hl.
    assert (H1 : blindh m Rexp (map_p data pe) (map_p data pe')).
    { eapply map_blindh; [apply Hrec; assumption|]. intros a a' Ha. exact Ha. }
    assert (H2 : shrinks (map_p data pe)) by (apply shrinks_map, (shrinks_of_sound _ _ (proj1 Hok anyP))).
    pose proof (arg_list_blindh m Rexp (map_p data pe) (map_p data pe') H1 H2 st st' i i' Hs Hi Hl) as H. unfold RR in *.
    destruct (arg_list (map_p data pe) st i) as [s [v r| |a]], (arg_list (map_p data pe') st' i') as [s' [v' r'| |a']]; cbn in *; destruct H as [A1 A2]; try contradiction; split; auto.
    destruct A2. split; [apply eargs_rel; assumption|assumption].
  Qed.
  Lemma expression_parens_blindh : blindh n (Rloc Rfac) (expression_parens pe) (expression_parens pe').
  Proof.
    unfold expression_parens. apply wr_blindh. eapply map_blindh.
    - apply pair_blindh_rec; [apply lft, wr_blind, char_blind|apply wr_char_consumes1|].
      intros m Hm. apply pair_blindh; [apply nested_blindh, Hrec; assumption| |apply blindh_of_blind, wr_blind, char_blind].
      apply (shrinks_of_sound a_lexpr). apply nested_sound, Hok.
    - sc.
  Qed.
  Lemma fn_call_parts_blindh b : blindh n Rparts (fn_call_parts pe b) (fn_call_parts pe' b).
  Proof.
    unfold fn_call_parts. apply pair_blindh; [destruct b; apply lft, wr_blind, identifier_name_blind|destruct b; apply shrinks_wr, sh_name|].
    apply pair_blindh_rec; [eapply blindh_of_blind, blind2_weaken; [apply wr_blind, char_blind|intros; exact I]|apply wr_char_consumes1|].
    intros m Hm. apply pair_blindh; [apply opt_blindh, nested_blindh, expression_arg_list_blindh; assumption| |].
    - apply shrinks_opt. apply (shrinks_of_sound a_eargs). apply nested_sound. apply expression_arg_list_sound. exact Hok.
    - eapply blindh_of_blind, blind2_weaken; [apply wr_blind, char_blind|intros; exact I].
  Qed.
  Lemma fn_call_impl_blindh b : blindh n (Rloc Rfac) (fn_call_impl pe b) (fn_call_impl pe' b).
  Proof. unfold fn_call_impl. apply wr_blindh. eapply map_blindh; [apply fn_call_parts_blindh|]. unfold Rparts. sc. Qed.
  Lemma expression_factor_inner_blindh : blindh n (Rloc Rfac) (expression_factor_inner pe) (expression_factor_inner pe').
  Proof.
    unfold expression_factor_inner. apply alts_map_blindh. intros k _. destruct k; cbn [factor_alt].
    - apply lft, number_blind.
    - apply fn_call_impl_blindh.
    - apply lft, identifier_value_blind.
    - apply lft, current_pc_blind.
    - apply expression_parens_blindh.
    - apply lft, interpolated_string_factor_blind.
  Qed.
  Lemma sh_opt_wr_char w c : shrinks (opt (wr w (char_p c))). Proof. apply shrinks_opt, shrinks_wr, sh_char. Qed.
  Lemma expression_factor_blindh : blindh n (Rloc Rexp) (expression_factor pe) (expression_factor pe').
  Proof.
    unfold expression_factor. apply wr_blindh. apply alt_blindh.
    - eapply map_blindh; [apply expression_factor_inner_blindh|sc].
    - eapply map_blindh.
      + apply pair_blindh; [apply lft, peek_blind, textual_blind, satisfy_textual| |].
        { intros st i st' v r E. unfold peek, one_of, satisfy in E. destruct (rem i) as [|c t] eqn:Ei; [discriminate|]. destruct (mem c flag_chars); inversion E; subst. rewrite Ei. cbn. lia. }
        apply pair_blindh; [apply lft, opt_blind, wr_blind, char_blind|apply sh_opt_wr_char|].
        apply pair_blindh; [apply lft, opt_blind, wr_blind, char_blind|apply sh_opt_wr_char|].
        apply expression_factor_inner_blindh.
      + sc.
  Qed.
  Lemma sh_factor : shrinks (expression_factor pe). Proof. apply (shrinks_of_sound _ _ (expression_factor_sound anyP pe Hok)). Qed.
  Lemma sh_term : shrinks (expression_term pe). Proof. apply (shrinks_of_sound _ _ (expression_term_sound anyP pe Hok)). Qed.
  Lemma sh_op w table : shrinks (wr w (operator table)).
  Proof. apply shrinks_wr. unfold operator. apply shrinks_alts_map. intros e. apply shrinks_map, (shrinks_terminal (fun s => s)), tag_terminal. Qed.
  Lemma expression_term_blindh : blindh n (Rloc Rexp) (expression_term pe) (expression_term pe').
  Proof.
    unfold expression_term. eapply map_blindh.
    - apply pair_blindh; [apply expression_factor_blindh|apply sh_factor|]. apply many0_blindh.
      + apply pair_blindh; [apply lft, wr_blind, operator_blind|apply sh_op|apply expression_factor_blindh].
      + apply shrinks_pair; [apply sh_op|apply sh_factor].
    - intros [x l] [x' l'] [Hx Hl]. apply fold_expressions_rel; assumption.
  Qed.
  Lemma expression_body_blindh : blindh n (Rloc Rexp) (expression_body pe) (expression_body pe').
  Proof.
    unfold expression_body. eapply map_blindh.
    - apply pair_blindh; [apply expression_term_blindh|apply sh_term|]. apply many0_blindh.
      + apply pair_blindh; [apply lft, wr_blind, operator_blind|apply sh_op|apply expression_term_blindh].
      + apply shrinks_pair; [apply sh_op|apply sh_term].
    - intros [x l] [x' l'] [Hx Hl]. apply fold_expressions_rel; assumption.
  Qed.
End ExprH.

Lemma expression_fuel_blindh : forall n f f', (n < f)%nat -> (n < f')%nat -> blindh n (Rloc Rexp) (expression_fuel f) (expression_fuel f').
Proof.
  induction n as [n IH] using (well_founded_induction lt_wf). intros f f' Hf Hf'.
  destruct f as [|g]; [lia|]. destruct f' as [|g']; [lia|]. cbn [expression_fuel].
  intros st st' i i' Hs Hi Hl.
  apply (expression_body_blindh n (expression_fuel g) (expression_fuel g')); auto.
  - apply expression_fuel_ok.
  - intros m Hm. apply IH; lia.
Qed.

Section CfgH.
  Variables (n : nat) (pc pc' : parser token).
  Hypothesis Hsound : forall P, sound P a_token pc.
  Hypothesis Hrec : forall m, (m < n)%nat -> blindh m Rtok pc pc'.
  Lemma kvp_blindh m : (m < n)%nat -> blindh m Rtok (kvp pc) (kvp pc').
  Proof.
    intros Hm. unfold kvp. eapply map_blindh.
    - apply pair_blindh; [apply blindh_of_blind, wr_blind, config_key_blind| |].
      { apply shrinks_wr. apply (shrinks_of_sound _ _ (config_key_sound anyP)). }
      apply pair_blindh; [apply blindh_of_blind, wr_blind, char_blind|apply shrinks_wr, sh_char|].
      apply wr_blindh. apply alt_blindh; [apply Hrec; assumption|]. apply blindh_of_blind. eapply map_blind; [apply expression_blind|]. sc.
    - sc.
  Qed.
  Lemma config_map_body_blindh : blindh n Rtok (config_map_body pc) (config_map_body pc').
  Proof.
    unfold config_map_body. eapply map_blindh.
    - apply pair_blindh_rec; [apply blindh_of_blind, wr_blind, char_blind|apply wr_char_consumes1|].
      intros m Hm. apply pair_blindh; [apply many0_blindh; [apply kvp_blindh; assumption|]| |apply blindh_of_blind, wr_blind, char_blind].
      + apply (shrinks_of_sound _ _ (kvp_sound anyP pc Hsound)).
      + apply (shrinks_of_sound (fun l => concat (map a_token l))). apply many0_sound, kvp_sound, Hsound.
    - intros [l [inner r]] [l' [inner' r']] [_ [H _]]. unfold Rtok. cbn. f_equal. f_equal. f_equal. apply tokens_rel. exact H.
  Qed.
End CfgH.
Lemma config_map_fuel_blindh : forall n f f', (n < f)%nat -> (n < f')%nat -> blindh n Rtok (config_map_fuel f) (config_map_fuel f').
Proof.
  induction n as [n IH] using (well_founded_induction lt_wf). intros f f' Hf Hf'.
  destruct f as [|g]; [lia|]. destruct f' as [|g']; [lia|]. cbn [config_map_fuel].
  intros st st' i i' Hs Hi Hl.
  apply (config_map_body_blindh n (config_map_fuel g) (config_map_fuel g')); auto.
  - apply config_map_fuel_sound.
  - intros m Hm. apply IH; lia.
Qed.

(* ================================================================ part 2: layouts *)
(* diagnostics never disappear *)
Definition mono {A} (p : parser A) : Prop := forall st i, errors st <> [] -> errors (fst (p st i)) <> [].
Lemma mono_of_sound {A} (sa : A -> list atom) (p : parser A) : sound anyP sa p -> mono p.
Proof. intros Hp st i H. destruct (p st i) as [s res] eqn:E. destruct (Hp _ _ _ _ E) as [[_ Hs] _]. cbn. auto. Qed.
Lemma mono_terminal {A} (txt : A -> text) (p : parser A) : terminal txt p -> mono p.
Proof. intros T st i H. destruct (p st i) as [s res] eqn:E. destruct (T _ _ _ _ E) as [-> _]. exact H. Qed.
Lemma mono_map {A B} (f : A -> B) p : mono p -> mono (map_p f p).
Proof. intros Hp st i H. specialize (Hp st i H). unfold map_p. destruct (p st i) as [s [v r| |a]]; exact Hp. Qed.
Lemma mono_pair {A B} (p : parser A) (q : parser B) : mono p -> mono q -> mono (pair_p p q).
Proof.
  intros Hp Hq st i H. specialize (Hp st i H). unfold pair_p. destruct (p st i) as [s [v r| |a]]; cbn in *; auto.
  specialize (Hq s r Hp). destruct (q s r) as [t [w u| |b]]; exact Hq.
Qed.
Lemma mono_alt {A} (p q : parser A) : mono p -> mono q -> mono (alt p q).
Proof. intros Hp Hq st i H. specialize (Hp st i H). unfold alt. destruct (p st i) as [s [v r| |a]]; cbn in *; auto. Qed.
Lemma mono_fail {A} : mono (fun st _ => (st, @Err A)). Proof. intros st i H. exact H. Qed.
Lemma mono_alts_map {A T} (g : T -> parser A) table : (forall e, In e table -> mono (g e)) -> mono (alts (map g table)).
Proof. induction table as [|e t IH]; intros H; cbn [map alts]; [apply mono_fail|]. apply mono_alt; [apply H; left; reflexivity|apply IH; intros; apply H; right; assumption]. Qed.
Lemma mono_opt {A} (p : parser A) : mono p -> mono (opt p).
Proof. intros Hp st i H. specialize (Hp st i H). unfold opt. destruct (p st i) as [s [v r| |a]]; exact Hp. Qed.
Lemma mono_not {A} (p : parser A) : mono p -> mono (not_p p).
Proof. intros Hp st i H. specialize (Hp st i H). unfold not_p. destruct (p st i) as [s [v r| |a]]; exact Hp. Qed.
Lemma mono_peek {A} (p : parser A) : mono p -> mono (peek p).
Proof. intros Hp st i H. specialize (Hp st i H). unfold peek. destruct (p st i) as [s [v r| |a]]; exact Hp. Qed.
Lemma mono_recognize {A} (p : parser A) : mono p -> mono (recognize p).
Proof. intros Hp st i H. specialize (Hp st i H). unfold recognize. destruct (p st i) as [s [v r| |a]]; exact Hp. Qed.
Lemma mono_located {A} (p : parser A) : mono p -> mono (located_p p).
Proof. intros Hp st i H. specialize (Hp st i H). unfold located_p. destruct (p st i) as [s [v r| |a]]; exact Hp. Qed.
Lemma mono_with_trivia {A} tp (p : parser A) : mono tp -> mono p -> mono (with_trivia tp p).
Proof.
  intros Ht Hp st i H. pose proof (mono_opt _ Ht st i H) as H1. unfold with_trivia. destruct (opt tp st i) as [s [v r| |a]]; cbn in *; auto.
  specialize (Hp s r H1). destruct (p s r) as [t [w u| |b]]; exact Hp.
Qed.
Lemma mono_wr {A} w (p : parser A) : mono p -> mono (wr w p).
Proof.
  intros Hp. destruct w; cbn [wr].
  - apply mono_with_trivia; [apply (mono_of_sound _ _ (trivia_p_sound anyP))|assumption].
  - apply mono_with_trivia; [apply (mono_of_sound _ _ (multiline_trivia_sound anyP))|assumption].
  - apply mono_located; assumption.
Qed.
Lemma report_dirty d st : errors st <> [] -> errors (report_error d st) <> [].
Proof. intros H. unfold report_error. destruct (ignore_next st); cbn; [assumption|discriminate]. Qed.
Lemma mono_expect {A} (p : parser A) m : mono p -> mono (expect p m).
Proof.
  intros Hp st i H. specialize (Hp st i H). unfold expect. destruct (p st i) as [s [v r| |a]]; cbn in *; auto.
  destruct m; cbn; auto; apply report_dirty; assumption.
Qed.
Lemma mono_nested {A} k (p : parser A) : mono p -> mono (nested k p).
Proof.
  intros Hp st i H. unfold nested. destruct (nesting (enter_nesting st) <=? k)%nat.
  - specialize (Hp (enter_nesting st) i H). destruct (p (enter_nesting st) i) as [s res]. exact Hp.
  - cbn [fst leave_nesting errors]. apply report_dirty. exact H.
Qed.
Lemma mono_with_scope {A B} (p : parser A) (f : A -> nat -> B) : mono p -> mono (with_scope p f).
Proof. intros Hp st i H. specialize (Hp st i H). unfold with_scope. destruct (p st i) as [s [v r| |a]]; exact Hp. Qed.
Lemma mono_many0_aux {A} (p : parser A) : mono p -> forall f, mono (many0_aux f p).
Proof.
  intros Hp f. induction f as [|g IH]; intros st i H; cbn [many0_aux]; [exact H|].
  specialize (Hp st i H). destruct (p st i) as [s [v r| |a]]; cbn in *; auto.
  destruct (length (rem r) =? length (rem i))%nat; [exact Hp|]. specialize (IH s r Hp). destruct (many0_aux g p s r) as [t [l u| |b]]; exact IH.
Qed.
Lemma mono_many0 {A} (p : parser A) : mono p -> mono (many0 p).
Proof. intros Hp st i. unfold many0. apply mono_many0_aux; assumption. Qed.
Lemma mono_value {A} (v : A) : mono (value_p v). Proof. intros st i H. exact H. Qed.

(* ---------------------------------------------------------------- the relation on texts *)
Definition blank (c : N) : bool := (c =? 32) || (c =? 9) || (c =? 10) || (c =? 13).
Definition t5 (c : N) : bool := blank c || (c =? 47).
(* at the start of trivia, or at the end of the text *)
Definition thead (z : text) : Prop := match z with c :: _ => t5 c = true | [] => True end.
Definition nlhead (z : text) : Prop := match z with c :: _ => c = 10 \/ c = 13 | [] => True end.
Lemma nlhead_thead z : nlhead z -> thead z.
Proof. destruct z as [|c t]; cbn; [auto|]. intros [H|H]; subst; reflexivity. Qed.
Definition slash_ok (z : text) : Prop := match z with c :: _ => c <> 47 /\ c <> 42 | [] => True end.
(* from z the multi-line (single-line) trivia parser goes to w, in every state and at every position, silently *)
Definition mlead (z w : text) : Prop := forall st o, exists T r, opt multiline_trivia st (mkIn o z) = (st, Ok T r) /\ rem r = w.
Definition slead (z w : text) : Prop := forall st o, exists T r, opt trivia_p st (mkIn o z) = (st, Ok T r) /\ rem r = w.

(* lay l z z': z and z' are the same characters (none of them blank, a quote, or the start of a comment) with trivia at
   the same places.  l bounds what may stand at the front: 0 a character, 1 also trivia that starts with a line break,
   2 anything.  A trivia place is described by what the trivia parsers do there.  At a place of the general kind (lay_sl)
   each text starts with a blank, tab, `/`, CR or LF -- one may have single-line trivia in front of the line break and the
   other none (`nop // c<LF>` against `nop<LF>`): the single-line parser then consumes in one run only.  One of the two
   texts may also be at its end there (trailing trivia after the last statement in one text only). *)
Inductive lay : nat -> text -> text -> Prop :=
| lay_nil l : lay l [] []
| lay_chunk l c z z' : blank c = false -> c <> 34 -> (c = 47 -> slash_ok z /\ slash_ok z') -> lay 2 z z' -> lay l (c :: z) (c :: z')
| lay_nl l z z' w w' : (1 <= l)%nat -> nlhead z -> nlhead z' -> mlead z w -> mlead z' w' -> lay 0 w w' ->
    (length w <= length z)%nat -> (length w' <= length z')%nat -> lay l z z'
| lay_sl l z z' y y' w w' : (2 <= l)%nat -> thead z -> thead z' -> slead z y -> slead z' y' -> mlead z w -> mlead z' w' ->
    lay 1 y y' -> lay 0 w w' ->
    (length y <= length z)%nat -> (length y' <= length z')%nat -> (length w <= length z)%nat -> (length w' <= length z')%nat -> lay l z z'.

Lemma lay_le l m z z' : lay l z z' -> (l <= m)%nat -> lay m z z'.
Proof.
  intros H Hm. destruct H.
  - apply lay_nil.
  - apply lay_chunk; assumption.
  - eapply lay_nl; eauto. lia.
  - eapply lay_sl; eauto. lia.
Qed.
Lemma lay2_of l z z' : lay l z z' -> (l <= 2)%nat -> lay 2 z z'. Proof. intros; eapply lay_le; eassumption. Qed.

Definition nlc (c : N) : Prop := c = 10 \/ c = 13.
Definition stop (l : nat) (z : text) : Prop :=
  match z with [] => True | c :: _ => t5 c = true /\ ((l <= 1)%nat -> nlc c) end.
Lemma lay_inv l z z' : lay l z z' ->
  (exists c t t', z = c :: t /\ z' = c :: t' /\ blank c = false /\ c <> 34 /\ (c = 47 -> slash_ok t /\ slash_ok t') /\ lay 2 t t') \/
  (stop l z /\ stop l z').
Proof.
  intros H. destruct H.
  - right. split; exact I.
  - left. exists c, z, z'. repeat split; auto; apply H1; assumption.
  - right. pose proof (nlhead_thead _ H0) as T0. pose proof (nlhead_thead _ H1) as T1.
    split; [destruct z as [|c t]|destruct z' as [|c t]]; cbn in *; auto.
  - right. split; [destruct z as [|c t]|destruct z' as [|c t]]; cbn in *; auto; split; auto; lia.
Qed.

(* ---------------------------------------------------------------- where no trivia starts *)
Lemma trivia_impl_none st o z :
  match z with [] => True | c :: t => (is_space c = false) /\ (c = 47 -> slash_ok t) end ->
  trivia_impl st (mkIn o z) = (st, Err).
Proof.
  intros H. unfold trivia_impl, alts, alt, map_p, space1, take_while1_p, c_comment, cpp_comment, recognize, pair_p, tag. cbn [rem].
  destruct z as [|c t]; [reflexivity|]. destruct H as [H1 H2]. cbn [take_while]. rewrite H1. cbn [is_prefix t_slash_star t_slash_slash].
  destruct (c =? 47) eqn:E; cbn [andb]; [|reflexivity]. apply N.eqb_eq in E. specialize (H2 E). destruct t as [|d u]; [reflexivity|].
  destruct H2 as [A B]. apply N.eqb_neq in A, B. rewrite A, B. reflexivity.
Qed.
Lemma newline_none st o z : match z with [] => True | c :: _ => c <> 10 /\ c <> 13 end -> newline st (mkIn o z) = (st, Err).
Proof.
  intros H. unfold newline, map_p, pair_p, opt, char_p, satisfy. cbn [rem]. destruct z as [|c t]; [reflexivity|]. destruct H as [A B].
  assert (E1 : (13 =? c) = false) by (apply N.eqb_neq; congruence). assert (E2 : (10 =? c) = false) by (apply N.eqb_neq; congruence).
  rewrite E1. cbn [rem]. rewrite E2. reflexivity.
Qed.
Lemma opt_trivia_here st i : trivia_impl st i = (st, Err) -> opt trivia_p st i = (st, Ok None i).
Proof. intros H. unfold opt, trivia_p, map_p, located_p, many1, map_p, pair_p. rewrite H. reflexivity. Qed.
Lemma opt_multiline_here st i : trivia_impl st i = (st, Err) -> newline st i = (st, Err) -> opt multiline_trivia st i = (st, Ok None i).
Proof. intros H H2. unfold opt, multiline_trivia, map_p, located_p, many1, map_p, pair_p, alt. rewrite H, H2. reflexivity. Qed.

Lemma blank_space c : blank c = false -> is_space c = false.
Proof. unfold blank, is_space. intros H. apply orb_false_iff in H. destruct H as [H _]. apply orb_false_iff in H. destruct H as [H _]. exact H. Qed.
Lemma blank_nl c : blank c = false -> c <> 10 /\ c <> 13.
Proof.
  unfold blank. intros H. apply orb_false_iff in H. destruct H as [H B]. apply orb_false_iff in H. destruct H as [_ A].
  apply N.eqb_neq in A, B. auto.
Qed.

(* the single-line trivia parser in front of a text of level 2: it leads to a text of level 1 *)
Definition tprog (z y z' y' : text) : Prop := (length y <= length z)%nat /\ (length y' <= length z')%nat.
Lemma sl_step z z' : lay 2 z z' -> exists y y', (lay 1 y y' /\ tprog z y z' y') /\ slead z y /\ slead z' y'.
Proof.
  intros H. inversion H; subst.
  - exists [], []. split; [split; [apply lay_nil|split; lia]|]. split; intros st o; exists None, (mkIn o []); (split; [|reflexivity]); apply opt_trivia_here, trivia_impl_none; exact I.
  - exists (c :: z0), (c :: z'0). split; [split; [apply lay_chunk; assumption|split; lia]|].
    split; intros st o; eexists None, (mkIn o _); (split; [|reflexivity]); apply opt_trivia_here, trivia_impl_none; (split; [apply blank_space; assumption|]); intros E; apply H2; exact E.
  - exists z, z'. split; [split; [eapply lay_nl; eauto|split; lia]|].
    split; intros st o; eexists None, (mkIn o _); (split; [|reflexivity]); apply opt_trivia_here, trivia_impl_none.
    + destruct z as [|c t]; [exact I|]. cbn in H1. split; [destruct H1; subst; reflexivity|]. intros E. destruct H1; subst; discriminate.
    + destruct z' as [|c t]; [exact I|]. cbn in H2. split; [destruct H2; subst; reflexivity|]. intros E. destruct H2; subst; discriminate.
  - exists y, y'. split; [split; [assumption|split; assumption]|auto].
Qed.
(* the multi-line trivia parser: to a text of level 0 *)
Lemma ml_step l z z' : lay l z z' -> exists w w', (lay 0 w w' /\ tprog z w z' w') /\ mlead z w /\ mlead z' w'.
Proof.
  intros H. inversion H; subst.
  - exists [], []. split; [split; [apply lay_nil|split; lia]|]. split; intros st o; exists None, (mkIn o []); (split; [|reflexivity]);
      (apply opt_multiline_here; [apply trivia_impl_none|apply newline_none]; exact I).
  - exists (c :: z0), (c :: z'0). split; [split; [apply lay_chunk; assumption|split; lia]|].
    split; intros st o; eexists None, (mkIn o _); (split; [|reflexivity]);
      (apply opt_multiline_here; [apply trivia_impl_none; split; [apply blank_space; assumption|intros E; apply H2; exact E]|apply newline_none, blank_nl; assumption]).
  - exists w, w'. split; [split; [assumption|split; assumption]|auto].
  - exists w, w'. split; [split; [assumption|split; assumption]|auto].
Qed.

Lemma lay_to2 l z z' : lay l z z' -> lay 2 z z'.
Proof.
  intros H. destruct H.
  - apply lay_nil.
  - apply lay_chunk; assumption.
  - eapply lay_nl; eauto.
  - eapply lay_sl; eauto.
Qed.

(* ---------------------------------------------------------------- lexical parsers: both runs consume the same text *)
Definition stateless {A} (p : parser A) : Prop := forall st i, fst (p st i) = st.
Definition lexp {A} (l : nat) (RA : A -> A -> Prop) (p : parser A) : Prop :=
  stateless p /\
  forall st st' i i', lay l (rem i) (rem i') ->
    match snd (p st i), snd (p st' i') with
    | Ok v r, Ok v' r' => RA v v' /\ lay 2 (rem r) (rem r') /\ exists a, rem i = a ++ rem r /\ rem i' = a ++ rem r'
    | Err, Err => True
    | _, _ => False
    end.
Lemma lexp_weaken {A} l (RA : A -> A -> Prop) p : lexp 2 RA p -> lexp l RA p.
Proof. intros [S H]. split; [exact S|]. intros st st' i i' Hl. apply H. eapply lay_to2; eassumption. Qed.
Lemma lexp_rel {A} l (RA RB : A -> A -> Prop) p : lexp l RA p -> (forall a b, RA a b -> RB a b) -> lexp l RB p.
Proof.
  intros [S H] W. split; [exact S|]. intros st st' i i' Hl. specialize (H st st' i i' Hl).
  destruct (snd (p st i)), (snd (p st' i')); auto. destruct H as [H1 H2]. split; auto.
Qed.

Definition rej (l : nat) (f : N -> bool) : Prop := forall c, t5 c = true -> ((l <= 1)%nat -> nlc c) -> f c = false.

Lemma take_while_stop f z : rej 2 f -> thead z -> take_while f z = ([], z).
Proof. intros Hf H. destruct z as [|c t]; [reflexivity|]. cbn in *. rewrite (Hf c H); [reflexivity|]. intros; lia. Qed.
Lemma take_while_lay f : rej 2 f -> forall l z z', lay l z z' ->
  exists a y y', take_while f z = (a, y) /\ take_while f z' = (a, y') /\ lay 2 y y'.
Proof.
  intros Hf l z z' H. induction H.
  - exists [], [], []. repeat split. apply lay_nil.
  - cbn [take_while]. destruct (f c) eqn:Ec.
    + destruct IHlay as [a [y [y' [E1 [E2 Hy]]]]]. rewrite E1, E2. exists (c :: a), y, y'. auto.
    + exists [], (c :: z), (c :: z'). repeat split. apply lay_chunk; assumption.
  - assert (Hz : lay 2 z z') by (eapply lay_nl; eauto).
    exists [], z, z'. repeat split; [apply take_while_stop, nlhead_thead|apply take_while_stop, nlhead_thead|]; assumption.
  - assert (Hz : lay 2 z z') by (eapply lay_sl; eauto).
    exists [], z, z'. repeat split; [apply take_while_stop|apply take_while_stop|]; assumption.
Qed.
Lemma take_while1_lexp l f : rej 2 f -> lexp l eq (take_while1_p f).
Proof.
  intros Hf. split; [intros st i; unfold take_while1_p; destruct (take_while f (rem i)) as [[|c a] b]; reflexivity|].
  intros st st' i i' Hl. destruct (take_while_lay f Hf _ _ _ Hl) as [a [y [y' [E1 [E2 Hy]]]]]. unfold take_while1_p. rewrite E1, E2.
  apply take_while_app in E1, E2. destruct a as [|c a]; cbn; [exact I|]. split; [reflexivity|]. split; [exact Hy|]. exists (c :: a). auto.
Qed.
Lemma satisfy_lexp l f : rej l f -> lexp l eq (satisfy f).
Proof.
  intros Hf. split; [intros st i; unfold satisfy; destruct (rem i) as [|c t]; [reflexivity|destruct (f c); reflexivity]|].
  intros st st' i i' Hl. unfold satisfy. destruct (lay_inv _ _ _ Hl) as [[c [t [t' [E1 [E2 [_ [_ [_ Ht]]]]]]]]|[S1 S2]].
  - rewrite E1, E2. destruct (f c); cbn; [|exact I]. split; [reflexivity|]. split; [exact Ht|]. exists [c]. auto.
  - destruct (rem i) as [|c t], (rem i') as [|c' t']; cbn in S1, S2;
      try (rewrite (Hf c (proj1 S1) (proj2 S1))); try (rewrite (Hf c' (proj1 S2) (proj2 S2))); exact I.
Qed.
Lemma char_lexp l c : t5 c = false -> lexp l eq (char_p c).
Proof. intros H. apply satisfy_lexp. intros d Hd _. apply N.eqb_neq. intros E. subst. congruence. Qed.
Lemma value_lexp {A} l (v : A) : lexp l eq (value_p v).
Proof. split; [intros st i; reflexivity|]. intros st st' i i' Hl. cbn. split; [reflexivity|]. split; [eapply lay_to2; eassumption|]. exists []. auto. Qed.

(* tag: the first character may be / below a single-line trivia parser, the others are never the start of trivia *)
Lemma is_prefix_lay t : forallb (fun c => negb (t5 c)) t = true -> forall l z z', lay l z z' ->
  is_prefix t z = is_prefix t z' /\ (is_prefix t z = true -> lay 2 (skipn (length t) z) (skipn (length t) z') /\ firstn (length t) z = firstn (length t) z').
Proof.
  induction t as [|x t IH]; intros Ht l z z' Hl.
  - cbn. split; [reflexivity|]. intros _. split; [eapply lay_to2; eassumption|reflexivity].
  - cbn [forallb] in Ht. apply andb_true_iff in Ht. destruct Ht as [Hx Ht]. apply negb_true_iff in Hx.
    assert (K : forall z, stop l z -> is_prefix (x :: t) z = false).
    { intros [|c u] Hs; [reflexivity|]. cbn in *. destruct Hs as [T1 _].
      assert (A : (c =? x) = false) by (apply N.eqb_neq; intros E; subst; congruence). rewrite A. reflexivity. }
    destruct (lay_inv _ _ _ Hl) as [[c [u [u' [E1 [E2 [_ [_ [_ Hu]]]]]]]]|[S1 S2]].
    + rewrite E1, E2; cbn [is_prefix length skipn firstn].
      destruct (IH Ht _ _ _ Hu) as [I1 I2]. rewrite I1. split; [reflexivity|]. intros H. apply andb_true_iff in H. destruct H as [_ H].
      rewrite <- I1 in H. destruct (I2 H) as [J1 J2]. split; [assumption|]. f_equal. assumption.
    + rewrite (K z S1), (K z' S2). split; [reflexivity|discriminate].
Qed.
Lemma tag_lexp2 l t : forallb (fun c => negb (t5 c)) t = true -> lexp l eq (tag t).
Proof.
  intros Ht. split; [intros st i; unfold tag; destruct (is_prefix t (rem i)); reflexivity|].
  intros st st' i i' Hl. destruct (is_prefix_lay t Ht _ _ _ Hl) as [E H]. unfold tag. rewrite <- E. destruct (is_prefix t (rem i)) eqn:Ep; cbn; [|exact I].
  destruct (H eq_refl) as [H1 H2]. split; [assumption|]. split; [assumption|]. exists (firstn (length t) (rem i)).
  split; [symmetry; apply firstn_skipn|]. rewrite H2. symmetry. apply firstn_skipn.
Qed.
(* below ws: the first character only has to differ from a line break *)
Lemma tag_lexp1 c t : blank c = false -> forallb (fun c => negb (t5 c)) t = true -> lexp 1 eq (tag (c :: t)).
Proof.
  intros Hc Ht. split; [intros st i; unfold tag; destruct (is_prefix (c :: t) (rem i)); reflexivity|].
  intros st st' i i' Hl. unfold tag.
  assert (K : forall z, stop 1 z -> is_prefix (c :: t) z = false).
  { intros [|d u] Hs; [reflexivity|]. cbn in *. destruct Hs as [_ N1]. specialize (N1 ltac:(lia)).
    assert (A : (d =? c) = false) by (apply N.eqb_neq; intros E; subst; destruct N1; subst; discriminate). rewrite A. reflexivity. }
  destruct (lay_inv _ _ _ Hl) as [[d [u [u' [E1 [E2 [_ [_ [_ Hu]]]]]]]]|[S1 S2]].
  2: { rewrite (K _ S1), (K _ S2). exact I. }
  rewrite E1, E2; cbn [is_prefix length skipn firstn].
  - destruct (is_prefix_lay t Ht _ _ _ Hu) as [I1 I2]. rewrite <- I1. destruct ((d =? c) && is_prefix t u) eqn:Ep; cbn; [|exact I].
    apply andb_true_iff in Ep. destruct Ep as [_ Ep]. destruct (I2 Ep) as [J1 J2]. split; [f_equal; assumption|]. split; [assumption|].
    exists (d :: firstn (length t) u). cbn. split; f_equal; [symmetry; apply firstn_skipn|]. rewrite J2. symmetry. apply firstn_skipn.
Qed.

Lemma t5_cases c : t5 c = true -> c = 32 \/ c = 9 \/ c = 10 \/ c = 13 \/ c = 47.
Proof.
  unfold t5, blank. intros H. repeat (apply orb_true_iff in H; destruct H as [H|H]); apply N.eqb_eq in H; auto.
Qed.
Lemma t5_not_ident c : t5 c = true -> is_ident_char c = false.
Proof. intros H. destruct (t5_cases c H) as [?|[?|[?|[?|?]]]]; subst; reflexivity. Qed.
Lemma t5_lower x y : t5 x = true -> t5 y = false -> (ascii_lower x =? ascii_lower y) = false.
Proof.
  intros Hx Hy. apply N.eqb_neq. intros E. unfold ascii_lower at 2 in E. destruct ((65 <=? y) && (y <=? 90)) eqn:U.
  - apply andb_true_iff in U. destruct U as [U1 U2]. apply N.leb_le in U1, U2.
    destruct (t5_cases x Hx) as [X|[X|[X|[X|X]]]]; rewrite X in E; cbn in E; lia.
  - destruct (t5_cases x Hx) as [X|[X|[X|[X|X]]]]; rewrite X in E; cbn in E; rewrite <- E in Hy; discriminate.
Qed.
Lemma ci_eqb_t5 a : forall t, existsb t5 a = true -> forallb (fun c => negb (t5 c)) t = true -> ci_eqb a t = false.
Proof.
  induction a as [|x a IH]; intros t Ha Ht; [discriminate|]. destruct t as [|y t]; [reflexivity|]. cbn [ci_eqb].
  cbn [forallb] in Ht. apply andb_true_iff in Ht. destruct Ht as [Hy Ht]. apply negb_true_iff in Hy.
  cbn [existsb] in Ha. apply orb_true_iff in Ha. destruct Ha as [Hx|Ha].
  - rewrite (t5_lower x y Hx Hy). reflexivity.
  - rewrite (IH t Ha Ht). apply andb_false_r.
Qed.
Lemma lay_starts_ident l b b' : lay l b b' -> starts_ident b = starts_ident b'.
Proof.
  intros H. assert (K : forall z, stop l z -> starts_ident z = false).
  { intros [|c u] Hs; [reflexivity|]. cbn in *. apply t5_not_ident, Hs. }
  destruct (lay_inv _ _ _ H) as [[c [u [u' [E1 [E2 _]]]]]|[S1 S2]]; [rewrite E1, E2; reflexivity|]. rewrite (K _ S1), (K _ S2). reflexivity.
Qed.
Lemma take_bytes_stop z n : thead z -> match take_bytes z (S n) with BExact a b => existsb t5 a = true | _ => True end.
Proof.
  intros H. destruct z as [|c t]; [exact I|]. cbn in H.
  destruct (t5_cases c H) as [?|[?|[?|[?|?]]]]; subst c; cbn; rewrite Nat.sub_0_r; destruct (take_bytes t n); cbn; auto.
Qed.
Lemma take_bytes_stops z z' n : lay 2 z z' -> thead z -> thead z' ->
  match take_bytes z n, take_bytes z' n with
  | BExact a b, BExact a' b' => (a = a' /\ lay 2 b b' /\ z = a ++ b /\ z' = a ++ b') \/ (existsb t5 a = true /\ existsb t5 a' = true)
  | BExact a b, _ => existsb t5 a = true
  | _, BExact a' b' => existsb t5 a' = true
  | _, _ => True
  end.
Proof.
  intros Hz H H'. destruct n.
  - destruct z, z'; cbn; left; repeat split; assumption.
  - pose proof (take_bytes_stop z n H) as K. pose proof (take_bytes_stop z' n H') as K'.
    destruct (take_bytes z (S n)), (take_bytes z' (S n)); auto.
Qed.
Lemma take_bytes_lay l z z' : lay l z z' -> forall n,
  match take_bytes z n, take_bytes z' n with
  | BExact a b, BExact a' b' => (a = a' /\ lay 2 b b' /\ z = a ++ b /\ z' = a ++ b') \/ (existsb t5 a = true /\ existsb t5 a' = true)
  | BExact a b, _ => existsb t5 a = true
  | _, BExact a' b' => existsb t5 a' = true
  | _, _ => True
  end.
Proof.
  intros H. induction H; intros n.
  - destruct n; cbn; [left; repeat split; apply lay_nil|exact I].
  - destruct n; [cbn; left; repeat split; apply lay_chunk; assumption|]. cbn [take_bytes]. destruct (width_utf8 c <=? S n)%nat; [|exact I].
    specialize (IHlay (S n - width_utf8 c)%nat). destruct (take_bytes z (S n - width_utf8 c)), (take_bytes z' (S n - width_utf8 c)); auto.
    + destruct IHlay as [[E1 [E2 [E3 E4]]]|[E1 E2]]; [left; subst; auto|right]. cbn [existsb]. rewrite E1, E2, !orb_true_r. auto.
    + cbn [existsb]. rewrite IHlay. apply orb_true_r.
    + cbn [existsb]. rewrite IHlay. apply orb_true_r.
    + cbn [existsb]. rewrite IHlay. apply orb_true_r.
    + cbn [existsb]. rewrite IHlay. apply orb_true_r.
  - assert (Hz : lay 2 z z') by (eapply lay_nl; eauto). apply nlhead_thead in H0, H1. apply take_bytes_stops; assumption.
  - assert (Hz : lay 2 z z') by (eapply lay_sl; eauto). apply take_bytes_stops; assumption.
Qed.
Lemma tag_no_case_lexp l t : forallb (fun c => negb (t5 c)) t = true -> lexp l eq (tag_no_case t).
Proof.
  intros Ht. split.
  { intros st i. unfold tag_no_case. destruct (take_bytes (rem i) (length t)); try reflexivity. destruct (ci_eqb a t && negb (word_tag t && starts_ident b)); reflexivity. }
  intros st st' i i' Hl. pose proof (take_bytes_lay _ _ _ Hl (length t)) as H. unfold tag_no_case.
  destruct (take_bytes (rem i) (length t)) as [a b| |], (take_bytes (rem i') (length t)) as [a' b'| |]; cbn; auto.
  - destruct H as [[E1 [E2 [E3 E4]]]|[E1 E2]].
    + subst a'. rewrite (lay_starts_ident _ _ _ E2). destruct (ci_eqb a t && negb (word_tag t && starts_ident b')); cbn; [|exact I].
      split; [reflexivity|]. split; [assumption|]. exists a. auto.
    + rewrite (ci_eqb_t5 a t E1 Ht), (ci_eqb_t5 a' t E2 Ht). exact I.
  - rewrite (ci_eqb_t5 a t H Ht). exact I.
  - rewrite (ci_eqb_t5 a t H Ht). exact I.
  - rewrite (ci_eqb_t5 a' t H Ht). exact I.
  - rewrite (ci_eqb_t5 a' t H Ht). exact I.
Qed.

(* combinators for lexical parsers *)
Lemma map_lexp {A B} l (RA : A -> A -> Prop) (RB : B -> B -> Prop) (f : A -> B) p :
  lexp l RA p -> (forall a a', RA a a' -> RB (f a) (f a')) -> lexp l RB (map_p f p).
Proof.
  intros [S H] W. split; [intros st i; specialize (S st i); unfold map_p; destruct (p st i) as [s [v r| |a]]; exact S|].
  intros st st' i i' Hl. specialize (H st st' i i' Hl). unfold map_p.
  destruct (p st i) as [s [v r| |a]], (p st' i') as [s' [v' r'| |a']]; cbn in *; auto. destruct H as [H1 H2]. auto.
Qed.
Lemma pair_lexp {A B} l (RA : A -> A -> Prop) (RB : B -> B -> Prop) p q :
  lexp l RA p -> lexp 2 RB q -> lexp l (rpair RA RB) (pair_p p q).
Proof.
  intros [Sp Hp] [Sq Hq]. split.
  { intros st i. specialize (Sp st i). unfold pair_p. destruct (p st i) as [s [v r| |a]]; cbn in *; auto. subst s. specialize (Sq st r). destruct (q st r) as [t [w u| |b]]; exact Sq. }
  intros st st' i i' Hl. specialize (Hp st st' i i' Hl). pose proof (Sp st i) as S1. pose proof (Sp st' i') as S2. unfold pair_p.
  destruct (p st i) as [s [v r| |a]], (p st' i') as [s' [v' r'| |a']]; cbn in *; auto; try contradiction. subst s s'.
  destruct Hp as [Hv [Hr [a [E1 E2]]]]. specialize (Hq st st' r r' Hr).
  destruct (q st r) as [t [w u| |b]], (q st' r') as [t' [w' u'| |b']]; cbn in *; auto.
  destruct Hq as [Hw [Hu [a2 [E3 E4]]]]. split; [split; assumption|]. split; [assumption|]. exists (a ++ a2). rewrite <- !app_assoc, <- E3, <- E4. auto.
Qed.
Lemma alt_lexp {A} l (RA : A -> A -> Prop) p q : lexp l RA p -> lexp l RA q -> lexp l RA (alt p q).
Proof.
  intros [Sp Hp] [Sq Hq]. split.
  { intros st i. specialize (Sp st i). unfold alt. destruct (p st i) as [s [v r| |a]]; cbn in *; auto. subst s. apply Sq. }
  intros st st' i i' Hl. specialize (Hp st st' i i' Hl). pose proof (Sp st i) as S1. pose proof (Sp st' i') as S2. unfold alt.
  destruct (p st i) as [s [v r| |a]], (p st' i') as [s' [v' r'| |a']]; cbn in *; auto; try contradiction. subst s s'. apply Hq; assumption.
Qed.
Lemma fail_lexp {A} l (RA : A -> A -> Prop) : lexp l RA (fun st _ => (st, @Err A)).
Proof. split; [intros st i; reflexivity|]. intros st st' i i' _. exact I. Qed.
Lemma alts_map_lexp {A T} l (RA : A -> A -> Prop) (g : T -> parser A) table :
  (forall e, In e table -> lexp l RA (g e)) -> lexp l RA (alts (map g table)).
Proof. induction table as [|e t IH]; intros H; cbn [map alts]; [apply fail_lexp|]. apply alt_lexp; [apply H; left; reflexivity|apply IH; intros; apply H; right; assumption]. Qed.
Lemma opt_lexp {A} l (RA : A -> A -> Prop) p : lexp l RA p -> lexp l (ropt RA) (opt p).
Proof.
  intros [S H]. split; [intros st i; specialize (S st i); unfold opt; destruct (p st i) as [s [v r| |a]]; exact S|].
  intros st st' i i' Hl. specialize (H st st' i i' Hl). unfold opt.
  destruct (p st i) as [s [v r| |a]], (p st' i') as [s' [v' r'| |a']]; cbn in *; auto; try contradiction.
  split; [exact I|]. split; [eapply lay_to2; eassumption|]. exists []. auto.
Qed.
Lemma not_lexp {A} l (RA : A -> A -> Prop) p : lexp l RA p -> lexp l Rany (not_p p).
Proof.
  intros [S H]. split; [intros st i; specialize (S st i); unfold not_p; destruct (p st i) as [s [v r| |a]]; exact S|].
  intros st st' i i' Hl. specialize (H st st' i i' Hl). unfold not_p.
  destruct (p st i) as [s [v r| |a]], (p st' i') as [s' [v' r'| |a']]; cbn in *; auto; try contradiction.
  split; [exact I|]. split; [eapply lay_to2; eassumption|]. exists []. auto.
Qed.
Lemma firstn_consumed (a b : text) : firstn (length (a ++ b) - length b) (a ++ b) = a.
Proof. rewrite app_length, Nat.add_sub. rewrite firstn_app, Nat.sub_diag, firstn_all. cbn. apply app_nil_r. Qed.
Lemma recognize_lexp {A} l (RA : A -> A -> Prop) p : lexp l RA p -> lexp l eq (recognize p).
Proof.
  intros [S H]. split; [intros st i; specialize (S st i); unfold recognize; destruct (p st i) as [s [v r| |a]]; exact S|].
  intros st st' i i' Hl. specialize (H st st' i i' Hl). unfold recognize.
  destruct (p st i) as [s [v r| |a]], (p st' i') as [s' [v' r'| |a']]; cbn in *; auto.
  destruct H as [_ [Hr [a [E1 E2]]]]. split; [|split; [assumption|exists a; auto]]. rewrite E1, E2, !firstn_consumed. reflexivity.
Qed.
Lemma many0_aux_stateless {A} (p : parser A) : stateless p -> forall f, stateless (many0_aux f p).
Proof.
  intros S f. induction f as [|g IH]; intros st i; cbn [many0_aux]; [reflexivity|]. specialize (S st i).
  destruct (p st i) as [s [v r| |a]]; cbn in *; auto. subst s. destruct (length (rem r) =? length (rem i))%nat; [reflexivity|].
  specialize (IH st r). destruct (many0_aux g p st r) as [t [l u| |b]]; exact IH.
Qed.
Lemma many0_aux_lexp {A} (RA : A -> A -> Prop) p : lexp 2 RA p ->
  forall f f' st st' i i', (length (rem i) < f)%nat -> (length (rem i') < f')%nat -> lay 2 (rem i) (rem i') ->
    match snd (many0_aux f p st i), snd (many0_aux f' p st' i') with
    | Ok v r, Ok v' r' => Forall2 RA v v' /\ lay 2 (rem r) (rem r') /\ exists a, rem i = a ++ rem r /\ rem i' = a ++ rem r'
    | Err, Err => True
    | _, _ => False
    end.
Proof.
  intros [S H] f. induction f as [|g IH]; intros f' st st' i i' Hf Hf' Hl; [lia|]. destruct f' as [|g']; [lia|]. cbn [many0_aux].
  specialize (H st st' i i' Hl). pose proof (S st i) as S1. pose proof (S st' i') as S2.
  destruct (p st i) as [s [v r| |a]], (p st' i') as [s' [v' r'| |a']]; cbn in *; auto; try contradiction.
  - subst s s'. destruct H as [Hv [Hr [a [E1 E2]]]].
    assert (L1 : length (rem i) = (length a + length (rem r))%nat) by (rewrite E1, app_length; reflexivity).
    assert (L2 : length (rem i') = (length a + length (rem r'))%nat) by (rewrite E2, app_length; reflexivity).
    destruct a as [|c a]; cbn [length] in L1, L2.
    + rewrite (proj2 (Nat.eqb_eq _ _)) by lia. rewrite (proj2 (Nat.eqb_eq _ _)) by lia. exact I.
    + rewrite (proj2 (Nat.eqb_neq _ _)) by lia. rewrite (proj2 (Nat.eqb_neq _ _)) by lia.
      specialize (IH g' st st' r r' ltac:(lia) ltac:(lia) Hr).
      destruct (many0_aux g p st r) as [t [w u| |b]], (many0_aux g' p st' r') as [t' [w' u'| |b']]; cbn in *; auto.
      destruct IH as [Hw [Hu [a2 [E3 E4]]]]. split; [constructor; assumption|]. split; [assumption|]. exists ((c :: a) ++ a2).
      rewrite <- !app_assoc, <- E3, <- E4. auto.
  - split; [constructor|]. split; [assumption|]. exists []. auto.
Qed.
Lemma many0_lexp {A} l (RA : A -> A -> Prop) p : lexp 2 RA p -> lexp l (Forall2 RA) (many0 p).
Proof.
  intros Hp. split; [intros st i; unfold many0; apply many0_aux_stateless, Hp|].
  intros st st' i i' Hl. unfold many0. apply many0_aux_lexp; auto. eapply lay_to2; eassumption.
Qed.
Lemma many1_lexp {A} l (RA : A -> A -> Prop) p : lexp 2 RA p -> lexp l (Forall2 RA) (many1 p).
Proof.
  intros Hp. unfold many1. eapply map_lexp; [apply pair_lexp; [apply lexp_weaken; exact Hp|apply many0_lexp; exact Hp]|].
  intros [a l1] [a' l1'] [H1 H2]. constructor; assumption.
Qed.
Lemma separated_list1_lexp {A B} l (RA : A -> A -> Prop) (RB : B -> B -> Prop) (sep : parser B) (f : parser A) :
  lexp 2 RB sep -> lexp 2 RA f -> lexp l (Forall2 RA) (separated_list1 sep f).
Proof.
  intros Hs Hf. unfold separated_list1. eapply map_lexp.
  - apply pair_lexp; [apply lexp_weaken; exact Hf|]. apply many0_lexp. apply pair_lexp; [exact Hs|exact Hf].
  - intros [a l1] [a' l1'] [H1 H2]. cbn in *. constructor; [assumption|]. induction H2 as [|[x y] [x' y'] t t' [_ Hy] _ IH]; cbn; constructor; assumption.
Qed.

(* ---------------------------------------------------------------- the two-run relation *)
Definition clean (st : pstate) : Prop := errors st = [] /\ ignore_next st = false.
Definition SRC (st st' : pstate) : Prop := clean st /\ clean st' /\ anon_idx st = anon_idx st' /\ nesting st = nesting st'.
Definition dirty2 (s s' : pstate) : Prop := errors s <> [] /\ errors s' <> [].
(* both runs consumed something, or both consumed nothing *)
Definition prog (i r i' r' : input) : Prop := tprog (rem i) (rem r) (rem i') (rem r').
Lemma prog_stay i i' : prog i i i' i'. Proof. split; lia. Qed.
Lemma prog_trans i r u i' r' u' : prog i r i' r' -> prog r u r' u' -> prog i u i' u'.
Proof. unfold prog, tprog. intros [A B] [C D]. split; lia. Qed.
(* either both runs have reported something (then nothing more is claimed), or both are silent and the results correspond *)
Definition LR {A} (RA : A -> A -> Prop) (i i' : input) (X X' : pstate * result A) : Prop :=
  dirty2 (fst X) (fst X') \/
  (SRC (fst X) (fst X') /\
   match snd X, snd X' with
   | Ok v r, Ok v' r' => RA v v' /\ lay 2 (rem r) (rem r') /\ prog i r i' r'
   | Err, Err => True
   | Abort a, Abort a' => a = a'
   | _, _ => False
   end).
Definition lay2 {A} (l : nat) (RA : A -> A -> Prop) (p : parser A) : Prop :=
  mono p /\ forall st st' i i', SRC st st' -> lay l (rem i) (rem i') -> LR RA i i' (p st i) (p st' i').

Lemma lay2_weaken {A} l (RA : A -> A -> Prop) p : lay2 2 RA p -> lay2 l RA p.
Proof. intros [M H]. split; [exact M|]. intros st st' i i' Hs Hl. apply H; [assumption|]. eapply lay_to2; eassumption. Qed.
Lemma lay2_rel {A} l (RA RB : A -> A -> Prop) p : lay2 l RA p -> (forall a b, RA a b -> RB a b) -> lay2 l RB p.
Proof.
  intros [M H] W. split; [exact M|]. intros st st' i i' Hs Hl. specialize (H st st' i i' Hs Hl). destruct H as [D|[S H]]; [left; exact D|right].
  split; [exact S|]. destruct (snd (p st i)), (snd (p st' i')); auto. destruct H as [H1 H2]. split; auto.
Qed.
Lemma lexp_lay2 {A} l (RA : A -> A -> Prop) p : lexp l RA p -> lay2 l RA p.
Proof.
  intros [S H]. split; [intros st i Hd; rewrite S; exact Hd|].
  intros st st' i i' Hs Hl. specialize (H st st' i i' Hl). right. rewrite !S. split; [exact Hs|].
  destruct (snd (p st i)) as [v r| |], (snd (p st' i')) as [v' r'| |]; auto; try contradiction. destruct H as [H1 [H2 [a [E1 E2]]]]. split; [assumption|]. split; [assumption|].
  unfold prog, tprog. rewrite E1, E2, !app_length. lia.
Qed.

Lemma dirty_pair {A B} (p : parser A) (q : parser B) st i : mono q -> errors (fst (p st i)) <> [] -> errors (fst (pair_p p q st i)) <> [].
Proof. intros Mq D. unfold pair_p. destruct (p st i) as [s [v r| |a]]; cbn in *; auto. specialize (Mq s r D). destruct (q s r) as [t [w u| |b]]; exact Mq. Qed.
Lemma dirty_alt {A} (p q : parser A) st i : mono q -> errors (fst (p st i)) <> [] -> errors (fst (alt p q st i)) <> [].
Proof. intros Mq D. unfold alt. destruct (p st i) as [s [v r| |a]]; cbn in *; auto. Qed.
Lemma dirty_many0 {A} (p : parser A) g st i : mono p -> errors (fst (p st i)) <> [] -> errors (fst (many0_aux (S g) p st i)) <> [].
Proof.
  intros M D. cbn [many0_aux]. destruct (p st i) as [s [v r| |a]]; cbn in *; auto. destruct (length (rem r) =? length (rem i))%nat; [exact D|].
  pose proof (mono_many0_aux p M g s r D) as H. destruct (many0_aux g p s r) as [t [l u| |b]]; exact H.
Qed.

(* the recurring case analysis: H : LR .. (p st i) (p st' i') *)
Ltac lr_cases p st i st' i' H :=
  destruct (p st i) as [?s [?v ?r| |?a]], (p st' i') as [?s' [?v' ?r'| |?a']]; cbn in H; destruct H as [?D|[?S H]]; try (left; assumption); try contradiction.

Ltac lr_cases2 p p' st i st' i' H :=
  destruct (p st i) as [?s [?v ?r| |?a]], (p' st' i') as [?s' [?v' ?r'| |?a']]; cbn in H; destruct H as [?D|[?S H]]; try (left; assumption); try contradiction.

Lemma map_lay {A B} l (RA : A -> A -> Prop) (RB : B -> B -> Prop) (f : A -> B) p :
  lay2 l RA p -> (forall a a', RA a a' -> RB (f a) (f a')) -> lay2 l RB (map_p f p).
Proof.
  intros [M H] W. split; [apply mono_map; exact M|]. intros st st' i i' Hs Hl. specialize (H st st' i i' Hs Hl). unfold map_p.
  lr_cases p st i st' i' H; right; split; cbn; auto. destruct H as [H1 H2]; split; auto.
Qed.
Lemma pair_lay {A B} l (RA : A -> A -> Prop) (RB : B -> B -> Prop) p q :
  lay2 l RA p -> lay2 2 RB q -> lay2 l (rpair RA RB) (pair_p p q).
Proof.
  intros [Mp Hp] [Mq Hq]. split; [apply mono_pair; assumption|]. intros st st' i i' Hs Hl.
  specialize (Hp st st' i i' Hs Hl). destruct Hp as [[D1 D2]|[S H]]; [left; split; apply dirty_pair; assumption|]. unfold pair_p.
  destruct (p st i) as [s [v r| |a]], (p st' i') as [s' [v' r'| |a']]; cbn in S, H; try contradiction; try (right; split; cbn; auto; fail).
  destruct H as [Hv [Hr Hg]]. specialize (Hq s s' r r' S Hr).
  lr_cases q s r s' r' Hq; right; split; cbn; auto.
  destruct Hq as [H1 [H2 H3]]. split; [split; assumption|]. split; [assumption|]. eapply prog_trans; eassumption.
Qed.
(* p never succeeds on such texts: what follows it does not matter *)
Definition dead {A} (l : nat) (p : parser A) : Prop :=
  forall st i i', (lay l (rem i) (rem i') \/ lay l (rem i') (rem i)) -> forall s v r, p st i <> (s, Ok v r).
Lemma pair_dead {A B} l (RA : A -> A -> Prop) (RB : B -> B -> Prop) p (q : parser B) :
  lay2 l RA p -> dead l p -> mono (pair_p p q) -> lay2 l (rpair RA RB) (pair_p p q).
Proof.
  intros [Mp Hp] Hd Mq. split; [assumption|]. intros st st' i i' Hs Hl.
  specialize (Hp st st' i i' Hs Hl). pose proof (Hd st i i' (or_introl Hl)) as D1. pose proof (Hd st' i' i (or_intror Hl)) as D2. unfold pair_p.
  destruct (p st i) as [s [v r| |a]]; [exfalso; eapply D1; reflexivity| |];
    (destruct (p st' i') as [s' [v' r'| |a']]; [exfalso; eapply D2; reflexivity| |]); cbn in *;
    destruct Hp as [D|[S H]]; try (left; exact D); try contradiction; right; split; auto.
Qed.
Lemma alt_lay {A} l (RA : A -> A -> Prop) p q : lay2 l RA p -> lay2 l RA q -> lay2 l RA (alt p q).
Proof.
  intros [Mp Hp] [Mq Hq]. split; [apply mono_alt; assumption|]. intros st st' i i' Hs Hl.
  specialize (Hp st st' i i' Hs Hl). destruct Hp as [[D1 D2]|[S H]]; [left; split; apply dirty_alt; assumption|]. unfold alt.
  destruct (p st i) as [s [v r| |a]], (p st' i') as [s' [v' r'| |a']]; cbn in S, H; try contradiction; try (right; split; cbn; auto; fail).
  apply Hq; assumption.
Qed.
Lemma fail_lay {A} l (RA : A -> A -> Prop) : lay2 l RA (fun st _ => (st, @Err A)).
Proof. split; [apply mono_fail|]. intros st st' i i' Hs _. right. split; cbn; auto. Qed.
Lemma alts_map_lay {A T} l (RA : A -> A -> Prop) (g : T -> parser A) table :
  (forall e, In e table -> lay2 l RA (g e)) -> lay2 l RA (alts (map g table)).
Proof. induction table as [|e t IH]; intros H; cbn [map alts]; [apply fail_lay|]. apply alt_lay; [apply H; left; reflexivity|apply IH; intros; apply H; right; assumption]. Qed.
Lemma opt_lay {A} l (RA : A -> A -> Prop) p : lay2 l RA p -> lay2 l (ropt RA) (opt p).
Proof.
  intros [M H]. split; [apply mono_opt; exact M|]. intros st st' i i' Hs Hl. specialize (H st st' i i' Hs Hl). unfold opt.
  lr_cases p st i st' i' H; right; split; cbn; auto.
  split; [exact I|]. split; [eapply lay_to2; eassumption|apply prog_stay].
Qed.
Lemma not_lay {A} l (RA : A -> A -> Prop) p : lay2 l RA p -> lay2 l Rany (not_p p).
Proof.
  intros [M H]. split; [apply mono_not; exact M|]. intros st st' i i' Hs Hl. specialize (H st st' i i' Hs Hl). unfold not_p.
  lr_cases p st i st' i' H; right; split; cbn; auto.
  split; [exact I|]. split; [eapply lay_to2; eassumption|apply prog_stay].
Qed.
Lemma peek_lay {A} l (RA : A -> A -> Prop) p : lay2 l RA p -> lay2 l RA (peek p).
Proof.
  intros [M H]. split; [apply mono_peek; exact M|]. intros st st' i i' Hs Hl. specialize (H st st' i i' Hs Hl). unfold peek.
  lr_cases p st i st' i' H; right; split; cbn; auto.
  destruct H as [H1 _]. split; [assumption|]. split; [eapply lay_to2; eassumption|apply prog_stay].
Qed.
Lemma located_lay {A} l (RA : A -> A -> Prop) p : lay2 l RA p -> lay2 l (Rloc RA) (located_p p).
Proof.
  intros [M H]. split; [apply mono_located; exact M|]. intros st st' i i' Hs Hl. specialize (H st st' i i' Hs Hl). unfold located_p.
  lr_cases p st i st' i' H; right; split; cbn; auto.
Qed.
(* a wrapped parser: the trivia parser moves both texts to the next level *)
Lemma with_trivia_lay {A} (l0 : nat) (RA : A -> A -> Prop) (tp : parser ltrivia) p : mono tp ->
  (forall z z', lay 2 z z' -> exists y y', (lay l0 y y' /\ tprog z y z' y') /\
     (forall st o, exists T r, opt tp st (mkIn o z) = (st, Ok T r) /\ rem r = y) /\
     (forall st o, exists T r, opt tp st (mkIn o z') = (st, Ok T r) /\ rem r = y')) ->
  lay2 l0 RA p -> lay2 2 (Rloc RA) (with_trivia tp p).
Proof.
  intros Mt Hstep [M H]. split; [apply mono_with_trivia; assumption|]. intros st st' [o z] [o' z'] Hs Hl. cbn [rem] in Hl.
  destruct (Hstep z z' Hl) as [y [y' [[Hy Hg] [S1 S2]]]]. destruct (S1 st o) as [T [r [E1 R1]]]. destruct (S2 st' o') as [T' [r' [E2 R2]]].
  unfold with_trivia. rewrite E1, E2. subst y y'. specialize (H st st' r r' Hs Hy).
  lr_cases p st r st' r' H; right; split; cbn; auto.
  destruct H as [H1 [H2 H3]]. split; [exact H1|]. split; [exact H2|]. eapply prog_trans; [|exact H3]. exact Hg.
Qed.
Lemma ws_lay {A} (RA : A -> A -> Prop) p : lay2 1 RA p -> lay2 2 (Rloc RA) (ws p).
Proof. intros H. unfold ws. apply (with_trivia_lay 1); [apply (mono_of_sound _ _ (trivia_p_sound anyP))| |exact H]. intros z z' Hl. apply sl_step; assumption. Qed.
Lemma mws_lay {A} (RA : A -> A -> Prop) p : lay2 0 RA p -> lay2 2 (Rloc RA) (mws p).
Proof. intros H. unfold mws. apply (with_trivia_lay 0); [apply (mono_of_sound _ _ (multiline_trivia_sound anyP))| |exact H]. intros z z' Hl. eapply ml_step; eassumption. Qed.
Lemma wr_lay {A} (RA : A -> A -> Prop) w p : lay2 2 RA p -> lay2 2 (Rloc RA) (wr w p).
Proof.
  intros H. destruct w; cbn [wr]; [apply ws_lay, lay2_weaken, H|apply mws_lay, lay2_weaken, H|apply located_lay, H].
Qed.
Lemma SRC_clean_report d d' s s' : SRC s s' -> dirty2 (report_error d s) (report_error d' s').
Proof. intros [[_ I1] [[_ I2] _]]. unfold report_error. rewrite I1, I2. split; cbn; discriminate. Qed.
Lemma expect_lay {A} l (RA : A -> A -> Prop) p m : lay2 l RA p -> lay2 l (ropt RA) (expect p m).
Proof.
  intros [M H]. split; [apply mono_expect; exact M|]. intros st st' i i' Hs Hl. specialize (H st st' i i' Hs Hl). unfold expect.
  destruct (p st i) as [s [v r| |a]], (p st' i') as [s' [v' r'| |a']]; cbn in H; destruct H as [[D1 D2]|[S H]]; try contradiction.
  all: try (right; split; cbn; auto; fail).
  all: try (left; destruct m; cbn; split; auto using report_dirty; fail).
  destruct m; cbn; try (left; apply SRC_clean_report; exact S). right. split; [exact S|]. split; [exact I|]. split; [eapply lay_to2; eassumption|apply prog_stay].
Qed.
Lemma nested_lay {A} l (RA : A -> A -> Prop) k p : lay2 l RA p -> lay2 l RA (nested k p).
Proof.
  intros [M H]. split; [apply mono_nested; exact M|]. intros st st' i i' Hs Hl. unfold nested.
  assert (He : SRC (enter_nesting st) (enter_nesting st')).
  { destruct Hs as [[A1 A2] [[B1 B2] [C D]]]. repeat split; cbn; auto. }
  assert (Hn : nesting (enter_nesting st) = nesting (enter_nesting st')) by (apply He).
  rewrite <- Hn. destruct (nesting (enter_nesting st) <=? k)%nat.
  - specialize (H _ _ i i' He Hl). destruct (p (enter_nesting st) i) as [s R], (p (enter_nesting st') i') as [s' R']. cbn in *.
    destruct H as [D|[[[A1 A2] [[B1 B2] [C D]]] H2]]; [left; exact D|right]. split; [repeat split; cbn; auto|exact H2].
  - left. cbn [fst leave_nesting errors]. apply SRC_clean_report. exact He.
Qed.
Lemma with_scope_lay {A B} l (RA : A -> A -> Prop) (RB : B -> B -> Prop) p (f : A -> nat -> B) :
  lay2 l RA p -> (forall a a' k, RA a a' -> RB (f a k) (f a' k)) -> lay2 l RB (with_scope p f).
Proof.
  intros [M H] W. split; [apply mono_with_scope; exact M|]. intros st st' i i' Hs Hl. specialize (H st st' i i' Hs Hl). unfold with_scope.
  lr_cases p st i st' i' H; try (right; split; cbn; auto; fail).
  destruct S as [[A1 A2] [[B1 B2] [C D]]]. destruct H as [Hv Hr]. cbn in *. rewrite C. right. split; [repeat split; cbn; auto|]. split; [apply W; assumption|assumption].
Qed.
(* many0 with the fuel each run computes from its own text; the elements consume something (so the no-progress test is
   false in both runs, whatever trivia each of them skipped) *)
Lemma many0_aux_lay {A} (RA : A -> A -> Prop) p : lay2 2 RA p -> consumes1 p ->
  forall f f' st st' i i', (length (rem i) < f)%nat -> (length (rem i') < f')%nat -> SRC st st' -> lay 2 (rem i) (rem i') ->
    LR (Forall2 RA) i i' (many0_aux f p st i) (many0_aux f' p st' i').
Proof.
  intros [M H] Hc f. induction f as [|g IH]; intros f' st st' i i' Hf Hf' Hs Hl; [lia|]. destruct f' as [|g']; [lia|].
  specialize (H st st' i i' Hs Hl). destruct H as [[D1 D2]|[Sc H]]; [left; split; apply dirty_many0; assumption|]. cbn [many0_aux].
  pose proof (Hc st i) as C1. pose proof (Hc st' i') as C2.
  destruct (p st i) as [s [v r| |a]], (p st' i') as [s' [v' r'| |a']]; cbn in Sc, H; try contradiction; try (right; split; cbn; auto; fail).
  - specialize (C1 _ _ _ eq_refl). specialize (C2 _ _ _ eq_refl). destruct H as [Hv [Hr Hg]].
    rewrite (proj2 (Nat.eqb_neq (length (rem r)) (length (rem i)))) by lia.
    rewrite (proj2 (Nat.eqb_neq (length (rem r')) (length (rem i')))) by lia.
    specialize (IH g' s s' r r' ltac:(lia) ltac:(lia) Sc Hr).
    lr_cases2 (many0_aux g p) (many0_aux g' p) s r s' r' IH.
    + destruct IH as [H1 [H2 H3]]. right. split; [assumption|]. cbn. split; [constructor; assumption|]. split; [assumption|]. eapply prog_trans; eassumption.
    + right. split; cbn; auto.
    + right. split; cbn; auto.
  - right. split; [exact Sc|]. cbn. split; [constructor|]. split; [assumption|apply prog_stay].
Qed.
Lemma many0_lay {A} l (RA : A -> A -> Prop) p : lay2 2 RA p -> consumes1 p -> lay2 l (Forall2 RA) (many0 p).
Proof.
  intros Hp Hc. split; [apply mono_many0, Hp|]. intros st st' i i' Hs Hl. unfold many0. apply many0_aux_lay; auto. eapply lay_to2; eassumption.
Qed.

(* ================================================================ part 3: the grammar *)
Definition nt5 (t : text) : bool := forallb (fun c => negb (t5 c)) t.
Ltac rej_tac := let c := fresh "c" in let H := fresh "H" in intros c H _; destruct (t5_cases c H) as [?|[?|[?|[?|?]]]]; subst; reflexivity.

Lemma identifier_name_lexp l : lexp l eq identifier_name.
Proof.
  unfold identifier_name. eapply recognize_lexp, pair_lexp.
  - apply alt_lexp; [apply take_while1_lexp; rej_tac|apply tag_lexp2; reflexivity].
  - apply many0_lexp. apply alt_lexp; [apply take_while1_lexp; rej_tac|apply tag_lexp2; reflexivity].
Qed.
Lemma identifier_scope_lexp l : lexp l eq identifier_scope.
Proof.
  unfold identifier_scope. eapply map_lexp.
  - apply pair_lexp; [apply alt_lexp; apply char_lexp; reflexivity|]. eapply not_lexp. apply take_while1_lexp. rej_tac.
  - sc.
Qed.
Lemma identifier_path_lay : lay2 2 eq identifier_path.
Proof.
  unfold identifier_path. eapply map_lay.
  - apply wr_lay, lexp_lay2. eapply separated_list1_lexp; [apply char_lexp; reflexivity|].
    apply alt_lexp; [apply identifier_scope_lexp|apply identifier_name_lexp].
  - intros l l' H. apply Forall2_eq. exact H.
Qed.
Lemma keyword_lexp l k : nt5 (fst k) = true -> lexp l eq (keyword_p k).
Proof. intros H. unfold keyword_p. eapply map_lexp; [apply tag_no_case_lexp; exact H|sc]. Qed.
Lemma tagged_lexp {V} l (table : list (text * V)) : forallb (fun e => nt5 (fst e)) table = true -> lexp l eq (tagged table).
Proof.
  intros H. unfold tagged. apply alts_map_lexp. intros e He. rewrite forallb_forall in H. eapply map_lexp; [apply tag_no_case_lexp, H, He|sc].
Qed.
Lemma mnemonic_of_lexp l table : forallb (fun e => nt5 (fst e)) table = true -> lexp l eq (mnemonic_of table).
Proof. intros H. unfold mnemonic_of. apply alts_map_lexp. intros e He. rewrite forallb_forall in H. apply keyword_lexp, H, He. Qed.
Lemma kw_lay w k : nt5 (fst k) = true -> lay2 2 (Rloc eq) (wr w (keyword_p k)).
Proof. intros H. apply wr_lay, lexp_lay2, keyword_lexp, H. Qed.
Lemma ch_lay w c : t5 c = false -> lay2 2 (Rloc eq) (wr w (char_p c)).
Proof. intros H. apply wr_lay, lexp_lay2, char_lexp, H. Qed.
Lemma name_lay w : lay2 2 (Rloc eq) (wr w identifier_name).
Proof. apply wr_lay, lexp_lay2, identifier_name_lexp. Qed.

(* string literals: the texts contain no quote, the opening quote is never found *)
Lemma lay0_inv z z' : lay 0 z z' -> (z = [] /\ z' = []) \/
  (exists c t t', z = c :: t /\ z' = c :: t' /\ blank c = false /\ c <> 34 /\ (c = 47 -> slash_ok t /\ slash_ok t') /\ lay 2 t t').
Proof.
  intros H. inversion H; subst; try lia; [left; auto|right]. exists c, z0, z'0. repeat split; auto; apply H2; assumption.
Qed.
Lemma char34_fails l z z' : lay l z z' -> forall st o, char_p 34 st (mkIn o z) = (st, Err) /\ char_p 34 st (mkIn o z') = (st, Err).
Proof.
  intros H st o. unfold char_p, satisfy. cbn [rem].
  assert (K : forall y, stop l y -> match y with [] => (st, @Err N) | c :: r => if 34 =? c then (st, Ok c (consume [c] r (mkIn o y))) else (st, Err) end = (st, Err)).
  { intros [|c u] Hs; [reflexivity|]. cbn in Hs. destruct Hs as [T1 _].
    assert (A : (34 =? c) = false) by (destruct (t5_cases c T1) as [?|[?|[?|[?|?]]]]; subst; reflexivity). rewrite A. reflexivity. }
  destruct (lay_inv _ _ _ H) as [[c [t [t' [E1 [E2 [_ [Hc _]]]]]]]|[S1 S2]].
  - rewrite E1, E2. assert (E : (34 =? c) = false) by (apply N.eqb_neq; congruence). rewrite E. auto.
  - split; [destruct z|destruct z']; first [reflexivity|apply (K _ S1)|apply (K _ S2)].
Qed.
Lemma quote_dead w : dead 2 (wr w (char_p 34)).
Proof.
  intros st [o z] [o' z'] Hl s v r E. cbn [rem] in Hl. destruct w; cbn [wr] in E.
  - unfold ws, with_trivia in E. destruct Hl as [Hl|Hl]; destruct (sl_step _ _ Hl) as [y [y' [[Hy _] [S1 S2]]]].
    + destruct (S1 st o) as [T [[o2 y2] [E1 R1]]]. rewrite E1 in E. cbn in R1. subst. rewrite (proj1 (char34_fails _ _ _ Hy st o2)) in E. discriminate.
    + destruct (S2 st o) as [T [[o2 y2] [E1 R1]]]. rewrite E1 in E. cbn in R1. subst. rewrite (proj2 (char34_fails _ _ _ Hy st o2)) in E. discriminate.
  - unfold mws, with_trivia in E. destruct Hl as [Hl|Hl]; destruct (ml_step _ _ _ Hl) as [y [y' [[Hy _] [S1 S2]]]].
    + destruct (S1 st o) as [T [[o2 y2] [E1 R1]]]. rewrite E1 in E. cbn in R1. subst. rewrite (proj1 (char34_fails _ _ _ Hy st o2)) in E. discriminate.
    + destruct (S2 st o) as [T [[o2 y2] [E1 R1]]]. rewrite E1 in E. cbn in R1. subst. rewrite (proj2 (char34_fails _ _ _ Hy st o2)) in E. discriminate.
  - unfold located_p in E. destruct Hl as [Hl|Hl].
    + rewrite (proj1 (char34_fails _ _ _ Hl st o)) in E. discriminate.
    + rewrite (proj2 (char34_fails _ _ _ Hl st o)) in E. discriminate.
Qed.
Lemma mono_unmap {A B} (f : A -> B) p : mono (map_p f p) -> mono p.
Proof. intros H st i D. specialize (H st i D). unfold map_p in H. destruct (p st i) as [s [v r| |a]]; exact H. Qed.
Lemma interpolated_string_lay : lay2 2 Ris interpolated_string.
Proof.
  unfold interpolated_string. eapply map_lay with (RA := rpair (Rloc eq) (fun _ _ => False)).
  - apply pair_dead; [apply ch_lay; reflexivity|apply quote_dead|].
    eapply mono_unmap. apply (mono_of_sound _ _ (interpolated_string_sound anyP)).
  - intros a a' [_ []].
Qed.
Lemma quoted_string_lay : lay2 2 Ris quoted_string.
Proof.
  unfold quoted_string. eapply map_lay with (RA := rpair (Rloc eq) (fun _ _ => False)).
  - apply pair_dead; [apply ch_lay; reflexivity|apply quote_dead|].
    eapply mono_unmap. apply (mono_of_sound _ _ (quoted_string_sound anyP)).
  - intros a a' [_ []].
Qed.

Lemma number_lay : lay2 2 (Rloc Rfac) number.
Proof.
  unfold number. apply wr_lay. eapply map_lay with (RA := rpair (Rloc eq) (Rloc eq)); [|sc].
  cbn [alts]. repeat apply alt_lay; [| | | | |apply fail_lay].
  - apply pair_lay; [|apply wr_lay, lexp_lay2; eapply recognize_lexp, many1_lexp, take_while1_lexp; rej_tac].
    eapply map_lay; [apply ch_lay; reflexivity|sc].
  - apply pair_lay; [|apply wr_lay, lexp_lay2; eapply recognize_lexp, many1_lexp, take_while1_lexp; rej_tac].
    eapply map_lay; [apply ch_lay; reflexivity|sc].
  - apply pair_lay; [apply wr_lay, lexp_lay2, value_lexp|apply wr_lay, lexp_lay2; eapply recognize_lexp, many1_lexp, take_while1_lexp; rej_tac].
  - apply pair_lay; [apply wr_lay, lexp_lay2, value_lexp|apply wr_lay, lexp_lay2, tag_no_case_lexp; reflexivity].
  - apply pair_lay; [apply wr_lay, lexp_lay2, value_lexp|apply wr_lay, lexp_lay2, tag_no_case_lexp; reflexivity].
Qed.
Lemma modifier_lexp l : lexp l eq modifier_p.
Proof.
  unfold modifier_p. apply alts_map_lexp. intros e He.
  assert (H : forallb (fun e : N * AddressModifier => negb (t5 (fst e))) modifier_chars = true) by reflexivity.
  rewrite forallb_forall in H. specialize (H e He). apply negb_true_iff in H. eapply map_lexp; [apply char_lexp, H|sc].
Qed.
Lemma identifier_value_lay : lay2 2 (Rloc Rfac) identifier_value.
Proof.
  unfold identifier_value. apply wr_lay. eapply map_lay.
  - apply pair_lay; [apply opt_lay, wr_lay, lexp_lay2, modifier_lexp|apply wr_lay, identifier_path_lay].
  - sc.
Qed.
Lemma current_pc_lay : lay2 2 (Rloc Rfac) current_pc.
Proof. unfold current_pc. apply wr_lay. eapply map_lay; [apply ch_lay; reflexivity|sc]. Qed.
Lemma interpolated_string_factor_lay : lay2 2 (Rloc Rfac) interpolated_string_factor.
Proof. unfold interpolated_string_factor. apply wr_lay. eapply map_lay; [apply interpolated_string_lay|sc]. Qed.
Definition op_ok (t : text) : bool := match t with c :: u => negb (blank c) && nt5 u | [] => false end.
Lemma operator_lexp table : forallb (fun e : text * binop => op_ok (fst e)) table = true -> lexp 1 eq (operator table).
Proof.
  intros H. unfold operator. apply alts_map_lexp. intros e He. rewrite forallb_forall in H. specialize (H e He).
  destruct (fst e) as [|c u] eqn:Ee; [discriminate|]. cbn in H. apply andb_true_iff in H. destruct H as [H1 H2]. apply negb_true_iff in H1.
  eapply map_lexp; [apply tag_lexp1; assumption|sc].
Qed.
Lemma ws_operator_lay table : forallb (fun e : text * binop => op_ok (fst e)) table = true -> lay2 2 (Rloc eq) (ws (operator table)).
Proof. intros H. apply ws_lay, lexp_lay2, operator_lexp, H. Qed.

(* ---------------------------------------------------------------- argument lists *)
Lemma mono_comma w : mono (wr w (char_p 44)).
Proof. apply mono_wr, (mono_terminal (fun c => [c])), satisfy_terminal. Qed.
Lemma mono_arg_list_loop {T} (item : parser T) : mono item -> forall f acc cur, mono (arg_list_loop f item acc cur).
Proof.
  intros Mi f. induction f as [|g IH]; intros acc cur st i H; cbn [arg_list_loop]; [exact H|].
  pose proof (mono_comma (slot W_arg_list 1) st i H) as H1.
  destruct (wr (slot W_arg_list 1) (char_p 44) st i) as [s [c r| |a]]; cbn [fst snd] in *; auto.
  pose proof (mono_wr (slot W_arg_list 2) item Mi s r H1) as H2.
  destruct (wr (slot W_arg_list 2) item s r) as [t [nx u| |b]]; cbn [fst snd] in *; auto. apply IH. exact H2.
Qed.
Lemma loop_dirty {T} (item : parser T) g acc cur st i : mono item ->
  errors (fst (wr (slot W_arg_list 1) (char_p 44) st i)) <> [] -> errors (fst (arg_list_loop (S g) item acc cur st i)) <> [].
Proof.
  intros Mi H1. cbn [arg_list_loop]. destruct (wr (slot W_arg_list 1) (char_p 44) st i) as [s [c r| |a]]; cbn [fst snd] in *; auto.
  pose proof (mono_wr (slot W_arg_list 2) item Mi s r H1) as H2.
  destruct (wr (slot W_arg_list 2) item s r) as [t [nx u| |b]]; cbn [fst snd] in *; auto. apply mono_arg_list_loop; assumption.
Qed.
Lemma tprog_le z y z' y' : tprog z y z' y' -> (length y <= length z)%nat /\ (length y' <= length z')%nat.
Proof. intros H. exact H. Qed.
Lemma arg_list_loop_lay {T} (RT : T -> T -> Prop) (item : parser T) : lay2 2 RT item ->
  forall f f' acc acc' cur cur' st st' i i', (length (rem i) < f)%nat -> (length (rem i') < f')%nat ->
    Forall2 (Ritem RT) acc acc' -> Rloc RT cur cur' -> SRC st st' -> lay 2 (rem i) (rem i') ->
    LR (Forall2 (Ritem RT)) i i' (arg_list_loop f item acc cur st i) (arg_list_loop f' item acc' cur' st' i').
Proof.
  intros Hit f. pose proof Hit as [Mi Hi]. induction f as [|g IH]; intros f' acc acc' cur cur' st st' i i' Hf Hf' Ha Hc Hs Hl; [lia|]. destruct f' as [|g']; [lia|].
  pose proof (ch_lay (slot W_arg_list 1) 44 eq_refl) as [_ Hcm]. specialize (Hcm st st' i i' Hs Hl).
  destruct Hcm as [[D1 D2]|[S H]]; [left; split; apply loop_dirty; assumption|]. cbn [arg_list_loop].
  pose proof (wr_char_consumes1 (slot W_arg_list 1) 44 st i) as C1. pose proof (wr_char_consumes1 (slot W_arg_list 1) 44 st' i') as C2.
  destruct (wr (slot W_arg_list 1) (char_p 44) st i) as [s [c r| |a]], (wr (slot W_arg_list 1) (char_p 44) st' i') as [s' [c' r'| |a']];
    cbn in S, H; try contradiction; try (right; split; cbn; auto; fail).
  - destruct H as [_ [Hr Hg]]. specialize (C1 _ _ _ eq_refl). specialize (C2 _ _ _ eq_refl).
    pose proof (wr_lay RT (slot W_arg_list 2) item Hit) as [Mw Hw]. specialize (Hw s s' r r' S Hr).
    destruct Hw as [[D1 D2]|[S2 H2]].
    { left. split.
      - destruct (wr (slot W_arg_list 2) item s r) as [t [nx u| |b]]; cbn [fst snd] in *; auto. apply mono_arg_list_loop; assumption.
      - destruct (wr (slot W_arg_list 2) item s' r') as [t [nx u| |b]]; cbn [fst snd] in *; auto. apply mono_arg_list_loop; assumption. }
    destruct (wr (slot W_arg_list 2) item s r) as [t [nx u| |b]], (wr (slot W_arg_list 2) item s' r') as [t' [nx' u'| |b']];
      cbn in S2, H2; try contradiction; try (right; split; cbn; auto; fail).
    destruct H2 as [Hn [Hu Hg2]]. destruct (tprog_le _ _ _ _ Hg2) as [L1 L2].
    assert (Ha2 : Forall2 (Ritem RT) (acc ++ [(cur, Some c)]) (acc' ++ [(cur', Some c')])) by (apply Forall2_app_one; [assumption|split; [exact Hc|exact I]]).
    specialize (IH g' _ _ nx nx' t t' u u' ltac:(lia) ltac:(lia) Ha2 Hn S2 Hu).
    destruct IH as [D|[S3 H3]]; [left; exact D|right]. split; [exact S3|].
    remember (arg_list_loop g item (acc ++ [(cur, Some c)]) nx t u) as X eqn:EX. remember (arg_list_loop g' item (acc' ++ [(cur', Some c')]) nx' t' u') as X' eqn:EX'. clear EX EX'.
    destruct X as [x1 [v1 r1| |]], X' as [x1' [v1' r1'| |]]; cbn [fst snd] in *; try contradiction; auto.
    destruct H3 as [K1 [K2 K3]]. split; [assumption|]. split; [assumption|]. eapply prog_trans; [exact Hg|]. eapply prog_trans; [exact Hg2|exact K3].
  - right. split; [exact S|]. cbn. split; [apply Forall2_app_one; [assumption|split; [exact Hc|exact I]]|]. split; [assumption|apply prog_stay].
Qed.
Lemma arg_list_lay {T} (RT : T -> T -> Prop) (item : parser T) : lay2 2 RT item -> lay2 2 (Forall2 (Ritem RT)) (arg_list item).
Proof.
  intros Hit. pose proof Hit as [Mi Hi]. split.
  { intros st i D. unfold arg_list. pose proof (mono_wr (slot W_arg_list 0) item Mi st i D) as H1.
    destruct (wr (slot W_arg_list 0) item st i) as [s [c r| |a]]; cbn [fst snd] in *; auto. apply mono_arg_list_loop; assumption. }
  intros st st' i i' Hs Hl. unfold arg_list.
  pose proof (wr_lay RT (slot W_arg_list 0) item Hit) as [Mw Hw]. specialize (Hw st st' i i' Hs Hl).
  destruct Hw as [[D1 D2]|[Sc H]].
  { left. split.
    - destruct (wr (slot W_arg_list 0) item st i) as [t [nx u| |b]]; cbn [fst snd] in *; auto. apply mono_arg_list_loop; assumption.
    - destruct (wr (slot W_arg_list 0) item st' i') as [t [nx u| |b]]; cbn [fst snd] in *; auto. apply mono_arg_list_loop; assumption. }
  destruct (wr (slot W_arg_list 0) item st i) as [s [c r| |a]], (wr (slot W_arg_list 0) item st' i') as [s' [c' r'| |a']];
    cbn in Sc, H; try contradiction; try (right; split; cbn; auto; fail).
  destruct H as [Hc [Hr Hg]].
  pose proof (arg_list_loop_lay RT item Hit (S (length (rem r))) (S (length (rem r'))) [] [] c c' s s' r r' ltac:(lia) ltac:(lia) (Forall2_nil _) Hc Sc Hr) as H.
  destruct H as [D|[S3 H3]]; [left; exact D|right]. split; [exact S3|].
  remember (arg_list_loop (S (length (rem r))) item [] c s r) as X eqn:EX. remember (arg_list_loop (S (length (rem r'))) item [] c' s' r') as X' eqn:EX'. clear EX EX'.
  destruct X as [x1 [v1 r1| |]], X' as [x1' [v1' r1'| |]]; cbn [fst snd] in *; try contradiction; auto.
  destruct H3 as [K1 [K2 K3]]. split; [assumption|]. split; [assumption|]. eapply prog_trans; eassumption.
Qed.

(* ---------------------------------------------------------------- expressions *)
Lemma tight_ok : forallb (fun e : text * binop => op_ok (fst e)) ExprGrammar.tight_ops = true. Proof. reflexivity. Qed.
Lemma loose_ok : forallb (fun e : text * binop => op_ok (fst e)) ExprGrammar.loose_ops = true. Proof. reflexivity. Qed.

Lemma cons_operator table : forallb (fun e : text * binop => op_ok (fst e)) table = true -> consumes1 (operator table).
Proof.
  intros H. unfold operator. apply PP.cons_alts_map. apply Forall_forall. intros e He. rewrite forallb_forall in H. specialize (H e He).
  apply PP.cons_map, PP.cons_tag. destruct (fst e); [discriminate|discriminate].
Qed.

Section ExprL.
  Variable pe : parser (located expr).
  Hypothesis Hpe : lay2 2 (Rloc Rexp) pe.
  Hypothesis Hsh : PP.mono pe.

  Lemma expression_arg_list_lay : lay2 2 Rargs (expression_arg_list pe).
  Proof.
    unfold expression_arg_list. eapply lay2_rel; [apply arg_list_lay with (RT := Rexp)|apply eargs_rel].
    eapply map_lay; [exact Hpe|]. intros a a' H. exact H.
  Qed.
  Lemma expression_parens_lay : lay2 2 (Rloc Rfac) (expression_parens pe).
  Proof.
    unfold expression_parens. apply wr_lay. eapply map_lay.
    - apply pair_lay; [apply ch_lay; reflexivity|]. apply pair_lay; [apply nested_lay, Hpe|apply ch_lay; reflexivity].
    - sc.
  Qed.
  Lemma fn_call_parts_lay b : lay2 2 Rparts (fn_call_parts pe b).
  Proof.
    unfold fn_call_parts. apply pair_lay; [destruct b; apply name_lay|].
    apply pair_lay; [eapply lay2_rel; [apply ch_lay; reflexivity|intros; exact I]|].
    apply pair_lay; [apply opt_lay, nested_lay, expression_arg_list_lay|].
    eapply lay2_rel; [apply ch_lay; reflexivity|intros; exact I].
  Qed.
  Lemma fn_call_impl_lay b : lay2 2 (Rloc Rfac) (fn_call_impl pe b).
  Proof. unfold fn_call_impl. apply wr_lay. eapply map_lay; [apply fn_call_parts_lay|]. unfold Rparts. sc. Qed.
  Lemma expression_factor_inner_lay : lay2 2 (Rloc Rfac) (expression_factor_inner pe).
  Proof.
    unfold expression_factor_inner. apply alts_map_lay. intros k _. destruct k; cbn [factor_alt].
    - apply number_lay.
    - apply fn_call_impl_lay.
    - apply identifier_value_lay.
    - apply current_pc_lay.
    - apply expression_parens_lay.
    - apply interpolated_string_factor_lay.
  Qed.
  Lemma expression_factor_lay : lay2 2 (Rloc Rexp) (expression_factor pe).
  Proof.
    unfold expression_factor. apply wr_lay. apply alt_lay.
    - eapply map_lay; [apply expression_factor_inner_lay|sc].
    - eapply map_lay.
      + apply pair_lay; [apply peek_lay, lexp_lay2, satisfy_lexp; rej_tac|].
        apply pair_lay; [apply opt_lay, ch_lay; reflexivity|]. apply pair_lay; [apply opt_lay, ch_lay; reflexivity|].
        apply expression_factor_inner_lay.
      + sc.
  Qed.
  Lemma expression_term_lay : lay2 2 (Rloc Rexp) (expression_term pe).
  Proof.
    unfold expression_term. eapply map_lay.
    - apply pair_lay; [apply expression_factor_lay|]. apply many0_lay; [apply pair_lay; [apply ws_operator_lay, tight_ok|apply expression_factor_lay]|].
      apply PP.cons_pair_l; [apply PP.cons_wr, cons_operator, tight_ok|apply PP.mono_expression_factor, Hsh].
    - intros [x l] [x' l'] [Hx Hl]. apply fold_expressions_rel; assumption.
  Qed.
  Lemma expression_body_lay : lay2 2 (Rloc Rexp) (expression_body pe).
  Proof.
    unfold expression_body. eapply map_lay.
    - apply pair_lay; [apply expression_term_lay|]. apply many0_lay; [apply pair_lay; [apply ws_operator_lay, loose_ok|apply expression_term_lay]|].
      apply PP.cons_pair_l; [apply PP.cons_wr, cons_operator, loose_ok|apply PP.mono_expression_term, Hsh].
    - intros [x l] [x' l'] [Hx Hl]. apply fold_expressions_rel; assumption.
  Qed.
End ExprL.

Lemma out_of_fuel_lay {A} (RA : A -> A -> Prop) : lay2 2 RA out_of_fuel.
Proof. split; [intros st i H; exact H|]. intros st st' i i' Hs _. right. split; cbn; auto. Qed.
Lemma expression_fuel_lay fuel : lay2 2 (Rloc Rexp) (expression_fuel fuel).
Proof.
  induction fuel as [|g IH]; cbn [expression_fuel]; [apply out_of_fuel_lay|].
  pose proof (expression_body_lay _ IH (PP.mono_expression_fuel g)) as [M H]. split; [exact M|exact H].
Qed.

(* the same parser with two amounts of fuel on the same text (blindness) around the lockstep run with common fuel *)
Lemma SR_dirty s t : SR s t -> errors t <> [] -> errors s <> [].
Proof. intros [_ [_ [_ H]]] D E. rewrite E in H. cbn in H. destruct (errors t); [congruence|discriminate]. Qed.
Lemma SR_sym s t : SR s t -> SR t s. Proof. intros [A [B [C D]]]. repeat split; auto. Qed.
Lemma SR_clean s t : SR s t -> clean t -> clean s.
Proof. intros [A [_ [_ H]]] [E I]. split; [|congruence]. rewrite E in H. cbn in H. destruct (errors s); [reflexivity|discriminate]. Qed.
Lemma LR_bridge {A} (RA : A -> A -> Prop) i i' (X Y Y' X' : pstate * result A) :
  (forall a b c d, RA a b -> RA b c -> RA c d -> RA a d) ->
  RR RA X Y -> LR RA i i' Y Y' -> RR RA Y' X' -> LR RA i i' X X'.
Proof.
  intros Tr [S1 H1] HL [S2 H2]. destruct HL as [[D1 D2]|[Sc H]].
  - left. split; [eapply SR_dirty; eassumption|eapply SR_dirty; [apply SR_sym; eassumption|assumption]].
  - right. destruct Sc as [C1 [C2 [C3 C4]]]. split.
    + split; [eapply SR_clean; eassumption|]. split; [eapply SR_clean; [apply SR_sym; eassumption|assumption]|].
      destruct S1 as [_ [A1 [A2 _]]]. destruct S2 as [_ [B1 [B2 _]]]. split; congruence.
    + destruct (snd X) as [v r| |a], (snd Y) as [w u| |b]; try contradiction;
        destruct (snd Y') as [w' u'| |b'], (snd X') as [v' r'| |a']; try contradiction; auto; try congruence.
      destruct H1 as [K1 K2]. destruct H2 as [K3 K4]. destruct H as [K5 [K6 K7]]. split; [eapply Tr; eassumption|].
      unfold prog in *. rewrite K2, <- K4. auto.
Qed.
Lemma Rlexp_trans : forall a b c d : located expr, Rloc Rexp a b -> Rloc Rexp b c -> Rloc Rexp c d -> Rloc Rexp a d.
Proof. unfold Rloc, Rexp. intros. congruence. Qed.
Lemma Rtok_trans : forall a b c d : token, Rtok a b -> Rtok b c -> Rtok c d -> Rtok a d.
Proof. unfold Rtok. intros. congruence. Qed.

Lemma expression_lay : lay2 2 (Rloc Rexp) expression.
Proof.
  split; [apply (mono_of_sound _ _ (expression_sound anyP))|]. intros st st' i i' Hs Hl. unfold expression.
  set (F := S (Nat.max (length (rem i)) (length (rem i')))).
  apply (LR_bridge (Rloc Rexp) i i' _ (expression_fuel F st i) (expression_fuel F st' i') _ Rlexp_trans).
  - apply (expression_fuel_blindh (length (rem i))); first [apply SR_refl|reflexivity|unfold F; lia].
  - apply expression_fuel_lay; assumption.
  - apply (expression_fuel_blindh (length (rem i'))); first [apply SR_refl|reflexivity|unfold F; lia].
Qed.
Lemma expression_args_lay : lay2 2 Rargs expression_args.
Proof. apply expression_arg_list_lay, expression_lay. Qed.

(* ---------------------------------------------------------------- operands, instruction *)
Lemma register_tags_ok : forallb (fun e : text * IndexRegister => nt5 (fst e)) register_tags = true. Proof. reflexivity. Qed.
Lemma register_suffix_lay e : In e register_tags -> lay2 2 Rsuf (register_suffix_p e).
Proof.
  intros He. pose proof register_tags_ok as H. rewrite forallb_forall in H. specialize (H e He).
  unfold register_suffix_p. eapply map_lay; [apply pair_lay; [apply ch_lay; reflexivity|apply wr_lay, lexp_lay2, tag_no_case_lexp, H]|].
  unfold Rsuf. sc.
Qed.
Lemma optional_suffix_lay : lay2 2 (ropt Rsuf) optional_suffix.
Proof. unfold optional_suffix. apply opt_lay. apply alts_map_lay. intros e He. apply register_suffix_lay, He. Qed.
Lemma operand_lay : lay2 2 Rop operand.
Proof.
  unfold operand. cbn [alts]. repeat apply alt_lay; [| | | |apply fail_lay].
  - eapply map_lay; [apply pair_lay; [apply ch_lay; reflexivity|apply expression_lay]|]. unfold Rsuf. sc_op.
  - eapply map_lay; [apply pair_lay; [apply ch_lay; reflexivity|apply pair_lay; [apply expression_lay|apply pair_lay; [apply ch_lay; reflexivity|apply optional_suffix_lay]]]|].
    unfold Rsuf. sc_op.
  - eapply map_lay; [apply pair_lay; [apply ch_lay; reflexivity|apply pair_lay; [apply expression_lay|apply pair_lay; [apply optional_suffix_lay|apply ch_lay; reflexivity]]]|].
    unfold Rsuf. sc_op.
  - eapply map_lay; [apply pair_lay; [apply expression_lay|apply optional_suffix_lay]|]. unfold Rsuf. sc_op.
Qed.
Lemma mnemonic_ok : forallb (fun e : text * text => nt5 (fst e)) mnemonic_table = true. Proof. reflexivity. Qed.
Lemma implied_ok : forallb (fun e : text * text => nt5 (fst e)) implied_mnemonic_table = true. Proof. reflexivity. Qed.
Lemma instruction_lay : lay2 2 Rtok instruction.
Proof.
  unfold instruction. apply alt_lay.
  - eapply map_lay; [apply pair_lay; [apply wr_lay, lexp_lay2, mnemonic_of_lexp, mnemonic_ok|apply expect_lay, operand_lay]|]. sc.
  - eapply map_lay; [apply pair_lay; [apply wr_lay, lexp_lay2, mnemonic_of_lexp, implied_ok|eapply expect_lay, not_lay, operand_lay]|]. sc.
Qed.

(* ---------------------------------------------------------------- config maps *)
Lemma config_key_lexp l : lexp l eq config_key.
Proof.
  unfold config_key. eapply recognize_lexp, pair_lexp.
  - apply alt_lexp; [apply take_while1_lexp; rej_tac|apply tag_lexp2; reflexivity].
  - apply many0_lexp. apply alt_lexp; [apply take_while1_lexp; rej_tac|apply tag_lexp2; reflexivity].
Qed.
Lemma cons_config_key : consumes1 config_key.
Proof.
  unfold config_key. apply PP.cons_recognize, PP.cons_pair_l; [apply PP.cons_alt; [apply PP.cons_alpha1|apply PP.cons_tag; discriminate]|].
  apply PP.mono_many0, PP.mono_alt; [apply PP.mono_alphanumeric1|apply PP.mono_tag].
Qed.
Lemma cons_kvp p : PP.mono p -> consumes1 (kvp p).
Proof.
  intros H. unfold kvp. apply PP.cons_map, PP.cons_pair_l; [apply PP.cons_wr, cons_config_key|].
  apply PP.mono_pair; [apply PP.mono_wr, PP.mono_char_p|]. apply PP.mono_wr, PP.mono_alt; [exact H|apply PP.mono_map, PP.mono_expression].
Qed.
Lemma kvp_lay p : lay2 2 Rtok p -> lay2 2 Rtok (kvp p).
Proof.
  intros Hp. unfold kvp. eapply map_lay.
  - apply pair_lay; [apply wr_lay, lexp_lay2, config_key_lexp|]. apply pair_lay; [apply ch_lay; reflexivity|].
    apply wr_lay. apply alt_lay; [exact Hp|]. eapply map_lay; [apply expression_lay|]. sc.
  - sc.
Qed.
Lemma config_map_body_lay p : lay2 2 Rtok p -> PP.mono p -> lay2 2 Rtok (config_map_body p).
Proof.
  intros Hp Hm. unfold config_map_body. eapply map_lay.
  - apply pair_lay; [apply ch_lay; reflexivity|]. apply pair_lay; [apply many0_lay; [apply kvp_lay, Hp|apply cons_kvp, Hm]|apply ch_lay; reflexivity].
  - intros [l [inner r]] [l' [inner' r']] [_ [H _]]. unfold Rtok. cbn. f_equal. f_equal. f_equal. apply tokens_rel. exact H.
Qed.
Lemma config_map_fuel_lay fuel : lay2 2 Rtok (config_map_fuel fuel).
Proof.
  induction fuel as [|g IH]; cbn [config_map_fuel]; [apply out_of_fuel_lay|].
  pose proof (config_map_body_lay _ IH (PP.mono_config_map_fuel g)) as [M H]. split; [exact M|exact H].
Qed.
Lemma config_map_lay : lay2 2 Rtok config_map.
Proof.
  split; [apply (mono_of_sound _ _ (config_map_sound anyP))|]. intros st st' i i' Hs Hl. unfold config_map.
  set (F := S (Nat.max (length (rem i)) (length (rem i')))).
  apply (LR_bridge Rtok i i' _ (config_map_fuel F st i) (config_map_fuel F st' i') _ Rtok_trans).
  - apply (config_map_fuel_blindh (length (rem i))); first [apply SR_refl|reflexivity|unfold F; lia].
  - apply config_map_fuel_lay; assumption.
  - apply (config_map_fuel_blindh (length (rem i'))); first [apply SR_refl|reflexivity|unfold F; lia].
Qed.

(* ---------------------------------------------------------------- error tokens: found in both runs or in neither *)
Definition error_inner (b : bool) : parser text :=
  recognize (alt (recognize (pair_p (one_of error_lead) (take_till (error_stop_p b)))) (take_till1 (error_stop_p b))).
Definition estart (b : bool) (c : N) : bool := mem c error_lead || negb (error_stop_p b c).
Lemma error_inner_cons b c t st o :
  if estart b c then exists v r, error_inner b st (mkIn o (c :: t)) = (st, Ok v r) else error_inner b st (mkIn o (c :: t)) = (st, Err).
Proof.
  unfold estart, error_inner, recognize, alt, pair_p, one_of, satisfy, take_till, take_till1, take_while0_p, take_while1_p. cbn [rem].
  destruct (mem c error_lead); cbn [orb].
  - cbn [rem consume]. match goal with |- context [take_while ?f ?x] => destruct (take_while f x) as [a y] end. eexists. eexists. reflexivity.
  - cbn [take_while]. destruct (negb (error_stop_p b c)).
    + match goal with |- context [take_while ?f ?x] => destruct (take_while f x) as [a y] end. eexists. eexists. reflexivity.
    + reflexivity.
Qed.
Lemma error_inner_nil b st o : error_inner b st (mkIn o []) = (st, Err).
Proof. reflexivity. Qed.
Lemma error_impl_lay b : lay2 2 Rtok (error_impl b).
Proof.
  split; [apply (mono_of_sound _ _ (error_impl_sound anyP b))|]. intros st st' [o z] [o' z'] Hs Hl. cbn [rem] in Hl.
  unfold error_impl. change (slot W_error_impl 0) with W_mws. cbn [wr]. unfold mws, with_trivia. fold (error_inner b).
  destruct (ml_step _ _ _ Hl) as [w [w' [[Hw _] [S1 S2]]]]. destruct (S1 st o) as [T [[o2 y2] [E1 R1]]]. destruct (S2 st' o') as [T' [[o2' y2'] [E2 R2]]].
  rewrite E1, E2. cbn in R1, R2. subst y2 y2'.
  destruct (lay0_inv _ _ Hw) as [[Z1 Z2]|[c [t [t' [Z1 [Z2 _]]]]]]; subst w w'.
  - rewrite !error_inner_nil. right. split; cbn; auto.
  - pose proof (error_inner_cons b c t st o2) as K1. pose proof (error_inner_cons b c t' st' o2') as K2. destruct (estart b c).
    + destruct K1 as [v [r K1]]. destruct K2 as [v' [r' K2]]. rewrite K1, K2. left. cbn [fst]. apply SRC_clean_report. exact Hs.
    + rewrite K1, K2. right. split; cbn; auto.
Qed.

(* ---------------------------------------------------------------- statements *)
Lemma as_lay : lay2 2 Ras as_.
Proof.
  unfold as_, Ras. apply opt_lay. eapply lay2_rel; [apply pair_lay; [apply kw_lay; reflexivity|apply wr_lay, identifier_path_lay]|].
  intros [t p] [t' p'] [_ H]. exact H.
Qed.
Lemma data_tags_ok : forallb (fun e : text * DataSize => nt5 (fst e)) data_tags = true. Proof. reflexivity. Qed.
Lemma encoding_tags_ok : forallb (fun e : text * TextEncoding => nt5 (fst e)) encoding_tags = true. Proof. reflexivity. Qed.

Section StatementsL.
  Variable ps : parser token.
  Hypothesis Hps : lay2 2 Rtok ps.
  Hypothesis Hcons : consumes1 ps.

  Lemma block_lay : lay2 2 Rblk (block ps).
  Proof.
    unfold block. eapply map_lay.
    - apply pair_lay; [apply ch_lay; reflexivity|]. apply pair_lay.
      + apply nested_lay, many0_lay; [apply alt_lay; [exact Hps|apply error_impl_lay]|]. apply PP.cons_alt; [exact Hcons|apply PP.cons_error_impl].
      + apply expect_lay. apply ch_lay; reflexivity.
    - intros [l [inner r]] [l' [inner' r']] [_ [H Hr]]. unfold Rblk. cbn in *. rewrite (tokens_rel _ _ H).
      destruct r, r'; cbn in *; try contradiction; reflexivity.
  Qed.
  Lemma opt_block_lay : lay2 2 (ropt Rblk) (opt (block ps)).
  Proof. apply opt_lay, block_lay. Qed.
  Lemma braces_lay : lay2 2 Rtok (braces ps).
  Proof. unfold braces. eapply with_scope_lay; [apply block_lay|]. sc. Qed.
  Lemma label_lay : lay2 2 Rtok (label ps).
  Proof.
    unfold label. eapply map_lay; [apply pair_lay; [apply name_lay|apply pair_lay; [apply ch_lay; reflexivity|apply opt_block_lay]]|]. sc.
  Qed.
  Lemma data_lay : lay2 2 Rtok data_.
  Proof.
    unfold data_. eapply map_lay.
    - apply pair_lay; [|apply expect_lay, expression_args_lay].
      apply alts_map_lay. intros e He. apply wr_lay, lexp_lay2, tagged_lexp. cbn [forallb]. rewrite andb_true_r.
      pose proof data_tags_ok as H. rewrite forallb_forall in H. apply H. destruct e as [k d]. eapply in_combine_r. exact He.
    - sc.
  Qed.
  Lemma varconst_impl_lay k : nt5 (fst k) = true -> lay2 2 Rtok (varconst_impl k).
  Proof.
    intros Hk. unfold varconst_impl. eapply map_lay.
    - apply pair_lay; [apply wr_lay, lexp_lay2, tagged_lexp; cbn [forallb]; rewrite Hk; reflexivity|]. apply pair_lay; [apply name_lay|].
      apply pair_lay; [apply ch_lay; reflexivity|apply expression_lay].
    - sc.
  Qed.
  Lemma pc_definition_lay : lay2 2 Rtok pc_definition.
  Proof.
    unfold pc_definition. eapply map_lay; [apply pair_lay; [apply ch_lay; reflexivity|apply pair_lay; [apply ch_lay; reflexivity|apply expression_lay]]|]. sc.
  Qed.
  Lemma config_definition_lay : lay2 2 Rtok config_definition.
  Proof.
    unfold config_definition. eapply map_lay.
    - apply pair_lay; [apply kw_lay; reflexivity|]. apply pair_lay; [apply name_lay|apply expect_lay, config_map_lay].
    - sc.
  Qed.
  Lemma macro_definition_lay : lay2 2 Rtok (macro_definition ps).
  Proof.
    unfold macro_definition. eapply map_lay.
    - apply pair_lay; [apply kw_lay; reflexivity|]. apply pair_lay; [apply name_lay|].
      apply pair_lay; [apply ch_lay; reflexivity|]. apply pair_lay; [apply opt_lay; unfold identifier_arg_list; apply arg_list_lay, lexp_lay2, identifier_name_lexp|].
      apply pair_lay; [apply ch_lay; reflexivity|apply block_lay].
    - intros [t [i [l [a [r b]]]]] [t' [i' [l' [a' [r' b']]]]] [_ [Hi [_ [Ha [_ Hb]]]]]. unfold Rtok, Rblk, Rloc in *. cbn in *.
      rewrite Hi, Hb. f_equal. f_equal. destruct a, a'; cbn in *; try contradiction; [apply idargs_rel; exact Ha|reflexivity].
  Qed.
  Lemma macro_invocation_lay : lay2 2 Rtok macro_invocation.
  Proof. unfold macro_invocation. eapply map_lay; [apply fn_call_parts_lay, expression_lay|]. unfold Rparts. sc. Qed.
  Lemma segment_lay : lay2 2 Rtok (segment ps).
  Proof.
    unfold segment. eapply map_lay; [apply pair_lay; [apply kw_lay; reflexivity|apply pair_lay; [apply expression_lay|apply opt_block_lay]]|]. sc.
  Qed.
  Lemma loop_lay : lay2 2 Rtok (loop_ ps).
  Proof.
    unfold loop_. eapply with_scope_lay; [apply pair_lay; [apply kw_lay; reflexivity|apply pair_lay; [apply expression_lay|apply block_lay]]|]. sc.
  Qed.
  Lemma if_lay : lay2 2 Rtok (if_ ps).
  Proof.
    unfold if_. eapply map_lay.
    - apply pair_lay; [apply kw_lay; reflexivity|]. apply pair_lay; [apply expression_lay|].
      apply pair_lay; [apply block_lay|]. apply opt_lay. apply pair_lay; [apply kw_lay; reflexivity|apply block_lay].
    - sc.
  Qed.
  Lemma align_lay : lay2 2 Rtok align.
  Proof. unfold align. eapply map_lay; [apply pair_lay; [apply kw_lay; reflexivity|apply expression_lay]|]. sc. Qed.
  Lemma specific_arg_lay : lay2 2 Rspec specific_arg.
  Proof.
    unfold specific_arg. eapply map_lay; [apply pair_lay; [apply wr_lay, identifier_path_lay|apply as_lay]|].
    unfold Rspec, Ras. sc_pre; unfold sk_specific, sk_import_as, sx_opt; cbn; sc_fin.
  Qed.
  Lemma import_lay : lay2 2 Rtok (import ps).
  Proof.
    unfold import. eapply with_scope_lay.
    - apply pair_lay; [apply kw_lay; reflexivity|]. apply pair_lay with (RA := Rimp).
      + apply alt_lay.
        * eapply map_lay; [apply pair_lay; [apply ch_lay; reflexivity|apply as_lay]|]. unfold Rimp, Ras. sc_pre; unfold sk_import_as, sx_opt; cbn; sc_fin.
        * eapply map_lay; [apply arg_list_lay, specific_arg_lay|]. intros l l' H. unfold Rimp. cbn. f_equal.
          eapply Forall2_map; [|exact H]. intros [a c] [b d] [H1 _]. exact H1.
      + apply pair_lay; [apply kw_lay; reflexivity|]. apply pair_lay; [apply quoted_string_lay|apply opt_block_lay].
    - unfold Rimp. sc.
  Qed.
  Lemma text_lay : lay2 2 Rtok text_.
  Proof.
    unfold text_. eapply map_lay.
    - apply pair_lay; [apply kw_lay; reflexivity|].
      apply alt_lay with (RA := rpair (ropt (Rloc eq)) (Rloc Rexp)).
      + eapply map_lay; [apply pair_lay; [apply wr_lay, lexp_lay2, tagged_lexp, encoding_tags_ok|apply expression_lay]|]. sc.
      + eapply map_lay; [apply expression_lay|]. sc.
    - sc.
  Qed.
  Lemma file_lay : lay2 2 Rtok file.
  Proof. unfold file. eapply map_lay; [apply pair_lay; [apply kw_lay; reflexivity|apply interpolated_string_lay]|]. sc. Qed.
  Lemma test_lay : lay2 2 Rtok (test ps).
  Proof.
    unfold test. eapply map_lay; [apply pair_lay; [apply kw_lay; reflexivity|apply pair_lay; [apply expression_lay|apply block_lay]]|]. sc.
  Qed.
  Lemma assert_lay : lay2 2 Rtok assert.
  Proof.
    unfold assert. eapply map_lay; [apply pair_lay; [apply kw_lay; reflexivity|apply pair_lay; [apply expression_lay|apply opt_lay, interpolated_string_lay]]|]. sc.
  Qed.
  Lemma trace_lay : lay2 2 Rtok trace.
  Proof.
    unfold trace. eapply map_lay.
    - apply pair_lay; [apply kw_lay; reflexivity|]. apply opt_lay.
      apply pair_lay; [apply ch_lay; reflexivity|]. apply pair_lay; [apply opt_lay, expression_args_lay|apply ch_lay; reflexivity].
    - sc.
  Qed.
  Lemma statement_body_lay : lay2 2 Rtok (statement_body ps).
  Proof.
    unfold statement_body. apply alts_map_lay. intros k _. destruct k; cbn [stmt_parser].
    - apply braces_lay.
    - apply label_lay.
    - apply instruction_lay.
    - apply varconst_impl_lay; reflexivity.
    - apply varconst_impl_lay; reflexivity.
    - apply pc_definition_lay.
    - apply config_definition_lay.
    - apply macro_definition_lay.
    - apply macro_invocation_lay.
    - apply data_lay.
    - apply segment_lay.
    - apply loop_lay.
    - apply if_lay.
    - apply align_lay.
    - apply import_lay.
    - apply text_lay.
    - apply file_lay.
    - apply test_lay.
    - apply assert_lay.
    - apply trace_lay.
  Qed.
End StatementsL.

Lemma statement_fuel_lay fuel : lay2 2 Rtok (statement_fuel fuel).
Proof.
  induction fuel as [|g IH]; cbn [statement_fuel]; [apply out_of_fuel_lay|].
  pose proof (statement_body_lay _ IH (PP.cons_statement_fuel g)) as [M H]. split; [exact M|exact H].
Qed.
(* the statement parser on two layouts of the same characters *)
Theorem statement_lay : lay2 2 Rtok statement.
Proof.
  split; [apply (mono_of_sound _ _ (statement_sound anyP))|]. intros st st' i i' Hs Hl. unfold statement.
  set (F := S (Nat.max (length (rem i)) (length (rem i')))).
  apply (LR_bridge Rtok i i' _ (statement_fuel F st i) (statement_fuel F st' i') _ Rtok_trans).
  - apply (statement_fuel_blindh (length (rem i))); first [apply SR_refl|reflexivity|unfold F; lia].
  - apply statement_fuel_lay; assumption.
  - apply (statement_fuel_blindh (length (rem i'))); first [apply SR_refl|reflexivity|unfold F; lia].
Qed.

(* ---------------------------------------------------------------- whole files *)
Definition Reof (t t' : token) : Prop :=
  match t, t' with TEof e, TEof e' => (data e = [] <-> data e' = []) | _, _ => False end.
Definition Rfile (l l' : list token) : Prop :=
  exists a t a' t', l = a ++ [t] /\ l' = a' ++ [t'] /\ Forall2 Rtok a a' /\ Reof t t'.
Lemma rest_lay0 : lay2 0 (fun a b : text => a = [] <-> b = []) rest.
Proof.
  split; [intros st i H; exact H|]. intros st st' i i' Hs Hl. right. unfold rest. cbn [fst snd]. split; [exact Hs|].
  destruct (lay0_inv _ _ Hl) as [[Z1 Z2]|[c [t [t' [Z1 [Z2 _]]]]]]; rewrite Z1, Z2.
  - split; [tauto|]. split; [apply lay_nil|]. split; cbn; lia.
  - split; [split; discriminate|]. split; [apply lay_nil|]. split; cbn; lia.
Qed.
Lemma eof_lay : lay2 2 Reof eof.
Proof.
  unfold eof. change (slot W_eof 0) with W_mws. eapply map_lay; [apply mws_lay, rest_lay0|].
  intros a a' H. exact H.
Qed.
Lemma source_file_lay : lay2 2 Rfile source_file.
Proof.
  unfold source_file. eapply map_lay.
  - apply pair_lay; [|apply eof_lay]. apply many0_lay; [apply alt_lay; [apply statement_lay|apply error_impl_lay]|].
    apply PP.cons_alt; [apply PP.cons_statement|apply PP.cons_error_impl].
  - intros [a t] [a' t'] [H1 H2]. exists a, t, a', t'. auto.
Qed.
Lemma source_file_rem st i s v r : source_file st i = (s, Ok v r) -> rem r = [].
Proof.
  unfold source_file, map_p, pair_p, eof, map_p. destruct (many0 (alt statement error) st i) as [s1 [l r1| |x]]; try discriminate.
  change (slot W_eof 0) with W_mws. cbn [wr]. unfold mws, with_trivia. destruct (opt multiline_trivia s1 r1) as [s2 [t r2| |y]]; try discriminate.
  unfold rest. cbn. intros E. inversion E. reflexivity.
Qed.
Lemma SRC_st0 : SRC st0 st0. Proof. repeat split. Qed.

(* two layouts of the same characters: if the first parses without diagnostics, so does the second, to a token list of
   the same skeleton *)
Theorem layout_file s1 s2 toks1 : lay 2 s1 s2 -> parse s1 = Parsed toks1 [] ->
  exists toks2, parse s2 = Parsed toks2 [] /\ skeleton toks1 = skeleton toks2.
Proof.
  intros Hl H1. pose proof (eof_takes_nothing _ _ _ H1) as He. unfold parse in *.
  pose proof (proj2 source_file_lay st0 st0 (mkIn 0 s1) (mkIn 0 s2) SRC_st0 Hl) as H.
  destruct (source_file st0 (mkIn 0 s1)) as [st [toks r| |[|]]] eqn:E1; try discriminate.
  destruct (rem r) eqn:Er; [|discriminate]. injection H1 as Htk Hd. subst toks1.
  assert (Hc : errors st = []) by (destruct (errors st); [reflexivity|apply (f_equal (@length _)) in Hd; rewrite rev_length in Hd; discriminate]).
  destruct H as [[D _]|[Sc H]]; [cbn in D; congruence|].
  destruct (source_file st0 (mkIn 0 s2)) as [st' [toks' r'| |a']] eqn:E2; cbn in Sc, H; try contradiction.
  destruct H as [[a [t [a' [t' [T1 [T2 [Ha Ht]]]]]]] [Hr _]].
  pose proof (source_file_rem _ _ _ _ _ E2) as Er'.
  rewrite Er'. destruct Sc as [_ [[C2 _] _]]. rewrite C2. exists toks'. split; [reflexivity|].
  subst toks toks'. unfold skeleton. rewrite !map_app. f_equal; [apply tokens_rel; exact Ha|].
  destruct t as [| | | | | |e| | | | | | | | | | | | | | | | |], t' as [| | | | | |e'| | | | | | | | | | | | | | | | |]; try contradiction.
  rewrite eof_rest_parts in He. cbn in *. destruct Ht as [Ht _]. rewrite He, (Ht He). reflexivity.
Qed.

(* an instance: blanks against tabs and comments, LF against CRLF and an empty line, a line comment against a block comment *)
Ltac tl := let st := fresh "st" in let o := fresh "o" in intros st o; vm_compute; eexists; eexists; split; reflexivity.
Example layout_example : lay 2 [108; 100; 97; 32; 35; 49; 32; 43; 32; 120; 32; 47; 47; 32; 99; 10; 114; 116; 115] [108; 100; 97; 9; 35; 49; 32; 47; 42; 99; 42; 47; 32; 43; 32; 32; 120; 32; 47; 42; 100; 42; 47; 13; 10; 13; 10; 32; 114; 116; 115].
Proof.
  apply lay_chunk; [reflexivity|discriminate|intros E; try discriminate E|].
  apply lay_chunk; [reflexivity|discriminate|intros E; try discriminate E|].
  apply lay_chunk; [reflexivity|discriminate|intros E; try discriminate E|].
  eapply (lay_sl 2 _ _ [35; 49; 32; 43; 32; 120; 32; 47; 47; 32; 99; 10; 114; 116; 115] [35; 49; 32; 47; 42; 99; 42; 47; 32; 43; 32; 32; 120; 32; 47; 42; 100; 42; 47; 13; 10; 13; 10; 32; 114; 116; 115] [35; 49; 32; 43; 32; 120; 32; 47; 47; 32; 99; 10; 114; 116; 115] [35; 49; 32; 47; 42; 99; 42; 47; 32; 43; 32; 32; 120; 32; 47; 42; 100; 42; 47; 13; 10; 13; 10; 32; 114; 116; 115]); [lia|cbn; auto|cbn; auto|tl|tl|tl|tl| | |cbn; lia|cbn; lia|cbn; lia|cbn; lia].
  {
    apply lay_chunk; [reflexivity|discriminate|intros E; try discriminate E|].
    apply lay_chunk; [reflexivity|discriminate|intros E; try discriminate E|].
    eapply (lay_sl 2 _ _ [43; 32; 120; 32; 47; 47; 32; 99; 10; 114; 116; 115] [43; 32; 32; 120; 32; 47; 42; 100; 42; 47; 13; 10; 13; 10; 32; 114; 116; 115] [43; 32; 120; 32; 47; 47; 32; 99; 10; 114; 116; 115] [43; 32; 32; 120; 32; 47; 42; 100; 42; 47; 13; 10; 13; 10; 32; 114; 116; 115]); [lia|cbn; auto|cbn; auto|tl|tl|tl|tl| | |cbn; lia|cbn; lia|cbn; lia|cbn; lia].
    {
      apply lay_chunk; [reflexivity|discriminate|intros E; try discriminate E|].
      eapply (lay_sl 2 _ _ [120; 32; 47; 47; 32; 99; 10; 114; 116; 115] [120; 32; 47; 42; 100; 42; 47; 13; 10; 13; 10; 32; 114; 116; 115] [120; 32; 47; 47; 32; 99; 10; 114; 116; 115] [120; 32; 47; 42; 100; 42; 47; 13; 10; 13; 10; 32; 114; 116; 115]); [lia|cbn; auto|cbn; auto|tl|tl|tl|tl| | |cbn; lia|cbn; lia|cbn; lia|cbn; lia].
      {
        apply lay_chunk; [reflexivity|discriminate|intros E; try discriminate E|].
        eapply (lay_sl 2 _ _ [10; 114; 116; 115] [13; 10; 13; 10; 32; 114; 116; 115] [114; 116; 115] [114; 116; 115]); [lia|cbn; auto|cbn; auto|tl|tl|tl|tl| | |cbn; lia|cbn; lia|cbn; lia|cbn; lia].
        {
          eapply (lay_nl 1 _ _ [114; 116; 115] [114; 116; 115]); [lia|cbn; auto|cbn; auto|tl|tl| |cbn; lia|cbn; lia].
            apply lay_chunk; [reflexivity|discriminate|intros E; try discriminate E|].
            apply lay_chunk; [reflexivity|discriminate|intros E; try discriminate E|].
            apply lay_chunk; [reflexivity|discriminate|intros E; try discriminate E|].
            apply lay_nil.
        }
          apply lay_chunk; [reflexivity|discriminate|intros E; try discriminate E|].
          apply lay_chunk; [reflexivity|discriminate|intros E; try discriminate E|].
          apply lay_chunk; [reflexivity|discriminate|intros E; try discriminate E|].
          apply lay_nil.
      }
        apply lay_chunk; [reflexivity|discriminate|intros E; try discriminate E|].
        eapply (lay_sl 2 _ _ [10; 114; 116; 115] [13; 10; 13; 10; 32; 114; 116; 115] [114; 116; 115] [114; 116; 115]); [lia|cbn; auto|cbn; auto|tl|tl|tl|tl| | |cbn; lia|cbn; lia|cbn; lia|cbn; lia].
        {
          eapply (lay_nl 1 _ _ [114; 116; 115] [114; 116; 115]); [lia|cbn; auto|cbn; auto|tl|tl| |cbn; lia|cbn; lia].
            apply lay_chunk; [reflexivity|discriminate|intros E; try discriminate E|].
            apply lay_chunk; [reflexivity|discriminate|intros E; try discriminate E|].
            apply lay_chunk; [reflexivity|discriminate|intros E; try discriminate E|].
            apply lay_nil.
        }
          apply lay_chunk; [reflexivity|discriminate|intros E; try discriminate E|].
          apply lay_chunk; [reflexivity|discriminate|intros E; try discriminate E|].
          apply lay_chunk; [reflexivity|discriminate|intros E; try discriminate E|].
          apply lay_nil.
    }
      apply lay_chunk; [reflexivity|discriminate|intros E; try discriminate E|].
      eapply (lay_sl 2 _ _ [120; 32; 47; 47; 32; 99; 10; 114; 116; 115] [120; 32; 47; 42; 100; 42; 47; 13; 10; 13; 10; 32; 114; 116; 115] [120; 32; 47; 47; 32; 99; 10; 114; 116; 115] [120; 32; 47; 42; 100; 42; 47; 13; 10; 13; 10; 32; 114; 116; 115]); [lia|cbn; auto|cbn; auto|tl|tl|tl|tl| | |cbn; lia|cbn; lia|cbn; lia|cbn; lia].
      {
        apply lay_chunk; [reflexivity|discriminate|intros E; try discriminate E|].
        eapply (lay_sl 2 _ _ [10; 114; 116; 115] [13; 10; 13; 10; 32; 114; 116; 115] [114; 116; 115] [114; 116; 115]); [lia|cbn; auto|cbn; auto|tl|tl|tl|tl| | |cbn; lia|cbn; lia|cbn; lia|cbn; lia].
        {
          eapply (lay_nl 1 _ _ [114; 116; 115] [114; 116; 115]); [lia|cbn; auto|cbn; auto|tl|tl| |cbn; lia|cbn; lia].
            apply lay_chunk; [reflexivity|discriminate|intros E; try discriminate E|].
            apply lay_chunk; [reflexivity|discriminate|intros E; try discriminate E|].
            apply lay_chunk; [reflexivity|discriminate|intros E; try discriminate E|].
            apply lay_nil.
        }
          apply lay_chunk; [reflexivity|discriminate|intros E; try discriminate E|].
          apply lay_chunk; [reflexivity|discriminate|intros E; try discriminate E|].
          apply lay_chunk; [reflexivity|discriminate|intros E; try discriminate E|].
          apply lay_nil.
      }
        apply lay_chunk; [reflexivity|discriminate|intros E; try discriminate E|].
        eapply (lay_sl 2 _ _ [10; 114; 116; 115] [13; 10; 13; 10; 32; 114; 116; 115] [114; 116; 115] [114; 116; 115]); [lia|cbn; auto|cbn; auto|tl|tl|tl|tl| | |cbn; lia|cbn; lia|cbn; lia|cbn; lia].
        {
          eapply (lay_nl 1 _ _ [114; 116; 115] [114; 116; 115]); [lia|cbn; auto|cbn; auto|tl|tl| |cbn; lia|cbn; lia].
            apply lay_chunk; [reflexivity|discriminate|intros E; try discriminate E|].
            apply lay_chunk; [reflexivity|discriminate|intros E; try discriminate E|].
            apply lay_chunk; [reflexivity|discriminate|intros E; try discriminate E|].
            apply lay_nil.
        }
          apply lay_chunk; [reflexivity|discriminate|intros E; try discriminate E|].
          apply lay_chunk; [reflexivity|discriminate|intros E; try discriminate E|].
          apply lay_chunk; [reflexivity|discriminate|intros E; try discriminate E|].
          apply lay_nil.
  }
    apply lay_chunk; [reflexivity|discriminate|intros E; try discriminate E|].
    apply lay_chunk; [reflexivity|discriminate|intros E; try discriminate E|].
    eapply (lay_sl 2 _ _ [43; 32; 120; 32; 47; 47; 32; 99; 10; 114; 116; 115] [43; 32; 32; 120; 32; 47; 42; 100; 42; 47; 13; 10; 13; 10; 32; 114; 116; 115] [43; 32; 120; 32; 47; 47; 32; 99; 10; 114; 116; 115] [43; 32; 32; 120; 32; 47; 42; 100; 42; 47; 13; 10; 13; 10; 32; 114; 116; 115]); [lia|cbn; auto|cbn; auto|tl|tl|tl|tl| | |cbn; lia|cbn; lia|cbn; lia|cbn; lia].
    {
      apply lay_chunk; [reflexivity|discriminate|intros E; try discriminate E|].
      eapply (lay_sl 2 _ _ [120; 32; 47; 47; 32; 99; 10; 114; 116; 115] [120; 32; 47; 42; 100; 42; 47; 13; 10; 13; 10; 32; 114; 116; 115] [120; 32; 47; 47; 32; 99; 10; 114; 116; 115] [120; 32; 47; 42; 100; 42; 47; 13; 10; 13; 10; 32; 114; 116; 115]); [lia|cbn; auto|cbn; auto|tl|tl|tl|tl| | |cbn; lia|cbn; lia|cbn; lia|cbn; lia].
      {
        apply lay_chunk; [reflexivity|discriminate|intros E; try discriminate E|].
        eapply (lay_sl 2 _ _ [10; 114; 116; 115] [13; 10; 13; 10; 32; 114; 116; 115] [114; 116; 115] [114; 116; 115]); [lia|cbn; auto|cbn; auto|tl|tl|tl|tl| | |cbn; lia|cbn; lia|cbn; lia|cbn; lia].
        {
          eapply (lay_nl 1 _ _ [114; 116; 115] [114; 116; 115]); [lia|cbn; auto|cbn; auto|tl|tl| |cbn; lia|cbn; lia].
            apply lay_chunk; [reflexivity|discriminate|intros E; try discriminate E|].
            apply lay_chunk; [reflexivity|discriminate|intros E; try discriminate E|].
            apply lay_chunk; [reflexivity|discriminate|intros E; try discriminate E|].
            apply lay_nil.
        }
          apply lay_chunk; [reflexivity|discriminate|intros E; try discriminate E|].
          apply lay_chunk; [reflexivity|discriminate|intros E; try discriminate E|].
          apply lay_chunk; [reflexivity|discriminate|intros E; try discriminate E|].
          apply lay_nil.
      }
        apply lay_chunk; [reflexivity|discriminate|intros E; try discriminate E|].
        eapply (lay_sl 2 _ _ [10; 114; 116; 115] [13; 10; 13; 10; 32; 114; 116; 115] [114; 116; 115] [114; 116; 115]); [lia|cbn; auto|cbn; auto|tl|tl|tl|tl| | |cbn; lia|cbn; lia|cbn; lia|cbn; lia].
        {
          eapply (lay_nl 1 _ _ [114; 116; 115] [114; 116; 115]); [lia|cbn; auto|cbn; auto|tl|tl| |cbn; lia|cbn; lia].
            apply lay_chunk; [reflexivity|discriminate|intros E; try discriminate E|].
            apply lay_chunk; [reflexivity|discriminate|intros E; try discriminate E|].
            apply lay_chunk; [reflexivity|discriminate|intros E; try discriminate E|].
            apply lay_nil.
        }
          apply lay_chunk; [reflexivity|discriminate|intros E; try discriminate E|].
          apply lay_chunk; [reflexivity|discriminate|intros E; try discriminate E|].
          apply lay_chunk; [reflexivity|discriminate|intros E; try discriminate E|].
          apply lay_nil.
    }
      apply lay_chunk; [reflexivity|discriminate|intros E; try discriminate E|].
      eapply (lay_sl 2 _ _ [120; 32; 47; 47; 32; 99; 10; 114; 116; 115] [120; 32; 47; 42; 100; 42; 47; 13; 10; 13; 10; 32; 114; 116; 115] [120; 32; 47; 47; 32; 99; 10; 114; 116; 115] [120; 32; 47; 42; 100; 42; 47; 13; 10; 13; 10; 32; 114; 116; 115]); [lia|cbn; auto|cbn; auto|tl|tl|tl|tl| | |cbn; lia|cbn; lia|cbn; lia|cbn; lia].
      {
        apply lay_chunk; [reflexivity|discriminate|intros E; try discriminate E|].
        eapply (lay_sl 2 _ _ [10; 114; 116; 115] [13; 10; 13; 10; 32; 114; 116; 115] [114; 116; 115] [114; 116; 115]); [lia|cbn; auto|cbn; auto|tl|tl|tl|tl| | |cbn; lia|cbn; lia|cbn; lia|cbn; lia].
        {
          eapply (lay_nl 1 _ _ [114; 116; 115] [114; 116; 115]); [lia|cbn; auto|cbn; auto|tl|tl| |cbn; lia|cbn; lia].
            apply lay_chunk; [reflexivity|discriminate|intros E; try discriminate E|].
            apply lay_chunk; [reflexivity|discriminate|intros E; try discriminate E|].
            apply lay_chunk; [reflexivity|discriminate|intros E; try discriminate E|].
            apply lay_nil.
        }
          apply lay_chunk; [reflexivity|discriminate|intros E; try discriminate E|].
          apply lay_chunk; [reflexivity|discriminate|intros E; try discriminate E|].
          apply lay_chunk; [reflexivity|discriminate|intros E; try discriminate E|].
          apply lay_nil.
      }
        apply lay_chunk; [reflexivity|discriminate|intros E; try discriminate E|].
        eapply (lay_sl 2 _ _ [10; 114; 116; 115] [13; 10; 13; 10; 32; 114; 116; 115] [114; 116; 115] [114; 116; 115]); [lia|cbn; auto|cbn; auto|tl|tl|tl|tl| | |cbn; lia|cbn; lia|cbn; lia|cbn; lia].
        {
          eapply (lay_nl 1 _ _ [114; 116; 115] [114; 116; 115]); [lia|cbn; auto|cbn; auto|tl|tl| |cbn; lia|cbn; lia].
            apply lay_chunk; [reflexivity|discriminate|intros E; try discriminate E|].
            apply lay_chunk; [reflexivity|discriminate|intros E; try discriminate E|].
            apply lay_chunk; [reflexivity|discriminate|intros E; try discriminate E|].
            apply lay_nil.
        }
          apply lay_chunk; [reflexivity|discriminate|intros E; try discriminate E|].
          apply lay_chunk; [reflexivity|discriminate|intros E; try discriminate E|].
          apply lay_chunk; [reflexivity|discriminate|intros E; try discriminate E|].
          apply lay_nil.
Qed.

(* trailing trivia on one side only: comments at the ends of the lines of the first text, none in the second *)
Example layout_example_trailing : lay 2 [108; 100; 97; 32; 35; 49; 32; 47; 47; 32; 111; 110; 101; 10; 32; 32; 114; 116; 115; 32; 47; 42; 32; 116; 119; 111; 32; 42; 47; 32; 47; 47; 32; 116; 104; 114; 101; 101; 10] [108; 100; 97; 32; 35; 49; 10; 114; 116; 115; 10; 10].
Proof.
  apply lay_chunk; [reflexivity|discriminate|intros E; try discriminate E|].
  apply lay_chunk; [reflexivity|discriminate|intros E; try discriminate E|].
  apply lay_chunk; [reflexivity|discriminate|intros E; try discriminate E|].
  eapply (lay_sl 2 _ _ [35; 49; 32; 47; 47; 32; 111; 110; 101; 10; 32; 32; 114; 116; 115; 32; 47; 42; 32; 116; 119; 111; 32; 42; 47; 32; 47; 47; 32; 116; 104; 114; 101; 101; 10] [35; 49; 10; 114; 116; 115; 10; 10] [35; 49; 32; 47; 47; 32; 111; 110; 101; 10; 32; 32; 114; 116; 115; 32; 47; 42; 32; 116; 119; 111; 32; 42; 47; 32; 47; 47; 32; 116; 104; 114; 101; 101; 10] [35; 49; 10; 114; 116; 115; 10; 10]); [lia|reflexivity|reflexivity|tl|tl|tl|tl| | |cbn; lia|cbn; lia|cbn; lia|cbn; lia].
  {
    apply lay_chunk; [reflexivity|discriminate|intros E; try discriminate E|].
    apply lay_chunk; [reflexivity|discriminate|intros E; try discriminate E|].
    eapply (lay_sl 2 _ _ [10; 32; 32; 114; 116; 115; 32; 47; 42; 32; 116; 119; 111; 32; 42; 47; 32; 47; 47; 32; 116; 104; 114; 101; 101; 10] [10; 114; 116; 115; 10; 10] [114; 116; 115; 32; 47; 42; 32; 116; 119; 111; 32; 42; 47; 32; 47; 47; 32; 116; 104; 114; 101; 101; 10] [114; 116; 115; 10; 10]); [lia|reflexivity|reflexivity|tl|tl|tl|tl| | |cbn; lia|cbn; lia|cbn; lia|cbn; lia].
    {
      eapply (lay_nl 1 _ _ [114; 116; 115; 32; 47; 42; 32; 116; 119; 111; 32; 42; 47; 32; 47; 47; 32; 116; 104; 114; 101; 101; 10] [114; 116; 115; 10; 10]); [lia|cbn; auto|cbn; auto|tl|tl| |cbn; lia|cbn; lia].
        apply lay_chunk; [reflexivity|discriminate|intros E; try discriminate E|].
        apply lay_chunk; [reflexivity|discriminate|intros E; try discriminate E|].
        apply lay_chunk; [reflexivity|discriminate|intros E; try discriminate E|].
        eapply (lay_sl 2 _ _ [10] [10; 10] [] []); [lia|reflexivity|reflexivity|tl|tl|tl|tl| | |cbn; lia|cbn; lia|cbn; lia|cbn; lia].
        {
          eapply (lay_nl 1 _ _ [] []); [lia|cbn; auto|cbn; auto|tl|tl| |cbn; lia|cbn; lia].
            apply lay_nil.
        }
          apply lay_nil.
    }
      apply lay_chunk; [reflexivity|discriminate|intros E; try discriminate E|].
      apply lay_chunk; [reflexivity|discriminate|intros E; try discriminate E|].
      apply lay_chunk; [reflexivity|discriminate|intros E; try discriminate E|].
      eapply (lay_sl 2 _ _ [10] [10; 10] [] []); [lia|reflexivity|reflexivity|tl|tl|tl|tl| | |cbn; lia|cbn; lia|cbn; lia|cbn; lia].
      {
        eapply (lay_nl 1 _ _ [] []); [lia|cbn; auto|cbn; auto|tl|tl| |cbn; lia|cbn; lia].
          apply lay_nil.
      }
        apply lay_nil.
  }
    apply lay_chunk; [reflexivity|discriminate|intros E; try discriminate E|].
    apply lay_chunk; [reflexivity|discriminate|intros E; try discriminate E|].
    eapply (lay_sl 2 _ _ [10; 32; 32; 114; 116; 115; 32; 47; 42; 32; 116; 119; 111; 32; 42; 47; 32; 47; 47; 32; 116; 104; 114; 101; 101; 10] [10; 114; 116; 115; 10; 10] [114; 116; 115; 32; 47; 42; 32; 116; 119; 111; 32; 42; 47; 32; 47; 47; 32; 116; 104; 114; 101; 101; 10] [114; 116; 115; 10; 10]); [lia|reflexivity|reflexivity|tl|tl|tl|tl| | |cbn; lia|cbn; lia|cbn; lia|cbn; lia].
    {
      eapply (lay_nl 1 _ _ [114; 116; 115; 32; 47; 42; 32; 116; 119; 111; 32; 42; 47; 32; 47; 47; 32; 116; 104; 114; 101; 101; 10] [114; 116; 115; 10; 10]); [lia|cbn; auto|cbn; auto|tl|tl| |cbn; lia|cbn; lia].
        apply lay_chunk; [reflexivity|discriminate|intros E; try discriminate E|].
        apply lay_chunk; [reflexivity|discriminate|intros E; try discriminate E|].
        apply lay_chunk; [reflexivity|discriminate|intros E; try discriminate E|].
        eapply (lay_sl 2 _ _ [10] [10; 10] [] []); [lia|reflexivity|reflexivity|tl|tl|tl|tl| | |cbn; lia|cbn; lia|cbn; lia|cbn; lia].
        {
          eapply (lay_nl 1 _ _ [] []); [lia|cbn; auto|cbn; auto|tl|tl| |cbn; lia|cbn; lia].
            apply lay_nil.
        }
          apply lay_nil.
    }
      apply lay_chunk; [reflexivity|discriminate|intros E; try discriminate E|].
      apply lay_chunk; [reflexivity|discriminate|intros E; try discriminate E|].
      apply lay_chunk; [reflexivity|discriminate|intros E; try discriminate E|].
      eapply (lay_sl 2 _ _ [10] [10; 10] [] []); [lia|reflexivity|reflexivity|tl|tl|tl|tl| | |cbn; lia|cbn; lia|cbn; lia|cbn; lia].
      {
        eapply (lay_nl 1 _ _ [] []); [lia|cbn; auto|cbn; auto|tl|tl| |cbn; lia|cbn; lia].
          apply lay_nil.
      }
        apply lay_nil.
Qed.

(* ... and at the end of the text: a comment, a line break and an empty line after the last statement against nothing *)
Example layout_example_end : lay 2 [108; 100; 97; 32; 35; 49; 10; 114; 116; 115; 32; 47; 47; 32; 101; 110; 100; 10; 10] [108; 100; 97; 32; 35; 49; 32; 47; 42; 32; 120; 32; 42; 47; 10; 9; 114; 116; 115].
Proof.
  apply lay_chunk; [reflexivity|discriminate|intros E; try discriminate E|].
  apply lay_chunk; [reflexivity|discriminate|intros E; try discriminate E|].
  apply lay_chunk; [reflexivity|discriminate|intros E; try discriminate E|].
  eapply (lay_sl 2 _ _ [35; 49; 10; 114; 116; 115; 32; 47; 47; 32; 101; 110; 100; 10; 10] [35; 49; 32; 47; 42; 32; 120; 32; 42; 47; 10; 9; 114; 116; 115] [35; 49; 10; 114; 116; 115; 32; 47; 47; 32; 101; 110; 100; 10; 10] [35; 49; 32; 47; 42; 32; 120; 32; 42; 47; 10; 9; 114; 116; 115]); [lia|cbn; auto|cbn; auto|tl|tl|tl|tl| | |cbn; lia|cbn; lia|cbn; lia|cbn; lia].
  {
    apply lay_chunk; [reflexivity|discriminate|intros E; try discriminate E|].
    apply lay_chunk; [reflexivity|discriminate|intros E; try discriminate E|].
    eapply (lay_sl 2 _ _ [10; 114; 116; 115; 32; 47; 47; 32; 101; 110; 100; 10; 10] [10; 9; 114; 116; 115] [114; 116; 115; 32; 47; 47; 32; 101; 110; 100; 10; 10] [114; 116; 115]); [lia|cbn; auto|cbn; auto|tl|tl|tl|tl| | |cbn; lia|cbn; lia|cbn; lia|cbn; lia].
    {
      eapply (lay_nl 1 _ _ [114; 116; 115; 32; 47; 47; 32; 101; 110; 100; 10; 10] [114; 116; 115]); [lia|cbn; auto|cbn; auto|tl|tl| |cbn; lia|cbn; lia].
        apply lay_chunk; [reflexivity|discriminate|intros E; try discriminate E|].
        apply lay_chunk; [reflexivity|discriminate|intros E; try discriminate E|].
        apply lay_chunk; [reflexivity|discriminate|intros E; try discriminate E|].
        eapply (lay_sl 2 _ _ [10; 10] [] [] []); [lia|cbn; auto|cbn; auto|tl|tl|tl|tl| | |cbn; lia|cbn; lia|cbn; lia|cbn; lia].
        {
          eapply (lay_nl 1 _ _ [] []); [lia|cbn; auto|cbn; auto|tl|tl| |cbn; lia|cbn; lia].
            apply lay_nil.
        }
          apply lay_nil.
    }
      apply lay_chunk; [reflexivity|discriminate|intros E; try discriminate E|].
      apply lay_chunk; [reflexivity|discriminate|intros E; try discriminate E|].
      apply lay_chunk; [reflexivity|discriminate|intros E; try discriminate E|].
      eapply (lay_sl 2 _ _ [10; 10] [] [] []); [lia|cbn; auto|cbn; auto|tl|tl|tl|tl| | |cbn; lia|cbn; lia|cbn; lia|cbn; lia].
      {
        eapply (lay_nl 1 _ _ [] []); [lia|cbn; auto|cbn; auto|tl|tl| |cbn; lia|cbn; lia].
          apply lay_nil.
      }
        apply lay_nil.
  }
    apply lay_chunk; [reflexivity|discriminate|intros E; try discriminate E|].
    apply lay_chunk; [reflexivity|discriminate|intros E; try discriminate E|].
    eapply (lay_sl 2 _ _ [10; 114; 116; 115; 32; 47; 47; 32; 101; 110; 100; 10; 10] [10; 9; 114; 116; 115] [114; 116; 115; 32; 47; 47; 32; 101; 110; 100; 10; 10] [114; 116; 115]); [lia|cbn; auto|cbn; auto|tl|tl|tl|tl| | |cbn; lia|cbn; lia|cbn; lia|cbn; lia].
    {
      eapply (lay_nl 1 _ _ [114; 116; 115; 32; 47; 47; 32; 101; 110; 100; 10; 10] [114; 116; 115]); [lia|cbn; auto|cbn; auto|tl|tl| |cbn; lia|cbn; lia].
        apply lay_chunk; [reflexivity|discriminate|intros E; try discriminate E|].
        apply lay_chunk; [reflexivity|discriminate|intros E; try discriminate E|].
        apply lay_chunk; [reflexivity|discriminate|intros E; try discriminate E|].
        eapply (lay_sl 2 _ _ [10; 10] [] [] []); [lia|cbn; auto|cbn; auto|tl|tl|tl|tl| | |cbn; lia|cbn; lia|cbn; lia|cbn; lia].
        {
          eapply (lay_nl 1 _ _ [] []); [lia|cbn; auto|cbn; auto|tl|tl| |cbn; lia|cbn; lia].
            apply lay_nil.
        }
          apply lay_nil.
    }
      apply lay_chunk; [reflexivity|discriminate|intros E; try discriminate E|].
      apply lay_chunk; [reflexivity|discriminate|intros E; try discriminate E|].
      apply lay_chunk; [reflexivity|discriminate|intros E; try discriminate E|].
      eapply (lay_sl 2 _ _ [10; 10] [] [] []); [lia|cbn; auto|cbn; auto|tl|tl|tl|tl| | |cbn; lia|cbn; lia|cbn; lia|cbn; lia].
      {
        eapply (lay_nl 1 _ _ [] []); [lia|cbn; auto|cbn; auto|tl|tl| |cbn; lia|cbn; lia].
          apply lay_nil.
      }
        apply lay_nil.
Qed.

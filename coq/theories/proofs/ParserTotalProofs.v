(* C06 over the parser model of C05 (model/Nom.v, model/Parser.v): no parser function of the grammar ever yields
   `Abort Panic`, for any state and any input.  Compositional: one lemma per combinator, one per grammar function. *)
From Coq Require Import List NArith Bool Arith.
Import ListNotations.
From Mos Require Import model.Utf model.Nom Gen.ParserTables Gen.ExprGrammar model.Parser.

Definition np {A} (p : parser A) : Prop := forall st i, snd (p st i) <> Abort Panic.

Ltac np_unfold := unfold np; intros.
Ltac np_case p H :=
  let st1 := fresh "st" in let r := fresh "r" in let E := fresh "E" in
  destruct p as [st1 r] eqn:E; pose proof H as ?.

Create HintDb np discriminated.
(* the abort of a sub-parser is propagated at another result type *)
Ltac fin :=
  first [ assumption
        | match goal with
          | H : Abort ?x <> Abort Panic |- Abort ?x <> Abort Panic => destruct x; [exfalso; apply H; reflexivity | discriminate]
          end ].

(* ---- terminals ---- *)
Lemma np_take_while0 f : np (take_while0_p f). Proof. np_unfold. unfold take_while0_p. destruct (take_while f (rem i)). cbn. discriminate. Qed.
Lemma np_take_while1 f : np (take_while1_p f). Proof. np_unfold. unfold take_while1_p. destruct (take_while f (rem i)) as [[|x a] b]; cbn; discriminate. Qed.
Lemma np_rest : np rest. Proof. np_unfold. cbn. discriminate. Qed.
Lemma np_satisfy f : np (satisfy f). Proof. np_unfold. unfold satisfy. destruct (rem i) as [|c r]; [|destruct (f c)]; cbn; discriminate. Qed.
Lemma np_take n : np (take n). Proof. np_unfold. unfold take. destruct (n <=? _)%nat; cbn; discriminate. Qed.
Lemma np_tag t : np (tag t). Proof. np_unfold. unfold tag. destruct (is_prefix t (rem i)); cbn; discriminate. Qed.
Lemma np_tag_no_case t : np (tag_no_case t).
Proof. np_unfold. unfold tag_no_case. destruct (take_bytes (rem i) (length t)) as [a b| |]; [destruct (_ && _)| |]; cbn; discriminate. Qed.
Lemma np_value {A} (v : A) : np (value_p v). Proof. np_unfold. cbn. discriminate. Qed.
Lemma np_fail {A} : np (fun st (_ : input) => (st, @Err A)). Proof. np_unfold. cbn. discriminate. Qed.
Lemma np_out_of_fuel {A} : np (@out_of_fuel A). Proof. np_unfold. cbn. discriminate. Qed.
#[export] Hint Resolve np_take_while0 np_take_while1 np_rest np_satisfy np_take np_tag np_tag_no_case np_value np_fail np_out_of_fuel : np.
Lemma np_space1 : np space1. Proof. apply np_take_while1. Qed.
Lemma np_alpha1 : np alpha1. Proof. apply np_take_while1. Qed.
Lemma np_alphanumeric1 : np alphanumeric1. Proof. apply np_take_while1. Qed.
Lemma np_hex_digit1 : np hex_digit1. Proof. apply np_take_while1. Qed.
Lemma np_is_a cs : np (is_a cs). Proof. apply np_take_while1. Qed.
Lemma np_is_not cs : np (is_not cs). Proof. apply np_take_while1. Qed.
Lemma np_take_till f : np (take_till f). Proof. apply np_take_while0. Qed.
Lemma np_take_till1 f : np (take_till1 f). Proof. apply np_take_while1. Qed.
Lemma np_char_p c : np (char_p c). Proof. apply np_satisfy. Qed.
Lemma np_one_of cs : np (one_of cs). Proof. apply np_satisfy. Qed.
Lemma np_none_of cs : np (none_of cs). Proof. apply np_satisfy. Qed.
#[export] Hint Resolve np_space1 np_alpha1 np_alphanumeric1 np_hex_digit1 np_is_a np_is_not np_take_till np_take_till1 np_char_p np_one_of np_none_of : np.

(* ---- combinators ---- *)
Lemma np_map {A B} (f : A -> B) p : np p -> np (map_p f p).
Proof. intros H st i. unfold map_p. specialize (H st i). destruct (p st i) as [st1 [a r| |x]]; cbn in *; try discriminate. fin. Qed.
Lemma np_pair {A B} (p : parser A) (q : parser B) : np p -> np q -> np (pair_p p q).
Proof.
  intros Hp Hq st i. unfold pair_p. specialize (Hp st i). destruct (p st i) as [st1 [a r| |x]]; cbn in *; try discriminate; [|fin].
  specialize (Hq st1 r). destruct (q st1 r) as [st2 [b r'| |y]]; cbn in *; try discriminate. fin.
Qed.
Lemma np_alt {A} (p q : parser A) : np p -> np q -> np (alt p q).
Proof. intros Hp Hq st i. unfold alt. specialize (Hp st i). destruct (p st i) as [st1 [a r| |x]]; cbn in *; try discriminate; [apply Hq|fin]. Qed.
Lemma np_alts {A} (ps : list (parser A)) : Forall np ps -> np (alts ps).
Proof. induction 1; cbn [alts]; [apply np_fail | apply np_alt; assumption]. Qed.
Lemma np_alts_map {A E} (g : E -> parser A) (table : list E) : (forall e, np (g e)) -> np (alts (map g table)).
Proof. intros H. apply np_alts. induction table; cbn; constructor; auto. Qed.
Lemma np_opt {A} (p : parser A) : np p -> np (opt p).
Proof. intros H st i. unfold opt. specialize (H st i). destruct (p st i) as [st1 [a r| |x]]; cbn in *; try discriminate. fin. Qed.
Lemma np_not {A} (p : parser A) : np p -> np (not_p p).
Proof. intros H st i. unfold not_p. specialize (H st i). destruct (p st i) as [st1 [a r| |x]]; cbn in *; try discriminate. fin. Qed.
Lemma np_peek {A} (p : parser A) : np p -> np (peek p).
Proof. intros H st i. unfold peek. specialize (H st i). destruct (p st i) as [st1 [a r| |x]]; cbn in *; try discriminate. fin. Qed.
Lemma np_recognize {A} (p : parser A) : np p -> np (recognize p).
Proof. intros H st i. unfold recognize. specialize (H st i). destruct (p st i) as [st1 [a r| |x]]; cbn in *; try discriminate. fin. Qed.
Lemma np_many0_aux {A} (p : parser A) fuel : np p -> np (many0_aux fuel p).
Proof.
  intros H. induction fuel as [|f IH]; intros st i; cbn [many0_aux]; [cbn; discriminate|].
  specialize (H st i). destruct (p st i) as [st1 [a r| |x]]; cbn in *; try discriminate; [|fin].
  destruct (_ =? _)%nat; [cbn; discriminate|]. specialize (IH st1 r).
  destruct (many0_aux f p st1 r) as [st2 [l r'| |y]]; cbn in *; try discriminate. fin.
Qed.
Lemma np_many0 {A} (p : parser A) : np p -> np (many0 p).
Proof. intros H st i. unfold many0. apply np_many0_aux. fin. Qed.
Lemma np_many1 {A} (p : parser A) : np p -> np (many1 p).
Proof. intros H. unfold many1. apply np_map, np_pair; [fin | apply np_many0; fin]. Qed.
Lemma np_separated_list1 {A B} (sep : parser B) (f : parser A) : np sep -> np f -> np (separated_list1 sep f).
Proof. intros Hs Hf. unfold separated_list1. apply np_map, np_pair; [exact Hf | apply np_many0, np_pair; assumption]. Qed.
Lemma np_expect {A} (p : parser A) m : np p -> np (expect p m).
Proof. intros H st i. unfold expect. specialize (H st i). destruct (p st i) as [st1 [a r| |x]]; cbn in *; try discriminate; [destruct m; cbn; discriminate | fin]. Qed.
Lemma np_nested {A} n (p : parser A) : np p -> np (nested n p).
Proof.
  intros H st i. unfold nested. destruct (_ <=? n)%nat; [|cbn; discriminate].
  specialize (H (enter_nesting st) i). destruct (p (enter_nesting st) i) as [st2 r]. cbn in *. fin.
Qed.
Lemma np_located {A} (p : parser A) : np p -> np (located_p p).
Proof. intros H st i. unfold located_p. specialize (H st i). destruct (p st i) as [st1 [a r| |x]]; cbn in *; try discriminate. fin. Qed.
Lemma np_with_trivia {A} tp (p : parser A) : np tp -> np p -> np (with_trivia tp p).
Proof.
  intros Ht Hp st i. unfold with_trivia. pose proof (np_opt tp Ht st i) as Ho.
  destruct (opt tp st i) as [st1 [t r| |x]]; cbn in *; try discriminate; [|fin].
  specialize (Hp st1 r). destruct (p st1 r) as [st2 [a r'| |y]]; cbn in *; try discriminate. fin.
Qed.
Lemma np_with_scope {A B} (p : parser A) (f : A -> nat -> B) : np p -> np (with_scope p f).
Proof. intros H st i. unfold with_scope. specialize (H st i). destruct (p st i) as [st1 [a r| |x]]; cbn in *; try discriminate. fin. Qed.
#[export] Hint Resolve np_map np_pair np_alt np_alts_map np_opt np_not np_peek np_recognize np_many0 np_many1 np_separated_list1
  np_expect np_nested np_located np_with_trivia np_with_scope : np.

(* ---- trivia ---- *)
Lemma np_cpp_comment : np cpp_comment. Proof. unfold cpp_comment. auto 10 with np. Qed.
Lemma np_c_comment : np c_comment.
Proof.
  intros st i. unfold c_comment. pose proof (np_tag t_slash_star st i) as H.
  destruct (tag t_slash_star st i) as [st1 [a r| |x]]; cbn in *; try discriminate; [|fin].
  destruct (c_comment_scan 0 (rem r)) as [[a' b] t]. destruct t; cbn; discriminate.
Qed.
#[export] Hint Resolve np_cpp_comment np_c_comment : np.
Lemma np_trivia_impl : np trivia_impl.
Proof. unfold trivia_impl. apply np_alts. repeat constructor; auto with np. Qed.
Lemma np_newline : np newline. Proof. unfold newline. auto 10 with np. Qed.
#[export] Hint Resolve np_trivia_impl np_newline : np.
Lemma np_trivia_p : np trivia_p. Proof. unfold trivia_p. auto 10 with np. Qed.
Lemma np_multiline_trivia : np multiline_trivia. Proof. unfold multiline_trivia. auto 10 with np. Qed.
#[export] Hint Resolve np_trivia_p np_multiline_trivia : np.
Lemma np_ws {A} (p : parser A) : np p -> np (ws p). Proof. intros. unfold ws. auto with np. Qed.
Lemma np_mws {A} (p : parser A) : np p -> np (mws p). Proof. intros. unfold mws. auto with np. Qed.
Lemma np_wr {A} w (p : parser A) : np p -> np (wr w p). Proof. intros. destruct w; cbn [wr]; auto using np_ws, np_mws with np. Qed.
#[export] Hint Resolve np_ws np_mws np_wr : np.

(* ---- identifiers, strings, numbers ---- *)
Lemma np_identifier_name : np identifier_name. Proof. unfold identifier_name. auto 12 with np. Qed.
Lemma np_identifier_scope : np identifier_scope. Proof. unfold identifier_scope. auto 12 with np. Qed.
#[export] Hint Resolve np_identifier_name np_identifier_scope : np.
Lemma np_identifier_path : np identifier_path. Proof. unfold identifier_path. auto 12 with np. Qed.
Lemma np_keyword_p k : np (keyword_p k). Proof. unfold keyword_p. auto with np. Qed.
Lemma np_tagged {V} (table : list (text * V)) : np (tagged table). Proof. unfold tagged. apply np_alts_map. intros e. auto with np. Qed.
#[export] Hint Resolve np_identifier_path np_keyword_p np_tagged : np.
Lemma np_string_chunk w : np (string_chunk w). Proof. unfold string_chunk. auto 12 with np. Qed.
#[export] Hint Resolve np_string_chunk : np.
Lemma np_interpolated_string : np interpolated_string. Proof. unfold interpolated_string. auto 20 with np. Qed.
Lemma np_quoted_string : np quoted_string. Proof. unfold quoted_string. auto 20 with np. Qed.
#[export] Hint Resolve np_interpolated_string np_quoted_string : np.
Lemma np_operator table : np (operator table). Proof. unfold operator. apply np_alts_map. intros e. auto with np. Qed.
#[export] Hint Resolve np_operator : np.

Lemma np_arg_list_loop {T} (item : parser T) fuel : np item -> forall acc cur, np (arg_list_loop fuel item acc cur).
Proof.
  intros H. induction fuel as [|f IH]; intros acc cur st i; cbn [arg_list_loop]; [cbn; discriminate|].
  set (pc := wr (slot W_arg_list 1) (char_p 44)). set (pi := wr (slot W_arg_list 2) item).
  assert (Hc : np pc) by (apply np_wr, np_char_p). assert (Hi : np pi) by (apply np_wr, H). clearbody pc pi.
  specialize (Hc st i). destruct (pc st i) as [st1 [comma r| |x]]; cbn [snd] in *; try discriminate; [|fin].
  specialize (Hi st1 r). destruct (pi st1 r) as [st2 [next r2| |y]]; cbn [snd] in *; try discriminate; [apply IH | fin].
Qed.
Lemma np_arg_list {T} (item : parser T) : np item -> np (arg_list item).
Proof.
  intros H st i. unfold arg_list. set (pi := wr (slot W_arg_list 0) item).
  assert (Hi : np pi) by (apply np_wr, H). clearbody pi.
  specialize (Hi st i). destruct (pi st i) as [st1 [first r| |x]]; cbn [snd] in *; try discriminate; [apply np_arg_list_loop; exact H | fin].
Qed.
#[export] Hint Resolve np_arg_list : np.
Lemma np_identifier_arg_list : np identifier_arg_list. Proof. unfold identifier_arg_list. auto with np. Qed.
Lemma np_number : np number.
Proof. unfold number. apply np_wr, np_map, np_alts. repeat constructor; auto 12 with np. Qed.
Lemma np_modifier_p : np modifier_p. Proof. unfold modifier_p. apply np_alts_map. intros e. auto with np. Qed.
#[export] Hint Resolve np_identifier_arg_list np_number np_modifier_p : np.
Lemma np_identifier_value : np identifier_value. Proof. unfold identifier_value. auto 12 with np. Qed.
Lemma np_current_pc : np current_pc. Proof. unfold current_pc. auto 12 with np. Qed.
Lemma np_interpolated_string_factor : np interpolated_string_factor. Proof. unfold interpolated_string_factor. auto 12 with np. Qed.
#[export] Hint Resolve np_identifier_value np_current_pc np_interpolated_string_factor : np.

(* ---- expressions ---- *)
Section Expr.
  Variable p_expr : parser (located expr).
  Hypothesis Hp : np p_expr.
  Lemma np_expression_arg_list : np (expression_arg_list p_expr). Proof. unfold expression_arg_list. auto with np. Qed.
  Lemma np_expression_parens : np (expression_parens p_expr). Proof. unfold expression_parens. auto 15 with np. Qed.
  Lemma np_fn_call_parts m : np (fn_call_parts p_expr m).
  Proof. unfold fn_call_parts. pose proof np_expression_arg_list. destruct m; auto 15 with np. Qed.
  Lemma np_fn_call_impl m : np (fn_call_impl p_expr m). Proof. unfold fn_call_impl. pose proof (np_fn_call_parts m). auto with np. Qed.
  Lemma np_factor_alt k : np (factor_alt p_expr k).
  Proof. destruct k; cbn [factor_alt]; auto using np_expression_parens with np. unfold fn_call. apply np_fn_call_impl. Qed.
  Lemma np_expression_factor_inner : np (expression_factor_inner p_expr).
  Proof. unfold expression_factor_inner. apply np_alts_map. apply np_factor_alt. Qed.
  Lemma np_expression_factor : np (expression_factor p_expr).
  Proof. unfold expression_factor. pose proof np_expression_factor_inner. auto 15 with np. Qed.
  Lemma np_expression_term : np (expression_term p_expr).
  Proof. unfold expression_term. pose proof np_expression_factor. auto 15 with np. Qed.
  Lemma np_expression_body : np (expression_body p_expr).
  Proof. unfold expression_body. pose proof np_expression_term. auto 15 with np. Qed.
End Expr.

Lemma np_expression_fuel fuel : np (expression_fuel fuel).
Proof. induction fuel as [|f IH]; cbn [expression_fuel]; [apply np_out_of_fuel|]. intros st i. apply np_expression_body. fin. Qed.
Lemma np_expression : np expression. Proof. intros st i. unfold expression. apply np_expression_fuel. Qed.
#[export] Hint Resolve np_expression : np.
Lemma np_expression_args : np expression_args. Proof. unfold expression_args. apply np_expression_arg_list. exact np_expression. Qed.
#[export] Hint Resolve np_expression_args : np.

(* ---- operands, instructions, config maps ---- *)
Lemma np_register_suffix_p e : np (register_suffix_p e). Proof. unfold register_suffix_p. auto 12 with np. Qed.
Lemma np_optional_suffix : np optional_suffix. Proof. unfold optional_suffix. apply np_opt, np_alts_map, np_register_suffix_p. Qed.
#[export] Hint Resolve np_optional_suffix : np.
Lemma np_operand : np operand. Proof. unfold operand. apply np_alts. repeat constructor; auto 15 with np. Qed.
Lemma np_mnemonic_of table : np (mnemonic_of table). Proof. unfold mnemonic_of. apply np_alts_map, np_keyword_p. Qed.
#[export] Hint Resolve np_operand np_mnemonic_of : np.
Lemma np_instruction : np instruction. Proof. unfold instruction. auto 15 with np. Qed.
Lemma np_config_key : np config_key. Proof. unfold config_key. auto 12 with np. Qed.
#[export] Hint Resolve np_instruction np_config_key : np.
Lemma np_config_map_body p : np p -> np (config_map_body p).
Proof. intros H. unfold config_map_body, kvp. auto 20 with np. Qed.
Lemma np_config_map_fuel fuel : np (config_map_fuel fuel).
Proof. induction fuel as [|f IH]; cbn [config_map_fuel]; [apply np_out_of_fuel|]. intros st i. apply np_config_map_body. fin. Qed.
Lemma np_config_map : np config_map. Proof. intros st i. unfold config_map. apply np_config_map_fuel. Qed.
#[export] Hint Resolve np_config_map : np.

(* ---- statements ---- *)
Lemma np_error_impl b : np (error_impl b).
Proof.
  intros st i. unfold error_impl.
  set (pe := wr (slot W_error_impl 0) (recognize (alt (recognize (pair_p (one_of error_lead) (take_till (error_stop_p b)))) (take_till1 (error_stop_p b))))).
  assert (H : np pe) by (subst pe; auto 15 with np). clearbody pe.
  specialize (H st i). destruct (pe st i) as [st1 [l r| |x]]; cbn [snd] in *; try discriminate. fin.
Qed.
Lemma np_error : np error. Proof. apply np_error_impl. Qed.
Lemma np_error_in_block : np error_in_block. Proof. apply np_error_impl. Qed.
Lemma np_as_ : np as_. Proof. unfold as_. auto 12 with np. Qed.
#[export] Hint Resolve np_error np_error_in_block np_as_ : np.

Section Stmt.
  Variable p_stmt : parser token.
  Hypothesis Hs : np p_stmt.
  Lemma np_block : np (block p_stmt). Proof. unfold block. auto 15 with np. Qed.
  Hint Resolve np_block : np.
  Lemma np_stmt_parser k : np (stmt_parser p_stmt k).
  Proof.
    destruct k; cbn [stmt_parser];
      unfold braces, label, variable_definition, const_definition, varconst_impl, pc_definition, config_definition, macro_definition,
             macro_invocation, data_, segment, loop_, if_, align, import, specific_arg, text_, file, test, assert, trace;
      auto 25 using np_fn_call_parts with np.
  Qed.
  Lemma np_statement_body : np (statement_body p_stmt).
  Proof. unfold statement_body. apply np_alts_map, np_stmt_parser. Qed.
End Stmt.

Lemma np_statement_fuel fuel : np (statement_fuel fuel).
Proof. induction fuel as [|f IH]; cbn [statement_fuel]; [apply np_out_of_fuel|]. intros st i. apply np_statement_body. fin. Qed.
Lemma np_statement : np statement. Proof. intros st i. unfold statement. apply np_statement_fuel. Qed.
Lemma np_eof : np eof. Proof. unfold eof. auto with np. Qed.
Lemma np_source_file : np source_file.
Proof. unfold source_file. pose proof np_statement. pose proof np_eof. auto 12 with np. Qed.

(* the whole grammar, from the initial state, on every text *)
Theorem source_file_never_panics : forall s, snd (source_file st0 (mkIn 0 s)) <> Abort Panic.
Proof. intros s. apply np_source_file. Qed.

(* ---- the only way parse_with_instance can panic: `all_consuming(source_file)(input).ok().unwrap()` ---- *)
Lemma opt_never_err {A} (p : parser A) st i : snd (opt p st i) <> Err.
Proof. unfold opt. destruct (p st i) as [st1 [a r| |x]]; cbn; discriminate. Qed.

(* eof = mws(rest): takes everything that is left, never fails *)
Lemma eof_total st i :
  match eof st i with
  | (_, Ok _ r) => rem r = []
  | (_, Err) => False
  | (_, Abort x) => x = OutOfFuel
  end.
Proof.
  assert (W : forall tp, np tp ->
            match map_p TEof (with_trivia tp rest) st i with
            | (_, Ok _ r) => rem r = [] | (_, Err) => False | (_, Abort x) => x = OutOfFuel end).
  { intros tp Ht. unfold map_p, with_trivia.
    pose proof (np_opt tp Ht st i) as Ho. pose proof (opt_never_err tp st i) as He.
    destruct (opt tp st i) as [st1 [t r| |x]]; cbn [snd] in *; [cbn; reflexivity | congruence | destruct x; [congruence | reflexivity]]. }
  unfold eof. destruct (slot W_eof 0); cbn [wr].
  - apply W, np_trivia_p.
  - apply W, np_multiline_trivia.
  - unfold map_p, located_p, rest. cbn. reflexivity.
Qed.

(* parse panics exactly when the statement loop `many0(alt((statement, error)))` reports nom's "no progress" error,
   i.e. when a statement or an error token was accepted without consuming a character *)
Theorem parse_panics_iff s : parse s = ParsePanic <-> snd (many0 (alt statement error) st0 (mkIn 0 s)) = Err.
Proof.
  unfold parse, source_file, map_p, pair_p.
  pose proof (np_many0 (alt statement error) (np_alt _ _ np_statement np_error) st0 (mkIn 0 s)) as Hn.
  destruct (many0 (alt statement error) st0 (mkIn 0 s)) as [st1 [toks r| |x]]; cbn [snd] in *.
  - pose proof (eof_total st1 r) as He. destruct (eof st1 r) as [st2 [v r'| |y]].
    + rewrite He. split; discriminate.
    + destruct He.
    + subst y. split; discriminate.
  - split; reflexivity.
  - destruct x; [congruence|]. split; discriminate.
Qed.

(* Fuel is only a bound: a computation that does not run out of fuel gives the same outcome with more fuel. *)
From Coq Require Import List NArith ZArith Bool PeanoNat Lia.
Import ListNotations.
From Mos Require Import model.I64 Gen.BinOps model.Expr Gen.OpcodeTable spec.Isa model.Encode.
From Mos Require Import model.SymTab Gen.CodegenConsts model.Segment model.Asm.

(* m' does whatever m does, unless m runs out of fuel *)
Definition Le {A} (m m' : M A) : Prop := forall c, match m c with Abort FFuel => True | r => m' c = r end.

Lemma Le_refl {A} (m : M A) : Le m m.
Proof. intro c. destruct (m c) as [a d|ds d|f]; try reflexivity. destruct f; auto. Qed.

Lemma Le_bind {A B} (m m' : M A) (k k' : A -> M B) : Le m m' -> (forall a, Le (k a) (k' a)) -> Le (bind m k) (bind m' k').
Proof.
  intros Hm Hk c. unfold bind. specialize (Hm c). destruct (m c) as [a d|ds d|f].
  - rewrite Hm. apply Hk.
  - rewrite Hm. reflexivity.
  - destruct f; auto; rewrite Hm; reflexivity.
Qed.

Lemma Le_finally {A} (m m' : M A) cl : Le m m' -> Le (finally m cl) (finally m' cl).
Proof.
  intros Hm c. unfold finally. specialize (Hm c). destruct (m c) as [a d|ds d|f].
  - rewrite Hm. destruct (cl d) as [x e|x e|f]; try reflexivity. destruct f; auto.
  - rewrite Hm. destruct (cl d) as [x e|x e|f]; try reflexivity. destruct f; auto.
  - destruct f; auto; rewrite Hm; reflexivity.
Qed.

Lemma Le_with_scope {A} s b (f f' : M A) : Le f f' -> Le (with_scope s b f) (with_scope s b f').
Proof.
  intro H. unfold with_scope. apply Le_bind; [apply Le_refl|intro]. apply Le_bind; [apply Le_refl|intro].
  apply Le_bind; [apply Le_refl|intro]. apply Le_finally. exact H.
Qed.

Lemma Le_emit_tokens_with et et' : (forall t, Le (et t) (et' t)) -> forall ts acc, Le (emit_tokens_with et ts acc) (emit_tokens_with et' ts acc).
Proof.
  intros H ts. induction ts as [|t r IH]; intros acc; cbn [emit_tokens_with]; [apply Le_refl|].
  intro c. specialize (H t c). destruct (et t c) as [a d|ds d|f].
  - rewrite H. apply IH.
  - rewrite H. apply IH.
  - destruct f; auto; rewrite H; reflexivity.
Qed.

Lemma loop_iterations_eq fuel i n body :
  loop_iterations fuel i n body =
  if (n <=? i)%Z then ret tt else match fuel with O => abort FFuel | S f => body i ;;; loop_iterations f (i + 1) n body end.
Proof. destruct fuel; reflexivity. Qed.

Lemma Le_loop_iterations body body' : (forall i, Le (body i) (body' i)) ->
  forall fuel i n, Le (loop_iterations fuel i n body) (loop_iterations (S fuel) i n body').
Proof.
  intros Hb fuel. induction fuel as [|f IH]; intros i n; rewrite (loop_iterations_eq _ i n body), (loop_iterations_eq _ i n body');
  destruct (n <=? i)%Z; try apply Le_refl.
  - intro c. exact I.
  - apply Le_bind; [apply Hb|intro; apply IH].
Qed.

Section Body.
Variables rec rec' : token -> M unit.
Hypothesis Hrec : forall t, Le (rec t) (rec' t).

Lemma Le_emit_tokens ts : Le (emit_tokens rec ts) (emit_tokens rec' ts).
Proof. apply Le_emit_tokens_with. exact Hrec. Qed.

Lemma Le_body fuel t : Le (emit_token_body rec fuel t) (emit_token_body rec' (S fuel) t).
Proof.
  pose proof Le_emit_tokens as Hts.
  destruct t; cbn [emit_token_body]; try apply Le_refl.
  - (* TBraces *) apply Le_with_scope. apply Hts.
  - (* TIf *) apply Le_bind; [apply Le_refl|intros v]. destruct v; [|apply Le_refl].
    destruct (negb (z =? 0)%Z); [apply Hts|]. destruct else_; [apply Hts|apply Le_refl].
  - (* TImport *) destruct file; [|apply Le_refl].
    apply Le_bind; [|intro; apply Le_refl].
    apply Le_with_scope. apply Le_bind; [destruct b; [apply Hts|apply Le_refl]|intro; apply Hts].
  - (* TLabel *) apply Le_bind; [apply Le_refl|intro]. apply Le_bind; [apply Le_refl|intro].
    destruct b; [apply Le_with_scope; apply Hts|apply Le_refl].
  - (* TLoop *) apply Le_bind; [apply Le_refl|intros n]. destruct n; [|apply Le_refl].
    destruct (loop_iteration_limit <? z)%Z; [apply Le_refl|]. apply Le_loop_iterations. intro i. apply Le_with_scope. apply Le_bind; [apply Le_refl|intro].
    apply Le_bind; [apply Le_refl|intro]. apply Hts.
  - (* TInvoke *) apply Le_bind; [apply Le_refl|intro c]. apply Le_bind; [apply Le_refl|intro].
    destruct (query_all (symbols c) (current_scope_nx c) [id]); [|apply Le_refl].
    destruct (find_macro (symbols c) l) as [[[sp params] body]|]; [|apply Le_refl].
    destruct (negb (length args =? length params)%nat); [apply Le_refl|].
    apply Le_bind; [apply Le_refl|intro]. apply Le_with_scope. apply Le_bind; [apply Le_refl|intro; apply Hts].
  - (* TSegment *) apply Le_bind; [apply Le_refl|intros s]. destruct s; [|apply Le_refl].
    destruct (existsb (N.eqb 46) t); [apply Le_refl|]. apply Le_bind; [apply Le_refl|intro c].
    destruct (seg_get (segments c) t); [|apply Le_refl]. destruct b; [|apply Le_refl].
    apply Le_bind; [apply Le_refl|intro]. apply Le_finally. apply Hts.
Qed.
End Body.

Theorem emit_token_fuel_mono : forall fuel t, Le (emit_token fuel t) (emit_token (S fuel) t).
Proof.
  induction fuel as [|f IH]; intro t.
  - intro c. exact I.
  - cbn [emit_token]. apply Le_body. exact IH.
Qed.

Lemma Le_trans {A} (a b c : M A) : Le a b -> Le b c -> Le a c.
Proof.
  intros H1 H2 x. specialize (H1 x). specialize (H2 x). destruct (a x) as [v d|ds d|f].
  - rewrite H1 in H2. exact H2.
  - rewrite H1 in H2. exact H2.
  - destruct f; auto; rewrite H1 in H2; exact H2.
Qed.

Theorem emit_token_fuel_le : forall k fuel t, Le (emit_token fuel t) (emit_token (k + fuel) t).
Proof.
  induction k as [|k IH]; intros fuel t; [apply Le_refl|].
  eapply Le_trans; [apply IH|]. apply emit_token_fuel_mono.
Qed.

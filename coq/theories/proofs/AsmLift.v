(* Lifting a relation on contexts through the whole assembler model.
   If a reflexive, transitive relation R is respected by every primitive that touches the context
   (add_symbol, emit, evaluate_expression and the named context updates), then it is respected by
   emit_token for every token, at every fuel, and by a complete pass.  Used with R := good (table-write
   invariant, C02) and R := "segment log agrees with the trace" (C02_segment_image). *)
From Coq Require Import List NArith ZArith Bool PeanoNat Lia.
Import ListNotations.
From Mos Require Import model.I64 Gen.BinOps model.Expr Gen.OpcodeTable spec.Isa model.Encode.
From Mos Require Import model.SymTab Gen.CodegenConsts model.Segment model.Asm.

Section Lift.
Variable R : ctx -> ctx -> Prop.
Hypothesis R_refl : forall c, R c c.
Hypothesis R_trans : forall a b c, R a b -> R b c -> R a c.

Definition RM {A} (m : M A) : Prop :=
  forall c, match m c with Ret _ c' => R c c' | Err _ c' => R c c' | Abort _ => True end.

Lemma RM_ret {A} (a : A) : RM (ret a).
Proof. intro c. apply R_refl. Qed.
Lemma RM_fail {A} ds : RM (@fail A ds).
Proof. intro c. apply R_refl. Qed.
Lemma RM_err1 {A} k sp p ns : RM (@err1 A k sp p ns).
Proof. apply RM_fail. Qed.
Lemma RM_abort {A} f : RM (@abort A f).
Proof. intro c. exact I. Qed.
Lemma RM_get : RM get.
Proof. intro c. apply R_refl. Qed.
Lemma RM_modify f : (forall c, R c (f c)) -> RM (modify f).
Proof. intros H c. apply H. Qed.
Lemma RM_bind {A B} (m : M A) (k : A -> M B) : RM m -> (forall a, RM (k a)) -> RM (bind m k).
Proof.
  intros Hm Hk c. unfold bind. specialize (Hm c). destruct (m c) as [a c'|ds c'|f]; auto.
  specialize (Hk a c'). destruct (k a c'); eauto.
Qed.
Lemma RM_ignore_err {A} (m : M A) : RM m -> RM (ignore_err m).
Proof. intros Hm c. unfold ignore_err. specialize (Hm c). destruct (m c); auto. Qed.
Lemma RM_recover {A} (m : M A) d : RM m -> RM (recover m d).
Proof. intros Hm c. unfold recover. specialize (Hm c). destruct (m c); auto. Qed.
Lemma RM_finally {A} (m : M A) cl : RM m -> RM cl -> RM (finally m cl).
Proof.
  intros Hm Hc c. unfold finally. specialize (Hm c). destruct (m c) as [a c'|ds c'|f]; auto;
  specialize (Hc c'); destruct (cl c'); eauto.
Qed.
Lemma RM_emit_tokens_with et : (forall t, RM (et t)) -> forall ts acc, RM (emit_tokens_with et ts acc).
Proof.
  intros H ts. induction ts as [|t r IH]; intros acc; cbn [emit_tokens_with].
  - destruct acc; [apply RM_ret|apply RM_fail].
  - intro c. specialize (H t c). destruct (et t c) as [a c'|ds c'|f]; auto.
    + specialize (IH acc c'). destruct (emit_tokens_with et r acc c'); eauto.
    + specialize (IH (acc ++ ds) c'). destruct (emit_tokens_with et r (acc ++ ds) c'); eauto.
Qed.

Hypothesis H_add_symbol : forall id sym, RM (add_symbol id sym).
Hypothesis H_emit : forall sp bytes, RM (emit sp bytes).
Hypothesis H_eval : forall e, RM (evaluate_expression e).
Hypothesis H_enter : forall s c, R c (enter_scope s c).
Hypothesis H_leave : forall p n c, R c (leave_scope p n c).
Hypothesis H_install : forall n o c, R c (install_segment n o c).
Hypothesis H_setpc : forall pc c, R c (set_current_pc pc c).
Hypothesis H_select : forall o c, R c (select_segment o c).
Hypothesis H_bump : forall c, R c (bump_macro_id c).
Hypothesis H_flag : forall id sp c, R c (flag_undefined c id sp).
Hypothesis H_export : forall a b p, RM (export_one a b p).
Hypothesis H_import_as : forall p, RM (import_as_scope p).

Ltac rm :=
  repeat match goal with
    | |- RM (bind _ _) => apply RM_bind; [|intro]
    | |- RM (ret _) => apply RM_ret
    | |- RM (fail _) => apply RM_fail
    | |- RM (err1 _ _ _ _) => apply RM_err1
    | |- RM (abort _) => apply RM_abort
    | |- RM get => apply RM_get
    | |- RM (add_symbol _ _) => apply H_add_symbol
    | |- RM (emit _ _) => apply H_emit
    | |- RM (evaluate_expression _) => apply H_eval
    | |- RM (export_one _ _ _) => apply H_export
    | |- RM (import_as_scope _) => apply H_import_as
    | |- RM (modify _) =>
        apply RM_modify; intro; first [apply H_enter | apply H_leave | apply H_install | apply H_setpc | apply H_select
                                       | apply H_bump | apply H_flag]
    | |- RM (ignore_err _) => apply RM_ignore_err
    | |- RM (recover _ _) => apply RM_recover
    | |- RM (match ?x with _ => _ end) => destruct x
    | |- RM (if ?b then _ else _) => destruct b
    end.

Lemma RM_current_target_pc : RM current_target_pc.
Proof. intro c. unfold current_target_pc. destruct (try_current_target_pc c); auto. Qed.

Lemma RM_eval_i64 e : RM (evaluate_expression_as_i64 e).
Proof. unfold evaluate_expression_as_i64. rm. Qed.
Lemma RM_eval_string e : RM (evaluate_expression_as_string e).
Proof. unfold evaluate_expression_as_string. rm. Qed.

Ltac rm2 :=
  repeat match goal with
    | |- RM (evaluate_expression_as_i64 _) => apply RM_eval_i64
    | |- RM (evaluate_expression_as_string _) => apply RM_eval_string
    | |- RM current_target_pc => apply RM_current_target_pc
    | |- RM (bind _ _) => apply RM_bind; [|intro]
    | |- RM (ret _) => apply RM_ret
    | |- RM (fail _) => apply RM_fail
    | |- RM (err1 _ _ _ _) => apply RM_err1
    | |- RM (abort _) => apply RM_abort
    | |- RM get => apply RM_get
    | |- RM (add_symbol _ _) => apply H_add_symbol
    | |- RM (emit _ _) => apply H_emit
    | |- RM (evaluate_expression _) => apply H_eval
    | |- RM (export_one _ _ _) => apply H_export
    | |- RM (import_as_scope _) => apply H_import_as
    | |- RM (modify _) =>
        apply RM_modify; intro; first [apply H_enter | apply H_leave | apply H_install | apply H_setpc | apply H_select
                                       | apply H_bump | apply H_flag]
    | |- RM (ignore_err _) => apply RM_ignore_err
    | |- RM (recover _ _) => apply RM_recover
    | |- RM (match ?x with _ => _ end) => destruct x
    | |- RM (if ?b then _ else _) => destruct b
    end.

Lemma RM_scope_symbol n sp : RM (scope_symbol n sp).
Proof. unfold scope_symbol. rm2. Qed.

Lemma RM_with_scope {A} s b (f : M A) : RM f -> RM (with_scope s b f).
Proof.
  intro Hf. unfold with_scope. apply RM_bind; [apply RM_get|intro c0].
  apply RM_bind; [rm|intro]. apply RM_bind; [destruct b; [apply RM_scope_symbol|apply RM_ret]|intro].
  apply RM_finally; [exact Hf|]. apply RM_bind; [destruct b; [apply RM_scope_symbol|apply RM_ret]|intro]. rm.
Qed.

Lemma RM_define_segment sp l : RM (define_segment sp l).
Proof.
  unfold define_segment. destruct (validate_segment sp l); [|apply RM_fail]. rm2.
  unfold install_checked. rm2.
Qed.

Lemma RM_loop_iterations body : (forall i, RM (body i)) -> forall fuel i n, RM (loop_iterations fuel i n body).
Proof.
  intros Hb fuel. induction fuel as [|f IH]; intros i n; cbn [loop_iterations]; destruct (n <=? i)%Z; try apply RM_ret.
  - apply RM_abort.
  - apply RM_bind; [apply Hb|intro; apply IH].
Qed.

Lemma RM_eval_macro_args args : RM (eval_macro_args args).
Proof. induction args as [|a r IH]; cbn [eval_macro_args]; [apply RM_ret|]. rm. exact IH. Qed.

Lemma RM_bind_macro_args ps vals : RM (bind_macro_args ps vals).
Proof.
  revert vals. induction ps as [|[p psp] ps IH]; intros vals; cbn [bind_macro_args]; [apply RM_ret|].
  destruct vals as [|v vals]; [apply RM_ret|]. rm. apply IH.
Qed.

Lemma RM_emit_data_values size vs : RM (emit_data_values size vs).
Proof.
  induction vs as [|e r IH]; cbn [emit_data_values]; [apply RM_ret|].
  apply RM_bind; [apply RM_eval_i64|intro]. apply RM_bind; [apply H_emit|intro]. exact IH.
Qed.

Lemma RM_do_exports l : RM (do_exports l).
Proof.
  induction l as [|[[[a b] p] sp] r IH]; cbn [do_exports]; [apply RM_ret|].
  apply RM_bind; [apply H_export|intros ok]. destruct ok; [exact IH|apply RM_err1].
Qed.

Lemma RM_specific_exports nx items : RM (specific_exports nx items).
Proof.
  induction items as [|[[orig as_] sp] r IH]; cbn [specific_exports]; [apply RM_ret|].
  apply RM_bind; [apply RM_get|intro c]. destruct (try_index (symbols c) nx orig).
  - apply RM_bind; [exact IH|intro]. apply RM_ret.
  - apply RM_bind; [rm|intro]. exact IH.
Qed.

Lemma RM_emit_token_body rec : (forall t, RM (rec t)) -> forall fuel t, RM (emit_token_body rec fuel t).
Proof.
  intros Hrec fuel t.
  assert (Hts : forall ts, RM (emit_tokens rec ts)) by (intro; apply RM_emit_tokens_with; exact Hrec).
  destruct t; cbn [emit_token_body].
  - (* TAlign *) apply RM_bind; [apply RM_current_target_pc|intros pc]. destruct pc; [|apply RM_ret].
    apply RM_bind; [apply RM_eval_i64|intros a]. rm.
  - (* TBraces *) apply RM_with_scope. apply Hts.
  - (* TData *) apply RM_emit_data_values.
  - (* TDefine *) destruct cfg; [|apply RM_ret]. destruct (text_eqb id t_segment); [apply RM_define_segment|]. rm.
  - (* TIf *) apply RM_bind; [apply RM_eval_i64|intros v]. destruct v; [|apply RM_ret].
    destruct (negb (z =? 0)%Z); [apply Hts|]. destruct else_; [apply Hts|apply RM_ret].
  - (* TImport *) destruct file; [|apply RM_ret].
    apply RM_bind; [apply RM_with_scope; apply RM_bind; [destruct b; [apply Hts|apply RM_ret]|intro; apply Hts]|intro].
    apply RM_bind; [apply RM_get|intro c]. destruct (try_index (symbols c) (current_scope_nx c) [import_scope]); [|apply RM_ret].
    destruct args.
    + apply RM_bind; [destruct as_ as [[p s]|]; [apply H_import_as|apply RM_ret]|intro].
      apply RM_bind; [apply RM_get|intro]. apply RM_do_exports.
    + apply RM_bind; [apply RM_specific_exports|intro]. apply RM_do_exports.
  - (* TInstr *)
    apply RM_bind.
    + destruct operand as [[e f]|]; [apply RM_bind; [apply RM_eval_i64|intro; apply RM_ret]|apply RM_ret].
    + intros data. destruct data as [[value f]|]; [|apply H_emit].
      apply RM_bind; [apply RM_current_target_pc|intros pc].
      destruct (emit_instruction m f value pc) as [bytes [e|]]; [destruct e|]; rm.
  - (* TLabel *)
    apply RM_bind; [apply RM_current_target_pc|intros pc].
    apply RM_bind; [destruct pc; rm|intro]. destruct b; [apply RM_with_scope; apply Hts|apply RM_ret].
  - (* TLoop *)
    apply RM_bind; [apply RM_eval_i64|intros n]. destruct n; [|apply RM_ret].
    destruct (loop_iteration_limit <? z)%Z; [apply RM_abort|]. apply RM_loop_iterations. intro i. apply RM_with_scope. rm. apply Hts.
  - (* TMacroDef *) rm.
  - (* TInvoke *)
    apply RM_bind; [apply RM_get|intro c]. apply RM_bind; [rm|intro].
    destruct (query_all (symbols c) (current_scope_nx c) [id]); [|apply RM_abort].
    destruct (find_macro (symbols c) l) as [[[sp params] body]|]; [|rm].
    destruct (negb (length args =? length params)%nat); [apply RM_err1|].
    apply RM_bind; [apply RM_eval_macro_args|intro]. apply RM_with_scope.
    apply RM_bind; [apply RM_bind_macro_args|intro; apply Hts].
  - (* TPc *) apply RM_bind; [apply RM_eval_i64|intros v]. rm.
  - (* TSegment *)
    apply RM_bind; [apply RM_eval_string|intros s]. destruct s; [|apply RM_ret].
    destruct (existsb (N.eqb 46) t); [apply RM_err1|]. apply RM_bind; [apply RM_get|intro c].
    destruct (seg_get (segments c) t); [|apply RM_err1]. destruct b.
    + apply RM_bind; [rm|intro]. apply RM_finally; [apply Hts|rm].
    + rm.
  - (* TTest *)
    apply RM_bind; [apply RM_current_target_pc|intros pc]. destruct pc; [|apply RM_ret].
    apply RM_bind; [apply RM_eval_string|intros s]. rm.
  - (* TText *) apply RM_bind; [apply RM_eval_string|intros s]. rm.
  - (* TVarDef *) rm.
  - apply RM_ret.
  - apply RM_abort.
Qed.

Theorem RM_emit_token : forall fuel t, RM (emit_token fuel t).
Proof.
  induction fuel as [|f IH]; intro t; cbn [emit_token]; [apply RM_abort|].
  apply RM_emit_token_body. exact IH.
Qed.

Lemma RM_collecting {A} (m : M A) k : RM m -> RM k -> RM (collecting m k).
Proof.
  intros Hm Hk c. unfold collecting. specialize (Hm c). destruct (m c) as [a c1|ds c1|f]; auto;
  specialize (Hk c1); destruct (k c1); eauto.
Qed.
Lemma RM_register_segment_symbols l : RM (register_segment_symbols l).
Proof.
  induction l as [|[n s] r IH]; cbn [register_segment_symbols]; [apply RM_ret|].
  apply RM_collecting; [rm|]. apply RM_collecting; [rm|exact IH].
Qed.

Lemma RM_after_pass : RM after_pass.
Proof. unfold after_pass. apply RM_bind; [apply RM_get|intro]. apply RM_register_segment_symbols. Qed.

Theorem run_pass_R fuel toks c errs c' : run_pass fuel toks c = PassOk errs c' -> R c c'.
Proof.
  unfold run_pass. intro H.
  pose proof (RM_emit_tokens_with (emit_token fuel) (RM_emit_token fuel) toks [] c) as H1.
  unfold emit_tokens in H.
  destruct (emit_tokens_with (emit_token fuel) toks [] c) as [a c1|ds c1|f]; try discriminate;
  pose proof (RM_after_pass c1) as H2; destruct (after_pass c1) as [a2 c2|ds2 c2|f2]; try discriminate;
  inversion H; subst; eauto.
Qed.

End Lift.

(* C07: what the constructs mean in the model, one pass, from any context. *)
From Coq Require Import List NArith ZArith Bool PeanoNat Lia.
Import ListNotations.
From Mos Require Import model.I64 Gen.BinOps model.Expr Gen.OpcodeTable spec.Isa model.Encode.
From Mos Require Import model.SymTab Gen.CodegenConsts model.Segment model.Asm proofs.AsmProofs proofs.AsmSim.
Open Scope Z_scope.

(* ------------------------------------------------------------------ .if *)
Definition selected (v : Z) (a : block) (b : option block) : list token :=
  if negb (v =? 0) then blk_inner a else match b with Some b => blk_inner b | None => [] end.

(* `.if c {a} else {b}`: evaluate c; with value v the statement is exactly the statements of the selected branch,
   emitted in the same scope (no new scope, no other effect); without a value nothing is emitted *)
Theorem if_meaning fuel v a b c :
  emit_token (S fuel) (TIf v a b) c =
  match evaluate_expression_as_i64 v c with
  | Ret (Some x) c1 => emit_tokens (emit_token fuel) (selected x a b) c1
  | Ret None c1 => Ret tt c1
  | Err ds c1 => Err ds c1
  | Abort f => Abort f
  end.
Proof.
  cbn [emit_token emit_token_body]. unfold bind.
  destruct (evaluate_expression_as_i64 v c) as [[x|] c1|ds c1|f]; try reflexivity.
  unfold selected. destruct (negb (x =? 0)); [reflexivity|]. destruct b; reflexivity.
Qed.

(* ------------------------------------------------------------------ macro invocation *)
(* an invocation of a macro that is found (nearest enclosing definition) with the right number of arguments:
   the arguments are evaluated where the invocation stands, then the body runs in the fresh scope `$macro_<n>` (n = number
   of invocations so far in this pass) in which every parameter is bound to its argument's value *)
Theorem macro_meaning fuel name nsp args c nxs dsp params body :
  query_all (symbols c) (current_scope_nx c) [name] = Some nxs ->
  find_macro (symbols c) nxs = Some (dsp, params, body) ->
  length args = length params ->
  emit_token (S fuel) (TInvoke name nsp args) c =
  (modify bump_macro_id ;;;
   values <- eval_macro_args args ;;
   with_scope (macro_scope_name (next_macro_scope_id c)) None
     (bind_macro_args params values ;;; emit_tokens (emit_token fuel) body)) c.
Proof.
  intros Q F L. cbn [emit_token emit_token_body]. unfold bind at 1. unfold get at 1.
  unfold bind at 1. cbn [modify]. rewrite Q, F, L, Nat.eqb_refl. reflexivity.
Qed.

(* ------------------------------------------------------------------ .loop *)
Definition iteration (rec : token -> M unit) (e : lexpr) (lsc : ident) (b : block) (i : Z) : M unit :=
  with_scope (iteration_scope_name lsc i) (Some b)
    (c <- get ;; add_symbol [t_index] (symbol_ c (Some (le_span e)) (SDNum i) TyConstant) ;;; emit_tokens rec (blk_inner b)).

(* `.loop e {b}` with count n: the iterations 0 .. n-1 in order, each in its own scope `<loop scope>_<i>` with the block
   symbols `-` / `+` of b, `index` bound to i as a constant, then the statements of b; an error ends the loop *)
Theorem loop_meaning fuel e lsc b c :
  emit_token (S fuel) (TLoop e lsc b) c =
  match evaluate_expression_as_i64 e c with
  | Ret (Some n) c1 => if loop_iteration_limit <? n then Abort FUnsupported
                       else loop_iterations fuel loop_first_index n (iteration (emit_token fuel) e lsc b) c1
  | Ret None c1 => Ret tt c1
  | Err ds c1 => Err ds c1
  | Abort f => Abort f
  end.
Proof.
  cbn [emit_token emit_token_body]. unfold bind at 1.
  destruct (evaluate_expression_as_i64 e c) as [[n|] c1|ds c1|f]; try reflexivity.
  destruct (loop_iteration_limit <? n); reflexivity.
Qed.

Lemma loop_iterations_step fuel i n body :
  i < n -> loop_iterations (S fuel) i n body = (body i ;;; loop_iterations fuel (i + 1) n body).
Proof. intro H. cbn [loop_iterations]. destruct (n <=? i) eqn:E; [apply Z.leb_le in E; lia|reflexivity]. Qed.
Lemma loop_iterations_done fuel i n body : n <= i -> loop_iterations fuel i n body = ret tt.
Proof. intro H. destruct fuel; cbn [loop_iterations]; destruct (n <=? i) eqn:E; try reflexivity; apply Z.leb_gt in E; lia. Qed.

(* a closed expression with value i: what `.const index = <i>` is given in the expansion *)
Definition closed_value (li : lexpr) (i : Z) : Prop :=
  all_paths (le_expr li) = [] /\ usages (le_expr li) = [] /\ forall en, eval en (le_expr li) = EVal (Some (SNum i)).

(* the block written by hand for iteration i *)
Definition iteration_block (e : lexpr) (lsc : ident) (b : block) (li : lexpr) (i : Z) : token :=
  TBraces (iteration_scope_name lsc i)
          (Blk (blk_lparen b) (blk_rparen b) (TVarDef VConst t_index (le_span e) li :: blk_inner b)).

Lemma eval_closed li i c : closed_value li i -> try_current_target_pc c <> PcPanic ->
  exists ev, evaluate_expression li c = Ret (Some (SNum i)) (log c ev).
Proof.
  intros (A & U & V) P. unfold evaluate_expression.
  assert (D : diverges c (le_expr li) = false) by (unfold diverges; rewrite A; reflexivity).
  destruct (try_current_target_pc c) eqn:T; [| |contradiction]; rewrite D, V, U; cbn [combine flag_usages]; eexists; reflexivity.
Qed.

(* after its `-` symbol, iteration i of the loop and the hand-written block `{ .const index = i  b }` run the same
   computation up to the ghost log, provided binding `index` does not fail (a failure skips the body in the loop and
   not in the block) *)
Theorem iteration_is_block fuel (e : lexpr) (b : block) li i c c' :
  closed_value li i -> E c c' -> try_current_target_pc c' <> PcPanic ->
  (forall ds d, (c0 <- get ;; add_symbol [t_index] (symbol_ c0 (Some (le_span e)) (SDNum i) TyConstant)) c <> Err ds d) ->
  out_rel ((c0 <- get ;; add_symbol [t_index] (symbol_ c0 (Some (le_span e)) (SDNum i) TyConstant) ;;;
            emit_tokens (emit_token (S fuel)) (blk_inner b)) c)
          (emit_tokens (emit_token (S fuel)) (TVarDef VConst t_index (le_span e) li :: blk_inner b) c').
Proof.
  intros CV HE P NoErr.
  unfold emit_tokens at 2. cbn [emit_tokens_with]. cbn [emit_token emit_token_body].
  destruct (eval_closed li i c' CV P) as [ev Ev].
  unfold bind at 3. rewrite Ev. cbn [sval_to_sdata].
  unfold bind at 3. unfold get at 2.
  (* both sides now run add_symbol, on contexts that differ in the ghost log only *)
  assert (HE2 : E c (log c' ev)) by (unfold E, core in *; cbn; exact HE).
  assert (S1 : symbol_ c (Some (le_span e)) (SDNum i) TyConstant = symbol_ (log c' ev) (Some (le_span e)) (SDNum i) TyConstant)
    by (apply symbol_core; exact HE2).
  pose proof (sim_add_symbol [t_index] (symbol_ c (Some (le_span e)) (SDNum i) TyConstant) c (log c' ev) HE2) as SA.
  unfold bind at 1. unfold get at 1. unfold bind at 1.
  assert (NE : forall ds d, add_symbol [t_index] (symbol_ c (Some (le_span e)) (SDNum i) TyConstant) c <> Err ds d).
  { intros ds d Hc. apply (NoErr ds d). unfold bind, get. exact Hc. }
  rewrite <- S1. unfold bind at 1.
  destruct (add_symbol [t_index] (symbol_ c (Some (le_span e)) (SDNum i) TyConstant) c) as [nx d|ds d|f] eqn:EA;
  destruct (add_symbol [t_index] (symbol_ c (Some (le_span e)) (SDNum i) TyConstant) (log c' ev)) as [nx' d'|ds' d'|f'] eqn:EA';
  cbn in SA; try contradiction.
  - destruct SA as [_ Hd]. cbn [ret]. apply (sim_emit_tokens_with _ _ (sim_emit_token (S fuel))). exact Hd.
  - exfalso. eapply NE. reflexivity.
  - cbn. exact SA.
Qed.

(* ------------------------------------------------------------------ composition *)
(* two statement lists whose statements are pairwise equivalent (equal effect on the non-ghost context from all
   equivalent contexts) are equivalent as lists ... *)
Lemma compose_lists et et' : forall ts ts', Forall2 (fun a b => SimM (et a) (et' b)) ts ts' ->
  forall acc, SimM (emit_tokens_with et ts acc) (emit_tokens_with et' ts' acc).
Proof.
  intros ts ts' F. induction F as [|a b r r' Hab F IH]; intro acc; cbn [emit_tokens_with].
  - destruct acc; [apply sim_ret|apply sim_fail].
  - intros c c' HE. specialize (Hab c c' HE). destruct (et a c), (et' b c'); cbn in Hab; try contradiction; auto.
    + destruct Hab as [_ He]. apply IH. exact He.
    + destruct Hab as [-> He]. apply IH. exact He.
Qed.

(* ... and stay equivalent inside a block, a labelled block, an `.if` branch, a loop body and a segment block: replacing a
   statement by an equivalent one anywhere in a program gives an equivalent program (nesting composes) *)
Theorem compose fuel (ts ts' : list token) :
  Forall2 (fun a b => SimM (emit_token fuel a) (emit_token fuel b)) ts ts' ->
  (forall sc lp rp, SimM (emit_token (S fuel) (TBraces sc (Blk lp rp ts))) (emit_token (S fuel) (TBraces sc (Blk lp rp ts')))) /\
  (forall id isp lp rp, SimM (emit_token (S fuel) (TLabel id isp (Some (Blk lp rp ts)))) (emit_token (S fuel) (TLabel id isp (Some (Blk lp rp ts'))))) /\
  (forall v lp rp e, SimM (emit_token (S fuel) (TIf v (Blk lp rp ts) e)) (emit_token (S fuel) (TIf v (Blk lp rp ts') e))) /\
  (forall e lsc lp rp, SimM (emit_token (S fuel) (TLoop e lsc (Blk lp rp ts))) (emit_token (S fuel) (TLoop e lsc (Blk lp rp ts')))) /\
  (forall pre post, SimM (emit_tokens (emit_token fuel) (pre ++ ts ++ post)) (emit_tokens (emit_token fuel) (pre ++ ts' ++ post))).
Proof.
  intro F.
  assert (L : forall acc, SimM (emit_tokens_with (emit_token fuel) ts acc) (emit_tokens_with (emit_token fuel) ts' acc))
    by (apply compose_lists; exact F).
  assert (L0 : SimM (emit_tokens (emit_token fuel) ts) (emit_tokens (emit_token fuel) ts')) by apply L.
  repeat split.
  - intros sc lp rp. cbn [emit_token emit_token_body blk_inner]. apply sim_with_scope2; [cbn; auto|exact L0].
  - intros id isp lp rp. cbn [emit_token emit_token_body blk_inner].
    apply sim_bind; [apply sim_current_target_pc|intros pc].
    apply sim_bind.
    + destruct pc; [|apply sim_ret]. apply sim_get_bind; intros c c' H. rewrite (symbol_core _ _ _ _ _ H).
      apply sim_bind; [apply sim_add_symbol|intro; apply sim_ret].
    + intro. apply sim_with_scope2; [cbn; auto|exact L0].
  - intros v lp rp e. cbn [emit_token emit_token_body blk_inner].
    apply sim_bind; [apply sim_eval_i64|intros x]. destruct x; [|apply sim_ret].
    destruct (negb (z =? 0)); [exact L0|]. destruct e; [apply sim_emit_tokens; apply sim_emit_token|apply sim_ret].
  - intros e lsc lp rp. cbn [emit_token emit_token_body blk_inner blk_lparen blk_rparen].
    apply sim_bind; [apply sim_eval_i64|intros n]. destruct n; [|apply sim_ret].
    destruct (loop_iteration_limit <? z); [apply sim_abort|].
    apply sim_loop_iterations. intro i. unfold with_scope.
    apply sim_get_bind; intros c c' H.
    assert (HS : current_scope c = current_scope c' /\ current_scope_nx c = current_scope_nx c' /\ next_macro_scope_id c = next_macro_scope_id c') by (unfold E, core in H; inversion H; auto).
    destruct HS as (H1 & H2 & H3). rewrite H1, H2, H3.
    apply sim_bind; [apply sim_modify; intros; apply core_enter; assumption|intro].
    apply sim_bind; [apply sim_scope_symbol|intro].
    apply sim_finally.
    + apply sim_get_bind; intros d d' Hd. rewrite (symbol_core _ _ _ _ _ Hd).
      apply sim_bind; [apply sim_add_symbol|intro]. exact L0.
    + apply sim_bind; [apply sim_scope_symbol|intro]. apply sim_modify. intros; apply core_leave; assumption.
  - intros pre post. unfold emit_tokens. apply compose_lists.
    apply Forall2_app; [|apply Forall2_app; [exact F|]]; clear;
    match goal with |- Forall2 _ ?l ?l => induction l; constructor; auto; apply sim_emit_token end.
Qed.

(* every statement is equivalent to itself: the ghost log never influences the assembly *)
Theorem ghost_independent fuel toks c c' : E c c' -> pass_rel (run_pass fuel toks c) (run_pass fuel toks c').
Proof. apply run_pass_core. Qed.

(* ------------------------------------------------------------------ constants: uses replaced by the parenthesised definition *)
Fixpoint subst_with (sigma : ipath -> option expr) (e : expr) : expr :=
  match e with
  | EBin op l r => EBin op (subst_with sigma l) (subst_with sigma r)
  | EId p None fnot fneg => match sigma p with Some d => EParens d fnot fneg | None => e end
  | EParens i a b => EParens (subst_with sigma i) a b
  | other => other
  end.

(* exact guard: a name may be replaced by (d) in an environment in which the name is a number and d evaluates to that
   very number -- i.e. the free symbols of d mean at the use what they meant at the definition, and d has a value *)
Definition subst_guard (en : env) (sigma : ipath -> option expr) : Prop :=
  forall p d, sigma p = Some d -> exists v, lookup en p = Some (DNum v) /\ eval en d = EVal (Some (SNum v)).

Theorem const_subst en sigma : subst_guard en sigma -> forall e, eval en (subst_with sigma e) = eval en e.
Proof.
  intros G e. induction e using expr_ind2; cbn [subst_with eval]; try reflexivity.
  - rewrite IHe1, IHe2. reflexivity.
  - destruct b as [md|]; [reflexivity|]. destruct (sigma a) as [d0|] eqn:S; [|reflexivity].
    destruct (G a d0 S) as (v & L & Ev). cbn [eval]. rewrite L, Ev. reflexivity.
  - rewrite IHe. reflexivity.
Qed.

(* ------------------------------------------------------------------ imports *)
(* what an import does: the parameter block and the file's statements in the scope `import_scope` (with the block's
   symbols when there is a parameter block), then the export step of its form *)
Definition import_body (rec : token -> M unit) (isc : ident) (b : option block) (toks : list token) : M unit :=
  with_scope isc b ((match b with Some b => emit_tokens rec (blk_inner b) | None => ret tt end) ;;; emit_tokens rec toks).

Theorem import_all_meaning fuel star isc b toks c :
  emit_token (S fuel) (TImport (ImportAll star None) isc b (Some toks)) c =
  (import_body (emit_token fuel) isc b toks ;;;
   c1 <- get ;;
   match try_index (symbols c1) (current_scope_nx c1) [isc] with
   | None => ret tt
   | Some import_nx =>
       (* every name of the file that is not special (`-`, `+`, `$..`) becomes visible in the importing scope *)
       do_exports (map (fun ch => (snd ch, current_scope_nx c1, [fst ch], star))
                       (filter (fun ch => negb (is_special (fst ch))) (children (symbols c1) import_nx)))
   end) c.
Proof.
  cbn [emit_token emit_token_body]. unfold import_body, bind, get.
  destruct (with_scope isc b _ c) as [u c1|ds c1|f]; try reflexivity;
  try (destruct (try_index (symbols c1) (current_scope_nx c1) [isc]); reflexivity).
Qed.

Theorem import_as_meaning fuel star p psp isc b toks c :
  emit_token (S fuel) (TImport (ImportAll star (Some (p, psp))) isc b (Some toks)) c =
  (import_body (emit_token fuel) isc b toks ;;;
   c1 <- get ;;
   match try_index (symbols c1) (current_scope_nx c1) [isc] with
   | None => ret tt
   | Some import_nx =>
       (* the names become visible under the namespace p of the importing scope *)
       scope_nx <- import_as_scope p ;;
       c2 <- get ;;
       do_exports (map (fun ch => (snd ch, scope_nx, [fst ch], psp))
                       (filter (fun ch => negb (is_special (fst ch))) (children (symbols c2) import_nx)))
   end) c.
Proof.
  cbn [emit_token emit_token_body]. unfold import_body, bind, get.
  destruct (with_scope isc b _ c) as [u c1|ds c1|f]; try reflexivity;
  try (destruct (try_index (symbols c1) (current_scope_nx c1) [isc]); reflexivity).
Qed.

Theorem import_specific_meaning fuel items isc b toks c :
  emit_token (S fuel) (TImport (ImportSpecific items) isc b (Some toks)) c =
  (import_body (emit_token fuel) isc b toks ;;;
   c1 <- get ;;
   match try_index (symbols c1) (current_scope_nx c1) [isc] with
   | None => ret tt
   | Some import_nx =>
       (* each listed name that the file defines becomes visible under its own name or its alias; a missing one is flagged undefined *)
       l <- specific_exports import_nx items ;; do_exports l
   end) c.
Proof.
  cbn [emit_token emit_token_body]. unfold import_body, bind, get.
  destruct (with_scope isc b _ c) as [u c1|ds c1|f]; try reflexivity;
  try (destruct (try_index (symbols c1) (current_scope_nx c1) [isc]); reflexivity).
Qed.

(* an export makes the name resolve to the imported symbol itself (same node, hence same value) from the target scope *)
Theorem export_visible (t : symtab symbol) x parent name t' :
  is_super name = false -> export t x parent [name] = (t', true) ->
  try_index t' parent [name] = Some x /\ nodes t' = nodes t.
Proof.
  intros NS. unfold export, split_last. cbn [removelast last ensure_index].
  destruct (existsb _ (edges t)); [discriminate|]. intro H. inversion H; subst t'. clear H.
  cbn [try_index]. rewrite NS. unfold child, add_edge. cbn [edges child_in nodes].
  rewrite Nat.eqb_refl. assert (R : ident_eqb name name = true) by (apply text_eqb_refl). rewrite R. cbn [andb]. auto.
Qed.

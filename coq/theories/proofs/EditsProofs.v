(* Proofs for C17: the edits computed by get_text_edits, applied in the LSP manner, reproduce the new text. *)
From Coq Require Import List NArith Bool Arith Lia.
Import ListNotations.
From Mos Require Import spec.LspEdits model.Utf Gen.EditsConsts model.Edits.

(* ---- the translated constants are the ones the protocol prescribes ---- *)
Lemma width_is_u16 : forall c, column_width c = u16 c.
Proof. intro c. reflexivity. Qed.
Lemma newline_is_lf : newline_char = LF.
Proof. reflexivity. Qed.

Lemma u16_pos : forall c, 1 <= u16 c.
Proof. intro c. unfold u16. destruct (N.ltb c 65536); lia. Qed.

(* ---- RangeKeeper ---- *)
Lemma push_app : forall a b rk, push rk (a ++ b) = push (push rk a) b.
Proof. induction a; intros; cbn [push app]; auto. Qed.

Lemma push1_cases : forall rk c,
  (c = LF /\ push1 rk c = (S (fst rk), 0)) \/ (N.eqb c LF = false /\ push1 rk c = (fst rk, snd rk + u16 c)).
Proof.
  intros rk c. unfold push1. rewrite newline_is_lf, width_is_u16.
  destruct (N.eqb c LF) eqn:E; [left | right]; split; auto. now apply N.eqb_eq.
Qed.

Lemma push_line_shift : forall s l c k,
  push (k + l, c) s = (k + fst (push (l, c) s), snd (push (l, c) s)).
Proof.
  induction s as [|x s IH]; intros l c k; cbn [push]; [reflexivity|].
  destruct (push1_cases (l, c) x) as [[H0 E]|[H0 E]], (push1_cases (k + l, c) x) as [[H1 E']|[H1 E']];
    rewrite E, E'; cbn [fst snd] in *; subst; try discriminate.
  - replace (S (k + l)) with (k + S l) by lia. apply IH.
  - apply IH.
Qed.

(* ---- positions: the RangeKeeper position of a prefix is the LSP position of its length ---- *)
(* position (l, c) in a document whose first line starts at column c0 *)
Definition offset_from (doc : text) (c0 l c : nat) : option nat :=
  match l with
  | O => if c0 <=? c then col_offset doc (c - c0) else None
  | S _ => offset_of doc l c
  end.

Lemma offset_from_0 : forall doc l c, offset_from doc 0 l c = offset_of doc l c.
Proof. intros doc [|l] c; cbn [offset_from Nat.leb]; [|reflexivity]. rewrite Nat.sub_0_r. destruct doc; reflexivity. Qed.

Lemma has_cr_app : forall a b, has_cr (a ++ b) = false <-> has_cr a = false /\ has_cr b = false.
Proof. intros. unfold has_cr. rewrite existsb_app, orb_false_iff. tauto. Qed.
Lemma has_cr_cons : forall x a, has_cr (x :: a) = false <-> N.eqb x CR = false /\ has_cr a = false.
Proof. intros. unfold has_cr. cbn [existsb]. rewrite orb_false_iff, N.eqb_sym. tauto. Qed.

(* an ordinary character: same line, column advanced by its width *)
Lemma step_ordinary : forall x rest c0 l c n, N.eqb x LF = false -> N.eqb x CR = false ->
  offset_from rest (c0 + u16 x) l c = Some n -> offset_from (x :: rest) c0 l c = Some (S n).
Proof.
  intros x rest c0 l c n Hlf Hcr H. pose proof (u16_pos x). destruct l as [|l]; cbn [offset_from] in *.
  - destruct (c0 + u16 x <=? c) eqn:E1; [|discriminate]. apply Nat.leb_le in E1.
    replace (c0 <=? c) with true by (symmetry; apply Nat.leb_le; lia).
    destruct (c - c0) eqn:Ec; [lia|]. cbn [col_offset]. unfold is_eol. rewrite Hlf, Hcr. cbn [orb].
    replace (S n0 <? u16 x) with false by (symmetry; apply Nat.ltb_ge; lia).
    replace (S n0 - u16 x) with (c - (c0 + u16 x)) by lia. rewrite H. reflexivity.
  - cbn [offset_of]. rewrite Hcr, Hlf. rewrite H. reflexivity.
Qed.

(* a line terminator of k characters: next line, column 0 *)
Lemma step_eol : forall doc rest k c0 l c n,
  (forall l' c', offset_of doc (S l') c' = option_map (fun m => k + m) (offset_of rest l' c')) ->
  offset_from rest 0 l c = Some n -> offset_from doc c0 (S l) c = Some (k + n).
Proof. intros. cbn [offset_from]. rewrite H. rewrite offset_from_0 in H0. rewrite H0. reflexivity. Qed.

Lemma push_offset : forall pre suf c0, has_cr pre = false ->
  offset_from (pre ++ suf) c0 (fst (push (0, c0) pre)) (snd (push (0, c0) pre)) = Some (length pre).
Proof.
  induction pre as [|x pre IH]; intros suf c0 Hcr.
  - cbn [push fst snd app length offset_from]. rewrite Nat.leb_refl, Nat.sub_diag. destruct suf; reflexivity.
  - apply has_cr_cons in Hcr. destruct Hcr as [Hx Hcr]. cbn [push app length].
    destruct (push1_cases (0, c0) x) as [[-> E]|[Hlf E]]; rewrite E; cbn [fst snd].
    + change (1, 0) with (1 + 0, 0). rewrite push_line_shift. cbn [fst snd plus].
      apply (step_eol _ (pre ++ suf) 1); [|apply IH; assumption].
      intros. cbn [offset_of]. change (N.eqb LF CR) with false. change (N.eqb LF LF) with true. cbv iota.
      destruct (offset_of (pre ++ suf) l' c'); reflexivity.
    + apply step_ordinary; auto.
Qed.

Lemma offset_of_prefix : forall pre suf, has_cr pre = false ->
  offset_of (pre ++ suf) (fst (push rk_new pre)) (snd (push rk_new pre)) = Some (length pre).
Proof. intros pre suf H. rewrite <- offset_from_0. apply push_offset. assumption. Qed.

(* ---- a whole document with any mixture of LF, CR LF and lone CR: the RangeKeeper position of its LF-only form
        is the LSP position of its end ---- *)
Definition norm (s : text) : text := replace_cr (replace_crlf s).

Lemma norm_crlf : forall r, norm (CR :: LF :: r) = LF :: norm r.
Proof. reflexivity. Qed.
Lemma norm_cr_nil : norm [CR] = [LF].
Proof. reflexivity. Qed.
Lemma norm_cr_other : forall y r, N.eqb y LF = false -> norm (CR :: y :: r) = LF :: norm (y :: r).
Proof.
  intros y r H. unfold norm. cbn [replace_crlf]. change (N.eqb CR cr_char) with true. cbv iota.
  change newline_char with LF. rewrite H. reflexivity.
Qed.
Lemma norm_other : forall x r, N.eqb x CR = false -> norm (x :: r) = x :: norm r.
Proof.
  intros x r H. unfold norm. cbn [replace_crlf]. change cr_char with CR. rewrite H. cbn [replace_cr map].
  change cr_char with CR. rewrite H. reflexivity.
Qed.

Lemma push_lf : forall c0 s, push (0, c0) (LF :: s) = (S (fst (push (0, 0) s)), snd (push (0, 0) s)).
Proof.
  intros. cbn [push]. destruct (push1_cases (0, c0) LF) as [[_ E]|[E _]]; [|discriminate]. rewrite E. cbn [fst].
  change (1, 0) with (1 + 0, 0). rewrite push_line_shift. reflexivity.
Qed.

Lemma push_norm_offset : forall n old, length old <= n -> forall c0,
  offset_from old c0 (fst (push (0, c0) (norm old))) (snd (push (0, c0) (norm old))) = Some (length old).
Proof.
  induction n as [|n IH]; intros old Hn c0.
  { destruct old; [|cbn in Hn; lia]. cbn [norm replace_crlf replace_cr map push fst snd offset_from length].
    rewrite Nat.leb_refl, Nat.sub_diag. reflexivity. }
  destruct old as [|x r].
  { cbn [norm replace_crlf replace_cr map push fst snd offset_from length]. rewrite Nat.leb_refl, Nat.sub_diag. reflexivity. }
  cbn [length] in Hn. destruct (N.eqb x CR) eqn:Hx.
  - apply N.eqb_eq in Hx. subst x. destruct r as [|y r'].
    + rewrite norm_cr_nil, push_lf. cbn [push fst snd length].
      apply (step_eol _ [] 1 c0 0 0 0); [|reflexivity]. intros [|l'] c'; reflexivity.
    + destruct (N.eqb y LF) eqn:Hy.
      * apply N.eqb_eq in Hy. subst y. rewrite norm_crlf, push_lf. cbn [fst snd length] in *.
        apply (step_eol _ r' 2); [|apply IH; lia].
        intros. cbn [offset_of]. change (N.eqb CR CR) with true. change (N.eqb LF LF) with true. cbv iota.
        destruct (offset_of r' l' c'); reflexivity.
      * rewrite norm_cr_other by assumption. rewrite push_lf. cbn [fst snd].
        change (length (CR :: y :: r')) with (1 + length (y :: r')).
        apply (step_eol _ (y :: r') 1); [|apply IH; cbn [length] in *; lia].
        intros. cbn [offset_of]. change (N.eqb CR CR) with true. cbv iota. rewrite Hy.
        destruct (N.eqb y CR); destruct l'; cbn; try reflexivity.
  - rewrite norm_other by assumption. cbn [push length].
    destruct (push1_cases (0, c0) x) as [[-> E]|[Hlf E]]; rewrite E; cbn [fst snd].
    + change (1, 0) with (1 + 0, 0). rewrite push_line_shift. cbn [fst snd plus].
      apply (step_eol _ r 1); [|apply IH; lia].
      intros. cbn [offset_of]. change (N.eqb LF CR) with false. change (N.eqb LF LF) with true. cbv iota.
      destruct (offset_of r l' c'); reflexivity.
    + apply step_ordinary; auto. apply IH. lia.
Qed.

Lemma offset_of_end : forall old,
  offset_of old (fst (push rk_new (norm old))) (snd (push rk_new (norm old))) = Some (length old).
Proof. intros. rewrite <- offset_from_0. eapply push_norm_offset. apply le_n. Qed.

(* ---- splice ---- *)
Lemma skipn_app_len : forall (a b : text), skipn (length a) (a ++ b) = b.
Proof. induction a; intros; cbn; auto. Qed.
Lemma firstn_app_len : forall (a b : text), firstn (length a) (a ++ b) = a.
Proof. induction a; intros; cbn; f_equal; auto. Qed.

Lemma firstn_split : forall (l : text) a b, firstn (a + b) l = firstn a l ++ firstn b (skipn a l).
Proof.
  induction l as [|x l IH]; intros a b.
  - now rewrite !firstn_nil, skipn_nil, firstn_nil.
  - destruct a; cbn [plus firstn skipn app]; [reflexivity|]. f_equal. apply IH.
Qed.
Lemma skipn_skipn : forall (l : text) a b, skipn b (skipn a l) = skipn (a + b) l.
Proof.
  induction l as [|x l IH]; intros a b.
  - now rewrite !skipn_nil.
  - destruct a; cbn [plus skipn]; [reflexivity|]. apply IH.
Qed.
Lemma skipn_split : forall (l : text) a, a <= length l -> forall b, skipn a l = firstn b (skipn a l) ++ skipn (a + b) l.
Proof. intros. rewrite <- skipn_skipn. symmetry. apply firstn_skipn. Qed.

(* moving the cursor back over text that no edit touches *)
Lemma splice_earlier : forall doc rs cur cur' out, cur <= cur' <= length doc ->
  splice doc cur' rs = Some out ->
  splice doc cur rs = Some (firstn (cur' - cur) (skipn cur doc) ++ out).
Proof.
  intros doc rs cur cur' out Hc H. destruct rs as [|[[s t] new] r]; cbn [splice] in *.
  - injection H as <-. f_equal. replace cur' with (cur + (cur' - cur)) at 2 by lia. apply skipn_split. lia.
  - destruct ((cur' <=? s) && (s <=? t) && (t <=? length doc)) eqn:E; [|discriminate].
    apply andb_true_iff in E. destruct E as [E E3]. apply andb_true_iff in E. destruct E as [E1 E2].
    apply Nat.leb_le in E1, E2, E3.
    replace ((cur <=? s) && (s <=? t) && (t <=? length doc)) with true
      by (symmetry; rewrite !andb_true_iff, !Nat.leb_le; lia).
    destruct (splice doc t r) as [o|]; [|discriminate]. cbn [option_map] in *. injection H as <-. f_equal.
    replace (s - cur) with ((cur' - cur) + (s - cur')) by lia.
    rewrite firstn_split, skipn_skipn, <- app_assoc. replace (cur + (cur' - cur)) with cur' by lia. reflexivity.
Qed.

Lemma splice_ordered : forall doc rs cur out, splice doc cur rs = Some out ->
  ordered_from cur rs /\ Forall (fun r => snd (fst r) <= length doc) rs.
Proof.
  intros doc rs. induction rs as [|[[s t] new] r IH]; intros cur out H; cbn [splice ordered_from] in *.
  - split; constructor.
  - destruct ((cur <=? s) && (s <=? t) && (t <=? length doc)) eqn:E; [|discriminate].
    apply andb_true_iff in E. destruct E as [E E3]. apply andb_true_iff in E. destruct E as [E1 E2].
    apply Nat.leb_le in E1, E2, E3.
    destruct (splice doc t r) as [o|] eqn:S; [|discriminate]. destruct (IH _ _ S) as [A B].
    split; [repeat split; auto | constructor; auto].
Qed.

(* ---- one step of get_text_edits ---- *)
Lemma old_of_cons : forall c cs,
  old_of (c :: cs) = match c with Equal t | Delete t => t | Insert _ => [] end ++ old_of cs.
Proof. reflexivity. Qed.
Lemma new_of_cons : forall c cs,
  new_of (c :: cs) = match c with Equal t | Insert t => t | Delete _ => [] end ++ new_of cs.
Proof. reflexivity. Qed.

(* get_text_edits in offset space: what the positions of each edit must resolve to *)
Fixpoint gte_off (off : nat) (cs : list chunk) : list resolved :=
  match cs with
  | [] => []
  | Delete del :: rest =>
      match rest with
      | Equal eq :: Insert ins :: rest3 =>
          if text_eqb del ins
          then (off, off + length (del ++ eq), eq ++ ins) :: gte_off (off + length (del ++ eq)) rest3
          else (off, off + length del, []) :: gte_off (off + length del) rest
      | Insert ins :: rest2 => (off, off + length del, ins) :: gte_off (off + length del) rest2
      | _ => (off, off + length del, []) :: gte_off (off + length del) rest
      end
  | Equal str :: rest => gte_off (off + length str) rest
  | Insert str :: rest => (off, off, str) :: gte_off off rest
  end.

Lemma step_edit : forall doc pre d rest new es rs out,
  doc = pre ++ d ++ rest -> has_cr doc = false ->
  resolve_all doc es = Some rs -> splice doc (length (pre ++ d)) rs = Some out ->
  resolve_all doc (to_range (push rk_new pre) d new :: es) = Some ((length pre, length pre + length d, new) :: rs) /\
  splice doc (length pre) ((length pre, length pre + length d, new) :: rs) = Some (new ++ out).
Proof.
  intros doc pre d rest new es rs out -> Hcr Hr Hs.
  apply has_cr_app in Hcr. destruct Hcr as [Hp Hcr]. apply has_cr_app in Hcr. destruct Hcr as [Hd _].
  split.
  - cbn [resolve_all]. rewrite Hr. unfold resolve, to_range. cbn [e_start e_end e_new].
    rewrite offset_of_prefix by assumption.
    rewrite <- push_app. rewrite app_assoc. rewrite offset_of_prefix by (apply has_cr_app; auto).
    rewrite app_length. reflexivity.
  - cbn [splice]. rewrite app_length in Hs. rewrite Hs. rewrite !app_length in *.
    replace ((length pre <=? length pre) && (length pre <=? length pre + length d) &&
             (length pre + length d <=? length pre + (length d + length rest))) with true
      by (symmetry; rewrite !andb_true_iff, !Nat.leb_le; lia).
    rewrite Nat.sub_diag. reflexivity.
Qed.

Lemma step_equal : forall doc pre e rest rs out,
  doc = pre ++ e ++ rest -> splice doc (length (pre ++ e)) rs = Some out ->
  splice doc (length pre) rs = Some (e ++ out).
Proof.
  intros doc pre e rest rs out -> Hs.
  assert (Hc : length pre <= length (pre ++ e) <= length (pre ++ e ++ rest)) by (rewrite !app_length; lia).
  rewrite (splice_earlier _ _ _ _ _ Hc Hs).
  rewrite app_length. replace (length pre + length e - length pre) with (length e) by lia.
  rewrite skipn_app_len, firstn_app_len. reflexivity.
Qed.

(* ---- all chunk lists ---- *)
Lemma gte_correct : forall n cs, length cs <= n -> forall pre doc,
  doc = pre ++ old_of cs -> has_cr doc = false ->
  resolve_all doc (gte (push rk_new pre) cs) = Some (gte_off (length pre) cs) /\
  splice doc (length pre) (gte_off (length pre) cs) = Some (new_of cs).
Proof.
  induction n as [|n IH]; intros cs Hn pre doc Hdoc Hcr.
  { destruct cs; [|cbn in Hn; lia]. split; [reflexivity|].
    cbn [gte_off splice new_of flat_map]. subst doc. cbn [old_of flat_map]. rewrite app_nil_r.
    f_equal. rewrite <- (app_nil_r pre) at 2. apply skipn_app_len. }
  destruct cs as [|c cs].
  { split; [reflexivity|].
    cbn [gte_off splice new_of flat_map]. subst doc. cbn [old_of flat_map]. rewrite app_nil_r.
    f_equal. rewrite <- (app_nil_r pre) at 2. apply skipn_app_len. }
  cbn [length] in Hn.
  (* the generic single-chunk steps *)
  assert (DEL : forall del, c = Delete del ->
            let rs := (length pre, length pre + length del, []) :: gte_off (length pre + length del) cs in
            resolve_all doc (to_range (push rk_new pre) del [] :: gte (push (push rk_new pre) del) cs) = Some rs /\
            splice doc (length pre) rs = Some (new_of (c :: cs))).
  { intros del ->. rewrite old_of_cons in Hdoc.
    destruct (IH cs ltac:(lia) (pre ++ del) doc) as [R Sp]; [now rewrite <- app_assoc|assumption|].
    rewrite push_app in R. rewrite app_length in R. rewrite (app_length pre del) in Sp at 2.
    destruct (step_edit doc pre del (old_of cs) [] _ _ _ Hdoc Hcr R Sp) as [R' S'].
    split; [exact R'|]. rewrite new_of_cons. exact S'. }
  destruct c as [str|del|str].
  - (* Equal *)
    cbn [gte gte_off]. rewrite old_of_cons in Hdoc.
    destruct (IH cs ltac:(lia) (pre ++ str) doc) as [R Sp]; [now rewrite <- app_assoc|assumption|].
    rewrite push_app in R. rewrite app_length in R. rewrite (app_length pre str) in Sp at 2.
    split; [exact R|]. rewrite new_of_cons.
    eapply step_equal; eauto.
  - (* Delete, with lookahead *)
    cbn [gte gte_off]. destruct cs as [|c2 cs2]; [exact (DEL del eq_refl)|].
    destruct c2 as [eq|del2|ins]; [|exact (DEL del eq_refl)|].
    + (* Delete, Equal, ? *)
      destruct cs2 as [|c3 cs3]; [exact (DEL del eq_refl)|].
      destruct c3 as [e3|d3|ins]; [exact (DEL del eq_refl)|exact (DEL del eq_refl)|].
      destruct (text_eqb del ins); [|exact (DEL del eq_refl)].
      (* merged replace of del ++ eq by eq ++ ins *)
      rewrite !old_of_cons in Hdoc. cbn [app] in Hdoc. cbn [length] in Hn.
      destruct (IH cs3 ltac:(lia) (pre ++ del ++ eq) doc) as [R Sp];
        [now rewrite <- !app_assoc in *|assumption|].
      rewrite push_app in R. rewrite (app_length pre (del ++ eq)) in R. rewrite (app_length pre (del ++ eq)) in Sp at 2.
      assert (Hdoc' : doc = pre ++ (del ++ eq) ++ old_of cs3) by (rewrite Hdoc, <- !app_assoc; reflexivity).
      destruct (step_edit doc pre (del ++ eq) (old_of cs3) (eq ++ ins) _ _ _ Hdoc' Hcr R Sp) as [R' S'].
      split; [exact R'|]. rewrite !new_of_cons. cbn [app]. rewrite <- app_assoc in S'. exact S'.
    + (* Delete, Insert: replace *)
      rewrite !old_of_cons in Hdoc. cbn [app] in Hdoc. cbn [length] in Hn.
      destruct (IH cs2 ltac:(lia) (pre ++ del) doc) as [R Sp]; [now rewrite <- app_assoc|assumption|].
      rewrite push_app in R. rewrite app_length in R. rewrite (app_length pre del) in Sp at 2.
      destruct (step_edit doc pre del (old_of cs2) ins _ _ _ Hdoc Hcr R Sp) as [R' S'].
      split; [exact R'|]. rewrite !new_of_cons. cbn [app]. exact S'.
  - (* Insert *)
    cbn [gte gte_off]. rewrite old_of_cons in Hdoc. cbn [app] in Hdoc.
    destruct (IH cs ltac:(lia) pre doc Hdoc Hcr) as [R Sp].
    assert (Hdoc' : doc = pre ++ [] ++ old_of cs) by exact Hdoc.
    rewrite <- (app_nil_r pre) in Sp at 1.
    destruct (step_edit doc pre [] (old_of cs) str _ _ _ Hdoc' Hcr R Sp) as [R' S'].
    cbn [length] in R', S'. rewrite Nat.add_0_r in R', S'.
    split; [|rewrite new_of_cons; exact S'].
    unfold to_range in *. cbn [push] in R'. exact R'.
Qed.

(* ---- the executable apply_edits and the predicates ---- *)
Lemma ordered_from_weaken : forall rs a b, a <= b -> ordered_from b rs -> ordered_from a rs.
Proof. intros [|[[s t] n] r] a b H; cbn; auto. intros [A B]. split; [lia|auto]. Qed.

Lemma resolve_all_in_range : forall doc es rs, resolve_all doc es = Some rs ->
  Forall (fun r => snd (fst r) <= length doc) rs -> ordered_from 0 rs -> in_range doc es.
Proof.
  intros doc es. induction es as [|e es IH]; intros rs H F O; [constructor|].
  cbn [resolve_all] in H. unfold resolve in H.
  destruct (offset_of doc (fst (e_start e)) (snd (e_start e))) as [s|] eqn:E1; [|discriminate].
  destruct (offset_of doc (fst (e_end e)) (snd (e_end e))) as [t|] eqn:E2; [|discriminate].
  destruct (resolve_all doc es) as [rs'|] eqn:E3; [|discriminate]. injection H as <-.
  inversion F; subst. cbn [ordered_from fst snd] in *. destruct O as [_ [O1 O2]].
  constructor.
  - exists s, t. repeat split; auto.
  - eapply IH; eauto. eapply ordered_from_weaken; [|exact O2]. lia.
Qed.

Lemma apply_edits_wellformed : forall doc es out, apply_edits doc es = Some out ->
  in_range doc es /\ ordered_disjoint doc es.
Proof.
  intros doc es out H. unfold apply_edits in H. destruct (resolve_all doc es) as [rs|] eqn:R; [|discriminate].
  destruct (splice_ordered _ _ _ _ H) as [O F]. split.
  - eapply resolve_all_in_range; eauto.
  - exists rs. auto.
Qed.

(* ---- main theorem, all chunk lists ---- *)
Lemma edits_correct : forall cs, has_cr (old_of cs) = false ->
  apply_edits (old_of cs) (gte rk_new cs) = Some (new_of cs) /\
  in_range (old_of cs) (gte rk_new cs) /\ ordered_disjoint (old_of cs) (gte rk_new cs).
Proof.
  intros cs H.
  destruct (gte_correct (length cs) cs (le_n _) [] (old_of cs) eq_refl H) as [R Sp].
  assert (A : apply_edits (old_of cs) (gte rk_new cs) = Some (new_of cs)).
  { unfold apply_edits. cbn [push] in R. rewrite R. exact Sp. }
  split; [exact A|]. eapply apply_edits_wellformed; eauto.
Qed.

(* ---- the whole-document replacement for buffers with CR ---- *)
Lemma cr_branch_present : whole_document_on_cr = true.
Proof. reflexivity. Qed.

Lemma text_eqb_eq : forall a b, text_eqb a b = true <-> a = b.
Proof.
  induction a as [|x a IH]; destruct b as [|y b]; cbn [text_eqb]; split; intro H; try discriminate; auto.
  - apply andb_true_iff in H. destruct H as [H1 H2]. apply N.eqb_eq in H1. apply IH in H2. congruence.
  - injection H as -> ->. rewrite N.eqb_refl. cbn [andb]. now apply IH.
Qed.

Lemma validates_diff_present : validates_diff = true.
Proof. reflexivity. Qed.

Lemma whole_document_correct : forall old new,
  let es := replace_document old new in
  apply_edits old es = Some new /\ in_range old es /\ ordered_disjoint old es.
Proof.
  intros old new es.
  assert (A : apply_edits old es = Some new).
  { subst es. unfold replace_document. destruct (text_eqb old new) eqn:E.
    - apply text_eqb_eq in E. subst new. reflexivity.
    - unfold apply_edits, to_range. cbn [resolve_all]. unfold resolve. cbn [e_start e_end e_new rk_new fst snd].
      fold (norm old). rewrite (offset_of_end old).
      replace (offset_of old 0 0) with (Some 0) by (destruct old; reflexivity).
      cbn [splice]. rewrite Nat.leb_refl. cbn [Nat.leb andb option_map Nat.sub skipn firstn app].
      rewrite skipn_all, app_nil_r, Nat.leb_refl. reflexivity. }
  split; [exact A|]. eapply apply_edits_wellformed; eauto.
Qed.

(* ---- the handler ---- *)
Definition partitions (cs : list chunk) (old new : text) : Prop := old_of cs = old /\ new_of cs = new.

Section Handler.
  Variable diff : text -> text -> list chunk.
  Variable format : text -> text.
  Variable diagnostic : Type.

  (* no assumption about the diff: chunks that do not add up to both texts are not used *)
  Lemma get_text_edits_correct : forall old new,
    apply_edits old (get_text_edits diff old new) = Some new /\
    in_range old (get_text_edits diff old new) /\ ordered_disjoint old (get_text_edits diff old new).
  Proof.
    intros old new. unfold get_text_edits. rewrite cr_branch_present, validates_diff_present. cbn [andb].
    change (contains cr_char old) with (has_cr old). destruct (has_cr old) eqn:H.
    - apply whole_document_correct.
    - cbv zeta. unfold is_partition. destruct (text_eqb (old_of (diff old new)) old) eqn:Ho; cbn [andb negb].
      + destruct (text_eqb (new_of (diff old new)) new) eqn:Hn; cbn [negb].
        * apply text_eqb_eq in Ho, Hn. rewrite <- Ho in H. pose proof (edits_correct _ H) as E.
          rewrite Ho, Hn in E. exact E.
        * apply whole_document_correct.
      + apply whole_document_correct.
  Qed.

  (* when the diff does partition the texts (and there is no CR) the answer is the chunk-wise one *)
  Lemma get_text_edits_chunkwise : forall old new, partitions (diff old new) old new -> has_cr old = false ->
    get_text_edits diff old new = gte rk_new (diff old new).
  Proof.
    intros old new [Ho Hn] H. unfold get_text_edits. change (contains cr_char old) with (has_cr old). rewrite H.
    rewrite andb_false_r. cbv zeta. unfold is_partition.
    replace (text_eqb (old_of (diff old new)) old) with true by (symmetry; now apply text_eqb_eq).
    replace (text_eqb (new_of (diff old new)) new) with true by (symmetry; now apply text_eqb_eq).
    cbn [andb negb]. rewrite andb_false_r. reflexivity.
  Qed.

  Lemma guard : forall (error : list diagnostic) codegen, error <> [] ->
    do_formatting diff format diagnostic error codegen = None.
  Proof. intros [|d e] cg H; [congruence|reflexivity]. Qed.

  Lemma formatting_reproduces : forall (error : list diagnostic) old,
    error = [] ->
    exists es, do_formatting diff format diagnostic error (Some (Some old)) = Some es /\
               apply_edits old es = Some (format old) /\ in_range old es /\ ordered_disjoint old es.
  Proof.
    intros error old ->. eexists. split; [reflexivity|]. apply get_text_edits_correct.
  Qed.

  Lemma on_type_same : forall (error : list diagnostic) codegen p ch,
    handle_on_type_formatting diff format diagnostic p ch error codegen = handle_formatting diff format diagnostic error codegen.
  Proof. reflexivity. Qed.

  Lemma unknown_file_no_edits : forall (error : list diagnostic),
    error = [] -> do_formatting diff format diagnostic error (Some None) = Some [].
  Proof. intros ? ->. reflexivity. Qed.
End Handler.

(* ---- already formatted text: no edits exactly when the diff has only Equal chunks ---- *)
Definition is_equal (c : chunk) : bool := match c with Equal _ => true | _ => false end.

Lemma gte_nil_iff : forall cs rk, gte rk cs = [] <-> forallb is_equal cs = true.
Proof.
  induction cs as [|c cs IH]; intros rk; [cbn; tauto|].
  destruct c as [s|d|i]; cbn [gte forallb is_equal andb].
  - apply IH.
  - split; [|discriminate]. destruct cs as [|[e|d2|i] cs2]; try discriminate.
    destruct cs2 as [|[e3|d3|i3] cs3]; try discriminate. destruct (text_eqb d i3); discriminate.
  - split; discriminate.
Qed.

Lemma all_equal_same : forall cs, forallb is_equal cs = true -> old_of cs = new_of cs.
Proof.
  induction cs as [|[s|d|i] cs IH]; cbn [forallb is_equal andb]; intros H; try discriminate; [reflexivity|].
  rewrite old_of_cons, new_of_cons, IH; auto.
Qed.

Lemma replace_document_same : forall old, replace_document old old = [].
Proof. intro old. unfold replace_document. replace (text_eqb old old) with true by (symmetry; now apply text_eqb_eq). reflexivity. Qed.

Lemma already_formatted : forall (diff : text -> text -> list chunk) old,
  forallb is_equal (diff old old) = true -> get_text_edits diff old old = [].
Proof.
  intros diff old H. unfold get_text_edits.
  destruct (whole_document_on_cr && contains cr_char old); [apply replace_document_same|]. cbv zeta.
  destruct (validates_diff && negb (is_partition (diff old old) old old)); [apply replace_document_same|].
  now apply gte_nil_iff.
Qed.

(* without the whole-document branch the chunk-wise edits are wrong for CR LF buffers: the formatter turns CR LF
   into LF, the diff isolates the CR, and the resulting range ends between CR and LF, which is not a position *)
Definition crlf_witness : list chunk :=
  [Insert [32;32;32;32]%N; Equal [110;111;112]%N; Delete [13]%N; Equal [10]%N].
Lemma chunkwise_crlf_refuted : exists cs, has_cr (old_of cs) = true /\
  apply_edits (old_of cs) (gte rk_new cs) <> Some (new_of cs).
Proof. exists crlf_witness. split; [reflexivity|]. vm_compute. discriminate. Qed.

(* ---- locality: the text of an Equal chunk is not touched by any edit, unless the chunk is the middle of a
        Delete x / Equal / Insert x triple (the rewrite rule replaces x ++ e by e ++ x) ---- *)
Fixpoint last_delete (pre : list chunk) : option text :=
  match pre with
  | [] => None
  | c :: r => match r with [] => match c with Delete x => Some x | _ => None end | _ :: _ => last_delete r end
  end.
Definition absorbed (pre post : list chunk) : bool :=
  match last_delete pre, post with
  | Some x, Insert y :: _ => text_eqb x y
  | _, _ => false
  end.
Definition avoids (a len : nat) (r : resolved) : Prop := snd (fst r) <= a \/ a + len <= fst (fst r).

Lemma gte_off_ge : forall n cs, length cs <= n -> forall off, Forall (fun r => off <= fst (fst r)) (gte_off off cs).
Proof.
  induction n as [|n IH]; intros cs Hn off.
  { destruct cs; [constructor|cbn in Hn; lia]. }
  assert (W : forall k cs', length cs' <= n -> Forall (fun r => off <= fst (fst r)) (gte_off (off + k) cs')).
  { intros k cs' H. eapply Forall_impl; [|apply (IH cs' H (off + k))]. cbn. intros; lia. }
  destruct cs as [|[s|d|i] cs]; cbn [gte_off length] in *; [constructor| | |].
  - apply W. lia.
  - destruct cs as [|[e|d2|i] cs2]; cbn [length] in *.
    + constructor; [cbn; lia|]. apply W. cbn. lia.
    + destruct cs2 as [|[e3|d3|i3] cs3]; cbn [length] in *;
        try (constructor; [cbn; lia|]; apply W; cbn [length]; lia).
      destruct (text_eqb d i3); (constructor; [cbn; lia|]; apply W; cbn [length]; lia).
    + constructor; [cbn; lia|]. apply W. cbn [length]. lia.
    + constructor; [cbn; lia|]. apply W. lia.
  - constructor; [cbn; lia|]. apply IH. lia.
Qed.

Lemma absorbed_cons2 : forall c c2 pre post, absorbed (c :: c2 :: pre) post = absorbed (c2 :: pre) post.
Proof. reflexivity. Qed.

Lemma L_eq : forall off s r, gte_off off (Equal s :: r) = gte_off (off + length s) r.
Proof. reflexivity. Qed.
Lemma L_ins : forall off i r, gte_off off (Insert i :: r) = (off, off, i) :: gte_off off r.
Proof. reflexivity. Qed.
Lemma L_d_nil : forall off d, gte_off off [Delete d] = [(off, off + length d, [])].
Proof. reflexivity. Qed.
Lemma L_dd : forall off d d2 r,
  gte_off off (Delete d :: Delete d2 :: r) = (off, off + length d, []) :: gte_off (off + length d) (Delete d2 :: r).
Proof. reflexivity. Qed.
Lemma L_di : forall off d i r, gte_off off (Delete d :: Insert i :: r) = (off, off + length d, i) :: gte_off (off + length d) r.
Proof. reflexivity. Qed.
Lemma L_de_nil : forall off d q,
  gte_off off [Delete d; Equal q] = (off, off + length d, []) :: gte_off (off + length d) [Equal q].
Proof. reflexivity. Qed.
Lemma L_dee : forall off d q x r,
  gte_off off (Delete d :: Equal q :: Equal x :: r) = (off, off + length d, []) :: gte_off (off + length d) (Equal q :: Equal x :: r).
Proof. reflexivity. Qed.
Lemma L_ded : forall off d q x r,
  gte_off off (Delete d :: Equal q :: Delete x :: r) = (off, off + length d, []) :: gte_off (off + length d) (Equal q :: Delete x :: r).
Proof. reflexivity. Qed.
Lemma L_dei : forall off d q i r,
  gte_off off (Delete d :: Equal q :: Insert i :: r) =
  if text_eqb d i then (off, off + length (d ++ q), q ++ i) :: gte_off (off + length (d ++ q)) r
  else (off, off + length d, []) :: gte_off (off + length d) (Equal q :: Insert i :: r).
Proof. reflexivity. Qed.

Lemma gte_off_local : forall n pre, length pre <= n -> forall e post off, absorbed pre post = false ->
  Forall (avoids (off + length (old_of pre)) (length e)) (gte_off off (pre ++ Equal e :: post)).
Proof.
  induction n as [|n IH]; intros pre Hn e post off Ha.
  { destruct pre; [|cbn in Hn; lia]. cbn [app old_of flat_map length]. rewrite L_eq, Nat.add_0_r.
    eapply Forall_impl; [|apply (gte_off_ge _ _ (le_n _))]. intros r H. right. exact H. }
  assert (REST : forall pre' k, length pre' <= n -> absorbed pre' post = false ->
            length (old_of pre) = k + length (old_of pre') ->
            Forall (avoids (off + length (old_of pre)) (length e)) (gte_off (off + k) (pre' ++ Equal e :: post))).
  { intros pre' k H1 H2 H3. rewrite H3. replace (off + (k + length (old_of pre'))) with (off + k + length (old_of pre')) by lia.
    apply IH; assumption. }
  assert (HEAD : forall t new, t <= off + length (old_of pre) -> avoids (off + length (old_of pre)) (length e) (off, t, new)).
  { intros t new H. left. exact H. }
  destruct pre as [|c pre].
  { cbn [app old_of flat_map length]. rewrite L_eq, Nat.add_0_r.
    eapply Forall_impl; [|apply (gte_off_ge _ _ (le_n _))]. intros r H. right. exact H. }
  cbn [length] in Hn.
  assert (TAIL : pre <> [] -> absorbed pre post = false).
  { destruct pre; [congruence|]. intros _. exact Ha. }
  assert (NIL : absorbed [] post = false) by reflexivity.
  destruct c as [s|d|i]; cbn [app].
  - (* Equal s *)
    rewrite L_eq. apply REST; [lia| |rewrite old_of_cons, app_length; reflexivity].
    destruct pre; [exact NIL|apply TAIL; congruence].
  - (* Delete d *)
    destruct pre as [|c2 pre2].
    + (* Delete d directly before e *)
      cbn [app]. unfold absorbed in Ha. cbn [last_delete] in Ha.
      assert (A : Forall (avoids (off + length (old_of [Delete d])) (length e))
                    ((off, off + length d, []) :: gte_off (off + length d) (Equal e :: post))).
      { constructor.
        - apply HEAD. cbn [old_of flat_map]. rewrite app_nil_r. lia.
        - rewrite L_eq. eapply Forall_impl; [|apply (gte_off_ge _ _ (le_n _))]. intros r H. right.
          cbn [old_of flat_map]. rewrite app_nil_r. exact H. }
      destruct post as [|[e3|d3|i3] post3].
      * rewrite L_de_nil. exact A.
      * rewrite L_dee. exact A.
      * rewrite L_ded. exact A.
      * rewrite L_dei, Ha. exact A.
    + cbn [length] in Hn. destruct c2 as [q|d2|i2]; cbn [app].
      * (* Delete d, Equal q, ... *)
        assert (LAST : Forall (avoids (off + length (old_of (Delete d :: Equal q :: pre2))) (length e))
                         ((off, off + length d, []) :: gte_off (off + length d) ((Equal q :: pre2) ++ Equal e :: post))).
        { constructor.
          - apply HEAD. rewrite old_of_cons, app_length. lia.
          - apply REST; [cbn [length]; lia|apply TAIL; congruence|rewrite old_of_cons, app_length; reflexivity]. }
        cbn [app] in LAST.
        destruct pre2 as [|c3 pre3]; cbn [app] in *; [rewrite L_dee; exact LAST|].
        destruct c3 as [e3|d3|i3]; cbn [app] in *; [rewrite L_dee; exact LAST|rewrite L_ded; exact LAST|].
        rewrite L_dei. destruct (text_eqb d i3); [|exact LAST].
        cbn [length] in Hn. constructor.
        -- apply HEAD. rewrite !old_of_cons, !app_length. lia.
        -- apply REST; [lia| |rewrite !old_of_cons, !app_length; cbn [length]; lia].
           destruct pre3; [exact NIL|]. rewrite !absorbed_cons2 in Ha. exact Ha.
      * (* Delete d, Delete d2 *)
        rewrite L_dd. constructor.
        -- apply HEAD. rewrite old_of_cons, app_length. lia.
        -- apply (REST (Delete d2 :: pre2)); [cbn [length]; lia|apply TAIL; congruence|rewrite old_of_cons, app_length; reflexivity].
      * (* Delete d, Insert i2: replace *)
        rewrite L_di. constructor.
        -- apply HEAD. rewrite old_of_cons, app_length. lia.
        -- apply REST; [lia| |rewrite !old_of_cons, !app_length; cbn [length]; lia].
           destruct pre2; [exact NIL|]. rewrite !absorbed_cons2 in Ha. exact Ha.
  - (* Insert i *)
    rewrite L_ins. constructor.
    + apply HEAD. lia.
    + replace off with (off + 0) at 2 by lia. apply REST; [lia| |rewrite old_of_cons; reflexivity].
      destruct pre; [exact NIL|apply TAIL; congruence].
Qed.

Lemma equal_text_untouched : forall pre e post,
  has_cr (old_of (pre ++ Equal e :: post)) = false -> absorbed pre post = false ->
  exists rs, resolve_all (old_of (pre ++ Equal e :: post)) (gte rk_new (pre ++ Equal e :: post)) = Some rs /\
             Forall (avoids (length (old_of pre)) (length e)) rs.
Proof.
  intros pre e post H Ha.
  destruct (gte_correct _ (pre ++ Equal e :: post) (le_n _) [] _ eq_refl H) as [R _].
  cbn [push length] in R. eexists. split; [exact R|].
  apply (gte_off_local _ pre (le_n _) e post 0 Ha).
Qed.

(* the absorbed case: the edit is exactly the replacement of x ++ e by e ++ x *)
Lemma absorbed_iff : forall pre post, absorbed pre post = true <->
  exists pre' x y post', pre = pre' ++ [Delete x] /\ post = Insert y :: post' /\ text_eqb x y = true.
Proof.
  intros pre post. unfold absorbed. split.
  - intro H. destruct (last_delete pre) as [x|] eqn:L; [|discriminate].
    destruct post as [|[s|d|y] post']; try discriminate.
    assert (exists pre', pre = pre' ++ [Delete x]) as [pre' ->].
    { clear H. induction pre as [|c r IH]; [discriminate|]. destruct r as [|c2 r2].
      - cbn in L. destruct c; try discriminate. injection L as ->. exists []. reflexivity.
      - destruct (IH L) as [p ->]. exists (c :: p). reflexivity. }
    exists pre', x, y, post'. auto.
  - intros (pre' & x & y & post' & -> & -> & E).
    replace (last_delete (pre' ++ [Delete x])) with (Some x); [exact E|].
    induction pre' as [|c r IH]; [reflexivity|]. cbn [app last_delete]. destruct (r ++ [Delete x]) eqn:Q; [destruct r; discriminate|].
    exact IH.
Qed.

(* chunks as dissimilar 1.0.3 returns them for old = "a\U+1F600\U+1F980" / new = "a\U+1F600\n\U+1F980": the second astral character
   is deleted and never inserted *)
Lemma unsound_diff_refuted : exists cs old new, old_of cs = old /\ new_of cs <> new /\ has_cr old = false /\
  apply_edits old (gte rk_new cs) <> Some new.
Proof.
  exists [Equal [97]%N; Insert [128512; 10]%N; Delete [128512; 129408]%N], [97; 128512; 129408]%N, [97; 128512; 10; 129408]%N.
  repeat split; try reflexivity; vm_compute; discriminate.
Qed.

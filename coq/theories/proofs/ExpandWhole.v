(* C07, whole programs: expanding `.if` with a closed condition and `.loop` with a closed count by hand, anywhere in a
   program (inside blocks, labelled blocks, branches, loop bodies, segment blocks), gives a program that goes through the
   SAME sequence of passes -- same symbol tables, same segments, same exit decision in every pass -- and ends in the same
   images, provided the original program assembles without a diagnostic in any pass (a diagnostic ends a `.loop` early
   but not a sequence of blocks). *)
From Coq Require Import List NArith ZArith Bool PeanoNat Lia.
Import ListNotations.
From Mos Require Import model.I64 Gen.BinOps model.Expr Gen.OpcodeTable spec.Isa model.Encode.
From Mos Require Import model.SymTab Gen.CodegenConsts model.Segment model.Asm proofs.AsmSim proofs.AsmFuel proofs.ExpandProofs.
Open Scope Z_scope.

(* ------------------------------------------------------------------ statements never fail with an empty diagnostic list *)
Definition NE {A} (m : M A) : Prop := forall c d, m c <> Err [] d.

Lemma NE_ret {A} (a : A) : NE (ret a). Proof. intros c d; discriminate. Qed.
Lemma NE_abort {A} f : NE (@abort A f). Proof. intros c d; discriminate. Qed.
Lemma NE_err1 {A} k sp p ns : NE (@err1 A k sp p ns). Proof. intros c d; discriminate. Qed.
Lemma NE_get : NE get. Proof. intros c d; discriminate. Qed.
Lemma NE_modify f : NE (modify f). Proof. intros c d; discriminate. Qed.
Lemma NE_bind {A B} (m : M A) (k : A -> M B) : NE m -> (forall a, NE (k a)) -> NE (bind m k).
Proof. intros Hm Hk c d. unfold bind. specialize (Hm c). destruct (m c) as [a e|ds e|f]; [apply Hk| |discriminate]. intro H. inversion H; subst. eapply Hm; eauto. Qed.
Lemma NE_ignore_err {A} (m : M A) : NE (ignore_err m).
Proof. intros c d. unfold ignore_err. destruct (m c); discriminate. Qed.
Lemma NE_recover {A} (m : M A) x : NE (recover m x).
Proof. intros c d. unfold recover. destruct (m c); discriminate. Qed.
Lemma NE_finally {A} (m : M A) cl : NE m -> NE cl -> NE (finally m cl).
Proof.
  intros Hm Hc c d. unfold finally. specialize (Hm c). destruct (m c) as [a e|ds e|f]; [| |discriminate].
  - specialize (Hc e). destruct (cl e); try discriminate. intro H. inversion H; subst. eapply Hc; eauto.
  - destruct (cl e); try discriminate; intro H; inversion H; subst; eapply Hm; eauto.
Qed.
Lemma NE_emit_tokens_with et ts : forall acc, NE (emit_tokens_with et ts acc).
Proof.
  induction ts as [|t r IH]; intros acc c d; cbn [emit_tokens_with].
  - destruct acc; discriminate.
  - destruct (et t c); [apply IH|apply IH|discriminate].
Qed.
Lemma NE_add_symbol id sym : NE (add_symbol id sym).
Proof.
  intros c d. unfold add_symbol. destruct (try_index (symbols c) (current_scope_nx c) id).
  - destruct (try_get (symbols c) n).
    + destruct (redefinition s sym); [destruct (s_span sym); discriminate|]. discriminate.
    + discriminate.
  - destruct (split_last (current_scope c ++ id)). destruct (ensure_index (symbols c) root i). destruct (insert s n i0 (Some sym)). discriminate.
Qed.
Lemma NE_emit sp b : NE (emit sp b).
Proof.
  intros c d. unfold emit. destruct (current_segment c); [|discriminate]. destruct (seg_get (segments c) i); [|discriminate].
  destruct (target_pc s); [|discriminate]. destruct (two64 <=? z + Z.of_nat (length b)); [discriminate|]. destruct (seg_emit s b); discriminate.
Qed.
Lemma NE_eval e : NE (evaluate_expression e).
Proof.
  intros c d. unfold evaluate_expression.
  destruct (try_current_target_pc c); try discriminate;
  (destruct (diverges c (le_expr e)); [discriminate|]; match goal with |- context [eval ?en ?x] => destruct (eval en x) end; discriminate).
Qed.
Lemma NE_current_target_pc : NE current_target_pc.
Proof. intros c d. unfold current_target_pc. destruct (try_current_target_pc c); discriminate. Qed.
Lemma NE_export a b p : NE (export_one a b p).
Proof. intros c d. unfold export_one. destruct (export (symbols c) a b p). discriminate. Qed.
Lemma NE_import_as p : NE (import_as_scope p).
Proof. intros c d. unfold import_as_scope. destruct (ensure_index (symbols c) (current_scope_nx c) p). discriminate. Qed.

Ltac ne :=
  repeat match goal with
    | |- NE (bind _ _) => apply NE_bind; [|intro]
    | |- NE (ret _) => apply NE_ret
    | |- NE (abort _) => apply NE_abort
    | |- NE (err1 _ _ _ _) => apply NE_err1
    | |- NE get => apply NE_get
    | |- NE (modify _) => apply NE_modify
    | |- NE (add_symbol _ _) => apply NE_add_symbol
    | |- NE (emit _ _) => apply NE_emit
    | |- NE (evaluate_expression _) => apply NE_eval
    | |- NE current_target_pc => apply NE_current_target_pc
    | |- NE (export_one _ _ _) => apply NE_export
    | |- NE (import_as_scope _) => apply NE_import_as
    | |- NE (ignore_err _) => apply NE_ignore_err
    | |- NE (recover _ _) => apply NE_recover
    | |- NE (emit_tokens_with _ _ _) => apply NE_emit_tokens_with
    | |- NE (emit_tokens _ _) => apply NE_emit_tokens_with
    | |- NE (match ?x with _ => _ end) => destruct x
    | |- NE (if ?b then _ else _) => destruct b
    end.

Lemma NE_eval_i64 e : NE (evaluate_expression_as_i64 e). Proof. unfold evaluate_expression_as_i64. ne. Qed.
Lemma NE_eval_string e : NE (evaluate_expression_as_string e). Proof. unfold evaluate_expression_as_string. ne. Qed.
Lemma NE_scope_symbol n sp : NE (scope_symbol n sp). Proof. unfold scope_symbol. ne. Qed.
Lemma NE_with_scope {A} s b (f : M A) : NE f -> NE (with_scope s b f).
Proof.
  intro H. unfold with_scope. apply NE_bind; [apply NE_get|intro]. apply NE_bind; [apply NE_modify|intro].
  apply NE_bind; [destruct b; [apply NE_scope_symbol|apply NE_ret]|intro]. apply NE_finally; [exact H|].
  apply NE_bind; [destruct b; [apply NE_scope_symbol|apply NE_ret]|intro]. apply NE_modify.
Qed.
Ltac ne2 :=
  repeat match goal with
    | |- NE (evaluate_expression_as_i64 _) => apply NE_eval_i64
    | |- NE (evaluate_expression_as_string _) => apply NE_eval_string
    | |- NE (with_scope _ _ _) => apply NE_with_scope
    | |- NE (finally _ _) => apply NE_finally
    | _ => progress ne
    end.
Lemma NE_loop_iterations body : (forall i, NE (body i)) -> forall fuel i n, NE (loop_iterations fuel i n body).
Proof.
  intros Hb fuel. induction fuel as [|f IH]; intros i n; rewrite loop_iterations_eq; destruct (n <=? i); try apply NE_ret.
  - apply NE_abort.
  - apply NE_bind; [apply Hb|intro; apply IH].
Qed.
Lemma NE_eval_macro_args args : NE (eval_macro_args args).
Proof. induction args as [|a r IH]; cbn [eval_macro_args]; [apply NE_ret|]. ne. exact IH. Qed.
Lemma NE_bind_macro_args ps vals : NE (bind_macro_args ps vals).
Proof. revert vals. induction ps as [|[p sp] ps IH]; intros vals; cbn [bind_macro_args]; [apply NE_ret|]. destruct vals; [apply NE_ret|]. ne. apply IH. Qed.
Lemma NE_emit_data_values size vs : NE (emit_data_values size vs).
Proof. induction vs as [|e r IH]; cbn [emit_data_values]; [apply NE_ret|]. ne2. exact IH. Qed.
Lemma NE_do_exports l : NE (do_exports l).
Proof. induction l as [|[[[a b] p] sp] r IH]; cbn [do_exports]; [apply NE_ret|]. ne. exact IH. Qed.
Lemma NE_specific_exports nx items : NE (specific_exports nx items).
Proof.
  induction items as [|[[orig as_] sp] r IH]; cbn [specific_exports]; [apply NE_ret|].
  apply NE_bind; [apply NE_get|intro c]. destruct (try_index (symbols c) nx orig).
  - apply NE_bind; [exact IH|intro; apply NE_ret].
  - apply NE_bind; [apply NE_modify|intro; exact IH].
Qed.
Lemma NE_define_segment sp l : NE (define_segment sp l).
Proof. unfold define_segment. destruct (validate_segment sp l) eqn:V; [|intros c0 d0 H; unfold fail in H; inversion H]. ne2. unfold install_checked. ne2. Qed.

Ltac ne3 :=
  repeat match goal with
    | |- NE (do_exports _) => apply NE_do_exports
    | |- NE (specific_exports _ _) => apply NE_specific_exports
    | |- NE (emit_data_values _ _) => apply NE_emit_data_values
    | |- NE (define_segment _ _) => apply NE_define_segment
    | |- NE (eval_macro_args _) => apply NE_eval_macro_args
    | |- NE (bind_macro_args _ _) => apply NE_bind_macro_args
    | |- NE (loop_iterations _ _ _ _) => apply NE_loop_iterations; intro
    | _ => progress ne2
    end.

Lemma NE_body rec fuel t : NE (emit_token_body rec fuel t).
Proof.
  destruct t; cbn [emit_token_body]; ne3.
Qed.

Theorem emit_token_ne fuel t : NE (emit_token fuel t).
Proof. destruct fuel; cbn [emit_token]; [apply NE_abort|apply NE_body]. Qed.

(* ------------------------------------------------------------------ a statement list that goes through without a diagnostic *)
Fixpoint run_ok (et : token -> M unit) (ts : list token) (c : ctx) : option ctx :=
  match ts with
  | [] => Some c
  | t :: r => match et t c with Ret _ c' => run_ok et r c' | _ => None end
  end.

Lemma run_ok_app et ts us c : run_ok et (ts ++ us) c = match run_ok et ts c with Some d => run_ok et us d | None => None end.
Proof. revert c. induction ts as [|t r IH]; intro c; cbn [run_ok app]; [reflexivity|]. destruct (et t c); auto. Qed.

Lemma emit_tokens_with_err et : (forall t, NE (et t)) -> forall ts acc c, acc <> [] ->
  forall d, emit_tokens_with et ts acc c <> Ret tt d.
Proof.
  intros H ts. induction ts as [|t r IH]; intros acc c Hacc d; cbn [emit_tokens_with].
  - destruct acc; [congruence|discriminate].
  - destruct (et t c); [apply IH; exact Hacc| |discriminate]. apply IH. destruct acc; [congruence|discriminate].
Qed.

Lemma run_ok_iff et : (forall t, NE (et t)) -> forall ts c d,
  emit_tokens_with et ts [] c = Ret tt d <-> run_ok et ts c = Some d.
Proof.
  intros H ts. induction ts as [|t r IH]; intros c d; cbn [emit_tokens_with run_ok].
  - split; intro X; inversion X; reflexivity.
  - destruct (et t c) as [a e|ds e|f] eqn:Et.
    + apply IH.
    + split; [|discriminate]. intro X. exfalso. destruct ds; [eapply H; eauto|].
      eapply (emit_tokens_with_err et H r ([] ++ d0 :: ds)); [discriminate|exact X].
    + split; discriminate.
Qed.

(* ------------------------------------------------------------------ success simulation *)
(* whenever m succeeds from c, m' succeeds with the same value from every context that differs from c in the ghost
   fields only, and the resulting contexts again differ in the ghost fields only *)
Definition SimOk {A} (m m' : M A) : Prop :=
  forall c c', E c c' -> forall a d, m c = Ret a d -> exists d', m' c' = Ret a d' /\ E d d'.

Lemma SimOk_of_SimM {A} (m m' : M A) : SimM m m' -> SimOk m m'.
Proof. intros H c c' HE a d Hm. specialize (H c c' HE). rewrite Hm in H. destruct (m' c'); cbn in H; try contradiction. destruct H as [-> He]. eauto. Qed.
Lemma SimOk_of_Le {A} (m m' : M A) : Le m m' -> SimM m' m' -> SimOk m m'.
Proof.
  intros HL HS c c' HE a d Hm. specialize (HL c). rewrite Hm in HL.
  apply (SimOk_of_SimM _ _ HS c c' HE a d HL).
Qed.
Lemma SimOk_trans {A} (a b c : M A) : SimOk a b -> SimOk b c -> SimOk a c.
Proof.
  intros H1 H2 x x' HE v d Ha. destruct (H1 x x (E_refl x) v d Ha) as (d1 & Hb & E1).
  destruct (H2 x x' HE v d1 Hb) as (d2 & Hc & E2). exists d2. split; [exact Hc|]. eapply E_trans; eauto.
Qed.
Lemma SimOk_bind {A B} (m m' : M A) (k k' : A -> M B) : SimOk m m' -> (forall a, SimOk (k a) (k' a)) -> SimOk (bind m k) (bind m' k').
Proof.
  intros Hm Hk c c' HE b d H. unfold bind in *. destruct (m c) as [a e|ds e|f] eqn:Em; try discriminate.
  destruct (Hm c c' HE a e Em) as (e' & Em' & He). rewrite Em'. apply (Hk a e e' He b d H).
Qed.
Lemma SimOk_get_bind {B} (k k' : ctx -> M B) : (forall c c', E c c' -> SimOk (k c) (k' c')) -> SimOk (bind get k) (bind get k').
Proof. intros Hk c c' HE b d H. unfold bind, get in *. apply (Hk c c' HE c c' HE b d H). Qed.
Lemma SimOk_finally {A} (m m' : M A) cl cl' : SimOk m m' -> SimOk cl cl' -> SimOk (finally m cl) (finally m' cl').
Proof.
  intros Hm Hc c c' HE a d H. unfold finally in *. destruct (m c) as [x e|ds e|f] eqn:Em; try discriminate.
  - destruct (Hm c c' HE x e Em) as (e' & Em' & He). rewrite Em'.
    destruct (cl e) as [u g|ds g|f] eqn:Ec; try discriminate. inversion H; subst.
    destruct (Hc e e' He u d Ec) as (g' & Ec' & Hg). rewrite Ec'. eauto.
  - destruct (cl e); discriminate.
Qed.
Lemma SimOk_with_scope {A} s b b' (f f' : M A) :
  match b, b' with
  | Some x, Some y => blk_lparen x = blk_lparen y /\ blk_rparen x = blk_rparen y
  | None, None => True
  | _, _ => False
  end -> SimOk f f' -> SimOk (with_scope s b f) (with_scope s b' f').
Proof.
  intros Hb Hf. unfold with_scope. apply SimOk_get_bind; intros c c' H.
  assert (HS : current_scope c = current_scope c' /\ current_scope_nx c = current_scope_nx c' /\ next_macro_scope_id c = next_macro_scope_id c') by (unfold E, core in H; inversion H; auto).
  destruct HS as (H1 & H2 & H3). rewrite H1, H2, H3.
  apply SimOk_bind; [apply SimOk_of_SimM; apply sim_modify; intros; apply core_enter; assumption|intro].
  apply SimOk_bind; [apply SimOk_of_SimM; destruct b, b'; try contradiction; [destruct Hb as [-> _]; apply sim_scope_symbol|apply sim_ret]|intro].
  apply SimOk_finally; [exact Hf|].
  apply SimOk_of_SimM. apply sim_bind; [destruct b, b'; try contradiction; [destruct Hb as [_ ->]; apply sim_scope_symbol|apply sim_ret]|intro].
  apply sim_modify. intros; apply core_leave; assumption.
Qed.

(* lists: ts at fuel F against ts' at fuel F+1 *)
Definition LOk (F : nat) (ts ts' : list token) : Prop :=
  forall c c' d, E c c' -> run_ok (emit_token F) ts c = Some d ->
  exists d', run_ok (emit_token (S F)) ts' c' = Some d' /\ E d d'.

Lemma LOk_emit_tokens F ts ts' : LOk F ts ts' -> SimOk (emit_tokens (emit_token F) ts) (emit_tokens (emit_token (S F)) ts').
Proof.
  intros H c c' HE a d Hm. destruct a. unfold emit_tokens in *.
  apply (run_ok_iff _ (emit_token_ne F)) in Hm. destruct (H c c' d HE Hm) as (d' & Hr & He).
  exists d'. split; [|exact He]. apply (run_ok_iff _ (emit_token_ne (S F))). exact Hr.
Qed.

Lemma token_mono F t : SimOk (emit_token F t) (emit_token (S F) t).
Proof. apply SimOk_of_Le; [apply emit_token_fuel_mono|apply sim_emit_token]. Qed.

Lemma run_ok_mono F ts : forall c c' d, E c c' -> run_ok (emit_token F) ts c = Some d ->
  exists d', run_ok (emit_token (S F)) ts c' = Some d' /\ E d d'.
Proof.
  induction ts as [|t r IH]; intros c c' d HE H; cbn [run_ok] in *.
  - inversion H; subst. eauto.
  - destruct (emit_token F t c) as [a e|ds e|f] eqn:Et; try discriminate.
    destruct (token_mono F t c c' HE a e Et) as (e' & Et' & He). rewrite Et'. eapply IH; eauto.
Qed.

Lemma LOk_refl F ts : LOk F ts ts.
Proof. intros c c' d HE H. eapply run_ok_mono; eauto. Qed.

Lemma LOk_app F ts ts' us us' : LOk F ts ts' -> LOk F us us' -> LOk F (ts ++ us) (ts' ++ us').
Proof.
  intros H1 H2 c c' d HE H. rewrite run_ok_app in *. destruct (run_ok (emit_token F) ts c) as [e|] eqn:Er; [|discriminate].
  destruct (H1 c c' e HE Er) as (e' & Er' & He). rewrite Er'. eapply H2; eauto.
Qed.

Lemma LOk_single F t t' : SimOk (emit_token F t) (emit_token (S F) t') -> LOk F [t] [t'].
Proof.
  intros H c c' d HE Hr. cbn [run_ok] in *. destruct (emit_token F t c) as [a e|ds e|f] eqn:Et; try discriminate.
  inversion Hr; subst. destruct (H c c' HE a d Et) as (e' & Et' & He). rewrite Et'. eauto.
Qed.

(* ------------------------------------------------------------------ expansion of closed `.if` / `.loop`, anywhere *)
Definition it_block (e : lexpr) (lsc : ident) (lp rp : span) (body : list token) (li : lexpr) (i : Z) : token :=
  TBraces (iteration_scope_name lsc i) (Blk lp rp (TVarDef VConst t_index (le_span e) li :: body)).
Fixpoint loop_blocks (e : lexpr) (lsc : ident) (lp rp : span) (body : list token) (lits : list lexpr) (i : Z) : list token :=
  match lits with
  | [] => []
  | li :: r => it_block e lsc lp rp body li i :: loop_blocks e lsc lp rp body r (i + 1)
  end.
Fixpoint lits_ok (lits : list lexpr) (i : Z) : Prop :=
  match lits with [] => True | li :: r => closed_value li i /\ lits_ok r (i + 1) end.

Inductive Xp : list token -> list token -> Prop :=
  | Xp_nil : Xp [] []
  | Xp_keep t ts ts' : Xp ts ts' -> Xp (t :: ts) (t :: ts')
  (* `.if <closed c> {a} else {b}` -> the (expanded) statements of the selected branch *)
  | Xp_if v x a b br' ts ts' :
      closed_value v x -> Xp (selected x a b) br' -> Xp ts ts' -> Xp (TIf v a b :: ts) (br' ++ ts')
  (* `.loop <closed n> {b}` -> n blocks `{ .const index = <i>  b' }` *)
  | Xp_loop e n lsc lp rp body body' lits ts ts' :
      closed_value e n -> n <= loop_iteration_limit -> Z.of_nat (length lits) = Z.max 0 (n - loop_first_index) ->
      lits_ok lits loop_first_index -> Xp body body' -> Xp ts ts' ->
      Xp (TLoop e lsc (Blk lp rp body) :: ts) (loop_blocks e lsc lp rp body' lits loop_first_index ++ ts')
  (* expansion inside the constructs that stay *)
  | Xp_braces sc lp rp body body' ts ts' :
      Xp body body' -> Xp ts ts' -> Xp (TBraces sc (Blk lp rp body) :: ts) (TBraces sc (Blk lp rp body') :: ts')
  | Xp_label id isp lp rp body body' ts ts' :
      Xp body body' -> Xp ts ts' -> Xp (TLabel id isp (Some (Blk lp rp body)) :: ts) (TLabel id isp (Some (Blk lp rp body')) :: ts')
  | Xp_if_kept v lp rp a a' ts ts' :
      Xp a a' -> Xp ts ts' -> Xp (TIf v (Blk lp rp a) None :: ts) (TIf v (Blk lp rp a') None :: ts')
  | Xp_if_else_kept v lp rp a a' lp2 rp2 b b' ts ts' :
      Xp a a' -> Xp b b' -> Xp ts ts' ->
      Xp (TIf v (Blk lp rp a) (Some (Blk lp2 rp2 b)) :: ts) (TIf v (Blk lp rp a') (Some (Blk lp2 rp2 b')) :: ts')
  | Xp_loop_kept e lsc lp rp body body' ts ts' :
      Xp body body' -> Xp ts ts' -> Xp (TLoop e lsc (Blk lp rp body) :: ts) (TLoop e lsc (Blk lp rp body') :: ts')
  | Xp_segment id lp rp body body' ts ts' :
      Xp body body' -> Xp ts ts' -> Xp (TSegment id (Some (Blk lp rp body)) :: ts) (TSegment id (Some (Blk lp rp body')) :: ts').

Lemma E_log c c' ev : E c c' -> E (log c ev) c'.
Proof. unfold E, core. cbn. auto. Qed.
Lemma E_log_r c c' ev : E c c' -> E c (log c' ev).
Proof. unfold E, core. cbn. auto. Qed.

(* a closed expression evaluates to its value, logs the evaluation and touches nothing else -- or the pc overflows *)
Lemma eval_closed_i64 li x c : closed_value li x ->
  (exists ev, evaluate_expression_as_i64 li c = Ret (Some x) (log c ev)) \/ evaluate_expression_as_i64 li c = Abort FPanic.
Proof.
  intro CV. destruct (try_current_target_pc c) eqn:T.
  - left. destruct (eval_closed li x c CV) as [ev Ev]; [rewrite T; discriminate|].
    exists ev. unfold evaluate_expression_as_i64, bind. rewrite Ev. reflexivity.
  - left. destruct (eval_closed li x c CV) as [ev Ev]; [rewrite T; discriminate|].
    exists ev. unfold evaluate_expression_as_i64, bind. rewrite Ev. reflexivity.
  - right. unfold evaluate_expression_as_i64, bind, evaluate_expression. rewrite T. reflexivity.
Qed.

Lemma SimOk_loop_iterations body body' : (forall i, SimOk (body i) (body' i)) ->
  forall fuel i n, SimOk (loop_iterations fuel i n body) (loop_iterations (S fuel) i n body').
Proof.
  intros Hb fuel. induction fuel as [|f IH]; intros i n; rewrite (loop_iterations_eq _ i n body), (loop_iterations_eq _ i n body');
  destruct (n <=? i); try (apply SimOk_of_SimM; apply sim_ret).
  - intros c c' HE a d H. discriminate.
  - apply SimOk_bind; [apply Hb|intro; apply IH].
Qed.

Lemma SimOk_refl_M {A} (m : M A) : SimM m m -> SimOk m m.
Proof. apply SimOk_of_SimM. Qed.

Lemma add_symbol_segments id sym c :
  match add_symbol id sym c with
  | Ret _ c' | Err _ c' => segments c' = segments c /\ current_segment c' = current_segment c
  | Abort _ => True
  end.
Proof.
  unfold add_symbol. destruct (try_index (symbols c) (current_scope_nx c) id).
  - destruct (try_get (symbols c) n).
    + destruct (redefinition s sym); [destruct (s_span sym); auto|].
      destruct (negb (sdata_eqb (s_data s) (s_data sym))); [destruct (symtype_eqb (s_ty sym) TyVariable)|]; cbn; auto.
    + destruct (symtype_eqb (s_ty sym) TyVariable); cbn; auto.
  - destruct (split_last (current_scope c ++ id)). destruct (ensure_index (symbols c) root i). destruct (insert s n i0 (Some sym)). cbn. auto.
Qed.

Lemma scope_symbol_pc n sp c u x : scope_symbol n sp c = Ret u x -> try_current_target_pc x <> PcPanic.
Proof.
  unfold scope_symbol, bind, current_target_pc. destruct (try_current_target_pc c) eqn:T; try discriminate.
  - cbn [ret]. intro H. inversion H; subst. rewrite T. discriminate.
  - unfold get, ignore_err.
    pose proof (add_symbol_segments [n] (symbol_ c (Some sp) (SDNum (usize_as_i64 z)) TyConstant) c) as AS.
    destruct (add_symbol [n] (symbol_ c (Some sp) (SDNum (usize_as_i64 z)) TyConstant) c) as [a e|ds e|f]; try discriminate;
    intro H; inversion H; subst; destruct AS as [A1 A2]; unfold try_current_target_pc, try_current_segment in *; rewrite A1, A2, T; discriminate.
Qed.

(* with_scope around a block: the body only has to be simulated from contexts whose target pc did not overflow *)
Lemma SimOk_with_scope_pc {A} s b b' (f f' : M A) :
  blk_lparen b = blk_lparen b' -> blk_rparen b = blk_rparen b' ->
  (forall x x', E x x' -> try_current_target_pc x <> PcPanic -> forall a d, f x = Ret a d -> exists d', f' x' = Ret a d' /\ E d d') ->
  SimOk (with_scope s (Some b) f) (with_scope s (Some b') f').
Proof.
  intros Hl Hr Hf c c' HE a d H. unfold with_scope in *. rewrite <- Hl, <- Hr.
  unfold bind at 1 in H. unfold get at 1 in H. unfold bind at 1. unfold get at 1.
  assert (HS : current_scope c = current_scope c' /\ current_scope_nx c = current_scope_nx c' /\ next_macro_scope_id c = next_macro_scope_id c') by (unfold E, core in HE; inversion HE; auto).
  destruct HS as (H1 & H2 & H3). rewrite <- H1, <- H2, <- H3.
  unfold bind at 1 in H. cbn [modify] in H. unfold bind at 1. cbn [modify].
  assert (HE1 : E (enter_scope s c) (enter_scope s c')) by (apply core_enter; exact HE).
  unfold bind at 1 in H. unfold bind at 1.
  destruct (scope_symbol t_minus (blk_lparen b) (enter_scope s c)) as [u x|ds x|fl] eqn:S1; try discriminate.
  destruct (SimOk_of_SimM _ _ (sim_scope_symbol t_minus (blk_lparen b)) _ _ HE1 u x S1) as (x' & S1' & HX). rewrite S1'.
  pose proof (scope_symbol_pc _ _ _ _ _ S1) as P.
  unfold finally in *. destruct (f x) as [v y|ds y|fl] eqn:Fx; try discriminate.
  - destruct (Hf x x' HX P v y Fx) as (y' & Fx' & HY). rewrite Fx'.
    match type of H with match ?m y with _ => _ end = _ => destruct (m y) as [w z|ds z|fl] eqn:C1; try discriminate end.
    inversion H; subst.
    assert (SC : SimM (scope_symbol t_plus (blk_rparen b) ;;; modify (leave_scope (current_scope c) (current_scope_nx c, next_macro_scope_id c)))
                      (scope_symbol t_plus (blk_rparen b) ;;; modify (leave_scope (current_scope c) (current_scope_nx c, next_macro_scope_id c)))).
    { apply sim_bind; [apply sim_scope_symbol|intro]. apply sim_modify. intros; apply core_leave; assumption. }
    destruct (SimOk_of_SimM _ _ SC y y' HY w d C1) as (z' & C1' & HZ). rewrite C1'. eauto.
  - match type of H with match ?m y with _ => _ end = _ => destruct (m y); discriminate end.
Qed.

(* the n hand-written blocks against the iterations i .. of the loop *)
Lemma loop_blocks_ok f e lsc lp rp body body' :
  LOk f body body' ->
  forall lits lf i n c c' d, lits_ok lits i -> Z.of_nat (length lits) = Z.max 0 (n - i) -> E c c' ->
  loop_iterations lf i n (fun index =>
     with_scope (iteration_scope_name lsc index) (Some (Blk lp rp body))
       (c0 <- get ;; add_symbol [t_index] (symbol_ c0 (Some (le_span e)) (SDNum index) TyConstant) ;;;
        emit_tokens (emit_token f) body)) c = Ret tt d ->
  exists d', run_ok (emit_token (S (S f))) (loop_blocks e lsc lp rp body' lits i) c' = Some d' /\ E d d'.
Proof.
  intros HB lits. induction lits as [|li r IH]; intros lf i n c c' d LO LEN HE H; cbn [loop_blocks run_ok length lits_ok] in *.
  - rewrite loop_iterations_eq in H. destruct (n <=? i) eqn:En; [|apply Z.leb_gt in En; lia].
    inversion H; subst. eauto.
  - destruct LO as [CV LO]. rewrite loop_iterations_eq in H.
    destruct (n <=? i) eqn:En; [apply Z.leb_le in En; lia|]. destruct lf as [|lf0]; [discriminate|].
    unfold bind at 1 in H.
    match type of H with match ?m c with _ => _ end = _ => destruct (m c) as [u e1|ds e1|fl] eqn:E1; try discriminate end.
    (* this iteration against its block *)
    assert (S1 : SimOk
      (with_scope (iteration_scope_name lsc i) (Some (Blk lp rp body))
         (c0 <- get ;; add_symbol [t_index] (symbol_ c0 (Some (le_span e)) (SDNum i) TyConstant) ;;; emit_tokens (emit_token f) body))
      (emit_token (S (S f)) (it_block e lsc lp rp body' li i))).
    { unfold it_block. cbn [emit_token emit_token_body blk_inner].
      change (fun t : token => emit_token_body (emit_token f) f t) with (emit_token (S f)).
      apply SimOk_with_scope_pc; [reflexivity|reflexivity|].
      intros x x' HX Px a dd Hx.
      unfold bind at 1 in Hx. unfold get at 1 in Hx. unfold bind at 1 in Hx.
      destruct (add_symbol [t_index] (symbol_ x (Some (le_span e)) (SDNum i) TyConstant) x) as [nx xa|ds xa|fl2] eqn:EA; try discriminate.
      unfold emit_tokens at 1. cbn [emit_tokens_with]. cbn [emit_token emit_token_body].
      assert (P : try_current_target_pc x' <> PcPanic).
      { assert (T : try_current_target_pc x = try_current_target_pc x')
          by (unfold try_current_target_pc, try_current_segment; unfold E, core in HX; inversion HX; reflexivity).
        rewrite <- T. exact Px. }
      destruct (eval_closed li i x' CV P) as [ev Ev].
      unfold bind at 1. rewrite Ev. cbn [sval_to_sdata]. unfold bind at 1. unfold get at 1.
      assert (HX2 : E x (log x' ev)) by (apply E_log_r; exact HX).
      rewrite <- (symbol_core x (log x' ev) (Some (le_span e)) (SDNum i) TyConstant HX2).
      pose proof (sim_add_symbol [t_index] (symbol_ x (Some (le_span e)) (SDNum i) TyConstant) x (log x' ev) HX2) as SA.
      rewrite EA in SA. unfold bind at 1.
      destruct (add_symbol [t_index] (symbol_ x (Some (le_span e)) (SDNum i) TyConstant) (log x' ev)) as [nx' xa'|ds' xa'|fl3]; cbn in SA; try contradiction.
      destruct SA as [_ HA]. cbn [ret].
      destruct a. unfold emit_tokens in Hx.
      apply (run_ok_iff _ (emit_token_ne f)) in Hx.
      destruct (HB xa xa' dd HA Hx) as (dd' & Hr & Hd). exists dd'. split; [|exact Hd].
      change (fun t : token => emit_token_body (emit_token f) f t) with (emit_token (S f)).
      apply (run_ok_iff _ (emit_token_ne (S f))). exact Hr. }
    destruct (S1 c c' HE u e1 E1) as (e1' & E1' & He1). rewrite E1'.
    eapply IH; [exact LO| |exact He1|exact H]. lia.
Qed.

Lemma LOk_cons_token F t t' ts ts' : SimOk (emit_token F t) (emit_token (S F) t') -> LOk F ts ts' -> LOk F (t :: ts) (t' :: ts').
Proof. intros H1 H2. apply (LOk_app F [t] [t'] ts ts'); [apply LOk_single; exact H1|exact H2]. Qed.

Lemma run_ok_up F ts ts' : LOk F ts ts' -> forall c c' d, E c c' -> run_ok (emit_token F) ts c = Some d ->
  exists d', run_ok (emit_token (S (S F))) ts' c' = Some d' /\ E d d'.
Proof.
  intros H c c' d HE Hr. destruct (H c c' d HE Hr) as (d1 & H1 & E1).
  destruct (run_ok_mono (S F) ts' c' c' d1 (E_refl c') H1) as (d2 & H2 & E2). exists d2. split; [exact H2|eapply E_trans; eauto].
Qed.

(* the expansion relation is a success simulation at every fuel *)
Theorem xp_ok ts ts' : Xp ts ts' -> forall F, LOk F ts ts'.
Proof.
  induction 1 as [ |t ts ts' X IH
                   |v x a b br' ts ts' CV Xb IHb X IH
                   |e n lsc lp rp body body' lits ts ts' CV Lim Len LO Xb IHb X IH
                   |sc lp rp body body' ts ts' Xb IHb X IH
                   |id isp lp rp body body' ts ts' Xb IHb X IH
                   |v lp rp a a' ts ts' Xa IHa X IH
                   |v lp rp a a' lp2 rp2 b b' ts ts' Xa IHa Xb IHb X IH
                   |e lsc lp rp body body' ts ts' Xb IHb X IH
                   |id lp rp body body' ts ts' Xb IHb X IH]; intro F.
  - apply LOk_refl.
  - apply LOk_cons_token; [apply token_mono|apply IH].
  - (* .if with a closed condition *)
    intros c c' d HE Hr. cbn [run_ok] in Hr.
    destruct F as [|f]; [discriminate|]. rewrite if_meaning in Hr.
    destruct (eval_closed_i64 v x c CV) as [[ev Ev]|Ev]; rewrite Ev in Hr; [|discriminate].
    match type of Hr with match ?m with _ => _ end = _ => destruct m as [u e1|ds e1|fl] eqn:E1; try discriminate end.
    destruct u. unfold emit_tokens in E1. apply (run_ok_iff _ (emit_token_ne f)) in E1.
    destruct (run_ok_up f _ _ (IHb f) (log c ev) c' e1 (E_log _ _ ev HE) E1) as (e1' & R1 & He1).
    rewrite run_ok_app, R1. apply (IH (S f) e1 e1' d He1 Hr).
  - (* .loop with a closed count *)
    intros c c' d HE Hr. cbn [run_ok] in Hr.
    destruct F as [|f]; [discriminate|]. rewrite loop_meaning in Hr.
    destruct (eval_closed_i64 e n c CV) as [[ev Ev]|Ev]; rewrite Ev in Hr; [|discriminate].
    destruct (loop_iteration_limit <? n) eqn:EL; [apply Z.ltb_lt in EL; lia|].
    match type of Hr with match ?m with _ => _ end = _ => destruct m as [u e1|ds e1|fl] eqn:E1; try discriminate end.
    destruct u. unfold iteration in E1.
    destruct (loop_blocks_ok f e lsc lp rp body body' (IHb f) lits f loop_first_index n (log c ev) c' e1 LO Len (E_log _ _ ev HE) E1) as (e1' & R1 & He1).
    rewrite run_ok_app, R1. apply (IH (S f) e1 e1' d He1 Hr).
  - (* braces *)
    apply LOk_cons_token; [|apply IH]. destruct F as [|f]; [intros c0 c0' HE0 r0 d0 Hd0; discriminate|].
    cbn [emit_token emit_token_body blk_inner].
    change (fun t : token => emit_token_body (emit_token f) f t) with (emit_token (S f)).
    apply SimOk_with_scope; [cbn; auto|]. apply LOk_emit_tokens. apply IHb.
  - (* labelled block *)
    apply LOk_cons_token; [|apply IH]. destruct F as [|f]; [intros c0 c0' HE0 r0 d0 Hd0; discriminate|].
    cbn [emit_token emit_token_body blk_inner].
    change (fun t : token => emit_token_body (emit_token f) f t) with (emit_token (S f)).
    apply SimOk_bind; [apply SimOk_of_SimM; apply sim_current_target_pc|intros pc].
    apply SimOk_bind.
    + apply SimOk_of_SimM. destruct pc; [|apply sim_ret]. apply sim_get_bind; intros x x' HX. rewrite (symbol_core _ _ _ _ _ HX).
      apply sim_bind; [apply sim_add_symbol|intro; apply sim_ret].
    + intro. apply SimOk_with_scope; [cbn; auto|]. apply LOk_emit_tokens. apply IHb.
  - (* .if that stays, no else *)
    apply LOk_cons_token; [|apply IH]. destruct F as [|f]; [intros c0 c0' HE0 r0 d0 Hd0; discriminate|].
    cbn [emit_token emit_token_body blk_inner].
    change (fun t : token => emit_token_body (emit_token f) f t) with (emit_token (S f)).
    apply SimOk_bind; [apply SimOk_of_SimM; apply sim_eval_i64|intros x]. destruct x; [|apply SimOk_of_SimM; apply sim_ret].
    destruct (negb (z =? 0)); [apply LOk_emit_tokens; apply IHa|apply SimOk_of_SimM; apply sim_ret].
  - (* .if / else that stays *)
    apply LOk_cons_token; [|apply IH]. destruct F as [|f]; [intros c0 c0' HE0 r0 d0 Hd0; discriminate|].
    cbn [emit_token emit_token_body blk_inner].
    change (fun t : token => emit_token_body (emit_token f) f t) with (emit_token (S f)).
    apply SimOk_bind; [apply SimOk_of_SimM; apply sim_eval_i64|intros x]. destruct x; [|apply SimOk_of_SimM; apply sim_ret].
    destruct (negb (z =? 0)); apply LOk_emit_tokens; [apply IHa|apply IHb].
  - (* .loop that stays *)
    apply LOk_cons_token; [|apply IH]. destruct F as [|f]; [intros c0 c0' HE0 r0 d0 Hd0; discriminate|].
    cbn [emit_token emit_token_body blk_inner blk_lparen blk_rparen].
    change (fun t : token => emit_token_body (emit_token f) f t) with (emit_token (S f)).
    apply SimOk_bind; [apply SimOk_of_SimM; apply sim_eval_i64|intros x]. destruct x; [|apply SimOk_of_SimM; apply sim_ret].
    destruct (loop_iteration_limit <? z); [apply SimOk_of_SimM; apply sim_abort|].
    apply SimOk_loop_iterations. intro i. apply SimOk_with_scope; [cbn; auto|].
    apply SimOk_get_bind; intros x x' HX. rewrite (symbol_core _ _ _ _ _ HX).
    apply SimOk_bind; [apply SimOk_of_SimM; apply sim_add_symbol|intro]. apply LOk_emit_tokens. apply IHb.
  - (* .segment block *)
    apply LOk_cons_token; [|apply IH]. destruct F as [|f]; [intros c0 c0' HE0 r0 d0 Hd0; discriminate|].
    cbn [emit_token emit_token_body blk_inner].
    change (fun t : token => emit_token_body (emit_token f) f t) with (emit_token (S f)).
    apply SimOk_bind; [apply SimOk_of_SimM; apply sim_eval_string|intros s]. destruct s; [|apply SimOk_of_SimM; apply sim_ret].
    destruct (existsb (N.eqb 46) t); [apply SimOk_of_SimM; apply sim_fail|].
    apply SimOk_get_bind; intros x x' HX.
    assert (HS : segments x = segments x' /\ current_segment x = current_segment x') by (unfold E, core in HX; inversion HX; auto).
    destruct HS as [H1 H2]. rewrite H1, H2.
    destruct (seg_get (segments x') t); [|apply SimOk_of_SimM; apply sim_fail].
    apply SimOk_bind; [apply SimOk_of_SimM; apply sim_modify; intros; apply core_select; assumption|intro].
    apply SimOk_finally; [apply LOk_emit_tokens; apply IHb|].
    apply SimOk_of_SimM. apply sim_modify. intros; apply core_select; assumption.
Qed.

(* ------------------------------------------------------------------ passes and the pass loop *)
(* a pass in which no statement reports a diagnostic *)
Definition pass_ok (fuel : nat) (toks : list token) (c : ctx) : option ctx :=
  match run_ok (emit_token fuel) toks c with
  | Some c1 => match after_pass c1 with Ret _ c2 => Some c2 | _ => None end
  | None => None
  end.

Lemma pass_ok_run_pass fuel toks c c2 : pass_ok fuel toks c = Some c2 -> run_pass fuel toks c = PassOk [] c2.
Proof.
  unfold pass_ok, run_pass. destruct (run_ok (emit_token fuel) toks c) as [c1|] eqn:R; [|discriminate].
  apply (run_ok_iff _ (emit_token_ne fuel)) in R. unfold emit_tokens. rewrite R.
  destruct (after_pass c1); try discriminate. intro H. inversion H. reflexivity.
Qed.

Lemma sim_after_pass : SimM after_pass after_pass.
Proof.
  unfold after_pass. apply sim_get_bind; intros d d' Hd.
  assert (HS : segments d = segments d') by (unfold E, core in Hd; inversion Hd; auto). rewrite HS.
  apply sim_register_segment_symbols.
Qed.

Lemma pass_ok_sim F p p' : LOk F p p' -> forall c c' c1, E c c' -> pass_ok F p c = Some c1 ->
  exists c1', pass_ok (S F) p' c' = Some c1' /\ E c1 c1'.
Proof.
  intros H c c' c2 HE HP. unfold pass_ok in *. destruct (run_ok (emit_token F) p c) as [c1|] eqn:R; [|discriminate].
  destruct (H c c' c1 HE R) as (c1' & R' & E1). rewrite R'.
  destruct (after_pass c1) as [u x|ds x|f] eqn:A; try discriminate. inversion HP; subst.
  destruct (SimOk_of_SimM _ _ sim_after_pass c1 c1' E1 u c2 A) as (x' & A' & EX). rewrite A'. eauto.
Qed.

(* the pass loop of codegen() restricted to runs in which no pass reports a diagnostic *)
Fixpoint pass_loop_ok (passes fuel : nat) (o : options) (toks : list token) (c : ctx) (prev_undefined : list undef) : option ctx :=
  match passes with
  | O => None
  | S n =>
      match pass_ok fuel toks c with
      | None => None
      | Some c1 =>
          let symbols_added := negb (Nat.eqb (node_count (symbols c1)) (node_count (symbols c))) in
          match segments c1 with
          | [] =>
              let opts := mkSegOpts None (opt_pc o) segment_default_write (opt_pc o) in
              pass_loop_ok n fuel o toks (next_pass (set_segments c1 [(t_default, seg_new opts)] (Some t_default))) prev_undefined
          | _ :: _ =>
              let und_empty := match undefined c1 with [] => true | _ => false end in
              let chg_empty := match changed c1 with [] => true | _ => false end in
              if und_empty && chg_empty && (negb stop_needs_no_new_symbols || negb symbols_added) then Some c1
              else if (negb unknown_needs_nonempty || negb und_empty) && set_eqb (undefined c1) prev_undefined then None
              else pass_loop_ok n fuel o toks (next_pass (set_undefined c1 [])) (undefined c1)
          end
      end
  end.
Definition codegen_ok (passes fuel : nat) (o : options) (toks : list token) : option ctx :=
  pass_loop_ok passes fuel o toks (initial_ctx o) [].

Lemma pass_loop_ok_done passes fuel o toks : forall c pu pe cf,
  pass_loop_ok passes fuel o toks c pu = Some cf -> pass_loop passes fuel o toks c pu pe = Done cf.
Proof.
  induction passes as [|n IH]; intros c pu pe cf H; cbn [pass_loop_ok pass_loop] in *; [discriminate|].
  destruct (pass_ok fuel toks c) as [c1|] eqn:P; [|discriminate]. rewrite (pass_ok_run_pass _ _ _ _ P).
  destruct (segments c1) as [|sg sgs].
  - apply IH. exact H.
  - cbn [andb].
    destruct ((match undefined c1 with [] => true | _ :: _ => false end) && (match changed c1 with [] => true | _ :: _ => false end)
              && (negb stop_needs_no_new_symbols || negb (negb (Nat.eqb (node_count (symbols c1)) (node_count (symbols c)))))).
    + inversion H. reflexivity.
    + destruct ((negb unknown_needs_nonempty || negb (match undefined c1 with [] => true | _ :: _ => false end)) && set_eqb (undefined c1) pu); [discriminate|].
      apply IH. exact H.
Qed.

Lemma E_next_pass c c' : E c c' -> E (next_pass c) (next_pass c').
Proof.
  intro H. unfold E, core in *. inversion H. unfold next_pass. cbn.
  match goal with HS : segments c = segments c' |- _ => rewrite <- HS end. congruence.
Qed.
Lemma E_set_segments c c' s cur : E c c' -> E (set_segments c s cur) (set_segments c' s cur).
Proof. intro H. unfold E, core in *. inversion H. cbn. congruence. Qed.
Lemma E_set_undefined c c' u : E c c' -> E (set_undefined c u) (set_undefined c' u).
Proof. intro H. unfold E, core in *. inversion H. cbn. congruence. Qed.

Lemma pass_loop_ok_sim F p p' : LOk F p p' -> forall passes o c c' pu cf, E c c' ->
  pass_loop_ok passes F o p c pu = Some cf ->
  exists cf', pass_loop_ok passes (S F) o p' c' pu = Some cf' /\ E cf cf'.
Proof.
  intros HL passes. induction passes as [|n IH]; intros o c c' pu cf HE H; cbn [pass_loop_ok] in *; [discriminate|].
  destruct (pass_ok F p c) as [c1|] eqn:P; [|discriminate].
  destruct (pass_ok_sim F p p' HL c c' c1 HE P) as (c1' & P' & E1). rewrite P'.
  assert (HC : node_count (symbols c1) = node_count (symbols c1') /\ node_count (symbols c) = node_count (symbols c') /\
               segments c1 = segments c1' /\ undefined c1 = undefined c1' /\ changed c1 = changed c1').
  { unfold E, core in *. inversion HE. inversion E1. repeat split; congruence. }
  destruct HC as (N1 & N0 & SG & UN & CH). rewrite <- N1, <- N0, <- SG, <- UN, <- CH.
  destruct (segments c1) as [|sg sgs].
  - eapply IH; [|exact H]. apply E_next_pass. apply E_set_segments. exact E1.
  - destruct ((match undefined c1 with [] => true | _ :: _ => false end) && (match changed c1 with [] => true | _ :: _ => false end)
              && (negb stop_needs_no_new_symbols || negb (negb (Nat.eqb (node_count (symbols c1)) (node_count (symbols c)))))).
    + inversion H; subst. eauto.
    + destruct ((negb unknown_needs_nonempty || negb (match undefined c1 with [] => true | _ :: _ => false end)) && set_eqb (undefined c1) pu); [discriminate|].
      eapply IH; [|exact H]. apply E_next_pass. apply E_set_undefined. exact E1.
Qed.

(* C07, whole programs: a program that assembles without a diagnostic in any pass and its expansion (closed `.if`s and
   `.loop`s written out by hand, at any nesting depth) go through the same passes and end with the same symbol table and
   the same segment images *)
Theorem whole_program p p' passes F o cf :
  Xp p p' -> codegen_ok passes F o p = Some cf ->
  codegen passes F o p = Done cf /\
  exists cf', codegen passes (S F) o p' = Done cf' /\ E cf cf' /\ segment_image cf = segment_image cf' /\ symbols cf = symbols cf'.
Proof.
  intros X H. split; [apply pass_loop_ok_done; exact H|].
  destruct (pass_loop_ok_sim F p p' (xp_ok p p' X F) passes o (initial_ctx o) (initial_ctx o) [] cf (E_refl _) H) as (cf' & H' & HE).
  exists cf'. split; [apply pass_loop_ok_done; exact H'|]. split; [exact HE|].
  unfold E, core in HE. inversion HE. unfold segment_image. split; congruence.
Qed.

(* ------------------------------------------------------------------ the oracle's constant substitution is subst_with *)
From Mos Require spec.Relayout spec.Expand.

Definition sigma_of (m : Relayout.fsyms) (defs : Expand.cdefs) (scope : ipath) (p : ipath) : option expr :=
  match Expand.resolve_path (S (length scope)) m scope p with
  | Some full => match Expand.cd_get defs full with
                 | Some (d, ds) => if Expand.substitutable m scope d ds then Some d else None
                 | None => None
                 end
  | None => None
  end.

Lemma subst_expr_is_subst_with m defs scope e : Expand.subst_expr m defs scope e = subst_with (sigma_of m defs scope) e.
Proof.
  induction e using AsmProofs.expr_ind2; cbn [Expand.subst_expr subst_with]; try reflexivity.
  - rewrite IHe1, IHe2. reflexivity.
  - destruct b as [md|]; [reflexivity|]. unfold sigma_of.
    destruct (Expand.resolve_path (S (length scope)) m scope a) as [full|]; [|reflexivity].
    destruct (Expand.cd_get defs full) as [[d0 ds]|]; [|reflexivity]. destruct (Expand.substitutable m scope d0 ds); reflexivity.
  - rewrite IHe. reflexivity.
Qed.

(* so the substituted expression has the value of the original one in every environment that satisfies the guard *)
Theorem expand_const_subst m defs scope en e :
  subst_guard en (sigma_of m defs scope) -> eval en (Expand.subst_expr m defs scope e) = eval en e.
Proof. intro G. rewrite subst_expr_is_subst_with. apply const_subst. exact G. Qed.

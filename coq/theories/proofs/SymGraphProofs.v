(* Facts about model/SymGraph.v: equality tests, shape of query_traversal_steps, fuel. *)
From Coq Require Import List NArith Arith Bool Lia.
Import ListNotations.
From Mos Require Import model.SymGraph model.Analysis spec.NavSpec.

Lemma ident_eqb_eq : forall a b, ident_eqb a b = true <-> a = b.
Proof.
  induction a as [|x a IH]; destruct b as [|y b]; cbn; split; intro H; try congruence; try discriminate.
  - apply andb_true_iff in H as [H1 H2]. apply N.eqb_eq in H1. apply IH in H2. congruence.
  - inversion H; subst. apply andb_true_iff; split; [apply N.eqb_refl | apply IH; reflexivity].
Qed.

Lemma ident_eqb_refl : forall a, ident_eqb a a = true.
Proof. intro a. apply ident_eqb_eq. reflexivity. Qed.

Lemma ident_eqb_neq : forall a b, ident_eqb a b = false <-> a <> b.
Proof.
  intros a b. split.
  - intros H E. apply ident_eqb_eq in E. congruence.
  - intro H. destruct (ident_eqb a b) eqn:E; [apply ident_eqb_eq in E; contradiction | reflexivity].
Qed.

Lemma ident_eqb_sym : forall a b, ident_eqb a b = ident_eqb b a.
Proof.
  intros a b. destruct (ident_eqb a b) eqn:E.
  - apply ident_eqb_eq in E. subst. symmetry. apply ident_eqb_refl.
  - symmetry. apply ident_eqb_neq. apply ident_eqb_neq in E. congruence.
Qed.

Lemma last_default : forall (A : Type) (l : list A) a b, l <> [] -> last l a = last l b.
Proof.
  induction l as [|x l IH]; intros a b NE; [congruence|].
  destruct l as [|y l]; [reflexivity|]. change (last (y :: l) a = last (y :: l) b). apply IH. discriminate.
Qed.

(* ---- walk ---- *)
Lemma walk_length : forall g p c l, walk g c p = Some l -> length l = length p.
Proof.
  induction p as [|id p IH]; cbn; intros c l H.
  - inversion H; reflexivity.
  - destruct (index_step g c id) as [c'|]; [|discriminate].
    destruct (walk g c' p) as [l'|] eqn:E; [|discriminate]. cbn in H. inversion H; subst. cbn. f_equal. eauto.
Qed.

(* try_index is the last node of the walk *)
Lemma walk_try_index : forall g p c l, walk g c p = Some l -> try_index g (Some c) p = Some (last l c).
Proof.
  induction p as [|id p IH]; cbn; intros c l H.
  - inversion H; reflexivity.
  - destruct (index_step g c id) as [c'|]; [|discriminate].
    destruct (walk g c' p) as [l'|] eqn:E; [|discriminate]. cbn in H. inversion H; subst.
    rewrite (IH _ _ E). destruct l' as [|y l']; [reflexivity|].
    f_equal. change (last (c' :: y :: l') c) with (last (y :: l') c). apply last_default. discriminate.
Qed.

Lemma walk_none_try_index : forall g p c, walk g c p = None -> try_index g (Some c) p = None.
Proof.
  induction p as [|id p IH]; cbn; intros c H; [discriminate|].
  destruct (index_step g c id) as [c'|].
  - destruct (walk g c' p) eqn:E; [discriminate|]. eauto.
  - destruct p; reflexivity.
Qed.

(* ---- shape of a traversal: bubbling steps, then one Symbol per identifier (or nothing) ---- *)
Inductive traversal_shape (g : graph) (p : path) : node -> list QueryTraversalStep -> Prop :=
| ts_here : forall n l, walk g n p = Some l -> traversal_shape g p n (map Symbol l)
| ts_fail : forall n, walk g n p = None -> contains_super p = true \/ parent g n = None -> traversal_shape g p n []
| ts_bubble : forall n parent_nx rest,
    walk g n p = None -> contains_super p = false -> parent g n = Some parent_nx ->
    traversal_shape g p parent_nx rest ->
    traversal_shape g p n (Super parent_nx :: rest).

Lemma qts_shape : forall fuel g p n steps,
  p <> [] -> query_traversal_steps fuel g n p = Some steps -> traversal_shape g p n steps.
Proof.
  induction fuel as [|fuel IH]; cbn; intros g p n steps Hp H; [discriminate|].
  destruct (walk g n p) as [l|] eqn:W.
  - destruct p; [congruence|]. inversion H; subst. apply ts_here; auto.
  - destruct (contains_super p) eqn:CS.
    + inversion H; subst. apply ts_fail; auto.
    + destruct (parent g n) as [pn|] eqn:P.
      * destruct (query_traversal_steps fuel g pn p) as [r|] eqn:Q; [|discriminate].
        cbn in H. inversion H; subst. apply ts_bubble; eauto.
      * inversion H; subst. apply ts_fail; auto.
Qed.

(* a traversal of a path that mentions `super` never bubbles *)
Lemma shape_super_no_bubble : forall g p n steps,
  traversal_shape g p n steps -> contains_super p = true -> forall s, In s steps -> exists c, s = Symbol c.
Proof.
  induction 1; intros CS s Hin.
  - apply in_map_iff in Hin as [c [E _]]. eauto.
  - destruct Hin.
  - congruence.
Qed.

Lemma symbols_of_map : forall l, symbols_of (map Symbol l) = l.
Proof. induction l; cbn; congruence. Qed.

Lemma shape_walk : forall g p n steps,
  traversal_shape g p n steps -> symbols_of steps <> [] ->
  walk g (resolving_scope n steps) p = Some (symbols_of steps).
Proof.
  induction 1; intro NE.
  - rewrite symbols_of_map in *. destruct l; [cbn in NE; congruence|]. cbn. assumption.
  - cbn in NE. congruence.
  - cbn in *. auto.
Qed.

Lemma last_symbol_map : forall l c, l <> [] -> last_symbol (map Symbol l) = Some (last l c).
Proof.
  intros l c NE. unfold last_symbol.
  assert (H : last (map Symbol l) (Super 0) = Symbol (last l c)).
  { induction l as [|x l IH]; [congruence|]. destruct l as [|y l]; [reflexivity|].
    change (last (map Symbol (x :: y :: l)) (Super 0)) with (last (map Symbol (y :: l)) (Super 0)).
    change (last (x :: y :: l) c) with (last (y :: l) c). apply IH. discriminate. }
  rewrite H. reflexivity.
Qed.

Lemma shape_last_symbol : forall g p n steps nx,
  traversal_shape g p n steps -> last_symbol steps = Some nx ->
  symbols_of steps <> [] /\ nx = last (symbols_of steps) nx.
Proof.
  induction 1; intro L.
  - rewrite symbols_of_map. destruct l as [|x l]; [cbn in L; discriminate|].
    rewrite (last_symbol_map (x :: l) nx) in L by discriminate. inversion L. split; [discriminate|congruence].
  - cbn in L. discriminate.
  - assert (L' : last_symbol rest = Some nx).
    { unfold last_symbol in *. destruct rest as [|r rest]; [cbn in L; discriminate|]. exact L. }
    cbn. auto.
Qed.

(* the sweep of proofs/FormatSweepDefs.v for the option set sweep_o1 (one file per option set: compile time) *)
From Coq Require Import List Bool.
From Mos Require Import proofs.FormatSweepDefs.
Lemma sweep_1 : forallb (reparse_ok sweep_o1) sweep_inputs = true.
Proof. vm_cast_no_check (eq_refl true). Qed.

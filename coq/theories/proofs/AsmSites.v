(* C06: the statement arms of the assembler model (model/Asm.v) decide by the site functions of model/Sites.v.
   Each lemma takes the test (or the value) that an arm of Asm.emit_token_body / Asm.define_segment computes and
   shows it is the site function: the two models of the same Rust lines cannot drift apart unnoticed. *)
From Coq Require Import List NArith ZArith Bool Lia.
Import ListNotations.
From Mos Require Import model.I64 Gen.BinOps model.Expr Gen.C06Sites model.Sites proofs.SitesProofs.
From Mos Require Gen.CodegenConsts model.Encode model.Segment model.Asm.
Open Scope Z_scope.

Definition site_value {A} (s : site A) : option A := match s with SOk a => Some a | _ => None end.

(* `.define segment { start = v }` and `pc = v`: Asm.define_segment tests `negb ((0 <=? v) && (v <=? 65535))`,
   reports DPcRange, else stores `as_usize v` *)
Lemma segment_option_is_address_check v :
  (if negb ((0 <=? v) && (v <=? 65535)) then None else Some (Encode.as_usize v)) = site_value (address_check v) /\
  (negb ((0 <=? v) && (v <=? 65535)) = true <-> address_check v = SDiag diag_pc_out_of_range).
Proof.
  destruct (address_check_spec v) as [Ok Bad].
  destruct ((0 <=? v) && (v <=? 65535)) eqn:E; cbn [negb].
  - rewrite Ok by lia. cbn [site_value]. split.
    + unfold Encode.as_usize, Encode.two64. rewrite Z.mod_small by lia. reflexivity.
    + split; discriminate.
  - rewrite Bad by lia. cbn [site_value]. split; [reflexivity|split; reflexivity].
Qed.

(* `* = v`: the TPc arm tests `negb ((0 <=? pc) && (pc <=? 65536))`, reports DPcRange, else `seg_set_pc` stores `as_usize pc` *)
Lemma set_pc_is_pc_value_check v :
  (if negb ((0 <=? v) && (v <=? 65536)) then None else Some (Encode.as_usize v)) = site_value (pc_value_check v) /\
  (negb ((0 <=? v) && (v <=? 65536)) = true <-> pc_value_check v = SDiag diag_pc_out_of_range).
Proof.
  destruct (pc_value_check_spec v) as [Ok Bad].
  destruct ((0 <=? v) && (v <=? 65536)) eqn:E; cbn [negb].
  - rewrite Ok by lia. cbn [site_value]. split.
    + unfold Encode.as_usize, Encode.two64. rewrite Z.mod_small by lia. reflexivity.
    + split; discriminate.
  - rewrite Bad by lia. cbn [site_value]. split; [reflexivity|split; reflexivity].
Qed.

(* the `as i64` of a usize: both models agree below 2^64 *)
Lemma usize_as_i64_agree pc : 0 <= pc < two64 -> Encode.usize_as_i64 pc = usize_as_i64 pc.
Proof.
  intros H. unfold Encode.usize_as_i64, Encode.i64_max, Encode.two64, usize_as_i64, wrap64, two64 in *.
  destruct (pc <=? 9223372036854775807) eqn:E.
  - rewrite Z.mod_small by lia. lia.
  - replace (pc + 9223372036854775808) with (pc - 9223372036854775808 + 1 * 18446744073709551616) by lia.
    rewrite Z.mod_add by lia. rewrite Z.mod_small by lia. lia.
Qed.

(* `.align v`: the TAlign arm reports DAlign for `align <=? 0`, else emits
   `Z.min (align - usize_as_i64 pc mod align) align_padding_cap` zero bytes *)
Lemma align_arm_is_align_padding pc align : 0 <= pc < two64 -> in_i64 align = true ->
  align_padding pc align =
  if align <=? 0 then SDiag diag_align_not_positive
  else SOk (Z.min (align - Z.modulo (Encode.usize_as_i64 pc) align) CodegenConsts.align_padding_cap).
Proof.
  intros Hpc Ha. rewrite usize_as_i64_agree by exact Hpc.
  destruct sites_now as (G & Eu & Cap & _). unfold align_padding. rewrite G, Eu, Cap.
  unfold align_padding_with. cbn [andb]. destruct (align <=? 0) eqn:E; [reflexivity|].
  assert (Hpos : 0 < align) by lia.
  assert (E0 : (align =? 0) = false) by lia. rewrite E0.
  assert (E1 : (align =? -1) = false) by lia. rewrite E1, andb_false_r.
  rewrite Z.abs_eq by lia.
  pose proof (Z.mod_pos_bound (usize_as_i64 pc) align Hpos) as Hr.
  set (r := usize_as_i64 pc mod align) in *.
  assert (I : in_i64 (align - r) = true) by (unfold in_i64, i64_min, i64_max in *; lia).
  rewrite I. cbn [negb]. unfold CodegenConsts.align_padding_cap.
  set (p := Z.min (align - r) 65537).
  assert (Hp : 1 <= p <= 65537) by (unfold p; lia).
  assert (U : as_usize p = p) by (unfold as_usize, two64; apply Z.mod_small; lia).
  rewrite U. assert (L : (isize_max <? p) = false) by (unfold isize_max, i64_max; lia). rewrite L. reflexivity.
Qed.

(* `.loop n`: the TLoop arm leaves the model (Abort FUnsupported) for `loop_iteration_limit <? n`: exactly the counts
   for which a fresh pass reports the budget diagnostic; every other count is run *)
Lemma loop_arm_is_loop_enter count :
  (CodegenConsts.loop_iteration_limit <? count) = true <-> loop_enter 0 count = SDiag diag_loop_budget.
Proof.
  destruct (loop_enter_spec 0 count ltac:(lia)) as [A B]. unfold CodegenConsts.loop_iteration_limit. split.
  - intros H. apply B. lia.
  - intros H. destruct (Z_le_gt_dec count 65536) as [L|G]; [|lia].
    destruct (A ltac:(lia)) as [E _]. rewrite E in H. discriminate.
Qed.

(* the limits the two models were translated with are the same numbers *)
Lemma limits_agree :
  pc_limit = 65536 /\ segment_address_limit = 65535 /\ loop_count_limit = Some CodegenConsts.loop_iteration_limit /\
  align_cap = Some CodegenConsts.align_padding_cap /\
  nesting_depth_limit = Some (Z.to_nat CodegenConsts.nesting_depth_limit).
Proof. repeat split; reflexivity. Qed.

(* an accepted segment start has a .prg header: what Asm.define_segment stores never trips `debug_assert!(pc < 65536)` *)
Lemma stored_start_has_header v : negb ((0 <=? v) && (v <=? 65535)) = false -> prg_header (Encode.as_usize v) <> SPanic.
Proof.
  intros H. apply negb_false_iff in H. unfold Encode.as_usize, Encode.two64. rewrite Z.mod_small by lia.
  unfold prg_header. assert (E : (v <? 65536) = true) by lia. rewrite E. discriminate.
Qed.

(* C08, blindness: no grammar function looks at the absolute position or at the diagnostics recorded so far.
   Two runs on the same remaining text, at different offsets, from states that agree on ignore_next / anonymous scope
   counter / nesting depth and on the KINDS of the diagnostics, end in states that agree in the same way and return
   values that are related (at the top: equal skeletons) and the same remaining text. *)
From Coq Require Import List NArith Bool Arith Lia.
Import ListNotations.
From Mos Require Import model.Utf model.Nom Gen.ParserTables model.Parser model.Display spec.Lossless spec.LayoutEquiv
  proofs.NomProofs proofs.TriviaProofs proofs.ParserProofs.
From Mos Require Gen.BinOps Gen.ExprGrammar.
Open Scope N_scope.

(* ---------------------------------------------------------------- relations *)
Definition SR (s s' : pstate) : Prop :=
  ignore_next s = ignore_next s' /\ anon_idx s = anon_idx s' /\ nesting s = nesting s' /\ map d_kind (errors s) = map d_kind (errors s').
Lemma SR_refl s : SR s s. Proof. repeat split. Qed.

Definition RR {A} (RA : A -> A -> Prop) (X X' : pstate * result A) : Prop :=
  SR (fst X) (fst X') /\
  match snd X, snd X' with
  | Ok v r, Ok v' r' => RA v v' /\ rem r = rem r'
  | Err, Err => True
  | Abort a, Abort a' => a = a'
  | _, _ => False
  end.
Definition blind2 {A} (RA : A -> A -> Prop) (p : parser A) : Prop :=
  forall st st' i i', SR st st' -> rem i = rem i' -> RR RA (p st i) (p st' i').

Definition rpair {A B} (RA : A -> A -> Prop) (RB : B -> B -> Prop) (x y : A * B) : Prop := RA (fst x) (fst y) /\ RB (snd x) (snd y).
Definition ropt {A} (RA : A -> A -> Prop) (x y : option A) : Prop :=
  match x, y with Some a, Some b => RA a b | None, None => True | _, _ => False end.
Definition Rloc {A} (RA : A -> A -> Prop) (l l' : located A) : Prop := RA (data l) (data l').
Definition Rany {A} : A -> A -> Prop := fun _ _ => True.

Lemma blind2_weaken {A} (RA RB : A -> A -> Prop) p : blind2 RA p -> (forall a b, RA a b -> RB a b) -> blind2 RB p.
Proof.
  intros H W st st' i i' Hs Hi. specialize (H st st' i i' Hs Hi). unfold RR in *.
  destruct (p st i) as [s [v r| |a]], (p st' i') as [s' [v' r'| |a']]; cbn in *; destruct H as [H1 H2]; split; auto.
  all: try (destruct H2; split; auto).
Qed.

(* ---------------------------------------------------------------- combinators *)
Lemma map_blind {A B} (RA : A -> A -> Prop) (RB : B -> B -> Prop) (f : A -> B) p :
  blind2 RA p -> (forall a a', RA a a' -> RB (f a) (f a')) -> blind2 RB (map_p f p).
Proof.
  intros H W st st' i i' Hs Hi. specialize (H st st' i i' Hs Hi). unfold map_p, RR in *.
  destruct (p st i) as [s [v r| |a]], (p st' i') as [s' [v' r'| |a']]; cbn in *; destruct H as [H1 H2]; try contradiction; split; auto.
  all: try (destruct H2; split; auto).
Qed.
Lemma pair_blind {A B} (RA : A -> A -> Prop) (RB : B -> B -> Prop) p q :
  blind2 RA p -> blind2 RB q -> blind2 (rpair RA RB) (pair_p p q).
Proof.
  intros Hp Hq st st' i i' Hs Hi. specialize (Hp st st' i i' Hs Hi). unfold pair_p, RR in *.
  destruct (p st i) as [s [v r| |a]], (p st' i') as [s' [v' r'| |a']]; cbn in *; destruct Hp as [H1 H2]; try contradiction; try (split; auto; fail).
  destruct H2 as [Hv Hr]. specialize (Hq s s' r r' H1 Hr).
  destruct (q s r) as [t [w u| |b]], (q s' r') as [t' [w' u'| |b']]; cbn in *; destruct Hq as [H3 H4]; try contradiction; split; auto.
  destruct H4. split; [split; assumption|assumption].
Qed.
Lemma alt_blind {A} (RA : A -> A -> Prop) p q : blind2 RA p -> blind2 RA q -> blind2 RA (alt p q).
Proof.
  intros Hp Hq st st' i i' Hs Hi. specialize (Hp st st' i i' Hs Hi). unfold alt, RR in *.
  destruct (p st i) as [s [v r| |a]], (p st' i') as [s' [v' r'| |a']]; cbn in *; destruct Hp as [H1 H2]; try contradiction; try (split; auto; fail); try (apply Hq; assumption).
Qed.
Lemma fail_blind {A} (RA : A -> A -> Prop) : blind2 RA (fun st _ => (st, @Err A)).
Proof. intros st st' i i' Hs Hi. split; cbn; auto. Qed.
Lemma alts_map_blind {A E} (RA : A -> A -> Prop) (g : E -> parser A) table :
  (forall e, In e table -> blind2 RA (g e)) -> blind2 RA (alts (map g table)).
Proof.
  induction table as [|e t IH]; intros H; cbn [map alts]; [apply fail_blind|].
  apply alt_blind; [apply H; left; reflexivity|apply IH; intros; apply H; right; assumption].
Qed.
Lemma opt_blind {A} (RA : A -> A -> Prop) p : blind2 RA p -> blind2 (ropt RA) (opt p).
Proof.
  intros Hp st st' i i' Hs Hi. specialize (Hp st st' i i' Hs Hi). unfold opt, RR in *.
  destruct (p st i) as [s [v r| |a]], (p st' i') as [s' [v' r'| |a']]; cbn in *; destruct Hp as [H1 H2]; try contradiction; split; auto.
  all: try (destruct H2; split; auto).
Qed.
Lemma not_blind {A} (RA : A -> A -> Prop) p : blind2 RA p -> blind2 Rany (not_p p).
Proof.
  intros Hp st st' i i' Hs Hi. specialize (Hp st st' i i' Hs Hi). unfold not_p, RR in *.
  destruct (p st i) as [s [v r| |a]], (p st' i') as [s' [v' r'| |a']]; cbn in *; destruct Hp as [H1 H2]; try contradiction; split; auto.
  all: try (split; [exact I|assumption]).
Qed.
Lemma peek_blind {A} (RA : A -> A -> Prop) p : blind2 RA p -> blind2 RA (peek p).
Proof.
  intros Hp st st' i i' Hs Hi. specialize (Hp st st' i i' Hs Hi). unfold peek, RR in *.
  destruct (p st i) as [s [v r| |a]], (p st' i') as [s' [v' r'| |a']]; cbn in *; destruct Hp as [H1 H2]; try contradiction; split; auto.
  all: try (destruct H2; split; auto).
Qed.
Lemma recognize_blind {A} (RA : A -> A -> Prop) p : blind2 RA p -> blind2 eq (recognize p).
Proof.
  intros Hp st st' i i' Hs Hi. specialize (Hp st st' i i' Hs Hi). unfold recognize, RR in *.
  destruct (p st i) as [s [v r| |a]], (p st' i') as [s' [v' r'| |a']]; cbn in *; destruct Hp as [H1 H2]; try contradiction; split; auto.
  destruct H2 as [_ Hr]. rewrite Hi, Hr. split; reflexivity.
Qed.
Lemma located_blind {A} (RA : A -> A -> Prop) p : blind2 RA p -> blind2 (Rloc RA) (located_p p).
Proof.
  intros Hp st st' i i' Hs Hi. specialize (Hp st st' i i' Hs Hi). unfold located_p, RR in *.
  destruct (p st i) as [s [v r| |a]], (p st' i') as [s' [v' r'| |a']]; cbn in *; destruct Hp as [H1 H2]; try contradiction; split; auto.
Qed.
Lemma with_trivia_blind {A} (RA : A -> A -> Prop) (tp : parser ltrivia) p :
  blind2 Rany tp -> blind2 RA p -> blind2 (Rloc RA) (with_trivia tp p).
Proof.
  intros Ht Hp st st' i i' Hs Hi. unfold with_trivia. pose proof (opt_blind Rany tp Ht st st' i i' Hs Hi) as H. unfold RR in *.
  destruct (opt tp st i) as [s [t r| |a]], (opt tp st' i') as [s' [t' r'| |a']]; cbn in *; destruct H as [H1 H2]; try contradiction; try (split; auto; fail).
  destruct H2 as [_ Hr]. specialize (Hp s s' r r' H1 Hr).
  destruct (p s r) as [t2 [w u| |b]], (p s' r') as [t2' [w' u'| |b']]; cbn in *; destruct Hp as [H3 H4]; try contradiction; split; auto.
Qed.

Lemma SR_report d d' s s' : SR s s' -> d_kind d = d_kind d' -> SR (report_error d s) (report_error d' s').
Proof.
  intros [A [B [C D]]] K. unfold report_error. rewrite <- A. destruct (ignore_next s); repeat split; cbn; auto. rewrite K, D. reflexivity.
Qed.
Lemma expect_blind {A} (RA : A -> A -> Prop) p m : blind2 RA p -> blind2 (ropt RA) (expect p m).
Proof.
  intros Hp st st' i i' Hs Hi. specialize (Hp st st' i i' Hs Hi). unfold expect, RR in *.
  destruct (p st i) as [s [v r| |a]], (p st' i') as [s' [v' r'| |a']]; cbn in *; destruct Hp as [H1 H2]; try contradiction; try (split; auto; fail).
  destruct m; cbn; (split; [first [assumption|apply SR_report; [assumption|reflexivity]]|split; [exact I|assumption]]).
Qed.
Lemma nested_blind {A} (RA : A -> A -> Prop) k p : blind2 RA p -> blind2 RA (nested k p).
Proof.
  intros Hp st st' i i' Hs Hi. unfold nested.
  assert (He : SR (enter_nesting st) (enter_nesting st')).
  { destruct Hs as [A1 [B [C D]]]. repeat split; cbn; auto. }
  assert (Hn : nesting (enter_nesting st) = nesting (enter_nesting st')) by (apply He).
  rewrite <- Hn. destruct (nesting (enter_nesting st) <=? k)%nat.
  - specialize (Hp _ _ i i' He Hi). unfold RR in *.
    destruct (p (enter_nesting st) i) as [s R], (p (enter_nesting st') i') as [s' R']. cbn in *. destruct Hp as [[A1 [B [C D]]] H2].
    split; [repeat split; cbn; auto|exact H2]. all: try (rewrite C; reflexivity).
  - split; cbn; auto. pose proof (SR_report (mkDiag (KExpect MNesting) (off i) (off i)) (mkDiag (KExpect MNesting) (off i') (off i')) _ _ He eq_refl) as [A1 [B [C D]]].
    repeat split; cbn; auto. all: try (rewrite C; reflexivity).
Qed.
Lemma with_scope_blind {A B} (RA : A -> A -> Prop) (RB : B -> B -> Prop) p (f : A -> nat -> B) :
  blind2 RA p -> (forall a a' n, RA a a' -> RB (f a n) (f a' n)) -> blind2 RB (with_scope p f).
Proof.
  intros Hp W st st' i i' Hs Hi. specialize (Hp st st' i i' Hs Hi). unfold with_scope, RR in *.
  destruct (p st i) as [s [v r| |a]], (p st' i') as [s' [v' r'| |a']]; cbn in *; destruct Hp as [H1 H2]; try contradiction; try (split; auto; fail).
  destruct H1 as [A1 [B1 [C D]]]. destruct H2 as [Hv Hr]. rewrite B1. split; [repeat split; cbn; auto|]. split; [apply W; assumption|assumption].
Qed.

Lemma many0_aux_blind {A} (RA : A -> A -> Prop) p : blind2 RA p -> forall f, blind2 (Forall2 RA) (many0_aux f p).
Proof.
  intros Hp f. induction f as [|g IH]; intros st st' i i' Hs Hi; cbn [many0_aux]; [split; cbn; auto|].
  specialize (Hp st st' i i' Hs Hi). unfold RR in *.
  destruct (p st i) as [s [v r| |a]], (p st' i') as [s' [v' r'| |a']]; cbn in *; destruct Hp as [H1 H2]; try contradiction; try (split; auto; fail).
  destruct H2 as [Hv Hr]. rewrite Hr, Hi. destruct (length (rem r') =? length (rem i'))%nat; [split; cbn; auto|].
  specialize (IH s s' r r' H1 Hr).
  destruct (many0_aux g p s r) as [t [l u| |b]], (many0_aux g p s' r') as [t' [l' u'| |b']]; cbn in *; destruct IH as [H3 H4]; try contradiction; split; auto.
  all: try (destruct H4; split; [constructor; assumption|assumption]).
Qed.
Lemma many0_blind {A} (RA : A -> A -> Prop) p : blind2 RA p -> blind2 (Forall2 RA) (many0 p).
Proof. intros Hp st st' i i' Hs Hi. unfold many0. rewrite Hi. apply many0_aux_blind; assumption. Qed.
Lemma many1_blind {A} (RA : A -> A -> Prop) p : blind2 RA p -> blind2 (Forall2 RA) (many1 p).
Proof.
  intros Hp. unfold many1. eapply map_blind; [apply pair_blind; [exact Hp|apply many0_blind; exact Hp]|].
  intros [a l] [a' l'] [H1 H2]. constructor; assumption.
Qed.
Lemma separated_list1_blind {A B} (RA : A -> A -> Prop) (RB : B -> B -> Prop) (sep : parser B) (f : parser A) :
  blind2 RA f -> blind2 RB sep -> blind2 (Forall2 RA) (separated_list1 sep f).
Proof.
  intros Hf Hs. unfold separated_list1. eapply map_blind; [apply pair_blind; [exact Hf|apply many0_blind, pair_blind; eassumption]|].
  intros [a l] [a' l'] [H1 H2]. cbn in *. constructor; [assumption|]. induction H2; cbn; constructor; auto. apply H.
Qed.

(* ---------------------------------------------------------------- terminals: the result is a function of the remaining text *)
Definition textual {A} (p : parser A) : Prop :=
  forall st st' i i', rem i = rem i' ->
    fst (p st i) = st /\ fst (p st' i') = st' /\
    match snd (p st i), snd (p st' i') with
    | Ok v r, Ok v' r' => v = v' /\ rem r = rem r'
    | Err, Err => True
    | _, _ => False
    end.
Lemma textual_blind {A} (p : parser A) : textual p -> blind2 eq p.
Proof.
  intros T st st' i i' Hs Hi. destruct (T st st' i i' Hi) as [A1 [A2 A3]]. unfold RR. rewrite A1, A2. split; [assumption|].
  destruct (snd (p st i)), (snd (p st' i')); auto; contradiction.
Qed.
Lemma take_while1_textual f : textual (take_while1_p f).
Proof. intros st st' i i' Hi. unfold take_while1_p. rewrite Hi. destruct (take_while f (rem i')) as [a b]. destruct a; cbn; auto. Qed.
Lemma take_while0_textual f : textual (take_while0_p f).
Proof. intros st st' i i' Hi. unfold take_while0_p. rewrite Hi. destruct (take_while f (rem i')) as [a b]. cbn; auto. Qed.
Lemma satisfy_textual f : textual (satisfy f).
Proof. intros st st' i i' Hi. unfold satisfy. rewrite Hi. destruct (rem i') as [|c r]; cbn; auto. destruct (f c); cbn; auto. Qed.
Lemma tag_textual t : textual (tag t).
Proof. intros st st' i i' Hi. unfold tag. rewrite Hi. destruct (is_prefix t (rem i')); cbn; auto. Qed.
Lemma tag_no_case_textual t : textual (tag_no_case t).
Proof.
  intros st st' i i' Hi. unfold tag_no_case. rewrite Hi. destruct (take_bytes (rem i') (length t)) as [a b| |]; cbn; auto.
  destruct (ci_eqb a t && negb (word_tag t && starts_ident b)); cbn; auto.
Qed.
Lemma rest_textual : textual rest.
Proof. intros st st' i i' Hi. unfold rest. rewrite Hi. cbn; auto. Qed.
Lemma value_blind {A} (v : A) : blind2 eq (value_p v).
Proof. intros st st' i i' Hs Hi. split; cbn; auto. Qed.
Lemma char_blind c : blind2 eq (char_p c). Proof. apply textual_blind, satisfy_textual. Qed.

(* ---------------------------------------------------------------- trivia *)
Lemma c_comment_blind : blind2 Rany c_comment.
Proof.
  intros st st' i i' Hs Hi. unfold c_comment. pose proof (tag_textual t_slash_star st st' i i' Hi) as [A1 [A2 A3]].
  destruct (tag t_slash_star st i) as [s [v r| |a]], (tag t_slash_star st' i') as [s' [v' r'| |a']]; cbn in *; subst; try contradiction; try (split; cbn; auto; fail).
  destruct A3 as [_ Hr]. rewrite Hr. destruct (c_comment_scan 0 (rem r')) as [[a b] t]. destruct t.
  - split; cbn; auto. split; [exact I|reflexivity].
  - split; cbn; [|split; [exact I|reflexivity]]. match goal with |- SR (set_ignore_next ?x) (set_ignore_next ?y) => assert (H : SR x y) end.
    { apply SR_report; [assumption|reflexivity]. }
    destruct H as [B1 [B2 [B3 B4]]]. repeat split; cbn; auto.
Qed.
Lemma trivia_impl_blind : blind2 Rany trivia_impl.
Proof.
  unfold trivia_impl. cbn [alts]. repeat apply alt_blind; [| | |apply fail_blind].
  - eapply map_blind; [apply textual_blind, take_while1_textual|intros; exact I].
  - eapply map_blind; [apply c_comment_blind|intros; exact I].
  - eapply map_blind; [|intros; exact I]. unfold cpp_comment. eapply recognize_blind, pair_blind; [apply textual_blind, tag_textual|].
    apply opt_blind, textual_blind, take_while1_textual.
Qed.
Lemma newline_blind : blind2 Rany newline.
Proof.
  unfold newline. eapply map_blind; [apply pair_blind; [apply opt_blind, char_blind|apply char_blind]|intros; exact I].
Qed.
Lemma trivia_p_blind : blind2 Rany trivia_p.
Proof. unfold trivia_p. eapply map_blind; [apply located_blind, many1_blind, trivia_impl_blind|intros; exact I]. Qed.
Lemma multiline_trivia_blind : blind2 Rany multiline_trivia.
Proof.
  unfold multiline_trivia. eapply map_blind; [apply located_blind, many1_blind, alt_blind; [apply trivia_impl_blind|apply newline_blind]|intros; exact I].
Qed.
Lemma wr_blind {A} (RA : A -> A -> Prop) w p : blind2 RA p -> blind2 (Rloc RA) (wr w p).
Proof.
  intros Hp. destruct w; cbn [wr].
  - apply with_trivia_blind; [apply trivia_p_blind|assumption].
  - apply with_trivia_blind; [apply multiline_trivia_blind|assumption].
  - apply located_blind. assumption.
Qed.

(* ---------------------------------------------------------------- value relations: equal skeletons *)
Definition Rfac (f f' : efactor) : Prop := sk_efactor f = sk_efactor f'.
Definition Rexp (e e' : expr) : Prop := sk_expr e = sk_expr e'.
Definition Rsi (a b : str_item) : Prop := sk_str_item a = sk_str_item b.
Definition Ris (a b : istring) : Prop := sk_istring a = sk_istring b.
Definition Rargs (a b : arg_items expr) : Prop := sk_eargs a = sk_eargs b.
Definition Rop (a b : operand_t) : Prop := sk_operand a = sk_operand b.
Definition Rtok (a b : token) : Prop := sk_token a = sk_token b.
Definition Rblk (a b : block_t) : Prop := sk_block a = sk_block b.
Definition Ritem {T} (RT : T -> T -> Prop) : (located T * option (located N)) -> (located T * option (located N)) -> Prop :=
  rpair (Rloc RT) Rany.

Lemma Forall2_eq {T} (l l' : list T) : Forall2 eq l l' -> l = l'.
Proof. induction 1; congruence. Qed.
Lemma Forall2_map {T U} (R : T -> T -> Prop) (f : T -> U) l l' : (forall a b, R a b -> f a = f b) -> Forall2 R l l' -> map f l = map f l'.
Proof. intros H. induction 1; cbn; [reflexivity|]. f_equal; auto. Qed.
Lemma Forall2_app_one {T} (R : T -> T -> Prop) l l' a b : Forall2 R l l' -> R a b -> Forall2 R (l ++ [a]) (l' ++ [b]).
Proof. intros H1 H2. apply Forall2_app; [assumption|constructor; [assumption|constructor]]. Qed.

Ltac sc_destr :=
  repeat match goal with
         | x : (_ * _)%type |- _ => destruct x
         | H : _ /\ _ |- _ => destruct H
         | x : option _ |- _ => destruct x
         end.
Ltac sc_pre :=
  intros; unfold rpair, Rloc, Rany, Ritem, Rfac, Rexp, Rsi, Ris, Rargs, Rop, Rtok, Rblk, ropt in *;
  sc_destr; cbn in *; sc_destr; cbn in *; sc_destr; repeat (progress (unfold sk_eargs, sk_lexpr, sx_opt in *; cbn in *)).
Ltac sc_fin := try contradiction; try exact I; try congruence; try (f_equal; congruence); try (repeat split; first [assumption|exact I|congruence]).
Ltac sc := sc_pre; sc_fin.
Ltac sc_op := sc_pre; unfold sk_operand in *; cbn in *; repeat (progress (unfold sk_eargs, sk_lexpr, sx_opt in *; cbn in *)); sc_fin.

(* ---------------------------------------------------------------- identifiers, strings, numbers *)
Lemma identifier_name_blind : blind2 eq identifier_name.
Proof.
  unfold identifier_name. eapply recognize_blind, pair_blind.
  - apply alt_blind; apply textual_blind; [apply take_while1_textual|apply tag_textual].
  - apply many0_blind. apply alt_blind; apply textual_blind; [apply take_while1_textual|apply tag_textual].
Qed.
Lemma identifier_scope_blind : blind2 eq identifier_scope.
Proof.
  unfold identifier_scope. eapply map_blind.
  - apply pair_blind; [apply alt_blind; apply char_blind|]. eapply not_blind. apply textual_blind, take_while1_textual.
  - sc.
Qed.
Lemma identifier_path_blind : blind2 eq identifier_path.
Proof.
  unfold identifier_path. eapply map_blind.
  - apply wr_blind. eapply separated_list1_blind; [|apply char_blind]. apply alt_blind; [apply identifier_scope_blind|apply identifier_name_blind].
  - intros l l' H. apply Forall2_eq. exact H.
Qed.
Lemma keyword_blind k : blind2 eq (keyword_p k).
Proof. unfold keyword_p. eapply map_blind; [apply textual_blind, tag_no_case_textual|sc]. Qed.
Lemma tagged_blind {V} (table : list (text * V)) : blind2 eq (tagged table).
Proof. unfold tagged. apply alts_map_blind. intros e _. eapply map_blind; [apply textual_blind, tag_no_case_textual|sc]. Qed.
Lemma mnemonic_of_blind table : blind2 eq (mnemonic_of table).
Proof. unfold mnemonic_of. apply alts_map_blind. intros e _. apply keyword_blind. Qed.

Lemma string_chunk_blind w : blind2 Rsi (string_chunk w).
Proof.
  unfold string_chunk. eapply map_blind.
  - apply wr_blind. eapply recognize_blind, many1_blind, textual_blind, satisfy_textual.
  - sc.
Qed.
Lemma items_blind l l' : Forall2 Rsi l l' -> map sk_str_item l = map sk_str_item l'.
Proof. apply Forall2_map. auto. Qed.
Lemma interpolated_string_blind : blind2 Ris interpolated_string.
Proof.
  unfold interpolated_string. eapply map_blind.
  - apply pair_blind; [apply wr_blind, char_blind|]. apply pair_blind; [|apply char_blind].
    apply many0_blind with (RA := Rsi). apply alt_blind; [apply string_chunk_blind|].
    eapply map_blind; [apply pair_blind; [apply char_blind|apply pair_blind; [apply wr_blind, identifier_path_blind|apply char_blind]]|sc].
  - intros [q [its c]] [q' [its' c']] [_ [H _]]. unfold Ris, sk_istring. cbn. f_equal. apply items_blind. exact H.
Qed.
Lemma quoted_string_blind : blind2 Ris quoted_string.
Proof.
  unfold quoted_string. eapply map_blind.
  - apply pair_blind; [apply wr_blind, char_blind|]. apply pair_blind; [|apply char_blind].
    apply many0_blind with (RA := Rsi). apply string_chunk_blind.
  - intros [q [its c]] [q' [its' c']] [_ [H _]]. unfold Ris, sk_istring. cbn. f_equal. apply items_blind. exact H.
Qed.

Lemma number_blind : blind2 (Rloc Rfac) number.
Proof.
  unfold number. apply wr_blind. eapply map_blind with (RA := rpair (Rloc eq) (Rloc eq)); [|sc].
  cbn [alts]. repeat apply alt_blind; [| | | | |apply fail_blind].
  - apply pair_blind; [|apply wr_blind; eapply recognize_blind, many1_blind, textual_blind, take_while1_textual].
    eapply map_blind; [apply wr_blind, char_blind|sc].
  - apply pair_blind; [|apply wr_blind; eapply recognize_blind, many1_blind, textual_blind, take_while1_textual].
    eapply map_blind; [apply wr_blind, char_blind|sc].
  - apply pair_blind; [apply wr_blind, value_blind|apply wr_blind; eapply recognize_blind, many1_blind, textual_blind, take_while1_textual].
  - apply pair_blind; [apply wr_blind, value_blind|apply wr_blind, textual_blind, tag_no_case_textual].
  - apply pair_blind; [apply wr_blind, value_blind|apply wr_blind, textual_blind, tag_no_case_textual].
Qed.
Lemma modifier_blind : blind2 eq modifier_p.
Proof. unfold modifier_p. apply alts_map_blind. intros e _. eapply map_blind; [apply char_blind|sc]. Qed.
Lemma identifier_value_blind : blind2 (Rloc Rfac) identifier_value.
Proof.
  unfold identifier_value. apply wr_blind. eapply map_blind.
  - apply pair_blind; [apply opt_blind, wr_blind, modifier_blind|apply wr_blind, identifier_path_blind].
  - sc.
Qed.
Lemma current_pc_blind : blind2 (Rloc Rfac) current_pc.
Proof. unfold current_pc. apply wr_blind. eapply map_blind; [apply wr_blind, char_blind|sc]. Qed.
Lemma interpolated_string_factor_blind : blind2 (Rloc Rfac) interpolated_string_factor.
Proof. unfold interpolated_string_factor. apply wr_blind. eapply map_blind; [apply interpolated_string_blind|sc]. Qed.
Lemma operator_blind table : blind2 eq (operator table).
Proof. unfold operator. apply alts_map_blind. intros e _. eapply map_blind; [apply textual_blind, tag_textual|sc]. Qed.

(* ---------------------------------------------------------------- argument lists *)
Lemma arg_list_loop_blind {T} (RT : T -> T -> Prop) (item : parser T) : blind2 RT item ->
  forall fuel acc acc' cur cur' st st' i i', Forall2 (Ritem RT) acc acc' -> Rloc RT cur cur' -> SR st st' -> rem i = rem i' ->
    RR (Forall2 (Ritem RT)) (arg_list_loop fuel item acc cur st i) (arg_list_loop fuel item acc' cur' st' i').
Proof.
  intros Hi fuel. induction fuel as [|g IH]; intros acc acc' cur cur' st st' i i' Ha Hc Hs Hr; cbn [arg_list_loop]; [split; cbn; auto|].
  pose proof (wr_blind eq (slot W_arg_list 1) (char_p 44) (char_blind 44) st st' i i' Hs Hr) as H. unfold RR in H.
  destruct (wr (slot W_arg_list 1) (char_p 44) st i) as [s [c r| |a]], (wr (slot W_arg_list 1) (char_p 44) st' i') as [s' [c' r'| |a']];
    cbn in H; destruct H as [H1 H2]; try contradiction.
  - destruct H2 as [_ Hr2]. pose proof (wr_blind RT (slot W_arg_list 2) item Hi s s' r r' H1 Hr2) as H3. unfold RR in H3.
    destruct (wr (slot W_arg_list 2) item s r) as [t [nx u| |b]], (wr (slot W_arg_list 2) item s' r') as [t' [nx' u'| |b']];
      cbn in H3; destruct H3 as [H4 H5]; try contradiction; try (split; cbn; auto; fail).
    destruct H5 as [Hn Hu]. apply IH; auto. apply Forall2_app_one; [assumption|]. split; [exact Hc|exact I].
  - split; cbn; [assumption|]. split; [|assumption]. apply Forall2_app_one; [assumption|]. split; [exact Hc|exact I].
  - split; cbn; auto.
Qed.
Lemma arg_list_blind {T} (RT : T -> T -> Prop) (item : parser T) : blind2 RT item -> blind2 (Forall2 (Ritem RT)) (arg_list item).
Proof.
  intros Hi st st' i i' Hs Hr. unfold arg_list.
  pose proof (wr_blind RT (slot W_arg_list 0) item Hi st st' i i' Hs Hr) as H. unfold RR in H.
  destruct (wr (slot W_arg_list 0) item st i) as [s [c r| |a]], (wr (slot W_arg_list 0) item st' i') as [s' [c' r'| |a']];
    cbn in H; destruct H as [H1 H2]; try contradiction; try (split; cbn; auto; fail).
  destruct H2 as [Hc Hr2]. rewrite Hr2. apply arg_list_loop_blind; auto.
Qed.
Lemma eargs_rel l l' : Forall2 (Ritem Rexp) l l' -> Rargs l l'.
Proof. intros H. unfold Rargs, sk_eargs. eapply Forall2_map; [|exact H]. intros [a c] [b d] [H1 _]. exact H1. Qed.

(* ---------------------------------------------------------------- expressions *)
Lemma fold_expressions_rel x x' l l' : Rloc Rexp x x' -> Forall2 (rpair (Rloc (@eq binop)) (Rloc Rexp)) l l' ->
  Rloc Rexp (fold_expressions x l) (fold_expressions x' l').
Proof.
  intros Hx Hl. unfold fold_expressions. revert x x' Hx. induction Hl as [|[op e] [op' e'] l l' [Ho He] Hl IH]; intros x x' Hx; cbn [fold_left]; [assumption|].
  apply IH. cbn [fst snd]. destruct (span_merge3 x op e), (span_merge3 x' op' e'). unfold Rloc, Rexp in *. cbn in *. congruence.
Qed.

Section Expr.
  Variable pe : parser (located expr).
  Hypothesis Hpe : blind2 (Rloc Rexp) pe.

  Lemma expression_arg_list_blind : blind2 Rargs (expression_arg_list pe).
  Proof.
    unfold expression_arg_list. eapply blind2_weaken; [apply arg_list_blind with (RT := Rexp)|apply eargs_rel].
    eapply map_blind; [exact Hpe|]. intros a a' H. exact H.
  Qed.
  Lemma expression_parens_blind : blind2 (Rloc Rfac) (expression_parens pe).
  Proof.
    unfold expression_parens. apply wr_blind. eapply map_blind.
    - apply pair_blind; [apply wr_blind, char_blind|]. apply pair_blind; [apply nested_blind, Hpe|apply wr_blind, char_blind].
    - sc.
  Qed.
  Definition Rparts : (located text * (located N * (option (arg_items expr) * located N))) -> _ -> Prop :=
    rpair (Rloc eq) (rpair Rany (rpair (ropt Rargs) Rany)).
  Lemma fn_call_parts_blind b : blind2 Rparts (fn_call_parts pe b).
  Proof.
    unfold fn_call_parts. apply pair_blind; [destruct b; apply wr_blind, identifier_name_blind|].
    apply pair_blind; [eapply blind2_weaken; [apply wr_blind, char_blind|intros; exact I]|].
    apply pair_blind; [apply opt_blind, nested_blind, expression_arg_list_blind|].
    eapply blind2_weaken; [apply wr_blind, char_blind|intros; exact I].
  Qed.
  Lemma fn_call_impl_blind b : blind2 (Rloc Rfac) (fn_call_impl pe b).
  Proof. unfold fn_call_impl. apply wr_blind. eapply map_blind; [apply fn_call_parts_blind|]. unfold Rparts. sc. Qed.
  Lemma expression_factor_inner_blind : blind2 (Rloc Rfac) (expression_factor_inner pe).
  Proof.
    unfold expression_factor_inner. apply alts_map_blind. intros k _. destruct k; cbn [factor_alt].
    - apply number_blind.
    - apply fn_call_impl_blind.
    - apply identifier_value_blind.
    - apply current_pc_blind.
    - apply expression_parens_blind.
    - apply interpolated_string_factor_blind.
  Qed.
  Lemma expression_factor_blind : blind2 (Rloc Rexp) (expression_factor pe).
  Proof.
    unfold expression_factor. apply wr_blind. apply alt_blind.
    - eapply map_blind; [apply expression_factor_inner_blind|sc].
    - eapply map_blind.
      + apply pair_blind; [apply peek_blind, textual_blind, satisfy_textual|].
        apply pair_blind; [apply opt_blind, wr_blind, char_blind|]. apply pair_blind; [apply opt_blind, wr_blind, char_blind|].
        apply expression_factor_inner_blind.
      + sc.
  Qed.
  Lemma expression_term_blind : blind2 (Rloc Rexp) (expression_term pe).
  Proof.
    unfold expression_term. eapply map_blind.
    - apply pair_blind; [apply expression_factor_blind|]. apply many0_blind. apply pair_blind; [apply wr_blind, operator_blind|apply expression_factor_blind].
    - intros [x l] [x' l'] [Hx Hl]. apply fold_expressions_rel; assumption.
  Qed.
  Lemma expression_body_blind : blind2 (Rloc Rexp) (expression_body pe).
  Proof.
    unfold expression_body. eapply map_blind.
    - apply pair_blind; [apply expression_term_blind|]. apply many0_blind. apply pair_blind; [apply wr_blind, operator_blind|apply expression_term_blind].
    - intros [x l] [x' l'] [Hx Hl]. apply fold_expressions_rel; assumption.
  Qed.
End Expr.

Lemma expression_fuel_blind fuel : blind2 (Rloc Rexp) (expression_fuel fuel).
Proof.
  induction fuel as [|g IH]; cbn [expression_fuel].
  - intros st st' i i' Hs Hi. split; cbn; auto.
  - intros st st' i i' Hs Hi. apply (expression_body_blind _ IH); assumption.
Qed.
Lemma expression_blind : blind2 (Rloc Rexp) expression.
Proof. intros st st' i i' Hs Hi. unfold expression. rewrite Hi. apply expression_fuel_blind; assumption. Qed.
Lemma expression_args_blind : blind2 Rargs expression_args.
Proof. apply expression_arg_list_blind, expression_blind. Qed.

(* ---------------------------------------------------------------- operands, instruction *)
Definition Rsuf (a b : register_suffix) : Prop := fst (data (register a)) = fst (data (register b)).
Lemma register_suffix_blind e : blind2 Rsuf (register_suffix_p e).
Proof.
  unfold register_suffix_p. eapply map_blind; [apply pair_blind; [apply wr_blind, char_blind|apply wr_blind, textual_blind, tag_no_case_textual]|].
  unfold Rsuf. sc.
Qed.
Lemma optional_suffix_blind : blind2 (ropt Rsuf) optional_suffix.
Proof. unfold optional_suffix. apply opt_blind. apply alts_map_blind. intros e _. apply register_suffix_blind. Qed.
Lemma operand_blind : blind2 Rop operand.
Proof.
  unfold operand. cbn [alts]. repeat apply alt_blind; [| | | |apply fail_blind].
  - eapply map_blind; [apply pair_blind; [apply wr_blind, char_blind|apply expression_blind]|]. unfold Rsuf. sc_op.
  - eapply map_blind; [apply pair_blind; [apply wr_blind, char_blind|apply pair_blind; [apply expression_blind|apply pair_blind; [apply wr_blind, char_blind|apply optional_suffix_blind]]]|].
    unfold Rsuf. sc_op.
  - eapply map_blind; [apply pair_blind; [apply wr_blind, char_blind|apply pair_blind; [apply expression_blind|apply pair_blind; [apply optional_suffix_blind|apply wr_blind, char_blind]]]|].
    unfold Rsuf. sc_op.
  - eapply map_blind; [apply pair_blind; [apply expression_blind|apply optional_suffix_blind]|]. unfold Rsuf. sc_op.
Qed.
Lemma instruction_blind : blind2 Rtok instruction.
Proof.
  unfold instruction. apply alt_blind.
  - eapply map_blind; [apply pair_blind; [apply wr_blind, mnemonic_of_blind|apply expect_blind, operand_blind]|]. sc.
  - eapply map_blind; [apply pair_blind; [apply wr_blind, mnemonic_of_blind|eapply expect_blind, not_blind, operand_blind]|]. sc.
Qed.

(* ---------------------------------------------------------------- config maps, error tokens *)
Lemma config_key_blind : blind2 eq config_key.
Proof.
  unfold config_key. eapply recognize_blind, pair_blind.
  - apply alt_blind; apply textual_blind; [apply take_while1_textual|apply tag_textual].
  - apply many0_blind. apply alt_blind; apply textual_blind; [apply take_while1_textual|apply tag_textual].
Qed.
Lemma tokens_rel l l' : Forall2 Rtok l l' -> map sk_token l = map sk_token l'.
Proof. apply Forall2_map. auto. Qed.
Lemma kvp_blind p : blind2 Rtok p -> blind2 Rtok (kvp p).
Proof.
  intros Hp. unfold kvp. eapply map_blind.
  - apply pair_blind; [apply wr_blind, config_key_blind|]. apply pair_blind; [apply wr_blind, char_blind|].
    apply wr_blind. apply alt_blind; [exact Hp|]. eapply map_blind; [apply expression_blind|]. sc.
  - sc.
Qed.
Lemma config_map_body_blind p : blind2 Rtok p -> blind2 Rtok (config_map_body p).
Proof.
  intros Hp. unfold config_map_body. eapply map_blind.
  - apply pair_blind; [apply wr_blind, char_blind|]. apply pair_blind; [apply many0_blind, kvp_blind, Hp|apply wr_blind, char_blind].
  - intros [l [inner r]] [l' [inner' r']] [_ [H _]]. unfold Rtok. cbn. f_equal. f_equal. f_equal. apply tokens_rel. exact H.
Qed.
Lemma config_map_fuel_blind fuel : blind2 Rtok (config_map_fuel fuel).
Proof.
  induction fuel as [|g IH]; cbn [config_map_fuel].
  - intros st st' i i' Hs Hi. split; cbn; auto.
  - intros st st' i i' Hs Hi. apply (config_map_body_blind _ IH); assumption.
Qed.
Lemma config_map_blind : blind2 Rtok config_map.
Proof. intros st st' i i' Hs Hi. unfold config_map. rewrite Hi. apply config_map_fuel_blind; assumption. Qed.

Lemma error_impl_blind b : blind2 Rtok (error_impl b).
Proof.
  intros st st' i i' Hs Hi. unfold error_impl.
  assert (Hw : blind2 (Rloc eq) (wr (slot W_error_impl 0)
     (recognize (alt (recognize (pair_p (one_of error_lead) (take_till (error_stop_p b)))) (take_till1 (error_stop_p b)))))).
  { apply wr_blind. eapply recognize_blind. apply alt_blind.
    - eapply recognize_blind. apply pair_blind; apply textual_blind; [apply satisfy_textual|apply take_while0_textual].
    - apply textual_blind, take_while1_textual. }
  specialize (Hw st st' i i' Hs Hi). unfold RR in *.
  destruct (wr (slot W_error_impl 0) _ st i) as [s [l r| |a]], (wr (slot W_error_impl 0) _ st' i') as [s' [l' r'| |a']];
    cbn in *; destruct Hw as [H1 H2]; try contradiction; try (split; auto; fail).
  destruct H2 as [Hl Hr]. unfold Rloc in Hl. split; [apply SR_report; [assumption|cbn; rewrite Hl; reflexivity]|].
  split; [unfold Rtok; cbn; rewrite Hl; reflexivity|assumption].
Qed.

(* ---------------------------------------------------------------- statements *)
Definition Ras : option import_as -> option import_as -> Prop := ropt (fun a b => data (snd a) = data (snd b)).
Lemma as_blind : blind2 Ras as_.
Proof.
  unfold as_, Ras. apply opt_blind. eapply blind2_weaken; [apply pair_blind; [apply wr_blind, keyword_blind|apply wr_blind, identifier_path_blind]|].
  intros [t p] [t' p'] [_ H]. exact H.
Qed.

Section Statements.
  Variable ps : parser token.
  Hypothesis Hps : blind2 Rtok ps.

  Lemma block_blind : blind2 Rblk (block ps).
  Proof.
    unfold block. eapply map_blind.
    - apply pair_blind; [apply wr_blind, char_blind|]. apply pair_blind.
      + apply nested_blind, many0_blind. apply alt_blind; [exact Hps|apply error_impl_blind].
      + apply expect_blind. apply wr_blind, char_blind.
    - intros [l [inner r]] [l' [inner' r']] [_ [H Hr]]. unfold Rblk. cbn in *. rewrite (tokens_rel _ _ H).
      destruct r, r'; cbn in *; try contradiction; reflexivity.
  Qed.
  Lemma opt_block_blind : blind2 (ropt Rblk) (opt (block ps)).
  Proof. apply opt_blind, block_blind. Qed.

  Lemma braces_blind : blind2 Rtok (braces ps).
  Proof. unfold braces. eapply with_scope_blind; [apply block_blind|]. sc. Qed.
  Lemma label_blind : blind2 Rtok (label ps).
  Proof.
    unfold label. eapply map_blind; [apply pair_blind; [apply wr_blind, identifier_name_blind|apply pair_blind; [apply wr_blind, char_blind|apply opt_block_blind]]|]. sc.
  Qed.
  Lemma data_blind : blind2 Rtok data_.
  Proof.
    unfold data_. eapply map_blind.
    - apply pair_blind; [|apply expect_blind, expression_args_blind].
      apply alts_map_blind. intros e _. apply wr_blind, tagged_blind.
    - sc.
  Qed.
  Lemma varconst_impl_blind k : blind2 Rtok (varconst_impl k).
  Proof.
    unfold varconst_impl. eapply map_blind.
    - apply pair_blind; [apply wr_blind, tagged_blind|]. apply pair_blind; [apply wr_blind, identifier_name_blind|].
      apply pair_blind; [apply wr_blind, char_blind|apply expression_blind].
    - sc.
  Qed.
  Lemma pc_definition_blind : blind2 Rtok pc_definition.
  Proof.
    unfold pc_definition. eapply map_blind; [apply pair_blind; [apply wr_blind, char_blind|apply pair_blind; [apply wr_blind, char_blind|apply expression_blind]]|]. sc.
  Qed.
  Lemma config_definition_blind : blind2 Rtok config_definition.
  Proof.
    unfold config_definition. eapply map_blind.
    - apply pair_blind; [apply wr_blind, keyword_blind|]. apply pair_blind; [apply wr_blind, identifier_name_blind|apply expect_blind, config_map_blind].
    - sc.
  Qed.
  Definition Ridargs : arg_items text -> arg_items text -> Prop := Forall2 (Ritem eq).
  Lemma idargs_rel l l' : Ridargs l l' -> map (fun a : located text * option (located N) => leaf 1 (data (fst a))) l = map (fun a => leaf 1 (data (fst a))) l'.
  Proof. apply Forall2_map. intros [a c] [b d] [H _]. unfold Rloc in H. cbn in *. rewrite H. reflexivity. Qed.
  Lemma macro_definition_blind : blind2 Rtok (macro_definition ps).
  Proof.
    unfold macro_definition. eapply map_blind.
    - apply pair_blind; [apply wr_blind, keyword_blind|]. apply pair_blind; [apply wr_blind, identifier_name_blind|].
      apply pair_blind; [apply wr_blind, char_blind|]. apply pair_blind; [apply opt_blind; unfold identifier_arg_list; apply arg_list_blind, identifier_name_blind|].
      apply pair_blind; [apply wr_blind, char_blind|apply block_blind].
    - intros [t [i [l [a [r b]]]]] [t' [i' [l' [a' [r' b']]]]] [_ [Hi [_ [Ha [_ Hb]]]]]. unfold Rtok, Rblk, Rloc in *. cbn in *.
      rewrite Hi, Hb. f_equal. f_equal. destruct a, a'; cbn in *; try contradiction; [apply idargs_rel; exact Ha|reflexivity].
  Qed.
  Lemma macro_invocation_blind : blind2 Rtok macro_invocation.
  Proof. unfold macro_invocation. eapply map_blind; [apply fn_call_parts_blind, expression_blind|]. unfold Rparts. sc. Qed.
  Lemma segment_blind : blind2 Rtok (segment ps).
  Proof.
    unfold segment. eapply map_blind; [apply pair_blind; [apply wr_blind, keyword_blind|apply pair_blind; [apply expression_blind|apply opt_block_blind]]|]. sc.
  Qed.
  Lemma loop_blind : blind2 Rtok (loop_ ps).
  Proof.
    unfold loop_. eapply with_scope_blind; [apply pair_blind; [apply wr_blind, keyword_blind|apply pair_blind; [apply expression_blind|apply block_blind]]|]. sc.
  Qed.
  Lemma if_blind : blind2 Rtok (if_ ps).
  Proof.
    unfold if_. eapply map_blind.
    - apply pair_blind; [apply wr_blind, keyword_blind|]. apply pair_blind; [apply expression_blind|].
      apply pair_blind; [apply block_blind|]. apply opt_blind. apply pair_blind; [apply wr_blind, keyword_blind|apply block_blind].
    - sc.
  Qed.
  Lemma align_blind : blind2 Rtok align.
  Proof. unfold align. eapply map_blind; [apply pair_blind; [apply wr_blind, keyword_blind|apply expression_blind]|]. sc. Qed.

  Definition Rspec (a b : specific_import_arg) : Prop := sk_specific a = sk_specific b.
  Lemma specific_arg_blind : blind2 Rspec specific_arg.
  Proof.
    unfold specific_arg. eapply map_blind; [apply pair_blind; [apply wr_blind, identifier_path_blind|apply as_blind]|].
    unfold Rspec, Ras. sc_pre; unfold sk_specific, sk_import_as, sx_opt; cbn; sc_fin.
  Qed.
  Definition Rimp (a b : import_args) : Prop := sk_import_args a = sk_import_args b.
  Lemma import_blind : blind2 Rtok (import ps).
  Proof.
    unfold import. eapply with_scope_blind.
    - apply pair_blind; [apply wr_blind, keyword_blind|]. apply pair_blind with (RA := Rimp).
      + apply alt_blind.
        * eapply map_blind; [apply pair_blind; [apply wr_blind, char_blind|apply as_blind]|]. unfold Rimp, Ras. sc_pre; unfold sk_import_as, sx_opt; cbn; sc_fin.
        * eapply map_blind; [apply arg_list_blind, specific_arg_blind|]. intros l l' H. unfold Rimp. cbn. f_equal.
          eapply Forall2_map; [|exact H]. intros [a c] [b d] [H1 _]. exact H1.
      + apply pair_blind; [apply wr_blind, keyword_blind|]. apply pair_blind; [apply quoted_string_blind|apply opt_block_blind].
    - unfold Rimp. sc.
  Qed.
  Lemma text_blind : blind2 Rtok text_.
  Proof.
    unfold text_. eapply map_blind.
    - apply pair_blind; [apply wr_blind, keyword_blind|].
      apply alt_blind with (RA := rpair (ropt (Rloc eq)) (Rloc Rexp)).
      + eapply map_blind; [apply pair_blind; [apply wr_blind, tagged_blind|apply expression_blind]|]. sc.
      + eapply map_blind; [apply expression_blind|]. sc.
    - sc.
  Qed.
  Lemma file_blind : blind2 Rtok file.
  Proof. unfold file. eapply map_blind; [apply pair_blind; [apply wr_blind, keyword_blind|apply interpolated_string_blind]|]. sc. Qed.
  Lemma test_blind : blind2 Rtok (test ps).
  Proof.
    unfold test. eapply map_blind; [apply pair_blind; [apply wr_blind, keyword_blind|apply pair_blind; [apply expression_blind|apply block_blind]]|]. sc.
  Qed.
  Lemma assert_blind : blind2 Rtok assert.
  Proof.
    unfold assert. eapply map_blind; [apply pair_blind; [apply wr_blind, keyword_blind|apply pair_blind; [apply expression_blind|apply opt_blind, interpolated_string_blind]]|]. sc.
  Qed.
  Lemma trace_blind : blind2 Rtok trace.
  Proof.
    unfold trace. eapply map_blind.
    - apply pair_blind; [apply wr_blind, keyword_blind|]. apply opt_blind.
      apply pair_blind; [apply wr_blind, char_blind|]. apply pair_blind; [apply opt_blind, expression_args_blind|apply wr_blind, char_blind].
    - sc.
  Qed.

  Lemma statement_body_blind : blind2 Rtok (statement_body ps).
  Proof.
    unfold statement_body. apply alts_map_blind. intros k _. destruct k; cbn [stmt_parser].
    - apply braces_blind.
    - apply label_blind.
    - apply instruction_blind.
    - apply varconst_impl_blind.
    - apply varconst_impl_blind.
    - apply pc_definition_blind.
    - apply config_definition_blind.
    - apply macro_definition_blind.
    - apply macro_invocation_blind.
    - apply data_blind.
    - apply segment_blind.
    - apply loop_blind.
    - apply if_blind.
    - apply align_blind.
    - apply import_blind.
    - apply text_blind.
    - apply file_blind.
    - apply test_blind.
    - apply assert_blind.
    - apply trace_blind.
  Qed.
End Statements.

Lemma statement_fuel_blind fuel : blind2 Rtok (statement_fuel fuel).
Proof.
  induction fuel as [|g IH]; cbn [statement_fuel].
  - intros st st' i i' Hs Hi. split; cbn; auto.
  - intros st st' i i' Hs Hi. apply (statement_body_blind _ IH); assumption.
Qed.
Theorem statement_blind : blind2 Rtok statement.
Proof. intros st st' i i' Hs Hi. unfold statement. rewrite Hi. apply statement_fuel_blind; assumption. Qed.
Theorem statement_or_error_blind : blind2 Rtok (alt statement error).
Proof. apply alt_blind; [apply statement_blind|apply error_impl_blind]. Qed.

(* ---------------------------------------------------------------- two parsers, bounded input length
   (the statement parser's fuel is computed from the length of the text, which differs between two layouts) *)
Definition blindh {A} (n : nat) (RA : A -> A -> Prop) (p p' : parser A) : Prop :=
  forall st st' i i', SR st st' -> rem i = rem i' -> (length (rem i) <= n)%nat -> RR RA (p st i) (p' st' i').
Lemma blindh_of_blind {A} n (RA : A -> A -> Prop) p : blind2 RA p -> blindh n RA p p.
Proof. intros H st st' i i' Hs Hi _. apply H; assumption. Qed.
Lemma blindh_le {A} n m (RA : A -> A -> Prop) p p' : blindh n RA p p' -> (m <= n)%nat -> blindh m RA p p'.
Proof. intros H Hm st st' i i' Hs Hi Hl. apply H; auto. lia. Qed.

Definition shrinks {A} (p : parser A) : Prop := forall st i st' v r, p st i = (st', Ok v r) -> (length (rem r) <= length (rem i))%nat.
Lemma shrinks_of_sound {A} (sa : A -> list atom) (p : parser A) : sound anyP sa p -> shrinks p.
Proof.
  intros Hp st i st' v r E. destruct (Hp _ _ _ _ E) as [_ [H1 _]]. destruct (H1 I) as [E1 _]. rewrite E1, app_length. lia.
Qed.
Definition consumes1 {A} (p : parser A) : Prop := forall st i st' v r, p st i = (st', Ok v r) -> (length (rem r) < length (rem i))%nat.

Lemma map_blindh {A B} n (RA : A -> A -> Prop) (RB : B -> B -> Prop) (f : A -> B) p p' :
  blindh n RA p p' -> (forall a a', RA a a' -> RB (f a) (f a')) -> blindh n RB (map_p f p) (map_p f p').
Proof.
  intros H W st st' i i' Hs Hi Hl. specialize (H st st' i i' Hs Hi Hl). unfold map_p, RR in *.
  destruct (p st i) as [s [v r| |a]], (p' st' i') as [s' [v' r'| |a']]; cbn in *; destruct H as [H1 H2]; try contradiction; split; auto.
  all: try (destruct H2; split; auto).
Qed.
Lemma pair_blindh_gen {A B} n (RA : A -> A -> Prop) (RB : B -> B -> Prop) p p' q q' :
  blindh n RA p p' ->
  (forall st i s v r, p st i = (s, Ok v r) -> (length (rem i) <= n)%nat ->
     forall s1 s1' r', SR s1 s1' -> rem r = rem r' -> RR RB (q s1 r) (q' s1' r')) ->
  blindh n (rpair RA RB) (pair_p p q) (pair_p p' q').
Proof.
  intros Hp Hq st st' i i' Hs Hi Hl. pose proof (Hp st st' i i' Hs Hi Hl) as H. unfold pair_p. unfold RR in H.
  destruct (p st i) as [s [v r| |a]] eqn:E1, (p' st' i') as [s' [v' r'| |a']]; cbn in H; destruct H as [H1 H2]; try contradiction; try (split; cbn; auto; fail).
  destruct H2 as [Hv Hr]. specialize (Hq st i s v r E1 Hl s s' r' H1 Hr). unfold RR in *.
  destruct (q s r) as [t [w u| |b]], (q' s' r') as [t' [w' u'| |b']]; cbn in *; destruct Hq as [H3 H4]; try contradiction; split; auto.
  all: try (destruct H4; split; [split; assumption|assumption]).
Qed.
Lemma pair_blindh {A B} n (RA : A -> A -> Prop) (RB : B -> B -> Prop) p p' q q' :
  blindh n RA p p' -> shrinks p -> blindh n RB q q' -> blindh n (rpair RA RB) (pair_p p q) (pair_p p' q').
Proof.
  intros Hp Hs Hq. apply pair_blindh_gen; [assumption|]. intros st i s v r E Hl s1 s1' r' HS Hr. apply Hq; auto.
  apply Hs in E. lia.
Qed.
Lemma pair_blindh_rec {A B} n (RA : A -> A -> Prop) (RB : B -> B -> Prop) p p' q q' :
  blindh n RA p p' -> consumes1 p -> (forall m, (m < n)%nat -> blindh m RB q q') -> blindh n (rpair RA RB) (pair_p p q) (pair_p p' q').
Proof.
  intros Hp Hc Hq. apply pair_blindh_gen; [assumption|]. intros st i s v r E Hl s1 s1' r' HS Hr.
  apply Hc in E. apply (Hq (length (rem r))); auto. lia.
Qed.
Lemma alt_blindh {A} n (RA : A -> A -> Prop) p p' q q' : blindh n RA p p' -> blindh n RA q q' -> blindh n RA (alt p q) (alt p' q').
Proof.
  intros Hp Hq st st' i i' Hs Hi Hl. specialize (Hp st st' i i' Hs Hi Hl). unfold alt, RR in *.
  destruct (p st i) as [s [v r| |a]], (p' st' i') as [s' [v' r'| |a']]; cbn in *; destruct Hp as [H1 H2]; try contradiction; try (split; auto; fail);
    try (apply Hq; assumption).
Qed.
Lemma alts_map_blindh {A E} n (RA : A -> A -> Prop) (g g' : E -> parser A) table :
  (forall e, In e table -> blindh n RA (g e) (g' e)) -> blindh n RA (alts (map g table)) (alts (map g' table)).
Proof.
  induction table as [|e t IH]; intros H; cbn [map alts]; [intros st st' i i' Hs Hi Hl; split; cbn; auto|].
  apply alt_blindh; [apply H; left; reflexivity|apply IH; intros; apply H; right; assumption].
Qed.
Lemma opt_blindh {A} n (RA : A -> A -> Prop) p p' : blindh n RA p p' -> blindh n (ropt RA) (opt p) (opt p').
Proof.
  intros Hp st st' i i' Hs Hi Hl. specialize (Hp st st' i i' Hs Hi Hl). unfold opt, RR in *.
  destruct (p st i) as [s [v r| |a]], (p' st' i') as [s' [v' r'| |a']]; cbn in *; destruct Hp as [H1 H2]; try contradiction; split; auto.
  all: try (destruct H2; split; auto).
Qed.
Lemma nested_blindh {A} n (RA : A -> A -> Prop) k p p' : blindh n RA p p' -> blindh n RA (nested k p) (nested k p').
Proof.
  intros Hp st st' i i' Hs Hi Hl. unfold nested.
  assert (He : SR (enter_nesting st) (enter_nesting st')).
  { destruct Hs as [A1 [B [C D]]]. repeat split; cbn; auto. }
  assert (Hn : nesting (enter_nesting st) = nesting (enter_nesting st')) by (apply He).
  rewrite <- Hn. destruct (nesting (enter_nesting st) <=? k)%nat.
  - specialize (Hp _ _ i i' He Hi Hl). unfold RR in *.
    destruct (p (enter_nesting st) i) as [s R], (p' (enter_nesting st') i') as [s' R']. cbn in *. destruct Hp as [[A1 [B [C D]]] H2].
    split; [repeat split; cbn; auto|exact H2]. all: try (rewrite C; reflexivity).
  - split; cbn; auto. pose proof (SR_report (mkDiag (KExpect MNesting) (off i) (off i)) (mkDiag (KExpect MNesting) (off i') (off i')) _ _ He eq_refl) as [A1 [B [C D]]].
    repeat split; cbn; auto. all: try (rewrite C; reflexivity).
Qed.
Lemma with_scope_blindh {A B} n (RA : A -> A -> Prop) (RB : B -> B -> Prop) p p' (f : A -> nat -> B) :
  blindh n RA p p' -> (forall a a' k, RA a a' -> RB (f a k) (f a' k)) -> blindh n RB (with_scope p f) (with_scope p' f).
Proof.
  intros Hp W st st' i i' Hs Hi Hl. specialize (Hp st st' i i' Hs Hi Hl). unfold with_scope, RR in *.
  destruct (p st i) as [s [v r| |a]], (p' st' i') as [s' [v' r'| |a']]; cbn in *; destruct Hp as [H1 H2]; try contradiction; try (split; auto; fail).
  destruct H1 as [A1 [B1 [C D]]]. destruct H2 as [Hv Hr]. rewrite B1. split; [repeat split; cbn; auto|]. split; [apply W; assumption|assumption].
Qed.
Lemma many0_aux_blindh {A} n (RA : A -> A -> Prop) p p' : blindh n RA p p' -> shrinks p ->
  forall f, blindh n (Forall2 RA) (many0_aux f p) (many0_aux f p').
Proof.
  intros Hp Hsh f. induction f as [|g IH]; intros st st' i i' Hs Hi Hl; cbn [many0_aux]; [split; cbn; auto|].
  pose proof (Hp st st' i i' Hs Hi Hl) as H. unfold RR in H.
  destruct (p st i) as [s [v r| |a]] eqn:E1, (p' st' i') as [s' [v' r'| |a']]; cbn in H; destruct H as [H1 H2]; try contradiction; try (split; cbn; auto; fail).
  destruct H2 as [Hv Hr]. rewrite Hr, Hi. destruct (length (rem r') =? length (rem i'))%nat; [split; cbn; auto|].
  assert (Hl2 : (length (rem r) <= n)%nat) by (apply Hsh in E1; lia).
  specialize (IH s s' r r' H1 Hr Hl2). unfold RR in *.
  destruct (many0_aux g p s r) as [t [l u| |b]], (many0_aux g p' s' r') as [t' [l' u'| |b']]; cbn in *; destruct IH as [H3 H4]; try contradiction; split; auto.
  all: try (destruct H4; split; [constructor; assumption|assumption]).
Qed.
Lemma many0_blindh {A} n (RA : A -> A -> Prop) p p' : blindh n RA p p' -> shrinks p -> blindh n (Forall2 RA) (many0 p) (many0 p').
Proof. intros Hp Hsh st st' i i' Hs Hi Hl. unfold many0. rewrite Hi. apply (many0_aux_blindh n); assumption. Qed.

(* ---------------------------------------------------------------- parsers never lengthen the input *)
Lemma consumes1_of_sound {A} (sa : A -> list atom) (p : parser A) :
  sound anyP sa p -> (forall st i st' v r, p st i = (st', Ok v r) -> exact (sa v) <> []) -> consumes1 p.
Proof.
  intros Hp Hn st i st' v r E. destruct (Hp _ _ _ _ E) as [_ [H1 _]]. destruct (H1 I) as [E1 _].
  specialize (Hn _ _ _ _ _ E). rewrite E1, app_length. destruct (exact (sa v)); [congruence|]. cbn. lia.
Qed.
Lemma wr_char_consumes1 w c : consumes1 (wr w (char_p c)).
Proof.
  apply (consumes1_of_sound a_char). { apply wr_char_sound. }
  intros st i st' v r E. unfold a_char. rewrite exact_app. unfold exact at 2. cbn. destruct (exact (a_triv (triv v))); discriminate.
Qed.
Lemma consumes1_shrinks {A} (p : parser A) : consumes1 p -> shrinks p.
Proof. intros H st i st' v r E. apply H in E. lia. Qed.
Lemma shrinks_map {A B} (f : A -> B) p : shrinks p -> shrinks (map_p f p).
Proof. intros H st i st' v r E. unfold map_p in E. destruct (p st i) as [s [a r0| |x]] eqn:Ep; inversion E; subst. eapply H; eassumption. Qed.
Lemma shrinks_pair {A B} (p : parser A) (q : parser B) : shrinks p -> shrinks q -> shrinks (pair_p p q).
Proof.
  intros Hp Hq st i st' v r E. unfold pair_p in E. destruct (p st i) as [s [a r0| |x]] eqn:Ep; try discriminate.
  destruct (q s r0) as [t [b r1| |y]] eqn:Eq; inversion E; subst. apply Hp in Ep. apply Hq in Eq. lia.
Qed.
Lemma shrinks_alt {A} (p q : parser A) : shrinks p -> shrinks q -> shrinks (alt p q).
Proof.
  intros Hp Hq st i st' v r E. unfold alt in E. destruct (p st i) as [s [a r0| |x]] eqn:Ep.
  - inversion E; subst. eapply Hp; eassumption.
  - eapply Hq; eassumption.
  - discriminate.
Qed.
Lemma shrinks_alts_map {A T} (g : T -> parser A) table : (forall e, shrinks (g e)) -> shrinks (alts (map g table)).
Proof. intros H. induction table; cbn [map alts]; [intros st i st' v r E; discriminate|apply shrinks_alt; auto]. Qed.
Lemma shrinks_opt {A} (p : parser A) : shrinks p -> shrinks (opt p).
Proof.
  intros Hp st i st' v r E. unfold opt in E. destruct (p st i) as [s [a r0| |x]] eqn:Ep; inversion E; subst; [eapply Hp; eassumption|lia].
Qed.
Lemma shrinks_with_scope {A B} (p : parser A) (f : A -> nat -> B) : shrinks p -> shrinks (with_scope p f).
Proof. intros H st i st' v r E. unfold with_scope in E. destruct (p st i) as [s [a r0| |x]] eqn:Ep; cbn in E; inversion E; subst. eapply H; eassumption. Qed.
Lemma shrinks_wr {A} w (p : parser A) : shrinks p -> shrinks (wr w p).
Proof.
  intros Hp. assert (T1 : shrinks (opt trivia_p)) by (apply (shrinks_of_sound _ _ (opt_sound anyP _ _ (trivia_p_sound anyP)))).
  assert (T2 : shrinks (opt multiline_trivia)) by (apply (shrinks_of_sound _ _ (opt_sound anyP _ _ (multiline_trivia_sound anyP)))).
  destruct w; cbn [wr]; intros st i st' v r E.
  - unfold ws, with_trivia in E. destruct (opt trivia_p st i) as [s [t r0| |x]] eqn:Eo; try discriminate.
    destruct (p s r0) as [s2 [a r1| |y]] eqn:Ep; inversion E; subst. apply T1 in Eo. apply Hp in Ep. lia.
  - unfold mws, with_trivia in E. destruct (opt multiline_trivia st i) as [s [t r0| |x]] eqn:Eo; try discriminate.
    destruct (p s r0) as [s2 [a r1| |y]] eqn:Ep; inversion E; subst. apply T2 in Eo. apply Hp in Ep. lia.
  - unfold located_p in E. destruct (p st i) as [s2 [a r1| |y]] eqn:Ep; inversion E; subst. eapply Hp; eassumption.
Qed.
Lemma shrinks_terminal {A} (txt : A -> text) (p : parser A) : terminal txt p -> shrinks p.
Proof. intros T st i st' v r E. destruct (T _ _ _ _ E) as [_ [H _]]. rewrite H, app_length. lia. Qed.
Lemma sh_char c : shrinks (char_p c). Proof. apply (shrinks_terminal (fun c => [c])), satisfy_terminal. Qed.
Lemma sh_kw k : shrinks (keyword_p k). Proof. unfold keyword_p. apply shrinks_map, (shrinks_terminal (fun s => s)), tag_no_case_terminal. Qed.
Lemma sh_name : shrinks identifier_name. Proof. apply (shrinks_of_sound _ _ (identifier_name_sound anyP)). Qed.
Lemma sh_expr : shrinks expression. Proof. apply (shrinks_of_sound _ _ (expression_sound anyP)). Qed.

(* ---------------------------------------------------------------- block-bearing forms with two recursive parsers *)
Section StatementsH.
  Variables (n : nat) (ps ps' : parser token).
  Hypothesis Hsound : forall P, sound P a_token ps.
  Hypothesis Hrec : forall m, (m < n)%nat -> blindh m Rtok ps ps'.

  Lemma sh_block : shrinks (block ps). Proof. apply (shrinks_of_sound _ _ (block_sound ps Hsound anyP)). Qed.
  Lemma sh_opt_block : shrinks (opt (block ps)). Proof. apply shrinks_opt, sh_block. Qed.

  Lemma block_blindh : blindh n Rblk (block ps) (block ps').
  Proof.
    unfold block. eapply map_blindh.
    - apply pair_blindh_rec; [apply blindh_of_blind, wr_blind, char_blind|apply wr_char_consumes1|].
      intros m Hm. apply pair_blindh.
      + apply nested_blindh, many0_blindh.
        * apply alt_blindh; [apply Hrec; assumption|apply blindh_of_blind, error_impl_blind].
        * apply shrinks_alt; [apply (shrinks_of_sound _ _ (Hsound anyP))|apply (shrinks_of_sound _ _ (error_impl_sound anyP true))].
      + apply (shrinks_of_sound (fun l => concat (map a_token l))). apply nested_sound, many0_sound, alt_sound; [apply Hsound|apply error_impl_sound].
      + apply blindh_of_blind, expect_blind, wr_blind, char_blind.
    - intros [l [inner r]] [l' [inner' r']] [_ [H Hr]]. unfold Rblk. cbn in *. rewrite (tokens_rel _ _ H).
      destruct r, r'; cbn in *; try contradiction; reflexivity.
  Qed.
  Lemma opt_block_blindh : blindh n (ropt Rblk) (opt (block ps)) (opt (block ps')).
  Proof. apply opt_blindh, block_blindh. Qed.
  Lemma lift {A} (RA : A -> A -> Prop) p : blind2 RA p -> blindh n RA p p. Proof. apply blindh_of_blind. Qed.

  Lemma braces_blindh : blindh n Rtok (braces ps) (braces ps').
  Proof. unfold braces. eapply with_scope_blindh; [apply block_blindh|]. sc. Qed.
  Lemma label_blindh : blindh n Rtok (label ps) (label ps').
  Proof.
    unfold label. eapply map_blindh.
    - apply pair_blindh; [apply lift, wr_blind, identifier_name_blind|apply shrinks_wr, sh_name|].
      apply pair_blindh; [apply lift, wr_blind, char_blind|apply shrinks_wr, sh_char|apply opt_block_blindh].
    - sc.
  Qed.
  Lemma macro_definition_blindh : blindh n Rtok (macro_definition ps) (macro_definition ps').
  Proof.
    unfold macro_definition. eapply map_blindh.
    - apply pair_blindh; [apply lift, wr_blind, keyword_blind|apply shrinks_wr, sh_kw|].
      apply pair_blindh; [apply lift, wr_blind, identifier_name_blind|apply shrinks_wr, sh_name|].
      apply pair_blindh; [apply lift, wr_blind, char_blind|apply shrinks_wr, sh_char|].
      apply pair_blindh; [apply lift, opt_blind; unfold identifier_arg_list; apply arg_list_blind, identifier_name_blind| |].
      { apply shrinks_opt. apply (shrinks_of_sound _ _ (identifier_arg_list_sound anyP)). }
      apply pair_blindh; [apply lift, wr_blind, char_blind|apply shrinks_wr, sh_char|apply block_blindh].
    - intros [t [i [l [a [r b]]]]] [t' [i' [l' [a' [r' b']]]]] [_ [Hi [_ [Ha [_ Hb]]]]]. unfold Rtok, Rblk, Rloc in *. cbn in *.
      rewrite Hi, Hb. f_equal. f_equal. destruct a, a'; cbn in *; try contradiction; [apply idargs_rel; exact Ha|reflexivity].
  Qed.
  Lemma segment_blindh : blindh n Rtok (segment ps) (segment ps').
  Proof.
    unfold segment. eapply map_blindh.
    - apply pair_blindh; [apply lift, wr_blind, keyword_blind|apply shrinks_wr, sh_kw|].
      apply pair_blindh; [apply lift, expression_blind|apply sh_expr|apply opt_block_blindh].
    - sc.
  Qed.
  Lemma loop_blindh : blindh n Rtok (loop_ ps) (loop_ ps').
  Proof.
    unfold loop_. eapply with_scope_blindh.
    - apply pair_blindh; [apply lift, wr_blind, keyword_blind|apply shrinks_wr, sh_kw|].
      apply pair_blindh; [apply lift, expression_blind|apply sh_expr|apply block_blindh].
    - sc.
  Qed.
  Lemma if_blindh : blindh n Rtok (if_ ps) (if_ ps').
  Proof.
    unfold if_. eapply map_blindh.
    - apply pair_blindh; [apply lift, wr_blind, keyword_blind|apply shrinks_wr, sh_kw|].
      apply pair_blindh; [apply lift, expression_blind|apply sh_expr|].
      apply pair_blindh; [apply block_blindh|apply sh_block|]. apply opt_blindh.
      apply pair_blindh; [apply lift, wr_blind, keyword_blind|apply shrinks_wr, sh_kw|apply block_blindh].
    - sc.
  Qed.
  Lemma import_blindh : blindh n Rtok (import ps) (import ps').
  Proof.
    unfold import. eapply with_scope_blindh.
    - apply pair_blindh; [apply lift, wr_blind, keyword_blind|apply shrinks_wr, sh_kw|]. apply pair_blindh with (RA := Rimp).
      + apply lift. apply alt_blind.
        * eapply map_blind; [apply pair_blind; [apply wr_blind, char_blind|apply as_blind]|]. unfold Rimp, Ras. sc_pre; unfold sk_import_as, sx_opt; cbn; sc_fin.
        * eapply map_blind; [apply arg_list_blind, specific_arg_blind|]. intros l l' H. unfold Rimp. cbn. f_equal.
          eapply Forall2_map; [|exact H]. intros [a c] [b d] [H1 _]. exact H1.
      + apply shrinks_alt; apply shrinks_map.
        * apply shrinks_pair; [apply shrinks_wr, sh_char|]. apply (shrinks_of_sound _ _ (as_sound anyP)).
        * apply (shrinks_of_sound (a_args a_specific)). apply arg_list_sound. apply (specific_arg_sound notriv).
      + apply pair_blindh; [apply lift, wr_blind, keyword_blind|apply shrinks_wr, sh_kw|].
        apply pair_blindh; [apply lift, quoted_string_blind|apply (shrinks_of_sound _ _ (quoted_string_sound anyP))|apply opt_block_blindh].
    - unfold Rimp. sc.
  Qed.
  Lemma test_blindh : blindh n Rtok (test ps) (test ps').
  Proof.
    unfold test. eapply map_blindh.
    - apply pair_blindh; [apply lift, wr_blind, keyword_blind|apply shrinks_wr, sh_kw|].
      apply pair_blindh; [apply lift, expression_blind|apply sh_expr|apply block_blindh].
    - sc.
  Qed.
  Lemma statement_body_blindh : blindh n Rtok (statement_body ps) (statement_body ps').
  Proof.
    unfold statement_body. apply alts_map_blindh. intros k _. destruct k; cbn [stmt_parser].
    - apply braces_blindh.
    - apply label_blindh.
    - apply lift, instruction_blind.
    - apply lift, varconst_impl_blind.
    - apply lift, varconst_impl_blind.
    - apply lift, pc_definition_blind.
    - apply lift, config_definition_blind.
    - apply macro_definition_blindh.
    - apply lift, macro_invocation_blind.
    - apply lift, data_blind.
    - apply segment_blindh.
    - apply loop_blindh.
    - apply if_blindh.
    - apply lift, align_blind.
    - apply import_blindh.
    - apply lift, text_blind.
    - apply lift, file_blind.
    - apply test_blindh.
    - apply lift, assert_blind.
    - apply lift, trace_blind.
  Qed.
End StatementsH.

(* the statement parser gives related results whatever (sufficient) fuel it is run with *)
Lemma statement_fuel_blindh : forall n f f', (n < f)%nat -> (n < f')%nat -> blindh n Rtok (statement_fuel f) (statement_fuel f').
Proof.
  induction n as [n IH] using (well_founded_induction lt_wf). intros f f' Hf Hf'.
  destruct f as [|g]; [lia|]. destruct f' as [|g']; [lia|]. cbn [statement_fuel].
  intros st st' i i' Hs Hi Hl.
  apply (statement_body_blindh n (statement_fuel g) (statement_fuel g')); auto.
  - intros P. apply statement_fuel_sound.
  - intros m Hm. apply IH; lia.
Qed.

(* ---------------------------------------------------------------- leading trivia of a statement *)
(* tr is legal multi-line trivia in front of x: the multi-line trivia parser consumes exactly tr, in every state and at every position *)
Definition leading (tr x : text) : Prop :=
  forall st o, exists T r, opt multiline_trivia st (mkIn o (tr ++ x)) = (st, Ok T r) /\ rem r = x.

Definition lead2 {A} (n : nat) (RA : A -> A -> Prop) (p p' : parser A) : Prop :=
  forall tr tr' x st st' o o', leading tr x -> leading tr' x -> SR st st' -> (length x <= n)%nat ->
    RR RA (p st (mkIn o (tr ++ x))) (p' st' (mkIn o' (tr' ++ x))).
(* a head: additionally, what it leaves is not longer than x (strictly shorter when `strict`) *)
Definition leadhead {A} (strict : bool) (n : nat) (RA : A -> A -> Prop) (p : parser A) : Prop :=
  forall tr tr' x st st' o o', leading tr x -> leading tr' x -> SR st st' -> (length x <= n)%nat ->
    RR RA (p st (mkIn o (tr ++ x))) (p st' (mkIn o' (tr' ++ x))) /\
    (forall v r, snd (p st (mkIn o (tr ++ x))) = Ok v r -> if strict then (length (rem r) < length x)%nat else (length (rem r) <= length x)%nat).

Lemma mws_leadhead {A} n (RA : A -> A -> Prop) (q : parser A) : blind2 RA q -> shrinks q -> leadhead false n (Rloc RA) (wr W_mws q).
Proof.
  intros Hq Hs tr tr' x st st' o o' L L' HS Hn. cbn [wr]. unfold mws, with_trivia.
  destruct (L st o) as [T [r1 [E1 R1]]]. destruct (L' st' o') as [T' [r1' [E2 R2]]]. rewrite E1, E2.
  assert (Hr : rem r1 = rem r1') by congruence.
  pose proof (Hq st st' r1 r1' HS Hr) as H. unfold RR in *.
  destruct (q st r1) as [s [v r| |a]] eqn:Eq, (q st' r1') as [s' [v' r'| |a']];
    cbn in *; destruct H as [H1 H2]; try contradiction; (split; [split; auto|]); try (intros ? ? D; discriminate).
  intros v0 r0 D. inversion D; subst. apply Hs in Eq. exact Eq.
Qed.
Lemma mws_leadhead_strict {A} n (RA : A -> A -> Prop) (q : parser A) : blind2 RA q -> consumes1 q -> leadhead true n (Rloc RA) (wr W_mws q).
Proof.
  intros Hq Hs tr tr' x st st' o o' L L' HS Hn. cbn [wr]. unfold mws, with_trivia.
  destruct (L st o) as [T [r1 [E1 R1]]]. destruct (L' st' o') as [T' [r1' [E2 R2]]]. rewrite E1, E2.
  assert (Hr : rem r1 = rem r1') by congruence.
  pose proof (Hq st st' r1 r1' HS Hr) as H. unfold RR in *.
  destruct (q st r1) as [s [v r| |a]] eqn:Eq, (q st' r1') as [s' [v' r'| |a']];
    cbn in *; destruct H as [H1 H2]; try contradiction; (split; [split; auto|]); try (intros ? ? D; discriminate).
  intros v0 r0 D. inversion D; subst. apply Hs in Eq. exact Eq.
Qed.
Lemma leadhead_weaken {A} b n (RA RB : A -> A -> Prop) p : leadhead b n RA p -> (forall a a', RA a a' -> RB a a') -> leadhead b n RB p.
Proof.
  intros H W tr tr' x st st' o o' L L' HS Hn. destruct (H tr tr' x st st' o o' L L' HS Hn) as [H1 H2]. split; [|exact H2].
  unfold RR in *. destruct (p st _) as [s [v r| |a]], (p st' _) as [s' [v' r'| |a']]; cbn in *; destruct H1 as [A1 A2]; split; auto.
  destruct A2; split; auto.
Qed.
Lemma alt_leadhead {A} b n (RA : A -> A -> Prop) p q : leadhead b n RA p -> leadhead b n RA q -> leadhead b n RA (alt p q).
Proof.
  intros Hp Hq tr tr' x st st' o o' L L' HS Hn. destruct (Hp tr tr' x st st' o o' L L' HS Hn) as [H1 H2]. unfold alt. unfold RR in H1.
  destruct (p st (mkIn o (tr ++ x))) as [s [v r| |a]] eqn:E1, (p st' (mkIn o' (tr' ++ x))) as [s' [v' r'| |a']]; cbn in H1; destruct H1 as [A1 A2]; try contradiction.
  - split; [split; cbn; auto|]. intros v0 r0 D. apply (H2 v0 r0). exact D.
  - apply Hq; assumption.
  - split; [split; cbn; auto|]. intros v0 r0 D. discriminate.
Qed.
Lemma alts_map_leadhead {A T} b n (RA : A -> A -> Prop) (g : T -> parser A) table :
  (forall e, In e table -> leadhead b n RA (g e)) -> leadhead b n RA (alts (map g table)).
Proof.
  induction table as [|e t IH]; intros H; cbn [map alts].
  - intros tr tr' x st st' o o' L L' HS Hn. split; [split; cbn; auto|]. intros v r D. discriminate.
  - apply alt_leadhead; [apply H; left; reflexivity|apply IH; intros; apply H; right; assumption].
Qed.

Lemma pair_lead2 {A B} n (RA : A -> A -> Prop) (RB : B -> B -> Prop) p (t t' : parser B) :
  leadhead false n RA p -> blindh n RB t t' -> lead2 n (rpair RA RB) (pair_p p t) (pair_p p t').
Proof.
  intros Hp Ht tr tr' x st st' o o' L L' HS Hn. destruct (Hp tr tr' x st st' o o' L L' HS Hn) as [H1 H2]. unfold pair_p. unfold RR in H1.
  destruct (p st (mkIn o (tr ++ x))) as [s [v r| |a]] eqn:E1, (p st' (mkIn o' (tr' ++ x))) as [s' [v' r'| |a']]; cbn in H1; destruct H1 as [A1 A2]; try contradiction; try (split; cbn; auto; fail).
  destruct A2 as [Hv Hr]. specialize (H2 v r eq_refl). cbn in H2.
  assert (Hl : (length (rem r) <= n)%nat) by lia. specialize (Ht s s' r r' A1 Hr Hl). unfold RR in *.
  destruct (t s r) as [u [w z| |b]], (t' s' r') as [u' [w' z'| |b']]; cbn in *; destruct Ht as [H3 H4]; try contradiction; split; auto.
  all: try (destruct H4; split; [split; assumption|assumption]).
Qed.
Lemma pair_lead2_rec {A B} n (RA : A -> A -> Prop) (RB : B -> B -> Prop) p (t t' : parser B) :
  leadhead true n RA p -> (forall m, (m < n)%nat -> blindh m RB t t') -> lead2 n (rpair RA RB) (pair_p p t) (pair_p p t').
Proof.
  intros Hp Ht tr tr' x st st' o o' L L' HS Hn. destruct (Hp tr tr' x st st' o o' L L' HS Hn) as [H1 H2]. unfold pair_p. unfold RR in H1.
  destruct (p st (mkIn o (tr ++ x))) as [s [v r| |a]] eqn:E1, (p st' (mkIn o' (tr' ++ x))) as [s' [v' r'| |a']]; cbn in H1; destruct H1 as [A1 A2]; try contradiction; try (split; cbn; auto; fail).
  destruct A2 as [Hv Hr]. specialize (H2 v r eq_refl). cbn in H2.
  assert (Hm : (length (rem r) < n)%nat) by lia. specialize (Ht _ Hm s s' r r' A1 Hr (le_n _)). unfold RR in *.
  destruct (t s r) as [u [w z| |b]], (t' s' r') as [u' [w' z'| |b']]; cbn in *; destruct Ht as [H3 H4]; try contradiction; split; auto.
  all: try (destruct H4; split; [split; assumption|assumption]).
Qed.
Lemma map_lead2 {A B} n (RA : A -> A -> Prop) (RB : B -> B -> Prop) (f : A -> B) p p' :
  lead2 n RA p p' -> (forall a a', RA a a' -> RB (f a) (f a')) -> lead2 n RB (map_p f p) (map_p f p').
Proof.
  intros H W tr tr' x st st' o o' L L' HS Hn. specialize (H tr tr' x st st' o o' L L' HS Hn). unfold map_p, RR in *.
  destruct (p st _) as [s [v r| |a]], (p' st' _) as [s' [v' r'| |a']]; cbn in *; destruct H as [H1 H2]; try contradiction; split; auto.
  all: try (destruct H2; split; auto).
Qed.
Lemma alt_lead2 {A} n (RA : A -> A -> Prop) p p' q q' : lead2 n RA p p' -> lead2 n RA q q' -> lead2 n RA (alt p q) (alt p' q').
Proof.
  intros Hp Hq tr tr' x st st' o o' L L' HS Hn. specialize (Hp tr tr' x st st' o o' L L' HS Hn). unfold alt, RR in *.
  destruct (p st _) as [s [v r| |a]], (p' st' _) as [s' [v' r'| |a']]; cbn in *; destruct Hp as [H1 H2]; try contradiction; try (split; auto; fail);
    try (apply Hq; assumption).
Qed.
Lemma alts_map_lead2 {A T} n (RA : A -> A -> Prop) (g g' : T -> parser A) table :
  (forall e, In e table -> lead2 n RA (g e) (g' e)) -> lead2 n RA (alts (map g table)) (alts (map g' table)).
Proof.
  induction table as [|e t IH]; intros H; cbn [map alts]; [intros tr tr' x st st' o o' L L' HS Hn; split; cbn; auto|].
  apply alt_lead2; [apply H; left; reflexivity|apply IH; intros; apply H; right; assumption].
Qed.
Lemma with_scope_lead2 {A B} n (RA : A -> A -> Prop) (RB : B -> B -> Prop) p p' (f : A -> nat -> B) :
  lead2 n RA p p' -> (forall a a' k, RA a a' -> RB (f a k) (f a' k)) -> lead2 n RB (with_scope p f) (with_scope p' f).
Proof.
  intros Hp W tr tr' x st st' o o' L L' HS Hn. specialize (Hp tr tr' x st st' o o' L L' HS Hn). unfold with_scope, RR in *.
  destruct (p st _) as [s [v r| |a]], (p' st' _) as [s' [v' r'| |a']]; cbn in *; destruct Hp as [H1 H2]; try contradiction; try (split; auto; fail).
  destruct H1 as [A1 [B1 [C D]]]. destruct H2 as [Hv Hr]. rewrite B1. split; [repeat split; cbn; auto|]. split; [apply W; assumption|assumption].
Qed.

Section Leading.
  Variables (n : nat) (ps ps' : parser token).
  Hypothesis Hsound : forall P, sound P a_token ps.
  Hypothesis Hrec : forall m, (m < n)%nat -> blindh m Rtok ps ps'.

  Lemma hd {A} (RA : A -> A -> Prop) (q : parser A) : blind2 RA q -> shrinks q -> leadhead false n (Rloc RA) (wr W_mws q).
  Proof. apply mws_leadhead. Qed.
  Lemma hd_kw k : leadhead false n (Rloc eq) (wr W_mws (keyword_p k)).
  Proof. apply hd; [apply keyword_blind|apply sh_kw]. Qed.
  Lemma tl {A} (RA : A -> A -> Prop) p : blind2 RA p -> blindh n RA p p. Proof. apply blindh_of_blind. Qed.

  Lemma block_lead2 : lead2 n Rblk (block ps) (block ps').
  Proof.
    unfold block. change (slot W_block 0) with W_mws. eapply map_lead2.
    - apply pair_lead2_rec; [apply mws_leadhead_strict; [apply char_blind|]|].
      { apply (consumes1_of_sound (fun c => [AText None [c]])); [apply char_sound|]. intros; unfold exact; cbn; discriminate. }
      intros m Hm. apply pair_blindh.
      + apply nested_blindh, many0_blindh.
        * apply alt_blindh; [apply Hrec; assumption|apply blindh_of_blind, error_impl_blind].
        * apply shrinks_alt; [apply (shrinks_of_sound _ _ (Hsound anyP))|apply (shrinks_of_sound _ _ (error_impl_sound anyP true))].
      + apply (shrinks_of_sound (fun l => concat (map a_token l))). apply nested_sound, many0_sound, alt_sound; [apply Hsound|apply error_impl_sound].
      + apply blindh_of_blind, expect_blind, wr_blind, char_blind.
    - intros [l [inner r]] [l' [inner' r']] [_ [H Hr]]. unfold Rblk. cbn in *. rewrite (tokens_rel _ _ H).
      destruct r, r'; cbn in *; try contradiction; reflexivity.
  Qed.
  Lemma braces_lead2 : lead2 n Rtok (braces ps) (braces ps').
  Proof. unfold braces. eapply with_scope_lead2; [apply block_lead2|]. sc. Qed.
  Lemma label_lead2 : lead2 n Rtok (label ps) (label ps').
  Proof.
    unfold label. change (slot W_label 0) with W_mws. eapply map_lead2.
    - apply pair_lead2; [apply hd; [apply identifier_name_blind|apply sh_name]|].
      apply pair_blindh; [apply tl, wr_blind, char_blind|apply shrinks_wr, sh_char|apply (opt_block_blindh n ps ps' Hsound Hrec)].
    - sc.
  Qed.
  Lemma instruction_lead2 : lead2 n Rtok instruction instruction.
  Proof.
    unfold instruction. change (slot W_instruction 0) with W_mws. change (slot W_instruction 1) with W_mws. apply alt_lead2.
    - eapply map_lead2; [apply pair_lead2; [apply hd; [apply mnemonic_of_blind|]|apply tl, expect_blind, operand_blind]|sc].
      unfold mnemonic_of. apply shrinks_alts_map. intros e. apply sh_kw.
    - eapply map_lead2; [apply pair_lead2; [apply hd; [apply mnemonic_of_blind|]|apply tl; eapply expect_blind, not_blind, operand_blind]|sc].
      unfold mnemonic_of. apply shrinks_alts_map. intros e. apply sh_kw.
  Qed.
  Lemma sh_tagged {V} (table : list (text * V)) : shrinks (tagged table).
  Proof. unfold tagged. apply shrinks_alts_map. intros e. apply shrinks_map, (shrinks_terminal (fun s => s)), tag_no_case_terminal. Qed.
  Lemma varconst_impl_lead2 k : lead2 n Rtok (varconst_impl k) (varconst_impl k).
  Proof.
    unfold varconst_impl. change (slot W_varconst_impl 0) with W_mws. eapply map_lead2.
    - apply pair_lead2; [apply hd; [apply tagged_blind|apply sh_tagged]|]. apply tl.
      apply pair_blind; [apply wr_blind, identifier_name_blind|]. apply pair_blind; [apply wr_blind, char_blind|apply expression_blind].
    - sc.
  Qed.
  Lemma pc_definition_lead2 : lead2 n Rtok pc_definition pc_definition.
  Proof.
    unfold pc_definition. change (slot W_pc_definition 0) with W_mws. eapply map_lead2.
    - apply pair_lead2; [apply hd; [apply char_blind|apply sh_char]|]. apply tl. apply pair_blind; [apply wr_blind, char_blind|apply expression_blind].
    - sc.
  Qed.
  Lemma config_definition_lead2 : lead2 n Rtok config_definition config_definition.
  Proof.
    unfold config_definition. change (slot W_config_definition 0) with W_mws. eapply map_lead2.
    - apply pair_lead2; [apply hd_kw|]. apply tl. apply pair_blind; [apply wr_blind, identifier_name_blind|apply expect_blind, config_map_blind].
    - sc.
  Qed.
  Lemma macro_definition_lead2 : lead2 n Rtok (macro_definition ps) (macro_definition ps').
  Proof.
    unfold macro_definition. change (slot W_macro_definition 0) with W_mws. eapply map_lead2.
    - apply pair_lead2; [apply hd_kw|].
      apply pair_blindh; [apply tl, wr_blind, identifier_name_blind|apply shrinks_wr, sh_name|].
      apply pair_blindh; [apply tl, wr_blind, char_blind|apply shrinks_wr, sh_char|].
      apply pair_blindh; [apply tl, opt_blind; unfold identifier_arg_list; apply arg_list_blind, identifier_name_blind| |].
      { apply shrinks_opt. apply (shrinks_of_sound _ _ (identifier_arg_list_sound anyP)). }
      apply pair_blindh; [apply tl, wr_blind, char_blind|apply shrinks_wr, sh_char|apply (block_blindh n ps ps' Hsound Hrec)].
    - intros [t [i [l [a [r b]]]]] [t' [i' [l' [a' [r' b']]]]] [_ [Hi [_ [Ha [_ Hb]]]]]. unfold Rtok, Rblk, Rloc in *. cbn in *.
      rewrite Hi, Hb. f_equal. f_equal. destruct a, a'; cbn in *; try contradiction; [apply idargs_rel; exact Ha|reflexivity].
  Qed.
  Lemma macro_invocation_lead2 : lead2 n Rtok macro_invocation macro_invocation.
  Proof.
    unfold macro_invocation, fn_call_parts. change (slot W_fn_call_impl 1) with W_mws. eapply map_lead2.
    - apply pair_lead2; [apply hd; [apply identifier_name_blind|apply sh_name]|]. apply tl.
      apply pair_blind with (RA := Rany); [eapply blind2_weaken; [apply wr_blind, char_blind|intros; exact I]|].
      apply pair_blind with (RB := Rany); [apply opt_blind, nested_blind, expression_arg_list_blind, expression_blind|].
      eapply blind2_weaken; [apply wr_blind, char_blind|intros; exact I].
    - sc.
  Qed.
  Lemma data_lead2 : lead2 n Rtok data_ data_.
  Proof.
    unfold data_. eapply map_lead2.
    - apply pair_lead2; [|apply tl, expect_blind, expression_args_blind].
      apply alts_map_leadhead. intros [k e] He. cbn [fst snd].
      assert (Hk : slot W_data k = W_mws).
      { apply in_combine_l in He. cbn in He. repeat (destruct He as [<-|He]; [reflexivity|]). destruct He. }
      rewrite Hk. apply hd; [apply tagged_blind|apply sh_tagged].
    - sc.
  Qed.
  Lemma segment_lead2 : lead2 n Rtok (segment ps) (segment ps').
  Proof.
    unfold segment. change (slot W_segment 0) with W_mws. eapply map_lead2.
    - apply pair_lead2; [apply hd_kw|]. apply pair_blindh; [apply tl, expression_blind|apply sh_expr|apply (opt_block_blindh n ps ps' Hsound Hrec)].
    - sc.
  Qed.
  Lemma loop_lead2 : lead2 n Rtok (loop_ ps) (loop_ ps').
  Proof.
    unfold loop_. change (slot W_loop_ 0) with W_mws. eapply with_scope_lead2.
    - apply pair_lead2; [apply hd_kw|]. apply pair_blindh; [apply tl, expression_blind|apply sh_expr|apply (block_blindh n ps ps' Hsound Hrec)].
    - sc.
  Qed.
  Lemma if_lead2 : lead2 n Rtok (if_ ps) (if_ ps').
  Proof.
    unfold if_. change (slot W_if_ 0) with W_mws. eapply map_lead2.
    - apply pair_lead2; [apply hd_kw|]. apply pair_blindh; [apply tl, expression_blind|apply sh_expr|].
      apply pair_blindh; [apply (block_blindh n ps ps' Hsound Hrec)|apply sh_block; assumption|]. apply opt_blindh.
      apply pair_blindh; [apply tl, wr_blind, keyword_blind|apply shrinks_wr, sh_kw|apply (block_blindh n ps ps' Hsound Hrec)].
    - sc.
  Qed.
  Lemma align_lead2 : lead2 n Rtok align align.
  Proof.
    unfold align. change (slot W_align 0) with W_mws. eapply map_lead2; [apply pair_lead2; [apply hd_kw|apply tl, expression_blind]|sc].
  Qed.
  Lemma import_lead2 : lead2 n Rtok (import ps) (import ps').
  Proof.
    unfold import. change (slot W_import 1) with W_mws. eapply with_scope_lead2.
    - apply pair_lead2; [apply hd_kw|]. apply pair_blindh with (RA := Rimp).
      + apply tl. apply alt_blind.
        * eapply map_blind; [apply pair_blind; [apply wr_blind, char_blind|apply as_blind]|]. unfold Rimp, Ras. sc_pre; unfold sk_import_as, sx_opt; cbn; sc_fin.
        * eapply map_blind; [apply arg_list_blind, (specific_arg_blind)|]. intros l l' H. unfold Rimp. cbn. f_equal.
          eapply Forall2_map; [|exact H]. intros [a c] [b d] [H1 _]. exact H1.
      + apply shrinks_alt; apply shrinks_map.
        * apply shrinks_pair; [apply shrinks_wr, sh_char|]. apply (shrinks_of_sound _ _ (as_sound anyP)).
        * apply (shrinks_of_sound (a_args a_specific)). apply arg_list_sound. apply (specific_arg_sound notriv).
      + apply pair_blindh; [apply tl, wr_blind, keyword_blind|apply shrinks_wr, sh_kw|].
        apply pair_blindh; [apply tl, quoted_string_blind|apply (shrinks_of_sound _ _ (quoted_string_sound anyP))|apply (opt_block_blindh n ps ps' Hsound Hrec)].
    - unfold Rimp. sc.
  Qed.
  Lemma text_lead2 : lead2 n Rtok text_ text_.
  Proof.
    unfold text_. change (slot W_text 0) with W_mws. eapply map_lead2.
    - apply pair_lead2; [apply hd_kw|]. apply tl.
      apply alt_blind with (RA := rpair (ropt (Rloc eq)) (Rloc Rexp)).
      + eapply map_blind; [apply pair_blind; [apply wr_blind, tagged_blind|apply expression_blind]|]. sc.
      + eapply map_blind; [apply expression_blind|]. sc.
    - sc.
  Qed.
  Lemma file_lead2 : lead2 n Rtok file file.
  Proof. unfold file. change (slot W_file 0) with W_mws. eapply map_lead2; [apply pair_lead2; [apply hd_kw|apply tl, interpolated_string_blind]|sc]. Qed.
  Lemma test_lead2 : lead2 n Rtok (test ps) (test ps').
  Proof.
    unfold test. change (slot W_test 0) with W_mws. eapply map_lead2.
    - apply pair_lead2; [apply hd_kw|]. apply pair_blindh; [apply tl, expression_blind|apply sh_expr|apply (block_blindh n ps ps' Hsound Hrec)].
    - sc.
  Qed.
  Lemma assert_lead2 : lead2 n Rtok assert assert.
  Proof.
    unfold assert. change (slot W_assert 0) with W_mws. eapply map_lead2.
    - apply pair_lead2; [apply hd_kw|]. apply tl. apply pair_blind; [apply expression_blind|apply opt_blind, interpolated_string_blind].
    - sc.
  Qed.
  Lemma trace_lead2 : lead2 n Rtok trace trace.
  Proof.
    unfold trace. change (slot W_trace 0) with W_mws. eapply map_lead2.
    - apply pair_lead2; [apply hd_kw|]. apply tl. apply opt_blind.
      apply pair_blind; [apply wr_blind, char_blind|]. apply pair_blind; [apply opt_blind, expression_args_blind|apply wr_blind, char_blind].
    - sc.
  Qed.

  Lemma statement_body_lead2 : lead2 n Rtok (statement_body ps) (statement_body ps').
  Proof.
    unfold statement_body. apply alts_map_lead2. intros k _. destruct k; cbn [stmt_parser].
    - apply braces_lead2.
    - apply label_lead2.
    - apply instruction_lead2.
    - apply varconst_impl_lead2.
    - apply varconst_impl_lead2.
    - apply pc_definition_lead2.
    - apply config_definition_lead2.
    - apply macro_definition_lead2.
    - apply macro_invocation_lead2.
    - apply data_lead2.
    - apply segment_lead2.
    - apply loop_lead2.
    - apply if_lead2.
    - apply align_lead2.
    - apply import_lead2.
    - apply text_lead2.
    - apply file_lead2.
    - apply test_lead2.
    - apply assert_lead2.
    - apply trace_lead2.
  Qed.
End Leading.

Lemma error_lead2 n b : lead2 n Rtok (error_impl b) (error_impl b).
Proof.
  intros tr tr' x st st' o o' L L' HS Hn. unfold error_impl. change (slot W_error_impl 0) with W_mws.
  set (q := recognize (alt (recognize (pair_p (one_of error_lead) (take_till (error_stop_p b)))) (take_till1 (error_stop_p b)))).
  assert (Hq : blind2 eq q).
  { unfold q. eapply recognize_blind. apply alt_blind.
    - eapply recognize_blind. apply pair_blind; apply textual_blind; [apply satisfy_textual|apply take_while0_textual].
    - apply textual_blind, take_while1_textual. }
  assert (Hs : shrinks q).
  { apply (shrinks_of_sound (fun s => [AText None s])). unfold q. eapply recognize_sound. apply alt_sound.
    - eapply recognize_sound. apply pair_sound; apply terminal_sound; [apply satisfy_terminal|apply take_while0_terminal].
    - apply terminal_sound, take_while1_terminal. }
  destruct (mws_leadhead n eq q Hq Hs tr tr' x st st' o o' L L' HS Hn) as [H _]. unfold RR in *.
  destruct (wr W_mws q st _) as [s [l r| |a]], (wr W_mws q st' _) as [s' [l' r'| |a']]; cbn in *; destruct H as [H1 H2]; try contradiction; try (split; auto; fail).
  destruct H2 as [Hl Hr]. unfold Rloc in Hl. split; [apply SR_report; [assumption|cbn; rewrite Hl; reflexivity]|].
  split; [unfold Rtok; cbn; rewrite Hl; reflexivity|assumption].
Qed.

(* Any two legal leading trivia in front of the same text: `statement` (and `statement | error`, one step of the
   top-level loop) ends in related states -- same diagnostics KINDS, same ignore flag, scope counter, nesting -- with
   results of equal skeleton and the same remaining text. *)
Theorem statement_leading : forall tr tr' x st st' o o', leading tr x -> leading tr' x -> SR st st' ->
  RR Rtok (statement st (mkIn o (tr ++ x))) (statement st' (mkIn o' (tr' ++ x))).
Proof.
  intros tr tr' x st st' o o' L L' HS. unfold statement. cbn [rem statement_fuel].
  apply (statement_body_lead2 (length x)); auto.
  - intros P. apply statement_fuel_sound.
  - intros m Hm. apply statement_fuel_blindh; rewrite app_length; lia.
Qed.
Theorem statement_or_error_leading : forall tr tr' x st st' o o', leading tr x -> leading tr' x -> SR st st' ->
  RR Rtok (alt statement error st (mkIn o (tr ++ x))) (alt statement error st' (mkIn o' (tr' ++ x))).
Proof.
  intros tr tr' x st st' o o' L L' HS. pose proof (statement_leading tr tr' x st st' o o' L L' HS) as H. unfold alt. unfold RR in H.
  destruct (statement st _) as [s [v r| |a]], (statement st' _) as [s' [v' r'| |a']]; cbn in H; destruct H as [H1 H2]; try contradiction; try (split; cbn; auto; fail).
  apply (error_lead2 (length x)); auto.
Qed.
Print Assumptions statement_leading.

Theorem layout_leading_both : forall tr tr' x st st' o o', leading tr x -> leading tr' x -> SR st st' ->
  RR Rtok (statement st (mkIn o (tr ++ x))) (statement st' (mkIn o' (tr' ++ x))) /\
  RR Rtok (alt statement error st (mkIn o (tr ++ x))) (alt statement error st' (mkIn o' (tr' ++ x))).
Proof. intros. split; [apply statement_leading|apply statement_or_error_leading]; assumption. Qed.

(* Proofs for C20 (shutdown is clean in every session state) over model/Life.v.
   The model is finite: the statements are decided by exploring every path from every initial state with vm_compute
   (a boolean checker) and lifted to Prop by the soundness lemma below. *)
From Coq Require Import List Bool Arith Lia.
Import ListNotations.
From Mos Require Import model.Life.

Inductive reachable (v : variant) : state -> state -> Prop :=
  | reach_refl : forall s, reachable v s s
  | reach_step : forall s s' s'', reachable v s s' -> In s'' (step v s') -> reachable v s s''.

(* every maximal path from s has at most k steps and ends in a state satisfying goal *)
Inductive inev (v : variant) (goal : state -> bool) : nat -> state -> Prop :=
  | inev_here : forall k s, step v s = [] -> goal s = true -> inev v goal (S k) s
  | inev_next : forall k s, step v s <> [] -> (forall s', In s' (step v s) -> inev v goal k s') -> inev v goal (S k) s.

Fixpoint all_paths_to (v : variant) (goal : state -> bool) (fuel : nat) (s : state) : bool :=
  match fuel with
  | O => false
  | S f => match step v s with
           | [] => goal s
           | l => forallb (all_paths_to v goal f) l
           end
  end.

Lemma all_paths_to_S : forall v goal f s,
  all_paths_to v goal (S f) s = match step v s with [] => goal s | l => forallb (all_paths_to v goal f) l end.
Proof. reflexivity. Qed.

Lemma all_paths_to_sound : forall v goal k s, all_paths_to v goal k s = true -> inev v goal k s.
Proof.
  induction k as [|k IH]; intros s H; [discriminate|].
  rewrite all_paths_to_S in H.
  destruct (step v s) as [|x l] eqn:E.
  - apply inev_here; assumption.
  - apply inev_next; [rewrite E; discriminate|]. intros s' Hin. apply IH.
    rewrite E in Hin. rewrite forallb_forall in H. apply H. assumption.
Qed.

Lemma inev_mono : forall v goal k s, inev v goal k s -> inev v goal (S k) s.
Proof.
  induction 1.
  - apply inev_here; assumption.
  - apply inev_next; assumption.
Qed.

(* the property is inherited by everything reachable *)
Lemma inev_reachable : forall v goal k s, inev v goal k s -> forall s', reachable v s s' -> inev v goal k s'.
Proof.
  intros v goal k s H s' R. induction R as [|s s1 s2 R IH Hin]; [assumption|].
  specialize (IH H). inversion IH; subst.
  - rewrite H0 in Hin. contradiction.
  - apply inev_mono. apply H1. assumption.
Qed.

Lemma inev_terminal : forall v goal k s, inev v goal k s -> step v s = [] -> goal s = true.
Proof. intros v goal k s H E. inversion H; subst; [assumption | contradiction]. Qed.

(* no path of more than k steps *)
Inductive path (v : variant) : nat -> state -> state -> Prop :=
  | path_nil : forall s, path v 0 s s
  | path_cons : forall n s s' s'', In s' (step v s) -> path v n s' s'' -> path v (S n) s s''.
Lemma inev_bounds_paths : forall v goal k s, inev v goal k s -> forall n s', path v n s s' -> n < k.
Proof.
  intros v goal k s H. induction H; intros n s' P.
  - inversion P; subst; [lia|]. rewrite H in H1. contradiction.
  - inversion P; subst; [lia|]. specialize (H1 _ H2 _ _ H3). lia.
Qed.

Definition depth_bound : nat := 40.

Definition exits_with (c : nat) (s : state) : bool :=
  match st_main s with MExited c' => Nat.eqb c' c | _ => false end.
Definition hung (s : state) : bool := negb (exited s).

(* ------------------------------------------------------------------ the repaired code *)
Lemma repaired_check : forallb (all_paths_to v_repaired clean_exit depth_bound) all_initial = true.
Proof. vm_compute. reflexivity. Qed.

Theorem exit_clean_repaired : forall s0, In s0 all_initial ->
  forall s, reachable v_repaired s0 s -> inev v_repaired clean_exit depth_bound s.
Proof.
  intros s0 Hin s R. eapply inev_reachable; [|eassumption].
  apply all_paths_to_sound. pose proof repaired_check as C. rewrite forallb_forall in C. apply C. assumption.
Qed.

Lemma expect_constant : forall v s s', In s' (step v s) -> st_expect s' = st_expect s.
Proof.
  intros v s s' H. unfold step in H. destruct (exited s); [contradiction|].
  repeat (apply in_app_or in H; destruct H as [H|H]).
  - unfold env_steps in H. destruct (st_script s) as [|a t]; [contradiction|]. destruct a; destruct H as [<-|[]]; reflexivity.
  - unfold main_steps in H.
    destruct (st_main s); repeat (match type of H with
      | In _ (if ?c then _ else _) => destruct c
      | In _ (match ?x with _ => _ end) => destruct x
      | In _ (_ ++ _) => apply in_app_or in H; destruct H as [H|H]
      | In _ (_ :: _) => destruct H as [<-|H]
      | In _ [] => contradiction
      end; try reflexivity); try contradiction;
      unfold invoke_or_block, invoke_shutdown_handlers, set_main; cbn;
      repeat (match goal with |- context [if ?c then _ else _] => destruct c end); reflexivity.
  - unfold writer_steps in H. repeat (match type of H with
      | In _ (if ?c then _ else _) => destruct c
      | In _ (_ :: _) => destruct H as [<-|H]
      | In _ [] => contradiction end; try reflexivity).
  - unfold dbg_steps in H.
    destruct (st_dbg s); repeat (match type of H with
      | In _ (if ?c then _ else _) => destruct c
      | In _ (match ?x with _ => _ end) => destruct x
      | In _ (_ ++ _) => apply in_app_or in H; destruct H as [H|H]
      | In _ (_ :: _) => destruct H as [<-|H]
      | In _ [] => contradiction
      end; try reflexivity); try contradiction.
Qed.

Lemma expect_reachable : forall v s s', reachable v s s' -> st_expect s' = st_expect s.
Proof. induction 1; [reflexivity|]. rewrite (expect_constant _ _ _ H0). assumption. Qed.

Lemma initial_expect : forall s0, In s0 all_initial -> st_expect s0 = spec_exit_code (st_script s0).
Proof.
  intros s0 H. unfold all_initial in H. apply in_app_or in H as [H|H]; [|apply in_app_or in H as [H|H]].
  - unfold live_initial in H. apply in_flat_map in H as [sm [_ H]]. apply in_map_iff in H as [sc [<- _]]. reflexivity.
  - apply in_map_iff in H as [sc [<- _]]. reflexivity.
  - apply in_map_iff in H as [sc [<- _]]. reflexivity.
Qed.

Theorem no_hang_no_wrong_status : forall s0, In s0 all_initial -> forall s, reachable v_repaired s0 s ->
  (step v_repaired s = [] -> st_main s = MExited (spec_exit_code (st_script s0))) /\
  (forall n s', path v_repaired n s s' -> n < depth_bound).
Proof.
  intros s0 Hin s R. pose proof (exit_clean_repaired s0 Hin s R) as I. split.
  - intro E. pose proof (inev_terminal _ _ _ _ I E) as C. unfold clean_exit in C.
    destruct (st_main s); try discriminate. apply Nat.eqb_eq in C. subst.
    rewrite (expect_reachable _ _ _ R), (initial_expect _ Hin). reflexivity.
  - intros n s' P. eapply inev_bounds_paths; eassumption.
Qed.

(* ------------------------------------------------------------------ the pinned code: every run that should exit 0 panics *)
Definition wants_zero : list state := filter (fun s => Nat.eqb (st_expect s) 0) all_initial.

Lemma pinned_check : forallb (all_paths_to v_pinned (exits_with 101) depth_bound) wants_zero = true.
Proof. vm_compute. reflexivity. Qed.

Theorem pinned_always_panics : forall s0, In s0 all_initial -> st_expect s0 = 0 ->
  inev v_pinned (exits_with 101) depth_bound s0.
Proof.
  intros s0 Hin E. apply all_paths_to_sound. pose proof pinned_check as C. rewrite forallb_forall in C. apply C.
  unfold wants_zero. apply filter_In. split; [assumption|]. rewrite E. reflexivity.
Qed.

Lemma wants_zero_nonempty : exists s0, In s0 all_initial /\ st_expect s0 = 0.
Proof. exists (initial false MachNone [LspShutdown; LspExit]). split; [vm_compute; tauto | reflexivity]. Qed.

(* ------------------------------------------------------------------ partial repairs *)
(* only the unwrap replaced: every run that should exit 0 hangs (main blocked in IoThreads::join: a Sender is alive) *)
Definition wants_zero_live : list state := filter (fun s => Nat.eqb (st_expect s) 0) live_initial.
Lemma take_only_check : forallb (all_paths_to v_take_only hung depth_bound) wants_zero_live = true.
Proof. vm_compute. reflexivity. Qed.
(* + the sender dropped first: in every scenario some run still fails -- it hangs in DebugServer::join while the thread
   is in accept() or has gone back into it (flag set only in join), or the signalled session panics the debug thread *)
Definition bad (v : variant) (s : state) : bool :=
  negb (clean_exit s) && match step v s with [] => true | _ => false end.

Fixpoint some_path_to (v : variant) (goal : state -> bool) (fuel : nat) (s : state) : bool :=
  match fuel with
  | O => false
  | S f => goal s || existsb (some_path_to v goal f) (step v s)
  end.
Lemma some_path_to_sound : forall v goal k s, some_path_to v goal k s = true -> exists s', reachable v s s' /\ goal s' = true.
Proof.
  induction k as [|k IH]; intros s H; [discriminate|].
  change (goal s || existsb (some_path_to v goal k) (step v s) = true) in H.
  apply orb_true_iff in H as [H|H].
  - exists s. split; [apply reach_refl | assumption].
  - apply existsb_exists in H as [s1 [Hin H1]]. destruct (IH _ H1) as [s' [R G]]. exists s'. split; [|assumption].
    clear - Hin R. induction R.
    + eapply reach_step; [apply reach_refl | assumption].
    + eapply reach_step; [apply IHR; assumption | assumption].
Qed.

Lemma take_drop_check : forallb (some_path_to v_take_drop (bad v_take_drop) depth_bound) wants_zero_live = true.
Proof. vm_compute. reflexivity. Qed.

Theorem unwrap_fix_alone_hangs : forall s0, In s0 live_initial -> st_expect s0 = 0 ->
  inev v_take_only hung depth_bound s0 /\
  exists s', reachable v_take_drop s0 s' /\ step v_take_drop s' = [] /\ clean_exit s' = false.
Proof.
  intros s0 Hin E.
  assert (W : In s0 wants_zero_live) by (unfold wants_zero_live; apply filter_In; split; [assumption | rewrite E; reflexivity]).
  split.
  - apply all_paths_to_sound. pose proof take_only_check as C. rewrite forallb_forall in C. apply C. assumption.
  - pose proof take_drop_check as C. rewrite forallb_forall in C. specialize (C _ W).
    destruct (some_path_to_sound _ _ _ _ C) as [s' [R B]]. exists s'. split; [assumption|].
    unfold bad in B. apply andb_true_iff in B as [B1 B2]. split.
    + destruct (step v_take_drop s'); [reflexivity | discriminate].
    + apply negb_true_iff. assumption.
Qed.

(* + join wakes the thread, but the select's shutdown arm drops its SelectedOperation: with a debugger attached the
   debug thread panics and DebugServer::join's expect() takes the process down with 101 *)
Theorem select_arm_panics : exists s', reachable v_take_drop_wake (initial true MachNone [LspShutdown; LspExit]) s' /\ exits_with 101 s' = true.
Proof. apply (some_path_to_sound _ _ depth_bound). vm_compute. reflexivity. Qed.

(* the first repair (051876a) still ended with 101 when the debug thread had already died by a panic, and -- when it had
   died holding the context lock -- at the first LSP message after that *)
Lemma first_repair_dead_check :
  forallb (all_paths_to v_first_repair (exits_with 101) depth_bound)
          (filter (fun s => Nat.eqb (st_expect s) 0) (map (initial_dead false) all_scripts ++ map (initial_dead true) all_scripts)) = true.
Proof. vm_compute. reflexivity. Qed.
Theorem first_repair_dead_thread_panics : forall poisoned script, In script all_scripts -> spec_exit_code script = 0 ->
  inev v_first_repair (exits_with 101) depth_bound (initial_dead poisoned script).
Proof.
  intros poisoned script Hin E. apply all_paths_to_sound. pose proof first_repair_dead_check as C. rewrite forallb_forall in C. apply C.
  apply filter_In. split.
  - apply in_or_app. destruct poisoned; [right | left]; apply in_map; assumption.
  - cbn. rewrite E. reflexivity.
Qed.
(* and with the dead thread tolerated but the poisoned lock not recovered, the poisoned state still panics *)
Theorem poison_needs_recovery : forall script, In script all_scripts -> spec_exit_code script = 0 ->
  inev (mkVariant false true true true false true false false) (exits_with 101) depth_bound (initial_dead true script).
Proof.
  intros script Hin E. apply all_paths_to_sound.
  assert (C : forallb (all_paths_to (mkVariant false true true true false true false false) (exits_with 101) depth_bound)
                      (filter (fun s => Nat.eqb (st_expect s) 0) (map (initial_dead true) all_scripts)) = true) by (vm_compute; reflexivity).
  rewrite forallb_forall in C. apply C. apply filter_In. split; [apply in_map; assumption | cbn; rewrite E; reflexivity].
Qed.

(* a handler registered before the blocking accept does not help on its own: the signal is only seen after accept returns *)
Theorem register_first_not_enough :
  inev v_register_first hung depth_bound (initial false MachNone [LspShutdown; LspExit]) /\
  inev v_register_first hung depth_bound (initial false MachNone [LspClose]).
Proof. split; apply all_paths_to_sound; vm_compute; reflexivity. Qed.

Theorem spec_exit_code_examples :
  spec_exit_code [LspShutdown; LspExit] = 0 /\ spec_exit_code [LspClose] = 0 /\ spec_exit_code [DapDisconnect; LspShutdown; LspExit] = 0 /\
  spec_exit_code [LspShutdown; DapDisconnect; LspExit] = 0 /\ spec_exit_code [LspShutdown; LspClose] = 1 /\ spec_exit_code [LspShutdown] = 1.
Proof. repeat split. Qed.

(* CodegenContext::analyse_unassembled (41281c3): the symbols that unassembled code (an untaken branch, a macro that is
   never invoked) defines are removed from the table again.  At the level of the graph: the region only adds edges
   (newest first) that touch its new nodes; removing the new nodes gives back the table the region started with. *)
From Coq Require Import List NArith Arith Bool Lia.
Import ListNotations.
From Mos Require Import model.SymGraph.

Definition touches (news : list node) (e : edge) : bool :=
  existsb (Nat.eqb (e_src e)) news || existsb (Nat.eqb (e_dst e)) news.

Lemma remove_app : forall g1 g2 nx, remove (g1 ++ g2) nx = remove g1 nx ++ remove g2 nx.
Proof. intros. unfold remove. apply filter_app. Qed.

Lemma remove_untouched : forall g nx,
  (forall e, In e g -> e_src e <> nx /\ e_dst e <> nx) -> remove g nx = g.
Proof.
  intros g nx H. unfold remove. induction g as [|e g IH]; [reflexivity|]. cbn.
  destruct (H e (or_introl eq_refl)) as [H1 H2]. apply Nat.eqb_neq in H1, H2. rewrite H1, H2. cbn. f_equal.
  apply IH. intros e' I. apply H. right. assumption.
Qed.

Lemma fold_remove_untouched : forall news g,
  (forall e, In e g -> touches news e = false) -> fold_left remove news g = g.
Proof.
  induction news as [|n news IH]; intros g H; [reflexivity|]. cbn.
  rewrite remove_untouched.
  - apply IH. intros e I. specialize (H e I). unfold touches in *. cbn in H.
    apply orb_false_iff in H as [H1 H2]. apply orb_false_iff in H1 as [_ H1]. apply orb_false_iff in H2 as [_ H2].
    rewrite H1, H2. reflexivity.
  - intros e I. specialize (H e I). unfold touches in H. cbn in H.
    apply orb_false_iff in H as [H1 H2]. apply orb_false_iff in H1 as [H1 _]. apply orb_false_iff in H2 as [H2 _].
    apply Nat.eqb_neq in H1, H2. auto.
Qed.

Lemma fold_remove_touched : forall news extra,
  (forall e, In e extra -> touches news e = true) -> fold_left remove news extra = [].
Proof.
  induction news as [|n news IH]; intros extra H.
  - destruct extra as [|e extra]; [reflexivity|]. specialize (H e (or_introl eq_refl)). discriminate.
  - cbn. apply IH. intros e I. unfold remove in I. apply filter_In in I as [I P].
    specialize (H e I). unfold touches in *. cbn in H. apply negb_true_iff in P. apply orb_false_iff in P as [P1 P2].
    rewrite P1, P2 in H. cbn in H. exact H.
Qed.

Lemma fold_remove_app : forall news g1 g2, fold_left remove news (g1 ++ g2) = fold_left remove news g1 ++ fold_left remove news g2.
Proof. induction news as [|n news IH]; intros; cbn; [reflexivity|]. rewrite remove_app. apply IH. Qed.

(* the table after analysing unassembled code is the table before it *)
Theorem unassembled_region_leaves_no_trace : forall g extra news,
  (forall e, In e extra -> touches news e = true) ->      (* what the region inserted hangs on its new nodes *)
  (forall e, In e g -> touches news e = false) ->          (* the new nodes are new *)
  fold_left remove news (extra ++ g) = g.
Proof.
  intros g extra news H1 H2. rewrite fold_remove_app, fold_remove_touched, fold_remove_untouched by assumption. reflexivity.
Qed.

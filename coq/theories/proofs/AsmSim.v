(* The assembler model does not read its ghost state: two contexts that agree on everything but the ghost fields
   (g_vch, g_trace) are taken by every token, at every fuel, to outcomes that again agree on everything but the ghost
   fields.  Gives the strong form of C02_pass_deterministic and the congruence used by the C07 theorems. *)
From Coq Require Import List NArith ZArith Bool PeanoNat Lia.
Import ListNotations.
From Mos Require Import model.I64 Gen.BinOps model.Expr Gen.OpcodeTable spec.Isa model.Encode.
From Mos Require Import model.SymTab Gen.CodegenConsts model.Segment model.Asm.

Definition core (c : ctx) :=
  (pass_idx c, segments c, current_segment c, symbols c, undefined c, changed c, current_scope c, current_scope_nx c, next_macro_scope_id c).
Definition E (c c' : ctx) : Prop := core c = core c'.

Lemma E_refl c : E c c. Proof. reflexivity. Qed.
Lemma E_sym c c' : E c c' -> E c' c. Proof. unfold E; auto. Qed.
Lemma E_trans a b c : E a b -> E b c -> E a c. Proof. unfold E; congruence. Qed.

Definition out_rel {A} (x y : out A) : Prop :=
  match x, y with
  | Ret a d, Ret a' d' => a = a' /\ E d d'
  | Err ds d, Err ds' d' => ds = ds' /\ E d d'
  | Abort f, Abort f' => f = f'
  | _, _ => False
  end.
Definition SimM {A} (m m' : M A) : Prop := forall c c', E c c' -> out_rel (m c) (m' c').

Ltac ctx_eq :=
  match goal with
  | H : E ?c ?c' |- _ =>
      destruct c, c'; unfold E, core in H; cbn in H; inversion H; subst; clear H
  end.
Ltac fields :=
  cbn [pass_idx segments current_segment symbols undefined changed current_scope current_scope_nx next_macro_scope_id g_vch g_trace
       set_symbols set_segments set_undefined set_changed set_scope set_macro_id bump_vch log flag_undefined flag_changed] in *.

Ltac fin := cbn; unfold E, core; cbn; repeat split; try reflexivity; auto.

Lemma sim_ret {A} (a : A) : SimM (ret a) (ret a).
Proof. intros c c' H. cbn. auto. Qed.
Lemma sim_fail {A} ds : SimM (@fail A ds) (fail ds).
Proof. intros c c' H. cbn. auto. Qed.
Lemma sim_abort {A} f : SimM (@abort A f) (abort f).
Proof. intros c c' H. cbn. auto. Qed.
Lemma sim_bind {A B} (m m' : M A) (k k' : A -> M B) :
  SimM m m' -> (forall a, SimM (k a) (k' a)) -> SimM (bind m k) (bind m' k').
Proof.
  intros Hm Hk c c' H. unfold bind. specialize (Hm c c' H).
  destruct (m c), (m' c'); cbn in Hm; try contradiction; auto.
  destruct Hm as [-> He]. apply Hk. exact He.
Qed.
(* `c <- get ;; k c`: the continuation may only depend on the core of c *)
Lemma sim_get_bind {B} (k k' : ctx -> M B) :
  (forall c c', E c c' -> SimM (k c) (k' c')) -> SimM (bind get k) (bind get k').
Proof. intros Hk c c' H. unfold bind, get. apply Hk; exact H. Qed.
Lemma sim_modify f : (forall c c', E c c' -> E (f c) (f c')) -> SimM (modify f) (modify f).
Proof. intros Hf c c' H. cbn. auto. Qed.
Lemma sim_ignore_err {A} (m m' : M A) : SimM m m' -> SimM (ignore_err m) (ignore_err m').
Proof. intros Hm c c' H. unfold ignore_err. specialize (Hm c c' H). destruct (m c), (m' c'); cbn in *; try contradiction; intuition. Qed.
Lemma sim_recover {A} (m m' : M A) d : SimM m m' -> SimM (recover m d) (recover m' d).
Proof. intros Hm c c' H. unfold recover. specialize (Hm c c' H). destruct (m c), (m' c'); cbn in *; try contradiction; intuition. Qed.
Lemma sim_finally {A} (m m' : M A) cl cl' : SimM m m' -> SimM cl cl' -> SimM (finally m cl) (finally m' cl').
Proof.
  intros Hm Hc c c' H. unfold finally. specialize (Hm c c' H).
  destruct (m c) as [a d|ds d|f], (m' c') as [a' d'|ds' d'|f']; cbn in Hm; try contradiction; auto;
  destruct Hm as [-> He]; specialize (Hc d d' He); destruct (cl d), (cl' d'); cbn in *; try contradiction; intuition.
Qed.
Lemma sim_emit_tokens_with et et' : (forall t, SimM (et t) (et' t)) -> forall ts acc, SimM (emit_tokens_with et ts acc) (emit_tokens_with et' ts acc).
Proof.
  intros H ts. induction ts as [|t r IH]; intros acc; cbn [emit_tokens_with].
  - destruct acc; [apply sim_ret|apply sim_fail].
  - intros c c' HE. specialize (H t c c' HE). destruct (et t c), (et' t c'); cbn in H; try contradiction; auto.
    + destruct H as [_ He]. apply IH. exact He.
    + destruct H as [-> He]. apply IH. exact He.
Qed.

(* ------------------------------------------------------------------ primitives *)
Lemma sim_current_target_pc : SimM current_target_pc current_target_pc.
Proof.
  intros c c' H. ctx_eq. unfold current_target_pc, try_current_target_pc, try_current_segment. fields.
  destruct current_segment0; [|fin]. destruct (seg_get segments0 i); [|fin]. destruct (target_pc s); fin.
Qed.

Lemma sim_add_symbol id sym : SimM (add_symbol id sym) (add_symbol id sym).
Proof.
  intros c c' H. ctx_eq. unfold add_symbol. fields.
  destruct (try_index symbols0 current_scope_nx0 id).
  - destruct (try_get symbols0 n).
    + destruct (redefinition s sym); [destruct (s_span sym); fin|].
      destruct (negb (sdata_eqb (s_data s) (s_data sym))); [destruct (symtype_eqb (s_ty sym) TyVariable)|]; fin.
    + destruct (symtype_eqb (s_ty sym) TyVariable); fin.
  - destruct (split_last (current_scope0 ++ id)). destruct (ensure_index symbols0 root i). destruct (insert s n i0 (Some sym)). fin.
Qed.

Lemma sim_emit sp bytes : SimM (emit sp bytes) (emit sp bytes).
Proof.
  intros c c' H. ctx_eq. unfold emit. fields.
  destruct current_segment0; [|fin]. destruct (seg_get segments0 i); [|fin]. destruct (target_pc s); [|fin].
  destruct (two64 <=? z + Z.of_nat (length bytes))%Z; [fin|]. destruct (seg_emit s bytes); fin.
Qed.

Lemma flag_usages_core ps : forall c c', E c c' -> E (flag_usages c ps) (flag_usages c' ps).
Proof.
  induction ps as [|[p sp] r IH]; intros c c' H; cbn [flag_usages]; [exact H|].
  assert (HL : lookup_in (symbols c) (current_scope_nx c) p = lookup_in (symbols c') (current_scope_nx c') p)
    by (unfold E, core in H; inversion H; reflexivity).
  rewrite HL. destruct (lookup_in (symbols c') (current_scope_nx c') p); apply IH; [exact H|].
  ctx_eq. unfold E, core. reflexivity.
Qed.

Lemma sim_eval e : SimM (evaluate_expression e) (evaluate_expression e).
Proof.
  intros c c' H. unfold evaluate_expression.
  assert (H1 : try_current_target_pc c = try_current_target_pc c').
  { unfold try_current_target_pc, try_current_segment. unfold E, core in H. inversion H. reflexivity. }
  assert (H2 : diverges c (le_expr e) = diverges c' (le_expr e)) by (unfold diverges; unfold E, core in H; inversion H; reflexivity).
  assert (H3 : forall pc, env_of (symbols c) (current_scope_nx c) pc = env_of (symbols c') (current_scope_nx c') pc)
    by (intro; unfold E, core in H; inversion H; reflexivity).
  assert (H4 : current_scope_nx c = current_scope_nx c') by (unfold E, core in H; inversion H; reflexivity).
  pose proof (flag_usages_core (combine (usages (le_expr e)) (le_ids e)) c c' H) as H5.
  rewrite <- H1, <- H2.
  assert (G : forall pc,
    out_rel (if diverges c (le_expr e) then Abort FDiverge
             else match eval (env_of (symbols c) (current_scope_nx c) pc) (le_expr e) with
                  | EVal v => Ret v (log (flag_usages c (combine (usages (le_expr e)) (le_ids e))) (EvEval (current_scope_nx c) pc (le_expr e) v))
                  | EErr x => Err [mkDiag (DEval x) None [] []] c
                  | EPanic => Abort FPanic
                  end)
            (if diverges c (le_expr e) then Abort FDiverge
             else match eval (env_of (symbols c') (current_scope_nx c') pc) (le_expr e) with
                  | EVal v => Ret v (log (flag_usages c' (combine (usages (le_expr e)) (le_ids e))) (EvEval (current_scope_nx c') pc (le_expr e) v))
                  | EErr x => Err [mkDiag (DEval x) None [] []] c'
                  | EPanic => Abort FPanic
                  end)).
  { intro pc. destruct (diverges c (le_expr e)); [reflexivity|]. rewrite <- H3.
    destruct (eval (env_of (symbols c) (current_scope_nx c) pc) (le_expr e)); cbn; auto;
    try (split; [reflexivity|]; rewrite H4; unfold E, core in *; cbn; inversion H5; reflexivity). }
  destruct (try_current_target_pc c); [apply G|apply G|reflexivity].
Qed.

Lemma core_enter s c c' : E c c' -> E (enter_scope s c) (enter_scope s c').
Proof. intro H. ctx_eq. unfold enter_scope. fields. destruct (ensure_index symbols0 root (current_scope0 ++ [s])). reflexivity. Qed.
Lemma core_leave p n c c' : E c c' -> E (leave_scope p n c) (leave_scope p n c').
Proof. intro H. ctx_eq. reflexivity. Qed.
Lemma core_install n o c c' : E c c' -> E (install_segment n o c) (install_segment n o c').
Proof. intro H. ctx_eq. reflexivity. Qed.
Lemma core_setpc pc c c' : E c c' -> E (set_current_pc pc c) (set_current_pc pc c').
Proof.
  intro H. ctx_eq. unfold set_current_pc. fields. destruct current_segment0; [|reflexivity].
  destruct (seg_get segments0 i); reflexivity.
Qed.
Lemma core_select o c c' : E c c' -> E (select_segment o c) (select_segment o c').
Proof. intro H. ctx_eq. reflexivity. Qed.
Lemma core_bump c c' : E c c' -> E (bump_macro_id c) (bump_macro_id c').
Proof. intro H. ctx_eq. reflexivity. Qed.
Lemma core_flag id sp c c' : E c c' -> E (flag_undefined c id sp) (flag_undefined c' id sp).
Proof. intro H. ctx_eq. reflexivity. Qed.
Lemma sim_export a b p : SimM (export_one a b p) (export_one a b p).
Proof. intros c c' H. ctx_eq. unfold export_one. fields. destruct (export symbols0 a b p). fin. Qed.
Lemma sim_import_as p : SimM (import_as_scope p) (import_as_scope p).
Proof. intros c c' H. ctx_eq. unfold import_as_scope. fields. destruct (ensure_index symbols0 current_scope_nx0 p). fin. Qed.

(* ------------------------------------------------------------------ lifting *)
Ltac sm :=
  repeat match goal with
    | |- SimM (bind get _) (bind get _) => apply sim_get_bind; intros ? ? ?
    | |- SimM (bind _ _) (bind _ _) => apply sim_bind; [|intro]
    | |- SimM (ret _) (ret _) => apply sim_ret
    | |- SimM (fail _) (fail _) => apply sim_fail
    | |- SimM (err1 _ _ _ _) (err1 _ _ _ _) => apply sim_fail
    | |- SimM (abort _) (abort _) => apply sim_abort
    | |- SimM (add_symbol _ _) (add_symbol _ _) => apply sim_add_symbol
    | |- SimM (emit _ _) (emit _ _) => apply sim_emit
    | |- SimM (evaluate_expression _) (evaluate_expression _) => apply sim_eval
    | |- SimM (export_one _ _ _) (export_one _ _ _) => apply sim_export
    | |- SimM (import_as_scope _) (import_as_scope _) => apply sim_import_as
    | |- SimM current_target_pc current_target_pc => apply sim_current_target_pc
    | |- SimM (modify _) (modify _) =>
        apply sim_modify; intros ? ? ?;
        first [apply core_enter | apply core_leave | apply core_install | apply core_setpc | apply core_select | apply core_bump | apply core_flag]; assumption
    | |- SimM (ignore_err _) (ignore_err _) => apply sim_ignore_err
    | |- SimM (recover _ _) (recover _ _) => apply sim_recover
    end.

(* rewrite the projections of a related context c' into those of c *)
Ltac same_core H :=
  let H' := fresh in
  pose proof H as H'; unfold E, core in H'; inversion H'; clear H'.

Lemma sim_eval_i64 e : SimM (evaluate_expression_as_i64 e) (evaluate_expression_as_i64 e).
Proof. unfold evaluate_expression_as_i64. sm. destruct a as [[n|s]|]; sm. Qed.
Lemma sim_eval_string e : SimM (evaluate_expression_as_string e) (evaluate_expression_as_string e).
Proof. unfold evaluate_expression_as_string. sm. destruct a as [[n|s]|]; sm. Qed.

Lemma symbol_core c c' sp d ty : E c c' -> symbol_ c sp d ty = symbol_ c' sp d ty.
Proof. intro H. unfold symbol_. same_core H. congruence. Qed.

Lemma sim_scope_symbol n sp : SimM (scope_symbol n sp) (scope_symbol n sp).
Proof.
  unfold scope_symbol. sm. destruct a; [|sm]. sm. rewrite (symbol_core _ _ _ _ _ H). sm.
Qed.

Lemma sim_with_scope {A} s b (f f' : M A) : SimM f f' -> SimM (with_scope s b f) (with_scope s b f').
Proof.
  intro Hf. unfold with_scope. apply sim_get_bind; intros c c' H. same_core H.
  apply sim_bind; [sm|intro]. apply sim_bind; [destruct b; [apply sim_scope_symbol|apply sim_ret]|intro].
  apply sim_finally; [exact Hf|]. apply sim_bind; [destruct b; [apply sim_scope_symbol|apply sim_ret]|intro].
  match goal with H1 : current_scope c = current_scope c', H2 : current_scope_nx c = current_scope_nx c' |- _ => rewrite H1, H2 end. sm.
Qed.

(* with_scope reads only the brace positions of its block *)
Lemma sim_with_scope2 {A} s b b' (f f' : M A) :
  match b, b' with
  | Some x, Some y => blk_lparen x = blk_lparen y /\ blk_rparen x = blk_rparen y
  | None, None => True
  | _, _ => False
  end -> SimM f f' -> SimM (with_scope s b f) (with_scope s b' f').
Proof.
  intros Hb Hf. unfold with_scope. apply sim_get_bind; intros c c' H. same_core H.
  apply sim_bind; [sm|intro].
  apply sim_bind; [destruct b, b'; try contradiction; [destruct Hb as [-> _]; apply sim_scope_symbol|apply sim_ret]|intro].
  apply sim_finally; [exact Hf|].
  apply sim_bind; [destruct b, b'; try contradiction; [destruct Hb as [_ ->]; apply sim_scope_symbol|apply sim_ret]|intro].
  match goal with H1 : current_scope c = current_scope c', H2 : current_scope_nx c = current_scope_nx c' |- _ => rewrite H1, H2 end. sm.
Qed.

Ltac sm2 :=
  repeat match goal with
    | |- SimM (evaluate_expression_as_i64 _) (evaluate_expression_as_i64 _) => apply sim_eval_i64
    | |- SimM (evaluate_expression_as_string _) (evaluate_expression_as_string _) => apply sim_eval_string
    | |- SimM (bind _ _) (bind _ _) => apply sim_bind; [|intro]
    | |- SimM (ret _) (ret _) => apply sim_ret
    | |- SimM (fail _) (fail _) => apply sim_fail
    | |- SimM (err1 _ _ _ _) (err1 _ _ _ _) => apply sim_fail
    | |- SimM (abort _) (abort _) => apply sim_abort
    | |- SimM (modify _) (modify _) =>
        apply sim_modify; intros ? ? ?;
        first [apply core_enter | apply core_leave | apply core_install | apply core_setpc | apply core_select | apply core_bump | apply core_flag]; assumption
    | |- SimM (recover _ _) (recover _ _) => apply sim_recover
    | |- SimM (match ?x with _ => _ end) (match ?x with _ => _ end) => destruct x
    | |- SimM (if ?b then _ else _) (if ?b then _ else _) => destruct b
    end.

Lemma sim_install_checked sp n o : SimM (install_checked sp n o) (install_checked sp n o).
Proof.
  unfold install_checked. apply sim_get_bind; intros c c' H.
  assert (HS : segment_has_code c n = segment_has_code c' n) by (unfold segment_has_code; same_core H; congruence).
  rewrite HS. destruct (segment_has_code c' n); sm2.
Qed.
Lemma sim_define_segment sp l : SimM (define_segment sp l) (define_segment sp l).
Proof. unfold define_segment. destruct (validate_segment sp l); [|apply sim_fail]. sm2. apply sim_install_checked. Qed.

Lemma sim_loop_iterations body body' : (forall i, SimM (body i) (body' i)) -> forall fuel i n, SimM (loop_iterations fuel i n body) (loop_iterations fuel i n body').
Proof.
  intros Hb fuel. induction fuel as [|f IH]; intros i n; cbn [loop_iterations]; destruct (n <=? i)%Z; try apply sim_ret.
  - apply sim_abort.
  - apply sim_bind; [apply Hb|intro; apply IH].
Qed.

Lemma sim_eval_macro_args args : SimM (eval_macro_args args) (eval_macro_args args).
Proof. induction args as [|a r IH]; cbn [eval_macro_args]; [apply sim_ret|]. sm. exact IH. Qed.

Lemma sim_bind_macro_args ps vals : SimM (bind_macro_args ps vals) (bind_macro_args ps vals).
Proof.
  revert vals. induction ps as [|[p psp] ps IH]; intros vals; cbn [bind_macro_args]; [apply sim_ret|].
  destruct vals as [|v vals]; [apply sim_ret|]. apply sim_get_bind; intros c c' H. rewrite (symbol_core _ _ _ _ _ H). sm. apply IH.
Qed.

Lemma sim_emit_data_values size vs : SimM (emit_data_values size vs) (emit_data_values size vs).
Proof.
  induction vs as [|e r IH]; cbn [emit_data_values]; [apply sim_ret|].
  apply sim_bind; [apply sim_eval_i64|intro]. apply sim_bind; [apply sim_emit|intro]. exact IH.
Qed.

Lemma sim_do_exports l : SimM (do_exports l) (do_exports l).
Proof.
  induction l as [|[[[a b] p] sp] r IH]; cbn [do_exports]; [apply sim_ret|].
  apply sim_bind; [apply sim_export|intros ok]. destruct ok; [exact IH|apply sim_fail].
Qed.

Lemma sim_specific_exports nx items : SimM (specific_exports nx items) (specific_exports nx items).
Proof.
  induction items as [|[[orig as_] sp] r IH]; cbn [specific_exports]; [apply sim_ret|].
  apply sim_get_bind; intros c c' H. same_core H.
  match goal with H1 : symbols c = symbols c', H2 : current_scope_nx c = current_scope_nx c' |- _ => rewrite H1, H2 end.
  destruct (try_index (symbols c') nx orig).
  - apply sim_bind; [exact IH|intro]. apply sim_ret.
  - apply sim_bind; [sm|intro]. exact IH.
Qed.

Section Body.
Variables rec rec' : token -> M unit.
Hypothesis Hrec : forall t, SimM (rec t) (rec' t).

Lemma sim_emit_tokens ts : SimM (emit_tokens rec ts) (emit_tokens rec' ts).
Proof. apply sim_emit_tokens_with. exact Hrec. Qed.

Lemma sim_emit_token_body fuel t : SimM (emit_token_body rec fuel t) (emit_token_body rec' fuel t).
Proof.
  pose proof sim_emit_tokens as Hts.
  destruct t; cbn [emit_token_body].
  - (* TAlign *) apply sim_bind; [apply sim_current_target_pc|intros pc]. destruct pc; [|apply sim_ret].
    apply sim_bind; [apply sim_eval_i64|intros a]. destruct a; [|sm]. destruct (z0 <=? 0)%Z; sm.
  - apply sim_with_scope. apply Hts.
  - apply sim_emit_data_values.
  - destruct cfg; [|apply sim_ret]. destruct (text_eqb id t_segment); [apply sim_define_segment|]. destruct (text_eqb id t_bank); sm.
  - (* TIf *) apply sim_bind; [apply sim_eval_i64|intros v]. destruct v; [|apply sim_ret].
    destruct (negb (z =? 0)%Z); [apply Hts|]. destruct else_; [apply Hts|apply sim_ret].
  - (* TImport *) destruct file; [|apply sim_ret].
    apply sim_bind; [apply sim_with_scope; apply sim_bind; [destruct b; [apply Hts|apply sim_ret]|intro; apply Hts]|intro].
    apply sim_get_bind; intros c c' H. same_core H.
    match goal with H1 : symbols c = symbols c', H2 : current_scope_nx c = current_scope_nx c' |- _ => rewrite H1, H2 end.
    destruct (try_index (symbols c') (current_scope_nx c') [import_scope]); [|apply sim_ret].
    destruct args.
    + apply sim_bind; [destruct as_ as [[p s]|]; [apply sim_import_as|apply sim_ret]|intro].
      apply sim_get_bind; intros d d' Hd. same_core Hd.
      match goal with H1 : symbols d = symbols d' |- _ => rewrite H1 end. apply sim_do_exports.
    + apply sim_bind; [apply sim_specific_exports|intro]. apply sim_do_exports.
  - (* TInstr *)
    apply sim_bind.
    + destruct operand as [[e f]|]; [apply sim_bind; [apply sim_eval_i64|intro; apply sim_ret]|apply sim_ret].
    + intros data. destruct data as [[value f]|]; [|apply sim_emit].
      apply sim_bind; [apply sim_current_target_pc|intros pc].
      destruct (emit_instruction m f value pc) as [bytes [e|]]; [destruct e|]; sm.
  - (* TLabel *)
    apply sim_bind; [apply sim_current_target_pc|intros pc].
    apply sim_bind.
    + destruct pc; [|sm]. apply sim_get_bind; intros c c' H. rewrite (symbol_core _ _ _ _ _ H). sm.
    + intro. destruct b; [apply sim_with_scope; apply Hts|apply sim_ret].
  - (* TLoop *)
    apply sim_bind; [apply sim_eval_i64|intros n]. destruct n; [|apply sim_ret].
    destruct (loop_iteration_limit <? z)%Z; [apply sim_abort|]. apply sim_loop_iterations. intro i. apply sim_with_scope.
    apply sim_get_bind; intros c c' H. rewrite (symbol_core _ _ _ _ _ H). sm. apply Hts.
  - (* TMacroDef *) apply sim_get_bind; intros c c' H. rewrite (symbol_core _ _ _ _ _ H). sm.
  - (* TInvoke *)
    apply sim_get_bind; intros c c' H. same_core H.
    match goal with H1 : symbols c = symbols c', H2 : current_scope_nx c = current_scope_nx c', H3 : next_macro_scope_id c = next_macro_scope_id c' |- _ =>
      rewrite H1, H2, H3 end.
    apply sim_bind; [sm|intro].
    destruct (query_all (symbols c') (current_scope_nx c') [id]); [|apply sim_abort].
    destruct (find_macro (symbols c') l) as [[[sp params] body]|]; [|sm].
    destruct (negb (length args =? length params)%nat); [apply sim_fail|].
    apply sim_bind; [apply sim_eval_macro_args|intro]. apply sim_with_scope.
    apply sim_bind; [apply sim_bind_macro_args|intro; apply Hts].
  - (* TPc *) apply sim_bind; [apply sim_eval_i64|intros v]. destruct v; [|sm].
    match goal with |- SimM (if ?b then _ else _) _ => destruct b; [sm|] | _ => idtac end.
    first [ apply sim_get_bind; intros c c' H; same_core H;
            match goal with H1 : segments c = segments c', H2 : current_segment c = current_segment c' |- _ => rewrite H1, H2 end; sm2
          | sm ].
  - (* TSegment *)
    apply sim_bind; [apply sim_eval_string|intros s]. destruct s; [|apply sim_ret].
    destruct (existsb (N.eqb 46) t); [apply sim_fail|]. apply sim_get_bind; intros c c' H. same_core H.
    match goal with H1 : segments c = segments c', H2 : current_segment c = current_segment c' |- _ => rewrite H1, H2 end.
    destruct (seg_get (segments c') t); [|apply sim_fail]. destruct b.
    + apply sim_bind; [sm|intro]. apply sim_finally; [apply Hts|sm].
    + sm.
  - (* TTest *)
    apply sim_bind; [apply sim_current_target_pc|intros pc]. destruct pc; [|apply sim_ret].
    apply sim_bind; [apply sim_eval_string|intros s]. destruct s; [|sm]. destruct (existsb (N.eqb 46) t); [sm|].
    apply sim_get_bind; intros c c' H. rewrite (symbol_core _ _ _ _ _ H). sm.
  - (* TText *) apply sim_bind; [apply sim_eval_string|intros s]. destruct s; [|sm]. destruct enc; [|sm]. destruct (ascii_bytes t); sm.
  - (* TVarDef *)
    apply sim_bind; [sm|intros v]. destruct v; [|sm]. apply sim_get_bind; intros c c' H. rewrite (symbol_core _ _ _ _ _ H). sm.
  - apply sim_ret.
  - apply sim_abort.
Qed.
End Body.

Theorem sim_emit_token : forall fuel t, SimM (emit_token fuel t) (emit_token fuel t).
Proof.
  induction fuel as [|f IH]; intro t; cbn [emit_token]; [apply sim_abort|].
  apply sim_emit_token_body. exact IH.
Qed.

Lemma sim_collecting {A} (m m' : M A) k k' : SimM m m' -> SimM k k' -> SimM (collecting m k) (collecting m' k').
Proof.
  intros Hm Hk c c' H. unfold collecting. specialize (Hm c c' H).
  destruct (m c) as [a c1|ds c1|f], (m' c') as [a' c1'|ds' c1'|f']; cbn in Hm; try contradiction.
  - destruct Hm as [_ He]. exact (Hk c1 c1' He).
  - destruct Hm as [-> He]. specialize (Hk c1 c1' He).
    destruct (k c1) as [u d|ds2 d|f2], (k' c1') as [u' d'|ds2' d'|f2']; cbn in Hk |- *; try contradiction.
    + destruct Hk as [_ Hk]. split; [reflexivity|exact Hk].
    + destruct Hk as [-> Hk]. split; [reflexivity|exact Hk].
    + exact Hk.
  - cbn. exact Hm.
Qed.
Lemma sim_register_segment_symbols l : SimM (register_segment_symbols l) (register_segment_symbols l).
Proof.
  induction l as [|[n s] r IH]; cbn [register_segment_symbols]; [apply sim_ret|].
  apply sim_collecting; [apply sim_get_bind; intros c c' H; rewrite (symbol_core _ _ _ _ _ H); sm|].
  apply sim_collecting; [apply sim_get_bind; intros d d' Hd; rewrite (symbol_core _ _ _ _ _ Hd); sm|exact IH].
Qed.

Definition pass_rel (x y : pass_out) : Prop :=
  match x, y with
  | PassOk e c, PassOk e' c' => e = e' /\ E c c'
  | PassAbort f, PassAbort f' => f = f'
  | _, _ => False
  end.

(* a pass is a function of the tokens and of the non-ghost part of the context it starts from *)
Theorem run_pass_core fuel toks c c' : E c c' -> pass_rel (run_pass fuel toks c) (run_pass fuel toks c').
Proof.
  intro H. unfold run_pass.
  pose proof (sim_emit_tokens_with _ _ (sim_emit_token fuel) toks [] c c' H) as H1. unfold emit_tokens.
  assert (AP : SimM after_pass after_pass).
  { unfold after_pass. apply sim_get_bind; intros d d' Hd. same_core Hd.
    match goal with H1 : segments d = segments d' |- _ => rewrite H1 end. apply sim_register_segment_symbols. }
  destruct (emit_tokens_with (emit_token fuel) toks [] c), (emit_tokens_with (emit_token fuel) toks [] c'); cbn in H1; try contradiction.
  - destruct H1 as [_ He]. specialize (AP _ _ He). destruct (after_pass c0), (after_pass c1); cbn in *; try contradiction; intuition; subst; reflexivity.
  - destruct H1 as [-> He]. specialize (AP _ _ He). destruct (after_pass c0), (after_pass c1); cbn in *; try contradiction; intuition; subst; reflexivity.
  - cbn. exact H1.
Qed.

(* C02: the table-write invariant `good`, per primitive and lifted through the evaluator; the fixed-point theorem. *)
From Coq Require Import List NArith ZArith Bool PeanoNat Lia.
Import ListNotations.
From Mos Require Import model.I64 Gen.BinOps model.Expr Gen.OpcodeTable spec.Isa model.Encode.
From Mos Require Import model.SymTab Gen.CodegenConsts model.Segment model.Asm spec.FixedPoint proofs.AsmLift.

(* ------------------------------------------------------------------ small facts *)
Lemma text_eqb_refl a : text_eqb a a = true.
Proof. induction a as [|x a IH]; cbn; [reflexivity|]. rewrite N.eqb_refl. exact IH. Qed.
Lemma text_eqb_true a : forall b, text_eqb a b = true -> a = b.
Proof.
  induction a as [|x a IH]; intros [|y b]; cbn; try discriminate; auto.
  intro H. apply andb_true_iff in H as [H1 H2]. apply N.eqb_eq in H1. subst. f_equal. auto.
Qed.
Lemma span_eqb_refl s : span_eqb s s = true.
Proof. unfold span_eqb. rewrite !Z.eqb_refl. reflexivity. Qed.
Lemma span_eqb_true a b : span_eqb a b = true -> a = b.
Proof.
  unfold span_eqb. intro H. apply andb_true_iff in H as [H1 H2]. apply Z.eqb_eq in H1, H2.
  destruct a, b; cbn in *; subst; reflexivity.
Qed.
Lemma sdata_eqb_refl d : sdata_eqb d d = true.
Proof. destruct d; cbn; auto using Z.eqb_refl, text_eqb_refl, span_eqb_refl. Qed.
Lemma sdata_eqb_sym a b : sdata_eqb a b = true -> sdata_eqb b a = true.
Proof.
  destruct a, b; cbn; try discriminate; auto; intro H.
  - apply Z.eqb_eq in H. subst. apply Z.eqb_refl.
  - apply text_eqb_true in H. subst. apply text_eqb_refl.
  - apply span_eqb_true in H. subst. apply span_eqb_refl.
Qed.
Lemma sdata_eqb_trans a b c : sdata_eqb a b = true -> sdata_eqb b c = true -> sdata_eqb a c = true.
Proof.
  destruct a, b; cbn; try discriminate; destruct c; cbn; try discriminate; auto; intros H1 H2.
  - apply Z.eqb_eq in H1, H2. subst. apply Z.eqb_refl.
  - apply text_eqb_true in H1, H2. subst. apply text_eqb_refl.
  - apply span_eqb_true in H1, H2. subst. apply span_eqb_refl.
Qed.
Lemma sdata_eqb_symdata a b : sdata_eqb a b = true -> to_symdata a = to_symdata b.
Proof.
  destruct a, b; cbn; try discriminate; auto; intro H.
  - apply Z.eqb_eq in H. subst. reflexivity.
  - apply text_eqb_true in H. subst. reflexivity.
Qed.
Lemma symtype_eqb_true a b : symtype_eqb a b = true -> a = b.
Proof. destruct a, b; cbn; try discriminate; reflexivity. Qed.

(* ------------------------------------------------------------------ tables equal up to stamps *)
(* Two tables with the same graph whose symbols agree on value and type; pass_idx, span and segment of a symbol
   (rewritten by every add_symbol) are not compared. *)
Definition node_equiv (a b : nat * option symbol) : Prop :=
  fst a = fst b /\
  match snd a, snd b with
  | None, None => True
  | Some x, Some y => sdata_eqb (s_data x) (s_data y) = true /\ s_ty x = s_ty y
  | _, _ => False
  end.
Definition same_vals (t t' : symtab symbol) : Prop :=
  edges t = edges t' /\ next t = next t' /\ free t = free t' /\ Forall2 node_equiv (nodes t) (nodes t').

Lemma node_equiv_refl a : node_equiv a a.
Proof. split; [reflexivity|]. destruct (snd a); auto using sdata_eqb_refl. Qed.
Lemma node_equiv_sym a b : node_equiv a b -> node_equiv b a.
Proof.
  intros [H1 H2]. split; [auto|]. destruct (snd a), (snd b); auto. destruct H2. split; auto using sdata_eqb_sym.
Qed.
Lemma node_equiv_trans a b c : node_equiv a b -> node_equiv b c -> node_equiv a c.
Proof.
  intros [H1 H2] [H3 H4]. split; [congruence|]. destruct (snd a), (snd b), (snd c); auto; try contradiction.
  destruct H2, H4. split; [eauto using sdata_eqb_trans|congruence].
Qed.
Lemma Forall2_refl {A} (P : A -> A -> Prop) : (forall a, P a a) -> forall l, Forall2 P l l.
Proof. intros H l. induction l; constructor; auto. Qed.
Lemma Forall2_sym {A} (P : A -> A -> Prop) : (forall a b, P a b -> P b a) -> forall l l', Forall2 P l l' -> Forall2 P l' l.
Proof. intros H l l' F. induction F; constructor; auto. Qed.
Lemma Forall2_trans {A} (P : A -> A -> Prop) :
  (forall a b c, P a b -> P b c -> P a c) -> forall l1 l2, Forall2 P l1 l2 -> forall l3, Forall2 P l2 l3 -> Forall2 P l1 l3.
Proof. intros H l1 l2 F. induction F; intros l3 G; inversion G; subst; constructor; eauto. Qed.

Lemma Forall2_len {A B} (P : A -> B -> Prop) l l' : Forall2 P l l' -> length l = length l'.
Proof. intro F. induction F; cbn; auto. Qed.

Lemma same_vals_refl t : same_vals t t.
Proof. repeat split; auto. apply Forall2_refl. apply node_equiv_refl. Qed.
Lemma same_vals_sym t t' : same_vals t t' -> same_vals t' t.
Proof. intros (A & B & C & D). repeat split; auto. eapply Forall2_sym; eauto using node_equiv_sym. Qed.
Lemma same_vals_trans a b c : same_vals a b -> same_vals b c -> same_vals a c.
Proof.
  intros (A & B & C & D) (A' & B' & C' & D'). repeat split; try congruence.
  eapply Forall2_trans; eauto using node_equiv_trans.
Qed.

Lemma same_vals_node_count t t' : same_vals t t' -> node_count t = node_count t'.
Proof. intros (_ & _ & _ & D). unfold node_count. eapply Forall2_len; eauto. Qed.

Lemma same_vals_try_index t t' : same_vals t t' -> forall p nx, try_index t nx p = try_index t' nx p.
Proof.
  intros (A & _) p. induction p as [|id r IH]; intro nx; cbn [try_index]; [reflexivity|].
  unfold parent, child. rewrite A.
  destruct (if is_super id then parent_in (edges t') nx else child_in (edges t') nx id); auto.
Qed.

Lemma same_vals_query t t' : same_vals t t' -> forall nx p, query t nx p = query t' nx p.
Proof.
  intros S nx p. unfold query. destruct S as (A & B & C & D) eqn:ES. rewrite B.
  generalize (Datatypes.S (next t')) as fuel. intro fuel. revert nx.
  induction fuel as [|f IH]; intro nx; cbn [query_fuel]; [reflexivity|].
  rewrite (same_vals_try_index t t' S). destruct (try_index t' nx p); [reflexivity|].
  destruct (contains_super p); [reflexivity|]. unfold parent. rewrite A. destruct (parent_in (edges t') nx); auto.
Qed.

Lemma assoc_equiv l l' : Forall2 node_equiv l l' -> forall nx,
  match assoc_nat l nx, assoc_nat l' nx with
  | None, None => True
  | Some a, Some b => node_equiv (nx, a) (nx, b)
  | _, _ => False
  end.
Proof.
  intros F nx. induction F as [|[i a] [j b] l l' [H1 H2] F IH]; cbn [assoc_nat]; [exact I|].
  cbn in H1. subst j. destruct (Nat.eqb i nx); [split; auto|exact IH].
Qed.

Lemma same_vals_try_get t t' : same_vals t t' -> forall nx,
  match try_get t nx, try_get t' nx with
  | None, None => True
  | Some x, Some y => sdata_eqb (s_data x) (s_data y) = true /\ s_ty x = s_ty y
  | _, _ => False
  end.
Proof.
  intros (_ & _ & _ & D) nx. unfold try_get, node_weight. pose proof (assoc_equiv _ _ D nx) as H.
  destruct (assoc_nat (nodes t) nx) as [[x|]|], (assoc_nat (nodes t') nx) as [[y|]|]; cbn in *; try tauto;
  destruct H as [_ H]; cbn in H; tauto.
Qed.

Lemma same_vals_lookup t t' : same_vals t t' -> forall s p, lookup_in t s p = lookup_in t' s p.
Proof.
  intros S s p. unfold lookup_in. rewrite (same_vals_query t t' S). destruct (query t' s p); auto.
  pose proof (same_vals_try_get t t' S nx) as H. destruct (try_get t nx), (try_get t' nx); try tauto.
  destruct H as [H _]. f_equal. apply sdata_eqb_symdata. exact H.
Qed.

Lemma same_vals_sym_lookup t t' : same_vals t t' -> forall s id,
  match sym_lookup t s id, sym_lookup t' s id with
  | None, None => True
  | Some (d, ty), Some (d', ty') => sdata_eqb d d' = true /\ ty = ty'
  | _, _ => False
  end.
Proof.
  intros S s id. unfold sym_lookup. rewrite (same_vals_try_index t t' S). destruct (try_index t' s id); auto.
  pose proof (same_vals_try_get t t' S n) as H. destruct (try_get t n), (try_get t' n); tauto.
Qed.

(* ------------------------------------------------------------------ evaluation only reads the environment *)
Section ExprInd.
Variable P : expr -> Prop.
Hypothesis HBin : forall op l r, P l -> P r -> P (EBin op l r).
Hypothesis HNum : forall a b c d, P (ENum a b c d).
Hypothesis HId : forall a b c d, P (EId a b c d).
Hypothesis HPc : forall a b, P (EPc a b).
Hypothesis HParens : forall e a b, P e -> P (EParens e a b).
Hypothesis HCall : forall n args a b, Forall P args -> P (ECall n args a b).
Hypothesis HStr : forall i a b, P (EStr i a b).
Fixpoint expr_ind2 (e : expr) : P e :=
  match e with
  | EBin op l r => HBin op l r (expr_ind2 l) (expr_ind2 r)
  | ENum a b c d => HNum a b c d
  | EId a b c d => HId a b c d
  | EPc a b => HPc a b
  | EParens e a b => HParens e a b (expr_ind2 e)
  | ECall n args a b =>
      HCall n args a b ((fix go (l : list expr) : Forall P l :=
                           match l with [] => Forall_nil P | x :: r => Forall_cons x (expr_ind2 x) (go r) end) args)
  | EStr i a b => HStr i a b
  end.
End ExprInd.

Lemma interpolate_ext en en' : (forall p, lookup en p = lookup en' p) -> forall items, interpolate en items = interpolate en' items.
Proof. intros H items. induction items as [|[s|p] r IH]; cbn [interpolate]; [reflexivity|rewrite IH; reflexivity|]. rewrite H, IH. reflexivity. Qed.

Lemma eval_ext en en' : (forall p, lookup en p = lookup en' p) -> cur_pc en = cur_pc en' -> forall e, eval en e = eval en' e.
Proof.
  intros HL HP e. induction e using expr_ind2; cbn [eval].
  - rewrite IHe1, IHe2. reflexivity.
  - reflexivity.
  - rewrite HL. reflexivity.
  - rewrite HP. reflexivity.
  - rewrite IHe. reflexivity.
  - destruct (text_eqb n t_defined); [|reflexivity]. destruct args as [|x [|y r]]; try reflexivity.
    inversion H; subst. rewrite H2. reflexivity.
  - rewrite (interpolate_ext en en' HL). reflexivity.
Qed.

Lemma holds_same_vals t t' : same_vals t t' -> forall ev, holds t ev -> holds t' ev.
Proof.
  intros S ev. destruct ev; cbn [holds]; auto.
  - intros (d' & H1 & H2). pose proof (same_vals_sym_lookup t t' S scope_nx id) as H. rewrite H1 in H.
    destruct (sym_lookup t' scope_nx id) as [[d'' ty'']|]; [|contradiction]. destruct H as [Ha Hb]. subst ty''.
    exists d''. split; [reflexivity|]. unfold sd_equiv in *. eauto using sdata_eqb_trans, sdata_eqb_sym.
  - intro H. rewrite <- H. apply eval_ext; [|reflexivity]. intro p. cbn. symmetry. apply same_vals_lookup. exact S.
Qed.

(* ------------------------------------------------------------------ the invariant *)
(* what forces another pass: identifiers that were not found and symbols that changed value *)
Definition flags (c : ctx) : list undef := undefined c ++ changed c.
Definition quiet (c c' : ctx) : Prop :=
  flags c' = [] /\ node_count (symbols c') = node_count (symbols c) /\ g_vch c' = g_vch c.
Definition mono (c c' : ctx) : Prop :=
  (flags c' = [] -> flags c = []) /\
  (node_count (symbols c) <= node_count (symbols c'))%nat /\ (g_vch c <= g_vch c')%nat.
(* every step only adds to the undefined set, the node count and the ghost counter; a step that added to none of
   them left the table unchanged (up to stamps), and what it logged is true of that table *)
Definition good (c c' : ctx) : Prop :=
  mono c c' /\
  exists new, g_trace c' = new ++ g_trace c /\
              (quiet c c' -> same_vals (symbols c) (symbols c') /\ Forall (holds (symbols c)) new).

Lemma good_refl c : good c c.
Proof.
  split; [unfold mono; auto with arith|]. exists []. split; [reflexivity|]. intros _. split; [apply same_vals_refl|constructor].
Qed.

Lemma good_trans a b c : good a b -> good b c -> good a c.
Proof.
  intros [(M1 & M2 & M3) (n1 & T1 & Q1)] [(M1' & M2' & M3') (n2 & T2 & Q2)]. split.
  - unfold mono. repeat split; auto; lia.
  - exists (n2 ++ n1). split; [rewrite T2, T1, app_assoc; reflexivity|].
    intros (U & N & V).
    assert (Qab : quiet a b) by (unfold quiet; repeat split; auto; lia).
    assert (Qbc : quiet b c) by (unfold quiet; repeat split; auto; lia).
    destruct (Q1 Qab) as [S1 F1]. destruct (Q2 Qbc) as [S2 F2]. split; [eauto using same_vals_trans|].
    apply Forall_app. split; [|exact F1].
    eapply Forall_impl; [|exact F2]. intros ev. apply holds_same_vals. apply same_vals_sym. exact S1.
Qed.

(* a step that is visibly not quiet only owes monotonicity *)
Lemma good_loud c c' new : mono c c' -> g_trace c' = new ++ g_trace c -> ~ quiet c c' -> good c c'.
Proof. intros M T N. split; [exact M|]. exists new. split; [exact T|]. intro Q. contradiction. Qed.

(* a step that does not touch table, undefined set or counters *)
Lemma good_frame c c' new :
  symbols c' = symbols c -> flags c' = flags c -> g_vch c' = g_vch c -> g_trace c' = new ++ g_trace c ->
  Forall (holds (symbols c)) new -> good c c'.
Proof.
  intros S U V T F. split; [unfold mono; rewrite S, U, V; auto with arith|].
  exists new. split; [exact T|]. intros _. rewrite S. split; [apply same_vals_refl|exact F].
Qed.

(* ------------------------------------------------------------------ table primitives *)
Lemma set_insert_nonempty u s : set_insert u s <> [].
Proof. unfold set_insert. destruct (existsb (undef_eqb u) s) eqn:E; [|discriminate]. destruct s; [discriminate|discriminate]. Qed.

Lemma node_count_add_node (t : symtab symbol) d : node_count (fst (add_node t d)) = S (node_count t).
Proof. unfold add_node. destruct (free t); reflexivity. Qed.
Lemma node_count_insert (t : symtab symbol) p id d : node_count (fst (insert t p id d)) = S (node_count t).
Proof. unfold insert. pose proof (node_count_add_node t d) as H. destruct (add_node t d). cbn in *. exact H. Qed.

Lemma ensure_index_count (t : symtab symbol) p : forall nx,
  (node_count t <= node_count (fst (ensure_index t nx p)))%nat /\
  (node_count (fst (ensure_index t nx p)) = node_count t -> fst (ensure_index t nx p) = t).
Proof.
  revert t. induction p as [|id r IH]; intros t nx; cbn [ensure_index]; [split; auto|].
  destruct (child t nx id); [apply IH|].
  pose proof (node_count_insert t nx id None) as Hi. destruct (insert t nx id None) as [t1 n]. cbn in Hi.
  destruct (IH t1 n) as [H1 H2]. split; [lia|]. intro E. lia.
Qed.

Lemma node_count_update (t : symtab symbol) nx d : node_count (update_data t nx d) = node_count t.
Proof.
  unfold node_count, update_data. cbn. induction (nodes t) as [|[i x] r IH]; cbn; [reflexivity|].
  destruct (Nat.eqb i nx); cbn; auto.
Qed.

Lemma update_equiv l nx (ex sym : symbol) :
  assoc_nat l nx = Some (Some ex) -> sdata_eqb (s_data ex) (s_data sym) = true -> s_ty ex = s_ty sym ->
  Forall2 node_equiv l (update_slot l nx (Some sym)).
Proof.
  intros A E T. induction l as [|[i x] r IH]; cbn in *; [constructor|].
  destruct (Nat.eqb i nx) eqn:Ei.
  - inversion A; subst. constructor; [split; cbn; auto|]. apply Forall2_refl. apply node_equiv_refl.
  - constructor; [apply node_equiv_refl|auto].
Qed.

(* ------------------------------------------------------------------ good for every primitive *)
Notation GM := (RM good).

Lemma flags_undefined_nonempty c id sp : flags (flag_undefined c id sp) <> [].
Proof.
  unfold flags, flag_undefined. cbn. intro H. apply app_eq_nil in H as [H _]. eapply set_insert_nonempty; eauto.
Qed.
Lemma flags_changed_nonempty c id sp : flags (flag_changed c id sp) <> [].
Proof.
  unfold flags, flag_changed. cbn. intro H. apply app_eq_nil in H as [_ H]. eapply set_insert_nonempty; eauto.
Qed.

Lemma good_flag c id sp : good c (flag_undefined c id sp).
Proof.
  apply good_loud with (new := []); [| reflexivity |].
  - unfold mono. repeat split; auto. intro H. exfalso. eapply flags_undefined_nonempty; eauto.
  - intros (U & _). eapply flags_undefined_nonempty; eauto.
Qed.

Ltac simp_ctx :=
  cbn [symbols undefined changed g_vch g_trace current_scope_nx current_scope set_symbols bump_vch flag_undefined flag_changed set_undefined
       set_changed log set_scope set_segments set_macro_id] in *.

Lemma loud_var c t' ev : node_count t' = node_count (symbols c) -> good c (log (bump_vch (set_symbols c t')) ev).
Proof.
  intro N. eapply good_loud with (new := [_]); [| reflexivity |].
  - unfold mono. simp_ctx. rewrite N. auto.
  - intros (_ & _ & V). simp_ctx. lia.
Qed.
Lemma loud_flag c t' id sp ev : node_count t' = node_count (symbols c) -> good c (log (flag_changed (set_symbols c t') id sp) ev).
Proof.
  intro N. eapply good_loud with (new := [_]); [| reflexivity |].
  - unfold mono. split; [|simp_ctx; rewrite N; auto].
    intro H. exfalso. apply (flags_changed_nonempty (set_symbols c t') id sp). exact H.
  - intros (U & _). apply (flags_changed_nonempty (set_symbols c t') id sp). exact U.
Qed.

Lemma good_add_symbol id sym : GM (add_symbol id sym).
Proof.
  intro c. unfold add_symbol.
  destruct (try_index (symbols c) (current_scope_nx c) id) as [nx|] eqn:Ei.
  - destruct (try_get (symbols c) nx) as [ex|] eqn:Eg.
    + destruct (redefinition ex sym) eqn:Er.
      * apply good_refl.
      * destruct (negb (sdata_eqb (s_data ex) (s_data sym))) eqn:Ech.
        -- (* changed value *)
           destruct (symtype_eqb (s_ty sym) TyVariable); [apply loud_var|apply loud_flag]; apply node_count_update.
        -- (* same value: only the stamps change *)
           apply negb_false_iff in Ech.
           assert (Ty : s_ty ex = s_ty sym).
           { unfold redefinition in Er. apply orb_false_iff in Er as [Er _]. apply orb_false_iff in Er as [Er _].
             apply negb_false_iff in Er. apply symtype_eqb_true. exact Er. }
           split; [unfold mono; simp_ctx; rewrite node_count_update; auto|].
           eexists [_]. split; [reflexivity|]. intros _. simp_ctx. split.
           ++ unfold same_vals, update_data. cbn [edges next free nodes]. repeat split; auto. eapply update_equiv; eauto.
              unfold try_get, node_weight in Eg. destruct (assoc_nat (nodes (symbols c)) nx) as [[x|]|]; congruence.
           ++ constructor; [|constructor]. cbn [holds]. exists (s_data ex). split; [|exact Ech].
              unfold sym_lookup. rewrite Ei, Eg, Ty. reflexivity.
    + (* a node without data gets data *)
      destruct (symtype_eqb (s_ty sym) TyVariable); [apply loud_var|apply loud_flag]; apply node_count_update.
  - (* insertion: the node count grows *)
    destruct (split_last (current_scope c ++ id)) as [pp last_id].
    pose proof (ensure_index_count (symbols c) pp root) as [H1 _].
    destruct (ensure_index (symbols c) root pp) as [t1 parent_nx]. cbn [fst] in H1.
    pose proof (node_count_insert t1 parent_nx last_id (Some sym)) as H2.
    destruct (insert t1 parent_nx last_id (Some sym)) as [t2 nx]. cbn [fst] in H2.
    eapply good_loud with (new := [_]); [| reflexivity |].
    + unfold mono. simp_ctx. repeat split; auto. lia.
    + intros (_ & N & _). simp_ctx. lia.
Qed.

Lemma good_emit sp bytes : GM (emit sp bytes).
Proof.
  intro c. unfold emit. destruct (current_segment c); [|apply good_refl].
  destruct (seg_get (segments c) i); [|exact I]. destruct (target_pc s); [|exact I].
  destruct (two64 <=? z + Z.of_nat (length bytes))%Z; [exact I|].
  destruct (seg_emit s bytes); [|apply good_refl|exact I].
  eapply good_frame with (new := [_]); try reflexivity. constructor; [exact I|constructor].
Qed.

Lemma flag_usages_facts ps : forall c,
  symbols (flag_usages c ps) = symbols c /\ g_vch (flag_usages c ps) = g_vch c /\ g_trace (flag_usages c ps) = g_trace c /\
  current_scope_nx (flag_usages c ps) = current_scope_nx c /\
  (flags (flag_usages c ps) = [] -> flags c = []).
Proof.
  induction ps as [|[p sp] r IH]; intro c; cbn [flag_usages]; [repeat split; auto|].
  destruct (lookup_in (symbols c) (current_scope_nx c) p); [apply IH|].
  destruct (IH (flag_undefined c p (Some sp))) as (A & B & C & D & E). cbn in A, B, C, D.
  repeat split; auto. intro H. apply E in H. exfalso. eapply flags_undefined_nonempty; eauto.
Qed.

Lemma good_eval e : GM (evaluate_expression e).
Proof.
  intro c. unfold evaluate_expression.
  assert (G : forall pc, match (if diverges c (le_expr e) then Abort FDiverge
                 else match eval (env_of (symbols c) (current_scope_nx c) pc) (le_expr e) with
                      | EVal v => Ret v (log (flag_usages c (combine (usages (le_expr e)) (le_ids e)))
                                             (EvEval (current_scope_nx c) pc (le_expr e) v))
                      | EErr x => Err [mkDiag (DEval x) None [] []] c
                      | EPanic => Abort FPanic
                      end) with Ret _ c' | Err _ c' => good c c' | Abort _ => True end).
  { intro pc. destruct (diverges c (le_expr e)); [exact I|].
    destruct (eval (env_of (symbols c) (current_scope_nx c) pc) (le_expr e)) as [v|x|] eqn:Ev; [|apply good_refl|exact I].
    destruct (flag_usages_facts (combine (usages (le_expr e)) (le_ids e)) c) as (A & B & C & D & E).
    split; [unfold mono; split; [exact E|cbn [symbols g_vch log]; rewrite A, B; auto]|].
    eexists [_]. split; [cbn; rewrite C; reflexivity|]. intros _. cbn [symbols log]. rewrite A.
    split; [apply same_vals_refl|]. constructor; [exact Ev|constructor]. }
  destruct (try_current_target_pc c); [apply G|apply G|exact I].
Qed.

Lemma good_enter s c : good c (enter_scope s c).
Proof.
  unfold enter_scope. pose proof (ensure_index_count (symbols c) (current_scope c ++ [s]) root) as [H1 H2].
  destruct (ensure_index (symbols c) root (current_scope c ++ [s])) as [t1 nx]. cbn in *.
  split; [unfold mono; cbn; auto|]. exists []. split; [reflexivity|]. intros (_ & N & _). cbn in N.
  rewrite (H2 N). split; [apply same_vals_refl|constructor].
Qed.

Lemma good_import_as p : GM (import_as_scope p).
Proof.
  intro c. unfold import_as_scope. pose proof (ensure_index_count (symbols c) p (current_scope_nx c)) as [H1 H2].
  destruct (ensure_index (symbols c) (current_scope_nx c) p) as [t1 nx]. cbn in *.
  split; [unfold mono; cbn; auto|]. exists []. split; [reflexivity|]. intros (_ & N & _). cbn in N.
  rewrite (H2 N). split; [apply same_vals_refl|constructor].
Qed.

Lemma good_export a b p : GM (export_one a b p).
Proof.
  intro c. unfold export_one, export. destruct (split_last p) as [pp new_id].
  pose proof (ensure_index_count (symbols c) pp b) as [H1 _].
  destruct (ensure_index (symbols c) b pp) as [t1 new_nx]. cbn in H1.
  destruct (existsb _ (edges t1)); (eapply good_loud with (new := []); [| reflexivity |];
    [unfold mono; cbn; repeat split; auto | intros (_ & _ & V); cbn in V; lia]).
Qed.

Lemma good_leave p n c : good c (leave_scope p n c).
Proof. eapply good_frame with (new := []); try reflexivity. constructor. Qed.
Lemma good_install n o c : good c (install_segment n o c).
Proof. eapply good_frame with (new := [_]); try reflexivity. constructor; [exact I|constructor]. Qed.
Lemma good_setpc pc c : good c (set_current_pc pc c).
Proof.
  unfold set_current_pc. destruct (current_segment c); [|apply good_refl].
  destruct (seg_get (segments c) i); [|apply good_refl]. eapply good_frame with (new := []); try reflexivity. constructor.
Qed.
Lemma good_select o c : good c (select_segment o c).
Proof. eapply good_frame with (new := []); try reflexivity. constructor. Qed.
Lemma good_bump c : good c (bump_macro_id c).
Proof. eapply good_frame with (new := []); try reflexivity. constructor. Qed.

(* ------------------------------------------------------------------ lifted through emit_token and a pass *)
Theorem run_pass_good fuel toks c errs c' : run_pass fuel toks c = PassOk errs c' -> good c c'.
Proof.
  apply (run_pass_R good good_refl good_trans good_add_symbol good_emit good_eval good_enter good_leave good_install
           good_setpc good_select good_bump (fun id sp c => good_flag c id sp) good_export good_import_as).
Qed.

Theorem emit_token_good fuel t c :
  match emit_token fuel t c with Ret _ c' | Err _ c' => good c c' | Abort _ => True end.
Proof.
  apply (RM_emit_token good good_refl good_trans good_add_symbol good_emit good_eval good_enter good_leave good_install
           good_setpc good_select good_bump (fun id sp c => good_flag c id sp) good_export good_import_as).
Qed.

(* C02_clean_static_stable *)
Theorem clean_static_stable fuel toks c errs c' :
  run_pass fuel toks c = PassOk errs c' ->
  undefined c' = [] -> changed c' = [] -> node_count (symbols c') = node_count (symbols c) -> g_vch c' = g_vch c ->
  same_vals (symbols c) (symbols c').
Proof.
  intros H U C N V. destruct (run_pass_good _ _ _ _ _ H) as [_ (new & _ & Q)].
  destruct Q as [S _]; [unfold quiet, flags; rewrite U, C; auto|exact S].
Qed.

Lemma pass_deterministic fuel toks c c' r r' : c = c' -> run_pass fuel toks c = r -> run_pass fuel toks c' = r' -> r = r'.
Proof. intros; subst; reflexivity. Qed.

(* ------------------------------------------------------------------ the pass loop *)
Lemma stop_rule_counts_symbols : stop_needs_no_new_symbols = true.
Proof. reflexivity. Qed.

(* every segment is as Segment::reset / Segment::new leaves it *)
Definition fresh_segs (c : ctx) : Prop :=
  forall name s, seg_get (segments c) name = Some s -> g_writes s = [] /\ g_has_data s = false.

Lemma seg_get_map_reset l name s :
  seg_get (map (fun ns => (fst ns, seg_reset (snd ns))) l) name = Some s -> g_writes s = [] /\ g_has_data s = false.
Proof.
  induction l as [|[k x] r IH]; cbn [map seg_get fst snd]; [discriminate|]. destruct (ident_eqb k name); [|exact IH].
  intro H. inversion H; subst. split; reflexivity.
Qed.
Lemma fresh_next_pass c : fresh_segs (next_pass c).
Proof. intros name s. unfold next_pass. cbn [segments]. apply seg_get_map_reset. Qed.

Lemma pass_loop_done passes fuel o toks : forall c pu pe cf,
  pass_loop passes fuel o toks c pu pe = Done cf ->
  g_trace c = [] -> g_vch c = 0%nat -> fresh_segs c ->
  exists c0, g_trace c0 = [] /\ g_vch c0 = 0%nat /\ fresh_segs c0 /\ run_pass fuel toks c0 = PassOk [] cf /\
             (undefined cf = [] /\ changed cf = []) /\ node_count (symbols cf) = node_count (symbols c0).
Proof.
  induction passes as [|n IH]; intros c pu pe cf H T V FS; cbn [pass_loop] in H; [discriminate|].
  destruct (run_pass fuel toks c) as [errors c1|f] eqn:ER; [|discriminate].
  destruct (segments c1) as [|sg sgs] eqn:ES.
  - apply IH in H; auto using fresh_next_pass.
  - destruct ((match errors with [] => false | _ :: _ => true end) && diags_eqb errors pe); [discriminate|].
    destruct errors as [|e es].
    + rewrite stop_rule_counts_symbols in H. cbn [negb orb] in H.
      destruct (undefined c1) as [|u us] eqn:EU.
      * cbn [andb] in H. destruct (changed c1) as [|ch chs] eqn:EC.
        -- cbn [andb] in H.
           destruct (negb (negb (Nat.eqb (node_count (symbols c1)) (node_count (symbols c))))) eqn:EN.
           ++ inversion H; subst cf. rewrite negb_involutive in EN. apply Nat.eqb_eq in EN.
              exact (ex_intro _ c (conj T (conj V (conj FS (conj ER (conj (conj EU EC) EN)))))).
           ++ destruct ((negb unknown_needs_nonempty || negb true) && set_eqb [] pu); [discriminate|].
              apply IH in H; auto using fresh_next_pass.
        -- cbn [andb] in H. destruct ((negb unknown_needs_nonempty || negb true) && set_eqb [] pu); [discriminate|].
           apply IH in H; auto using fresh_next_pass.
      * cbn [andb] in H. destruct ((negb unknown_needs_nonempty || negb false) && set_eqb (u :: us) pu); [discriminate|].
        apply IH in H; auto using fresh_next_pass.
    + apply IH in H; auto using fresh_next_pass.
Qed.

Lemma fresh_initial o : fresh_segs (initial_ctx o).
Proof. intros name s. unfold initial_ctx. cbn [segments seg_get]. discriminate. Qed.

(* C02_fixed_point *)
Theorem fixed_point passes fuel o toks cf :
  codegen passes fuel o toks = Done cf -> no_silent_change cf -> FixedPoint cf.
Proof.
  unfold codegen, no_silent_change, FixedPoint. intros H V.
  apply pass_loop_done in H; [|reflexivity|reflexivity|apply fresh_initial].
  destruct H as (c0 & T0 & V0 & _ & HR & [U C] & N).
  destruct (run_pass_good _ _ _ _ _ HR) as [_ (new & TN & Q)].
  rewrite T0, app_nil_r in TN. rewrite TN.
  destruct Q as [S F]; [unfold quiet, flags; rewrite U, C; repeat split; auto; congruence|].
  eapply Forall_impl; [|exact F]. intro ev. apply holds_same_vals. exact S.
Qed.

(* what the stop rule establishes on its own *)
Theorem done_is_stable passes fuel o toks cf :
  codegen passes fuel o toks = Done cf ->
  (undefined cf = [] /\ changed cf = []) /\
  exists c0, run_pass fuel toks c0 = PassOk [] cf /\ g_trace c0 = [] /\ node_count (symbols cf) = node_count (symbols c0).
Proof.
  unfold codegen. intro H. apply pass_loop_done in H; [|reflexivity|reflexivity|apply fresh_initial].
  destruct H as (c0 & T0 & V0 & _ & HR & U & N). split; [exact U|]. exists c0. auto.
Qed.

(* C20, second sweep: a debugger front end connects (DapConnect) at an arbitrary moment while the editor shuts the
   server down.  Kept in its own file because the exhaustive sweep takes about 25 s. *)
From Coq Require Import List Bool Arith.
Import ListNotations.
From Mos Require Import model.Life proofs.LifeProofs.

Definition reconnect_depth : nat := 60.

Lemma reconnect_check : forallb (all_paths_to v_repaired clean_exit reconnect_depth) reconnect_initial = true.
Proof. vm_compute. reflexivity. Qed.

Theorem exit_clean_reconnect : forall s0, In s0 reconnect_initial ->
  forall s, reachable v_repaired s0 s -> inev v_repaired clean_exit reconnect_depth s.
Proof.
  intros s0 Hin s R. eapply inev_reachable; [|eassumption].
  apply all_paths_to_sound. pose proof reconnect_check as C. rewrite forallb_forall in C. apply C. assumption.
Qed.

(* C06 over the parser model of C05: every statement alternative and the `error` recovery token consume at least one
   character when they succeed, so the statement loop `many0(alt((statement, error)))` never reports nom's no-progress
   error -- the only way `all_consuming(source_file)(input).ok().unwrap()` could panic.  Two compositional predicates:
   mono (a success never grows the input) for every grammar function, cons (a success shrinks it) for what leads a statement. *)
From Coq Require Import List NArith Bool Arith Lia.
Import ListNotations.
From Mos Require Import model.Utf model.Nom Gen.ParserTables Gen.ExprGrammar model.Parser
  proofs.NomProofs proofs.TriviaProofs proofs.ParserTotalProofs.

Definition mono {A} (p : parser A) : Prop :=
  forall st i st' v r, p st i = (st', Ok v r) -> (length (rem r) <= length (rem i))%nat.
Definition cons {A} (p : parser A) : Prop :=
  forall st i st' v r, p st i = (st', Ok v r) -> (length (rem r) < length (rem i))%nat.

Lemma cons_mono {A} (p : parser A) : cons p -> mono p.
Proof. intros H st i st' v r E. specialize (H _ _ _ _ _ E). lia. Qed.

Create HintDb mono discriminated.
Create HintDb cons discriminated.

Ltac inv E := inversion E; subst; clear E.

(* ---- terminals ---- *)
Lemma consume_rem a b i : rem (consume a b i) = b. Proof. reflexivity. Qed.

Lemma mono_take_while0 f : mono (take_while0_p f).
Proof.
  intros st i st' v r E. unfold take_while0_p in E. destruct (take_while f (rem i)) as [a b] eqn:T. inv E.
  rewrite consume_rem, (take_while_app _ _ _ _ T), app_length. lia.
Qed.
Lemma cons_take_while1 f : cons (take_while1_p f).
Proof.
  intros st i st' v r E. unfold take_while1_p in E. destruct (take_while f (rem i)) as [a b] eqn:T.
  destruct a as [|x a]; [discriminate|]. inv E. rewrite consume_rem, (take_while_app _ _ _ _ T), app_length. cbn. lia.
Qed.
Lemma mono_rest : mono rest.
Proof. intros st i st' v r E. unfold rest in E. inv E. cbn. lia. Qed.
Lemma cons_satisfy f : cons (satisfy f).
Proof.
  intros st i st' v r E. unfold satisfy in E. destruct (rem i) as [|c s] eqn:R; [discriminate|].
  destruct (f c); [|discriminate]. inv E. rewrite consume_rem. cbn. lia.
Qed.
Lemma mono_take n : mono (take n).
Proof.
  intros st i st' v r E. unfold take in E. destruct (n <=? _)%nat; [|discriminate]. inv E.
  rewrite consume_rem, skipn_length. lia.
Qed.
Lemma is_prefix_length t : forall s, is_prefix t s = true -> (length t <= length s)%nat.
Proof.
  induction t as [|x t IH]; intros s H; cbn in *; [lia|]. destruct s as [|c s]; [discriminate|].
  apply andb_prop in H as [_ H]. specialize (IH _ H). cbn. lia.
Qed.
Lemma mono_tag t : mono (tag t).
Proof.
  intros st i st' v r E. unfold tag in E. destruct (is_prefix t (rem i)); [|discriminate]. inv E.
  rewrite consume_rem, skipn_length. lia.
Qed.
Lemma cons_tag t : t <> [] -> cons (tag t).
Proof.
  intros N st i st' v r E. unfold tag in E. destruct (is_prefix t (rem i)) eqn:P; [|discriminate]. inv E.
  rewrite consume_rem, skipn_length. pose proof (is_prefix_length _ _ P). destruct t; [congruence|]. cbn in *. lia.
Qed.
Lemma take_bytes_nonempty s n a b : take_bytes s n = BExact a b -> n <> O -> a <> [].
Proof.
  intros H N. destruct n; [congruence|]. destruct s as [|c s]; cbn [take_bytes] in H; [discriminate|].
  destruct (width_utf8 c <=? S n)%nat; [|discriminate].
  destruct (take_bytes s (S n - width_utf8 c)) as [a' b'| |]; try discriminate. inv H. discriminate.
Qed.
Lemma mono_tag_no_case t : mono (tag_no_case t).
Proof.
  intros st i st' v r E. unfold tag_no_case in E. destruct (take_bytes (rem i) (length t)) as [a b| |] eqn:T; try discriminate.
  destruct (_ && _); [|discriminate]. inv E. rewrite consume_rem, (take_bytes_app _ _ _ _ T), app_length. lia.
Qed.
Lemma cons_tag_no_case t : t <> [] -> cons (tag_no_case t).
Proof.
  intros N st i st' v r E. unfold tag_no_case in E. destruct (take_bytes (rem i) (length t)) as [a b| |] eqn:T; try discriminate.
  destruct (_ && _); [|discriminate].
  assert (Na : a <> []) by (eapply take_bytes_nonempty; [exact T | destruct t; [congruence | discriminate]]).
  pose proof (take_bytes_app _ _ _ _ T) as Ha. inv E. rewrite consume_rem, Ha, app_length.
  destruct v; [congruence|]. cbn. lia.
Qed.
Lemma mono_value {A} (v : A) : mono (value_p v).
Proof. intros st i st' x r E. unfold value_p in E. inv E. lia. Qed.
Lemma cons_fail {A} : cons (fun st (_ : input) => (st, @Err A)). Proof. intros st i st' v r E. discriminate. Qed.
Lemma cons_out_of_fuel {A} : cons (@out_of_fuel A). Proof. intros st i st' v r E. discriminate. Qed.
#[export] Hint Resolve mono_take_while0 mono_rest mono_take mono_tag mono_tag_no_case mono_value : mono.
Lemma mono_take_while1 f : mono (take_while1_p f). Proof. apply cons_mono, cons_take_while1. Qed.
Lemma mono_satisfy f : mono (satisfy f). Proof. apply cons_mono, cons_satisfy. Qed.
Lemma mono_fail {A} : mono (fun st (_ : input) => (st, @Err A)). Proof. apply cons_mono, cons_fail. Qed.
Lemma mono_out_of_fuel {A} : mono (@out_of_fuel A). Proof. apply cons_mono, cons_out_of_fuel. Qed.
#[export] Hint Resolve mono_take_while1 mono_satisfy mono_fail mono_out_of_fuel : mono.
Lemma mono_space1 : mono space1. Proof. apply mono_take_while1. Qed.
Lemma mono_alpha1 : mono alpha1. Proof. apply mono_take_while1. Qed.
Lemma mono_alphanumeric1 : mono alphanumeric1. Proof. apply mono_take_while1. Qed.
Lemma mono_hex_digit1 : mono hex_digit1. Proof. apply mono_take_while1. Qed.
Lemma mono_is_a cs : mono (is_a cs). Proof. apply mono_take_while1. Qed.
Lemma mono_is_not cs : mono (is_not cs). Proof. apply mono_take_while1. Qed.
Lemma mono_take_till f : mono (take_till f). Proof. apply mono_take_while0. Qed.
Lemma mono_take_till1 f : mono (take_till1 f). Proof. apply mono_take_while1. Qed.
Lemma mono_char_p c : mono (char_p c). Proof. apply mono_satisfy. Qed.
Lemma mono_one_of cs : mono (one_of cs). Proof. apply mono_satisfy. Qed.
Lemma mono_none_of cs : mono (none_of cs). Proof. apply mono_satisfy. Qed.
#[export] Hint Resolve mono_space1 mono_alpha1 mono_alphanumeric1 mono_hex_digit1 mono_is_a mono_is_not mono_take_till mono_take_till1
  mono_char_p mono_one_of mono_none_of : mono.
Lemma cons_alpha1 : cons alpha1. Proof. apply cons_take_while1. Qed.
Lemma cons_take_till1 f : cons (take_till1 f). Proof. apply cons_take_while1. Qed.
Lemma cons_char_p c : cons (char_p c). Proof. apply cons_satisfy. Qed.
Lemma cons_one_of cs : cons (one_of cs). Proof. apply cons_satisfy. Qed.
#[export] Hint Resolve cons_alpha1 cons_take_till1 cons_char_p cons_one_of cons_take_while1 cons_satisfy cons_fail cons_out_of_fuel : cons.

(* ---- combinators: mono ---- *)
Lemma mono_map {A B} (f : A -> B) p : mono p -> mono (map_p f p).
Proof. intros H st i st' v r E. unfold map_p in E. destruct (p st i) as [st1 [a r1| |x]] eqn:P; inv E. eapply H; eassumption. Qed.
Lemma mono_pair {A B} (p : parser A) (q : parser B) : mono p -> mono q -> mono (pair_p p q).
Proof.
  intros Hp Hq st i st' v r E. unfold pair_p in E. destruct (p st i) as [st1 [a r1| |x]] eqn:P; try discriminate.
  destruct (q st1 r1) as [st2 [b r2| |y]] eqn:Q; inv E. specialize (Hp _ _ _ _ _ P). specialize (Hq _ _ _ _ _ Q). lia.
Qed.
Lemma mono_alt {A} (p q : parser A) : mono p -> mono q -> mono (alt p q).
Proof.
  intros Hp Hq st i st' v r E. unfold alt in E. destruct (p st i) as [st1 [a r1| |x]] eqn:P.
  - inv E. eapply Hp; eassumption.
  - eapply Hq; eassumption.
  - discriminate.
Qed.
Lemma mono_alts {A} (ps : list (parser A)) : Forall mono ps -> mono (alts ps).
Proof. induction 1; cbn [alts]; [apply mono_fail | apply mono_alt; assumption]. Qed.
Lemma mono_alts_map {A E} (g : E -> parser A) (table : list E) : (forall e, mono (g e)) -> mono (alts (map g table)).
Proof. intros H. apply mono_alts. induction table; cbn; constructor; auto. Qed.
Lemma mono_opt {A} (p : parser A) : mono p -> mono (opt p).
Proof. intros H st i st' v r E. unfold opt in E. destruct (p st i) as [st1 [a r1| |x]] eqn:P; inv E; [eapply H; eassumption | lia]. Qed.
Lemma mono_not {A} (p : parser A) : mono (not_p p).
Proof. intros st i st' v r E. unfold not_p in E. destruct (p st i) as [st1 [a r1| |x]]; inv E. lia. Qed.
Lemma mono_peek {A} (p : parser A) : mono (peek p).
Proof. intros st i st' v r E. unfold peek in E. destruct (p st i) as [st1 [a r1| |x]]; inv E. lia. Qed.
Lemma mono_recognize {A} (p : parser A) : mono p -> mono (recognize p).
Proof. intros H st i st' v r E. unfold recognize in E. destruct (p st i) as [st1 [a r1| |x]] eqn:P; inv E. eapply H; eassumption. Qed.
Lemma mono_many0_aux {A} (p : parser A) fuel : mono p -> mono (many0_aux fuel p).
Proof.
  intros H. induction fuel as [|f IH]; intros st i st' v r E; cbn [many0_aux] in E; [discriminate|].
  destruct (p st i) as [st1 [a r1| |x]] eqn:P; try discriminate.
  - destruct (_ =? _)%nat; [discriminate|]. destruct (many0_aux f p st1 r1) as [st2 [l r2| |y]] eqn:M; inv E.
    specialize (H _ _ _ _ _ P). specialize (IH _ _ _ _ _ M). lia.
  - inv E. lia.
Qed.
Lemma mono_many0 {A} (p : parser A) : mono p -> mono (many0 p).
Proof. intros H st i st' v r E. unfold many0 in E. eapply mono_many0_aux; eassumption. Qed.
Lemma mono_many1 {A} (p : parser A) : mono p -> mono (many1 p).
Proof. intros H. unfold many1. apply mono_map, mono_pair; [exact H | apply mono_many0; exact H]. Qed.
Lemma mono_separated_list1 {A B} (sep : parser B) (f : parser A) : mono sep -> mono f -> mono (separated_list1 sep f).
Proof. intros Hs Hf. unfold separated_list1. apply mono_map, mono_pair; [exact Hf | apply mono_many0, mono_pair; assumption]. Qed.
Lemma mono_expect {A} (p : parser A) m : mono p -> mono (expect p m).
Proof.
  intros H st i st' v r E. unfold expect in E. destruct (p st i) as [st1 [a r1| |x]] eqn:P; try discriminate.
  - inv E. eapply H; eassumption.
  - destruct m; inv E; lia.
Qed.
Lemma mono_nested {A} n (p : parser A) : mono p -> mono (nested n p).
Proof.
  intros H st i st' v r E. unfold nested in E. destruct (_ <=? n)%nat; [|discriminate].
  destruct (p (enter_nesting st) i) as [st2 res] eqn:P. inv E. eapply H; eassumption.
Qed.
Lemma mono_located {A} (p : parser A) : mono p -> mono (located_p p).
Proof. intros H st i st' v r E. unfold located_p in E. destruct (p st i) as [st1 [a r1| |x]] eqn:P; inv E. eapply H; eassumption. Qed.
Lemma mono_with_trivia {A} tp (p : parser A) : mono tp -> mono p -> mono (with_trivia tp p).
Proof.
  intros Ht Hp st i st' v r E. unfold with_trivia in E. destruct (opt tp st i) as [st1 [t r1| |x]] eqn:O; try discriminate.
  destruct (p st1 r1) as [st2 [a r2| |y]] eqn:P; inv E.
  pose proof (mono_opt tp Ht _ _ _ _ _ O). specialize (Hp _ _ _ _ _ P). lia.
Qed.
Lemma mono_with_scope {A B} (p : parser A) (f : A -> nat -> B) : mono p -> mono (with_scope p f).
Proof.
  intros H st i st' v r E. unfold with_scope in E. destruct (p st i) as [st1 [a r1| |x]] eqn:P; try discriminate.
  destruct (new_anonymous_scope st1). inv E. eapply H; eassumption.
Qed.
#[export] Hint Resolve mono_map mono_pair mono_alt mono_alts_map mono_opt mono_not mono_peek mono_recognize mono_many0 mono_many1
  mono_separated_list1 mono_expect mono_nested mono_located mono_with_trivia mono_with_scope : mono.

(* ---- combinators: cons ---- *)
Lemma cons_map {A B} (f : A -> B) p : cons p -> cons (map_p f p).
Proof. intros H st i st' v r E. unfold map_p in E. destruct (p st i) as [st1 [a r1| |x]] eqn:P; inv E. eapply H; eassumption. Qed.
Lemma cons_pair_l {A B} (p : parser A) (q : parser B) : cons p -> mono q -> cons (pair_p p q).
Proof.
  intros Hp Hq st i st' v r E. unfold pair_p in E. destruct (p st i) as [st1 [a r1| |x]] eqn:P; try discriminate.
  destruct (q st1 r1) as [st2 [b r2| |y]] eqn:Q; inv E. specialize (Hp _ _ _ _ _ P). specialize (Hq _ _ _ _ _ Q). lia.
Qed.
Lemma cons_alt {A} (p q : parser A) : cons p -> cons q -> cons (alt p q).
Proof.
  intros Hp Hq st i st' v r E. unfold alt in E. destruct (p st i) as [st1 [a r1| |x]] eqn:P.
  - inv E. eapply Hp; eassumption.
  - eapply Hq; eassumption.
  - discriminate.
Qed.
Lemma cons_alts {A} (ps : list (parser A)) : Forall cons ps -> cons (alts ps).
Proof. induction 1; cbn [alts]; [apply cons_fail | apply cons_alt; assumption]. Qed.
Lemma cons_alts_map {A E} (g : E -> parser A) (table : list E) : Forall (fun e => cons (g e)) table -> cons (alts (map g table)).
Proof. intros H. apply cons_alts. induction H; cbn; constructor; auto. Qed.
Lemma cons_recognize {A} (p : parser A) : cons p -> cons (recognize p).
Proof. intros H st i st' v r E. unfold recognize in E. destruct (p st i) as [st1 [a r1| |x]] eqn:P; inv E. eapply H; eassumption. Qed.
Lemma cons_located {A} (p : parser A) : cons p -> cons (located_p p).
Proof. intros H st i st' v r E. unfold located_p in E. destruct (p st i) as [st1 [a r1| |x]] eqn:P; inv E. eapply H; eassumption. Qed.
Lemma cons_with_trivia {A} tp (p : parser A) : mono tp -> cons p -> cons (with_trivia tp p).
Proof.
  intros Ht Hp st i st' v r E. unfold with_trivia in E. destruct (opt tp st i) as [st1 [t r1| |x]] eqn:O; try discriminate.
  destruct (p st1 r1) as [st2 [a r2| |y]] eqn:P; inv E.
  pose proof (mono_opt tp Ht _ _ _ _ _ O). specialize (Hp _ _ _ _ _ P). lia.
Qed.
Lemma cons_with_scope {A B} (p : parser A) (f : A -> nat -> B) : cons p -> cons (with_scope p f).
Proof.
  intros H st i st' v r E. unfold with_scope in E. destruct (p st i) as [st1 [a r1| |x]] eqn:P; try discriminate.
  destruct (new_anonymous_scope st1). inv E. eapply H; eassumption.
Qed.
#[export] Hint Resolve cons_map cons_pair_l cons_alt cons_recognize cons_located cons_with_scope : cons.

(* ---- trivia ---- *)
Lemma mono_cpp_comment : mono cpp_comment. Proof. unfold cpp_comment. auto 10 with mono. Qed.
Lemma mono_c_comment : mono c_comment.
Proof.
  intros st i st' v r E. unfold c_comment in E. destruct (tag t_slash_star st i) as [st1 [a r1| |x]] eqn:T; try discriminate.
  pose proof (mono_tag _ _ _ _ _ _ T) as H1.
  destruct (c_comment_scan 0 (rem r1)) as [[a' b] t] eqn:S. pose proof (c_comment_scan_app _ _ _ _ _ S) as H2.
  assert (L : (length b <= length (rem i))%nat) by (rewrite H2, app_length in H1; lia).
  destruct t; inv E; rewrite consume_rem; exact L.
Qed.
#[export] Hint Resolve mono_cpp_comment mono_c_comment : mono.
Lemma mono_trivia_impl : mono trivia_impl. Proof. unfold trivia_impl. apply mono_alts. repeat constructor; auto with mono. Qed.
Lemma mono_newline : mono newline. Proof. unfold newline. auto 10 with mono. Qed.
#[export] Hint Resolve mono_trivia_impl mono_newline : mono.
Lemma mono_trivia_p : mono trivia_p. Proof. unfold trivia_p. auto 10 with mono. Qed.
Lemma mono_multiline_trivia : mono multiline_trivia. Proof. unfold multiline_trivia. auto 10 with mono. Qed.
#[export] Hint Resolve mono_trivia_p mono_multiline_trivia : mono.
Lemma mono_wr {A} w (p : parser A) : mono p -> mono (wr w p).
Proof. intros. destruct w; cbn [wr]; unfold ws, mws; auto with mono. Qed.
Lemma cons_wr {A} w (p : parser A) : cons p -> cons (wr w p).
Proof. intros. destruct w; cbn [wr]; unfold ws, mws; auto using cons_with_trivia, cons_located with mono. Qed.
#[export] Hint Resolve mono_wr : mono.
#[export] Hint Resolve cons_wr : cons.

(* ---- identifiers, strings, numbers ---- *)
Lemma cons_identifier_name : cons identifier_name.
Proof.
  unfold identifier_name. apply cons_recognize, cons_pair_l; [|auto 10 with mono].
  apply cons_alt; [apply cons_alpha1 | apply cons_tag; discriminate].
Qed.
Lemma mono_identifier_name : mono identifier_name. Proof. apply cons_mono, cons_identifier_name. Qed.
Lemma mono_identifier_scope : mono identifier_scope. Proof. unfold identifier_scope. auto 12 with mono. Qed.
#[export] Hint Resolve mono_identifier_name mono_identifier_scope : mono.
#[export] Hint Resolve cons_identifier_name : cons.
Lemma mono_identifier_path : mono identifier_path. Proof. unfold identifier_path. auto 12 with mono. Qed.
Lemma mono_keyword_p k : mono (keyword_p k). Proof. unfold keyword_p. auto with mono. Qed.
Lemma cons_keyword_p k : fst k <> [] -> cons (keyword_p k). Proof. intros. unfold keyword_p. apply cons_map, cons_tag_no_case. assumption. Qed.
Lemma mono_tagged {V} (table : list (text * V)) : mono (tagged table). Proof. unfold tagged. apply mono_alts_map. intros e. auto with mono. Qed.
Lemma cons_tagged {V} (table : list (text * V)) : Forall (fun e => fst e <> []) table -> cons (tagged table).
Proof.
  intros H. unfold tagged. apply cons_alts_map. induction H; constructor; auto. apply cons_map, cons_tag_no_case. assumption.
Qed.
#[export] Hint Resolve mono_identifier_path mono_keyword_p mono_tagged : mono.
Lemma mono_string_chunk w : mono (string_chunk w). Proof. unfold string_chunk. auto 12 with mono. Qed.
#[export] Hint Resolve mono_string_chunk : mono.
Lemma mono_interpolated_string : mono interpolated_string. Proof. unfold interpolated_string. auto 20 with mono. Qed.
Lemma mono_quoted_string : mono quoted_string. Proof. unfold quoted_string. auto 20 with mono. Qed.
#[export] Hint Resolve mono_interpolated_string mono_quoted_string : mono.
Lemma mono_operator table : mono (operator table). Proof. unfold operator. apply mono_alts_map. intros e. auto with mono. Qed.
#[export] Hint Resolve mono_operator : mono.

Lemma mono_arg_list_loop {T} (item : parser T) fuel : mono item -> forall acc cur, mono (arg_list_loop fuel item acc cur).
Proof.
  intros H. induction fuel as [|f IH]; intros acc cur st i st' v r E; cbn [arg_list_loop] in E; [discriminate|].
  set (pc := wr (slot W_arg_list 1) (char_p 44)) in E. set (pi := wr (slot W_arg_list 2) item) in E.
  assert (Hc : mono pc) by (apply mono_wr, mono_char_p). assert (Hi : mono pi) by (apply mono_wr, H). clearbody pc pi.
  destruct (pc st i) as [st1 [comma r1| |x]] eqn:C; try discriminate.
  - destruct (pi st1 r1) as [st2 [next r2| |y]] eqn:N; try discriminate.
    specialize (Hc _ _ _ _ _ C). specialize (Hi _ _ _ _ _ N). specialize (IH _ _ _ _ _ _ _ E). lia.
  - inv E. lia.
Qed.
Lemma mono_arg_list {T} (item : parser T) : mono item -> mono (arg_list item).
Proof.
  intros H st i st' v r E. unfold arg_list in E. set (pi := wr (slot W_arg_list 0) item) in E.
  assert (Hi : mono pi) by (apply mono_wr, H). clearbody pi.
  destruct (pi st i) as [st1 [first r1| |x]] eqn:F; try discriminate.
  specialize (Hi _ _ _ _ _ F). pose proof (mono_arg_list_loop item _ H _ _ _ _ _ _ _ E). lia.
Qed.
#[export] Hint Resolve mono_arg_list : mono.
Lemma mono_identifier_arg_list : mono identifier_arg_list. Proof. unfold identifier_arg_list. auto with mono. Qed.
Lemma mono_number : mono number.
Proof. unfold number. apply mono_wr, mono_map, mono_alts. repeat constructor; auto 12 with mono. Qed.
Lemma mono_modifier_p : mono modifier_p. Proof. unfold modifier_p. apply mono_alts_map. intros e. auto with mono. Qed.
#[export] Hint Resolve mono_identifier_arg_list mono_number mono_modifier_p : mono.
Lemma mono_identifier_value : mono identifier_value. Proof. unfold identifier_value. auto 12 with mono. Qed.
Lemma mono_current_pc : mono current_pc. Proof. unfold current_pc. auto 12 with mono. Qed.
Lemma mono_interpolated_string_factor : mono interpolated_string_factor. Proof. unfold interpolated_string_factor. auto 12 with mono. Qed.
#[export] Hint Resolve mono_identifier_value mono_current_pc mono_interpolated_string_factor : mono.

(* ---- expressions ---- *)
Section Expr.
  Variable p_expr : parser (located expr).
  Hypothesis Hp : mono p_expr.
  Lemma mono_expression_arg_list : mono (expression_arg_list p_expr). Proof. unfold expression_arg_list. auto with mono. Qed.
  Lemma mono_expression_parens : mono (expression_parens p_expr). Proof. unfold expression_parens. auto 15 with mono. Qed.
  Lemma mono_fn_call_parts m : mono (fn_call_parts p_expr m).
  Proof. unfold fn_call_parts. pose proof mono_expression_arg_list. destruct m; auto 15 with mono. Qed.
  Lemma cons_fn_call_parts m : cons (fn_call_parts p_expr m).
  Proof. unfold fn_call_parts. pose proof mono_expression_arg_list. destruct m; (apply cons_pair_l; [apply cons_wr, cons_identifier_name | auto 15 with mono]). Qed.
  Lemma mono_fn_call_impl m : mono (fn_call_impl p_expr m). Proof. unfold fn_call_impl. pose proof (mono_fn_call_parts m). auto with mono. Qed.
  Lemma mono_factor_alt k : mono (factor_alt p_expr k).
  Proof. destruct k; cbn [factor_alt]; auto using mono_expression_parens with mono. unfold fn_call. apply mono_fn_call_impl. Qed.
  Lemma mono_expression_factor_inner : mono (expression_factor_inner p_expr).
  Proof. unfold expression_factor_inner. apply mono_alts_map. apply mono_factor_alt. Qed.
  Lemma mono_expression_factor : mono (expression_factor p_expr).
  Proof. unfold expression_factor. pose proof mono_expression_factor_inner. auto 15 with mono. Qed.
  Lemma mono_expression_term : mono (expression_term p_expr).
  Proof. unfold expression_term. pose proof mono_expression_factor. auto 15 with mono. Qed.
  Lemma mono_expression_body : mono (expression_body p_expr).
  Proof. unfold expression_body. pose proof mono_expression_term. auto 15 with mono. Qed.
End Expr.

Lemma mono_expression_fuel fuel : mono (expression_fuel fuel).
Proof.
  induction fuel as [|f IH]; cbn [expression_fuel]; [apply mono_out_of_fuel|].
  intros st i st' v r E. eapply (mono_expression_body _ IH); eassumption.
Qed.
Lemma mono_expression : mono expression. Proof. intros st i st' v r E. unfold expression in E. eapply mono_expression_fuel; eassumption. Qed.
#[export] Hint Resolve mono_expression : mono.
Lemma mono_expression_args : mono expression_args. Proof. unfold expression_args. apply mono_expression_arg_list. exact mono_expression. Qed.
#[export] Hint Resolve mono_expression_args : mono.

(* ---- operands, instructions, config maps ---- *)
Lemma mono_register_suffix_p e : mono (register_suffix_p e). Proof. unfold register_suffix_p. auto 12 with mono. Qed.
Lemma mono_optional_suffix : mono optional_suffix. Proof. unfold optional_suffix. apply mono_opt, mono_alts_map, mono_register_suffix_p. Qed.
#[export] Hint Resolve mono_optional_suffix : mono.
Lemma mono_operand : mono operand. Proof. unfold operand. apply mono_alts. repeat constructor; auto 15 with mono. Qed.
#[export] Hint Resolve mono_operand : mono.
Lemma mono_config_key : mono config_key. Proof. unfold config_key. auto 12 with mono. Qed.
#[export] Hint Resolve mono_config_key : mono.
Lemma mono_config_map_body p : mono p -> mono (config_map_body p).
Proof. intros H. unfold config_map_body, kvp. auto 20 with mono. Qed.
Lemma mono_config_map_fuel fuel : mono (config_map_fuel fuel).
Proof.
  induction fuel as [|f IH]; cbn [config_map_fuel]; [apply mono_out_of_fuel|].
  intros st i st' v r E. eapply (mono_config_map_body _ IH); eassumption.
Qed.
Lemma mono_config_map : mono config_map. Proof. intros st i st' v r E. unfold config_map in E. eapply mono_config_map_fuel; eassumption. Qed.
#[export] Hint Resolve mono_config_map : mono.

(* the keyword tables (translated from the source): no empty tag *)
Definition nonempty_tag {V} (e : text * V) : bool := match fst e with [] => false | _ => true end.
Lemma nonempty_tag_ok {V} (e : text * V) : nonempty_tag e = true -> fst e <> [].
Proof. unfold nonempty_tag. destruct (fst e); [discriminate | discriminate]. Qed.
Lemma forall_nonempty {V} (table : list (text * V)) : forallb nonempty_tag table = true -> Forall (fun e => fst e <> []) table.
Proof. intros H. rewrite forallb_forall in H. apply Forall_forall. intros e I. apply nonempty_tag_ok, H, I. Qed.
Lemma cons_mnemonic_of table : forallb nonempty_tag table = true -> cons (mnemonic_of table).
Proof.
  intros H. unfold mnemonic_of. apply cons_alts_map. apply forall_nonempty in H. induction H; constructor; auto. apply cons_keyword_p. assumption.
Qed.
Lemma cons_instruction : cons instruction.
Proof.
  unfold instruction. apply cons_alt; apply cons_map, cons_pair_l; try (apply cons_wr, cons_mnemonic_of; vm_compute; reflexivity); auto 10 with mono.
Qed.
Ltac kw_ne := apply cons_wr, cons_keyword_p; vm_compute; discriminate.

(* ---- the error token ---- *)
Lemma cons_error_impl b : cons (error_impl b).
Proof.
  intros st i st' v r E. unfold error_impl in E.
  set (pe := wr (slot W_error_impl 0) (recognize (alt (recognize (pair_p (one_of error_lead) (take_till (error_stop_p b)))) (take_till1 (error_stop_p b))))) in E.
  assert (H : cons pe).
  { subst pe. apply cons_wr, cons_recognize, cons_alt; [apply cons_recognize, cons_pair_l; [apply cons_one_of | apply mono_take_till] | apply cons_take_till1]. }
  clearbody pe. destruct (pe st i) as [st1 [l r1| |x]] eqn:P; inv E. eapply H; eassumption.
Qed.
Lemma mono_error_in_block : mono error_in_block. Proof. apply cons_mono, cons_error_impl. Qed.
Lemma mono_as_ : mono as_. Proof. unfold as_. auto 12 with mono. Qed.
#[export] Hint Resolve mono_error_in_block mono_as_ : mono.

(* ---- statements ---- *)
Section Stmt.
  Variable p_stmt : parser token.
  Hypothesis Hs : mono p_stmt.
  Lemma cons_block : cons (block p_stmt).
  Proof. unfold block. apply cons_map, cons_pair_l; [apply cons_wr, cons_char_p | auto 15 with mono]. Qed.
  Lemma mono_block : mono (block p_stmt). Proof. apply cons_mono, cons_block. Qed.
  Hint Resolve mono_block : mono.
  Lemma cons_stmt_parser k : cons (stmt_parser p_stmt k).
  Proof.
    destruct k; cbn [stmt_parser].
    - (* braces *) unfold braces. apply cons_with_scope, cons_block.
    - (* label *) unfold label. apply cons_map, cons_pair_l; [apply cons_wr, cons_identifier_name | auto 12 with mono].
    - apply cons_instruction.
    - unfold variable_definition, varconst_impl. apply cons_map, cons_pair_l; [apply cons_wr, cons_tagged; repeat constructor; vm_compute; discriminate | auto 12 with mono].
    - unfold const_definition, varconst_impl. apply cons_map, cons_pair_l; [apply cons_wr, cons_tagged; repeat constructor; vm_compute; discriminate | auto 12 with mono].
    - unfold pc_definition. apply cons_map, cons_pair_l; [apply cons_wr, cons_char_p | auto 12 with mono].
    - unfold config_definition. apply cons_map, cons_pair_l; [kw_ne | auto 12 with mono].
    - unfold macro_definition. apply cons_map, cons_pair_l; [kw_ne | auto 20 with mono].
    - unfold macro_invocation. apply cons_map, cons_fn_call_parts. exact mono_expression.
    - (* data *) unfold data_. apply cons_map, cons_pair_l; [|auto 12 with mono].
      apply cons_alts_map. apply Forall_forall. intros [n e] I. apply cons_wr, cons_tagged. constructor; [|constructor].
      cbn [snd]. apply in_combine_r in I. assert (F : Forall (fun e => fst e <> []) data_tags) by (apply forall_nonempty; vm_compute; reflexivity).
      rewrite Forall_forall in F. apply F, I.
    - unfold segment. apply cons_map, cons_pair_l; [kw_ne | auto 12 with mono].
    - unfold loop_. apply cons_with_scope, cons_pair_l; [kw_ne | auto 12 with mono].
    - unfold if_. apply cons_map, cons_pair_l; [kw_ne | auto 20 with mono].
    - unfold align. apply cons_map, cons_pair_l; [kw_ne | auto 12 with mono].
    - unfold import, specific_arg. apply cons_with_scope, cons_pair_l; [kw_ne | auto 25 with mono].
    - unfold text_. apply cons_map, cons_pair_l; [kw_ne | auto 20 with mono].
    - unfold file. apply cons_map, cons_pair_l; [kw_ne | auto 12 with mono].
    - unfold test. apply cons_map, cons_pair_l; [kw_ne | auto 12 with mono].
    - unfold assert. apply cons_map, cons_pair_l; [kw_ne | auto 12 with mono].
    - unfold trace. apply cons_map, cons_pair_l; [kw_ne | auto 20 with mono].
  Qed.
  Lemma cons_statement_body : cons (statement_body p_stmt).
  Proof. unfold statement_body. apply cons_alts_map. apply Forall_forall. intros k _. apply cons_stmt_parser. Qed.
End Stmt.

Lemma cons_statement_fuel fuel : cons (statement_fuel fuel).
Proof.
  induction fuel as [|f IH]; cbn [statement_fuel]; [apply cons_out_of_fuel|].
  intros st i st' v r E. eapply (cons_statement_body _ (cons_mono _ IH)); eassumption.
Qed.
Lemma cons_statement : cons statement. Proof. intros st i st' v r E. unfold statement in E. eapply cons_statement_fuel; eassumption. Qed.

(* the statement loop never reports nom's no-progress error *)
Lemma statement_loop_never_errs st i : snd (many0 (alt statement error) st i) <> Err.
Proof.
  intros H. destruct (many0 (alt statement error) st i) as [st' res] eqn:E. cbn in H. subst res.
  unfold many0 in E. destruct (many0_aux_err _ _ _ _ _ E) as (sa & sb & i1 & v & r1 & P & L).
  pose proof (cons_alt _ _ cons_statement (cons_error_impl false) _ _ _ _ _ P). lia.
Qed.

(* parse_with_instance never panics, on any text *)
Theorem parse_never_panics s : parse s <> ParsePanic.
Proof. intros H. apply parse_panics_iff in H. exact (statement_loop_never_errs _ _ H). Qed.

(* FormatSourceTotal.v -- C12 on source texts without any side condition: proofs/FormatSourceProofs.v
   (format_source_chars, under parser_shaped) composed with proofs/FormatShapeProofs.v (parse_shaped). *)
From Coq Require Import List NArith Bool.
Import ListNotations.
From Mos Require model.Nom model.Parser proofs.FormatShapeProofs.
From Mos Require Import model.Utf model.Format Gen.FmtRules model.FormatTokens model.FormatParse spec.FormatSource
  proofs.FormatProofs proofs.FormatSourceProofs.

Theorem source_chars : forall o s toks,
  Parser.parse s = Parser.Parsed toks [] ->
  exists f, format_source o s = Some f /\ lc (nows f) = lc (nows s).
Proof.
  intros o s toks H. apply (format_source_chars o s toks H).
  exact (FormatShapeProofs.parse_shaped s toks [] H).
Qed.

(* in particular format_source is defined exactly on the files that parse without diagnostics *)
Corollary source_chars_defined : forall o s,
  (exists toks, Parser.parse s = Parser.Parsed toks []) <-> (exists f, format_source o s = Some f).
Proof.
  intros o s. split.
  - intros [toks H]. destruct (source_chars o s toks H) as [f [Hf _]]. exists f. exact Hf.
  - intros [f Hf]. unfold format_source in Hf. destruct (Parser.parse s) as [toks [|d ds]| |]; try discriminate. exists toks. reflexivity.
Qed.

(* Proofs for C04: the error logic of the pass loop, the spans of the error constructors. *)
From Coq Require Import List Bool ZArith Lia Permutation.
Import ListNotations.
From Mos Require Import Gen.PassLoopConds Gen.ErrSpans model.PassLoopErr model.ErrorArms.

Section LoopProofs.
  Variable state : Type.
  Variable pass : state -> list usym -> state * list usym * list diag.
  Variable nodes_added : state -> state -> bool.
  Variable nothing_changed : state -> bool.
  Variable no_segments : state -> bool.
  Variable create_default_segment : state -> state.
  Variable next_pass : state -> state.
  Variable finalize : state -> list diag.
  Variable sort_undefined : list usym -> list usym.
  Hypothesis sort_perm : forall l, Permutation (sort_undefined l) l.

  Let loop := loop state pass nodes_added nothing_changed no_segments create_default_segment next_pass finalize sort_undefined.

  Lemma is_nil_true : forall {A} (l : list A), is_nil l = true -> l = [].
  Proof. intros A [|x r] H; [reflexivity|discriminate]. Qed.

  (* the loop's only successful exit: the last pass raised no error, left nothing undefined, added no symbol *)
  Theorem done_means_clean : forall fuel c u pu pe c' fe,
    loop fuel c u pu pe = Done state c' fe ->
    exists c0 u0, pass c0 u0 = (c', [], []) /\ nodes_added c0 c' = false /\ nothing_changed c' = true /\
                  no_segments c' = false /\ fe = finalize c'.
  Proof.
    induction fuel as [|f IH]; intros c u pu pe c' fe H; cbn [loop PassLoopErr.loop] in H; [discriminate|].
    unfold loop in *. cbn [PassLoopErr.loop] in H.
    destruct (pass c u) as [[c1 undef1] errors] eqn:Ep.
    unfold cond_no_segments, cond_bail, cond_check_undefined, cond_done, cond_truly_undefined in H. cbn in H.
    destruct (no_segments c1) eqn:Es; [eapply IH; exact H|].
    destruct (negb (is_nil errors) && diags_eqb errors pe); [discriminate|].
    destruct (is_nil errors) eqn:Ee; [|eapply IH; exact H].
    destruct (is_nil undef1 && nothing_changed c1 && negb (nodes_added c c1)) eqn:Ed.
    - inversion H; subst. apply andb_true_iff in Ed. destruct Ed as [Ed En]. apply andb_true_iff in Ed. destruct Ed as [Eu Ec].
      apply is_nil_true in Ee. apply is_nil_true in Eu. subst. apply negb_true_iff in En.
      exists c, u. repeat split; assumption.
    - destruct (negb (is_nil undef1) && uset_eqb undef1 pu); [discriminate|eapply IH; exact H].
  Qed.

  (* every failing exit reports at least one diagnostic *)
  Theorem failed_has_diagnostics : forall fuel c u pu pe c' ds,
    loop fuel c u pu pe = Failed state c' ds -> ds <> [].
  Proof.
    induction fuel as [|f IH]; intros c u pu pe c' ds H; unfold loop in *; cbn [PassLoopErr.loop] in H.
    - inversion H. destruct pe; discriminate.
    - destruct (pass c u) as [[c1 undef1] errors] eqn:Ep.
      unfold cond_no_segments, cond_bail, cond_check_undefined, cond_done, cond_truly_undefined in H. cbn in H.
      destruct (no_segments c1); [eapply IH; exact H|].
      destruct (negb (is_nil errors) && diags_eqb errors pe) eqn:Eb.
      + inversion H; subst. apply andb_true_iff in Eb. destruct Eb as [Eb _]. destruct ds; [discriminate|discriminate].
      + destruct (is_nil errors); [|eapply IH; exact H].
        destruct (is_nil undef1 && nothing_changed c1 && negb (nodes_added c c1)); [discriminate|].
        destruct (negb (is_nil undef1) && uset_eqb undef1 pu) eqn:Et; [|eapply IH; exact H].
        inversion H; subst. apply andb_true_iff in Et. destruct Et as [Et _].
        destruct undef1 as [|x r]; [discriminate|].
        intro E. apply (f_equal (@length _)) in E. rewrite map_length in E.
        rewrite (Permutation_length (sort_perm (x :: r))) in E. discriminate.
  Qed.

  (* a fault that raises an error in every pass never builds *)
  Theorem always_error_never_builds :
    (forall c u, snd (pass c u) <> []) ->
    forall fuel c u pu pe, exists c' ds, loop fuel c u pu pe = Failed state c' ds /\ ds <> [].
  Proof.
    intros Herr fuel c u pu pe.
    destruct (loop fuel c u pu pe) as [c' fe|c' ds] eqn:E.
    - apply done_means_clean in E. destruct E as [c0 [u0 [Ep _]]]. specialize (Herr c0 u0). rewrite Ep in Herr. cbn in Herr. congruence.
    - exists c', ds. split; [reflexivity|]. eapply failed_has_diagnostics. exact E.
  Qed.

  (* the truly-undefined rule: an error-free pass (with segments) that leaves the same non-empty undefined set as the
     previous one ends the build with one `unknown identifier` diagnostic per undefined item, labelled with the item's
     span (the span of the USAGE, as recorded by evaluate_expression / the macro invocation arm) *)
  Theorem truly_undefined_reported : forall f c u pu pe c1 undef1,
    pass c u = (c1, undef1, []) -> no_segments c1 = false -> undef1 <> [] -> uset_eqb undef1 pu = true ->
    exists ds, loop (S f) c u pu pe = Failed state c1 ds /\
               Permutation ds (map undefined_diag undef1) /\
               (forall d, In d ds -> exists x, In x undef1 /\ d_message d = UnknownIdentifier (u_id x) /\ d_label d = u_span x).
  Proof.
    intros f c u pu pe c1 undef1 Ep Es Hne Heq. unfold loop. cbn [PassLoopErr.loop]. rewrite Ep.
    unfold cond_no_segments, cond_bail, cond_check_undefined, cond_done, cond_truly_undefined. cbn. rewrite Es, Heq.
    destruct undef1 as [|x r]; [congruence|]. cbn [is_nil negb andb].
    eexists. split; [reflexivity|]. split.
    - apply Permutation_map. apply sort_perm.
    - intros d Hd. apply in_map_iff in Hd. destruct Hd as [y [Hy Hi]]. exists y. split.
      + eapply Permutation_in; [apply sort_perm|exact Hi].
      + subst d. split; reflexivity.
  Qed.
End LoopProofs.

(* ------------------------------------------------------------------ spans of the error constructors *)
Open Scope Z_scope.
Definition offending_span (k : err_kind) (p : parts) : sp :=
  match k with
  | UndefinedSymbol => p_usage_path p
  | UndefinedMacro => p_invocation_name p
  | UndefinedSegment => p_segment_id p
  | Redefinition => p_definition_id p
  | InvalidInstruction => full_span p
  | BranchTooFar => p_mnemonic p
  | MacroArity => p_invocation_name p
  end.

Theorem location : forall k p, diag_span k p = offending_span k p.
Proof. intros [] p; reflexivity. Qed.

(* the diagnostic of an instruction error begins at the first character of the instruction (mnemonic first) *)
Theorem instruction_errors_begin_at_mnemonic : forall k p,
  (k = InvalidInstruction \/ k = BranchTooFar) ->
  (match p_operand p with Some o => lo (p_mnemonic p) <= lo o | None => True end) ->
  lo (diag_span k p) = lo (p_mnemonic p).
Proof.
  intros k p [E|E] H; subst k; rewrite location; cbn [offending_span]; [|reflexivity].
  unfold full_span. destruct (p_operand p) as [o|]; [|reflexivity]. cbn [merge lo]. lia.
Qed.

Definition within (len : Z) (s : sp) : Prop := 0 <= lo s <= hi s /\ hi s <= len.
Definition parts_within (len : Z) (p : parts) : Prop :=
  within len (p_usage_path p) /\ within len (p_invocation_name p) /\ within len (p_segment_id p) /\
  within len (p_definition_id p) /\ within len (p_mnemonic p) /\
  match p_operand p with Some o => within len o | None => True end.

Theorem spans_in_file : forall k p len, parts_within len p -> within len (diag_span k p).
Proof.
  intros k p len [H1 [H2 [H3 [H4 [H5 H6]]]]]. rewrite location. destruct k; cbn [offending_span]; try assumption.
  unfold full_span. destruct (p_operand p) as [o|]; [|assumption].
  unfold within in *. cbn [merge lo hi]. lia.
Qed.

(* every identifier of an expression is looked up -- also in an operand that cannot influence the result *)
Theorem undefined_anywhere : forall e p, mentions p e -> In p (tracked e).
Proof.
  induction e as [|q|i IH|args|l IHl r IHr]; intros p H; cbn [mentions tracked] in *; try contradiction.
  - left. exact H.
  - apply IH. exact H.
  - apply in_or_app. destruct H as [H|H]; [left; apply IHl; exact H|right; apply IHr; exact H].
Qed.

(* Witness programs of the known findings, evaluated on the model by vm_compute. *)
From Coq Require Import List NArith ZArith Bool.
Import ListNotations.
From Mos Require Import model.I64 Gen.BinOps model.Expr Gen.OpcodeTable spec.Isa model.Encode.
From Mos Require Import model.SymTab Gen.CodegenConsts model.Segment model.Asm spec.FixedPoint.
Open Scope Z_scope.

Definition wsp (a b : Z) : span := (a, b).
Definition w_a : text := [97]%N.
Definition w_b : text := [98]%N.
Definition w_c : text := [99]%N.
Definition w_m0 : ident := [109; 48]%N.
Definition w_m1 : ident := [109; 49]%N.
Definition w_sh : ident := [115; 104]%N.
Definition w_seg_a : token :=
  TDefine t_segment (wsp 0 0)
    (Some [ mkPair t_name (wsp 0 0) (Some (mkL (EStr [SLit w_a] false false) (wsp 0 0) [])) (wsp 0 0);
            mkPair t_start (wsp 0 0) (Some (mkL (ENum 16 [50; 48; 48; 48]%N false false) (wsp 0 0) [])) (wsp 0 0) ]).

(* `.define segment {..} / m1() / .macro m0() { sh: nop } / .macro m1() { lda sh } / m0() / sh: nop` *)
Definition prog_stale : list token :=
  [ w_seg_a;
    TInvoke w_m1 (wsp 50 52) [];
    TMacroDef w_m0 (wsp 60 62) [] (Blk (wsp 65 66) (wsp 75 76) [TLabel w_sh (wsp 67 69) None; TInstr Nop (wsp 71 74) None]);
    TMacroDef w_m1 (wsp 80 82) [] (Blk (wsp 85 86) (wsp 95 96)
      [TInstr Lda (wsp 87 90) (Some (mkL (EId [w_sh] None false false) (wsp 91 93) [wsp 91 93], FAbs))]);
    TInvoke w_m0 (wsp 100 102) [];
    TLabel w_sh (wsp 110 112) None; TInstr Nop (wsp 114 117) None ].

Lemma stale_symbol_witness :
  exists toks c, codegen 10 10 default_options toks = Done c /\ no_silent_change c /\
                 Known_stale_symbol_survives c = true /\
                 map snd (segment_image c) = [[173; 0; 32; 234; 234]%N] /\ In ([[115; 104]%N], 8196) (vice_symbols c).
Proof. exists prog_stale. eexists. vm_compute. repeat split. right. left. reflexivity. Qed.

(* `* = $fb / lda a / lda b / lda c / a: nop / b: nop / c: nop`: every pass moves a, b and c; the loop gives up *)
Definition ref (n : text) (lo : Z) : option (lexpr * form) := Some (mkL (EId [n] None false false) (wsp lo (lo + 1)) [wsp lo (lo + 1)], FAbs).
Definition prog_changed : list token :=
  [ TPc (mkL (ENum 16 [102; 98]%N false false) (wsp 4 7) []);
    TInstr Lda (wsp 8 11) (ref w_a 12); TInstr Lda (wsp 14 17) (ref w_b 18); TInstr Lda (wsp 20 23) (ref w_c 24);
    TLabel w_a (wsp 26 27) None; TInstr Nop (wsp 29 32) None;
    TLabel w_b (wsp 33 34) None; TInstr Nop (wsp 36 39) None;
    TLabel w_c (wsp 40 41) None; TInstr Nop (wsp 43 46) None ].

Lemma changed_reported_unknown_witness :
  exists toks, Known_changed_reported_unknown (codegen 200 10 default_options toks) = true.
Proof. exists prog_changed. vm_compute. reflexivity. Qed.

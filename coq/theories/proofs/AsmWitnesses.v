(* Witness programs of the known findings, evaluated on the model by vm_compute. *)
From Coq Require Import List NArith ZArith Bool.
Import ListNotations.
From Mos Require Import model.I64 Gen.BinOps model.Expr Gen.OpcodeTable spec.Isa model.Encode.
From Mos Require Import model.SymTab Gen.CodegenConsts model.Segment model.Asm spec.FixedPoint.
Open Scope Z_scope.

Definition wsp (a b : Z) : span := (a, b).
Definition w_a : text := [97]%N.
Definition w_b : text := [98]%N.
Definition w_c : text := [99]%N.
Definition w_m0 : ident := [109; 48]%N.
Definition w_m1 : ident := [109; 49]%N.
Definition w_sh : ident := [115; 104]%N.
Definition w_seg_a : token :=
  TDefine t_segment (wsp 0 0)
    (Some [ mkPair t_name (wsp 0 0) (Some (mkL (EStr [SLit w_a] false false) (wsp 0 0) [])) (wsp 0 0);
            mkPair t_start (wsp 0 0) (Some (mkL (ENum 16 [50; 48; 48; 48]%N false false) (wsp 0 0) [])) (wsp 0 0) ]).

(* `.define segment {..} / m1() / .macro m0() { sh: nop } / .macro m1() { lda sh } / m0() / sh: nop`: since e323987 the
   invocation of m1 keeps the scope `$macro_0` in every pass and `lda sh` means the `sh` at the end *)
Definition prog_macro_before_definition : list token :=
  [ w_seg_a;
    TInvoke w_m1 (wsp 50 52) [];
    TMacroDef w_m0 (wsp 60 62) [] (Blk (wsp 65 66) (wsp 75 76) [TLabel w_sh (wsp 67 69) None; TInstr Nop (wsp 71 74) None]);
    TMacroDef w_m1 (wsp 80 82) [] (Blk (wsp 85 86) (wsp 95 96)
      [TInstr Lda (wsp 87 90) (Some (mkL (EId [w_sh] None false false) (wsp 91 93) [wsp 91 93], FAbs))]);
    TInvoke w_m0 (wsp 100 102) [];
    TLabel w_sh (wsp 110 112) None; TInstr Nop (wsp 114 117) None ].
Lemma macro_before_definition_example :
  exists c, codegen 10 10 default_options prog_macro_before_definition = Done c /\
            Known_stale_symbol_survives c = false /\ map snd (segment_image c) = [[173; 4; 32; 234; 234]%N].
Proof. eexists. vm_compute. repeat split. Qed.

(* the include-guard idiom with a label: `.define segment {..} / .if !defined(x) { x: nop } / lda x`.  Pass 0 defines x and
   emits the nop; from pass 1 on the branch is skipped, x keeps the value of pass 0 and stays in the table and the VICE list *)
Definition w_x : ident := [120]%N.
Definition prog_stale : list token :=
  [ w_seg_a;
    TIf (mkL (ECall t_defined [EId [w_x] None false false] true false) (wsp 50 61) [])
        (Blk (wsp 62 63) (wsp 72 73) [TLabel w_x (wsp 64 65) None; TInstr Nop (wsp 67 70) None]) None;
    TInstr Lda (wsp 75 78) (Some (mkL (EId [w_x] None false false) (wsp 79 80) [wsp 79 80], FAbs)) ].

Lemma stale_symbol_witness :
  exists toks c, codegen 10 10 default_options toks = Done c /\ no_silent_change c /\
                 Known_stale_symbol_survives c = true /\
                 map snd (segment_image c) = [[173; 0; 32]%N] /\ In ([[120]%N], 8192) (vice_symbols c).
Proof. exists prog_stale. eexists. vm_compute. repeat split. left. reflexivity. Qed.

(* `* = $fb / lda a / lda b / lda c / a: nop / b: nop / c: nop`: every pass moves a, b and c; the loop gives up *)
Definition ref (n : text) (lo : Z) : option (lexpr * form) := Some (mkL (EId [n] None false false) (wsp lo (lo + 1)) [wsp lo (lo + 1)], FAbs).
Definition prog_changed : list token :=
  [ TPc (mkL (ENum 16 [102; 98]%N false false) (wsp 4 7) []);
    TInstr Lda (wsp 8 11) (ref w_a 12); TInstr Lda (wsp 14 17) (ref w_b 18); TInstr Lda (wsp 20 23) (ref w_c 24);
    TLabel w_a (wsp 26 27) None; TInstr Nop (wsp 29 32) None;
    TLabel w_b (wsp 33 34) None; TInstr Nop (wsp 36 39) None;
    TLabel w_c (wsp 40 41) None; TInstr Nop (wsp 43 46) None ].

(* since 0b9c159 the program assembles: the labels settle at $104.. after five passes *)
Lemma changing_symbols_converge :
  exists c, codegen 200 10 default_options prog_changed = Done c /\
            map snd (segment_image c) = [[173; 4; 1; 173; 5; 1; 173; 6; 1; 234; 234; 234]%N].
Proof. eexists. vm_compute. repeat split. Qed.

(* add_symbol never puts anything into the undefined set: a symbol that changed value is never an "unknown identifier" *)
Lemma changed_not_reported id sym c :
  match add_symbol id sym c with Ret _ c' | Err _ c' => undefined c' = undefined c | Abort _ => True end.
Proof.
  unfold add_symbol.
  destruct (try_index (symbols c) (current_scope_nx c) id).
  - destruct (try_get (symbols c) n).
    + destruct (redefinition s sym); [destruct (s_span sym); auto|].
      destruct (negb (sdata_eqb (s_data s) (s_data sym))); [destruct (symtype_eqb (s_ty sym) TyVariable)|]; reflexivity.
    + destruct (symtype_eqb (s_ty sym) TyVariable); reflexivity.
  - destruct (split_last (current_scope c ++ id)). destruct (ensure_index (symbols c) root i). destruct (insert s n i0 (Some sym)). reflexivity.
Qed.

(* Proofs that tie the formatter's token layer to the parser model (model/Parser.v, model/Display.v): for a parsed file the
   leaf texts and comments of the projected token list (spec/FormatFlat.v) are, blanks / line breaks / ASCII letter case
   aside, the characters of Display's rendering of the parser's tokens, hence (C05: parse_sim) those of the source text.
   With proofs/FormatFlatProofs.v: formatting a parsed file changes nothing but blanks, line breaks and letter case. *)
From Coq Require Import List NArith Bool Arith Lia.
Import ListNotations.
From Mos Require model.Nom model.Parser model.Display.
From Mos Require Import model.Utf Gen.ParserTables model.Format Gen.FmtRules model.FormatTokens model.FormatParse
  spec.FormatSpec spec.FormatFlat spec.FormatSource spec.Lossless
  proofs.FormatProofs proofs.FormatTokensProofs proofs.FormatPreserved proofs.FormatFlatProofs proofs.C05Proofs.

(* ---------------------------------------------------------------- characters, letter case aside *)
Definition lc (s : text) : text := map Nom.ascii_lower s.
Definition X (s : text) : text := lc (nows s).
Definition F (l : list text) : text := lc (tnows l).

Lemma lc_app : forall a b, lc (a ++ b) = lc a ++ lc b.
Proof. intros; unfold lc; apply map_app. Qed.
Lemma X_app : forall a b, X (a ++ b) = X a ++ X b.
Proof. intros; unfold X; rewrite nows_app, lc_app; reflexivity. Qed.
Lemma F_app : forall a b, F (a ++ b) = F a ++ F b.
Proof. intros; unfold F; rewrite tnows_app, lc_app; reflexivity. Qed.
Lemma F_nil : F [] = []. Proof. reflexivity. Qed.
Lemma F_one : forall s, F [s] = X s.
Proof. intros; unfold F, X, tnows; cbn [concat]; rewrite app_nil_r; reflexivity. Qed.
Lemma F_cons : forall s l, F (s :: l) = X s ++ F l.
Proof. intros. change (s :: l) with ([s] ++ l). rewrite F_app, F_one. reflexivity. Qed.

Lemma is_ws_letter : forall c, (65 <= c)%N -> (c <= 122)%N -> is_ws c = false.
Proof.
  intros c H1 H2. unfold is_ws.
  replace (c <=? 13)%N with false by (symmetry; apply N.leb_gt; lia).
  replace (c =? 32)%N with false by (symmetry; apply N.eqb_neq; lia).
  replace (c =? 133)%N with false by (symmetry; apply N.eqb_neq; lia).
  replace (c =? 160)%N with false by (symmetry; apply N.eqb_neq; lia).
  replace (c =? 5760)%N with false by (symmetry; apply N.eqb_neq; lia).
  replace (8192 <=? c)%N with false by (symmetry; apply N.leb_gt; lia).
  replace (c =? 8232)%N with false by (symmetry; apply N.eqb_neq; lia).
  replace (c =? 8233)%N with false by (symmetry; apply N.eqb_neq; lia).
  replace (c =? 8239)%N with false by (symmetry; apply N.eqb_neq; lia).
  replace (c =? 8287)%N with false by (symmetry; apply N.eqb_neq; lia).
  replace (c =? 12288)%N with false by (symmetry; apply N.eqb_neq; lia).
  rewrite andb_false_r. reflexivity.
Qed.

Lemma upper_case : forall c, Nom.ascii_upper c = c \/ ((65 <= Nom.ascii_upper c)%N /\ (Nom.ascii_upper c <= 122)%N /\ (65 <= c)%N /\ (c <= 122)%N).
Proof.
  intros c. unfold Nom.ascii_upper. destruct ((97 <=? c)%N && (c <=? 122)%N) eqn:E; [right | left; reflexivity].
  apply andb_prop in E as [E1 E2]. apply N.leb_le in E1, E2. lia.
Qed.
Lemma lower_case : forall c, Nom.ascii_lower c = c \/ ((65 <= Nom.ascii_lower c)%N /\ (Nom.ascii_lower c <= 122)%N /\ (65 <= c)%N /\ (c <= 122)%N).
Proof.
  intros c. unfold Nom.ascii_lower. destruct ((65 <=? c)%N && (c <=? 90)%N) eqn:E; [right | left; reflexivity].
  apply andb_prop in E as [E1 E2]. apply N.leb_le in E1, E2. lia.
Qed.
Lemma is_ws_upper : forall c, is_ws (Nom.ascii_upper c) = is_ws c.
Proof. intros c. destruct (upper_case c) as [->|(A & B & C & D)]; [reflexivity|]. rewrite !is_ws_letter by assumption. reflexivity. Qed.
Lemma is_ws_lower : forall c, is_ws (Nom.ascii_lower c) = is_ws c.
Proof. intros c. destruct (lower_case c) as [->|(A & B & C & D)]; [reflexivity|]. rewrite !is_ws_letter by assumption. reflexivity. Qed.
Lemma lower_upper : forall c, Nom.ascii_lower (Nom.ascii_upper c) = Nom.ascii_lower c.
Proof.
  intros c. unfold Nom.ascii_upper. destruct ((97 <=? c)%N && (c <=? 122)%N) eqn:E; [|reflexivity].
  apply andb_prop in E as [E1 E2]. apply N.leb_le in E1, E2. unfold Nom.ascii_lower.
  replace ((65 <=? c - 32)%N && (c - 32 <=? 90)%N) with true by (symmetry; apply andb_true_intro; split; apply N.leb_le; lia).
  replace ((65 <=? c)%N && (c <=? 90)%N) with false by (symmetry; apply andb_false_intro2; apply N.leb_gt; lia).
  lia.
Qed.
Lemma lower_lower : forall c, Nom.ascii_lower (Nom.ascii_lower c) = Nom.ascii_lower c.
Proof.
  intros c. unfold Nom.ascii_lower at 2. destruct ((65 <=? c)%N && (c <=? 90)%N) eqn:E; [|reflexivity].
  apply andb_prop in E as [E1 E2]. apply N.leb_le in E1, E2. unfold Nom.ascii_lower.
  replace ((65 <=? c + 32)%N && (c + 32 <=? 90)%N) with false by (symmetry; apply andb_false_intro2; apply N.leb_gt; lia).
  replace ((65 <=? c)%N && (c <=? 90)%N) with true by (symmetry; apply andb_true_intro; split; apply N.leb_le; lia).
  reflexivity.
Qed.

Lemma X_upper : forall s, X (map Nom.ascii_upper s) = X s.
Proof.
  induction s as [|c r IH]; [reflexivity|]. unfold X, nows in *. cbn [map filter]. rewrite is_ws_upper.
  destruct (negb (is_ws c)); [|exact IH]. unfold lc in *. cbn [map]. rewrite lower_upper, IH. reflexivity.
Qed.
Lemma X_lower : forall s, X (map Nom.ascii_lower s) = X s.
Proof.
  induction s as [|c r IH]; [reflexivity|]. unfold X, nows in *. cbn [map filter]. rewrite is_ws_lower.
  destruct (negb (is_ws c)); [|exact IH]. unfold lc in *. cbn [map]. rewrite lower_lower, IH. reflexivity.
Qed.
Lemma X_casing : forall c s, X (casing_format c s) = X s.
Proof. intros c s. unfold casing_format. destruct (casing_upper c); [apply X_upper | apply X_lower]. Qed.
Lemma X_ws : forall s, all_ws s = true -> X s = [].
Proof. intros s H. unfold X. rewrite (all_ws_nows s H). reflexivity. Qed.

(* the source and Display's rendering agree on these characters (C05: sim = letter case and CRLF -> LF) *)
Lemma sim_X : forall a b, sim a b -> X a = X b.
Proof.
  intros a b H. induction H as [|c c' s s' Hc Hs IH|s s' Hs IH]; [reflexivity| |].
  - assert (Hw : is_ws c = is_ws c') by (rewrite <- (is_ws_lower c), <- (is_ws_lower c'), Hc; reflexivity).
    unfold X, nows in *. cbn [filter]. rewrite Hw. destruct (negb (is_ws c')); [|exact IH].
    unfold lc in *. cbn [map]. rewrite Hc, IH. reflexivity.
  - exact IH.
Qed.

(* ---------------------------------------------------------------- Display's atoms, whitespace trivia dropped *)
Definition triv_chars (t : Nom.trivia) : text :=
  match t with
  | Nom.TWhitespace _ => []
  | Nom.TNewLine _ => []
  | Nom.TCStyle s terminated => if terminated then X s else []
  | Nom.TCppStyle s => X s
  end.
Definition ltriv_chars (t : Nom.ltrivia) : text := concat (map triv_chars (Nom.tv_items t)).
Definition atom_chars (a : Display.atom) : text :=
  match a with
  | Display.AItem t => triv_chars t
  | Display.ATriv t => ltriv_chars t
  | Display.AText _ s => X s
  | Display.AKw _ canon _ => X canon
  | Display.AMissing lp => match Nom.triv lp with Some t => ltriv_chars t | None => [] end ++ X [125%N]
  | Display.AEof _ _ => []
  end.
Definition R (l : list Display.atom) : text := concat (map atom_chars l).

Lemma R_app : forall a b, R (a ++ b) = R a ++ R b.
Proof. intros; unfold R; rewrite map_app, concat_app; reflexivity. Qed.
Lemma R_nil : R [] = []. Proof. reflexivity. Qed.
Lemma R_cons : forall a l, R (a :: l) = atom_chars a ++ R l. Proof. reflexivity. Qed.
Lemma ws_clean_app : forall a b, ws_clean (a ++ b) = ws_clean a && ws_clean b.
Proof. intros; unfold ws_clean; apply forallb_app. Qed.

Lemma triv_rust_chars : forall t, triv_clean t = true -> X (Display.triv_rust t) = triv_chars t.
Proof.
  intros [s|c|s tm|s] H; cbn [Display.triv_rust triv_chars].
  - apply X_ws. exact H.
  - reflexivity.
  - destruct tm; reflexivity.
  - reflexivity.
Qed.
Lemma ltriv_rust_chars : forall t, ltriv_clean t = true ->
  X (concat (map Display.triv_rust (Nom.tv_items t))) = ltriv_chars t.
Proof.
  intros [lo hi its]. unfold ltriv_clean, ltriv_chars. cbn [Nom.tv_items]. induction its as [|a r IH]; intros H; [reflexivity|].
  cbn [forallb] in H. apply andb_prop in H as [Ha Hr]. cbn [map concat]. rewrite X_app, (triv_rust_chars a Ha), (IH Hr). reflexivity.
Qed.
Lemma rust_chars : forall l, ws_clean l = true -> X (Display.rust l) = R l.
Proof.
  induction l as [|a r IH]; intros H; [reflexivity|].
  cbn [ws_clean forallb] in H. apply andb_prop in H as [Ha Hr].
  unfold Display.rust in *. cbn [map concat]. rewrite X_app, (IH Hr), R_cons. f_equal.
  destruct a as [t|t|sp s|sp c og|lp|sp s]; cbn [Display.rust_atom atom_chars atom_clean] in *.
  - apply triv_rust_chars; exact Ha.
  - apply ltriv_rust_chars; exact Ha.
  - reflexivity.
  - apply X_upper.
  - rewrite X_app. f_equal. destruct (Nom.triv lp) as [t|]; [apply ltriv_rust_chars; exact Ha | reflexivity].
  - reflexivity.
Qed.

(* ---------------------------------------------------------------- leaves *)
Definition T (t : option Nom.ltrivia) : text := match t with Some lt => ltriv_chars lt | None => [] end.

Lemma F_trivia : forall t, F (otrivia_comments (p_triv t)) = T t.
Proof.
  intros [[lo hi its]|]; [|reflexivity]. unfold T, ltriv_chars. cbn [p_triv otrivia_comments Nom.tv_items].
  induction its as [|a r IH]; [reflexivity|]. cbn [map flat_map concat]. rewrite F_app, IH. f_equal.
  destruct a as [s|c|s tm|s]; cbn [p_trivium trivium_comments triv_chars]; try reflexivity.
  - destruct tm; [destruct s; [reflexivity | apply F_one] | reflexivity].
  - destruct s; [reflexivity | apply F_one].
Qed.
Lemma R_triv : forall t, R (Display.a_triv t) = T t.
Proof. intros [t|]; [|reflexivity]. unfold R. cbn. apply app_nil_r. Qed.

(* a located leaf: its trivia, then its text *)
Lemma F_lt : forall A (f : A -> text) (l : Nom.located A), F (lt_flat (p_loc f l)) = T (Nom.triv l) ++ X (f (Nom.data l)).
Proof. intros. unfold lt_flat, p_loc. cbn [l_trivia l_data]. rewrite F_app, F_trivia, F_one. reflexivity. Qed.
Lemma R_text_gen : forall t sp s, R (Display.a_triv t ++ [Display.AText sp s]) = T t ++ X s.
Proof. intros. rewrite R_app, R_triv. unfold R. cbn. rewrite app_nil_r. reflexivity. Qed.
Lemma R_kw_gen : forall t sp c og, R (Display.a_triv t ++ [Display.AKw sp c og]) = T t ++ X c.
Proof. intros. rewrite R_app, R_triv. unfold R. cbn. rewrite app_nil_r. reflexivity. Qed.

Lemma R_text : forall l, R (Display.a_text l) = F (lt_flat (p_text l)).
Proof. intros. unfold Display.a_text, p_text. rewrite R_text_gen, F_lt. reflexivity. Qed.
Lemma R_char : forall l, R (Display.a_char l) = F (lt_flat (p_char l)).
Proof. intros. unfold Display.a_char, p_char. rewrite R_text_gen, F_lt. reflexivity. Qed.
Lemma R_path : forall l, R (Display.a_path l) = F (lt_flat (p_path l)).
Proof. intros. unfold Display.a_path, p_path. rewrite R_text_gen, F_lt. reflexivity. Qed.
Lemma R_disp : forall V (d : V -> text) l, R (Display.a_disp d l) = F (lt_flat (p_disp d l)).
Proof. intros. unfold Display.a_disp, p_disp. rewrite R_text_gen, F_lt. reflexivity. Qed.
Lemma R_kw : forall l, R (Display.a_kw l) = F (lt_flat (p_kw l)).
Proof. intros. unfold Display.a_kw, p_kw. rewrite R_kw_gen, F_lt. reflexivity. Qed.
Lemma R_tagged : forall V (d : V -> text) l, R (Display.a_tagged d l) = F (lt_flat (p_tagged d l)).
Proof. intros. unfold Display.a_tagged, p_tagged. rewrite R_kw_gen, F_lt. reflexivity. Qed.
Lemma R_opt_char : forall x, R (Display.a_opt Display.a_char x) = F (opt_flat lt_flat (p_opt p_char x)).
Proof. intros [l|]; [apply R_char | reflexivity]. Qed.

Ltac split_clean :=
  repeat match goal with
         | H : ws_clean (_ ++ _) = true |- _ => rewrite ws_clean_app in H
         | H : _ && _ = true |- _ => let H1 := fresh H in apply andb_prop in H as [H H1]
         end.
Ltac norm :=
  rewrite ?R_app, ?F_app, ?F_trivia, ?R_triv, ?R_text, ?R_char, ?R_path, ?R_disp, ?R_kw, ?R_tagged, ?R_opt_char,
          ?F_nil, ?R_nil, ?app_nil_r, <- ?app_assoc.

(* ---------------------------------------------------------------- strings *)
Lemma X_display_trivia : forall its, forallb triv_clean its = true ->
  X (concat (map display_trivium (map p_trivium its))) = concat (map triv_chars its).
Proof.
  induction its as [|a r IH]; intros H; [reflexivity|]. cbn [forallb] in H. apply andb_prop in H as [Ha Hr].
  cbn [map concat]. rewrite X_app, (IH Hr). f_equal.
  destruct a as [s|c|s tm|s]; cbn [p_trivium display_trivium triv_chars triv_clean] in *.
  - apply X_ws; exact Ha.
  - reflexivity.
  - destruct tm; reflexivity.
  - reflexivity.
Qed.

Lemma R_str_item : forall it, ws_clean (Display.a_str_item it) = true ->
  R (Display.a_str_item it) = F (item_flat (p_str_item it)).
Proof.
  intros [l|l] H; cbn [Display.a_str_item p_str_item item_flat] in *.
  - unfold Display.a_text in *. rewrite R_text_gen, F_one. unfold display_located, p_text, p_loc. cbn [l_trivia l_data].
    rewrite X_app. f_equal. destruct (Nom.triv l) as [[lo hi its]|]; [|reflexivity].
    cbn [p_triv Nom.tv_items T]. unfold ltriv_chars. cbn [Nom.tv_items]. symmetry. apply X_display_trivia.
    cbn in H. rewrite andb_true_r in H. exact H.
  - change (Display.AText None [123%N] :: Display.a_path l ++ [Display.AText None [125%N]])
      with ([Display.AText None [123%N]] ++ Display.a_path l ++ [Display.AText None [125%N]]).
    norm. rewrite !F_one. reflexivity.
Qed.

Lemma R_istring : forall s, ws_clean (Display.a_istring s) = true -> R (Display.a_istring s) = F (istring_flat (p_istring s)).
Proof.
  intros [q its] H. unfold Display.a_istring, istring_flat, p_istring in *. cbn [Parser.lquote Parser.items is_lquote is_items] in *.
  split_clean. norm. f_equal. f_equal.
  clear H H1. induction its as [|a r IH]; [reflexivity|].
  cbn [map concat flat_map] in *. rewrite ws_clean_app in H0. apply andb_prop in H0 as [Ha Hr].
  norm. rewrite (R_str_item a Ha), (IH Hr). reflexivity.
Qed.

(* ---------------------------------------------------------------- expressions *)
Lemma R_opt_disp : forall V (d : V -> text) x,
  R (Display.a_opt (Display.a_disp d) x) = F (opt_flat lt_flat (p_opt (p_disp d) x)).
Proof. intros V d [l|]; [apply R_disp | reflexivity]. Qed.

Lemma R_expr : forall e, ws_clean (Display.a_expr e) = true -> R (Display.a_expr e) = F (expr_flat (p_expr e))
with R_efactor : forall f, ws_clean (Display.a_efactor f) = true -> R (Display.a_efactor f) = F (factor_flat (p_efactor f)).
Proof.
  - intros e H. destruct e as [op l r | f tn tg]; cbn [Display.a_expr p_expr expr_flat l_trivia l_data] in *.
    + split_clean. norm. rewrite (R_expr (Nom.data l)), (R_expr (Nom.data r)) by assumption. reflexivity.
    + split_clean. norm. rewrite (R_efactor (Nom.data f)) by assumption. reflexivity.
  - intros f H. destruct f as [star | lp inner rp | name lp args rp | m p | ty v | s];
      cbn [Display.a_efactor p_efactor factor_flat l_trivia l_data] in *.
    + norm. reflexivity.
    + split_clean. norm. rewrite (R_expr (Nom.data inner)) by assumption. reflexivity.
    + split_clean. norm. do 2 f_equal. f_equal.
      clear - R_expr H1. induction args as [|a rest IH]; [reflexivity|].
      cbn [map concat flat_map fst snd l_trivia l_data] in *. split_clean. norm.
      rewrite (R_expr (Nom.data (fst a))), IH by assumption. reflexivity.
    + norm. rewrite R_opt_disp. reflexivity.
    + norm. reflexivity.
    + apply R_istring. exact H.
Qed.

Lemma R_lexpr : forall l, ws_clean (Display.a_lexpr l) = true -> R (Display.a_lexpr l) = F (lexpr_flat (p_lexpr l)).
Proof.
  intros l H. unfold Display.a_lexpr, Display.a_loc, lexpr_flat, p_lexpr, p_loc in *. cbn [l_trivia l_data].
  split_clean. norm. rewrite R_expr by assumption. reflexivity.
Qed.

Lemma R_eargs : forall l, ws_clean (Display.a_eargs l) = true -> R (Display.a_eargs l) = F (arg_exprs_flat (p_eargs l)).
Proof.
  intros l. unfold Display.a_eargs, Display.a_args, arg_exprs_flat, p_eargs.
  induction l as [|a r IH]; intros H; [reflexivity|].
  cbn [map concat flat_map fst snd] in *. split_clean. norm.
  change (Display.a_loc Display.a_expr (fst a)) with (Display.a_lexpr (fst a)) in *.
  rewrite R_lexpr, IH by assumption. reflexivity.
Qed.

Lemma R_idargs : forall (l : Parser.arg_items Nom.text),
  R (Display.a_args (fun s => [Display.AText None s]) l) =
  F (arg_ids_flat (map (fun a => (p_text (fst a), p_opt p_char (snd a))) l)).
Proof.
  intros l. unfold Display.a_args, arg_ids_flat.
  induction l as [|a r IH]; [reflexivity|].
  cbn [map concat flat_map fst snd]. norm. rewrite IH. f_equal.
  unfold Display.a_loc. rewrite R_text_gen. unfold p_text. rewrite F_lt. reflexivity.
Qed.

(* ---------------------------------------------------------------- operands, import arguments *)
Section Tokens.
Variable o : options.

Lemma R_suffix : forall s,
  R (Display.a_opt Display.a_suffix s) =
  F (opt_flat (suffix_flat o) (p_opt (fun s => (p_char (Parser.comma s), p_tagged disp_IndexRegister (Parser.register s))) s)).
Proof.
  intros [s|]; [|reflexivity]. cbn [Display.a_opt p_opt opt_flat]. unfold Display.a_suffix, suffix_flat. cbn [fst snd].
  norm. f_equal. unfold p_tagged. rewrite F_lt. unfold p_loc. cbn [l_trivia l_data]. rewrite F_trivia, F_one, X_casing. reflexivity.
Qed.

Lemma R_operand : forall op, pwf_operand op = true -> ws_clean (Display.a_operand op) = true ->
  R (Display.a_operand op) = F (operand_flat o (p_operand op)).
Proof.
  intros [e lc_ rc_ m sfx] Hp H. unfold pwf_operand, Display.a_operand, operand_flat, p_operand in *.
  cbn [Parser.o_mode Parser.lchar Parser.rchar Parser.suffix Parser.o_expr op_lchar op_rchar op_mode op_suffix op_expr p_mode] in *.
  destruct m; cbn [p_mode] in *.
  - destruct lc_; [discriminate|]. destruct rc_; [discriminate|]. split_clean. norm. rewrite R_lexpr, R_suffix by assumption. reflexivity.
  - destruct rc_; [discriminate|]. destruct sfx; [discriminate|]. split_clean. norm. rewrite R_lexpr by assumption. reflexivity.
  - discriminate.
  - split_clean. norm. rewrite R_lexpr, R_suffix by assumption. reflexivity.
  - split_clean. norm. rewrite R_lexpr, R_suffix by assumption. reflexivity.
Qed.

Lemma R_import_as : forall a, R (Display.a_opt Display.a_import_as a) = F (opt_flat import_as_flat (p_opt p_import_as a)).
Proof. intros [[k p]|]; [|reflexivity]. cbn [Display.a_opt p_opt opt_flat]. unfold Display.a_import_as, import_as_flat, p_import_as. cbn [fst snd ia_tag ia_path]. norm. reflexivity. Qed.

Lemma R_import_args : forall a, R (Display.a_import_args a) = F (import_args_flat (p_import_args a)).
Proof.
  intros [star as_|l]; cbn [Display.a_import_args p_import_args import_args_flat].
  - norm. rewrite R_import_as. reflexivity.
  - unfold Display.a_args. induction l as [|a r IH]; [reflexivity|].
    cbn [map concat flat_map fst snd]. norm. rewrite IH. unfold Display.a_loc, Display.a_specific, p_loc. cbn [l_trivia l_data sa_path sa_as].
    norm. rewrite R_import_as. reflexivity.
Qed.

(* ---------------------------------------------------------------- tokens *)
Lemma lt_flat_head : forall (x : ltext) rest, otrivia_comments (l_trivia x) ++ [l_data x] ++ rest = lt_flat x ++ rest.
Proof. intros. unfold lt_flat. rewrite <- app_assoc. reflexivity. Qed.
Lemma lt_flat_head0 : forall (x : ltext), otrivia_comments (l_trivia x) ++ [l_data x] = lt_flat x.
Proof. reflexivity. Qed.

Lemma R_opt_tagged : forall V (d : V -> text) x,
  R (Display.a_opt (Display.a_tagged d) x) = F (opt_flat lt_flat (p_opt (p_tagged d) x)).
Proof. intros V d [l|]; [apply R_tagged | reflexivity]. Qed.
Lemma R_opt_istring : forall x, ws_clean (Display.a_opt Display.a_istring x) = true ->
  R (Display.a_opt Display.a_istring x) = F (opt_flat istring_flat (p_opt p_istring x)).
Proof. intros [s|] H; [apply R_istring; exact H | reflexivity]. Qed.
Lemma R_opt_operand : forall x, match x with Some op => pwf_operand op | None => true end = true ->
  ws_clean (Display.a_opt Display.a_operand x) = true ->
  R (Display.a_opt Display.a_operand x) = F (opt_flat (operand_flat o) (p_opt p_operand x)).
Proof. intros [op|] Hp H; [apply R_operand; assumption | reflexivity]. Qed.

Lemma F_mnemonic : forall mn rest,
  F (otrivia_comments (l_trivia (p_mnemonic mn)) ++ [casing_format (o_casing o) (l_data (p_mnemonic mn))] ++ rest) =
  R (Display.a_kw mn) ++ F rest.
Proof.
  intros. unfold p_mnemonic, p_loc, Display.a_kw. cbn [l_trivia l_data]. rewrite R_kw_gen, !F_app, F_trivia, F_one, X_casing.
  unfold Display.upper. rewrite X_upper, <- app_assoc. reflexivity.
Qed.

Lemma vlead_shape : forall v, value_shape v = true -> vlead_flat (project v) = lead_comments (project v).
Proof. intros v H. destruct v; try discriminate; reflexivity. Qed.

Lemma braces_iblock : forall b, lt_comments (block_lparen b) ++ block_flat o b = iblock_flat o b.
Proof. intros [lp inner rp]. reflexivity. Qed.

Lemma p_block_eq : forall lp inner rp,
  p_block (Parser.Block lp inner rp) =
  mkBlock (p_char lp) (map project inner)
          (match rp with Some r => p_char r | None => mkLoc (p_triv (Nom.triv lp)) RBRACE_t end).
Proof.
  intros. reflexivity.
Qed.
Lemma iblock_flat_eq : forall lp inner rp,
  iblock_flat o (mkBlock lp inner rp) = lt_flat lp ++ tokens_flat o inner ++ lt_flat rp.
Proof.
  intros.
  assert (E : iblock_flat o (mkBlock lp inner rp) =
              lt_comments lp ++ [l_data lp] ++
              (fix go (ts : list token) : list text :=
                 match ts with [] => [] | t :: r => lead_comments t ++ body_flat o t ++ go r end) inner ++ lt_flat rp) by reflexivity.
  rewrite E, (go_flat_mapA o inner). unfold lt_flat at 2, lt_comments. rewrite <- app_assoc. reflexivity.
Qed.

Ltac tok_norm :=
  rewrite ?lt_flat_head, ?lt_flat_head0; norm; rewrite ?R_import_args, ?R_idargs, ?R_opt_tagged.

Lemma R_token : forall t, pwf t = true -> ws_clean (Display.a_token t) = true ->
  R (Display.a_token t) = F (lead_comments (project t) ++ body_flat o (project t))
with R_block : forall b, pwf_block b = true -> ws_clean (Display.a_block b) = true ->
  R (Display.a_block b) = F (iblock_flat o (p_block b)).
Proof.
  - intros t Hp H.
    destruct t; cbn [Display.a_token project lead_comments token_trivia body_flat l_trivia l_data opt_flat pwf] in *.
    + (* Align *) split_clean. tok_norm. rewrite R_lexpr by assumption. reflexivity.
    + (* Assert *) split_clean. tok_norm. rewrite R_lexpr, R_opt_istring by assumption. reflexivity.
    + (* Braces *) fold (lt_comments (block_lparen (p_block b))). rewrite braces_iblock. apply R_block; assumption.
    + (* Config *) fold (lt_comments (block_lparen (p_block b))). rewrite braces_iblock. apply R_block; assumption.
    + (* ConfigPair *) split_clean. rewrite (vlead_shape _ Hp). tok_norm.
      rewrite (R_token (Nom.data value)) by assumption. norm. reflexivity.
    + (* Data *) split_clean. tok_norm. rewrite R_eargs by assumption. reflexivity.
    + (* Definition *) destruct value as [v|].
      * assert (Hv : pwf v = true /\ vlead_flat (project v) = lead_comments (project v)).
        { destruct v; try discriminate Hp. split; [exact Hp | reflexivity]. }
        destruct Hv as [Hv1 Hv2]. rewrite Hv2. split_clean. tok_norm.
        rewrite (R_token v) by assumption. norm. reflexivity.
      * tok_norm. reflexivity.
    + (* Eof *) rewrite R_app, R_triv. norm. reflexivity.
    + (* Error *) tok_norm. reflexivity.
    + (* Expression *) cbn [app]. apply R_expr. exact H.
    + (* If *) destruct else_ as [[te eb]|]; cbn [fst snd opt_flat] in *; split_clean; tok_norm.
      * rewrite R_lexpr, (R_block if_), (R_block eb) by assumption. reflexivity.
      * rewrite R_lexpr, (R_block if_) by assumption. reflexivity.
    + (* Import *) destruct b as [bb|]; split_clean; tok_norm.
      * rewrite R_istring, (R_block bb) by assumption. reflexivity.
      * rewrite R_istring by assumption. reflexivity.
    + (* File *) split_clean. tok_norm. rewrite R_istring by assumption. reflexivity.
    + (* Instruction *) split_clean. rewrite F_mnemonic, R_app. rewrite R_opt_operand; [reflexivity | | assumption].
      destruct operand; [exact Hp | reflexivity].
    + (* Label *) split_clean. destruct (Nom.triv colon) eqn:Etr; [discriminate|]. apply N.eqb_eq in Hp1.
      assert (Hc : R (Display.a_char colon) = X [COLON]).
      { unfold Display.a_char. rewrite Etr, Hp1. unfold R. cbn. rewrite ?app_nil_r. reflexivity. }
      rewrite !R_app, R_text, Hc. unfold p_text. rewrite F_lt, !F_app, F_one, X_app.
      unfold p_loc. cbn [l_trivia l_data]. rewrite F_trivia, <- !app_assoc. do 3 f_equal.
      destruct b as [bb|]; [apply R_block; assumption | reflexivity].
    + (* Loop *) split_clean. tok_norm. rewrite R_lexpr, (R_block b) by assumption. reflexivity.
    + (* MacroDefinition *) split_clean. tok_norm. rewrite (R_block b) by assumption. reflexivity.
    + (* MacroInvocation *) split_clean. tok_norm. rewrite R_eargs by assumption. reflexivity.
    + (* ProgramCounterDefinition *) split_clean. tok_norm. rewrite R_lexpr by assumption. reflexivity.
    + (* Segment *) destruct b as [bb|]; split_clean; tok_norm.
      * rewrite R_lexpr, (R_block bb) by assumption. reflexivity.
      * rewrite R_lexpr by assumption. reflexivity.
    + (* Test *) split_clean. tok_norm. rewrite R_lexpr, (R_block b) by assumption. reflexivity.
    + (* Text *) split_clean. tok_norm. rewrite R_lexpr by assumption. reflexivity.
    + (* Trace *) destruct parens as [[[lp args] rp]|]; cbn [fst snd opt_flat] in *; split_clean; tok_norm.
      * rewrite R_eargs by assumption. reflexivity.
      * reflexivity.
    + (* VariableDefinition *) split_clean. tok_norm. rewrite R_lexpr by assumption. reflexivity.
  - intros [lp inner rp] Hp H. rewrite p_block_eq, iblock_flat_eq. cbn [Display.a_block pwf_block] in *.
    rewrite !ws_clean_app in H. apply andb_prop in H as [Hlp H]. apply andb_prop in H as [Hin Hrp].
    rewrite !R_app, !F_app, R_char. f_equal. f_equal.
    + clear - R_token Hp Hin. unfold tokens_flat. induction inner as [|a r IH]; [reflexivity|].
      cbn [map concat flat_map] in *. rewrite ws_clean_app in Hin. apply andb_prop in Hin as [Ha Hr]. apply andb_prop in Hp as [Hpa Hpr].
      apply andb_prop in Hpa as [Hpa _].
      rewrite R_app, (R_token a Hpa Ha), (IH Hpr Hr), !F_app. rewrite <- app_assoc. reflexivity.
    + destruct rp as [r|]; [apply R_char|].
      unfold R. cbn [map concat atom_chars]. rewrite app_nil_r. unfold lt_flat. cbn [l_trivia l_data]. rewrite F_app, F_trivia, F_one. reflexivity.
Qed.
End Tokens.

(* ---------------------------------------------------------------- files *)
Lemma R_tokens : forall o toks, forallb stmt_shaped toks = true -> ws_clean (Display.a_tokens toks) = true ->
  R (Display.a_tokens toks) = F (tokens_flat o (project_tokens toks)).
Proof.
  intros o toks. unfold Display.a_tokens, tokens_flat, project_tokens.
  induction toks as [|a r IH]; intros Hp H; [reflexivity|].
  cbn [map concat flat_map forallb] in *. rewrite ws_clean_app in H. apply andb_prop in H as [Ha Hr]. apply andb_prop in Hp as [Hpa Hpr].
  apply andb_prop in Hpa as [Hpa _].
  rewrite R_app, F_app, (R_token o a Hpa Ha), (IH Hpr Hr). reflexivity.
Qed.

(* the shapes imply the parser invariants the token-layer theorems assume (wf_tokens of the projection) *)
Lemma value_shape_project : forall t, is_value_token (project t) = value_shape t.
Proof. intros t. destruct t; reflexivity. Qed.

Lemma any_tok_eq : forall P Q t, any_tok P Q t =
  Q t ||
  match t with
  | Braces b | Config b | Loop _ _ b | MacroDefinition _ _ _ _ _ b | Test _ _ b => any_block P Q b
  | ConfigPair _ _ v => any_tok P Q (l_data v)
  | Definition_ _ _ (Some v) => any_tok P Q v
  | If _ _ b _ eb => any_block P Q b || match eb with Some e => any_block P Q e | None => false end
  | Import _ _ _ _ (Some b) | Label_ _ _ (Some b) | Segment _ _ (Some b) => any_block P Q b
  | _ => false
  end.
Proof. intros P Q t. destruct t; reflexivity. Qed.
Lemma any_block_eq : forall P Q lp inner rp, any_block P Q (mkBlock lp inner rp) = P inner || existsb (any_tok P Q) inner.
Proof.
  intros. reflexivity.
Qed.

Lemma shaped_ok : forall t, pwf t = true -> any_tok (existsb is_value_token) bad_shape (project t) = false
with shaped_ok_block : forall b, pwf_block b = true -> any_block (existsb is_value_token) bad_shape (p_block b) = false.
Proof.
  - intros t Hp. rewrite any_tok_eq.
    destruct t; cbn [pwf] in Hp; cbn [project bad_shape orb l_trivia l_data]; try reflexivity;
      try (apply shaped_ok_block; exact Hp).
    + (* ConfigPair *) apply andb_prop in Hp as [Hv Hp]. rewrite (shaped_ok _ Hp), orb_false_r.
      destruct (Nom.data value); try discriminate Hv; reflexivity.
    + (* Definition *) destruct value as [v|]; [|reflexivity].
      assert (Hv : pwf v = true /\ match project v with Config _ => false | _ => true end = false).
      { destruct v; try discriminate Hp. split; [exact Hp | reflexivity]. }
      destruct Hv as [Hv1 Hv2]. rewrite Hv2, (shaped_ok v Hv1). reflexivity.
    + (* If *) apply andb_prop in Hp as [H1 H2]. destruct else_ as [[te eb]|]; cbn [fst snd] in *.
      * rewrite (shaped_ok_block _ H1), (shaped_ok_block _ H2). reflexivity.
      * rewrite (shaped_ok_block _ H1). reflexivity.
    + (* Import *) destruct b as [bb|]; [apply shaped_ok_block; exact Hp | reflexivity].
    + (* Label *) apply andb_prop in Hp as [Hp Hb]. apply andb_prop in Hp as [Ht _].
      unfold p_char, p_loc. cbn [l_trivia]. destruct (Nom.triv colon); [discriminate|]. cbn [p_triv orb].
      destruct b as [bb|]; [apply shaped_ok_block; exact Hb | reflexivity].
    + (* Segment *) destruct b as [bb|]; [apply shaped_ok_block; exact Hp | reflexivity].
  - intros [lp inner rp] Hp. rewrite p_block_eq, any_block_eq. cbn [pwf_block] in Hp.
    induction inner as [|a r IH]; [reflexivity|].
    apply andb_prop in Hp as [Ha Hr]. apply andb_prop in Ha as [Ha Hv]. apply negb_true_iff in Hv.
    specialize (IH Hr). apply orb_false_elim in IH as [I1 I2].
    cbn [map existsb]. rewrite value_shape_project, Hv, (shaped_ok a Ha), I1, I2. reflexivity.
Qed.

Lemma shaped_wf : forall toks, forallb stmt_shaped toks = true -> wf_tokens (project_tokens toks) = true.
Proof.
  intros toks H. unfold wf_tokens, any_tokens, project_tokens. apply negb_true_iff.
  induction toks as [|a r IH]; [reflexivity|].
  cbn [forallb] in H. apply andb_prop in H as [Ha Hr]. unfold stmt_shaped in Ha. apply andb_prop in Ha as [Ha Hv]. apply negb_true_iff in Hv.
  specialize (IH Hr). apply orb_false_elim in IH as [I1 I2].
  cbn [map existsb]. rewrite value_shape_project, Hv, (shaped_ok a Ha), I1, I2. reflexivity.
Qed.

(* Formatting a file that parses without diagnostics: blanks, line breaks and ASCII letter case aside, the formatted text
   has exactly the characters of the source text, in the same order. *)
Theorem format_source_chars : forall o s toks,
  Parser.parse s = Parser.Parsed toks [] -> parser_shaped toks = true ->
  exists f, format_source o s = Some f /\ lc (nows f) = lc (nows s).
Proof.
  intros o s toks Hparse Hs. unfold parser_shaped in Hs.
  apply andb_prop in Hs as [Hpwf Hclean]. pose proof (shaped_wf toks Hpwf) as Hwf.
  exists (format o (project_tokens toks)). split.
  - unfold format_source. rewrite Hparse. reflexivity.
  - rewrite (format_flat o _ Hwf). fold (F (tokens_flat o (project_tokens toks))).
    rewrite <- (R_tokens o toks Hpwf Hclean), <- (rust_chars _ Hclean).
    symmetry. apply sim_X. exact (parse_sim s toks Hparse).
Qed.

(* non-vacuity: a file with a config block, a label with a block, an indirect and an indexed operand, comments, `.if` /
   `else`, an import and a macro parses to a token list that has the shapes of spec/FormatSource.v (upper case and CRLF
   are what the statement's `lc` and the whitespace filter absorb) *)
Definition shaped_example : text :=
  [46;68;69;70;73;78;69;32;115;101;103;32;123;32;110;97;109;101;32;61;32;34;97;34;32;32;112;99;32;61;32;36;50;48;48;48;32;125;13;10;102;111;111;58;32;123;32;76;100;65;32;40;32;36;49;48;32;41;32;44;32;89;32;47;42;32;99;32;42;47;32;115;116;97;32;100;97;116;97;44;120;32;125;10;46;105;102;32;49;32;123;32;110;111;112;32;125;32;101;108;115;101;32;123;32;46;98;121;116;101;32;49;44;50;32;47;47;32;120;10;125;10;46;105;109;112;111;114;116;32;102;111;111;32;97;115;32;98;97;114;32;102;114;111;109;32;34;108;105;98;34;10;46;109;97;99;114;111;32;109;40;97;44;98;41;32;123;32;108;100;97;32;35;97;32;43;32;98;42;50;32;125;10]%N.
Lemma source_shaped_example : source_shaped shaped_example = Some true.
Proof. vm_compute. reflexivity. Qed.

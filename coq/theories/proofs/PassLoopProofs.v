From Coq Require Import List Bool Arith Lia.
Import ListNotations.
From Mos Require Import Gen.PassLoop model.PassLoop spec.PassLoopSpec.

(* the rules as the current source has them (re-translated on every run) *)
Lemma rules_present :
  rule_same_errors = true /\ rule_clean_pass = true /\ clean_needs_no_new_symbols = true /\
  rule_same_undefined = true /\ same_undefined_needs_nonempty = true /\ clean_needs_no_changed_symbols = true.
Proof. repeat split; reflexivity. Qed.

Section Proofs.
  Variables C E U : Type.
  Variable pass : C -> C * E * bool.
  Variable undefined : C -> U.
  Variable take_undefined : C -> C.
  Variable no_segments : C -> bool.
  Variable create_default_segment : C -> C.
  Variable next_pass : C -> C.
  Variable e_none : E.
  Variable e_is_empty : E -> bool.
  Variable e_eqb : E -> E -> bool.
  Variable u_none : U.
  Variable u_is_empty : U -> bool.
  Variable u_eqb : U -> U -> bool.

  Notation step := (step C E U pass undefined take_undefined no_segments create_default_segment next_pass e_is_empty e_eqb u_is_empty u_eqb).
  Notation run := (run C E U pass undefined take_undefined no_segments create_default_segment next_pass e_is_empty e_eqb u_is_empty u_eqb).
  Notation state_at := (state_at C E U pass undefined take_undefined no_segments create_default_segment next_pass e_is_empty e_eqb u_is_empty u_eqb).

  Section From.
  Variable c0 : C.
  Notation ctx_before := (ctx_before C E pass take_undefined no_segments create_default_segment next_pass e_is_empty c0).
  Notation ctx_after := (ctx_after C E pass take_undefined no_segments create_default_segment next_pass e_is_empty c0).
  Notation errors_of := (errors_of C E pass take_undefined no_segments create_default_segment next_pass e_is_empty c0).
  Notation added := (symbols_added C E pass take_undefined no_segments create_default_segment next_pass e_is_empty c0).
  Notation undefined_of := (undefined_of C E U pass undefined take_undefined no_segments create_default_segment next_pass e_is_empty c0).
  Notation has_segments := (has_segments C E pass take_undefined no_segments create_default_segment next_pass e_is_empty c0).
  Notation previous_errors := (previous_errors C E pass take_undefined no_segments create_default_segment next_pass e_none e_is_empty c0).
  Notation previous_undefined := (previous_undefined C E U pass undefined take_undefined no_segments create_default_segment next_pass e_is_empty u_none c0).
  Notation stops_at := (stops_at C E U pass undefined take_undefined no_segments create_default_segment next_pass e_none e_is_empty e_eqb u_none u_is_empty u_eqb c0).
  Notation clean_pass := (clean_pass C E U pass undefined take_undefined no_segments create_default_segment next_pass e_is_empty u_is_empty c0).
  Notation same_errors_twice := (same_errors_twice C E pass take_undefined no_segments create_default_segment next_pass e_none e_is_empty e_eqb c0).
  Notation same_undefined_twice := (same_undefined_twice C E U pass undefined take_undefined no_segments create_default_segment next_pass e_is_empty u_none u_is_empty u_eqb c0).
  Notation first_stop := (first_stop C E U pass undefined take_undefined no_segments create_default_segment next_pass e_none e_is_empty e_eqb u_none u_is_empty u_eqb c0).

  Definition spec_state (k : nat) : lstate C E U := mkL (ctx_before k) (previous_undefined k) (previous_errors k).

  (* which exit the loop takes at a stopping pass *)
  Definition exit_of (k : nat) : exit C E :=
    if same_errors_twice k then ExitSameErrors (ctx_after k) (errors_of k)
    else if clean_pass k then ExitClean (ctx_after k)
    else ExitSameUndefined (ctx_after k).

  (* one iteration of the loop, started from the state the spec describes, does what the spec says *)
  Lemma step_spec k :
    step (spec_state k) = if stops_at k then Stop (exit_of k) else Next (spec_state (S k)).
  Proof.
    destruct rules_present as (R1 & R2 & R3 & R4 & R5 & R6).
    unfold PassLoop.step, spec_state, stops_at, exit_of, clean_pass, same_errors_twice, same_undefined_twice,
      has_segments, undefined_of, errors_of, added, ctx_after. cbn [l_ctx l_prev_undefined l_prev_errors].
    rewrite R1, R2, R3, R4, R5, R6. cbn [andb orb negb].
    cbn [PassLoopSpec.ctx_before PassLoopSpec.previous_undefined PassLoopSpec.previous_errors].
    unfold PassLoopSpec.has_segments, PassLoopSpec.errors_of, PassLoopSpec.undefined_of, PassLoopSpec.ctx_after.
    destruct (pass (ctx_before k)) as [[c1 errs] add] eqn:P. cbn [fst snd].
    destruct (no_segments c1) eqn:NS; cbn [negb andb orb]; [reflexivity|].
    destruct (e_is_empty errs) eqn:EE; cbn [negb andb orb].
    - destruct (u_is_empty (undefined c1)) eqn:UE; cbn [negb andb orb].
      + destruct add; cbn [negb andb orb]; reflexivity.
      + destruct (u_eqb (undefined c1) (previous_undefined k)); reflexivity.
    - destruct (e_eqb errs (previous_errors k)); reflexivity.
  Qed.

  Lemma state_at_spec k : (forall j, j < k -> stops_at j = false) -> state_at k (initial C E U e_none u_none c0) = Some (spec_state k).
  Proof.
    induction k as [|k IH]; intros H.
    - reflexivity.
    - cbn [PassLoop.state_at]. rewrite IH by (intros; apply H; lia). rewrite step_spec. rewrite H by lia. reflexivity.
  Qed.

  (* the loop, started at pass idx in the spec's state, with no cap before the first stop *)
  Lemma run_from cap fuel idx k :
    stops_at k = true -> (forall j, idx <= j -> j < k -> stops_at j = false) -> idx <= k -> k - idx < fuel ->
    (forall m, cap = Some m -> k < m) ->
    run cap fuel idx (spec_state idx) = Exited (S k) (exit_of k).
  Proof.
    revert idx. induction fuel as [|f IH]; intros idx Hs Hn Hle Hf Hc; [lia|].
    cbn [PassLoop.run].
    assert (CAP : (match cap with Some m => Nat.eqb idx m | None => false end) = false).
    { destruct cap as [m|]; [|reflexivity]. specialize (Hc m eq_refl). apply Nat.eqb_neq. lia. }
    rewrite CAP, step_spec.
    destruct (Nat.eq_dec idx k) as [->|Hne].
    - rewrite Hs. reflexivity.
    - rewrite Hn by lia. apply IH; auto; try lia. intros j A B. apply Hn; lia.
  Qed.

  Lemma run_to_cap m fuel idx :
    (forall j, idx <= j -> j < m -> stops_at j = false) -> idx <= m -> m - idx < fuel ->
    run (Some m) fuel idx (spec_state idx) = Exited m (ExitCap (ctx_before m) (previous_errors m)).
  Proof.
    revert idx. induction fuel as [|f IH]; intros idx Hn Hle Hf; [lia|].
    cbn [PassLoop.run]. destruct (Nat.eqb idx m) eqn:Q.
    - apply Nat.eqb_eq in Q. subst. reflexivity.
    - apply Nat.eqb_neq in Q. rewrite step_spec, Hn by lia. apply IH; try lia. intros j A B. apply Hn; lia.
  Qed.

  Lemma run_no_stop fuel idx :
    (forall j, idx <= j -> j < idx + fuel -> stops_at j = false) ->
    run None fuel idx (spec_state idx) = NoExitWithin (idx + fuel).
  Proof.
    revert idx. induction fuel as [|f IH]; intros idx Hn.
    - cbn. f_equal. lia.
    - cbn [PassLoop.run]. rewrite step_spec, Hn by lia. rewrite IH.
      + f_equal. lia.
      + intros j A B. apply Hn; lia.
  Qed.

  (* soundness: however the loop leaves, the spec explains it *)
  Lemma run_sound cap fuel : forall idx n x,
    (forall j, j < idx -> stops_at j = false) -> (forall m, cap = Some m -> idx <= m) ->
    run cap fuel idx (spec_state idx) = Exited n x ->
    (cap = Some n /\ x = ExitCap (ctx_before n) (previous_errors n) /\ forall j, j < n -> stops_at j = false) \/
    (exists k, n = S k /\ first_stop k /\ x = exit_of k /\ forall m, cap = Some m -> k < m).
  Proof.
    induction fuel as [|f IH]; intros idx n x Hn Hc R; [discriminate|].
    cbn [PassLoop.run] in R.
    destruct (match cap with Some m => Nat.eqb idx m | None => false end) eqn:Q.
    - destruct cap as [m|]; [|discriminate]. apply Nat.eqb_eq in Q. subst m. injection R as <- <-. left. auto.
    - assert (Hc' : forall m, cap = Some m -> idx < m).
      { intros m ->. specialize (Hc m eq_refl). apply Nat.eqb_neq in Q. lia. }
      rewrite step_spec in R. destruct (stops_at idx) eqn:S.
      + injection R as <- <-. right. exists idx. repeat split; auto.
      + eapply IH; [ | | exact R].
        * intros j Hj. destruct (Nat.eq_dec j idx); [subst; exact S | apply Hn; lia].
        * intros m Hm. specialize (Hc' m Hm). lia.
  Qed.

  (* the loop leaves after pass k through one of the three rules iff k is the first pass that satisfies one of
     them and the cap (if any) is above k *)
  Theorem loop_exits_iff cap fuel k x : k < fuel ->
    (run cap fuel 0 (initial C E U e_none u_none c0) = Exited (S k) x /\ (forall c e, x <> ExitCap c e)
     <-> first_stop k /\ (forall m, cap = Some m -> k < m) /\ x = exit_of k).
  Proof.
    intros Hf. change (initial C E U e_none u_none c0) with (spec_state 0). split.
    - intros [R NC].
      assert (H0 : forall j, j < 0 -> stops_at j = false) by (intros; lia).
      assert (H1 : forall m, cap = Some m -> 0 <= m) by (intros; lia).
      pose proof (run_sound cap fuel 0 _ _ H0 H1 R) as R'. clear R. rename R' into R.
      destruct R as [(_ & Ex & _)|(k' & Ek & Fs & Ex & Hc)].
      + exfalso. eapply NC. exact Ex.
      + injection Ek as <-. auto.
    - intros ([Hs Hn] & Hc & ->). split.
      + apply run_from; auto; try lia.
      + intros c e. unfold exit_of. destruct (same_errors_twice k); [discriminate|]. destruct (clean_pass k); discriminate.
  Qed.

  (* the cap ends the loop exactly when no pass before it satisfied a rule *)
  Theorem loop_cap_iff m fuel : m < fuel ->
    (run (Some m) fuel 0 (initial C E U e_none u_none c0) = Exited m (ExitCap (ctx_before m) (previous_errors m))
     <-> forall j, j < m -> stops_at j = false).
  Proof.
    intros Hf. change (initial C E U e_none u_none c0) with (spec_state 0). split.
    - intros R.
      assert (H0 : forall j, j < 0 -> stops_at j = false) by (intros; lia).
      assert (H1 : forall m', Some m = Some m' -> 0 <= m') by (intros; lia).
      pose proof (run_sound (Some m) fuel 0 _ _ H0 H1 R) as R'. clear R. rename R' into R.
      destruct R as [(_ & _ & H)|(k & Ek & _ & Ex & Hc)]; [exact H|].
      exfalso. unfold exit_of in Ex. destruct (same_errors_twice k); [discriminate|]. destruct (clean_pass k); discriminate.
    - intros H. apply run_to_cap; try lia. intros; apply H; lia.
  Qed.

  (* with a cap the loop always leaves, after at most `m` passes, whatever the pass function does *)
  Theorem loop_terminates_with_cap m :
    exists n x, n <= m /\ run (Some m) (S m) 0 (initial C E U e_none u_none c0) = Exited n x.
  Proof.
    change (initial C E U e_none u_none c0) with (spec_state 0).
    assert (G : forall fuel idx, idx <= m -> m - idx < fuel ->
              exists n x, n <= m /\ run (Some m) fuel idx (spec_state idx) = Exited n x).
    { induction fuel as [|f IH]; intros idx Hi Hf; [lia|].
      cbn [PassLoop.run]. destruct (Nat.eqb idx m) eqn:Q.
      - apply Nat.eqb_eq in Q. subst. eauto.
      - apply Nat.eqb_neq in Q. rewrite step_spec. destruct (stops_at idx).
        + exists (S idx). eexists. split; [lia|reflexivity].
        + apply IH; lia. }
    apply G; lia.
  Qed.

  (* without a cap: if no pass ever satisfies a rule the loop never leaves *)
  Theorem loop_never_exits_without_rule fuel :
    (forall j, stops_at j = false) -> run None fuel 0 (initial C E U e_none u_none c0) = NoExitWithin fuel.
  Proof.
    intros H. change (initial C E U e_none u_none c0) with (spec_state 0).
    rewrite run_no_stop; [reflexivity|]. intros; apply H.
  Qed.
  End From.
End Proofs.

(* ---- the bail-out rules alone do not bound the loop: a pass function of period 2 ----
   context = bool; errors = the context itself wrapped in a singleton (so consecutive passes never have equal
   errors); a pass flips the context and always reports an error; there are segments. *)
Definition p2_pass (c : bool) : bool * list bool * bool := (negb c, [c], false).
Definition p2_run (cap : option nat) (fuel : nat) :=
  run bool (list bool) unit p2_pass (fun _ => tt) (fun c => c) (fun _ => false) (fun c => c) (fun c => c)
      (fun e => match e with [] => true | _ => false end)
      (fun a b => match a, b with [x], [y] => Bool.eqb x y | [], [] => true | _, _ => false end)
      (fun _ => true) (fun _ _ => true) cap fuel.

Lemma p2_never_exits : forall fuel idx c pu pe,
  pe <> [c] -> p2_run None fuel idx (mkL c pu pe) = NoExitWithin (idx + fuel).
Proof.
  induction fuel as [|f IH]; intros idx c pu pe Hne.
  - cbn. f_equal. lia.
  - unfold p2_run in *. cbn [run]. unfold step. cbn [l_ctx l_prev_undefined l_prev_errors p2_pass].
    destruct rules_present as (R1 & R2 & R3 & R4 & R5 & R6). rewrite R1. cbn [andb negb].
    assert (Q : (match pe with [y] => Bool.eqb c y | _ => false end) = false).
    { destruct pe as [|y [|z r]]; try reflexivity. destruct (Bool.eqb c y) eqn:B; [|reflexivity].
      apply Bool.eqb_prop in B. subst. congruence. }
    cbn [p2_pass]. rewrite Q. rewrite IH.
    + f_equal. lia.
    + intros H. injection H as H. destruct c; discriminate.
Qed.

Theorem period2_pass_never_exits : forall fuel, p2_run None fuel 0 (mkL true tt []) = NoExitWithin fuel.
Proof. intros fuel. rewrite p2_never_exits; [reflexivity | discriminate]. Qed.

Theorem period2_pass_hits_cap : forall m, exists x, p2_run (Some m) (S m) 0 (mkL true tt []) = Exited m x.
Proof.
  intros m.
  assert (G : forall fuel idx c pu pe, pe <> [c] -> idx <= m -> m - idx < fuel ->
            exists x, p2_run (Some m) fuel idx (mkL c pu pe) = Exited m x).
  { induction fuel as [|f IH]; intros idx c pu pe Hne Hi Hf; [lia|].
    unfold p2_run in *. cbn [run]. destruct (Nat.eqb idx m) eqn:Q.
    - apply Nat.eqb_eq in Q. subst. eauto.
    - apply Nat.eqb_neq in Q. unfold step. cbn [l_ctx l_prev_undefined l_prev_errors p2_pass].
      destruct rules_present as (R1 & _). rewrite R1. cbn [andb negb].
      assert (Q2 : (match pe with [y] => Bool.eqb c y | _ => false end) = false).
      { destruct pe as [|y [|z r]]; try reflexivity. destruct (Bool.eqb c y) eqn:B; [|reflexivity].
        apply Bool.eqb_prop in B. subst. congruence. }
      rewrite Q2. apply IH; try lia. intros H. injection H as H. destruct c; discriminate. }
  apply G; [discriminate|lia|lia].
Qed.

(* the loop as the source has it now: capped *)
Theorem codegen_loop_terminates :
  forall (C E U : Type) (pass : C -> C * E * bool) (undefined : C -> U) (take_undefined : C -> C) (no_segments : C -> bool)
         (create_default_segment next_pass : C -> C) (e_none : E) (e_is_empty : E -> bool) (e_eqb : E -> E -> bool)
         (u_none : U) (u_is_empty : U -> bool) (u_eqb : U -> U -> bool) (c0 : C),
  exists cap n x, max_iterations = Some cap /\ n <= cap /\
    codegen_loop C E U pass undefined take_undefined no_segments create_default_segment next_pass e_none e_is_empty e_eqb
                 u_none u_is_empty u_eqb (S cap) c0 = Exited n x.
Proof.
  intros. unfold codegen_loop.
  destruct max_iterations as [cap|] eqn:M; [|discriminate M].
  destruct (loop_terminates_with_cap C E U pass undefined take_undefined no_segments create_default_segment next_pass
              e_none e_is_empty e_eqb u_none u_is_empty u_eqb c0 cap) as (n & x & Hn & Hr).
  exists cap, n, x. auto.
Qed.

(* C07, whole programs, conditions and counts that depend on symbols.
   Closedness of the condition is replaced by stability over the run: chi assigns a value to some expressions, and the run of
   the original program is required to have evaluated each of them to that value EVERY time, in every pass (checked on the
   log of each pass).  Then the program and its expansion -- the `.if`s on such conditions replaced by the selected branch,
   the `.loop`s on such counts by the blocks -- again go through the same sequence of passes. *)
From Coq Require Import List NArith ZArith Bool PeanoNat Lia.
Import ListNotations.
From Mos Require Import model.I64 Gen.BinOps model.Expr Gen.OpcodeTable spec.Isa model.Encode.
From Mos Require Import model.SymTab Gen.CodegenConsts model.Segment model.Asm proofs.AsmLift proofs.AsmProofs proofs.AsmSim proofs.AsmFuel
  proofs.ExpandProofs proofs.ExpandWhole.
Open Scope Z_scope.

(* ------------------------------------------------------------------ the log only grows *)
Definition Tr (c d : ctx) : Prop := exists new, g_trace d = new ++ g_trace c.
Lemma Tr_refl c : Tr c c. Proof. exists []. reflexivity. Qed.
Lemma Tr_trans a b c : Tr a b -> Tr b c -> Tr a c.
Proof. intros [n1 H1] [n2 H2]. exists (n2 ++ n1). rewrite H2, H1, app_assoc. reflexivity. Qed.
Lemma Tr_of_good c d : good c d -> Tr c d.
Proof. intros [_ (new & T & _)]. exists new. exact T. Qed.

Notation TM := (RM Tr).
Lemma TM_of_GM {A} (m : M A) : RM good m -> TM m.
Proof. intros H c. specialize (H c). destruct (m c); auto using Tr_of_good. Qed.

Lemma tr_add_symbol id sym : TM (add_symbol id sym). Proof. apply TM_of_GM, good_add_symbol. Qed.
Lemma tr_emit sp b : TM (emit sp b). Proof. apply TM_of_GM, good_emit. Qed.
Lemma tr_eval e : TM (evaluate_expression e). Proof. apply TM_of_GM, good_eval. Qed.
Lemma tr_export a b p : TM (export_one a b p). Proof. apply TM_of_GM, good_export. Qed.
Lemma tr_import_as p : TM (import_as_scope p). Proof. apply TM_of_GM, good_import_as. Qed.

Lemma tr_emit_token fuel t : TM (emit_token fuel t).
Proof.
  apply (RM_emit_token Tr Tr_refl Tr_trans tr_add_symbol tr_emit tr_eval); try apply tr_export; try apply tr_import_as;
  intros; apply Tr_of_good; first [apply good_enter|apply good_leave|apply good_install|apply good_setpc|apply good_select|apply good_bump|apply good_flag].
Qed.
Lemma tr_emit_tokens fuel ts : TM (emit_tokens (emit_token fuel) ts).
Proof. apply (RM_emit_tokens_with Tr Tr_refl Tr_trans). apply tr_emit_token. Qed.
Lemma tr_scope_symbol n sp : TM (scope_symbol n sp).
Proof. apply (RM_scope_symbol Tr Tr_refl Tr_trans tr_add_symbol). Qed.
Lemma tr_eval_i64 e : TM (evaluate_expression_as_i64 e).
Proof. apply (RM_eval_i64 Tr Tr_refl Tr_trans tr_eval). Qed.
Lemma tr_after_pass : TM after_pass.
Proof. apply (RM_after_pass Tr Tr_refl Tr_trans tr_add_symbol). Qed.
Lemma tr_modify f : (forall c, Tr c (f c)) -> TM (modify f).
Proof. intros H c. apply H. Qed.
Lemma tr_leave p n : TM (modify (leave_scope p n)).
Proof. apply tr_modify. intro c. apply Tr_of_good, good_leave. Qed.
Lemma tr_select o : TM (modify (select_segment o)).
Proof. apply tr_modify. intro c. apply Tr_of_good, good_select. Qed.

Lemma run_ok_tr fuel ts : forall c d, run_ok (emit_token fuel) ts c = Some d -> Tr c d.
Proof.
  induction ts as [|t r IH]; intros c d H; cbn [run_ok] in H.
  - inversion H. apply Tr_refl.
  - pose proof (tr_emit_token fuel t c) as T. destruct (emit_token fuel t c) as [a e|ds e|f]; try discriminate.
    eapply Tr_trans; [exact T|apply IH; exact H].
Qed.

(* ------------------------------------------------------------------ expressions without strings and calls *)
Fixpoint simple (e : expr) : bool :=
  match e with
  | EBin _ l r => simple l && simple r
  | ENum _ _ _ _ => true
  | EId _ _ _ _ => true
  | EPc _ _ => true
  | EParens i _ _ => simple i
  | _ => false
  end.

Lemma with_flags_some a b r w : with_flags a b r = EVal (Some w) -> exists w', r = EVal (Some w').
Proof.
  unfold with_flags. destruct r as [[[n|s]|]|x|]; try discriminate; eauto.
Qed.

(* a simple expression that has a value found every name it looked up *)
Lemma simple_found en e : simple e = true -> forall w, eval en e = EVal (Some w) -> Forall (fun p => lookup en p <> None) (usages e).
Proof.
  induction e using expr_ind2; cbn [simple usages]; intros S w Ev; try discriminate; try (constructor; fail).
  - apply andb_true_iff in S as [S1 S2]. cbn [eval] in Ev.
    destruct (eval en e1) as [lv|x|] eqn:E1; try discriminate. destruct (eval en e2) as [rv|x|] eqn:E2; try discriminate.
    destruct lv as [l1|]; [|discriminate]. destruct rv as [l2|]; [|destruct l1; discriminate].
    apply Forall_app. split; [eapply IHe1; eauto|eapply IHe2; eauto].
  - cbn [eval] in Ev. apply with_flags_some in Ev as [w' Ev]. constructor; [|constructor].
    destruct (lookup en a); [discriminate|discriminate].
  - cbn [eval] in Ev. apply with_flags_some in Ev as [w' Ev]. eapply IHe; eauto.
Qed.

Lemma flag_usages_none c : forall ps, Forall (fun p => lookup_in (symbols c) (current_scope_nx c) (fst p) <> None) ps -> flag_usages c ps = c.
Proof.
  induction ps as [|[p sp] r IH]; intro F; cbn [flag_usages]; [reflexivity|].
  inversion F; subst. cbn [fst] in *. destruct (lookup_in (symbols c) (current_scope_nx c) p); [apply IH; assumption|congruence].
Qed.

Lemma Forall_combine_fst {A B} (P : A -> Prop) (l : list A) (l' : list B) : Forall P l -> Forall (fun p => P (fst p)) (combine l l').
Proof.
  intro F. revert l'. induction F as [|x l Hx F IH]; intro l'; cbn [combine]; [constructor|].
  destruct l'; constructor; auto.
Qed.

Section Stable.
Variable chi : expr -> option Z.

Definition ok_trace (tr : list event) : Prop :=
  forall sc pc e v x, In (EvEval sc pc e v) tr -> chi e = Some x -> v = Some (SNum x).

Lemma ok_back c d : Tr c d -> ok_trace (g_trace d) -> ok_trace (g_trace c).
Proof. intros [new T] H sc pc e v x Hin. apply (H sc pc e v x). rewrite T. apply in_or_app. right. exact Hin. Qed.

(* a condition / count whose value is x whenever it is evaluated *)
Definition cond_ok (v : lexpr) (x : Z) : Prop :=
  closed_value v x \/ (chi (le_expr v) = Some x /\ simple (le_expr v) = true).

Lemma eval_cond v x c vo c1 : cond_ok v x -> evaluate_expression_as_i64 v c = Ret vo c1 -> ok_trace (g_trace c1) ->
  vo = Some x /\ exists ev, c1 = log c ev.
Proof.
  intros [CV|[CH SI]] H OK.
  - destruct (eval_closed_i64 v x c CV) as [[ev Ev]|Ev]; rewrite Ev in H; [|discriminate]. inversion H; subst. eauto.
  - unfold evaluate_expression_as_i64, bind, evaluate_expression in H.
    assert (G : forall pc,
      match (if diverges c (le_expr v) then Abort FDiverge
             else match eval (env_of (symbols c) (current_scope_nx c) pc) (le_expr v) with
                  | EVal w => Ret w (log (flag_usages c (combine (usages (le_expr v)) (le_ids v))) (EvEval (current_scope_nx c) pc (le_expr v) w))
                  | EErr e => Err [mkDiag (DEval e) None [] []] c
                  | EPanic => Abort FPanic
                  end) with
      | Ret a c' => match a with Some (SNum n) => ret (Some n) | Some _ => err1 DNotInteger (Some (le_span v)) [] [] | None => ret None end c'
      | Err ds c' => Err ds c'
      | Abort f => Abort f
      end = Ret vo c1 -> vo = Some x /\ exists ev, c1 = log c ev).
    { intro pc. destruct (diverges c (le_expr v)); [discriminate|].
      destruct (eval (env_of (symbols c) (current_scope_nx c) pc) (le_expr v)) as [w|e|] eqn:Ev; try discriminate.
      intro H1.
      assert (W : w = Some (SNum x)).
      { destruct w as [[n|s]|]; cbn in H1; try discriminate; inversion H1; subst c1;
        apply (OK (current_scope_nx c) pc (le_expr v) _ x); try exact CH; cbn [g_trace log]; left; reflexivity. }
      subst w. cbn in H1. inversion H1; subst. split; [reflexivity|].
      rewrite flag_usages_none; [eauto|].
      apply (Forall_combine_fst (fun q => lookup_in (symbols c) (current_scope_nx c) q <> None)). exact (simple_found _ _ SI _ Ev). }
    destruct (try_current_target_pc c); [apply (G None); exact H|apply (G (Some (usize_as_i64 z))); exact H|discriminate].
Qed.

(* ------------------------------------------------------------------ success simulation under a stable log *)
Definition SimOkX {A} (m m' : M A) : Prop :=
  forall c c', E c c' -> forall a d, m c = Ret a d -> ok_trace (g_trace d) -> exists d', m' c' = Ret a d' /\ E d d'.

Lemma SimOkX_of_SimOk {A} (m m' : M A) : SimOk m m' -> SimOkX m m'.
Proof. intros H c c' HE a d Hm _. eapply H; eauto. Qed.

Lemma SimOkX_bind {A B} (m m' : M A) (k k' : A -> M B) :
  SimOkX m m' -> (forall a, SimOkX (k a) (k' a)) -> (forall a, TM (k a)) -> SimOkX (bind m k) (bind m' k').
Proof.
  intros Hm Hk Tk c c' HE b d H OK. unfold bind in *. destruct (m c) as [a e|ds e|f] eqn:Em; try discriminate.
  pose proof (Tk a e) as T. rewrite H in T.
  destruct (Hm c c' HE a e Em (ok_back _ _ T OK)) as (e' & Em' & He). rewrite Em'. apply (Hk a e e' He b d H OK).
Qed.
Lemma SimOkX_get_bind {B} (k k' : ctx -> M B) : (forall c c', E c c' -> SimOkX (k c) (k' c')) -> SimOkX (bind get k) (bind get k').
Proof. intros Hk c c' HE b d H OK. unfold bind, get in *. apply (Hk c c' HE c c' HE b d H OK). Qed.
Lemma SimOkX_finally {A} (m m' : M A) cl cl' : SimOkX m m' -> SimOk cl cl' -> TM cl -> SimOkX (finally m cl) (finally m' cl').
Proof.
  intros Hm Hc Tc c c' HE a d H OK. unfold finally in *. destruct (m c) as [x e|ds e|f] eqn:Em; try discriminate.
  - destruct (cl e) as [u g|ds g|f] eqn:Ec; try discriminate. inversion H; subst.
    pose proof (Tc e) as T. rewrite Ec in T.
    destruct (Hm c c' HE a e Em (ok_back _ _ T OK)) as (e' & Em' & He). rewrite Em'.
    destruct (Hc e e' He u d Ec) as (g' & Ec' & Hg). rewrite Ec'. eauto.
  - destruct (cl e); discriminate.
Qed.

Lemma SimOkX_with_scope_pc {A} s b b' (f f' : M A) :
  blk_lparen b = blk_lparen b' -> blk_rparen b = blk_rparen b' ->
  (forall x x', E x x' -> try_current_target_pc x <> PcPanic -> forall a d, f x = Ret a d -> ok_trace (g_trace d) ->
     exists d', f' x' = Ret a d' /\ E d d') ->
  SimOkX (with_scope s (Some b) f) (with_scope s (Some b') f').
Proof.
  intros Hl Hr Hf c c' HE a d H OK. unfold with_scope in *. rewrite <- Hl, <- Hr.
  unfold bind at 1 in H. unfold get at 1 in H. unfold bind at 1. unfold get at 1.
  assert (HS : current_scope c = current_scope c' /\ current_scope_nx c = current_scope_nx c' /\ next_macro_scope_id c = next_macro_scope_id c') by (unfold E, core in HE; inversion HE; auto).
  destruct HS as (H1 & H2 & H3). rewrite <- H1, <- H2, <- H3.
  unfold bind at 1 in H. cbn [modify] in H. unfold bind at 1. cbn [modify].
  assert (HE1 : E (enter_scope s c) (enter_scope s c')) by (apply core_enter; exact HE).
  unfold bind at 1 in H. unfold bind at 1.
  destruct (scope_symbol t_minus (blk_lparen b) (enter_scope s c)) as [u x|ds x|fl] eqn:S1; try discriminate.
  destruct (SimOk_of_SimM _ _ (sim_scope_symbol t_minus (blk_lparen b)) _ _ HE1 u x S1) as (x' & S1' & HX). rewrite S1'.
  pose proof (scope_symbol_pc _ _ _ _ _ S1) as P.
  unfold finally in *. destruct (f x) as [v y|ds y|fl] eqn:Fx; try discriminate.
  - match type of H with match ?m y with _ => _ end = _ => destruct (m y) as [w z|ds z|fl] eqn:C1; try discriminate end.
    inversion H; subst.
    assert (TC : TM (scope_symbol t_plus (blk_rparen b) ;;; modify (leave_scope (current_scope c) (current_scope_nx c, next_macro_scope_id c)))).
    { apply (RM_bind Tr Tr_trans); [apply tr_scope_symbol|intro; apply tr_leave]. }
    pose proof (TC y) as T. rewrite C1 in T.
    destruct (Hf x x' HX P a y Fx (ok_back _ _ T OK)) as (y' & Fx' & HY). rewrite Fx'.
    assert (SC : SimM (scope_symbol t_plus (blk_rparen b) ;;; modify (leave_scope (current_scope c) (current_scope_nx c, next_macro_scope_id c)))
                      (scope_symbol t_plus (blk_rparen b) ;;; modify (leave_scope (current_scope c) (current_scope_nx c, next_macro_scope_id c)))).
    { apply sim_bind; [apply sim_scope_symbol|intro]. apply sim_modify. intros; apply core_leave; assumption. }
    destruct (SimOk_of_SimM _ _ SC y y' HY w d C1) as (z' & C1' & HZ). rewrite C1'. eauto.
  - match type of H with match ?m y with _ => _ end = _ => destruct (m y); discriminate end.
Qed.

Lemma SimOkX_with_scope {A} s b b' (f f' : M A) :
  blk_lparen b = blk_lparen b' -> blk_rparen b = blk_rparen b' -> SimOkX f f' ->
  SimOkX (with_scope s (Some b) f) (with_scope s (Some b') f').
Proof. intros Hl Hr Hf. apply SimOkX_with_scope_pc; auto. intros x x' HX _ a d. apply Hf. exact HX. Qed.

Definition LOkX (F : nat) (ts ts' : list token) : Prop :=
  forall c c' d, E c c' -> run_ok (emit_token F) ts c = Some d -> ok_trace (g_trace d) ->
  exists d', run_ok (emit_token (S F)) ts' c' = Some d' /\ E d d'.

Lemma LOkX_of_LOk F ts ts' : LOk F ts ts' -> LOkX F ts ts'.
Proof. intros H c c' d HE R _. eapply H; eauto. Qed.

Lemma LOkX_emit_tokens F ts ts' : LOkX F ts ts' -> SimOkX (emit_tokens (emit_token F) ts) (emit_tokens (emit_token (S F)) ts').
Proof.
  intros H c c' HE a d Hm OK. destruct a. unfold emit_tokens in *.
  apply (run_ok_iff _ (emit_token_ne F)) in Hm. destruct (H c c' d HE Hm OK) as (d' & Hr & He).
  exists d'. split; [|exact He]. apply (run_ok_iff _ (emit_token_ne (S F))). exact Hr.
Qed.

Lemma LOkX_app F ts ts' us us' : LOkX F ts ts' -> LOkX F us us' -> LOkX F (ts ++ us) (ts' ++ us').
Proof.
  intros H1 H2 c c' d HE H OK. rewrite run_ok_app in *. destruct (run_ok (emit_token F) ts c) as [e|] eqn:Er; [|discriminate].
  destruct (H1 c c' e HE Er (ok_back _ _ (run_ok_tr F us e d H) OK)) as (e' & Er' & He). rewrite Er'. eapply H2; eauto.
Qed.

Lemma LOkX_single F t t' : SimOkX (emit_token F t) (emit_token (S F) t') -> LOkX F [t] [t'].
Proof.
  intros H c c' d HE Hr OK. cbn [run_ok] in *. destruct (emit_token F t c) as [a e|ds e|f] eqn:Et; try discriminate.
  inversion Hr; subst. destruct (H c c' HE a d Et OK) as (e' & Et' & He). rewrite Et'. eauto.
Qed.

Lemma LOkX_cons_token F t t' ts ts' : SimOkX (emit_token F t) (emit_token (S F) t') -> LOkX F ts ts' -> LOkX F (t :: ts) (t' :: ts').
Proof. intros H1 H2. apply (LOkX_app F [t] [t'] ts ts'); [apply LOkX_single; exact H1|exact H2]. Qed.

Lemma run_ok_upX F ts ts' : LOkX F ts ts' -> forall c c' d, E c c' -> run_ok (emit_token F) ts c = Some d -> ok_trace (g_trace d) ->
  exists d', run_ok (emit_token (S (S F))) ts' c' = Some d' /\ E d d'.
Proof.
  intros H c c' d HE Hr OK. destruct (H c c' d HE Hr OK) as (d1 & H1 & E1).
  destruct (run_ok_mono (S F) ts' c' c' d1 (E_refl c') H1) as (d2 & H2 & E2). exists d2. split; [exact H2|eapply E_trans; eauto].
Qed.

(* ------------------------------------------------------------------ substituted expressions (constants) *)
(* e' is what e becomes when the constants in it are replaced by their (literal) definitions: a closed expression with the
   value e has whenever it is evaluated; the span is kept *)
Definition esub (e e' : lexpr) : Prop := le_span e = le_span e' /\ exists x, cond_ok e x /\ closed_value e' x.

Lemma eval_not_panic e c a d : evaluate_expression e c = Ret a d -> try_current_target_pc c <> PcPanic.
Proof. unfold evaluate_expression. intros H P. rewrite P in H. discriminate. Qed.

Lemma eval_sval v x c vo c1 : cond_ok v x -> evaluate_expression v c = Ret vo c1 -> ok_trace (g_trace c1) ->
  vo = Some (SNum x) /\ exists ev, c1 = log c ev.
Proof.
  intros [CV|[CH SI]] H OK.
  - destruct (eval_closed v x c CV (eval_not_panic _ _ _ _ H)) as [ev Ev]. rewrite Ev in H. inversion H; subst. eauto.
  - unfold evaluate_expression in H.
    assert (G : forall pc,
      (if diverges c (le_expr v) then Abort FDiverge
       else match eval (env_of (symbols c) (current_scope_nx c) pc) (le_expr v) with
            | EVal w => Ret w (log (flag_usages c (combine (usages (le_expr v)) (le_ids v))) (EvEval (current_scope_nx c) pc (le_expr v) w))
            | EErr e => Err [mkDiag (DEval e) None [] []] c
            | EPanic => Abort FPanic
            end) = Ret vo c1 -> vo = Some (SNum x) /\ exists ev, c1 = log c ev).
    { intro pc. destruct (diverges c (le_expr v)); [discriminate|].
      destruct (eval (env_of (symbols c) (current_scope_nx c) pc) (le_expr v)) as [w|e|] eqn:Ev; try discriminate.
      intro H1. inversion H1; subst vo c1.
      assert (W : w = Some (SNum x)).
      { apply (OK (current_scope_nx c) pc (le_expr v) _ x); try exact CH; cbn [g_trace log]; left; reflexivity. }
      subst w. split; [reflexivity|].
      rewrite flag_usages_none; [eauto|].
      apply (Forall_combine_fst (fun q => lookup_in (symbols c) (current_scope_nx c) q <> None)). exact (simple_found _ _ SI _ Ev). }
    destruct (try_current_target_pc c); [apply (G None); exact H|apply (G (Some (usize_as_i64 z))); exact H|discriminate].
Qed.

Lemma E_pc c c' : E c c' -> try_current_target_pc c = try_current_target_pc c'.
Proof. intro HX. unfold try_current_target_pc, try_current_segment; unfold E, core in HX; inversion HX; reflexivity. Qed.

Lemma SimOkX_eval e e' : esub e e' -> SimOkX (evaluate_expression e) (evaluate_expression e').
Proof.
  intros (_ & x & CO & CV) c c' HE a d H OK.
  destruct (eval_sval e x c a d CO H OK) as [-> [ev ->]].
  assert (P : try_current_target_pc c' <> PcPanic) by (rewrite <- (E_pc _ _ HE); exact (eval_not_panic _ _ _ _ H)).
  destruct (eval_closed e' x c' CV P) as [ev' Ev']. exists (log c' ev'). split; [exact Ev'|]. apply E_log, E_log_r, HE.
Qed.

Lemma SimOkX_eval_i64 e e' : esub e e' -> SimOkX (evaluate_expression_as_i64 e) (evaluate_expression_as_i64 e').
Proof.
  intros HS c c' HE a d H OK. unfold evaluate_expression_as_i64, bind in *.
  destruct (evaluate_expression e c) as [vo c1|ds c1|fl] eqn:Ev; try discriminate.
  assert (D : c1 = d) by (destruct vo as [[n|s]|]; cbn in H; try discriminate; inversion H; reflexivity). subst c1.
  destruct (SimOkX_eval e e' HS c c' HE vo d Ev OK) as (d' & Ev' & Hd). rewrite Ev'.
  destruct vo as [[n|s]|]; cbn in H |- *; try discriminate; inversion H; subst; eauto.
Qed.

Lemma tr_ret {A} (a : A) : TM (ret a). Proof. intro y. apply Tr_refl. Qed.
Lemma tr_fail {A} ds : TM (@fail A ds). Proof. intro y. apply Tr_refl. Qed.
Lemma tr_get : TM get. Proof. intro y. apply Tr_refl. Qed.
Lemma tr_current_target_pc : TM current_target_pc. Proof. apply (RM_current_target_pc Tr Tr_refl). Qed.
Lemma tr_emit_data_values size vs : TM (emit_data_values size vs).
Proof. apply (RM_emit_data_values Tr Tr_refl Tr_trans tr_emit tr_eval). Qed.

Ltac tm :=
  repeat match goal with
    | |- RM Tr (evaluate_expression_as_i64 _) => apply tr_eval_i64
    | |- RM Tr current_target_pc => apply tr_current_target_pc
    | |- RM Tr (bind _ _) => apply (RM_bind Tr Tr_trans); [|intro]
    | |- RM Tr (ret _) => apply tr_ret
    | |- RM Tr (fail _) => apply tr_fail
    | |- RM Tr (err1 _ _ _ _) => apply tr_fail
    | |- RM Tr (abort _) => intro; exact I
    | |- RM Tr get => apply tr_get
    | |- RM Tr (add_symbol _ _) => apply tr_add_symbol
    | |- RM Tr (emit _ _) => apply tr_emit
    | |- RM Tr (evaluate_expression _) => apply tr_eval
    | |- RM Tr (modify (set_current_pc _)) => apply tr_modify; intro; apply Tr_of_good, good_setpc
    | |- RM Tr (match ?x with _ => _ end) => destruct x
    | |- RM Tr (if ?b then _ else _) => destruct b
    end.

Lemma sub_pc F e e' : esub e e' -> SimOkX (emit_token F (TPc e)) (emit_token (S F) (TPc e')).
Proof.
  intros HS. destruct F as [|f]; [intros c0 c0' HE0 r0 d0 Hd0; discriminate|]. cbn [emit_token emit_token_body].
  pose proof HS as [Hsp _]. rewrite <- Hsp.
  apply SimOkX_bind; [apply SimOkX_eval_i64; exact HS| |].
  - intros v. apply SimOkX_of_SimOk, SimOk_of_SimM. destruct v; [|sm].
    match goal with |- SimM (if ?b then _ else _) _ => destruct b; [sm|] | _ => idtac end.
    apply sim_get_bind; intros c c' H; same_core H;
    match goal with H1 : segments c = segments c', H2 : current_segment c = current_segment c' |- _ => rewrite H1, H2 end; sm2.
  - intros v. tm.
Qed.

Lemma sub_align F e e' : esub e e' -> SimOkX (emit_token F (TAlign e)) (emit_token (S F) (TAlign e')).
Proof.
  intros HS. destruct F as [|f]; [intros c0 c0' HE0 r0 d0 Hd0; discriminate|]. cbn [emit_token emit_token_body].
  pose proof HS as [Hsp _]. rewrite <- Hsp.
  apply SimOkX_bind; [apply SimOkX_of_SimOk, SimOk_of_SimM, sim_current_target_pc| |].
  - intros pc. destruct pc; [|apply SimOkX_of_SimOk, SimOk_of_SimM, sim_ret].
    apply SimOkX_bind; [apply SimOkX_eval_i64; exact HS| |].
    + intros a. apply SimOkX_of_SimOk, SimOk_of_SimM. destruct a; [|sm]. destruct (z0 <=? 0)%Z; sm.
    + intros a. tm.
  - intros pc. tm.
Qed.

Lemma sub_vardef F ty id isp e e' : esub e e' -> SimOkX (emit_token F (TVarDef ty id isp e)) (emit_token (S F) (TVarDef ty id isp e')).
Proof.
  intros HS. destruct F as [|f]; [intros c0 c0' HE0 r0 d0 Hd0; discriminate|]. cbn [emit_token emit_token_body].
  apply SimOkX_bind; [apply SimOkX_eval; exact HS| |].
  - intros v. apply SimOkX_of_SimOk, SimOk_of_SimM. destruct v; [|sm].
    apply sim_get_bind; intros c c' H. rewrite (symbol_core _ _ _ _ _ H). sm.
  - intros v. tm.
Qed.

Lemma sub_instr F m msp fm e e' : esub e e' ->
  SimOkX (emit_token F (TInstr m msp (Some (e, fm)))) (emit_token (S F) (TInstr m msp (Some (e', fm)))).
Proof.
  intros HS. destruct F as [|f]; [intros c0 c0' HE0 r0 d0 Hd0; discriminate|]. cbn [emit_token emit_token_body].
  pose proof HS as [Hsp _]. rewrite <- Hsp.
  apply SimOkX_bind.
  - apply SimOkX_bind; [apply SimOkX_eval_i64; exact HS|intro; apply SimOkX_of_SimOk, SimOk_of_SimM, sim_ret|intro; apply tr_ret].
  - intros data. apply SimOkX_of_SimOk, SimOk_of_SimM. destruct data as [[value f0]|]; [|apply sim_emit].
    apply sim_bind; [apply sim_current_target_pc|intros pc].
    destruct (emit_instruction m f0 value pc) as [bytes [er|]]; [destruct er|]; sm.
  - intros data. destruct data as [[value f0]|]; [|apply tr_emit].
    apply (RM_bind Tr Tr_trans); [apply tr_current_target_pc|intros pc].
    destruct (emit_instruction m f0 value pc) as [bytes [er|]]; [destruct er|]; tm.
Qed.

Lemma sub_data_values size es es' : Forall2 esub es es' -> SimOkX (emit_data_values size es) (emit_data_values size es').
Proof.
  induction 1 as [|e e' r r' HS HR IH]; cbn [emit_data_values]; [apply SimOkX_of_SimOk, SimOk_of_SimM, sim_ret|].
  pose proof HS as [Hsp _]. rewrite <- Hsp.
  apply SimOkX_bind; [apply SimOkX_eval_i64; exact HS| |].
  - intros v. apply SimOkX_bind; [apply SimOkX_of_SimOk, SimOk_of_SimM, sim_emit|intro; exact IH|intro; apply tr_emit_data_values].
  - intros v. apply (RM_bind Tr Tr_trans); [apply tr_emit|intro; apply tr_emit_data_values].
Qed.
Lemma sub_data F size es es' : Forall2 esub es es' -> SimOkX (emit_token F (TData size es)) (emit_token (S F) (TData size es')).
Proof.
  intros HS. destruct F as [|f]; [intros c0 c0' HE0 r0 d0 Hd0; discriminate|]. cbn [emit_token emit_token_body].
  apply sub_data_values. exact HS.
Qed.

(* ------------------------------------------------------------------ the expansion relation with stable conditions *)
Fixpoint lits_okX (lits : list lexpr) (i : Z) : Prop :=
  match lits with [] => True | li :: r => closed_value li i /\ lits_okX r (i + 1) end.

Inductive XpS : list token -> list token -> Prop :=
  | XpS_nil : XpS [] []
  | XpS_keep t ts ts' : XpS ts ts' -> XpS (t :: ts) (t :: ts')
  | XpS_if v x a b br' ts ts' :
      cond_ok v x -> XpS (selected x a b) br' -> XpS ts ts' -> XpS (TIf v a b :: ts) (br' ++ ts')
  | XpS_loop e n lsc lp rp body body' lits ts ts' :
      cond_ok e n -> n <= loop_iteration_limit -> Z.of_nat (length lits) = Z.max 0 (n - loop_first_index) ->
      lits_ok lits loop_first_index -> XpS body body' -> XpS ts ts' ->
      XpS (TLoop e lsc (Blk lp rp body) :: ts) (loop_blocks e lsc lp rp body' lits loop_first_index ++ ts')
  | XpS_braces sc lp rp body body' ts ts' :
      XpS body body' -> XpS ts ts' -> XpS (TBraces sc (Blk lp rp body) :: ts) (TBraces sc (Blk lp rp body') :: ts')
  | XpS_label id isp lp rp body body' ts ts' :
      XpS body body' -> XpS ts ts' -> XpS (TLabel id isp (Some (Blk lp rp body)) :: ts) (TLabel id isp (Some (Blk lp rp body')) :: ts')
  | XpS_segment id lp rp body body' ts ts' :
      XpS body body' -> XpS ts ts' -> XpS (TSegment id (Some (Blk lp rp body)) :: ts) (TSegment id (Some (Blk lp rp body')) :: ts')
  (* uses of constants replaced by their closed definitions *)
  | XpS_instr m msp fm e e' ts ts' :
      esub e e' -> XpS ts ts' -> XpS (TInstr m msp (Some (e, fm)) :: ts) (TInstr m msp (Some (e', fm)) :: ts')
  | XpS_data size es es' ts ts' :
      Forall2 esub es es' -> XpS ts ts' -> XpS (TData size es :: ts) (TData size es' :: ts')
  | XpS_pc e e' ts ts' : esub e e' -> XpS ts ts' -> XpS (TPc e :: ts) (TPc e' :: ts')
  | XpS_align e e' ts ts' : esub e e' -> XpS ts ts' -> XpS (TAlign e :: ts) (TAlign e' :: ts')
  | XpS_vardef ty id isp e e' ts ts' :
      esub e e' -> XpS ts ts' -> XpS (TVarDef ty id isp e :: ts) (TVarDef ty id isp e' :: ts').

Lemma loop_blocks_okX f e lsc lp rp body body' :
  LOkX f body body' ->
  forall lits lf i n c c' d, lits_ok lits i -> Z.of_nat (length lits) = Z.max 0 (n - i) -> E c c' ->
  loop_iterations lf i n (fun index =>
     with_scope (iteration_scope_name lsc index) (Some (Blk lp rp body))
       (c0 <- get ;; add_symbol [t_index] (symbol_ c0 (Some (le_span e)) (SDNum index) TyConstant) ;;;
        emit_tokens (emit_token f) body)) c = Ret tt d -> ok_trace (g_trace d) ->
  exists d', run_ok (emit_token (S (S f))) (loop_blocks e lsc lp rp body' lits i) c' = Some d' /\ E d d'.
Proof.
  intros HB lits. induction lits as [|li r IH]; intros lf i n c c' d LO LEN HE H OK; cbn [loop_blocks run_ok length lits_ok] in *.
  - rewrite loop_iterations_eq in H. destruct (n <=? i) eqn:En; [|apply Z.leb_gt in En; lia].
    inversion H; subst. eauto.
  - destruct LO as [CV LO]. rewrite loop_iterations_eq in H.
    destruct (n <=? i) eqn:En; [apply Z.leb_le in En; lia|]. destruct lf as [|lf0]; [discriminate|].
    unfold bind at 1 in H.
    match type of H with match ?m c with _ => _ end = _ => destruct (m c) as [u e1|ds e1|fl] eqn:E1; try discriminate end.
    assert (TRest : Tr e1 d).
    { pose proof (RM_loop_iterations Tr Tr_refl Tr_trans
        (fun index => with_scope (iteration_scope_name lsc index) (Some (Blk lp rp body))
           (c0 <- get ;; add_symbol [t_index] (symbol_ c0 (Some (le_span e)) (SDNum index) TyConstant) ;;; emit_tokens (emit_token f) body))) as TL.
      assert (TB : forall i0, TM (with_scope (iteration_scope_name lsc i0) (Some (Blk lp rp body))
           (c0 <- get ;; add_symbol [t_index] (symbol_ c0 (Some (le_span e)) (SDNum i0) TyConstant) ;;; emit_tokens (emit_token f) body))).
      { intro i0. apply (RM_with_scope Tr Tr_refl Tr_trans tr_add_symbol); try (intros; apply Tr_of_good; first [apply good_enter|apply good_leave]).
        apply (RM_bind Tr Tr_trans); [intro x; apply Tr_refl|intro]. apply (RM_bind Tr Tr_trans); [apply tr_add_symbol|intro; apply tr_emit_tokens]. }
      specialize (TL TB lf0 (i + 1) n e1). rewrite H in TL. exact TL. }
    assert (S1 : SimOkX
      (with_scope (iteration_scope_name lsc i) (Some (Blk lp rp body))
         (c0 <- get ;; add_symbol [t_index] (symbol_ c0 (Some (le_span e)) (SDNum i) TyConstant) ;;; emit_tokens (emit_token f) body))
      (emit_token (S (S f)) (it_block e lsc lp rp body' li i))).
    { unfold it_block. cbn [emit_token emit_token_body blk_inner].
      change (fun t : token => emit_token_body (emit_token f) f t) with (emit_token (S f)).
      apply SimOkX_with_scope_pc; [reflexivity|reflexivity|].
      intros x x' HX Px a dd Hx OKd.
      unfold bind at 1 in Hx. unfold get at 1 in Hx. unfold bind at 1 in Hx.
      destruct (add_symbol [t_index] (symbol_ x (Some (le_span e)) (SDNum i) TyConstant) x) as [nx xa|ds xa|fl2] eqn:EA; try discriminate.
      unfold emit_tokens at 1. cbn [emit_tokens_with]. cbn [emit_token emit_token_body].
      assert (P : try_current_target_pc x' <> PcPanic).
      { assert (T : try_current_target_pc x = try_current_target_pc x')
          by (unfold try_current_target_pc, try_current_segment; unfold E, core in HX; inversion HX; reflexivity).
        rewrite <- T. exact Px. }
      destruct (eval_closed li i x' CV P) as [ev Ev].
      unfold bind at 1. rewrite Ev. cbn [sval_to_sdata]. unfold bind at 1. unfold get at 1.
      assert (HX2 : E x (log x' ev)) by (apply E_log_r; exact HX).
      rewrite <- (symbol_core x (log x' ev) (Some (le_span e)) (SDNum i) TyConstant HX2).
      pose proof (sim_add_symbol [t_index] (symbol_ x (Some (le_span e)) (SDNum i) TyConstant) x (log x' ev) HX2) as SA.
      rewrite EA in SA. unfold bind at 1.
      destruct (add_symbol [t_index] (symbol_ x (Some (le_span e)) (SDNum i) TyConstant) (log x' ev)) as [nx' xa'|ds' xa'|fl3]; cbn in SA; try contradiction.
      destruct SA as [_ HA]. cbn [ret].
      destruct a. unfold emit_tokens in Hx.
      apply (run_ok_iff _ (emit_token_ne f)) in Hx.
      destruct (HB xa xa' dd HA Hx OKd) as (dd' & Hr & Hd). exists dd'. split; [|exact Hd].
      change (fun t : token => emit_token_body (emit_token f) f t) with (emit_token (S f)).
      apply (run_ok_iff _ (emit_token_ne (S f))). exact Hr. }
    destruct (S1 c c' HE u e1 E1 (ok_back _ _ TRest OK)) as (e1' & E1' & He1). rewrite E1'.
    eapply IH; [exact LO| |exact He1|exact H|exact OK]. lia.
Qed.

Theorem xps_ok ts ts' : XpS ts ts' -> forall F, LOkX F ts ts'.
Proof.
  induction 1 as [ |t ts ts' X IH
                   |v x a b br' ts ts' CV Xb IHb X IH
                   |e n lsc lp rp body body' lits ts ts' CV Lim Len LO Xb IHb X IH
                   |sc lp rp body body' ts ts' Xb IHb X IH
                   |id isp lp rp body body' ts ts' Xb IHb X IH
                   |id lp rp body body' ts ts' Xb IHb X IH
                   |m msp fm e e' ts ts' HS X IH
                   |size es es' ts ts' HS X IH
                   |e e' ts ts' HS X IH
                   |e e' ts ts' HS X IH
                   |ty id isp e e' ts ts' HS X IH]; intro F;
  try (apply LOkX_cons_token; [first [apply sub_instr|apply sub_data|apply sub_pc|apply sub_align|apply sub_vardef]; exact HS|apply IH]).
  - apply LOkX_of_LOk, LOk_refl.
  - apply LOkX_cons_token; [apply SimOkX_of_SimOk, token_mono|apply IH].
  - (* .if on a stable condition *)
    intros c c' d HE Hr OK. cbn [run_ok] in Hr.
    destruct F as [|f]; [discriminate|].
    destruct (emit_token (S f) (TIf v a b) c) as [u0 e1|ds e1|fl] eqn:Et; try discriminate.
    pose proof (ok_back _ _ (run_ok_tr (S f) ts e1 d Hr) OK) as OK1.
    rewrite if_meaning in Et.
    destruct (evaluate_expression_as_i64 v c) as [vo c1|ds c1|fl] eqn:Ev; try discriminate.
    assert (OKc1 : ok_trace (g_trace c1)).
    { destruct vo as [x0|]; [|inversion Et; subst; exact OK1].
      pose proof (tr_emit_tokens f (selected x0 a b) c1) as T. rewrite Et in T. exact (ok_back _ _ T OK1). }
    destruct (eval_cond v x c vo c1 CV Ev OKc1) as [-> [ev ->]].
    destruct u0. unfold emit_tokens in Et. apply (run_ok_iff _ (emit_token_ne f)) in Et.
    destruct (run_ok_upX f _ _ (IHb f) (log c ev) c' e1 (E_log _ _ ev HE) Et OK1) as (e1' & R1 & He1).
    rewrite run_ok_app, R1. apply (IH (S f) e1 e1' d He1 Hr OK).
  - (* .loop on a stable count *)
    intros c c' d HE Hr OK. cbn [run_ok] in Hr.
    destruct F as [|f]; [discriminate|].
    destruct (emit_token (S f) (TLoop e lsc (Blk lp rp body)) c) as [u0 e1|ds e1|fl] eqn:Et; try discriminate.
    pose proof (ok_back _ _ (run_ok_tr (S f) ts e1 d Hr) OK) as OK1.
    rewrite loop_meaning in Et.
    destruct (evaluate_expression_as_i64 e c) as [vo c1|ds c1|fl] eqn:Ev; try discriminate.
    assert (OKc1 : ok_trace (g_trace c1)).
    { destruct vo as [x0|]; [|inversion Et; subst; exact OK1].
      destruct (loop_iteration_limit <? x0); [discriminate|].
      pose proof (RM_loop_iterations Tr Tr_refl Tr_trans (iteration (emit_token f) e lsc (Blk lp rp body))) as TL.
      assert (TB : forall i0, TM (iteration (emit_token f) e lsc (Blk lp rp body) i0)).
      { intro i0. unfold iteration.
        apply (RM_with_scope Tr Tr_refl Tr_trans tr_add_symbol); try (intros; apply Tr_of_good; first [apply good_enter|apply good_leave]).
        apply (RM_bind Tr Tr_trans); [intro y; apply Tr_refl|intro]. apply (RM_bind Tr Tr_trans); [apply tr_add_symbol|intro; apply tr_emit_tokens]. }
      specialize (TL TB f loop_first_index x0 c1). rewrite Et in TL. exact (ok_back _ _ TL OK1). }
    destruct (eval_cond e n c vo c1 CV Ev OKc1) as [-> [ev ->]].
    destruct (loop_iteration_limit <? n) eqn:EL; [apply Z.ltb_lt in EL; lia|].
    destruct u0. unfold iteration in Et.
    destruct (loop_blocks_okX f e lsc lp rp body body' (IHb f) lits f loop_first_index n (log c ev) c' e1 LO Len (E_log _ _ ev HE) Et OK1) as (e1' & R1 & He1).
    rewrite run_ok_app, R1. apply (IH (S f) e1 e1' d He1 Hr OK).
  - (* braces *)
    apply LOkX_cons_token; [|apply IH]. destruct F as [|f]; [intros c0 c0' HE0 r0 d0 Hd0; discriminate|].
    cbn [emit_token emit_token_body blk_inner].
    change (fun t : token => emit_token_body (emit_token f) f t) with (emit_token (S f)).
    apply SimOkX_with_scope; [reflexivity|reflexivity|]. apply LOkX_emit_tokens. apply IHb.
  - (* labelled block *)
    apply LOkX_cons_token; [|apply IH]. destruct F as [|f]; [intros c0 c0' HE0 r0 d0 Hd0; discriminate|].
    cbn [emit_token emit_token_body blk_inner].
    change (fun t : token => emit_token_body (emit_token f) f t) with (emit_token (S f)).
    apply SimOkX_bind; [apply SimOkX_of_SimOk, SimOk_of_SimM, sim_current_target_pc| |].
    + intros pc. apply SimOkX_bind.
      * apply SimOkX_of_SimOk, SimOk_of_SimM. destruct pc; [|apply sim_ret]. apply sim_get_bind; intros x x' HX. rewrite (symbol_core _ _ _ _ _ HX).
        apply sim_bind; [apply sim_add_symbol|intro; apply sim_ret].
      * intro. apply SimOkX_with_scope; [reflexivity|reflexivity|]. apply LOkX_emit_tokens. apply IHb.
      * intro. apply (RM_with_scope Tr Tr_refl Tr_trans tr_add_symbol); try (intros; apply Tr_of_good; first [apply good_enter|apply good_leave]).
        apply tr_emit_tokens.
    + intro pc. apply (RM_bind Tr Tr_trans).
      * destruct pc; [|intro y; apply Tr_refl]. apply (RM_bind Tr Tr_trans); [intro y; apply Tr_refl|intro].
        apply (RM_bind Tr Tr_trans); [apply tr_add_symbol|intro; intro y; apply Tr_refl].
      * intro. apply (RM_with_scope Tr Tr_refl Tr_trans tr_add_symbol); try (intros; apply Tr_of_good; first [apply good_enter|apply good_leave]).
        apply tr_emit_tokens.
  - (* .segment block *)
    apply LOkX_cons_token; [|apply IH]. destruct F as [|f]; [intros c0 c0' HE0 r0 d0 Hd0; discriminate|].
    cbn [emit_token emit_token_body blk_inner].
    change (fun t : token => emit_token_body (emit_token f) f t) with (emit_token (S f)).
    assert (TS : forall (s : option text), TM
      (match s with
       | Some name =>
           if existsb (N.eqb 46) name then err1 DInvalidName (Some (le_span id)) [name] [] else
           c <- get ;;
           match seg_get (segments c) name with
           | None => err1 DUnknownIdentifier (Some (le_span id)) [] []
           | Some _ => modify (select_segment (Some name)) ;;;
                       finally (emit_tokens (emit_token f) body) (modify (select_segment (current_segment c)))
           end
       | None => ret tt
       end)).
    { intros [name|]; [|intro y; apply Tr_refl]. destruct (existsb (N.eqb 46) name); [intro y; apply Tr_refl|].
      apply (RM_bind Tr Tr_trans); [intro y; apply Tr_refl|intro c0]. destruct (seg_get (segments c0) name); [|intro y; apply Tr_refl].
      apply (RM_bind Tr Tr_trans); [apply tr_select|intro]. apply (RM_finally Tr Tr_trans); [apply tr_emit_tokens|apply tr_select]. }
    apply SimOkX_bind; [apply SimOkX_of_SimOk, SimOk_of_SimM, sim_eval_string| |exact TS].
    intros s. destruct s; [|apply SimOkX_of_SimOk, SimOk_of_SimM, sim_ret].
    destruct (existsb (N.eqb 46) t); [apply SimOkX_of_SimOk, SimOk_of_SimM, sim_fail|].
    apply SimOkX_get_bind; intros x x' HX.
    assert (HS : segments x = segments x' /\ current_segment x = current_segment x') by (unfold E, core in HX; inversion HX; auto).
    destruct HS as [H1 H2]. rewrite H1, H2.
    destruct (seg_get (segments x') t); [|apply SimOkX_of_SimOk, SimOk_of_SimM, sim_fail].
    apply SimOkX_bind; [apply SimOkX_of_SimOk, SimOk_of_SimM, sim_modify; intros; apply core_select; assumption| |].
    + intro. apply SimOkX_finally; [apply LOkX_emit_tokens; apply IHb| |apply tr_select].
      apply SimOk_of_SimM. apply sim_modify. intros; apply core_select; assumption.
    + intro. apply (RM_finally Tr Tr_trans); [apply tr_emit_tokens|apply tr_select].
Qed.

(* ------------------------------------------------------------------ the pass loop with the stability check *)
Variable chk : list event -> bool.
Hypothesis chk_sound : forall tr, chk tr = true -> ok_trace tr.

Fixpoint pass_loop_okc (passes fuel : nat) (o : options) (toks : list token) (c : ctx) (prev_undefined : list undef) : option ctx :=
  match passes with
  | O => None
  | S n =>
      match pass_ok fuel toks c with
      | None => None
      | Some c1 =>
          if negb (chk (g_trace c1)) then None else
          let symbols_added := negb (Nat.eqb (node_count (symbols c1)) (node_count (symbols c))) in
          match segments c1 with
          | [] =>
              let opts := mkSegOpts None (opt_pc o) segment_default_write (opt_pc o) in
              pass_loop_okc n fuel o toks (next_pass (set_segments c1 [(t_default, seg_new opts)] (Some t_default))) prev_undefined
          | _ :: _ =>
              let und_empty := match undefined c1 with [] => true | _ => false end in
              let chg_empty := match changed c1 with [] => true | _ => false end in
              if und_empty && chg_empty && (negb stop_needs_no_new_symbols || negb symbols_added) then Some c1
              else if (negb unknown_needs_nonempty || negb und_empty) && set_eqb (undefined c1) prev_undefined then None
              else pass_loop_okc n fuel o toks (next_pass (set_undefined c1 [])) (undefined c1)
          end
      end
  end.

Lemma pass_loop_okc_ok passes fuel o toks : forall c pu cf,
  pass_loop_okc passes fuel o toks c pu = Some cf -> pass_loop_ok passes fuel o toks c pu = Some cf.
Proof.
  induction passes as [|n IH]; intros c pu cf H; cbn [pass_loop_okc pass_loop_ok] in *; [discriminate|].
  destruct (pass_ok fuel toks c) as [c1|]; [|discriminate]. destruct (negb (chk (g_trace c1))); [discriminate|].
  destruct (segments c1) as [|sg sgs]; [apply IH; exact H|].
  destruct ((match undefined c1 with [] => true | _ :: _ => false end) && (match changed c1 with [] => true | _ :: _ => false end)
            && (negb stop_needs_no_new_symbols || negb (negb (Nat.eqb (node_count (symbols c1)) (node_count (symbols c)))))); [exact H|].
  destruct ((negb unknown_needs_nonempty || negb (match undefined c1 with [] => true | _ :: _ => false end)) && set_eqb (undefined c1) pu); [discriminate|].
  apply IH. exact H.
Qed.

Lemma pass_ok_simX F p p' : LOkX F p p' -> forall c c' c1, E c c' -> pass_ok F p c = Some c1 -> ok_trace (g_trace c1) ->
  exists c1', pass_ok (S F) p' c' = Some c1' /\ E c1 c1'.
Proof.
  intros H c c' c2 HE HP OK. unfold pass_ok in *. destruct (run_ok (emit_token F) p c) as [c1|] eqn:R; [|discriminate].
  destruct (after_pass c1) as [u x|ds x|f] eqn:A; try discriminate. inversion HP; subst.
  pose proof (tr_after_pass c1) as T. rewrite A in T.
  destruct (H c c' c1 HE R (ok_back _ _ T OK)) as (c1' & R' & E1). rewrite R'.
  destruct (SimOk_of_SimM _ _ sim_after_pass c1 c1' E1 u c2 A) as (x' & A' & EX). rewrite A'. eauto.
Qed.

Lemma pass_loop_okc_sim F p p' : LOkX F p p' -> forall passes o c c' pu cf, E c c' ->
  pass_loop_okc passes F o p c pu = Some cf ->
  exists cf', pass_loop_ok passes (S F) o p' c' pu = Some cf' /\ E cf cf'.
Proof.
  intros HL passes. induction passes as [|n IH]; intros o c c' pu cf HE H; cbn [pass_loop_okc pass_loop_ok] in *; [discriminate|].
  destruct (pass_ok F p c) as [c1|] eqn:P; [|discriminate].
  destruct (chk (g_trace c1)) eqn:CK; cbn [negb] in H; [|discriminate].
  destruct (pass_ok_simX F p p' HL c c' c1 HE P (chk_sound _ CK)) as (c1' & P' & E1). rewrite P'.
  assert (HC : node_count (symbols c1) = node_count (symbols c1') /\ node_count (symbols c) = node_count (symbols c') /\
               segments c1 = segments c1' /\ undefined c1 = undefined c1' /\ changed c1 = changed c1').
  { unfold E, core in *. inversion HE. inversion E1. repeat split; congruence. }
  destruct HC as (N1 & N0 & SG & UN & CH). rewrite <- N1, <- N0, <- SG, <- UN, <- CH.
  destruct (segments c1) as [|sg sgs].
  - eapply IH; [|exact H]. apply E_next_pass. apply E_set_segments. exact E1.
  - destruct ((match undefined c1 with [] => true | _ :: _ => false end) && (match changed c1 with [] => true | _ :: _ => false end)
              && (negb stop_needs_no_new_symbols || negb (negb (Nat.eqb (node_count (symbols c1)) (node_count (symbols c)))))).
    + inversion H; subst. eauto.
    + destruct ((negb unknown_needs_nonempty || negb (match undefined c1 with [] => true | _ :: _ => false end)) && set_eqb (undefined c1) pu); [discriminate|].
      eapply IH; [|exact H]. apply E_next_pass. apply E_set_undefined. exact E1.
Qed.

Definition codegen_okc (passes fuel : nat) (o : options) (toks : list token) : option ctx :=
  pass_loop_okc passes fuel o toks (initial_ctx o) [].

Theorem whole_program_stable p p' passes F o cf :
  XpS p p' -> codegen_okc passes F o p = Some cf ->
  codegen passes F o p = Done cf /\
  exists cf', codegen passes (S F) o p' = Done cf' /\ E cf cf' /\ segment_image cf = segment_image cf' /\ symbols cf = symbols cf'.
Proof.
  intros X H. split; [apply pass_loop_ok_done, pass_loop_okc_ok; exact H|].
  destruct (pass_loop_okc_sim F p p' (xps_ok p p' X F) passes o (initial_ctx o) (initial_ctx o) [] cf (E_refl _) H) as (cf' & H' & HE).
  exists cf'. split; [apply pass_loop_ok_done; exact H'|]. split; [exact HE|].
  unfold E, core in HE. inversion HE. unfold segment_image. split; congruence.
Qed.
End Stable.

(* a decidable stability check for any assignment chi *)
Definition chk_of (chi : expr -> option Z) (tr : list event) : bool :=
  forallb (fun ev => match ev with
                     | EvEval _ _ e v => match chi e with
                                         | Some x => match v with Some (SNum y) => Z.eqb x y | _ => false end
                                         | None => true
                                         end
                     | _ => true
                     end) tr.
Lemma chk_of_sound chi tr : chk_of chi tr = true -> ok_trace chi tr.
Proof.
  unfold chk_of, ok_trace. intros H sc pc e v x Hin Hc. rewrite forallb_forall in H. specialize (H _ Hin). cbn in H. rewrite Hc in H.
  destruct v as [[y|s]|]; try discriminate. apply Z.eqb_eq in H. subst. reflexivity.
Qed.

Theorem whole_program_stable_chk chi p p' passes F o cf :
  XpS chi p p' -> codegen_okc (chk_of chi) passes F o p = Some cf ->
  codegen passes F o p = Done cf /\
  exists cf', codegen passes (S F) o p' = Done cf' /\ E cf cf' /\ segment_image cf = segment_image cf' /\ symbols cf = symbols cf'.
Proof. apply (whole_program_stable chi (chk_of chi) (chk_of_sound chi)). Qed.

(* ------------------------------------------------------------------ constants only *)
(* the uses of constants in operands, data, `* =`, `.align` and definitions replaced by closed expressions of the value they
   have in every pass (what substitution of literal definitions gives); the definitions themselves stay, so the tables agree *)
Inductive XpC (chi : expr -> option Z) : list token -> list token -> Prop :=
  | XpC_nil : XpC chi [] []
  | XpC_keep t ts ts' : XpC chi ts ts' -> XpC chi (t :: ts) (t :: ts')
  | XpC_instr m msp fm e e' ts ts' :
      esub chi e e' -> XpC chi ts ts' -> XpC chi (TInstr m msp (Some (e, fm)) :: ts) (TInstr m msp (Some (e', fm)) :: ts')
  | XpC_data size es es' ts ts' :
      Forall2 (esub chi) es es' -> XpC chi ts ts' -> XpC chi (TData size es :: ts) (TData size es' :: ts')
  | XpC_pc e e' ts ts' : esub chi e e' -> XpC chi ts ts' -> XpC chi (TPc e :: ts) (TPc e' :: ts')
  | XpC_align e e' ts ts' : esub chi e e' -> XpC chi ts ts' -> XpC chi (TAlign e :: ts) (TAlign e' :: ts')
  | XpC_vardef ty id isp e e' ts ts' :
      esub chi e e' -> XpC chi ts ts' -> XpC chi (TVarDef ty id isp e :: ts) (TVarDef ty id isp e' :: ts')
  | XpC_braces sc lp rp body body' ts ts' :
      XpC chi body body' -> XpC chi ts ts' -> XpC chi (TBraces sc (Blk lp rp body) :: ts) (TBraces sc (Blk lp rp body') :: ts')
  | XpC_label id isp lp rp body body' ts ts' :
      XpC chi body body' -> XpC chi ts ts' ->
      XpC chi (TLabel id isp (Some (Blk lp rp body)) :: ts) (TLabel id isp (Some (Blk lp rp body')) :: ts')
  | XpC_segment id lp rp body body' ts ts' :
      XpC chi body body' -> XpC chi ts ts' ->
      XpC chi (TSegment id (Some (Blk lp rp body)) :: ts) (TSegment id (Some (Blk lp rp body')) :: ts').

Lemma XpC_XpS chi ts ts' : XpC chi ts ts' -> XpS chi ts ts'.
Proof. induction 1; econstructor; eauto. Qed.

Theorem whole_program_const chi p p' passes F o cf :
  XpC chi p p' -> codegen_okc (chk_of chi) passes F o p = Some cf ->
  codegen passes F o p = Done cf /\
  exists cf', codegen passes (S F) o p' = Done cf' /\ E cf cf' /\ segment_image cf = segment_image cf' /\ symbols cf = symbols cf'.
Proof. intros X. apply whole_program_stable_chk. apply XpC_XpS. exact X. Qed.

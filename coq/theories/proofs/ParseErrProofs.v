(* Proofs for C04 (parse level), on dev-parse's parser model (model/Nom.v, model/Parser.v):
   every Error token of the tree and every failed `expect` with a message pushed a diagnostic at the offending place
   (modulo the one diagnostic that State::ignore_next_error() suppresses after an unterminated block comment). *)
From Coq Require Import List NArith Bool Arith Lia.
Import ListNotations.
From Mos Require Import model.Utf model.Nom Gen.ParserTables model.Parser spec.ParseErrors.
Open Scope N_scope.

Definition inv2 (st : pstate) : Prop := ignore_next st = true -> exists u, In u (errors st) /\ unterminated u.
(* the parser state only grows *)
Definition ext (st st' : pstate) : Prop := (exists new : list diag, errors st' = new ++ errors st) /\ (inv2 st -> inv2 st').

Lemma ext_refl st : ext st st.
Proof. split; [exists []; reflexivity|auto]. Qed.
Lemma ext_trans a b c : ext a b -> ext b c -> ext a c.
Proof. intros [[n1 E1] I1] [[n2 E2] I2]. split; [exists (n2 ++ n1); rewrite E2, E1, app_assoc; reflexivity|auto]. Qed.
Lemma reported_ext st st' d : ext st st' -> reported (errors st) d -> reported (errors st') d.
Proof.
  intros [[n E] _] [[x [H U]]|[u [H U]]]; rewrite E; [left; exists x|right; exists u]; (split; [|exact U]); apply in_or_app; right; exact H.
Qed.

Lemma report_error_ext d st : ext st (report_error d st).
Proof.
  unfold report_error. destruct (ignore_next st) eqn:E; split; cbn.
  - exists []. reflexivity.
  - intros _ H. discriminate.
  - exists [d]. reflexivity.
  - intros _ H. discriminate.
Qed.
Lemma report_error_reported d st : inv2 st -> reported (errors (report_error d st)) (eq d).
Proof.
  intros I. unfold report_error. destruct (ignore_next st) eqn:E; cbn.
  - right. apply I. exact E.
  - left. exists d. split; [left|]; reflexivity.
Qed.

(* ------------------------------------------------------------------ accounting predicate *)
Definition acct {A} (E : A -> list obl) (p : parser A) : Prop :=
  forall st i st' res, p st i = (st', res) ->
    ext st st' /\ match res with Ok v _ => inv2 st -> Forall (reported (errors st')) (E v) | _ => True end.
Definition quiet {A} (p : parser A) : Prop := acct (fun _ => []) p.
Definition pure {A} (p : parser A) : Prop := forall st i, fst (p st i) = st.

Lemma quiet_of_pure {A} (p : parser A) : pure p -> quiet p.
Proof.
  intros H st i st' res E. specialize (H st i). rewrite E in H. cbn in H. subst st'. split; [apply ext_refl|].
  destruct res; auto.
Qed.

Lemma acct_ext {A} (E E' : A -> list obl) p : (forall a, E' a = E a) -> acct E p -> acct E' p.
Proof. intros H Hp st i st' res Ep. destruct (Hp _ _ _ _ Ep) as [X Y]. split; [exact X|]. destruct res; auto. rewrite H. exact Y. Qed.
Lemma acct_quiet {A} (E : A -> list obl) p : quiet p -> (forall a, E a = []) -> acct E p.
Proof. intros Hq H. eapply acct_ext; [|exact Hq]. exact H. Qed.
Lemma quiet_of_acct {A} (E : A -> list obl) (p : parser A) : acct E p -> quiet p.
Proof. intros Hp st i st' res Ep. destruct (Hp _ _ _ _ Ep) as [X _]. split; [exact X|]. destruct res; auto. Qed.

Lemma acct_map {A B} (E : B -> list obl) (f : A -> B) p : acct (fun a => E (f a)) p -> acct E (map_p f p).
Proof.
  intros Hp st i st' res Ep. unfold map_p in Ep. destruct (p st i) as [st1 [a r| |x]] eqn:E1; inversion Ep; subst;
    destruct (Hp _ _ _ _ E1) as [X Y]; split; auto.
Qed.
Lemma quiet_map {A B} (f : A -> B) p : quiet p -> quiet (map_p f p).
Proof. intros H. apply acct_map. exact H. Qed.

Lemma acct_pair {A B} (E1 : A -> list obl) (E2 : B -> list obl) p q :
  acct E1 p -> acct E2 q -> acct (fun x => E1 (fst x) ++ E2 (snd x)) (pair_p p q).
Proof.
  intros Hp Hq st i st' res Ep. unfold pair_p in Ep.
  destruct (p st i) as [st1 [a r| |x]] eqn:E1'; destruct (Hp _ _ _ _ E1') as [X1 Y1]; try (inversion Ep; subst; split; auto; fail).
  destruct (q st1 r) as [st2 [b r'| |y]] eqn:E2'; destruct (Hq _ _ _ _ E2') as [X2 Y2]; inversion Ep; subst;
    (split; [eapply ext_trans; eassumption|]); auto.
  intros I. cbn [fst snd]. apply Forall_app. split.
  - eapply Forall_impl; [|apply Y1; exact I]. intros d. apply reported_ext. exact X2.
  - apply Y2. apply X1. exact I.
Qed.
Lemma quiet_pair {A B} (p : parser A) (q : parser B) : quiet p -> quiet q -> quiet (pair_p p q).
Proof. intros Hp Hq. eapply acct_ext; [|apply (acct_pair _ _ _ _ Hp Hq)]. reflexivity. Qed.
Lemma acct_pair_r {A B} (E2 : B -> list obl) (p : parser A) q : quiet p -> acct E2 q -> acct (fun x => E2 (snd x)) (pair_p p q).
Proof. intros Hp Hq. eapply acct_ext; [|apply (acct_pair _ _ _ _ Hp Hq)]. reflexivity. Qed.
Lemma acct_pair_l {A B} (E1 : A -> list obl) p (q : parser B) : acct E1 p -> quiet q -> acct (fun x => E1 (fst x)) (pair_p p q).
Proof. intros Hp Hq. eapply acct_ext; [|apply (acct_pair _ _ _ _ Hp Hq)]. intros a. cbn. rewrite app_nil_r. reflexivity. Qed.

Lemma acct_alt {A} (E : A -> list obl) p q : acct E p -> acct E q -> acct E (alt p q).
Proof.
  intros Hp Hq st i st' res Ep. unfold alt in Ep.
  destruct (p st i) as [st1 [a r| |x]] eqn:E1; destruct (Hp _ _ _ _ E1) as [X1 Y1]; try (inversion Ep; subst; split; auto; fail).
  destruct (Hq _ _ _ _ Ep) as [X2 Y2]. split; [eapply ext_trans; eassumption|]. destruct res; auto.
  intros I. apply Y2. apply X1. exact I.
Qed.
Lemma acct_alts {A} (E : A -> list obl) ps : Forall (acct E) ps -> acct E (alts ps).
Proof.
  induction 1 as [|p r Hp Hr IH]; cbn [alts].
  - intros st i st' res Ep. inversion Ep; subst. split; [apply ext_refl|exact I].
  - apply acct_alt; assumption.
Qed.
Lemma acct_alts_map {A T} (E : A -> list obl) (f : T -> parser A) l : (forall e, acct E (f e)) -> acct E (alts (map f l)).
Proof. intros H. apply acct_alts. apply Forall_forall. intros p Hp. apply in_map_iff in Hp. destruct Hp as [e [<- _]]. apply H. Qed.

Definition Eopt {A} (E : A -> list obl) (o : option A) : list obl := match o with Some a => E a | None => [] end.
Lemma acct_opt {A} (E : A -> list obl) p : acct E p -> acct (Eopt E) (opt p).
Proof.
  intros Hp st i st' res Ep. unfold opt in Ep. destruct (p st i) as [st1 [a r| |x]] eqn:E1; destruct (Hp _ _ _ _ E1) as [X Y];
    inversion Ep; subst; split; auto. intros _. constructor.
Qed.
Lemma quiet_opt {A} (p : parser A) : quiet p -> quiet (opt p).
Proof. intros H. eapply quiet_of_acct. apply acct_opt. exact H. Qed.

Lemma quiet_not {A} (p : parser A) : quiet p -> quiet (not_p p).
Proof.
  intros Hp st i st' res Ep. unfold not_p in Ep. destruct (p st i) as [st1 [a r| |x]] eqn:E1; destruct (Hp _ _ _ _ E1) as [X Y];
    inversion Ep; subst; split; auto.
Qed.
Lemma quiet_recognize {A} (p : parser A) : quiet p -> quiet (recognize p).
Proof.
  intros Hp st i st' res Ep. unfold recognize in Ep. destruct (p st i) as [st1 [a r| |x]] eqn:E1; destruct (Hp _ _ _ _ E1) as [X Y];
    inversion Ep; subst; split; auto.
Qed.

Lemma acct_many0_aux {A} (E : A -> list obl) p : acct E p -> forall fuel, acct (fun l => flat_map E l) (many0_aux fuel p).
Proof.
  intros Hp fuel. induction fuel as [|f IH]; intros st i st' res Ep; cbn [many0_aux] in Ep.
  - inversion Ep; subst. split; [apply ext_refl|exact I].
  - destruct (p st i) as [st1 [a r| |x]] eqn:E1; destruct (Hp _ _ _ _ E1) as [X1 Y1].
    + destruct (length (rem r) =? length (rem i))%nat; [inversion Ep; subst; split; auto|].
      destruct (many0_aux f p st1 r) as [st2 [l r'| |y]] eqn:E2; destruct (IH _ _ _ _ E2) as [X2 Y2]; inversion Ep; subst;
        (split; [eapply ext_trans; eassumption|]); auto.
      intros I. cbn [flat_map]. apply Forall_app. split.
      * eapply Forall_impl; [|apply Y1; exact I]. intros d. apply reported_ext. exact X2.
      * apply Y2. apply X1. exact I.
    + inversion Ep; subst. split; auto. intros _. constructor.
    + inversion Ep; subst. split; auto.
Qed.
Lemma acct_many0 {A} (E : A -> list obl) p : acct E p -> acct (fun l => flat_map E l) (many0 p).
Proof. intros Hp st i. apply acct_many0_aux. exact Hp. Qed.
Lemma flat_map_nil {A B} (l : list A) : flat_map (fun _ => @nil B) l = [].
Proof. induction l; auto. Qed.
Lemma quiet_many0 {A} (p : parser A) : quiet p -> quiet (many0 p).
Proof. intros H. eapply quiet_of_acct. apply acct_many0. exact H. Qed.
Lemma quiet_many1 {A} (p : parser A) : quiet p -> quiet (many1 p).
Proof. intros H. unfold many1. apply quiet_map, quiet_pair; [exact H|apply quiet_many0; exact H]. Qed.
Lemma quiet_separated_list1 {A B} (s : parser B) (f : parser A) : quiet s -> quiet f -> quiet (separated_list1 s f).
Proof. intros. unfold separated_list1. apply quiet_map, quiet_pair; [assumption|]. apply quiet_many0, quiet_pair; assumption. Qed.

(* expect: a failed expect with a message reports at the position where the construct was expected *)
Lemma acct_expect {A} (E : A -> list obl) p m : acct E p -> acct (Eopt E) (expect p m).
Proof.
  intros Hp st i st' res Ep. unfold expect in Ep. destruct (p st i) as [st1 [a r| |x]] eqn:E1; destruct (Hp _ _ _ _ E1) as [X Y].
  - inversion Ep; subst. split; auto.
  - destruct m; inversion Ep; subst; split; try (intros _; constructor); try exact X;
      (eapply ext_trans; [exact X|apply report_error_ext]).
  - inversion Ep; subst. split; auto.
Qed.
Lemma quiet_expect {A} (p : parser A) m : quiet p -> quiet (expect p m).
Proof. intros H. eapply quiet_of_acct. apply acct_expect. exact H. Qed.
(* the local statement: whatever the parser, a failed expect with a non-empty message reports at the current offset *)
Lemma expect_reports {A} (p : parser A) m st i st' r : quiet p -> m <> MEmpty -> inv2 st ->
  expect p m st i = (st', Ok None r) -> r = i /\ reported (errors st') (eq (expect_diag m i)).
Proof.
  intros Hp Hm I Ep. unfold expect in Ep. destruct (p st i) as [st1 [a r1| |x]] eqn:E1; destruct (Hp _ _ _ _ E1) as [X _].
  - inversion Ep.
  - destruct m; try congruence; inversion Ep; subst; (split; [reflexivity|]); apply report_error_reported; apply X; exact I.
  - inversion Ep.
Qed.

Lemma acct_with_scope {A B} (E : B -> list obl) (p : parser A) (f : A -> nat -> B) :
  acct (fun a => flat_map (fun n => E (f a n)) [0%nat]) p -> (forall a n m, E (f a n) = E (f a m)) -> acct E (with_scope p f).
Proof.
  intros Hp Hf st i st' res Ep. unfold with_scope in Ep. destruct (p st i) as [st1 [a r| |x]] eqn:E1; destruct (Hp _ _ _ _ E1) as [X Y];
    cbn in Ep; inversion Ep; subst; try (split; auto; fail).
  split.
  - destruct X as [[n En] In_]. split; [exists n; exact En|]. intros I H. cbn in *. apply In_; assumption.
  - intros I. cbn [errors]. specialize (Y I). cbn in Y. rewrite app_nil_r in Y. rewrite (Hf a _ 0%nat). exact Y.
Qed.
Lemma quiet_peek {A} (p : parser A) : quiet p -> quiet (peek p).
Proof.
  intros Hp st i st' res Ep. unfold peek in Ep. destruct (p st i) as [st1 [a r| |x]] eqn:E1; destruct (Hp _ _ _ _ E1) as [X Y];
    inversion Ep; subst; split; auto.
Qed.

(* nested(max_depth, p): entering / leaving a nesting level does not touch the diagnostics *)
Lemma ext_enter st : ext st (enter_nesting st).
Proof. split; [exists []; reflexivity|intros I H; apply I; exact H]. Qed.
Lemma ext_leave st : ext st (leave_nesting st).
Proof. split; [exists []; reflexivity|intros I H; apply I; exact H]. Qed.
Lemma inv2_enter st : inv2 st -> inv2 (enter_nesting st). Proof. intros I H. apply I. exact H. Qed.
Lemma acct_nested {A} (E : A -> list obl) k (p : parser A) : acct E p -> acct E (nested k p).
Proof.
  intros Hp st i st' res Ep. unfold nested in Ep. destruct (nesting (enter_nesting st) <=? k)%nat.
  - destruct (p (enter_nesting st) i) as [st2 r] eqn:E1. inversion Ep; subst. destruct (Hp _ _ _ _ E1) as [X Y]. split.
    + eapply ext_trans; [apply ext_enter|]. eapply ext_trans; [exact X|apply ext_leave].
    + destruct res; auto; try (intros I; cbn [leave_nesting errors]; apply Y; apply inv2_enter; exact I).
  - inversion Ep; subst. split; [|exact I].
    eapply ext_trans; [apply ext_enter|]. eapply ext_trans; [apply report_error_ext|apply ext_leave].
Qed.
Lemma quiet_nested {A} k (p : parser A) : quiet p -> quiet (nested k p).
Proof. apply acct_nested. Qed.

(* ------------------------------------------------------------------ terminals never touch the state *)
Lemma pure_take_while0 f : pure (take_while0_p f).
Proof. intros st i. unfold take_while0_p. destruct (take_while f (rem i)). reflexivity. Qed.
Lemma pure_take_while1 f : pure (take_while1_p f).
Proof. intros st i. unfold take_while1_p. destruct (take_while f (rem i)) as [[|c a] b]; reflexivity. Qed.
Lemma pure_satisfy f : pure (satisfy f).
Proof. intros st i. unfold satisfy. destruct (rem i) as [|c r]; [reflexivity|]. destruct (f c); reflexivity. Qed.
Lemma pure_tag t : pure (tag t).
Proof. intros st i. unfold tag. destruct (is_prefix t (rem i)); reflexivity. Qed.
Lemma pure_tag_no_case t : pure (tag_no_case t).
Proof.
  intros st i. unfold tag_no_case. destruct (take_bytes (rem i) (length t)); try reflexivity.
  destruct (ci_eqb a t && negb (word_tag t && starts_ident b)); reflexivity.
Qed.
Lemma pure_rest : pure rest. Proof. intros st i. reflexivity. Qed.
Lemma pure_value {A} (v : A) : pure (value_p v). Proof. intros st i. reflexivity. Qed.

Lemma q_tw0 f : quiet (take_while0_p f). Proof. apply quiet_of_pure, pure_take_while0. Qed.
Lemma q_tw1 f : quiet (take_while1_p f). Proof. apply quiet_of_pure, pure_take_while1. Qed.
Lemma q_satisfy f : quiet (satisfy f). Proof. apply quiet_of_pure, pure_satisfy. Qed.
Lemma q_tag t : quiet (tag t). Proof. apply quiet_of_pure, pure_tag. Qed.
Lemma q_tag_no_case t : quiet (tag_no_case t). Proof. apply quiet_of_pure, pure_tag_no_case. Qed.
Lemma q_rest : quiet rest. Proof. apply quiet_of_pure, pure_rest. Qed.
Lemma q_value {A} (v : A) : quiet (value_p v). Proof. apply quiet_of_pure, pure_value. Qed.

Lemma quiet_alt {A} (p q : parser A) : quiet p -> quiet q -> quiet (alt p q).
Proof. apply acct_alt. Qed.
Lemma quiet_alts_map {A T} (f : T -> parser A) l : (forall e, quiet (f e)) -> quiet (alts (map f l)).
Proof. apply acct_alts_map. Qed.
Lemma quiet_located {A} (p : parser A) : quiet p -> quiet (located_p p).
Proof.
  intros Hp st i st' res Ep. unfold located_p in Ep. destruct (p st i) as [st1 [a r| |x]] eqn:E1; destruct (Hp _ _ _ _ E1) as [X Y];
    inversion Ep; subst; split; auto.
Qed.

(* a hint database drives the routine cases *)
Create HintDb quiet discriminated.
#[export] Hint Resolve q_tw0 q_tw1 q_satisfy q_tag q_tag_no_case q_rest q_value quiet_map quiet_pair quiet_alt quiet_opt quiet_not
  quiet_recognize quiet_many0 quiet_many1 quiet_separated_list1 quiet_expect quiet_located quiet_alts_map quiet_peek quiet_nested : quiet.
Ltac fa := repeat (first [apply Forall_nil | apply Forall_cons]).
Ltac fq := try match goal with |- acct (fun _ => []) ?p => change (quiet p) end.
Ltac q := fq; unfold space1, alpha1, alphanumeric1, hex_digit1, is_a, is_not, take_till, take_till1, char_p, one_of, none_of; auto 12 with quiet.

(* ------------------------------------------------------------------ trivia: the only reporter is c_comment *)
Lemma quiet_c_comment : quiet c_comment.
Proof.
  intros st i st' res Ep. unfold c_comment in Ep.
  pose proof (pure_tag t_slash_star st i) as P. destruct (tag t_slash_star st i) as [st1 [a r1| |x]]; cbn in P; subst st1;
    try (inversion Ep; subst; split; [apply ext_refl|exact I]).
  destruct (c_comment_scan 0 (rem r1)) as [[a' b] t]. destruct t; inversion Ep; subst.
  - split; [apply ext_refl|auto].
  - split; [|auto]. split.
    + cbn [set_ignore_next errors]. destruct (report_error_ext (mkDiag (KExpect MUnterminated) (off (consume (47 :: 42 :: a') b i)) (off (consume (47 :: 42 :: a') b i))) st) as [X _]. exact X.
    + intros I _. cbn [set_ignore_next errors].
      set (d := mkDiag (KExpect MUnterminated) (off (consume (47 :: 42 :: a') b i)) (off (consume (47 :: 42 :: a') b i))).
      destruct (report_error_reported d st I) as [[x [H Hx]]|H]; [exists d; subst x; split; [exact H|reflexivity]|exact H].
Qed.
#[export] Hint Resolve quiet_c_comment : quiet.

Lemma quiet_trivia_impl : quiet trivia_impl.
Proof. unfold trivia_impl. apply acct_alts. fa; unfold cpp_comment; q. Qed.
#[export] Hint Resolve quiet_trivia_impl : quiet.
Lemma quiet_newline : quiet newline. Proof. unfold newline. q. Qed.
#[export] Hint Resolve quiet_newline : quiet.
Lemma quiet_trivia_p : quiet trivia_p. Proof. unfold trivia_p. q. Qed.
Lemma quiet_multiline_trivia : quiet multiline_trivia. Proof. unfold multiline_trivia. q. Qed.
#[export] Hint Resolve quiet_trivia_p quiet_multiline_trivia : quiet.

Definition Eloc {A} (E : A -> list obl) (l : located A) : list obl := E (data l).
Lemma acct_with_trivia {A} (E : A -> list obl) tp (p : parser A) : quiet tp -> acct E p -> acct (Eloc E) (with_trivia tp p).
Proof.
  intros Ht Hp st i st' res Ep. unfold with_trivia in Ep. pose proof (quiet_opt _ Ht) as Ho.
  destruct (opt tp st i) as [st1 [t r| |x]] eqn:E0; destruct (Ho _ _ _ _ E0) as [X0 _]; try (inversion Ep; subst; split; auto; fail).
  destruct (p st1 r) as [st2 [a r'| |y]] eqn:E1; destruct (Hp _ _ _ _ E1) as [X1 Y1]; inversion Ep; subst;
    (split; [eapply ext_trans; eassumption|]); auto.
  intros I. unfold Eloc. cbn [data]. apply Y1. apply X0. exact I.
Qed.
Lemma acct_wr {A} (E : A -> list obl) w (p : parser A) : acct E p -> acct (Eloc E) (wr w p).
Proof.
  intros Hp. destruct w; cbn [wr]; unfold ws, mws; try (apply acct_with_trivia; [q|exact Hp]).
  intros st i st' res Ep. unfold located_p in Ep. destruct (p st i) as [st1 [a r| |x]] eqn:E1; destruct (Hp _ _ _ _ E1) as [X Y];
    inversion Ep; subst; split; auto.
Qed.
Lemma quiet_wr {A} w (p : parser A) : quiet p -> quiet (wr w p).
Proof. intros H. eapply quiet_of_acct. apply acct_wr. exact H. Qed.
#[export] Hint Resolve quiet_wr : quiet.
Definition Eexpect {A} (m : dmsg) (E : A -> list obl) (o : option A) : list obl :=
  match o with Some a => E a | None => [point_expect m] end.
Lemma acct_expect_msg {A} (E : A -> list obl) p m : m <> MEmpty -> acct E p -> acct (Eexpect m E) (expect p m).
Proof.
  intros Hm Hp st i st' res Ep. unfold expect in Ep. destruct (p st i) as [st1 [a r| |x]] eqn:E1; destruct (Hp _ _ _ _ E1) as [X Y].
  - inversion Ep; subst. split; auto.
  - destruct m; try congruence; inversion Ep; subst; (split; [eapply ext_trans; [exact X|apply report_error_ext]|]);
      intros I; (apply Forall_cons; [|apply Forall_nil]);
      (match goal with |- reported (errors (report_error ?d _)) _ =>
         destruct (report_error_reported d st1 (proj2 X I)) as [[d' [Hd <-]]|H];
           [left; eexists; split; [exact Hd|split; reflexivity]|right; exact H] end).
  - inversion Ep; subst. split; auto.
Qed.

(* ------------------------------------------------------------------ the grammar below tokens is quiet *)
Lemma q_identifier_name : quiet identifier_name. Proof. unfold identifier_name. q. Qed.
Lemma q_identifier_scope : quiet identifier_scope. Proof. unfold identifier_scope. q. Qed.
#[export] Hint Resolve q_identifier_name q_identifier_scope : quiet.
Lemma q_identifier_path : quiet identifier_path. Proof. unfold identifier_path. q. Qed.
#[export] Hint Resolve q_identifier_path : quiet.
Lemma q_keyword_p k : quiet (keyword_p k). Proof. unfold keyword_p. q. Qed.
Lemma q_tagged {V} (t : list (text * V)) : quiet (tagged t). Proof. unfold tagged. apply quiet_alts_map. intros e. q. Qed.
#[export] Hint Resolve q_keyword_p q_tagged : quiet.
Lemma q_string_chunk w : quiet (string_chunk w). Proof. unfold string_chunk. q. Qed.
#[export] Hint Resolve q_string_chunk : quiet.
Lemma q_interpolated_string : quiet interpolated_string. Proof. unfold interpolated_string. q. Qed.
Lemma q_quoted_string : quiet quoted_string. Proof. unfold quoted_string. q. Qed.
#[export] Hint Resolve q_interpolated_string q_quoted_string : quiet.
Lemma q_operator t : quiet (operator t). Proof. unfold operator. apply quiet_alts_map. intros e. q. Qed.
#[export] Hint Resolve q_operator : quiet.
Lemma q_arg_list_loop {T} (item : parser T) : quiet item -> forall fuel acc cur, quiet (arg_list_loop fuel item acc cur).
Proof.
  intros Hi fuel. induction fuel as [|f IH]; intros acc cur st i st' res Ep; cbn [arg_list_loop] in Ep.
  - inversion Ep; subst. split; [apply ext_refl|exact I].
  - assert (Q1 : quiet (wr (slot W_arg_list 1) (char_p 44))) by q.
    assert (Q2 : quiet (wr (slot W_arg_list 2) item)) by q.
    destruct (wr (slot W_arg_list 1) (char_p 44) st i) as [st1 [c r| |x]] eqn:E1; destruct (Q1 _ _ _ _ E1) as [X1 _];
      try (inversion Ep; subst; split; auto; fail).
    destruct (wr (slot W_arg_list 2) item st1 r) as [st2 [n r2| |y]] eqn:E2; destruct (Q2 _ _ _ _ E2) as [X2 _];
      try (inversion Ep; subst; split; [eapply ext_trans; eassumption|auto]; fail).
    destruct (IH _ _ _ _ _ _ Ep) as [X3 Y3]. split; [eapply ext_trans; [exact X1|eapply ext_trans; eassumption]|].
    destruct res; auto.
Qed.
Lemma q_arg_list {T} (item : parser T) : quiet item -> quiet (arg_list item).
Proof.
  intros Hi st i st' res Ep. unfold arg_list in Ep. assert (Q0 : quiet (wr (slot W_arg_list 0) item)) by q.
  destruct (wr (slot W_arg_list 0) item st i) as [st1 [a r| |x]] eqn:E0; destruct (Q0 _ _ _ _ E0) as [X0 _];
    try (inversion Ep; subst; split; auto; fail).
  destruct (q_arg_list_loop item Hi _ _ _ _ _ _ _ Ep) as [X Y]. split; [eapply ext_trans; eassumption|]. destruct res; auto.
Qed.
#[export] Hint Resolve q_arg_list : quiet.
Lemma q_identifier_arg_list : quiet identifier_arg_list. Proof. unfold identifier_arg_list. q. Qed.
#[export] Hint Resolve q_identifier_arg_list : quiet.
Lemma q_number : quiet number.
Proof. unfold number. apply quiet_wr, quiet_map. change (quiet (alts ?l)) with (acct (fun _ : located NumberType * located text => @nil obl) (alts l)). apply acct_alts. fa; q. Qed.
Lemma q_modifier : quiet modifier_p. Proof. unfold modifier_p. apply quiet_alts_map. intros e. q. Qed.
#[export] Hint Resolve q_number q_modifier : quiet.
Lemma q_identifier_value : quiet identifier_value. Proof. unfold identifier_value. q. Qed.
Lemma q_current_pc : quiet current_pc. Proof. unfold current_pc. q. Qed.
Lemma q_isf : quiet interpolated_string_factor. Proof. unfold interpolated_string_factor. q. Qed.
#[export] Hint Resolve q_identifier_value q_current_pc q_isf : quiet.

Section QExpr.
  Variable p_expr : parser (located expr).
  Hypothesis Hp : quiet p_expr.
  Lemma q_expression_arg_list : quiet (expression_arg_list p_expr). Proof. unfold expression_arg_list. q. Qed.
  Hint Resolve q_expression_arg_list : quiet.
  Lemma q_expression_parens : quiet (expression_parens p_expr). Proof. unfold expression_parens. q. Qed.
  Lemma q_fn_call_parts m : quiet (fn_call_parts p_expr m). Proof. unfold fn_call_parts. destruct m; q. Qed.
  Hint Resolve q_expression_parens q_fn_call_parts : quiet.
  Lemma q_fn_call_impl m : quiet (fn_call_impl p_expr m). Proof. unfold fn_call_impl. q. Qed.
  Hint Resolve q_fn_call_impl : quiet.
  Lemma q_factor_alt k : quiet (factor_alt p_expr k). Proof. destruct k; cbn [factor_alt]; unfold fn_call; q. Qed.
  Hint Resolve q_factor_alt : quiet.
  Lemma q_expression_factor_inner : quiet (expression_factor_inner p_expr). Proof. unfold expression_factor_inner. q. Qed.
  Hint Resolve q_expression_factor_inner : quiet.
  Lemma q_expression_factor : quiet (expression_factor p_expr). Proof. unfold expression_factor. q. Qed.
  Hint Resolve q_expression_factor : quiet.
  Lemma q_expression_term : quiet (expression_term p_expr). Proof. unfold expression_term. q. Qed.
  Hint Resolve q_expression_term : quiet.
  Lemma q_expression_body : quiet (expression_body p_expr). Proof. unfold expression_body. q. Qed.
End QExpr.

Lemma q_out_of_fuel {A} : quiet (@out_of_fuel A).
Proof. intros st i st' res E. inversion E; subst. split; [apply ext_refl|exact I]. Qed.
Lemma q_expression_fuel fuel : quiet (expression_fuel fuel).
Proof.
  induction fuel as [|f IH]; cbn [expression_fuel]; [apply q_out_of_fuel|].
  intros st i. apply (q_expression_body _ IH).
Qed.
Lemma q_expression : quiet expression. Proof. intros st i. apply q_expression_fuel. Qed.
#[export] Hint Resolve q_expression : quiet.
Lemma q_expression_args : quiet expression_args. Proof. unfold expression_args. apply q_expression_arg_list. q. Qed.
#[export] Hint Resolve q_expression_args : quiet.
Lemma q_fn_call_parts_e m : quiet (fn_call_parts expression m). Proof. apply q_fn_call_parts. q. Qed.
#[export] Hint Resolve q_fn_call_parts_e : quiet.

Lemma q_register_suffix e : quiet (register_suffix_p e). Proof. unfold register_suffix_p. q. Qed.
#[export] Hint Resolve q_register_suffix : quiet.
Lemma q_optional_suffix : quiet optional_suffix. Proof. unfold optional_suffix. q. Qed.
#[export] Hint Resolve q_optional_suffix : quiet.
Lemma q_operand : quiet operand.
Proof. unfold operand. change (quiet (alts ?l)) with (acct (fun _ : operand_t => @nil obl) (alts l)). apply acct_alts. fa; q. Qed.
#[export] Hint Resolve q_operand : quiet.
Lemma q_mnemonic_of t : quiet (mnemonic_of t). Proof. unfold mnemonic_of. q. Qed.
#[export] Hint Resolve q_mnemonic_of : quiet.
Lemma q_instruction : quiet instruction. Proof. unfold instruction. q. Qed.
Lemma q_config_key : quiet config_key. Proof. unfold config_key. q. Qed.
#[export] Hint Resolve q_instruction q_config_key : quiet.
Lemma q_config_map_fuel fuel : quiet (config_map_fuel fuel).
Proof.
  induction fuel as [|f IH]; cbn [config_map_fuel]; [apply q_out_of_fuel|].
  intros st i. assert (K : quiet (kvp (config_map_fuel f))) by (unfold kvp; q).
  revert st i. change (quiet (config_map_body (config_map_fuel f))). unfold config_map_body. q.
Qed.
Lemma q_config_map : quiet config_map. Proof. intros st i. apply q_config_map_fuel. Qed.
Lemma q_as : quiet as_. Proof. unfold as_. q. Qed.
#[export] Hint Resolve q_config_map q_as : quiet.
(* ------------------------------------------------------------------ obligations of a token tree *)
Lemma Eblock_eq lp inner rp : Eblock (Block lp inner rp) = Etoks inner ++ match rp with None => [point_expect MClosing] | Some _ => [] end.
Proof. reflexivity. Qed.

Lemma acct_error_impl b : acct Etok (error_impl b).
Proof.
  intros st i st' res Ep. unfold error_impl in Ep.
  match type of Ep with context [wr ?w ?p st i] => assert (Hq : quiet (wr w p)) by q; destruct (wr w p st i) as [st1 [l r| |x]] eqn:E1 end;
    destruct (Hq _ _ _ _ E1) as [X _]; inversion Ep; subst; try (split; auto; fail).
  split; [eapply ext_trans; [exact X|apply report_error_ext]|].
  intros I. cbn [Etok]. apply Forall_cons; [|apply Forall_nil]. apply report_error_reported. apply X. exact I.
Qed.

Section TokStmt.
  Variable p_stmt : parser token.
  Hypothesis Hs : acct Etok p_stmt.

  Lemma acct_block : acct Eblock (block p_stmt).
  Proof.
    unfold block. apply acct_map.
    eapply acct_ext; [|apply acct_pair_r; [q|apply acct_pair; [apply acct_nested, acct_many0, acct_alt; [exact Hs|apply acct_error_impl]|
                                                  apply (acct_expect_msg (fun _ => [])); [discriminate|q]]]].
    intros [lp [inner rp]]. cbn [fst snd]. rewrite Eblock_eq. unfold Etoks. destruct rp; reflexivity.
  Qed.
  Lemma acct_opt_block : acct (Eopt Eblock) (opt (block p_stmt)). Proof. apply acct_opt, acct_block. Qed.

  Lemma acct_braces : acct Etok (braces p_stmt).
  Proof.
    unfold braces. apply acct_with_scope; [|reflexivity].
    eapply acct_ext; [|apply acct_block]. intros b. cbn. apply app_nil_r.
  Qed.
  Lemma acct_label : acct Etok (label p_stmt).
  Proof.
    unfold label. apply acct_map.
    eapply acct_ext; [|apply acct_pair_r; [q|apply acct_pair_r; [q|apply acct_opt_block]]].
    intros [a [b [c|]]]; reflexivity.
  Qed.
  Lemma acct_macro_definition : acct Etok (macro_definition p_stmt).
  Proof.
    unfold macro_definition. apply acct_map.
    eapply acct_ext; [|apply acct_pair_r; [q|apply acct_pair_r; [q|apply acct_pair_r; [q|apply acct_pair_r; [q|apply acct_pair_r; [q|apply acct_block]]]]]].
    intros [a [b [c [d [e f]]]]]. reflexivity.
  Qed.
  Lemma acct_segment : acct Etok (segment p_stmt).
  Proof.
    unfold segment. apply acct_map.
    eapply acct_ext; [|apply acct_pair_r; [q|apply acct_pair_r; [q|apply acct_opt_block]]].
    intros [a [b [c|]]]; reflexivity.
  Qed.
  Lemma acct_loop : acct Etok (loop_ p_stmt).
  Proof.
    unfold loop_. apply acct_with_scope; [|reflexivity].
    eapply acct_ext; [|apply acct_pair_r; [q|apply acct_pair_r; [q|apply acct_block]]].
    intros [a [b c]]. cbn. apply app_nil_r.
  Qed.
  Lemma acct_if : acct Etok (if_ p_stmt).
  Proof.
    unfold if_. apply acct_map.
    eapply acct_ext; [|apply acct_pair_r; [q|apply acct_pair_r; [q|apply acct_pair; [apply acct_block|
                         apply acct_opt, acct_pair_r; [q|apply acct_block]]]]].
    intros [a [b [c [[d e]|]]]]; reflexivity.
  Qed.
  Lemma acct_import : acct Etok (import p_stmt).
  Proof.
    unfold import. apply acct_with_scope; [|reflexivity].
    eapply acct_ext; [|apply acct_pair_r; [q|apply acct_pair_r; [|apply acct_pair_r; [q|apply acct_pair_r; [q|apply acct_opt_block]]]]].
    - intros [a [b [c [d [e|]]]]]; cbn; rewrite ?app_nil_r; reflexivity.
    - unfold specific_arg. q.
  Qed.
  Lemma acct_test : acct Etok (test p_stmt).
  Proof.
    unfold test. apply acct_map.
    eapply acct_ext; [|apply acct_pair_r; [q|apply acct_pair_r; [q|apply acct_block]]].
    intros [a [b c]]. reflexivity.
  Qed.

  (* statements without blocks carry no obligation *)
  Ltac leaf := apply acct_map; apply acct_quiet; [q|reflexivity].
  Lemma acct_stmt_parser k : acct Etok (stmt_parser p_stmt k).
  Proof.
    destruct k; cbn [stmt_parser].
    - apply acct_braces.
    - apply acct_label.
    - unfold instruction. apply acct_alt; leaf.
    - unfold variable_definition, varconst_impl. leaf.
    - unfold const_definition, varconst_impl. leaf.
    - unfold pc_definition. leaf.
    - unfold config_definition. leaf.
    - apply acct_macro_definition.
    - unfold macro_invocation. leaf.
    - unfold data_. leaf.
    - apply acct_segment.
    - apply acct_loop.
    - apply acct_if.
    - unfold align. leaf.
    - apply acct_import.
    - unfold text_. leaf.
    - unfold file. leaf.
    - apply acct_test.
    - unfold assert. leaf.
    - unfold trace. leaf.
  Qed.
  Lemma acct_statement_body : acct Etok (statement_body p_stmt).
  Proof. unfold statement_body. apply acct_alts_map. apply acct_stmt_parser. Qed.
End TokStmt.

Lemma acct_out_of_fuel {A} (E : A -> list obl) : acct E (@out_of_fuel A).
Proof. intros st i st' res Ep. inversion Ep; subst. split; [apply ext_refl|exact I]. Qed.
Lemma acct_statement_fuel fuel : acct Etok (statement_fuel fuel).
Proof.
  induction fuel as [|f IH]; cbn [statement_fuel]; [apply acct_out_of_fuel|].
  intros st i. apply (acct_statement_body _ IH).
Qed.
Lemma acct_statement : acct Etok statement. Proof. intros st i. apply acct_statement_fuel. Qed.

Lemma acct_eof : acct Etok eof.
Proof. unfold eof. apply acct_map. apply acct_quiet; [q|reflexivity]. Qed.
Lemma acct_source_file : acct Etoks source_file.
Proof.
  unfold source_file. apply acct_map.
  eapply acct_ext; [|apply acct_pair; [apply acct_many0, acct_alt; [apply acct_statement|apply acct_error_impl]|apply acct_eof]].
  intros [l e]. cbn [fst snd]. unfold Etoks. rewrite flat_map_app. cbn [flat_map]. rewrite app_nil_r. reflexivity.
Qed.

Lemma inv2_st0 : inv2 st0. Proof. intros H. discriminate. Qed.

(* every obligation of the token tree of a parsed file is met by the reported diagnostics *)
Theorem parse_obligations_met s toks ds : parse s = Parsed toks ds -> Forall (reported ds) (Etoks toks).
Proof.
  unfold parse. intros H. destruct (source_file st0 (mkIn 0 s)) as [st [l r| |x]] eqn:E; try discriminate; [|destruct x; discriminate].
  destruct (rem r); [|discriminate]. inversion H; subst. destruct (acct_source_file _ _ _ _ E) as [_ Y].
  eapply Forall_impl; [|apply Y, inv2_st0].
  intros P [[d [Hd HP]]|[u [Hu U]]]; [left; exists d|right; exists u]; (split; [apply -> in_rev; assumption|assumption]).
Qed.

(* ------------------------------------------------------------------ occurrences in the tree *)
Lemma Etok_blocks t b : In b (blocks_of t) -> incl (Eblock b) (Etok t).
Proof.
  destruct t; cbn [blocks_of]; try contradiction;
    repeat match goal with
           | o : option _ |- _ => destruct o
           | p : (_ * _)%type |- _ => destruct p
           end; cbn [blocks_of Etok In]; intros H; try contradiction;
    repeat (destruct H as [H|H]; [subst; try apply incl_refl; try (apply incl_appl, incl_refl); try (apply incl_appr, incl_refl)|]); try contradiction.
Qed.
Lemma Etoks_in t l : In t l -> incl (Etok t) (Etoks l).
Proof. intros H x Hx. unfold Etoks. apply in_flat_map. exists t. split; assumption. Qed.
Lemma Eblock_inner b : incl (Etoks (block_inner b)) (Eblock b).
Proof. destruct b as [lp inner rp]. rewrite Eblock_eq. apply incl_appl, incl_refl. Qed.

Lemma occurs_incl t l : occurs t l -> incl (Etok t) (Etoks l).
Proof.
  induction 1 as [l H|l t' b H1 H2 H3 IH]; [apply Etoks_in; exact H|].
  eapply incl_tran; [exact IH|]. eapply incl_tran; [apply Eblock_inner|]. eapply incl_tran; [apply Etok_blocks; exact H2|].
  apply Etoks_in. exact H1.
Qed.

(* every Error token of the tree pushed `unexpected '<its text>'` over exactly its span *)
Theorem error_token_reported s toks ds l : parse s = Parsed toks ds -> occurs (TError l) toks -> reported ds (err_obl l).
Proof.
  intros H O. pose proof (parse_obligations_met _ _ _ H) as F. rewrite Forall_forall in F. apply F.
  apply (occurs_incl _ _ O). cbn. left. reflexivity.
Qed.

(* every block whose closing brace is missing pushed `expected closing delimiter` (a point diagnostic) *)
Theorem unclosed_block_reported s toks ds t b : parse s = Parsed toks ds -> occurs t toks -> In b (blocks_of t) ->
  block_closed b = false -> reported ds (point_expect MClosing).
Proof.
  intros H O Hb Hc. pose proof (parse_obligations_met _ _ _ H) as F. rewrite Forall_forall in F. apply F.
  apply (occurs_incl _ _ O). apply (Etok_blocks _ _ Hb). destruct b as [lp inner [rp|]]; [discriminate|].
  rewrite Eblock_eq. apply in_or_app. right. left. reflexivity.
Qed.

(* C05: the theorems about whole files, from the compositional soundness of the grammar. *)
From Coq Require Import List NArith Bool Arith Lia.
Import ListNotations.
From Mos Require Import model.Utf model.Nom Gen.ParserTables model.Parser model.Display spec.Lossless
  proofs.NomProofs proofs.TriviaProofs proofs.ParserProofs.
Open Scope N_scope.

(* ---------------------------------------------------------------- sim *)
Lemma sim_refl s : sim s s.
Proof. induction s; constructor; auto. Qed.
Lemma sim_app a a' b b' : sim a a' -> sim b b' -> sim (a ++ b) (a' ++ b').
Proof. induction 1; intros Hb; cbn; [assumption|apply sim_char; auto|apply sim_crlf; auto]. Qed.
Lemma lower_upper c : ascii_lower (ascii_upper c) = ascii_lower c.
Proof.
  unfold ascii_lower, ascii_upper.
  destruct ((97 <=? c) && (c <=? 122)) eqn:E1.
  - apply andb_true_iff in E1. destruct E1 as [A B]. apply N.leb_le in A, B.
    assert (H1 : (65 <=? c - 32) && (c - 32 <=? 90) = true).
    { apply andb_true_iff. split; apply N.leb_le; lia. }
    rewrite H1.
    assert (H2 : (65 <=? c) && (c <=? 90) = false).
    { apply andb_false_iff. right. apply N.leb_gt. lia. }
    rewrite H2. lia.
  - reflexivity.
Qed.
Lemma sim_ci a c : ci_eq a c -> sim a (upper c).
Proof. induction 1; cbn; constructor; auto. rewrite lower_upper. assumption. Qed.

Lemma triv_sim t : triv_lossy t = false -> sim (triv_exact t) (triv_rust t).
Proof.
  destruct t as [s|crlf|s term|s]; cbn; intros H; try apply sim_refl.
  - destruct crlf; [apply sim_crlf; constructor|apply sim_refl].
  - destruct term; [apply sim_refl|discriminate].
Qed.
Lemma trivs_sim l : existsb triv_lossy l = false -> sim (concat (map triv_exact l)) (concat (map triv_rust l)).
Proof.
  induction l as [|t l IH]; cbn; intros H; [constructor|]. apply orb_false_iff in H. destruct H as [H1 H2].
  apply sim_app; [apply triv_sim; assumption|auto].
Qed.
Lemma atom_sim a : atom_ok a -> lossy_atom a = false -> sim (exact_atom a) (rust_atom a).
Proof.
  destruct a; cbn; intros Hok Hl.
  - apply triv_sim. assumption.
  - apply trivs_sim. assumption.
  - apply sim_refl.
  - apply sim_ci. assumption.
  - discriminate.
  - contradiction.
Qed.
Lemma atoms_sim l : Forall atom_ok l -> lossy l = false -> sim (exact l) (rust l).
Proof.
  induction 1 as [|a l Ha Hl IH]; intros H; [constructor|]. unfold lossy in H. cbn in H.
  apply orb_false_iff in H. destruct H as [H1 H2]. unfold exact, rust. cbn.
  apply sim_app; [apply atom_sim; assumption|apply IH; assumption].
Qed.

(* ---------------------------------------------------------------- structure of a parse *)
Lemma parse_structure s toks ds : parse s = Parsed toks ds ->
  exists st1 st2 l e r1 r2,
    many0 (alt statement error) st0 (mkIn 0 s) = (st1, Ok l r1) /\
    wr (slot W_eof 0) rest st1 r1 = (st2, Ok e r2) /\ rem r2 = [] /\
    toks = l ++ [TEof e] /\ ds = rev (errors st2).
Proof.
  unfold parse, source_file, map_p, pair_p, eof, map_p. intros H.
  destruct (many0 (alt statement error) st0 (mkIn 0 s)) as [st1 [l r1| |x]] eqn:Em; try (destruct x; discriminate); try discriminate.
  destruct (wr (slot W_eof 0) rest st1 r1) as [st2 [e r2| |y]] eqn:Ee; try (destruct y; discriminate); try discriminate.
  destruct (rem r2) eqn:Er; [|discriminate]. inversion H; subst. cbn [fst snd].
  exists st1, st2, l, e, r1, r2. repeat split; auto.
Qed.

Lemma a_tokens_app l1 l2 : a_tokens (l1 ++ l2) = a_tokens l1 ++ a_tokens l2.
Proof. unfold a_tokens. rewrite map_app, concat_app. reflexivity. Qed.
Lemma eof_pieces e : pieces (a_token (TEof e)) = pieces (a_text e).
Proof. cbn [a_token]. unfold a_text, pieces. rewrite !map_app. reflexivity. Qed.

Lemma rev_nonempty {T} (l : list T) : l <> [] -> rev l <> [].
Proof. destruct l; [congruence|]. cbn. intros _ H. apply app_eq_nil in H. destruct H; discriminate. Qed.

(* everything the soundness of the grammar says about a parsed file *)
Lemma parse_facts s toks ds : parse s = Parsed toks ds ->
  exists l e,
    toks = l ++ [TEof e] /\
    s = exact (a_tokens l) ++ exact (a_triv (triv e)) ++ data e /\
    tiling 0 (pieces (a_tokens toks)) (blen s) /\
    Forall atom_ok (a_tokens l ++ a_triv (triv e)) /\
    (lossy (a_tokens l ++ a_triv (triv e)) = true -> ds <> []).
Proof.
  intros H. destruct (parse_structure _ _ _ H) as [st1 [st2 [l [e [r1 [r2 [Em [Ee [Er [Et Ed]]]]]]]]]].
  destruct (statements_sound anyP _ _ _ _ Em) as [Hs1 [H1 [O1 L1]]].
  destruct (eof_located_sound anyP _ _ _ _ Ee) as [Hs2 [H2 [O2 L2]]].
  destruct (H1 I) as [E1 T1]. destruct (H2 I) as [E2 T2]. cbn [rem off] in E1, T1.
  exists l, e. split; [assumption|].
  assert (Etxt : exact (a_text e) = exact (a_triv (triv e)) ++ data e).
  { unfold a_text. rewrite exact_app. unfold exact at 2. cbn. rewrite app_nil_r. reflexivity. }
  assert (Es : s = exact (a_tokens l) ++ exact (a_triv (triv e)) ++ data e).
  { rewrite E1, E2, Er, app_nil_r, Etxt. reflexivity. }
  split; [exact Es|]. split; [|split].
  - subst toks. rewrite a_tokens_app, pieces_app. unfold a_tokens at 2. cbn [map concat]. rewrite app_nil_r, eof_pieces.
    eapply tiling_app; [exact T1|]. pose proof (tiling_len _ _ _ T1) as L. pose proof (tiling_len _ _ _ T2) as L'.
    replace (blen s) with (off r2); [exact T2|].
    rewrite L', L, Es, Etxt, !blen_app. lia.
  - apply Forall_app. split; [assumption|]. unfold a_text in O2. apply Forall_app in O2. apply O2.
  - intros Hl. subst ds. apply rev_nonempty. rewrite lossy_app in Hl. apply orb_true_iff in Hl. destruct Hl as [Hl|Hl].
    + apply (proj2 Hs2). apply L1; [apply inv_st0|assumption].
    + apply L2; [apply (proj1 Hs1), inv_st0|]. unfold a_text. rewrite lossy_app, Hl. reflexivity.
Qed.

Lemma show_parts l e : show (l ++ [TEof e]) = exact (a_tokens l) ++ exact (a_triv (triv e)) ++ data e.
Proof.
  unfold show. rewrite a_tokens_app, exact_app. f_equal. unfold a_tokens. cbn [map concat a_token]. rewrite app_nil_r, exact_app.
  unfold exact at 2. cbn. rewrite app_nil_r. reflexivity.
Qed.
Lemma render_parts l e : render (l ++ [TEof e]) = rust (a_tokens l) ++ rust (a_triv (triv e)).
Proof.
  unfold render. rewrite a_tokens_app, rust_app. f_equal. unfold a_tokens. cbn [map concat a_token]. rewrite app_nil_r, rust_app.
  unfold rust at 2. cbn. rewrite app_nil_r. reflexivity.
Qed.
Lemma eof_rest_parts l e : eof_rest (l ++ [TEof e]) = data e.
Proof. unfold eof_rest. rewrite rev_app_distr. reflexivity. Qed.

(* ---------------------------------------------------------------- exactness, tiling, lossy => diagnostic *)
Theorem parse_show_exact s toks ds : parse s = Parsed toks ds -> show toks = s.
Proof. intros H. destruct (parse_facts _ _ _ H) as [l [e [-> [Es _]]]]. rewrite show_parts. symmetry. exact Es. Qed.

Theorem parse_tiling s toks ds : parse s = Parsed toks ds ->
  tiling 0 (pieces (a_tokens toks)) (blen s) /\ concat (map snd (pieces (a_tokens toks))) = s.
Proof.
  intros H. split.
  - destruct (parse_facts _ _ _ H) as [l [e [_ [_ [T _]]]]]. exact T.
  - rewrite <- exact_pieces. exact (parse_show_exact _ _ _ H).
Qed.

Theorem parse_lossy_reported s toks : parse s = Parsed toks [] -> lossy (a_tokens toks) = false.
Proof.
  intros H. destruct (parse_facts _ _ _ H) as [l [e [-> [_ [_ [_ L]]]]]].
  rewrite a_tokens_app. unfold a_tokens at 2. cbn [map concat a_token]. rewrite app_nil_r.
  destruct (lossy (a_tokens l ++ a_triv (triv e))) eqn:E; [exfalso; apply L; reflexivity|].
  rewrite lossy_app in *. apply orb_false_iff in E. destruct E as [E1 E2]. rewrite E1. cbn.
  rewrite lossy_app, E2. reflexivity.
Qed.

(* lossless, given that the end-of-file token took nothing *)
Theorem parse_sim_given_eof s toks : parse s = Parsed toks [] -> eof_rest toks = [] -> sim s (render toks).
Proof.
  intros H He. destruct (parse_facts _ _ _ H) as [l [e [-> [Es [_ [O L]]]]]].
  rewrite eof_rest_parts in He. rewrite render_parts, Es, He, app_nil_r, <- exact_app, <- rust_app.
  apply atoms_sim; [assumption|]. destruct (lossy _); [exfalso; apply L; reflexivity|reflexivity].
Qed.

(* ---------------------------------------------------------------- the end-of-file token never swallows text *)
Lemma error_start_only_lf c : error_stop_p false c = true -> mem c error_lead = false -> c = 10.
Proof.
  unfold error_stop_p, error_stop, error_lead, mem. cbn. rewrite !orb_false_r.
  destruct (c =? 41) eqn:E1; cbn; [discriminate|]. destruct (c =? 13) eqn:E3; cbn.
  - rewrite orb_true_r. discriminate.
  - rewrite orb_false_r. intros H _. apply N.eqb_eq. assumption.
Qed.

Lemma error_fails_only_at_end sx r1 sb : error sx r1 = (sb, Err) ->
  exists sy t r2, opt multiline_trivia sx r1 = (sy, Ok t r2) /\ (rem r2 = [] \/ exists x, rem r2 = 10 :: x).
Proof.
  unfold error, error_impl. change (slot W_error_impl 0) with W_mws. cbn [wr]. unfold mws, with_trivia.
  destruct (opt multiline_trivia sx r1) as [sy [t r2| |x]] eqn:Eo; try discriminate;
    [|exfalso; unfold opt in Eo; destruct (multiline_trivia sx r1) as [? [? ?| |?]]; discriminate].
  unfold recognize at 1. unfold alt.
  destruct (recognize (pair_p (one_of error_lead) (take_till (error_stop_p false))) sy r2) as [s3 [v3 r3| |x3]] eqn:EA; try discriminate.
  destruct (take_till1 (error_stop_p false) s3 r2) as [s4 [v4 r4| |x4]] eqn:EB; try discriminate.
  intros _. exists sy, t, r2. split; [reflexivity|].
  destruct (rem r2) as [|c x] eqn:Er; [left; reflexivity|right].
  (* B failed: c is a stop character; A failed: c cannot lead an error token *)
  assert (Hstop : error_stop_p false c = true).
  { unfold take_till1, take_while1_p in EB. rewrite Er in EB. cbn [take_while] in EB.
    destruct (negb (error_stop_p false c)) eqn:En.
    - destruct (take_while _ x) as [a b]. discriminate.
    - apply negb_false_iff in En. assumption. }
  assert (Hlead : mem c error_lead = false).
  { unfold recognize, pair_p, one_of, satisfy in EA. rewrite Er in EA.
    destruct (mem c error_lead) eqn:El; [|reflexivity].
    unfold take_till, take_while0_p in EA. cbn [rem consume] in EA. destruct (take_while _ x) as [a b]. discriminate. }
  exists x. f_equal. apply error_start_only_lf; assumption.
Qed.

Lemma newline_at_lf st i x : rem i = 10 :: x -> snd (newline st i) <> Err.
Proof.
  intros Hr. destruct i as [o rm]. cbn in Hr. subst rm. vm_compute. discriminate.
Qed.

Theorem eof_takes_nothing s toks ds : parse s = Parsed toks ds -> eof_rest toks = [].
Proof.
  intros H. destruct (parse_structure _ _ _ H) as [st1 [st2 [l [e [r1 [r2 [Em [Ee [Er [Et Ed]]]]]]]]]].
  subst toks. rewrite eof_rest_parts.
  (* the statement loop stopped at r1 because `error` failed there *)
  unfold many0 in Em. apply many0_aux_stop in Em. destruct Em as [sa [sb Hf]].
  unfold alt in Hf. destruct (statement sa r1) as [sx [v rr| |x]] eqn:Es; try discriminate.
  destruct (error_fails_only_at_end _ _ _ Hf) as [sy [t [r3 [Eo Hend]]]].
  (* after the optional multi-line trivia no newline can follow, so the input is at its end *)
  assert (Hnil : rem r3 = []).
  { destruct Hend as [Hn|[x Hx]]; [assumption|]. exfalso.
    pose proof (opt_multiline_notriv _ _ _ _ _ Eo) as Hn. apply (newline_at_lf sy r3 x Hx).
    apply (notriv_m_newline _ Hn). }
  (* eof parses the same trivia (the trivia parser does not look at the state) and `rest` takes what is left *)
  revert Ee. change (slot W_eof 0) with W_mws. cbn [wr]. unfold mws, with_trivia. intros Ee.
  pose proof (oblivious_opt _ oblivious_multiline_trivia st1 sx r1) as Hob. rewrite Eo in Hob.
  destruct (opt multiline_trivia st1 r1) as [sz [t' r3'| |x]] eqn:Eo'; cbn in Hob; try discriminate.
  inversion Hob; subst. unfold rest in Ee. inversion Ee; subst. cbn [data]. exact Hnil.
Qed.

Theorem parse_sim s toks : parse s = Parsed toks [] -> sim s (render toks).
Proof. intros H. apply parse_sim_given_eof; [assumption|]. eapply eof_takes_nothing. eassumption. Qed.


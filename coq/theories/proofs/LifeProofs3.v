(* C20, third sweep: a DAP `launch` is in flight -- the session thread waits for the LSP context lock, which the main thread
   holds while it re-analyses a big edit -- when the editor starts to shut the server down.  What decides the outcome is the
   capacity of the shutdown-handler channel (add_shutdown_handler): buffered, `send` never blocks; rendezvous, the main
   thread blocks in `send` while holding the lock the session is waiting for. *)
From Coq Require Import List Bool Arith.
Import ListNotations.
From Mos Require Import model.Life proofs.LifeProofs.

Lemma launch_check : forallb (all_paths_to v_repaired clean_exit depth_bound) launch_initial = true.
Proof. vm_compute. reflexivity. Qed.

Theorem exit_clean_launch : forall s0, In s0 launch_initial ->
  forall s, reachable v_repaired s0 s -> inev v_repaired clean_exit depth_bound s.
Proof.
  intros s0 Hin s R. eapply inev_reachable; [|eassumption].
  apply all_paths_to_sound. pose proof launch_check as C. rewrite forallb_forall in C. apply C. assumption.
Qed.

(* the property's own orders, with a rendezvous channel: each has a run that ends stuck (main in send() holding the lock,
   the session waiting for the lock) *)
Definition property_scripts : list (list action) :=
  [[LspShutdown; LspExit]; [LspClose]; [DapDisconnect; LspShutdown; LspExit]; [LspShutdown; DapDisconnect; LspExit]].

Definition stuck (v : variant) (s : state) : bool :=
  negb (exited s) && match step v s with [] => true | _ => false end.

Lemma rendezvous_check :
  forallb (fun sc => some_path_to v_rendezvous (stuck v_rendezvous) depth_bound (initial_launch sc)) property_scripts = true.
Proof. vm_compute. reflexivity. Qed.

Theorem rendezvous_launch_deadlocks : forall sc, In sc property_scripts ->
  exists s', reachable v_rendezvous (initial_launch sc) s' /\ step v_rendezvous s' = [] /\ exited s' = false.
Proof.
  intros sc Hin. pose proof rendezvous_check as C. rewrite forallb_forall in C. specialize (C _ Hin).
  destruct (some_path_to_sound _ _ _ _ C) as [s' [R B]]. exists s'. split; [assumption|].
  unfold stuck in B. apply andb_true_iff in B as [B1 B2]. apply negb_true_iff in B1.
  split; [destruct (step v_rendezvous s'); [reflexivity | discriminate] | assumption].
Qed.

(* with a rendezvous channel the four live session states and the dead ones are still clean: only the in-flight state shows it *)
Lemma rendezvous_live_check : forallb (all_paths_to v_rendezvous clean_exit depth_bound) all_initial = true.
Proof. vm_compute. reflexivity. Qed.
Theorem rendezvous_clean_elsewhere : forall s0, In s0 all_initial -> inev v_rendezvous clean_exit depth_bound s0.
Proof.
  intros s0 Hin. apply all_paths_to_sound. pose proof rendezvous_live_check as C. rewrite forallb_forall in C. apply C. assumption.
Qed.

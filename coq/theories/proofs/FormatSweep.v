From Coq Require Import List NArith Bool.
Import ListNotations.
From Mos Require Import model.Nom model.Parser spec.LayoutEquiv proofs.C08Sweep model.Format model.FormatParse
  proofs.FormatSweepDefs proofs.FormatSweep1 proofs.FormatSweep2 proofs.FormatSweep3.

Definition sweep_options3 : list options := [sweep_o1; sweep_o2; sweep_o3].

Theorem format_reparse_bounded : forall o tpl s,
  In o sweep_options3 -> In tpl templates -> In s (canon tpl :: variants tpl) ->
  exists f, format_source o s = Some f /\ skel_parse f = skel_parse s /\ skel_parse s <> None /\ format_source o f = Some f.
Proof.
  intros o tpl s Ho Ht Hs. apply reparse_ok_sound.
  pose proof (sweep_inputs_in tpl s Ht Hs) as Hin.
  destruct Ho as [<-|[<-|[<-|[]]]].
  - exact (proj1 (forallb_forall _ _) sweep_1 s Hin).
  - exact (proj1 (forallb_forall _ _) sweep_2 s Hin).
  - exact (proj1 (forallb_forall _ _) sweep_3 s Hin).
Qed.

Lemma reparse_bounded : forall o tpl s,
  In o sweep_options3 -> In tpl templates -> In s (canon tpl :: variants tpl) ->
  exists f, format_source o s = Some f /\ skel_parse f = skel_parse s /\ skel_parse s <> None.
Proof.
  intros o tpl s Ho Ht Hs. destruct (format_reparse_bounded o tpl s Ho Ht Hs) as (f & H1 & H2 & H3 & _).
  exact (ex_intro _ f (conj H1 (conj H2 H3))).
Qed.

Lemma idempotent_bounded : forall o tpl s,
  In o sweep_options3 -> In tpl templates -> In s (canon tpl :: variants tpl) ->
  exists f, format_source o s = Some f /\ format_source o f = Some f.
Proof.
  intros o tpl s Ho Ht Hs. destruct (format_reparse_bounded o tpl s Ho Ht Hs) as (f & H1 & _ & _ & H4).
  exact (ex_intro _ f (conj H1 H4)).
Qed.

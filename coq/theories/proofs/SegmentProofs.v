(* C02: the image of a segment is the splice of the emissions of the last pass; relocation; VICE symbols. *)
From Coq Require Import List NArith ZArith Bool PeanoNat Lia.
Import ListNotations.
From Mos Require Import model.I64 Gen.BinOps model.Expr Gen.OpcodeTable spec.Isa model.Encode.
From Mos Require Import model.SymTab Gen.CodegenConsts model.Segment model.Asm spec.FixedPoint proofs.AsmLift proofs.AsmProofs.
Open Scope Z_scope.

(* the emissions logged for one segment since it was (re)created, newest first *)
Fixpoint writes_of (name : ident) (tr : list event) : list (Z * list N) :=
  match tr with
  | [] => []
  | EvEmit seg pc _ bytes :: r => if ident_eqb seg name then (pc, bytes) :: writes_of name r else writes_of name r
  | EvSegNew seg :: r => if ident_eqb seg name then [] else writes_of name r
  | _ :: r => writes_of name r
  end.

(* lowest start / highest end of a non-empty list of writes *)
Fixpoint range_lo (ws : list (Z * list N)) : Z :=
  match ws with
  | [] => 0
  | (st, _) :: r => match r with [] => st | _ => Z.min st (range_lo r) end
  end.
Fixpoint range_hi (ws : list (Z * list N)) : Z :=
  match ws with
  | [] => 0
  | (st, bs) :: r => match r with [] => st + Z.of_nat (length bs) | _ => Z.max (st + Z.of_nat (length bs)) (range_hi r) end
  end.

Lemma range_lo_cons st bs y r : range_lo ((st, bs) :: y :: r) = Z.min st (range_lo (y :: r)).
Proof. reflexivity. Qed.
Lemma range_hi_cons st bs y r : range_hi ((st, bs) :: y :: r) = Z.max (st + Z.of_nat (length bs)) (range_hi (y :: r)).
Proof. reflexivity. Qed.

Definition seg_wf (s : segment) : Prop :=
  (g_has_data s = false -> g_writes s = []) /\
  (g_has_data s = true -> g_writes s <> [] /\ g_range s = (range_lo (g_writes s), range_hi (g_writes s))).

Definition seg_inv (c : ctx) : Prop :=
  forall name s, seg_get (segments c) name = Some s -> g_writes s = writes_of name (g_trace c) /\ seg_wf s.

Definition R (c c' : ctx) : Prop := seg_inv c -> seg_inv c'.
Lemma R_refl c : R c c. Proof. unfold R; auto. Qed.
Lemma R_trans a b c : R a b -> R b c -> R a c. Proof. unfold R; auto. Qed.

Lemma ident_eqb_refl a : ident_eqb a a = true.
Proof. apply text_eqb_refl. Qed.
Lemma ident_eqb_true a b : ident_eqb a b = true -> a = b.
Proof. apply text_eqb_true. Qed.

Lemma seg_get_put_same l n s : seg_get (seg_put l n s) n = Some s.
Proof.
  induction l as [|[k x] r IH]; cbn [seg_put seg_get]; [rewrite ident_eqb_refl; reflexivity|].
  destruct (ident_eqb k n) eqn:E; cbn [seg_get]; rewrite E; auto.
Qed.
Lemma seg_get_put_other l n s m : ident_eqb n m = false -> seg_get (seg_put l n s) m = seg_get l m.
Proof.
  intro H. induction l as [|[k x] r IH]; cbn [seg_put seg_get]; [rewrite H; reflexivity|].
  destruct (ident_eqb k n) eqn:E; cbn [seg_get].
  - apply ident_eqb_true in E. subst k. rewrite H. reflexivity.
  - destruct (ident_eqb k m); auto.
Qed.

(* a step that keeps the segments and logs nothing a segment cares about *)
Lemma R_frame c c' : segments c' = segments c -> (forall name, writes_of name (g_trace c') = writes_of name (g_trace c)) -> R c c'.
Proof. intros S W I name s H. rewrite S in H. rewrite W. apply I. exact H. Qed.

Notation SM := (RM R).

Lemma seg_add_symbol id sym : SM (add_symbol id sym).
Proof.
  intro c. unfold add_symbol.
  destruct (try_index (symbols c) (current_scope_nx c) id) as [nx|].
  - destruct (try_get (symbols c) nx) as [ex|].
    + destruct (redefinition ex sym); [apply R_refl|].
      destruct (negb (sdata_eqb (s_data ex) (s_data sym))); [destruct (symtype_eqb (s_ty sym) TyVariable)|];
        apply R_frame; reflexivity.
    + destruct (symtype_eqb (s_ty sym) TyVariable); apply R_frame; reflexivity.
  - destruct (split_last (current_scope c ++ id)) as [pp last_id].
    destruct (ensure_index (symbols c) root pp) as [t1 parent_nx].
    destruct (insert t1 parent_nx last_id (Some sym)) as [t2 nx]. apply R_frame; reflexivity.
Qed.

Lemma flag_usages_segments ps : forall c, segments (flag_usages c ps) = segments c /\ g_trace (flag_usages c ps) = g_trace c.
Proof.
  induction ps as [|[p sp] r IH]; intro c; cbn [flag_usages]; [auto|].
  destruct (lookup_in (symbols c) (current_scope_nx c) p); [apply IH|].
  destruct (IH (flag_undefined c p (Some sp))) as [A B]. rewrite A, B. split; reflexivity.
Qed.

Lemma seg_eval e : SM (evaluate_expression e).
Proof.
  intro c. unfold evaluate_expression.
  assert (G : forall pc, match (if diverges c (le_expr e) then Abort FDiverge
                 else match eval (env_of (symbols c) (current_scope_nx c) pc) (le_expr e) with
                      | EVal v => Ret v (log (flag_usages c (combine (usages (le_expr e)) (le_ids e)))
                                             (EvEval (current_scope_nx c) pc (le_expr e) v))
                      | EErr x => Err [mkDiag (DEval x) None [] []] c
                      | EPanic => Abort FPanic
                      end) with Ret _ c' | Err _ c' => R c c' | Abort _ => True end).
  { intro pc. destruct (diverges c (le_expr e)); [exact I|].
    destruct (eval (env_of (symbols c) (current_scope_nx c) pc) (le_expr e)); [|apply R_refl|exact I].
    destruct (flag_usages_segments (combine (usages (le_expr e)) (le_ids e)) c) as [A B].
    apply R_frame; cbn [segments g_trace log writes_of]; [exact A|intro; rewrite B; reflexivity]. }
  destruct (try_current_target_pc c); [apply G|apply G|exact I].
Qed.

Lemma seg_emit_wf s bytes s' : seg_wf s -> seg_emit s bytes = EmitOk s' ->
  g_writes s' = (g_pc s, bytes) :: g_writes s /\ seg_wf s'.
Proof.
  intros [W1 W2]. unfold seg_emit.
  destruct (two64 <=? g_pc s + Z.of_nat (length bytes)); [discriminate|].
  destruct ((emit_start_limit <? g_pc s) || (emit_end_limit <? g_pc s + Z.of_nat (length bytes))); [discriminate|].
  intro H. inversion H; subst s'; clear H. cbn [g_writes g_has_data g_range]. split; [reflexivity|].
  split; [discriminate|]. intros _. split; [discriminate|].
  destruct (g_has_data s) eqn:HD.
  - destruct (W2 eq_refl) as [NE RG]. rewrite RG. cbn [negb orb fst snd]. rewrite !orb_false_r.
    destruct (g_writes s) as [|w ws] eqn:EW; [contradiction|]. cbn [g_writes g_range]. rewrite range_lo_cons, range_hi_cons.
    set (lo := range_lo (w :: ws)). set (hi := range_hi (w :: ws)). f_equal.
    + destruct (g_pc s <? lo) eqn:E; [apply Z.ltb_lt in E|apply Z.ltb_ge in E]; lia.
    + destruct (hi <? g_pc s + Z.of_nat (length bytes)) eqn:E; [apply Z.ltb_lt in E|apply Z.ltb_ge in E]; lia.
  - rewrite (W1 eq_refl). cbn [negb]. rewrite !orb_true_r. reflexivity.
Qed.

Lemma seg_emit_R sp bytes : SM (emit sp bytes).
Proof.
  intro c. unfold emit. destruct (current_segment c) as [name|]; [|apply R_refl].
  destruct (seg_get (segments c) name) as [seg|] eqn:EG; [|exact I]. destruct (target_pc seg); [|exact I].
  destruct (two64 <=? z + Z.of_nat (length bytes)); [exact I|].
  destruct (seg_emit seg bytes) as [seg'| |] eqn:EE; [|apply R_refl|exact I].
  intros Inv n s H. cbn [segments set_segments log g_trace writes_of] in *.
  destruct (ident_eqb name n) eqn:En.
  - apply ident_eqb_true in En. subst n. rewrite seg_get_put_same in H. inversion H; subst s.
    destruct (Inv name seg EG) as [HW Hwf]. destruct (seg_emit_wf _ _ _ Hwf EE) as [A B]. split; [rewrite A, HW; reflexivity|exact B].
  - rewrite seg_get_put_other in H by exact En. apply Inv. exact H.
Qed.

Lemma seg_install n o c : R c (install_segment n o c).
Proof.
  intros Inv m s H. unfold install_segment in *. cbn [segments set_segments log g_trace writes_of] in *.
  destruct (ident_eqb n m) eqn:En.
  - apply ident_eqb_true in En. subst m. rewrite seg_get_put_same in H. inversion H; subst s.
    split; [reflexivity|]. split; [intros _; reflexivity|]. cbn. discriminate.
  - rewrite seg_get_put_other in H by exact En. apply Inv. exact H.
Qed.

Lemma seg_setpc pc c : R c (set_current_pc pc c).
Proof.
  unfold set_current_pc. destruct (current_segment c) as [n|]; [|apply R_refl].
  destruct (seg_get (segments c) n) as [s0|] eqn:EG; [|apply R_refl].
  intros Inv m s H. cbn [segments set_segments g_trace] in *. destruct (ident_eqb n m) eqn:En.
  - apply ident_eqb_true in En. subst m. rewrite seg_get_put_same in H. inversion H; subst s. apply (Inv n s0 EG).
  - rewrite seg_get_put_other in H by exact En. apply Inv. exact H.
Qed.

Lemma seg_enter s c : R c (enter_scope s c).
Proof.
  unfold enter_scope. destruct (ensure_index (symbols c) root (current_scope c ++ [s])). apply R_frame; reflexivity.
Qed.
Lemma seg_import_as p : SM (import_as_scope p).
Proof. intro c. unfold import_as_scope. destruct (ensure_index (symbols c) (current_scope_nx c) p). apply R_frame; reflexivity. Qed.
Lemma seg_export a b p : SM (export_one a b p).
Proof. intro c. unfold export_one. destruct (export (symbols c) a b p). apply R_frame; reflexivity. Qed.

Theorem run_pass_seg fuel toks c errs c' : run_pass fuel toks c = PassOk errs c' -> seg_inv c -> seg_inv c'.
Proof.
  apply (run_pass_R R R_refl R_trans seg_add_symbol seg_emit_R seg_eval seg_enter).
  - intros p n c0. apply R_frame; reflexivity.
  - apply seg_install.
  - apply seg_setpc.
  - intros o c0. apply R_frame; reflexivity.
  - intros c0. apply R_frame; reflexivity.
  - intros id sp c0. apply R_frame; reflexivity.
  - apply seg_export.
  - apply seg_import_as.
Qed.

Lemma fresh_inv c : fresh_segs c -> g_trace c = [] -> seg_inv c.
Proof.
  intros F T name s H. destruct (F name s H) as [W D]. rewrite T. cbn [writes_of]. split; [exact W|].
  split; [intros _; exact W|]. rewrite D. discriminate.
Qed.

Lemma bytes_from_nth ws : forall n a i, (i < n)%nat -> nth i (bytes_from ws a n) 0%N = byte_at ws (a + Z.of_nat i).
Proof.
  induction n as [|k IH]; intros a i Hi; [lia|]. cbn [bytes_from]. destruct i as [|j].
  - cbn [nth]. rewrite Z.add_0_r. reflexivity.
  - cbn [nth]. rewrite IH by lia. f_equal. lia.
Qed.

Theorem segment_image_splice passes fuel o toks cf name s :
  codegen passes fuel o toks = Done cf -> seg_get (segments cf) name = Some s ->
  let ws := writes_of name (g_trace cf) in
  g_writes s = ws /\
  (g_has_data s = false -> ws = [] /\ range_data s = []) /\
  (g_has_data s = true -> g_range s = (range_lo ws, range_hi ws) /\
     forall a, range_lo ws <= a < range_hi ws ->
       nth (Z.to_nat (a - range_lo ws)) (range_data s) 0%N = byte_at ws a).
Proof.
  unfold codegen. intros H G. apply pass_loop_done in H; [|reflexivity|reflexivity|apply fresh_initial].
  destruct H as (c0 & T0 & _ & F0 & HR & _ & _).
  pose proof (run_pass_seg _ _ _ _ _ HR (fresh_inv c0 F0 T0)) as Inv.
  destruct (Inv name s G) as [HW [W1 W2]]. cbn zeta. split; [exact HW|]. split.
  - intro D. split; [rewrite <- HW; auto|]. unfold range_data. rewrite D. reflexivity.
  - intro D. destruct (W2 D) as [_ RG]. rewrite <- HW. split; [exact RG|].
    intros a Ha. unfold range_data. rewrite D, RG. cbn [fst snd].
    rewrite bytes_from_nth by lia. f_equal. lia.
Qed.

Theorem emit_target s bytes s' : seg_emit s bytes = EmitOk s' ->
  forall off, target_offset s = Some off ->
  g_pc s' = g_pc s + Z.of_nat (length bytes) /\ target_offset s' = Some off /\
  (forall t, target_pc s = Some t -> t = as_usize (usize_as_i64 (g_pc s) + off)).
Proof.
  unfold seg_emit. destruct (two64 <=? g_pc s + Z.of_nat (length bytes)); [discriminate|].
  destruct ((emit_start_limit <? g_pc s) || (emit_end_limit <? g_pc s + Z.of_nat (length bytes))); [discriminate|].
  intro H. inversion H; subst s'; clear H. intros off TO. cbn [g_pc]. split; [reflexivity|]. split; [exact TO|].
  intros t. unfold target_pc. rewrite TO. destruct (in_i64 (usize_as_i64 (g_pc s) + off)); [|discriminate].
  intro E. inversion E. reflexivity.
Qed.

Theorem vice_exact c p v :
  In (p, v) (vice_symbols c) <-> exists nx s, In (p, nx, s) (all (symbols c)) /\ s_ty s = TyLabel /\ s_data s = SDNum v.
Proof.
  unfold vice_symbols. rewrite in_flat_map. split.
  - intros ([[p' nx] s] & Hin & H). destruct (s_ty s) eqn:Ty; try contradiction. destruct (s_data s) eqn:Dt; try contradiction.
    destruct H as [H|[]]. inversion H; subst. exists nx, s. auto.
  - intros (nx & s & Hin & Ty & Dt). exists (p, nx, s). split; [exact Hin|]. rewrite Ty, Dt. left. reflexivity.
Qed.

(* without stale symbols every listed label was written by the last pass *)
Theorem vice_current c p v :
  Known_stale_symbol_survives c = false -> In (p, v) (vice_symbols c) ->
  exists nx s, In (p, nx, s) (all (symbols c)) /\ s_ty s = TyLabel /\ s_data s = SDNum v /\
               (Nat.ltb (s_pass s) (pass_idx c) = false \/ s_span s = None).
Proof.
  unfold Known_stale_symbol_survives, stale_symbols. intros K Hin.
  apply vice_exact in Hin. destruct Hin as (nx & s & Hall & Ty & Dt). exists nx, s. repeat split; auto.
  destruct (Nat.ltb (s_pass s) (pass_idx c)) eqn:L; [|left; reflexivity]. destruct (s_span s) eqn:Sp; [|right; reflexivity].
  exfalso.
  assert (F : In (p, nx, s) (filter (fun e => match e with (_, _, s0) => Nat.ltb (s_pass s0) (pass_idx c) && match s_span s0 with Some _ => true | None => false end end)
                                    (all (symbols c)))).
  { apply filter_In. split; [exact Hall|]. rewrite L, Sp. reflexivity. }
  destruct (filter _ (all (symbols c))); [destruct F|discriminate].
Qed.

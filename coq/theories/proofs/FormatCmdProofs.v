From Coq Require Import List NArith Bool.
Import ListNotations.
From Mos Require Import model.Format Gen.FmtRules model.FormatTokens model.FormatCmd.

Section Proofs.
  Variable file : Type.
  Variable line_ending : text.
  Variable can_open : file -> bool.

  (* any parse diagnostic, in whichever file: no file is opened for writing, the command fails *)
  Lemma format_cmd_atomic : forall r o, pr_diagnostics file r <> 0 ->
    format_command file line_ending can_open r o = ([], false).
  Proof. intros r o H. unfold format_command, parse_or_err. destruct (pr_diagnostics file r); [congruence | reflexivity]. Qed.

  (* no diagnostic and every file can be opened: every file of the project, in order, is truncated and rewritten with
     exactly the formatter's text for that file (line breaks replaced by LINE_ENDING); nothing else is touched *)
  Lemma format_cmd_writes : forall r o, pr_diagnostics file r = 0 ->
    forallb (fun ft => can_open (fst ft)) (pr_files file r) = true ->
    format_command file line_ending can_open r o =
      (flat_map (fun ft : file * list token =>
                   [OpenTruncate file (fst ft); WriteAll file (fst ft) (replace_nl line_ending (format o (snd ft)))]) (pr_files file r), true).
  Proof.
    intros r o H0 Hopen. unfold format_command, parse_or_err. rewrite H0.
    induction (pr_files file r) as [|[f ts] rest IH]; [reflexivity|].
    cbn [forallb fst] in Hopen. apply andb_prop in Hopen as [Hf Hrest].
    cbn [write_files flat_map fst snd app]. rewrite Hf, (IH Hrest). reflexivity.
  Qed.

  (* LINE_ENDING = "\n" (every platform but Windows): the bytes written are the formatter's text itself *)
  Lemma replace_nl_unix : forall s, replace_nl [NL] s = s.
  Proof.
    induction s as [|c s IH]; [reflexivity|]. cbn [replace_nl flat_map] in *.
    destruct (c =? NL)%N eqn:E; [apply N.eqb_eq in E; subst|]; cbn [app]; f_equal; exact IH.
  Qed.
End Proofs.

From Coq Require Import List NArith ZArith Bool Lia.
Import ListNotations.
From Mos Require Import Gen.OpcodeTable spec.Isa spec.Cpu6502 proofs.EncodeProofs.
Open Scope Z_scope.

Lemma all_modes_complete : forall md, In md all_modes.
Proof. destruct md; cbn; tauto. Qed.

Lemma decode_table_nth : forall k, (k < 256)%nat -> nth k decode_table None = decode_slow (N.of_nat k).
Proof.
  intros k H. unfold decode_table.
  rewrite (nth_indep _ None (decode_slow (N.of_nat 0))) by (rewrite map_length, seq_length; exact H).
  rewrite (map_nth (fun k => decode_slow (N.of_nat k))). rewrite seq_nth by exact H. reflexivity.
Qed.

Lemma decode_table_length : List.length decode_table = 256%nat.
Proof. unfold decode_table. rewrite map_length, seq_length. reflexivity. Qed.

Lemma decode_sound : forall o m md, decode o = Some (m, md) -> isa m md = Some o.
Proof.
  intros o m md H. unfold decode in H.
  destruct (Nat.lt_ge_cases (N.to_nat o) 256) as [L|G].
  - rewrite decode_table_nth in H by exact L. rewrite N2Nat.id in H.
    unfold decode_slow in H. apply find_some in H. destruct H as [_ H]. cbn [fst snd] in H.
    destruct (isa m md) as [o'|]; [|discriminate]. apply N.eqb_eq in H. subst. reflexivity.
  - rewrite nth_overflow in H by (rewrite decode_table_length; exact G). discriminate.
Qed.

Definition pair_eqb (a b : mnemonic * mode) : bool := mnemonic_beq (fst a) (fst b) && mode_beq (snd a) (snd b).
Definition decode_complete_check : bool :=
  forallb (fun mm => match isa (fst mm) (snd mm) with
                     | Some o => match decode o with Some mm' => pair_eqb mm' mm | None => false end
                     | None => true
                     end) (list_prod all_mnemonics all_modes).
Lemma decode_complete_comp : decode_complete_check = true.
Proof. vm_compute. reflexivity. Qed.

Lemma decode_complete : forall m md o, isa m md = Some o -> decode o = Some (m, md).
Proof.
  intros m md o H. pose proof decode_complete_comp as C. unfold decode_complete_check in C.
  rewrite forallb_forall in C. specialize (C (m, md)). cbn [fst snd] in C. rewrite H in C.
  assert (In (m, md) (list_prod all_mnemonics all_modes)) as I.
  { apply in_prod; [apply all_mnemonics_complete|apply all_modes_complete]. }
  specialize (C I). destruct (decode o) as [[m' md']|]; [|discriminate].
  unfold pair_eqb in C. cbn [fst snd] in C. apply andb_prop in C. destruct C as [A B].
  apply internal_mnemonic_dec_bl in A. apply internal_mode_dec_bl in B. subst. reflexivity.
Qed.

Lemma decode_isa : forall o m md, decode o = Some (m, md) <-> isa m md = Some o.
Proof. intros o m md. split; [apply decode_sound|apply decode_complete]. Qed.

(* ---- registers stay bytes, pc stays a 16-bit address, RAM cells stay bytes ---- *)
Definition wf_ram (m : ram) : Prop := Forall (fun p => 0 <= snd p < 256) (ram_over m).
Definition wf_state (c : cpu) : Prop := wf_cpu c /\ wf_ram (rM c).

Lemma byte8_range z : 0 <= byte8 z < 256.
Proof. unfold byte8. apply Z.mod_pos_bound. lia. Qed.
Lemma word16_range z : 0 <= word16 z < 65536.
Proof. unfold word16. apply Z.mod_pos_bound. lia. Qed.

Lemma over_find_range a l v : Forall (fun p => 0 <= snd p < 256) l -> over_find a l = Some v -> 0 <= v < 256.
Proof.
  induction l as [|[k x] r IH]; cbn [over_find]; [discriminate|].
  intros F H. inversion F; subst. destruct (k =? a); [inversion H; subst; assumption|auto].
Qed.
Lemma ram_read_range m a : wf_ram m -> 0 <= ram_read m a < 256.
Proof.
  intro W. unfold ram_read. destruct (over_find a (ram_over m)) eqn:E; [eapply over_find_range; eassumption|].
  unfold image_read. destruct (_ && _); [apply byte8_range|lia].
Qed.
Lemma rd_range m a : wf_ram m -> 0 <= rd m a < 256.
Proof. intro. apply ram_read_range. assumption. Qed.
Lemma wr_wf m a v : wf_ram m -> wf_ram (wr m a v).
Proof.
  intro W. unfold wr, ram_write, wf_ram. cbn [ram_over]. constructor; [cbn; apply byte8_range|].
  unfold wf_ram in W. rewrite Forall_forall in *. intros p I. apply filter_In in I. apply W. tauto.
Qed.

(* bitwise operations on bytes stay bytes: swept *)
Definition byte_op_check (op : Z -> Z -> Z) : bool :=
  forallb (fun a => forallb (fun b => let r := op (Z.of_nat a) (Z.of_nat b) in (0 <=? r) && (r <? 256)) (seq 0 256)) (seq 0 256).
Lemma land_check : byte_op_check Z.land = true. Proof. vm_compute. reflexivity. Qed.
Lemma lor_check : byte_op_check Z.lor = true. Proof. vm_compute. reflexivity. Qed.
Lemma lxor_check : byte_op_check Z.lxor = true. Proof. vm_compute. reflexivity. Qed.
Lemma byte_op_range op a b : byte_op_check op = true -> 0 <= a < 256 -> 0 <= b < 256 -> 0 <= op a b < 256.
Proof.
  intros C Ha Hb. unfold byte_op_check in C. rewrite forallb_forall in C.
  specialize (C (Z.to_nat a)). rewrite forallb_forall in C.
  assert (In (Z.to_nat a) (seq 0 256)) as Ia by (apply in_seq; lia).
  assert (In (Z.to_nat b) (seq 0 256)) as Ib by (apply in_seq; lia).
  specialize (C Ia (Z.to_nat b) Ib). cbn zeta in C. rewrite !Z2Nat.id in C by lia. lia.
Qed.
Lemma land_range a b : 0 <= a < 256 -> 0 <= b < 256 -> 0 <= Z.land a b < 256.
Proof. apply byte_op_range. exact land_check. Qed.
Lemma lor_range a b : 0 <= a < 256 -> 0 <= b < 256 -> 0 <= Z.lor a b < 256.
Proof. apply byte_op_range. exact lor_check. Qed.
Lemma lxor_range a b : 0 <= a < 256 -> 0 <= b < 256 -> 0 <= Z.lxor a b < 256.
Proof. apply byte_op_range. exact lxor_check. Qed.

Lemma shift_val_range k cin v : 0 <= v < 256 -> 0 <= fst (shift_val k cin v) < 256.
Proof.
  intro H. destruct k; cbn [shift_val fst]; try apply byte8_range.
  - split; [apply Z.div_pos; lia|apply Z.div_lt_upper_bound; lia].
  - assert (0 <= v / 2 < 128) by (split; [apply Z.div_pos; lia|apply Z.div_lt_upper_bound; lia]).
    unfold bz. destruct cin; lia.
Qed.

(* setters *)
Ltac wfs := unfold wf_state, wf_cpu in *; cbn [rA rX rY rSP rPC rP rM set_pc set_a set_x set_y set_sp set_p set_m nz] in *.
Lemma wf_set_pc c x : wf_state c -> wf_state (set_pc c x).
Proof. intro. wfs. pose proof (word16_range x). tauto. Qed.
Lemma wf_set_a c v : wf_state c -> 0 <= v < 256 -> wf_state (set_a c v).
Proof. intros. wfs. tauto. Qed.
Lemma wf_set_x c v : wf_state c -> 0 <= v < 256 -> wf_state (set_x c v).
Proof. intros. wfs. tauto. Qed.
Lemma wf_set_y c v : wf_state c -> 0 <= v < 256 -> wf_state (set_y c v).
Proof. intros. wfs. tauto. Qed.
Lemma wf_set_sp c v : wf_state c -> 0 <= v < 256 -> wf_state (set_sp c v).
Proof. intros. wfs. tauto. Qed.
Lemma wf_set_p c p : wf_state c -> wf_state (set_p c p).
Proof. intros. wfs. tauto. Qed.
Lemma wf_set_m c m : wf_state c -> wf_ram m -> wf_state (set_m c m).
Proof. intros. wfs. tauto. Qed.
Lemma wf_nz c v : wf_state c -> wf_state (nz c v).
Proof. intros. unfold nz. apply wf_set_p. assumption. Qed.
Lemma wf_regs c : wf_state c -> 0 <= rA c < 256 /\ 0 <= rX c < 256 /\ 0 <= rY c < 256 /\ 0 <= rSP c < 256 /\ wf_ram (rM c).
Proof. intro. wfs. tauto. Qed.
Lemma wf_rdv c a : wf_state c -> 0 <= rd (rM c) a < 256.
Proof. intro H. apply rd_range. apply H. Qed.
Lemma wf_push c v : wf_state c -> wf_state (push c v).
Proof.
  intro H. unfold push. apply wf_set_sp; [|apply byte8_range]. apply wf_set_m; [assumption|]. apply wr_wf. apply H.
Qed.
Lemma wf_pull c : wf_state c -> 0 <= fst (pull c) < 256 /\ wf_state (snd (pull c)).
Proof.
  intro H. unfold pull. cbn [fst snd]. split; [apply wf_rdv; assumption|]. apply wf_set_sp; [assumption|apply byte8_range].
Qed.
Lemma wf_adc c v : wf_state c -> wf_state (adc_bin c v).
Proof. intro H. unfold adc_bin. apply wf_set_a; [apply wf_set_p; assumption|apply byte8_range]. Qed.
Lemma wf_sbc c v : wf_state c -> wf_state (sbc_bin c v).
Proof. intro H. unfold sbc_bin. apply wf_set_a; [apply wf_set_p; assumption|apply byte8_range]. Qed.
Lemma wf_compare c r v : wf_state c -> wf_state (compare c r v).
Proof. intro H. unfold compare. apply wf_set_p. assumption. Qed.

Local Hint Resolve wf_set_pc wf_set_a wf_set_x wf_set_y wf_set_sp wf_set_p wf_set_m wf_nz wf_push wf_adc wf_sbc wf_compare
  byte8_range word16_range wf_rdv land_range lor_range lxor_range wr_wf : wf.

Lemma exec_instr_wf m md c c' : wf_state c -> exec_instr m md c = Some c' -> wf_state c'.
Proof.
  intros W H. pose proof (wf_regs c W) as (RA & RX & RY & RS & RM).
  pose proof (fun a => wf_rdv c a W) as RD.
  unfold exec_instr in H.
  destruct m; cbn zeta in H;
    try (inversion H; subst; clear H; auto 8 with wf; fail).
  all: try (destruct (fD (rP c)); [discriminate|inversion H; subst; clear H; auto 8 with wf; fail]).
  all: try (destruct md; match type of H with context [shift_val ?k ?ci ?v] =>
         pose proof (shift_val_range k ci v) as SR; destruct (shift_val k ci v) as [r co]; cbn [fst] in SR end;
         inversion H; subst; clear H; auto 10 with wf; fail).
  all: try (match type of H with context [branch_cond ?m ?p] => destruct (branch_cond m p) as [[|]|] end;
            inversion H; subst; clear H; auto 8 with wf; fail).
  all: try (destruct (pull c) as [x c1] eqn:P1; pose proof (wf_pull c W) as WP; rewrite P1 in WP; cbn [fst snd] in WP; destruct WP as [Rx W1];
            try (destruct (pull c1) as [y c2] eqn:P2; pose proof (wf_pull c1 W1) as WP2; rewrite P2 in WP2; cbn [fst snd] in WP2; destruct WP2 as [Ry W2]);
            inversion H; subst; clear H; auto 8 with wf; fail).
Qed.

Lemma step_wf c : wf_state c -> wf_state (step c).
Proof.
  intro W. unfold step, exec. destruct (decode (opcode_at c)) as [[m md]|]; [|exact W].
  destruct (exec_instr m md c) as [c'|] eqn:E; [|exact W]. eapply exec_instr_wf; eassumption.
Qed.

Lemma cpu_init_wf pc start data : wf_state (cpu_init pc (load_program start data)).
Proof. unfold wf_state, wf_cpu, cpu_init, wf_ram. cbn. pose proof (word16_range pc). repeat split; try lia; constructor. Qed.

Lemma run_states_wf : forall k pc start data, wf_state (Nat.iter k step (cpu_init pc (load_program start data))).
Proof. induction k as [|k IH]; intros; [apply cpu_init_wf|cbn [Nat.iter]; apply step_wf; apply IH]. Qed.

From Coq Require Import List NArith ZArith Bool Lia.
Import ListNotations.
From Mos Require Import Gen.OpcodeTable spec.Isa spec.Cpu6502 proofs.EncodeProofs.
Open Scope Z_scope.

Lemma all_modes_complete : forall md, In md all_modes.
Proof. destruct md; cbn; tauto. Qed.

Lemma decode_table_nth : forall k, (k < 256)%nat -> nth k decode_table None = decode_slow (N.of_nat k).
Proof.
  intros k H. unfold decode_table.
  rewrite (nth_indep _ None (decode_slow (N.of_nat 0))) by (rewrite map_length, seq_length; exact H).
  rewrite (map_nth (fun k => decode_slow (N.of_nat k))). rewrite seq_nth by exact H. reflexivity.
Qed.

Lemma decode_table_length : List.length decode_table = 256%nat.
Proof. unfold decode_table. rewrite map_length, seq_length. reflexivity. Qed.

Lemma decode_sound : forall o m md, decode o = Some (m, md) -> isa m md = Some o.
Proof.
  intros o m md H. unfold decode in H.
  destruct (Nat.lt_ge_cases (N.to_nat o) 256) as [L|G].
  - rewrite decode_table_nth in H by exact L. rewrite N2Nat.id in H.
    unfold decode_slow in H. apply find_some in H. destruct H as [_ H]. cbn [fst snd] in H.
    destruct (isa m md) as [o'|]; [|discriminate]. apply N.eqb_eq in H. subst. reflexivity.
  - rewrite nth_overflow in H by (rewrite decode_table_length; exact G). discriminate.
Qed.

Definition pair_eqb (a b : mnemonic * mode) : bool := mnemonic_beq (fst a) (fst b) && mode_beq (snd a) (snd b).
Definition decode_complete_check : bool :=
  forallb (fun mm => match isa (fst mm) (snd mm) with
                     | Some o => match decode o with Some mm' => pair_eqb mm' mm | None => false end
                     | None => true
                     end) (list_prod all_mnemonics all_modes).
Lemma decode_complete_comp : decode_complete_check = true.
Proof. vm_compute. reflexivity. Qed.

Lemma decode_complete : forall m md o, isa m md = Some o -> decode o = Some (m, md).
Proof.
  intros m md o H. pose proof decode_complete_comp as C. unfold decode_complete_check in C.
  rewrite forallb_forall in C. specialize (C (m, md)). cbn [fst snd] in C. rewrite H in C.
  assert (In (m, md) (list_prod all_mnemonics all_modes)) as I.
  { apply in_prod; [apply all_mnemonics_complete|apply all_modes_complete]. }
  specialize (C I). destruct (decode o) as [[m' md']|]; [|discriminate].
  unfold pair_eqb in C. cbn [fst snd] in C. apply andb_prop in C. destruct C as [A B].
  apply internal_mnemonic_dec_bl in A. apply internal_mode_dec_bl in B. subst. reflexivity.
Qed.

Lemma decode_isa : forall o m md, decode o = Some (m, md) <-> isa m md = Some o.
Proof. intros o m md. split; [apply decode_sound|apply decode_complete]. Qed.

(* FormatShapeProofs.v -- every token list model/Parser.v returns has the shapes of spec/FormatSource.v (parser_shaped):
   whitespace trivia consist of blanks, operands carry only what their addressing mode prints, a label's colon follows
   the name directly (`located`, no trivia), config values are blocks or expressions, `.define` values are blocks, the
   tokens of a block and of a file are statements.  Compositional: a postcondition calculus `ens Q p` (every value p
   returns satisfies Q) with one lemma per combinator of model/Nom.v and one per grammar function of model/Parser.v;
   the postcondition of a grammar function is built from its definition by `ens_build` and weakened to the stated one. *)
From Coq Require Import List NArith Bool Arith Lia.
Import ListNotations.
From Mos Require Import model.Utf model.Nom Gen.ParserTables model.Parser model.Display.
From Mos Require Gen.BinOps Gen.ExprGrammar.
From Mos Require Import model.Format spec.FormatSource.

(* ---------------------------------------------------------------- postconditions of parsers *)
Definition ens {A} (Q : A -> Prop) (p : parser A) : Prop :=
  forall st i st' a r, p st i = (st', Ok a r) -> Q a.

Lemma ens_weaken {A} (Q Q' : A -> Prop) p : ens Q p -> (forall a, Q a -> Q' a) -> ens Q' p.
Proof. intros H HQ st i st' a r E. apply HQ. eapply H. exact E. Qed.
Lemma ens_any {A} (p : parser A) : ens (fun _ => True) p.
Proof. intros st i st' a r E. exact I. Qed.
Lemma ens_fail {A} : ens (fun _ : A => False) (fun st _ => (st, Err)).
Proof. intros st i st' a r E. discriminate. Qed.
Lemma ens_out_of_fuel {A} (Q : A -> Prop) : ens Q out_of_fuel.
Proof. intros st i st' a r E. discriminate. Qed.
Lemma ens_value {A} (v : A) : ens (fun a => a = v) (value_p v).
Proof. intros st i st' a r E. inversion E. reflexivity. Qed.

Lemma ens_map {A B} (Q : A -> Prop) (f : A -> B) p : ens Q p -> ens (fun b => exists a, b = f a /\ Q a) (map_p f p).
Proof.
  intros H st i st' b r E. unfold map_p in E. destruct (p st i) as [s1 [a r1| |x]] eqn:Ep; inversion E; subst.
  exists a. split; [reflexivity|]. eapply H. exact Ep.
Qed.
Lemma ens_pair {A B} (Qa : A -> Prop) (Qb : B -> Prop) p q :
  ens Qa p -> ens Qb q -> ens (fun x => Qa (fst x) /\ Qb (snd x)) (pair_p p q).
Proof.
  intros Hp Hq st i st' x r E. unfold pair_p in E. destruct (p st i) as [s1 [a r1| |y]] eqn:Ep; try discriminate.
  destruct (q s1 r1) as [s2 [b r2| |y]] eqn:Eq; inversion E; subst. split; [eapply Hp; exact Ep | eapply Hq; exact Eq].
Qed.
Lemma ens_alt {A} (Q Q' : A -> Prop) p q : ens Q p -> ens Q' q -> ens (fun a => Q a \/ Q' a) (alt p q).
Proof.
  intros Hp Hq st i st' a r E. unfold alt in E. destruct (p st i) as [s1 [a1 r1| |y]] eqn:Ep.
  - inversion E; subst. left. eapply Hp. exact Ep.
  - right. eapply Hq. exact E.
  - discriminate.
Qed.
Lemma ens_alts_map {A E} (Q : A -> Prop) (f : E -> parser A) (tbl : list E) :
  (forall e, ens Q (f e)) -> ens Q (alts (map f tbl)).
Proof.
  intros H. induction tbl as [|e r IH]; cbn [map alts].
  - intros st i st' a r E0. discriminate.
  - eapply ens_weaken; [apply (ens_alt Q Q); [apply H | exact IH]|]. intros a [?|?]; assumption.
Qed.
Lemma ens_opt {A} (Q : A -> Prop) p : ens Q p -> ens (fun o => match o with Some a => Q a | None => True end) (opt p).
Proof.
  intros H st i st' o r E. unfold opt in E. destruct (p st i) as [s1 [a r1| |y]] eqn:Ep; inversion E; subst; [|exact I].
  eapply H. exact Ep.
Qed.
Lemma ens_expect {A} (Q : A -> Prop) p m : ens Q p -> ens (fun o => match o with Some a => Q a | None => True end) (expect p m).
Proof.
  intros H st i st' o r E. unfold expect in E. destruct (p st i) as [s1 [a r1| |y]] eqn:Ep.
  - inversion E; subst. eapply H. exact Ep.
  - destruct m; inversion E; subst; exact I.
  - discriminate.
Qed.
Lemma ens_nested {A} (Q : A -> Prop) n p : ens Q p -> ens Q (nested n p).
Proof.
  intros H st i st' a r E. unfold nested in E. destruct (nesting (enter_nesting st) <=? n)%nat; [|discriminate].
  destruct (p (enter_nesting st) i) as [s2 res] eqn:Ep. inversion E; subst. eapply H. exact Ep.
Qed.
Lemma ens_peek {A} (Q : A -> Prop) p : ens Q p -> ens Q (peek p).
Proof.
  intros H st i st' a r E. unfold peek in E. destruct (p st i) as [s1 [a1 r1| |y]] eqn:Ep; inversion E; subst. eapply H. exact Ep.
Qed.
Lemma ens_many0_aux {A} (Q : A -> Prop) p : ens Q p -> forall fuel, ens (Forall Q) (many0_aux fuel p).
Proof.
  intros H fuel. induction fuel as [|f IH]; intros st i st' l r E; cbn [many0_aux] in E; [discriminate|].
  destruct (p st i) as [s1 [a r1| |y]] eqn:Ep.
  - destruct (length (rem r1) =? length (rem i))%nat; [discriminate|].
    destruct (many0_aux f p s1 r1) as [s2 [l2 r2| |y]] eqn:Em; inversion E; subst.
    constructor; [eapply H; exact Ep | eapply IH; exact Em].
  - inversion E; subst. constructor.
  - discriminate.
Qed.
Lemma ens_many0 {A} (Q : A -> Prop) p : ens Q p -> ens (Forall Q) (many0 p).
Proof. intros H st i. apply (ens_many0_aux Q p H). Qed.
Lemma ens_located {A} (Q : A -> Prop) p : ens Q p -> ens (fun l => triv l = None /\ Q (data l)) (located_p p).
Proof.
  intros H st i st' l r E. unfold located_p in E. destruct (p st i) as [s1 [a r1| |y]] eqn:Ep; inversion E; subst.
  split; [reflexivity | eapply H; exact Ep].
Qed.
Lemma ens_with_trivia {A} (Qt : ltrivia -> Prop) (Q : A -> Prop) tp p : ens Qt tp -> ens Q p ->
  ens (fun l => match triv l with Some t => Qt t | None => True end /\ Q (data l)) (with_trivia tp p).
Proof.
  intros Ht Hp st i st' l r E. unfold with_trivia in E.
  destruct (opt tp st i) as [s1 [t r1| |y]] eqn:Eo; try discriminate.
  destruct (p s1 r1) as [s2 [a r2| |y]] eqn:Ep; inversion E; subst. cbn [triv data]. split; [|eapply Hp; exact Ep].
  pose proof (ens_opt Qt tp Ht _ _ _ _ _ Eo) as Ho. exact Ho.
Qed.
Lemma ens_with_scope {A B} (Q : A -> Prop) p (f : A -> nat -> B) :
  ens Q p -> ens (fun b => exists a n, b = f a n /\ Q a) (with_scope p f).
Proof.
  intros H st i st' b r E. unfold with_scope in E. destruct (p st i) as [s1 [a r1| |y]] eqn:Ep; try discriminate.
  destruct (new_anonymous_scope s1) as [s2 n]. inversion E; subst. exists a, n. split; [reflexivity | eapply H; exact Ep].
Qed.
Lemma ens_char c : ens (fun x => x = c) (char_p c).
Proof.
  intros st i st' a r E. unfold char_p, satisfy in E. destruct (rem i) as [|d t]; [discriminate|].
  destruct (c =? d)%N eqn:Ec; inversion E; subst. apply N.eqb_eq in Ec. congruence.
Qed.

(* ---------------------------------------------------------------- trivia *)
Lemma take_while_all f s : forallb f (fst (take_while f s)) = true.
Proof.
  induction s as [|c r IH]; [reflexivity|]. cbn [take_while]. destruct (f c) eqn:Ef; [|reflexivity].
  destruct (take_while f r) as [a b]. cbn [fst forallb] in *. rewrite Ef, IH. reflexivity.
Qed.
Lemma is_space_ws c : is_space c = true -> is_ws c = true.
Proof.
  unfold is_space. intros H. apply orb_prop in H as [H|H]; apply N.eqb_eq in H; subst; reflexivity.
Qed.
Lemma ens_space1 : ens (fun s => all_ws s = true) space1.
Proof.
  intros st i st' a r E. unfold space1, take_while1_p in E. pose proof (take_while_all is_space (rem i)) as H.
  destruct (take_while is_space (rem i)) as [x y]. cbn [fst] in H. destruct x as [|c t]; inversion E; subst.
  unfold all_ws. rewrite forallb_forall in *. intros z Hz. apply is_space_ws. apply H. exact Hz.
Qed.
Lemma ens_trivia_impl : ens (fun t => triv_clean t = true) trivia_impl.
Proof.
  unfold trivia_impl. cbn [alts].
  eapply ens_weaken.
  - apply ens_alt; [apply ens_map; apply ens_space1 | apply ens_alt; [apply ens_map; apply ens_any | apply ens_alt; [apply ens_map; apply ens_any | apply ens_fail]]].
  - cbv beta. intros t [[s [-> H]]|[[x [-> _]]|[[x [-> _]]|[]]]]; [exact H | reflexivity | reflexivity].
Qed.
Lemma ens_newline : ens (fun t => triv_clean t = true) newline.
Proof. unfold newline. eapply ens_weaken; [apply ens_map; apply ens_any|]. intros t [x [-> _]]. reflexivity. Qed.

Lemma Forall_forallb {A} (f : A -> bool) l : Forall (fun a => f a = true) l -> forallb f l = true.
Proof. induction 1; [reflexivity|]. cbn. rewrite H, IHForall. reflexivity. Qed.

Lemma ens_many1 {A} (Q : A -> Prop) p : ens Q p -> ens (Forall Q) (many1 p).
Proof.
  intros H. unfold many1. eapply ens_weaken; [apply ens_map; apply ens_pair; [exact H | apply ens_many0; exact H]|].
  intros l [[a t] [-> [Ha Ht]]]. constructor; assumption.
Qed.
Lemma ens_trivia_p : ens (fun t => ltriv_clean t = true) trivia_p.
Proof.
  unfold trivia_p. eapply ens_weaken; [apply ens_map; apply ens_located; apply ens_many1; apply ens_trivia_impl|].
  intros t [l [-> [_ H]]]. unfold ltriv_clean, to_ltrivia. cbn [tv_items]. apply Forall_forallb. exact H.
Qed.
Lemma ens_multiline_trivia : ens (fun t => ltriv_clean t = true) multiline_trivia.
Proof.
  unfold multiline_trivia. eapply ens_weaken.
  - apply ens_map; apply ens_located; apply ens_many1. apply ens_alt; [apply ens_trivia_impl | apply ens_newline].
  - intros t [l [-> [_ H]]]. unfold ltriv_clean, to_ltrivia. cbn [tv_items]. apply Forall_forallb.
    eapply Forall_impl; [|exact H]. intros a [Ha|Ha]; exact Ha.
Qed.

(* the trivia of a located value is clean *)
Definition Tc (t : option ltrivia) : Prop := ws_clean (a_triv t) = true.
Lemma Tc_none : Tc None. Proof. reflexivity. Qed.
Lemma ens_wr {A} (Q : A -> Prop) w p : ens Q p -> ens (fun l => Tc (triv l) /\ Q (data l)) (wr w p).
Proof.
  intros H. destruct w; cbn [wr]; unfold ws, mws.
  - eapply ens_weaken; [apply ens_with_trivia; [apply ens_trivia_p | exact H]|].
    intros l [Ht Hd]. split; [|exact Hd]. unfold Tc. destruct (triv l); [|reflexivity]. cbn. rewrite Ht. reflexivity.
  - eapply ens_weaken; [apply ens_with_trivia; [apply ens_multiline_trivia | exact H]|].
    intros l [Ht Hd]. split; [|exact Hd]. unfold Tc. destruct (triv l); [|reflexivity]. cbn. rewrite Ht. reflexivity.
  - eapply ens_weaken; [apply ens_located; exact H|]. intros l [Ht Hd]. split; [rewrite Ht; reflexivity | exact Hd].
Qed.

(* ---------------------------------------------------------------- automation *)
Definition Cl {A} (f : A -> list atom) (a : A) : Prop := ws_clean (f a) = true.
Definition Qlf (l : located efactor) : Prop := ws_clean (a_lfactor l) = true.
Definition Qle (l : located expr) : Prop := ws_clean (a_lexpr l) = true.
Ltac ens_known := fail.
Ltac ens_step :=
  lazymatch goal with
  | |- ens _ (map_p _ _) => eapply ens_map
  | |- ens _ (pair_p _ _) => eapply ens_pair
  | |- ens _ (alt _ _) => eapply ens_alt
  | |- ens _ (opt _) => eapply ens_opt
  | |- ens _ (expect _ _) => eapply ens_expect
  | |- ens _ (nested _ _) => eapply ens_nested
  | |- ens _ (peek _) => eapply ens_peek
  | |- ens _ (many0 _) => eapply ens_many0
  | |- ens _ (many1 _) => eapply ens_many1
  | |- ens _ (wr _ _) => eapply ens_wr
  | |- ens _ (with_scope _ _) => eapply ens_with_scope
  | |- ens _ (fun st _ => (st, Err)) => eapply ens_fail
  | |- ens _ _ => first [ eassumption | ens_known | eapply ens_any ]
  end.
Ltac ens_build := repeat ens_step.

Ltac decomp1 :=
  match goal with
  | H : exists _, _ |- _ => destruct H
  | H : _ /\ _ |- _ => destruct H
  | H : _ \/ _ |- _ => destruct H
  | H : False |- _ => destruct H
  | H : True |- _ => clear H
  | x : (_ * _)%type |- _ => destruct x
  | H : (_, _) = (_, _) |- _ => injection H as ? ?
  | H : match ?o with Some _ => _ | None => _ end |- _ => destruct o
  | H : ?x = _ |- _ => is_var x; subst x
  | H : data ?l = _ |- _ => is_var l; (let n1 := fresh "zl" in let n2 := fresh "zh" in let n3 := fresh "zd" in let n4 := fresh "zt" in destruct l as [n1 n2 n3 n4]); cbn [data triv] in *
  | H : triv ?l = _ |- _ => is_var l; (let n1 := fresh "zl" in let n2 := fresh "zh" in let n3 := fresh "zd" in let n4 := fresh "zt" in destruct l as [n1 n2 n3 n4]); cbn [data triv] in *
  end.
Ltac decomp := repeat (decomp1; cbn [fst snd data triv] in *).
Ltac clean_solve :=
  unfold Tc, Cl, Qlf, Qle, ws_clean in *; cbn;
  repeat (progress (unfold a_text, a_char, a_kw, a_tagged, a_disp, a_path, a_lexpr, a_lfactor, a_loc, a_suffix, a_import_as, a_specific in *; cbn));
  repeat match goal with
         | H : forallb atom_clean (_ ++ _) = true |- _ => rewrite forallb_app in H; apply andb_prop in H; destruct H
         end;
  rewrite ?forallb_app; cbn; rewrite ?forallb_app; cbn; rewrite ?andb_true_r;
  repeat (apply andb_true_intro; split); try assumption; try reflexivity.
Ltac post := cbv beta; intros; decomp; clean_solve.
(* ens Q p by building the postcondition of p's definition and weakening *)
Ltac ens_by := eapply ens_weaken; [ ens_build | post ].

(* ---------------------------------------------------------------- paths, strings *)

Lemma ens_string_chunk w : ens (Cl a_str_item) (string_chunk w).
Proof. unfold string_chunk, Cl. ens_by. Qed.
Lemma ens_interpolated_string : ens (Cl a_istring) interpolated_string.
Proof.
  unfold interpolated_string, Cl. eapply ens_weaken.
  - eapply ens_map. eapply ens_pair; [ens_build|]. eapply ens_pair; [|ens_build].
    eapply (ens_many0 (Cl a_str_item)). eapply ens_weaken; [eapply ens_alt; [apply ens_string_chunk | ens_build]|].
    unfold Cl. intros a [H|H]; [exact H|]. revert H. post.
  - unfold Cl. cbv beta. intros. decomp. unfold a_istring. cbn [lquote items]. unfold ws_clean in *. rewrite !forallb_app.
    apply andb_true_intro; split; [unfold Tc, ws_clean, a_char in *; rewrite forallb_app, H0; reflexivity|].
    cbn [forallb atom_clean]. rewrite andb_true_r.
    clear - H1. induction H1 as [|a l Ha Hl IH]; [reflexivity|]. cbn [map concat]. rewrite forallb_app, Ha. exact IH.
Qed.

Lemma clean_concat {A} (f : A -> list atom) l : Forall (fun a => ws_clean (f a) = true) l -> ws_clean (concat (map f l)) = true.
Proof. induction 1 as [|a l Ha Hl IH]; [reflexivity|]. cbn [map concat]. unfold ws_clean in *. rewrite forallb_app, Ha. exact IH. Qed.
Lemma ws_clean_app a b : ws_clean (a ++ b) = ws_clean a && ws_clean b.
Proof. apply forallb_app. Qed.

(* ---------------------------------------------------------------- argument lists *)
Lemma ens_arg_list_loop {T} (f : T -> list atom) item : ens (Cl f) item ->
  forall fuel acc cur, ws_clean (a_args f acc) = true -> ws_clean (a_loc f cur) = true ->
  ens (fun l => ws_clean (a_args f l) = true) (arg_list_loop fuel item acc cur).
Proof.
  intros Hi fuel. induction fuel as [|n IH]; intros acc cur Ha Hc st i st' l r E; cbn [arg_list_loop] in E; [discriminate|].
  destruct (wr (slot W_arg_list 1) (char_p 44) st i) as [s1 [comma r1| |y]] eqn:Ec.
  - destruct (wr (slot W_arg_list 2) item s1 r1) as [s2 [next r2| |y]] eqn:En; try discriminate.
    pose proof (ens_wr _ _ _ (ens_any (char_p 44)) _ _ _ _ _ Ec) as [Hct _].
    pose proof (ens_wr _ _ _ Hi _ _ _ _ _ En) as [Hnt Hnd].
    eapply IH; [| |exact E].
    + unfold a_args in *. rewrite map_app, concat_app, ws_clean_app, Ha. cbn [map concat fst snd a_opt]. rewrite app_nil_r, ws_clean_app, Hc.
      unfold a_char, Tc in *. rewrite ws_clean_app, Hct. reflexivity.
    + unfold a_loc, Tc, Cl in *. rewrite ws_clean_app, Hnt, Hnd. reflexivity.
  - inversion E; subst. unfold a_args in *. rewrite map_app, concat_app, ws_clean_app, Ha. cbn [map concat fst snd a_opt]. rewrite !app_nil_r. exact Hc.
  - discriminate.
Qed.
Lemma ens_arg_list {T} (f : T -> list atom) item : ens (Cl f) item -> ens (fun l => ws_clean (a_args f l) = true) (arg_list item).
Proof.
  intros Hi st i st' l r E. unfold arg_list in E.
  destruct (wr (slot W_arg_list 0) item st i) as [s1 [first r1| |y]] eqn:Ef; try discriminate.
  pose proof (ens_wr _ _ _ Hi _ _ _ _ _ Ef) as [Ht Hd].
  eapply (ens_arg_list_loop f item Hi); [| |exact E]; [reflexivity|].
  unfold a_loc, Tc, Cl in *. rewrite ws_clean_app, Ht, Hd. reflexivity.
Qed.

(* ---------------------------------------------------------------- expressions *)

Lemma ens_number : ens Qlf number.
Proof. unfold number, Qlf. cbn [alts]. ens_by. Qed.
Lemma ens_identifier_value : ens Qlf identifier_value.
Proof. unfold identifier_value, Qlf. ens_by. Qed.
Lemma ens_current_pc : ens Qlf current_pc.
Proof. unfold current_pc, Qlf. ens_by. Qed.
Lemma ens_interpolated_string_factor : ens Qlf interpolated_string_factor.
Proof.
  unfold interpolated_string_factor, Qlf. eapply ens_weaken; [eapply ens_wr; eapply ens_map; apply ens_interpolated_string|].
  unfold Cl. post.
Qed.

Lemma Qle_data l : Qle l -> ws_clean (a_expr (data l)) = true.
Proof. unfold Qle, a_lexpr, a_loc. rewrite ws_clean_app. intros H. apply andb_prop in H. apply H. Qed.

Section ExprEns.
  Variable p_expr : parser (located expr).
  Hypothesis Hp : ens Qle p_expr.

  Lemma ens_expression_arg_list : ens (fun l => ws_clean (a_eargs l) = true) (expression_arg_list p_expr).
  Proof.
    unfold expression_arg_list, a_eargs. apply ens_arg_list. eapply ens_weaken; [eapply ens_map; exact Hp|].
    unfold Cl. intros e [l [-> H]]. apply Qle_data. exact H.
  Qed.
  Lemma ens_expression_parens : ens Qlf (expression_parens p_expr).
  Proof. unfold expression_parens, Qlf. ens_by. Qed.

  Definition Qparts (x : located text * (located N * (option (arg_items expr) * located N))) : Prop :=
    Tc (triv (fst x)) /\ Tc (triv (fst (snd x))) /\
    ws_clean (a_eargs (unwrap_or_default (fst (snd (snd x))))) = true /\ Tc (triv (snd (snd (snd x)))).
  Lemma ens_fn_call_parts m : ens Qparts (fn_call_parts p_expr m).
  Proof.
    unfold fn_call_parts. eapply ens_weaken.
    - eapply ens_pair; [destruct m; ens_build|]. eapply ens_pair; [ens_build|]. eapply ens_pair; [|ens_build].
      eapply ens_opt. eapply ens_nested. apply ens_expression_arg_list.
    - unfold Qparts. cbv beta. intros. decomp; repeat split; try assumption; reflexivity.
  Qed.
  Lemma ens_fn_call_impl m : ens Qlf (fn_call_impl p_expr m).
  Proof.
    unfold fn_call_impl. eapply ens_weaken; [eapply ens_wr; eapply ens_map; apply ens_fn_call_parts|].
    unfold Qparts, Qlf. cbv beta. intros. decomp. unfold a_lfactor, a_loc, Tc, a_eargs in *. cbn [triv data a_efactor fst snd].
    fold (a_args a_expr (unwrap_or_default o)). unfold a_text, a_char. rewrite !ws_clean_app.
    repeat (apply andb_true_intro; split); try assumption; reflexivity.
  Qed.
  Lemma ens_factor_inner : ens Qlf (expression_factor_inner p_expr).
  Proof.
    unfold expression_factor_inner. apply ens_alts_map. intros k. destruct k; cbn [factor_alt].
    - apply ens_number. - apply ens_fn_call_impl. - apply ens_identifier_value. - apply ens_current_pc.
    - apply ens_expression_parens. - apply ens_interpolated_string_factor.
  Qed.
  Lemma ens_expression_factor : ens Qle (expression_factor p_expr).
  Proof.
    unfold expression_factor. eapply ens_weaken.
    - eapply ens_wr. eapply ens_alt; [eapply ens_map; apply ens_factor_inner|].
      eapply ens_map. eapply ens_pair; [ens_build|]. eapply ens_pair; [ens_build|]. eapply ens_pair; [ens_build|apply ens_factor_inner].
    - post.
  Qed.

  Lemma Qle_fold init rem_ : Qle init -> Forall (fun pr : located binop * located expr => Tc (triv (fst pr)) /\ Qle (snd pr)) rem_ ->
    Qle (fold_expressions init rem_).
  Proof.
    intros Hi Hr. revert init Hi. unfold fold_expressions. induction Hr as [|pr r [Ho He] Hr IH]; intros init Hi; [exact Hi|].
    cbn [fold_left]. apply IH. destruct (span_merge3 init (fst pr) (snd pr)) as [l h].
    unfold Qle, a_lexpr, a_loc, Tc in *. cbn [triv data a_triv a_expr app]. unfold a_disp. rewrite !ws_clean_app.
    rewrite ws_clean_app in Hi, He. rewrite Hi, He, Ho. reflexivity.
  Qed.
  Lemma ens_fold_level (p : parser (located expr)) (ops : parser (located binop)) :
    ens Qle p -> ens (fun l => Tc (triv l)) ops ->
    ens Qle (map_p (fun x => fold_expressions (fst x) (snd x)) (pair_p p (many0 (pair_p ops p)))).
  Proof.
    intros H1 H2. eapply ens_weaken; [eapply ens_map; eapply ens_pair; [exact H1 | eapply ens_many0; eapply ens_pair; [exact H2 | exact H1]]|].
    cbv beta. intros l [[i r] [-> [Hi Hr]]]. apply Qle_fold; assumption.
  Qed.
  Lemma ens_expression_term : ens Qle (expression_term p_expr).
  Proof.
    unfold expression_term. apply ens_fold_level; [apply ens_expression_factor|].
    eapply ens_weaken; [eapply ens_wr; apply ens_any|]. intros l [H _]. exact H.
  Qed.
  Lemma ens_expression_body : ens Qle (expression_body p_expr).
  Proof.
    unfold expression_body. apply ens_fold_level; [apply ens_expression_term|].
    eapply ens_weaken; [eapply ens_wr; apply ens_any|]. intros l [H _]. exact H.
  Qed.
End ExprEns.

Lemma ens_expression_fuel fuel : ens Qle (expression_fuel fuel).
Proof.
  induction fuel as [|f IH]; cbn [expression_fuel]; [apply ens_out_of_fuel|].
  change (ens Qle (expression_body (expression_fuel f))). apply ens_expression_body. exact IH.
Qed.
Lemma ens_expression : ens Qle expression.
Proof. intros st i. apply ens_expression_fuel. Qed.
Lemma ens_expression_args : ens (fun l => ws_clean (a_eargs l) = true) expression_args.
Proof. apply ens_expression_arg_list. apply ens_expression. Qed.

(* ---------------------------------------------------------------- operands, instructions *)
Definition St (t : token) : Prop := pwf t = true /\ value_shape t = false /\ ws_clean (a_token t) = true.
Definition Qb (b : block_t) : Prop := pwf_block b = true /\ ws_clean (a_block b) = true.

Lemma ens_optional_suffix : ens (fun o => ws_clean (a_opt a_suffix o) = true) optional_suffix.
Proof.
  unfold optional_suffix. eapply ens_weaken.
  - eapply ens_opt. apply (ens_alts_map (fun s => ws_clean (a_suffix s) = true)). intros e. unfold register_suffix_p. ens_by.
  - intros [s|] H; [exact H | reflexivity].
Qed.

Ltac ens_known ::= first [ apply ens_expression | apply ens_expression_args | apply ens_optional_suffix | apply ens_interpolated_string ].

Lemma ens_operand : ens (fun op => pwf_operand op = true /\ ws_clean (a_operand op) = true) operand.
Proof.
  unfold operand. cbn [alts]. eapply ens_weaken; [ens_build|].
  cbv beta. intros. decomp; (split; [reflexivity|]); unfold a_operand; cbn [o_mode lchar o_expr rchar suffix a_opt]; clean_solve.
Qed.

Ltac ens_known ::= first [ apply ens_expression | apply ens_expression_args | apply ens_optional_suffix | apply ens_interpolated_string
                         | apply ens_operand ].
Ltac split_all := repeat match goal with |- _ /\ _ => split end.
Ltac post_tok :=
  cbv beta; intros; decomp; unfold St, Qb in *; decomp; split_all; cbn [pwf value_shape]; try assumption; try reflexivity; clean_solve.

Lemma ens_instruction : ens St instruction.
Proof. unfold instruction, mnemonic_of. eapply ens_weaken; [ens_build | post_tok]. Qed.

(* ---------------------------------------------------------------- blocks *)
Lemma Tc_missing (lp : located N) : Tc (triv lp) -> atom_clean (AMissing lp) = true.
Proof. unfold Tc, ws_clean. cbn [atom_clean]. destruct (triv lp); [|reflexivity]. cbn. rewrite andb_true_r. auto. Qed.

Lemma block_intro lp inner rp : Tc (triv lp) -> Forall St inner -> match rp with Some r => Tc (triv r) | None => True end ->
  Qb (Block lp inner rp).
Proof.
  intros Hl Hi Hr. split.
  - cbn [pwf_block]. induction Hi as [|a l [H1 [H2 _]] Hl' IH]; [reflexivity|]. rewrite H1, H2. exact IH.
  - cbn [a_block]. rewrite !ws_clean_app. apply andb_true_intro; split; [|apply andb_true_intro; split].
    + unfold a_char. rewrite ws_clean_app. unfold Tc in Hl. rewrite Hl. reflexivity.
    + apply clean_concat. eapply Forall_impl; [|exact Hi]. intros a [_ [_ H]]. exact H.
    + destruct rp as [r|]; [unfold a_char; rewrite ws_clean_app; unfold Tc in Hr; rewrite Hr; reflexivity|].
      unfold ws_clean. cbn [forallb]. rewrite (Tc_missing lp Hl). reflexivity.
Qed.

Lemma ens_error_impl b : ens St (error_impl b).
Proof.
  intros st i st' t r E. unfold error_impl in E.
  match type of E with (match ?w st i with _ => _ end) = _ => destruct (w st i) as [s1 [l r1| |y]] eqn:Ew end; inversion E; subst.
  pose proof (ens_wr _ _ _ (ens_any _) _ _ _ _ _ Ew) as [Ht _].
  split; [reflexivity|]. split; [reflexivity|]. cbn [a_token]. unfold a_text. rewrite ws_clean_app. unfold Tc in Ht. rewrite Ht. reflexivity.
Qed.

(* ---------------------------------------------------------------- config maps *)
Definition Cf (t : token) : Prop := exists b, t = TConfig b /\ Qb b.

Section CfgEns.
  Variable p_cfg : parser token.
  Hypothesis Hc : ens Cf p_cfg.
  Lemma ens_kvp : ens St (kvp p_cfg).
  Proof. unfold kvp. eapply ens_weaken; [ens_build | unfold Cf; post_tok]. Qed.
  Lemma ens_config_map_body : ens Cf (config_map_body p_cfg).
  Proof.
    unfold config_map_body. eapply ens_weaken; [eapply ens_map; eapply ens_pair; [ens_build | eapply ens_pair; [eapply ens_many0; apply ens_kvp | ens_build]]|].
    cbv beta. intros. decomp. eexists. split; [reflexivity|]. apply block_intro; assumption.
  Qed.
End CfgEns.
Lemma ens_config_map_fuel fuel : ens Cf (config_map_fuel fuel).
Proof.
  induction fuel as [|f IH]; cbn [config_map_fuel]; [apply ens_out_of_fuel|].
  change (ens Cf (config_map_body (config_map_fuel f))). apply ens_config_map_body. exact IH.
Qed.
Lemma ens_config_map : ens Cf config_map.
Proof. intros st i. apply ens_config_map_fuel. Qed.

(* ---------------------------------------------------------------- statements *)
Lemma ens_identifier_arg_list : ens (fun l => ws_clean (a_args (fun s => [AText None s]) l) = true) identifier_arg_list.
Proof. unfold identifier_arg_list. apply ens_arg_list. eapply ens_weaken; [apply ens_any|]. intros; reflexivity. Qed.
Lemma ens_as : ens (fun o => ws_clean (a_opt a_import_as o) = true) as_.
Proof. unfold as_. ens_by. Qed.
Lemma ens_quoted_string : ens (Cl a_istring) quoted_string.
Proof.
  unfold quoted_string, Cl. eapply ens_weaken.
  - eapply ens_map. eapply ens_pair; [ens_build|]. eapply ens_pair; [|ens_build].
    eapply (ens_many0 (Cl a_str_item)). apply ens_string_chunk.
  - unfold Cl. cbv beta. intros. decomp. unfold a_istring. cbn [lquote items]. unfold ws_clean in *. rewrite !forallb_app.
    apply andb_true_intro; split; [unfold Tc, ws_clean, a_char in *; rewrite forallb_app, H0; reflexivity|].
    cbn [forallb atom_clean]. rewrite andb_true_r.
    clear - H1. induction H1 as [|a l Ha Hl IH]; [reflexivity|]. cbn [map concat]. rewrite forallb_app, Ha. exact IH.
Qed.

Ltac ens_known ::= first [ apply ens_expression | apply ens_expression_args | apply ens_optional_suffix | apply ens_interpolated_string
                         | apply ens_operand | apply ens_config_map | apply ens_identifier_arg_list | apply ens_as | apply ens_quoted_string ].

Section StmtEns.
  Variable p_stmt : parser token.
  Hypothesis Hs : ens St p_stmt.

  Lemma ens_block : ens Qb (block p_stmt).
  Proof.
    unfold block. eapply ens_weaken.
    - eapply ens_map. eapply ens_pair; [ens_build|]. eapply ens_pair; [|ens_build].
      eapply ens_nested. eapply (ens_many0 St). eapply ens_weaken; [eapply ens_alt; [exact Hs | apply ens_error_impl]|].
      intros a [H|H]; exact H.
    - cbv beta. intros. decomp; apply block_intro; try assumption; exact I.
  Qed.
  Ltac ens_known ::= first [ apply ens_expression | apply ens_expression_args | apply ens_optional_suffix | apply ens_interpolated_string
                         | apply ens_operand | apply ens_config_map | apply ens_identifier_arg_list | apply ens_as | apply ens_quoted_string
                         | apply ens_block ].

  Lemma ens_braces : ens St (braces p_stmt).
  Proof. unfold braces. eapply ens_weaken; [ens_build | post_tok]. Qed.
  Lemma ens_label : ens St (label p_stmt).
  Proof.
    unfold label. change (slot W_label 1) with W_located. cbn [wr]. eapply ens_weaken.
    - eapply ens_map. eapply ens_pair; [ens_build|]. eapply ens_pair; [eapply ens_located; apply ens_char | ens_build].
    - post_tok.
  Qed.
  Lemma ens_data : ens St data_.
  Proof.
    unfold data_. eapply ens_weaken.
    - eapply ens_map. eapply ens_pair; [|ens_build]. apply (ens_alts_map (fun l : located (DataSize * text) => Tc (triv l))).
      intros e. eapply ens_weaken; [eapply ens_wr; apply ens_any|]. intros l [H _]; exact H.
    - post_tok.
  Qed.
  Lemma ens_varconst k : ens St (varconst_impl k).
  Proof. unfold varconst_impl. eapply ens_weaken; [ens_build | post_tok]. Qed.
  Lemma ens_pc_definition : ens St pc_definition.
  Proof. unfold pc_definition. eapply ens_weaken; [ens_build | post_tok]. Qed.
  Lemma ens_config_definition : ens St config_definition.
  Proof. unfold config_definition. eapply ens_weaken; [ens_build | unfold Cf; post_tok]. Qed.
  Lemma ens_macro_definition : ens St (macro_definition p_stmt).
  Proof. unfold macro_definition. eapply ens_weaken; [ens_build | post_tok]. Qed.
  Lemma ens_macro_invocation : ens St macro_invocation.
  Proof.
    unfold macro_invocation. eapply ens_weaken; [eapply ens_map; apply ens_fn_call_parts; apply ens_expression|].
    unfold Qparts. post_tok.
  Qed.
  Lemma ens_segment : ens St (segment p_stmt).
  Proof. unfold segment. eapply ens_weaken; [ens_build | post_tok]. Qed.
  Lemma ens_loop : ens St (loop_ p_stmt).
  Proof. unfold loop_. eapply ens_weaken; [ens_build | post_tok]. Qed.
  Lemma ens_if : ens St (if_ p_stmt).
  Proof. unfold if_. eapply ens_weaken; [ens_build | post_tok]. Qed.
  Lemma ens_align : ens St align.
  Proof. unfold align. eapply ens_weaken; [ens_build | post_tok]. Qed.
  Lemma ens_text : ens St text_.
  Proof. unfold text_. eapply ens_weaken; [ens_build | post_tok]. Qed.
  Lemma ens_file : ens St file.
  Proof. unfold file. eapply ens_weaken; [ens_build | unfold Cl; post_tok]. Qed.
  Lemma ens_test : ens St (test p_stmt).
  Proof. unfold test. eapply ens_weaken; [ens_build | post_tok]. Qed.
  Lemma ens_assert : ens St assert.
  Proof. unfold assert. eapply ens_weaken; [ens_build | unfold Cl; post_tok]. Qed.
  Lemma ens_trace : ens St trace.
  Proof. unfold trace. eapply ens_weaken; [ens_build | post_tok]. Qed.

  Lemma ens_specific_arg : ens (Cl a_specific) specific_arg.
  Proof. unfold specific_arg, Cl. eapply ens_weaken; [ens_build | post]. Qed.
  Lemma ens_import : ens St (import p_stmt).
  Proof.
    unfold import. eapply ens_weaken.
    - eapply ens_with_scope. eapply ens_pair; [ens_build|]. eapply ens_pair; [|ens_build].
      eapply ens_alt; [ens_build|]. eapply ens_map. apply (ens_arg_list a_specific). apply ens_specific_arg.
    - unfold Cl. post_tok.
  Qed.

  Lemma ens_stmt_parser k : ens St (stmt_parser p_stmt k).
  Proof.
    destruct k; cbn [stmt_parser];
      first [ apply ens_braces | apply ens_label | apply ens_instruction | apply ens_varconst | apply ens_pc_definition
            | apply ens_config_definition | apply ens_macro_definition | apply ens_macro_invocation | apply ens_data
            | apply ens_segment | apply ens_loop | apply ens_if | apply ens_align | apply ens_import | apply ens_text
            | apply ens_file | apply ens_test | apply ens_assert | apply ens_trace ].
  Qed.
  Lemma ens_statement_body : ens St (statement_body p_stmt).
  Proof. unfold statement_body. apply ens_alts_map. apply ens_stmt_parser. Qed.
End StmtEns.

Lemma ens_statement_fuel fuel : ens St (statement_fuel fuel).
Proof.
  induction fuel as [|f IH]; cbn [statement_fuel]; [apply ens_out_of_fuel|].
  change (ens St (statement_body (statement_fuel f))). apply ens_statement_body. exact IH.
Qed.
Lemma ens_statement : ens St statement.
Proof. intros st i. apply ens_statement_fuel. Qed.

Lemma ens_source_file : ens (Forall St) source_file.
Proof.
  unfold source_file. eapply ens_weaken.
  - eapply ens_map. eapply ens_pair; [eapply (ens_many0 St)|].
    + eapply ens_weaken; [eapply ens_alt; [apply ens_statement | apply ens_error_impl]|]. intros a [H|H]; exact H.
    + unfold eof. eapply ens_map. eapply ens_wr. apply ens_any.
  - cbv beta. intros l [[ts e] [-> [Hts [l0 [-> [Ht _]]]]]]. cbn [fst snd]. apply Forall_app. split; [exact Hts|].
    constructor; [|constructor]. split; [reflexivity|]. split; [reflexivity|].
    cbn [a_token]. rewrite ws_clean_app. unfold Tc in Ht. rewrite Ht. reflexivity.
Qed.

(* every token list the parser model returns has the shapes of spec/FormatSource.v *)
Theorem parse_shaped : forall s toks diags, parse s = Parsed toks diags -> parser_shaped toks = true.
Proof.
  intros s toks diags H. unfold parse in H.
  destruct (source_file st0 (mkIn 0 s)) as [st [ts r| |[|]]] eqn:E; try discriminate.
  destruct (rem r); [|discriminate]. inversion H; subst.
  pose proof (ens_source_file _ _ _ _ _ E) as Hall. unfold parser_shaped.
  apply andb_true_intro; split.
  - apply forallb_forall. intros t Hin. rewrite Forall_forall in Hall. destruct (Hall t Hin) as [H1 [H2 _]].
    unfold stmt_shaped. rewrite H1, H2. reflexivity.
  - unfold a_tokens. apply clean_concat. eapply Forall_impl; [|exact Hall]. intros t [_ [_ H3]]. exact H3.
Qed.

(* find_line_col / look_up_span (model/Lsp.v Part B): exact panic condition and containment of the result in the document. *)
From Coq Require Import List NArith Arith Bool Lia.
From Mos Require Import model.Utf model.Lsp proofs.LspStrProofs.
Import ListNotations.

Lemma prefix_by_len : forall (a u r1 r2 : text), a ++ r1 = u ++ r2 -> byte_len a <= byte_len u ->
  exists x, u = a ++ x /\ r1 = x ++ r2.
Proof.
  induction a as [|c a IH]; intros u r1 r2 E L.
  - exists u. simpl in *. auto.
  - destruct u as [|d u].
    + simpl in L. pose proof (width_utf8_pos c). lia.
    + simpl in E. inversion E; subst. simpl in L.
      destruct (IH u r1 r2 H1) as [x [-> ->]]; [lia|]. exists x. auto.
Qed.

Lemma source_slice_line : forall s i, i < length (split_nl s) ->
  source_slice s (total_len (firstn i (split_nl s))) (total_len (firstn i (split_nl s)) + byte_len (nth i (split_nl s) []))
  = Ok (nth i (split_nl s) []).
Proof.
  intros s i H. unfold source_slice.
  assert (E : s = concat (firstn i (split_nl s)) ++ nth i (split_nl s) [] ++ concat (skipn (S i) (split_nl s))).
  { rewrite <- concat_split3 by auto. symmetry. apply split_nl_concat. }
  set (a := concat (firstn i (split_nl s))) in *.
  set (m := nth i (split_nl s) []) in *.
  set (b := concat (skipn (S i) (split_nl s))) in *.
  assert (La : total_len (firstn i (split_nl s)) = byte_len a) by (unfold a; symmetry; apply total_len_concat).
  rewrite La. clearbody a m b. clear La H. rewrite E.
  replace (byte_len (a ++ m ++ b) <? byte_len a + byte_len m) with false.
  2:{ symmetry. apply Nat.ltb_ge. rewrite !byte_len_app. lia. }
  apply str_slice_ok.
Qed.

(* the line found by the search over the line starts *)
Lemma last_le_spec : forall pos ls off i best,
  let k := last_le pos (starts_of off ls) i best in
  (k = best /\ (ls = [] \/ pos < off)) \/
  (exists j, j < length ls /\ k = i + j /\ off + total_len (firstn j ls) <= pos /\
             (S j < length ls -> pos < off + total_len (firstn (S j) ls))).
Proof.
  intros pos ls. induction ls as [|l r IH]; intros off i best; simpl.
  - left. auto.
  - destruct (off <=? pos) eqn:E.
    + apply Nat.leb_le in E. right.
      destruct (IH (off + byte_len l) (S i) i) as [[K C]|[j [J1 [J2 [J3 J4]]]]].
      * exists 0. simpl. repeat split; try lia.
        intro H. destruct C as [C|C]; [subst; simpl in H; lia|]. destruct r; simpl in *; lia.
      * exists (S j). simpl. repeat split; try lia. intro H. specialize (J4 ltac:(lia)). simpl in J4. lia.
    + apply Nat.leb_gt in E. left. auto.
Qed.

Theorem find_line_col_spec : forall src pos,
  (find_line_col src pos = Panic <-> ~ is_char_boundary src pos) /\
  (forall l c, find_line_col src pos = Ok (l, c) ->
     l < num_lines src /\ c <= length (nth l (split_nl src) []) /\
     exists x y, nth l (split_nl src) [] = x ++ y /\ length x = c /\
                 pos = total_len (firstn l (split_nl src)) + byte_len x).
Proof.
  intros src pos. unfold find_line_col, find_line.
  destruct (byte_len src <? pos) eqn:EL.
  - apply Nat.ltb_lt in EL. cbn [bind]. split; [|discriminate].
    split; auto. intros _ B. apply boundary_le_len in B. lia.
  - apply Nat.ltb_ge in EL. cbn [bind]. rewrite lines_split.
    pose proof (last_le_spec pos (split_nl src) 0 0 0) as S. cbn zeta in S.
    set (k := last_le pos (starts_of 0 (split_nl src)) 0 0) in *.
    assert (NE : split_nl src <> []) by apply split_nl_nonempty.
    destruct S as [[_ [C|C]]|[j [J1 [J2 [J3 J4]]]]]; [congruence|lia|].
    rewrite Nat.add_0_l in J2, J3, J4. subst k. rewrite J2.
    rewrite line_span_split by (rewrite num_lines_split; auto). cbn [bind fst snd].
    rewrite source_slice_line by auto. cbn [bind].
    set (ls := split_nl src) in *. set (m := nth j ls []) in *. set (lo := total_len (firstn j ls)) in *.
    assert (E : src = concat (firstn j ls) ++ m ++ concat (skipn (S j) ls)).
    { unfold m. rewrite <- concat_split3 by auto. symmetry. apply split_nl_concat. }
    assert (La : byte_len (concat (firstn j ls)) = lo) by apply total_len_concat.
    assert (Hi : pos - lo <= byte_len m).
    { destruct (Nat.lt_ge_cases (S j) (length ls)) as [L|L].
      - specialize (J4 L). rewrite (firstn_S_nth text ls j [] J1), total_len_app in J4. simpl in J4. fold m lo in J4. lia.
      - assert (skipn (S j) ls = []) by (apply skipn_all2; lia).
        rewrite H in E. simpl in E. rewrite app_nil_r in E. rewrite E, byte_len_app, La in EL. lia. }
    assert (EQ : is_char_boundary src pos <-> is_char_boundary m (pos - lo)).
    { split.
      - intros [u [v [Eu Lu]]]. rewrite E in Eu.
        destruct (prefix_by_len _ _ _ _ Eu) as [x [-> Ex]]; [lia|].
        rewrite byte_len_app, La in Lu.
        symmetry in Ex. destruct (prefix_by_len x m v (concat (skipn (S j) ls)) Ex) as [y [-> _]]; [lia|].
        exists x, y. split; auto. lia.
      - intros [x [y [Ex Lx]]]. exists (concat (firstn j ls) ++ x), (y ++ concat (skipn (S j) ls)).
        split. rewrite E at 1. rewrite Ex, <- !app_assoc. reflexivity. rewrite byte_len_app. lia. }
    split.
    + rewrite EQ. destruct (str_slice_to m (pos - lo)) eqn:SL; cbn [bind].
      * split; [discriminate|]. intro NB. exfalso. apply NB. apply str_slice_to_panics_iff in NB. congruence.
      * split; auto. intros _. apply str_slice_to_panics_iff. auto.
    + intros l c H. destruct (str_slice_to m (pos - lo)) as [pre|] eqn:SL; cbn [bind] in H; [|discriminate].
      inversion H; subst l c. unfold str_slice_to in SL.
      destruct (split_at_byte (pos - lo) m) as [[a b]|] eqn:SP; [|discriminate]. inversion SL; subst a.
      apply split_at_byte_sound in SP. destruct SP as [Em Lp].
      rewrite num_lines_split. fold ls. repeat split; auto.
      * fold m. rewrite Em, app_length. lia.
      * exists pre, b. fold m. fold lo. repeat split; auto. lia.
Qed.

(* Neighbour independence at the text level (for C01): a parser applied to  y ++ LF :: rest  where the line y has no
   LF, CR or block-comment opener does not look past the LF -- state, result and consumed part are the same for every
   `rest` -- as long as it is built from ws-/located-wrapped terminals.  Proved compositionally: `local2 L n p p'` is
   preserved by map / pair / alt / opt / not / recognize / many0 / many1 / separated_list1 / expect / located / ws and
   holds for every terminal.  An mws-wrapped terminal is local only on a line whose first non-blank character starts
   neither a line comment nor the end of the line (`lead`); an mws terminal INSIDE a statement form (blocks, `else`,
   `from`, config maps) is where the next line can be drawn into the statement -- those forms are enumerated below. *)
From Coq Require Import List NArith Bool Arith Lia.
Import ListNotations.
From Mos Require Import model.Utf model.Nom Gen.ParserTables model.Parser model.Display spec.Lossless
  proofs.NomProofs proofs.TriviaProofs proofs.ParserProofs.
From Mos Require Gen.BinOps Gen.ExprGrammar.
Open Scope N_scope.

(* ---------------------------------------------------------------- lines *)
Definition is_eolb (c : N) : bool := (c =? 10) || (c =? 13).
Fixpoint has_open (y : text) : bool :=
  match y with
  | [] => false
  | c :: r => (match r with d :: _ => (c =? 47) && (d =? 42) | [] => false end) || has_open r
  end.
(* no line end and no block-comment opener *)
Definition lineb (y : text) : bool := forallb (fun c => negb (is_eolb c)) y && negb (has_open y).

Definition sfx (y2 y : text) : Prop := exists pre, y = pre ++ y2.
Lemma sfx_refl y : sfx y y. Proof. exists []. reflexivity. Qed.
Lemma sfx_trans a b c : sfx a b -> sfx b c -> sfx a c.
Proof. intros [p1 ->] [p2 ->]. exists (p2 ++ p1). rewrite app_assoc. reflexivity. Qed.
Lemma sfx_length a b : sfx a b -> (length a <= length b)%nat.
Proof. intros [p ->]. rewrite app_length. lia. Qed.
Lemma sfx_app a b : sfx b (a ++ b). Proof. exists a. reflexivity. Qed.

Lemma has_open_app_r a b : has_open (a ++ b) = false -> has_open b = false.
Proof.
  induction a as [|c a IH]; cbn [app]; [auto|]. intros H. cbn [has_open] in H. apply orb_false_iff in H. apply IH, H.
Qed.
Lemma lineb_sfx y2 y : sfx y2 y -> lineb y = true -> lineb y2 = true.
Proof.
  intros [p ->] H. unfold lineb in *. apply andb_true_iff in H. destruct H as [H1 H2].
  rewrite forallb_app in H1. apply andb_true_iff in H1. destruct H1 as [_ H1]. rewrite H1. cbn.
  apply negb_true_iff in H2. apply has_open_app_r in H2. rewrite H2. reflexivity.
Qed.
Lemma lineb_head c y : lineb (c :: y) = true -> c <> 10 /\ c <> 13.
Proof.
  unfold lineb. cbn. intros H. apply andb_true_iff in H. destruct H as [H _]. apply andb_true_iff in H. destruct H as [H _].
  apply negb_true_iff in H. unfold is_eolb in H. apply orb_false_iff in H. destruct H as [A B]. apply N.eqb_neq in A, B. auto.
Qed.
Lemma lineb_no_open c d y : lineb (c :: d :: y) = true -> (c =? 47) && (d =? 42) = false.
Proof.
  unfold lineb. intros H. apply andb_true_iff in H. destruct H as [_ H]. apply negb_true_iff in H. cbn [has_open] in H.
  apply orb_false_iff in H. apply H.
Qed.

(* ---------------------------------------------------------------- the relation between the two runs *)
Definition R2 {A} (y rest rest' : text) (X X' : pstate * result A) : Prop :=
  fst X = fst X' /\
  match snd X, snd X' with
  | Ok v r, Ok v' r' =>
      v = v' /\ off r = off r' /\ exists y2, sfx y2 y /\ rem r = y2 ++ 10 :: rest /\ rem r' = y2 ++ 10 :: rest'
  | Err, Err => True
  | Abort a, Abort a' => a = a'
  | _, _ => False
  end.
Definition local2 {A} (L : text -> Prop) (n : nat) (p p' : parser A) : Prop :=
  forall rest rest' st o y, lineb y = true -> L y -> (length y <= n)%nat ->
    R2 y rest rest' (p st (mkIn o (y ++ 10 :: rest))) (p' st (mkIn o (y ++ 10 :: rest'))).
Definition anyL : text -> Prop := fun _ => True.
Definition local {A} (p : parser A) : Prop := forall n, local2 anyL n p p.

Lemma local2_le {A} L n m (p p' : parser A) : local2 L n p p' -> (m <= n)%nat -> local2 L m p p'.
Proof. intros H Hm rest rest' st o y Hl HL Hn. apply H; auto. lia. Qed.
Lemma local2_weaken {A} (L L' : text -> Prop) n (p p' : parser A) : local2 L n p p' -> (forall y, L' y -> L y) -> local2 L' n p p'.
Proof. intros H HL rest rest' st o y Hl HL' Hn. apply H; auto. Qed.
Lemma local_any {A} L n (p : parser A) : local p -> local2 L n p p.
Proof. intros H. eapply local2_weaken; [apply H|]. intros; exact I. Qed.

(* applying the second parser to the related remainders *)
Lemma input_eta (r : input) : r = mkIn (off r) (rem r). Proof. destruct r; reflexivity. Qed.

Ltac r2_run H rest rest' st o y :=
  let X := fresh "X" in
  pose proof (H rest rest' st o y) as X.

(* a parser that consumes at least one character when it succeeds *)
Definition consumes {A} (p : parser A) : Prop :=
  forall st i st' v r, p st i = (st', Ok v r) -> (length (rem r) < length (rem i))%nat.
Lemma consumes_of_sound {A} (sa : A -> list atom) (p : parser A) :
  sound anyP sa p -> (forall st i st' v r, p st i = (st', Ok v r) -> exact (sa v) <> []) -> consumes p.
Proof.
  intros Hp Hn st i st' v r E. destruct (Hp _ _ _ _ E) as [_ [H1 _]]. destruct (H1 I) as [E1 _].
  specialize (Hn _ _ _ _ _ E). rewrite E1, app_length. destruct (exact (sa v)); [congruence|]. cbn. lia.
Qed.

(* ---------------------------------------------------------------- combinators *)
Lemma map_local2 {A B} L n (f : A -> B) (p p' : parser A) : local2 L n p p' -> local2 L n (map_p f p) (map_p f p').
Proof.
  intros H rest rest' st o y Hl HL Hn. specialize (H rest rest' st o y Hl HL Hn). unfold map_p, R2 in *.
  destruct (p st _) as [s [v r| |a]], (p' st _) as [s' [v' r'| |a']]; cbn in *; destruct H as [Hs H]; try contradiction; split; auto.
  destruct H as [-> H]. split; [reflexivity|exact H].
Qed.

Lemma pair_local2_gen {A B} L n (p p' : parser A) (q q' : parser B) :
  local2 L n p p' ->
  (forall rest rest' st o y y2 v r s0, lineb y = true -> L y -> (length y <= n)%nat -> sfx y2 y ->
      p st (mkIn o (y ++ 10 :: rest)) = (s0, Ok v r) -> rem r = y2 ++ 10 :: rest ->
      forall s1 o1, R2 y2 rest rest' (q s1 (mkIn o1 (y2 ++ 10 :: rest))) (q' s1 (mkIn o1 (y2 ++ 10 :: rest')))) ->
  local2 L n (pair_p p q) (pair_p p' q').
Proof.
  intros Hp Hq rest rest' st o y Hl HL Hn. pose proof (Hp rest rest' st o y Hl HL Hn) as H. unfold pair_p. unfold R2 in H.
  destruct (p st (mkIn o (y ++ 10 :: rest))) as [s [v r| |a]] eqn:E1, (p' st (mkIn o (y ++ 10 :: rest'))) as [s' [v' r'| |a']] eqn:E2;
    cbn in H; destruct H as [Hs H]; try contradiction; subst; try (split; cbn; auto; fail).
  destruct H as [-> [Ho [y2 [Hsf [Hr Hr']]]]].
  specialize (Hq rest rest' st o y y2 v' r s' Hl HL Hn Hsf E1 Hr s' (off r)).
  rewrite (input_eta r), (input_eta r'), Hr, Hr', <- Ho. unfold R2 in Hq |- *.
  destruct (q s' (mkIn (off r) (y2 ++ 10 :: rest))) as [t [w u| |b]], (q' s' (mkIn (off r) (y2 ++ 10 :: rest'))) as [t' [w' u'| |b']];
    cbn in *; destruct Hq as [Ht Hq]; try contradiction; subst; split; auto.
  destruct Hq as [-> [Ho2 [y3 [Hsf3 [Hu Hu']]]]]. split; [reflexivity|]. split; [assumption|].
  exists y3. split; [eapply sfx_trans; eassumption|]. split; assumption.
Qed.

Lemma pair_local2 {A B} L n (p p' : parser A) (q q' : parser B) :
  local2 L n p p' -> local2 anyL n q q' -> local2 L n (pair_p p q) (pair_p p' q').
Proof.
  intros Hp Hq. apply pair_local2_gen; [assumption|].
  intros rest rest' st o y y2 v r s0 Hl HL Hn Hsf _ _ s1 o1. apply Hq; [eapply lineb_sfx; eassumption|exact I|].
  apply sfx_length in Hsf. lia.
Qed.
(* after a consuming first component the second one only needs to be local on strictly shorter lines *)
Lemma pair_local2_rec {A B} L n (p p' : parser A) (q q' : parser B) :
  local2 L n p p' -> consumes p -> (forall m, (m < n)%nat -> local2 anyL m q q') -> local2 L n (pair_p p q) (pair_p p' q').
Proof.
  intros Hp Hc Hq. apply pair_local2_gen; [assumption|].
  intros rest rest' st o y y2 v r s0 Hl HL Hn Hsf E Hr s1 o1.
  apply Hc in E. cbn [rem] in E. rewrite Hr, !app_length in E. cbn [length] in E.
  apply (Hq (length y2)); [lia|eapply lineb_sfx; eassumption|exact I|lia].
Qed.

Lemma alt_local2 {A} L n (p p' q q' : parser A) : local2 L n p p' -> local2 L n q q' -> local2 L n (alt p q) (alt p' q').
Proof.
  intros Hp Hq rest rest' st o y Hl HL Hn. pose proof (Hp rest rest' st o y Hl HL Hn) as H. unfold alt, R2 in *.
  destruct (p st _) as [s [v r| |a]], (p' st _) as [s' [v' r'| |a']]; cbn in *; destruct H as [Hs H]; try contradiction; subst; try (split; auto; fail).
  apply Hq; assumption.
Qed.
Lemma fail_local2 {A} L n : local2 L n (fun st _ => (st, @Err A)) (fun st _ => (st, Err)).
Proof. intros rest rest' st o y _ _ _. split; cbn; auto. Qed.
Lemma alts_map_local2 {A E} L n (g g' : E -> parser A) (table : list E) :
  (forall e, In e table -> local2 L n (g e) (g' e)) -> local2 L n (alts (map g table)) (alts (map g' table)).
Proof.
  induction table as [|e t IH]; intros H; cbn [map alts]; [apply fail_local2|].
  apply alt_local2; [apply H; left; reflexivity|apply IH; intros; apply H; right; assumption].
Qed.

Lemma opt_local2 {A} L n (p p' : parser A) : local2 L n p p' -> local2 L n (opt p) (opt p').
Proof.
  intros Hp rest rest' st o y Hl HL Hn. pose proof (Hp rest rest' st o y Hl HL Hn) as H. unfold opt, R2 in *.
  destruct (p st _) as [s [v r| |a]], (p' st _) as [s' [v' r'| |a']]; cbn in *; destruct H as [Hs H]; try contradiction; subst; split; auto.
  - destruct H as [-> H]. split; [reflexivity|exact H].
  - split; [reflexivity|]. split; [reflexivity|]. exists y. split; [apply sfx_refl|split; reflexivity].
Qed.
Lemma not_local2 {A} L n (p p' : parser A) : local2 L n p p' -> local2 L n (not_p p) (not_p p').
Proof.
  intros Hp rest rest' st o y Hl HL Hn. pose proof (Hp rest rest' st o y Hl HL Hn) as H. unfold not_p, R2 in *.
  destruct (p st _) as [s [v r| |a]], (p' st _) as [s' [v' r'| |a']]; cbn in *; destruct H as [Hs H]; try contradiction; subst; split; auto.
  split; [reflexivity|]. split; [reflexivity|]. exists y. split; [apply sfx_refl|split; reflexivity].
Qed.
Lemma expect_local2 {A} L n (p p' : parser A) m : local2 L n p p' -> local2 L n (expect p m) (expect p' m).
Proof.
  intros Hp rest rest' st o y Hl HL Hn. pose proof (Hp rest rest' st o y Hl HL Hn) as H. unfold expect, R2 in *.
  destruct (p st _) as [s [v r| |a]], (p' st _) as [s' [v' r'| |a']]; cbn in *; destruct H as [Hs H]; try contradiction; subst; try (split; auto; fail).
  - destruct H as [-> H]. split; [reflexivity|]. split; [reflexivity|exact H].
  - destruct m; cbn; (split; [reflexivity|]); (split; [reflexivity|]); (split; [reflexivity|]);
      exists y; (split; [apply sfx_refl|split; reflexivity]).
Qed.
Lemma located_local2 {A} L n (p p' : parser A) : local2 L n p p' -> local2 L n (located_p p) (located_p p').
Proof.
  intros Hp rest rest' st o y Hl HL Hn. pose proof (Hp rest rest' st o y Hl HL Hn) as H. unfold located_p, R2 in *.
  destruct (p st _) as [s [v r| |a]], (p' st _) as [s' [v' r'| |a']]; cbn in *; destruct H as [Hs H]; try contradiction; subst; split; auto.
  destruct H as [-> [Ho H]]. rewrite Ho. split; [reflexivity|]. split; [reflexivity|exact H].
Qed.
Lemma with_scope_local2 {A B} L n (p p' : parser A) (f : A -> nat -> B) : local2 L n p p' -> local2 L n (with_scope p f) (with_scope p' f).
Proof.
  intros Hp rest rest' st o y Hl HL Hn. pose proof (Hp rest rest' st o y Hl HL Hn) as H. unfold with_scope, R2 in *.
  destruct (p st _) as [s [v r| |a]], (p' st _) as [s' [v' r'| |a']]; cbn in *; destruct H as [Hs H]; try contradiction; subst; split; auto.
  destruct H as [-> H]. split; [reflexivity|exact H].
Qed.

Lemma firstn_line {T} (y2 pre z : list T) k : k = length pre -> firstn k ((pre ++ y2) ++ z) = pre.
Proof. intros ->. rewrite <- app_assoc. apply firstn_app_exact. Qed.
Lemma recognize_local2 {A} L n (p p' : parser A) : local2 L n p p' -> local2 L n (recognize p) (recognize p').
Proof.
  intros Hp rest rest' st o y Hl HL Hn. pose proof (Hp rest rest' st o y Hl HL Hn) as H. unfold recognize, R2 in *.
  destruct (p st _) as [s [v r| |a]], (p' st _) as [s' [v' r'| |a']]; cbn in *; destruct H as [Hs H]; try contradiction; subst; split; auto.
  destruct H as [_ [Ho [y2 [[pre ->] [Hr Hr']]]]]. rewrite Hr, Hr'. split; [|split; [assumption|exists y2; split; [apply sfx_app|split; reflexivity]]].
  rewrite !app_length. cbn [length]. rewrite ?app_length.
  replace (length pre + length y2 + S (length rest) - (length y2 + S (length rest)))%nat with (length pre) by lia.
  replace (length pre + length y2 + S (length rest') - (length y2 + S (length rest')))%nat with (length pre) by lia.
  rewrite !firstn_line by reflexivity. reflexivity.
Qed.

Lemma many0_aux_local2 {A} n (p p' : parser A) : local2 anyL n p p' ->
  forall f f' rest rest' st o y, lineb y = true -> (length y <= n)%nat -> (length y < f)%nat -> (length y < f')%nat ->
    R2 y rest rest' (many0_aux f p st (mkIn o (y ++ 10 :: rest))) (many0_aux f' p' st (mkIn o (y ++ 10 :: rest'))).
Proof.
  intros Hp f. induction f as [|g IH]; intros f' rest rest' st o y Hl Hn Hf Hf'; [lia|].
  destruct f' as [|g']; [lia|]. cbn [many0_aux]. pose proof (Hp rest rest' st o y Hl I Hn) as H. unfold R2 in H.
  destruct (p st (mkIn o (y ++ 10 :: rest))) as [s [v r| |a]], (p' st (mkIn o (y ++ 10 :: rest'))) as [s' [v' r'| |a']];
    cbn in H; destruct H as [Hs H]; try contradiction; subst.
  - destruct H as [-> [Ho [y2 [Hsf [Hr Hr']]]]]. cbn [rem]. rewrite Hr, Hr', !app_length. cbn [length].
    destruct (length y2 + S (length rest) =? length y + S (length rest))%nat eqn:E1.
    + apply Nat.eqb_eq in E1. assert (E2 : (length y2 + S (length rest') =? length y + S (length rest'))%nat = true) by (apply Nat.eqb_eq; lia).
      rewrite E2. split; cbn; auto.
    + apply Nat.eqb_neq in E1. assert (E2 : (length y2 + S (length rest') =? length y + S (length rest'))%nat = false) by (apply Nat.eqb_neq; lia).
      rewrite E2. pose proof (sfx_length _ _ Hsf) as Hlen.
      specialize (IH g' rest rest' s' (off r) y2 (lineb_sfx _ _ Hsf Hl)).
      rewrite (input_eta r), (input_eta r'), Hr, Hr', <- Ho.
      assert (Hx : R2 y2 rest rest' (many0_aux g p s' (mkIn (off r) (y2 ++ 10 :: rest))) (many0_aux g' p' s' (mkIn (off r) (y2 ++ 10 :: rest')))).
      { apply IH; lia. }
      unfold R2 in Hx |- *.
      destruct (many0_aux g p s' _) as [t [l u| |b]], (many0_aux g' p' s' _) as [t' [l' u'| |b']]; cbn in *; destruct Hx as [Ht Hx]; try contradiction; subst; split; auto.
      destruct Hx as [-> [Ho2 [y3 [Hsf3 [Hu Hu']]]]]. split; [reflexivity|]. split; [assumption|].
      exists y3. split; [eapply sfx_trans; eassumption|split; assumption].
  - split; cbn; auto. split; [reflexivity|]. split; [reflexivity|]. exists y. split; [apply sfx_refl|split; reflexivity].
  - split; cbn; auto.
Qed.
Lemma many0_local2 {A} L n (p p' : parser A) : local2 anyL n p p' -> local2 L n (many0 p) (many0 p').
Proof.
  intros Hp rest rest' st o y Hl _ Hn. unfold many0. cbn [rem]. apply (many0_aux_local2 n); auto; rewrite app_length; cbn [length]; lia.
Qed.
Lemma many1_local2 {A} L n (p p' : parser A) : local2 anyL n p p' -> local2 L n (many1 p) (many1 p').
Proof.
  intros Hp. unfold many1. apply map_local2. apply pair_local2; [eapply local2_weaken; [exact Hp|intros; exact I]|apply many0_local2; exact Hp].
Qed.
Lemma separated_list1_local2 {A B} L n (sep sep' : parser B) (f f' : parser A) :
  local2 anyL n f f' -> local2 anyL n sep sep' -> local2 L n (separated_list1 sep f) (separated_list1 sep' f').
Proof.
  intros Hf Hs. unfold separated_list1. apply map_local2. apply pair_local2; [eapply local2_weaken; [exact Hf|intros; exact I]|].
  apply many0_local2. apply pair_local2; assumption.
Qed.
Lemma with_trivia_local2 {A} L n (tp : parser ltrivia) (p p' : parser A) :
  local2 L n tp tp -> local2 anyL n p p' -> local2 L n (with_trivia tp p) (with_trivia tp p').
Proof.
  intros Ht Hp rest rest' st o y Hl HL Hn. unfold with_trivia.
  pose proof (opt_local2 L n tp tp Ht rest rest' st o y Hl HL Hn) as H. unfold R2 in H.
  destruct (opt tp st (mkIn o (y ++ 10 :: rest))) as [s [t r| |a]], (opt tp st (mkIn o (y ++ 10 :: rest'))) as [s' [t' r'| |a']];
    cbn in H; destruct H as [Hs H]; try contradiction; subst; try (split; cbn; auto; fail).
  destruct H as [-> [Ho [y2 [Hsf [Hr Hr']]]]].
  pose proof (Hp rest rest' s' (off r) y2 (lineb_sfx _ _ Hsf Hl) I) as Hq.
  rewrite (input_eta r), (input_eta r'), Hr, Hr', <- Ho. cbn [off].
  assert (Hlen : (length y2 <= n)%nat) by (apply sfx_length in Hsf; lia). specialize (Hq Hlen). unfold R2 in *.
  destruct (p s' _) as [t [w u| |b]], (p' s' _) as [t2 [w' u'| |b']]; cbn in *; destruct Hq as [Ht2 Hq]; try contradiction; subst; split; auto.
  destruct Hq as [-> [Ho2 [y3 [Hsf3 [Hu Hu']]]]]. rewrite Ho2. split; [reflexivity|]. split; [reflexivity|].
  exists y3. split; [eapply sfx_trans; eassumption|split; assumption].
Qed.

(* ---------------------------------------------------------------- terminals *)
Lemma take_while_line f y rest : f 10 = false ->
  take_while f (y ++ 10 :: rest) = (fst (take_while f y), snd (take_while f y) ++ 10 :: rest).
Proof.
  intros Hf. induction y as [|c y IH]; cbn [app take_while]; [rewrite Hf; reflexivity|].
  destruct (f c); [|reflexivity]. rewrite IH. destruct (take_while f y); reflexivity.
Qed.
Lemma take_while_sfx f y : sfx (snd (take_while f y)) y.
Proof. destruct (take_while f y) as [a b] eqn:E. apply take_while_app in E. subst. apply sfx_app. Qed.

Lemma take_while1_local f : f 10 = false -> local (take_while1_p f).
Proof.
  intros Hf n rest rest' st o y Hl _ _. unfold take_while1_p. cbn [rem]. rewrite !take_while_line by assumption.
  pose proof (take_while_sfx f y) as Hs. destruct (take_while f y) as [a b]. cbn [fst snd] in *.
  destruct a; split; cbn; auto. split; [reflexivity|]. split; [reflexivity|]. exists b. auto.
Qed.
Lemma take_while0_local f : f 10 = false -> local (take_while0_p f).
Proof.
  intros Hf n rest rest' st o y Hl _ _. unfold take_while0_p. cbn [rem]. rewrite !take_while_line by assumption.
  pose proof (take_while_sfx f y) as Hs. destruct (take_while f y) as [a b]. cbn [fst snd] in *.
  split; cbn; auto. split; [reflexivity|]. split; [reflexivity|]. exists b. auto.
Qed.
Lemma satisfy_local f : f 10 = false -> local (satisfy f).
Proof.
  intros Hf n rest rest' st o y Hl _ _. unfold satisfy. cbn [rem]. destruct y as [|c y]; cbn [app].
  - rewrite Hf. split; cbn; auto.
  - destruct (f c); split; cbn; auto. split; [reflexivity|]. split; [reflexivity|]. exists y. split; [exists [c]; reflexivity|auto].
Qed.
Lemma char_local c : c <> 10 -> local (char_p c).
Proof. intros H. apply satisfy_local. apply N.eqb_neq. assumption. Qed.
Lemma value_local {A} (v : A) : local (value_p v).
Proof.
  intros n rest rest' st o y _ _ _. unfold value_p. split; cbn; auto. split; [reflexivity|]. split; [reflexivity|].
  exists y. split; [apply sfx_refl|auto].
Qed.

Definition no10 (t : text) : bool := forallb (fun c => negb (c =? 10)) t.
Lemma is_prefix_line t : no10 t = true -> forall y rest, is_prefix t (y ++ 10 :: rest) = is_prefix t y.
Proof.
  induction t as [|x t IH]; intros Ht y rest; [destruct y; reflexivity|].
  cbn in Ht. apply andb_true_iff in Ht. destruct Ht as [Hx Ht]. destruct y as [|c y]; cbn [app is_prefix].
  - apply negb_true_iff in Hx. rewrite N.eqb_sym, Hx. reflexivity.
  - rewrite IH by assumption. reflexivity.
Qed.
Lemma is_prefix_length t : forall y, is_prefix t y = true -> (length t <= length y)%nat.
Proof.
  induction t as [|x t IH]; intros [|c y] H; cbn in *; try lia; try discriminate.
  apply andb_true_iff in H. destruct H as [_ H]. apply IH in H. lia.
Qed.
Lemma tag_local t : no10 t = true -> local (tag t).
Proof.
  intros Ht n rest rest' st o y Hl _ _. unfold tag. cbn [rem]. rewrite !is_prefix_line by assumption.
  destruct (is_prefix t y) eqn:E; [|split; cbn; auto]. apply is_prefix_length in E.
  rewrite !firstn_app, !skipn_app. replace (length t - length y)%nat with 0%nat by lia. cbn [firstn skipn]. rewrite !app_nil_r.
  split; cbn; auto. split; [reflexivity|]. split; [reflexivity|]. exists (skipn (length t) y).
  split; [exists (firstn (length t) y); symmetry; apply firstn_skipn|auto].
Qed.

Lemma take_bytes_line y : forall n rest,
  match take_bytes y n with
  | BExact a b => take_bytes (y ++ 10 :: rest) n = BExact a (b ++ 10 :: rest)
  | BInside => take_bytes (y ++ 10 :: rest) n = BInside
  | BShort => match take_bytes (y ++ 10 :: rest) n with BExact a _ => In 10 a | _ => True end
  end.
Proof.
  induction y as [|c y IH]; intros n rest.
  - destruct n; cbn [take_bytes app]; [reflexivity|].
    change (width_utf8 10) with 1%nat. cbn [Nat.leb]. destruct (take_bytes rest (S n - 1)); auto. left; reflexivity.
  - destruct n; cbn [take_bytes app]; [reflexivity|].
    destruct (width_utf8 c <=? S n)%nat; [|reflexivity].
    specialize (IH (S n - width_utf8 c)%nat rest). destruct (take_bytes y (S n - width_utf8 c)).
    + rewrite IH. reflexivity.
    + destruct (take_bytes (y ++ 10 :: rest) (S n - width_utf8 c)); auto. right; assumption.
    + rewrite IH. reflexivity.
Qed.
Lemma lower_is_10 c : ascii_lower c = 10 -> c = 10.
Proof.
  unfold ascii_lower. destruct ((65 <=? c) && (c <=? 90)) eqn:E; [|auto].
  apply andb_true_iff in E. destruct E as [A B]. apply N.leb_le in A. lia.
Qed.
Lemma ci_eqb_in10 a : forall t, In 10 a -> no10 t = true -> ci_eqb a t = false.
Proof.
  induction a as [|x a IH]; intros t Hin Ht; [destruct Hin|]. destruct t as [|z t]; [reflexivity|].
  cbn in Ht. apply andb_true_iff in Ht. destruct Ht as [Hz Ht]. cbn [ci_eqb]. destruct Hin as [->|Hin].
  - destruct (ascii_lower 10 =? ascii_lower z) eqn:E; [|reflexivity]. apply N.eqb_eq in E. symmetry in E.
    change (ascii_lower 10) with 10 in E. apply lower_is_10 in E. subst. discriminate.
  - rewrite (IH t Hin Ht). apply andb_false_r.
Qed.
Lemma starts_ident_line b rest rest' : starts_ident (b ++ 10 :: rest) = starts_ident (b ++ 10 :: rest').
Proof. destruct b; reflexivity. Qed.
Lemma tag_no_case_local t : no10 t = true -> local (tag_no_case t).
Proof.
  intros Ht n rest rest' st o y Hl _ _. unfold tag_no_case. cbn [rem].
  pose proof (take_bytes_line y (length t) rest) as H1. pose proof (take_bytes_line y (length t) rest') as H2.
  destruct (take_bytes y (length t)) as [a b| |] eqn:E.
  - rewrite H1, H2, (starts_ident_line b rest rest'). apply take_bytes_app in E.
    destruct (ci_eqb a t && negb (word_tag t && starts_ident (b ++ 10 :: rest'))); split; cbn; auto.
    split; [reflexivity|]. split; [reflexivity|]. exists b. subst. split; [apply sfx_app|auto].
  - assert (F : forall r0, match take_bytes (y ++ 10 :: r0) (length t) with BExact a _ => In 10 a | _ => True end ->
                 snd (match take_bytes (y ++ 10 :: r0) (length t) with
                      | BExact a b => if ci_eqb a t && negb (word_tag t && starts_ident b) then (st, Ok a (consume a b (mkIn o (y ++ 10 :: r0)))) else (st, Err)
                      | _ => (st, Err) end) = Err /\
                 fst (match take_bytes (y ++ 10 :: r0) (length t) with
                      | BExact a b => if ci_eqb a t && negb (word_tag t && starts_ident b) then (st, Ok a (consume a b (mkIn o (y ++ 10 :: r0)))) else (st, Err)
                      | _ => (st, Err) end) = st).
    { intros r0 H. destruct (take_bytes (y ++ 10 :: r0) (length t)) as [a b| |]; auto.
      rewrite (ci_eqb_in10 a t H Ht). cbn. auto. }
    destruct (F rest H1) as [A1 A2], (F rest' H2) as [B1 B2]. unfold R2. rewrite A1, A2, B1, B2. auto.
  - rewrite H1, H2. split; cbn; auto.
Qed.

(* ---------------------------------------------------------------- trivia and wrappers *)
Lemma c_comment_line : local c_comment.
Proof.
  intros n rest rest' st o y Hl _ _. unfold c_comment, tag, t_slash_star. cbn [rem].
  assert (F : forall r0, is_prefix [47; 42] (y ++ 10 :: r0) = false).
  { intros r0. destruct y as [|c [|d y]]; cbn.
    - reflexivity.
    - rewrite andb_false_r. reflexivity.
    - pose proof (lineb_no_open _ _ _ Hl) as H. rewrite andb_true_r. exact H. }
  rewrite !F. split; cbn; auto.
Qed.
Lemma cpp_comment_local : local cpp_comment.
Proof.
  intros n. unfold cpp_comment. apply recognize_local2. apply pair_local2; [apply tag_local; reflexivity|].
  apply opt_local2. apply take_while1_local. reflexivity.
Qed.
Lemma trivia_impl_local : local trivia_impl.
Proof.
  intros n. unfold trivia_impl. cbn [alts]. repeat apply alt_local2; [| | |apply fail_local2].
  - apply map_local2. apply take_while1_local. reflexivity.
  - apply map_local2. apply c_comment_line.
  - apply map_local2. apply cpp_comment_local.
Qed.
Lemma trivia_p_local : local trivia_p.
Proof. intros n. unfold trivia_p. apply map_local2, located_local2, many1_local2, trivia_impl_local. Qed.

Lemma ws_local2 {A} L n (p p' : parser A) : local2 anyL n p p' -> local2 L n (ws p) (ws p').
Proof. intros H. unfold ws. apply with_trivia_local2; [apply local_any, trivia_p_local|exact H]. Qed.

(* a line whose first non-blank character exists and does not start a line comment: there an mws wrapper stays on the line *)
Definition lead (y : text) : Prop :=
  match snd (take_while is_space y) with
  | [] => False
  | c :: r => (c =? 47) && (match r with d :: _ => d =? 47 | [] => false end) = false
  end.

Definition starts_comment (c : N) (z : text) : bool :=
  (c =? 47) && (match z with d :: _ => (d =? 42) || (d =? 47) | [] => false end).

Lemma no_trivia_item_here st o c z : is_space c = false -> c <> 10 -> c <> 13 -> starts_comment c z = false ->
  alt trivia_impl newline st (mkIn o (c :: z)) = (st, Err).
Proof.
  intros Hs H10 H13 Hc. unfold starts_comment in Hc.
  assert (P1 : is_prefix [47; 42] (c :: z) = false /\ is_prefix [47; 47] (c :: z) = false).
  { cbn. destruct (c =? 47) eqn:E; [|auto]. cbn in Hc. destruct z as [|d t]; [auto|].
    apply orb_false_iff in Hc. destruct Hc as [A B]. rewrite A, B. auto. }
  destruct P1 as [P1 P2].
  unfold alt, trivia_impl. cbn [alts]. unfold alt, map_p, space1, take_while1_p, c_comment, cpp_comment, recognize, pair_p, tag, t_slash_star, t_slash_slash.
  cbn [rem take_while]. rewrite Hs, P1, P2. unfold newline, map_p, pair_p, opt, char_p, satisfy. cbn [rem].
  assert (E13 : (13 =? c) = false) by (apply N.eqb_neq; congruence).
  assert (E10 : (10 =? c) = false) by (apply N.eqb_neq; congruence).
  rewrite E13. cbn [rem]. rewrite E10. reflexivity.
Qed.

Lemma take_while_all f a c z : forallb f a = true -> f c = false -> take_while f (a ++ c :: z) = (a, c :: z).
Proof.
  intros Ha Hc. induction a as [|x a IH]; cbn [app take_while]; [rewrite Hc; reflexivity|].
  cbn in Ha. apply andb_true_iff in Ha. destruct Ha as [Hx Ha]. rewrite Hx, (IH Ha). reflexivity.
Qed.
Lemma blanks_item st o s0 sp c z : forallb is_space (s0 :: sp) = true -> is_space c = false ->
  alt trivia_impl newline st (mkIn o ((s0 :: sp) ++ c :: z)) =
  (st, Ok (TWhitespace (s0 :: sp)) (mkIn (o + blen (s0 :: sp)) (c :: z))).
Proof.
  intros Ha Hc. unfold alt, trivia_impl. cbn [alts]. unfold alt at 1. unfold map_p at 1. unfold space1, take_while1_p. cbn [rem].
  rewrite (take_while_all is_space (s0 :: sp) c z Ha Hc). reflexivity.
Qed.

Lemma take_while_split f y : forallb f (fst (take_while f y)) = true /\
  match snd (take_while f y) with c :: _ => f c = false | [] => True end.
Proof.
  induction y as [|x0 y0 IH]; cbn [take_while]; [cbn; auto|]. destruct (f x0) eqn:E.
  - destruct (take_while f y0) as [a b]. cbn in *. rewrite E. exact IH.
  - cbn. auto.
Qed.

(* on a `lead` line the optional multi-line trivia is exactly the leading blanks, whatever follows the line *)
Lemma opt_multiline_on_lead y : lineb y = true -> lead y ->
  exists (tf : N -> option ltrivia),
    forall st o rest, opt multiline_trivia st (mkIn o (y ++ 10 :: rest)) =
      (st, Ok (tf o) (mkIn (o + blen (fst (take_while is_space y))) (snd (take_while is_space y) ++ 10 :: rest))).
Proof.
  intros Hl Hlead. unfold lead in Hlead. pose proof (take_while_sfx is_space y) as Hsf.
  pose proof (take_while_split is_space y) as [Hsp Hc_space].
  destruct (take_while is_space y) as [sp y2] eqn:Etw. cbn [fst snd] in *.
  destruct y2 as [|c r]; [contradiction|].
  assert (Hy : y = sp ++ c :: r) by (apply take_while_app in Etw; exact Etw).
  pose proof (lineb_sfx _ _ Hsf Hl) as Hl2. destruct (lineb_head _ _ Hl2) as [H10 H13].
  assert (Hcmt : forall rest, starts_comment c (r ++ 10 :: rest) = false).
  { intros rest. unfold starts_comment. destruct (c =? 47) eqn:E; [|reflexivity]. cbn. destruct r as [|d r']; cbn; [reflexivity|].
    pose proof (lineb_no_open _ _ _ Hl2) as Ho. rewrite E in Ho. cbn in Ho, Hlead. rewrite Ho, Hlead. reflexivity. }
  destruct sp as [|s0 sp].
  - exists (fun _ => None). intros st o rest. cbn [app] in Hy. subst y.
    unfold opt, multiline_trivia, map_p, located_p, many1, map_p, pair_p. cbn [app].
    rewrite (no_trivia_item_here st o c (r ++ 10 :: rest) Hc_space H10 H13 (Hcmt rest)). cbn. rewrite N.add_0_r. reflexivity.
  - exists (fun o => Some (mkTriv o (o + blen (s0 :: sp)) [TWhitespace (s0 :: sp)])). intros st o rest. subst y.
    unfold opt, multiline_trivia, map_p, located_p, many1, map_p, pair_p. rewrite <- app_assoc. cbn [app].
    change (s0 :: sp ++ c :: r ++ 10 :: rest) with ((s0 :: sp) ++ c :: (r ++ 10 :: rest)).
    rewrite (blanks_item st o s0 sp c (r ++ 10 :: rest) Hsp Hc_space).
    unfold many0. cbn [rem length many0_aux].
    rewrite (no_trivia_item_here st _ c (r ++ 10 :: rest) Hc_space H10 H13 (Hcmt rest)). reflexivity.
Qed.

Lemma mws_local2 {A} n (p p' : parser A) : local2 anyL n p p' -> local2 lead n (mws p) (mws p').
Proof.
  intros Hp rest rest' st o y Hl HL Hn. destruct (opt_multiline_on_lead y Hl HL) as [tf Ho].
  pose proof (take_while_sfx is_space y) as Hsf. set (sp := fst (take_while is_space y)) in *. set (y2 := snd (take_while is_space y)) in *.
  unfold mws, with_trivia. rewrite !Ho.
  pose proof (Hp rest rest' st (o + blen sp) y2 (lineb_sfx _ _ Hsf Hl) I) as Hq.
  assert (Hlen : (length y2 <= n)%nat) by (apply sfx_length in Hsf; lia). specialize (Hq Hlen). unfold R2 in *.
  destruct (p st _) as [t [w u| |b]], (p' st _) as [t2 [w' u'| |b']]; cbn in *; destruct Hq as [Ht2 Hq]; try contradiction; subst; split; auto.
  destruct Hq as [-> [Ho2 [y3 [Hsf3 [Hu Hu']]]]]. rewrite Ho2. split; [reflexivity|]. split; [reflexivity|].
  exists y3. split; [eapply sfx_trans; eassumption|split; assumption].
Qed.

(* the wrapper of a terminal, by its kind: ws and located never leave the line; mws needs a `lead` line *)
Definition wrapL (w : wrapper) : text -> Prop := match w with W_mws => lead | _ => anyL end.
Lemma wr_local2 {A} n w (p p' : parser A) : local2 anyL n p p' -> local2 (wrapL w) n (wr w p) (wr w p').
Proof.
  intros Hp. destruct w; cbn [wr wrapL]; [apply ws_local2; exact Hp|apply mws_local2; exact Hp|apply located_local2; exact Hp].
Qed.
(* a wrapper the table says is not mws *)
Lemma wr_local2_inner {A} L n w (p p' : parser A) : w <> W_mws -> local2 anyL n p p' -> local2 L n (wr w p) (wr w p').
Proof.
  intros Hw Hp. eapply local2_weaken; [apply wr_local2; exact Hp|]. intros y _. destruct w; cbn; try exact I. exfalso. apply Hw. reflexivity.
Qed.

Lemma nested_local2 {A} L n k (p p' : parser A) : local2 L n p p' -> local2 L n (nested k p) (nested k p').
Proof.
  intros Hp rest rest' st o y Hl HL Hn. unfold nested. destruct (nesting (enter_nesting st) <=? k)%nat.
  - pose proof (Hp rest rest' (enter_nesting st) o y Hl HL Hn) as H. unfold R2 in *.
    destruct (p (enter_nesting st) _) as [s R], (p' (enter_nesting st) _) as [s' R']. cbn in *. destruct H as [-> H]. split; [reflexivity|exact H].
  - split; cbn; auto.
Qed.
Lemma peek_local2 {A} L n (p p' : parser A) : local2 L n p p' -> local2 L n (peek p) (peek p').
Proof.
  intros Hp rest rest' st o y Hl HL Hn. pose proof (Hp rest rest' st o y Hl HL Hn) as H. unfold peek, R2 in *.
  destruct (p st _) as [s [v r| |a]], (p' st _) as [s' [v' r'| |a']]; cbn in *; destruct H as [Hs H]; try contradiction; subst; split; auto.
  destruct H as [-> _]. split; [reflexivity|]. split; [reflexivity|]. exists y. split; [apply sfx_refl|split; reflexivity].
Qed.

Ltac not_mws := cbv; discriminate.

(* ---------------------------------------------------------------- identifiers, keywords, strings, numbers *)
Lemma identifier_name_local : local identifier_name.
Proof.
  intros n. unfold identifier_name. apply recognize_local2. apply pair_local2.
  - apply alt_local2; [apply take_while1_local; reflexivity|apply tag_local; reflexivity].
  - apply many0_local2. apply alt_local2; [apply take_while1_local; reflexivity|apply tag_local; reflexivity].
Qed.
Lemma identifier_scope_local : local identifier_scope.
Proof.
  intros n. unfold identifier_scope. apply map_local2. apply pair_local2.
  - apply alt_local2; apply char_local; discriminate.
  - apply not_local2. apply take_while1_local. reflexivity.
Qed.
Lemma identifier_path_local : local identifier_path.
Proof.
  intros n. unfold identifier_path. apply map_local2. apply wr_local2_inner; [not_mws|].
  apply separated_list1_local2; [|apply char_local; discriminate].
  apply alt_local2; [apply identifier_scope_local|apply identifier_name_local].
Qed.

Lemma table_no10 (table : list (text * text)) : forallb (fun k => no10 (fst k)) table = true ->
  forall e, In e table -> no10 (fst e) = true.
Proof. intros H e He. rewrite forallb_forall in H. apply H. assumption. Qed.
Lemma keyword_local k : no10 (fst k) = true -> local (keyword_p k).
Proof. intros Hk n. unfold keyword_p. apply map_local2. apply tag_no_case_local. assumption. Qed.
Lemma tagged_local {V} (table : list (text * V)) : forallb (fun e => no10 (fst e)) table = true -> local (tagged table).
Proof.
  intros H n. unfold tagged. apply alts_map_local2. intros e He. apply map_local2. apply tag_no_case_local.
  rewrite forallb_forall in H. apply H. assumption.
Qed.
Lemma mnemonic_of_local table : forallb (fun k => no10 (fst k)) table = true -> local (mnemonic_of table).
Proof.
  intros H n. unfold mnemonic_of. apply alts_map_local2. intros e He. apply keyword_local.
  rewrite forallb_forall in H. apply H. assumption.
Qed.

Lemma string_chunk_local w : w <> W_mws -> local (string_chunk w).
Proof.
  intros Hw n. unfold string_chunk. apply map_local2. apply wr_local2_inner; [assumption|].
  apply recognize_local2, many1_local2. apply satisfy_local. reflexivity.
Qed.
Lemma interpolated_string_local : local interpolated_string.
Proof.
  intros n. unfold interpolated_string. apply map_local2. apply pair_local2.
  - apply wr_local2_inner; [not_mws|]. apply char_local. discriminate.
  - apply pair_local2; [|apply char_local; discriminate]. apply many0_local2. apply alt_local2.
    + apply string_chunk_local. not_mws.
    + apply map_local2. apply pair_local2; [apply char_local; discriminate|].
      apply pair_local2; [|apply char_local; discriminate]. apply wr_local2_inner; [not_mws|apply identifier_path_local].
Qed.

Lemma digits_local w (q : parser text) : w <> W_mws -> local q -> local (wr w (recognize (many1 q))).
Proof. intros Hw Hq n. apply wr_local2_inner; [assumption|]. apply recognize_local2, many1_local2, Hq. Qed.
Lemma number_local : local number.
Proof.
  intros n. unfold number. apply wr_local2_inner; [not_mws|]. apply map_local2. cbn [alts]. repeat apply alt_local2; [| | | | |apply fail_local2].
  - apply pair_local2; [apply map_local2, wr_local2_inner; [not_mws|apply char_local; discriminate]|].
    apply digits_local; [not_mws|]. intros m. apply take_while1_local. reflexivity.
  - apply pair_local2; [apply map_local2, wr_local2_inner; [not_mws|apply char_local; discriminate]|].
    apply digits_local; [not_mws|]. intros m. apply take_while1_local. reflexivity.
  - apply pair_local2; [apply wr_local2_inner; [not_mws|apply value_local]|].
    apply digits_local; [not_mws|]. intros m. apply take_while1_local. reflexivity.
  - apply pair_local2; [apply wr_local2_inner; [not_mws|apply value_local]|].
    apply wr_local2_inner; [not_mws|]. apply tag_no_case_local. reflexivity.
  - apply pair_local2; [apply wr_local2_inner; [not_mws|apply value_local]|].
    apply wr_local2_inner; [not_mws|]. apply tag_no_case_local. reflexivity.
Qed.
Lemma modifier_local : local modifier_p.
Proof. intros n. unfold modifier_p. apply alts_map_local2. intros e He. apply map_local2. apply char_local.
  cbn in He. repeat (destruct He as [<-|He]; [discriminate|]). destruct He. Qed.
Lemma identifier_value_local : local identifier_value.
Proof.
  intros n. unfold identifier_value. apply wr_local2_inner; [not_mws|]. apply map_local2. apply pair_local2.
  - apply opt_local2. apply wr_local2_inner; [not_mws|apply modifier_local].
  - apply wr_local2_inner; [not_mws|apply identifier_path_local].
Qed.
Lemma current_pc_local : local current_pc.
Proof.
  intros n. unfold current_pc. apply wr_local2_inner; [not_mws|]. apply map_local2. apply wr_local2_inner; [not_mws|]. apply char_local. discriminate.
Qed.
Lemma interpolated_string_factor_local : local interpolated_string_factor.
Proof. intros n. unfold interpolated_string_factor. apply wr_local2_inner; [not_mws|]. apply map_local2. apply interpolated_string_local. Qed.
Lemma operator_local table : forallb (fun e => no10 (fst e)) table = true -> local (operator table).
Proof.
  intros H n. unfold operator. apply alts_map_local2. intros e He. apply map_local2. apply tag_local.
  rewrite forallb_forall in H. apply H. assumption.
Qed.

Lemma wr_char_consumes w c : consumes (wr w (char_p c)).
Proof.
  apply (consumes_of_sound a_char). { apply wr_char_sound. }
  intros st i st' v r E. unfold a_char. rewrite exact_app. unfold exact at 2. cbn. destruct (exact (a_triv (triv v))); discriminate.
Qed.

(* ---------------------------------------------------------------- argument lists *)
Lemma arg_list_loop_local2 {T} n (item item' : parser T) : local2 anyL n item item' ->
  forall f f' acc cur rest rest' st o y, lineb y = true -> (length y <= n)%nat -> (length y < f)%nat -> (length y < f')%nat ->
    R2 y rest rest' (arg_list_loop f item acc cur st (mkIn o (y ++ 10 :: rest))) (arg_list_loop f' item' acc cur st (mkIn o (y ++ 10 :: rest'))).
Proof.
  intros Hi f. induction f as [|g IH]; intros f' acc cur rest rest' st o y Hl Hn Hf Hf'; [lia|].
  destruct f' as [|g']; [lia|]. cbn [arg_list_loop].
  assert (Hc : local2 anyL n (wr (slot W_arg_list 1) (char_p 44)) (wr (slot W_arg_list 1) (char_p 44))).
  { apply wr_local2_inner; [not_mws|apply char_local; discriminate]. }
  pose proof (Hc rest rest' st o y Hl I Hn) as H. unfold R2 in H.
  destruct (wr (slot W_arg_list 1) (char_p 44) st (mkIn o (y ++ 10 :: rest))) as [s [comma r| |a]] eqn:E1,
           (wr (slot W_arg_list 1) (char_p 44) st (mkIn o (y ++ 10 :: rest'))) as [s' [comma' r'| |a']] eqn:E2;
    cbn in H; destruct H as [Hs H]; try contradiction; subst.
  - destruct H as [-> [Ho [y2 [Hsf [Hr Hr']]]]].
    apply wr_char_consumes in E1. cbn [rem] in E1. rewrite Hr, !app_length in E1. cbn [length] in E1.
    assert (Hi2 : local2 anyL n (wr (slot W_arg_list 2) item) (wr (slot W_arg_list 2) item')) by (apply wr_local2_inner; [not_mws|exact Hi]).
    pose proof (Hi2 rest rest' s' (off r) y2 (lineb_sfx _ _ Hsf Hl) I) as H2.
    assert (Hlen2 : (length y2 <= n)%nat) by lia. specialize (H2 Hlen2).
    rewrite (input_eta r), (input_eta r'), Hr, Hr', <- Ho. unfold R2 in H2.
    destruct (wr (slot W_arg_list 2) item s' _) as [t [next u| |b]], (wr (slot W_arg_list 2) item' s' _) as [t' [next' u'| |b']];
      cbn in H2; destruct H2 as [Ht H2]; try contradiction; subst; try (split; cbn; auto; fail).
    destruct H2 as [-> [Ho2 [y3 [Hsf3 [Hu Hu']]]]]. pose proof (sfx_length _ _ Hsf3) as Hl3.
    specialize (IH g' (acc ++ [(cur, Some comma')]) next' rest rest' t' (off u) y3 (lineb_sfx _ _ Hsf3 (lineb_sfx _ _ Hsf Hl))).
    rewrite (input_eta u), (input_eta u'), Hu, Hu', <- Ho2.
    assert (Hx : R2 y3 rest rest' (arg_list_loop g item (acc ++ [(cur, Some comma')]) next' t' (mkIn (off u) (y3 ++ 10 :: rest)))
                                 (arg_list_loop g' item' (acc ++ [(cur, Some comma')]) next' t' (mkIn (off u) (y3 ++ 10 :: rest')))).
    { apply IH; lia. }
    unfold R2 in Hx |- *.
    destruct (arg_list_loop g item _ _ t' _) as [q [l w| |b]], (arg_list_loop g' item' _ _ t' _) as [q' [l' w'| |b']];
      cbn in *; destruct Hx as [Hq Hx]; try contradiction; subst; split; auto.
    destruct Hx as [-> [Ho3 [y4 [Hsf4 [Hw Hw']]]]]. split; [reflexivity|]. split; [assumption|].
    exists y4. split; [eapply sfx_trans; [eassumption|eapply sfx_trans; eassumption]|split; assumption].
  - split; cbn; auto. split; [reflexivity|]. split; [reflexivity|]. exists y. split; [apply sfx_refl|split; reflexivity].
  - split; cbn; auto.
Qed.
Lemma arg_list_local2 {T} L n (item item' : parser T) : local2 anyL n item item' -> local2 L n (arg_list item) (arg_list item').
Proof.
  intros Hi rest rest' st o y Hl _ Hn. unfold arg_list.
  assert (Hi0 : local2 anyL n (wr (slot W_arg_list 0) item) (wr (slot W_arg_list 0) item')) by (apply wr_local2_inner; [not_mws|exact Hi]).
  pose proof (Hi0 rest rest' st o y Hl I Hn) as H. unfold R2 in H.
  destruct (wr (slot W_arg_list 0) item st _) as [s [first r| |a]], (wr (slot W_arg_list 0) item' st _) as [s' [first' r'| |a']];
    cbn in H; destruct H as [Hs H]; try contradiction; subst; try (split; cbn; auto; fail).
  destruct H as [-> [Ho [y2 [Hsf [Hr Hr']]]]]. pose proof (sfx_length _ _ Hsf) as Hl2.
  rewrite (input_eta r), (input_eta r'), Hr, Hr', <- Ho. cbn [rem].
  assert (Hx : R2 y2 rest rest' (arg_list_loop (S (length (y2 ++ 10 :: rest))) item [] first' s' (mkIn (off r) (y2 ++ 10 :: rest)))
                               (arg_list_loop (S (length (y2 ++ 10 :: rest'))) item' [] first' s' (mkIn (off r) (y2 ++ 10 :: rest')))).
  { apply (arg_list_loop_local2 n); auto; try lia; try (eapply lineb_sfx; eassumption); rewrite app_length; cbn [length]; lia. }
  unfold R2 in Hx |- *.
  destruct (arg_list_loop _ item _ _ s' _) as [q [l w| |b]], (arg_list_loop _ item' _ _ s' _) as [q' [l' w'| |b']];
    cbn in *; destruct Hx as [Hq Hx]; try contradiction; subst; split; auto.
  destruct Hx as [-> [Ho3 [y4 [Hsf4 [Hw Hw']]]]]. split; [reflexivity|]. split; [assumption|].
  exists y4. split; [eapply sfx_trans; eassumption|split; assumption].
Qed.

(* ---------------------------------------------------------------- expressions (two parsers: the fuel differs between the runs) *)
Section Expr.
  Variables (n : nat) (pe pe' : parser (located expr)).
  (* the recursive occurrences are reached only after an opening parenthesis was consumed *)
  Hypothesis Hrec : forall m, (m < n)%nat -> local2 anyL m pe pe'.

  Lemma expression_arg_list_rec m : (m < n)%nat -> local2 anyL m (expression_arg_list pe) (expression_arg_list pe').
  Proof. intros Hm. unfold expression_arg_list. apply arg_list_local2. apply map_local2. apply Hrec. assumption. Qed.

  Lemma expression_parens_local2 : local2 anyL n (expression_parens pe) (expression_parens pe').
  Proof.
    unfold expression_parens. apply wr_local2_inner; [not_mws|]. apply map_local2.
    apply pair_local2_rec; [apply wr_local2_inner; [not_mws|apply char_local; discriminate]|apply wr_char_consumes|].
    intros m Hm. apply pair_local2; [apply nested_local2, Hrec; assumption|].
    apply wr_local2_inner; [not_mws|apply char_local; discriminate].
  Qed.
  Lemma fn_call_parts_local2 (L : text -> Prop) b : (b = true -> forall y, L y -> lead y) ->
    local2 L n (fn_call_parts pe b) (fn_call_parts pe' b).
  Proof.
    intros HL. unfold fn_call_parts. apply pair_local2.
    - destruct b.
      + eapply local2_weaken; [apply wr_local2; apply identifier_name_local|]. intros y Hy.
        change (wrapL (slot W_fn_call_impl 1)) with lead. apply HL; auto.
      + apply wr_local2_inner; [not_mws|apply identifier_name_local].
    - apply pair_local2_rec; [apply wr_local2_inner; [not_mws|apply char_local; discriminate]|apply wr_char_consumes|].
      intros m Hm. apply pair_local2; [|apply wr_local2_inner; [not_mws|apply char_local; discriminate]].
      apply opt_local2, nested_local2, expression_arg_list_rec. assumption.
  Qed.
  Lemma fn_call_impl_local2 : local2 anyL n (fn_call_impl pe false) (fn_call_impl pe' false).
  Proof.
    unfold fn_call_impl. apply wr_local2_inner; [not_mws|]. apply map_local2. apply fn_call_parts_local2. discriminate.
  Qed.
  Lemma expression_factor_inner_local2 : local2 anyL n (expression_factor_inner pe) (expression_factor_inner pe').
  Proof.
    unfold expression_factor_inner. apply alts_map_local2. intros k _. destruct k; cbn [factor_alt].
    - apply number_local.
    - apply fn_call_impl_local2.
    - apply identifier_value_local.
    - apply current_pc_local.
    - apply expression_parens_local2.
    - apply interpolated_string_factor_local.
  Qed.
  Lemma expression_factor_local2 : local2 anyL n (expression_factor pe) (expression_factor pe').
  Proof.
    unfold expression_factor. apply wr_local2_inner; [not_mws|]. apply alt_local2.
    - apply map_local2, expression_factor_inner_local2.
    - apply map_local2. apply pair_local2; [apply peek_local2, satisfy_local; reflexivity|].
      apply pair_local2; [apply opt_local2, wr_local2_inner; [not_mws|apply char_local; discriminate]|].
      apply pair_local2; [apply opt_local2, wr_local2_inner; [not_mws|apply char_local; discriminate]|].
      apply expression_factor_inner_local2.
  Qed.
  Lemma expression_term_local2 : local2 anyL n (expression_term pe) (expression_term pe').
  Proof.
    unfold expression_term. apply map_local2. apply pair_local2; [apply expression_factor_local2|].
    apply many0_local2. apply pair_local2; [|apply expression_factor_local2].
    apply wr_local2_inner; [not_mws|]. apply operator_local. reflexivity.
  Qed.
  Lemma expression_body_local2 : local2 anyL n (expression_body pe) (expression_body pe').
  Proof.
    unfold expression_body. apply map_local2. apply pair_local2; [apply expression_term_local2|].
    apply many0_local2. apply pair_local2; [|apply expression_term_local2].
    apply wr_local2_inner; [not_mws|]. apply operator_local. reflexivity.
  Qed.
End Expr.

Lemma expression_fuel_local2 : forall n f f', (n < f)%nat -> (n < f')%nat -> local2 anyL n (expression_fuel f) (expression_fuel f').
Proof.
  induction n as [n IH] using (well_founded_induction lt_wf). intros f f' Hf Hf'.
  destruct f as [|g]; [lia|]. destruct f' as [|g']; [lia|]. cbn [expression_fuel].
  intros rest rest' st o y Hl HL Hn.
  apply (expression_body_local2 n (expression_fuel g) (expression_fuel g')); auto.
  intros m Hm. apply IH; lia.
Qed.
Lemma expression_local : local expression.
Proof.
  intros n rest rest' st o y Hl HL Hn. unfold expression. cbn [rem].
  apply (expression_fuel_local2 (length y)); auto; rewrite app_length; cbn [length]; lia.
Qed.
Lemma expression_args_local : local expression_args.
Proof. intros n. unfold expression_args, expression_arg_list. apply arg_list_local2. apply map_local2. apply expression_local. Qed.

(* ---------------------------------------------------------------- operands and the block-free statement forms *)
Lemma head_local2 {A} n w (p p' : parser A) : local2 anyL n p p' -> local2 lead n (wr w p) (wr w p').
Proof.
  intros Hp. eapply local2_weaken; [apply wr_local2; exact Hp|]. intros y Hy. destruct w; cbn; auto; exact I.
Qed.

Lemma register_suffix_local e : In e register_tags -> local (register_suffix_p e).
Proof.
  intros He n. unfold register_suffix_p. apply map_local2. apply pair_local2.
  - apply wr_local2_inner; [not_mws|apply char_local; discriminate].
  - apply wr_local2_inner; [not_mws|]. apply tag_no_case_local.
    cbn in He. repeat (destruct He as [<-|He]; [reflexivity|]). destruct He.
Qed.
Lemma optional_suffix_local : local optional_suffix.
Proof. intros n. unfold optional_suffix. apply opt_local2. apply alts_map_local2. intros e He. apply register_suffix_local. assumption. Qed.
Lemma operand_local : local operand.
Proof.
  intros n. unfold operand. cbn [alts]. repeat apply alt_local2; [| | | |apply fail_local2]; apply map_local2.
  - apply pair_local2; [apply wr_local2_inner; [not_mws|apply char_local; discriminate]|apply expression_local].
  - apply pair_local2; [apply wr_local2_inner; [not_mws|apply char_local; discriminate]|].
    apply pair_local2; [apply expression_local|]. apply pair_local2; [|apply optional_suffix_local].
    apply wr_local2_inner; [not_mws|apply char_local; discriminate].
  - apply pair_local2; [apply wr_local2_inner; [not_mws|apply char_local; discriminate]|].
    apply pair_local2; [apply expression_local|]. apply pair_local2; [apply optional_suffix_local|].
    apply wr_local2_inner; [not_mws|apply char_local; discriminate].
  - apply pair_local2; [apply expression_local|apply optional_suffix_local].
Qed.

Lemma instruction_local n : local2 lead n instruction instruction.
Proof.
  unfold instruction. apply alt_local2; apply map_local2; (apply pair_local2; [apply head_local2, mnemonic_of_local; reflexivity|]).
  - apply expect_local2, operand_local.
  - apply expect_local2, not_local2, operand_local.
Qed.
Lemma kw_local2 n w k : no10 (fst k) = true -> local2 lead n (wr w (keyword_p k)) (wr w (keyword_p k)).
Proof. intros Hk. apply head_local2. apply keyword_local. assumption. Qed.

Lemma data_local n : local2 lead n data_ data_.
Proof.
  unfold data_. apply map_local2. apply pair_local2; [|apply expect_local2, expression_args_local].
  apply alts_map_local2. intros [k e] He. apply head_local2. apply tagged_local. apply in_combine_r in He.
  cbn in He. cbn [snd forallb]. repeat (destruct He as [<-|He]; [reflexivity|]). destruct He.
Qed.
Lemma varconst_impl_local n k : no10 (fst k) = true -> local2 lead n (varconst_impl k) (varconst_impl k).
Proof.
  intros Hk. unfold varconst_impl. apply map_local2. apply pair_local2; [apply head_local2, tagged_local; cbn; rewrite Hk; reflexivity|].
  apply pair_local2; [apply wr_local2_inner; [not_mws|apply identifier_name_local]|].
  apply pair_local2; [apply wr_local2_inner; [not_mws|apply char_local; discriminate]|apply expression_local].
Qed.
Lemma pc_definition_local n : local2 lead n pc_definition pc_definition.
Proof.
  unfold pc_definition. apply map_local2. apply pair_local2; [apply head_local2, char_local; discriminate|].
  apply pair_local2; [apply wr_local2_inner; [not_mws|apply char_local; discriminate]|apply expression_local].
Qed.
Lemma align_local n : local2 lead n align align.
Proof. unfold align. apply map_local2. apply pair_local2; [apply kw_local2; reflexivity|apply expression_local]. Qed.
Lemma text_local n : local2 lead n text_ text_.
Proof.
  unfold text_. apply map_local2. apply pair_local2; [apply kw_local2; reflexivity|]. apply alt_local2; apply map_local2.
  - apply pair_local2; [|apply expression_local]. apply wr_local2_inner; [not_mws|]. apply tagged_local. reflexivity.
  - apply expression_local.
Qed.
Lemma file_local n : local2 lead n file file.
Proof. unfold file. apply map_local2. apply pair_local2; [apply kw_local2; reflexivity|apply interpolated_string_local]. Qed.
Lemma assert_local n : local2 lead n assert assert.
Proof.
  unfold assert. apply map_local2. apply pair_local2; [apply kw_local2; reflexivity|].
  apply pair_local2; [apply expression_local|apply opt_local2, interpolated_string_local].
Qed.
Lemma trace_local n : local2 lead n trace trace.
Proof.
  unfold trace. apply map_local2. apply pair_local2; [apply kw_local2; reflexivity|]. apply opt_local2.
  apply pair_local2; [apply wr_local2_inner; [not_mws|apply char_local; discriminate]|].
  apply pair_local2; [apply opt_local2, expression_args_local|apply wr_local2_inner; [not_mws|apply char_local; discriminate]].
Qed.
Lemma macro_invocation_local n : local2 lead n macro_invocation macro_invocation.
Proof.
  unfold macro_invocation. apply map_local2. apply (fn_call_parts_local2 n expression expression); [|auto].
  intros m _. apply expression_local.
Qed.

(* ---------------------------------------------------------------- forms with an mws terminal INSIDE (from the wrapper tables) *)
(* their first terminals; when these do not match the line, the form fails on the line itself *)
Definition block_heads : list (parser unit) :=
  [ map_p (fun _ => tt) (wr (slot W_block 0) (char_p 123));                                                   (* braces *)
    map_p (fun _ => tt) (pair_p (wr (slot W_label 0) identifier_name) (wr (slot W_label 1) (char_p 58)));      (* label (+ optional block) *)
    map_p (fun _ => tt) (wr (slot W_config_definition 0) (keyword_p (kw kw_config_definition 0)));             (* .define + config map *)
    map_p (fun _ => tt) (wr (slot W_macro_definition 0) (keyword_p (kw kw_macro_definition 0)));               (* .macro .. block *)
    map_p (fun _ => tt) (wr (slot W_segment 0) (keyword_p (kw kw_segment 0)));                                 (* .segment + optional block *)
    map_p (fun _ => tt) (wr (slot W_loop_ 0) (keyword_p (kw kw_loop_ 0)));                                     (* .loop .. block *)
    map_p (fun _ => tt) (wr (slot W_if_ 0) (keyword_p (kw kw_if_ 0)));                                         (* .if .. block [else block] *)
    map_p (fun _ => tt) (wr (slot W_import 1) (keyword_p (kw kw_import 0)));                                   (* .import .. mws(from) .. [block] *)
    map_p (fun _ => tt) (wr (slot W_test 0) (keyword_p (kw kw_test 0))) ].                                     (* .test .. block *)
Definition block_heads_fail (y : text) : Prop :=
  forall h, In h block_heads -> forall st o rest, snd (h st (mkIn o (y ++ 10 :: rest))) = Err.
Definition simple_line (y : text) : Prop := lead y /\ block_heads_fail y.

(* a sequence whose first part is local and fails on the line fails there whatever comes after it *)
Lemma pair_fail_local2 {A B C} (L : text -> Prop) n (a : parser A) (t : parser B) (t' : parser C) :
  local2 L n a a -> (forall y, L y -> forall st o rest, snd (a st (mkIn o (y ++ 10 :: rest))) = Err) ->
  local2 L n (map_p (fun _ => tt) (pair_p a t)) (map_p (fun _ => tt) (pair_p a t')).
Proof.
  intros Ha Hf rest rest' st o y Hl HL Hn. pose proof (Ha rest rest' st o y Hl HL Hn) as H.
  pose proof (Hf y HL st o rest) as F1. pose proof (Hf y HL st o rest') as F2. unfold map_p, pair_p, R2 in *.
  destruct (a st (mkIn o (y ++ 10 :: rest))) as [s R], (a st (mkIn o (y ++ 10 :: rest'))) as [s' R']. cbn in *. subst. destruct H as [-> _]. split; cbn; auto.
Qed.
(* the same fact in the form the statement alternatives need: only the Err-ness and the state matter *)
Definition fails_like {A B} (L : text -> Prop) n (p : parser A) (p' : parser B) : Prop :=
  forall rest rest' st o y, lineb y = true -> L y -> (length y <= n)%nat ->
    fst (p st (mkIn o (y ++ 10 :: rest))) = fst (p' st (mkIn o (y ++ 10 :: rest'))) /\
    snd (p st (mkIn o (y ++ 10 :: rest))) = Err /\ snd (p' st (mkIn o (y ++ 10 :: rest'))) = Err.
Lemma fails_local2 {A} L n (p p' : parser A) : fails_like L n p p' -> local2 L n p p'.
Proof.
  intros H rest rest' st o y Hl HL Hn. destruct (H rest rest' st o y Hl HL Hn) as [A1 [A2 A3]]. unfold R2. rewrite A1, A2, A3. auto.
Qed.
Lemma head_fails {A B C} (L : text -> Prop) n (a : parser A) (t : parser B) (t' : parser C) :
  local2 L n a a -> (forall y, L y -> forall st o rest, snd (a st (mkIn o (y ++ 10 :: rest))) = Err) ->
  fails_like L n (pair_p a t) (pair_p a t').
Proof.
  intros Ha Hf rest rest' st o y Hl HL Hn. pose proof (Ha rest rest' st o y Hl HL Hn) as H.
  pose proof (Hf y HL st o rest) as F1. pose proof (Hf y HL st o rest') as F2. unfold pair_p, R2 in *.
  destruct (a st (mkIn o (y ++ 10 :: rest))) as [s R], (a st (mkIn o (y ++ 10 :: rest'))) as [s' R']. cbn in *. subst. destruct H as [-> _]. auto.
Qed.
Lemma fails_map {A B C D} L n (f : A -> C) (g : B -> D) (p : parser A) (p' : parser B) :
  fails_like L n p p' -> fails_like L n (map_p f p) (map_p g p').
Proof.
  intros H rest rest' st o y Hl HL Hn. destruct (H rest rest' st o y Hl HL Hn) as [A1 [A2 A3]]. unfold map_p.
  destruct (p st _) as [s R], (p' st _) as [s' R']. cbn in *. subst. auto.
Qed.
Lemma fails_with_scope {A B C D} L n (f : A -> nat -> C) (g : B -> nat -> D) (p : parser A) (p' : parser B) :
  fails_like L n p p' -> fails_like L n (with_scope p f) (with_scope p' g).
Proof.
  intros H rest rest' st o y Hl HL Hn. destruct (H rest rest' st o y Hl HL Hn) as [A1 [A2 A3]]. unfold with_scope.
  destruct (p st _) as [s R], (p' st _) as [s' R']. cbn in *. subst. auto.
Qed.

Lemma map_err {A B} (f : A -> B) (p : parser A) st i : snd (map_p f p st i) = Err -> snd (p st i) = Err.
Proof. unfold map_p. destruct (p st i) as [s [v r| |a]]; cbn; congruence. Qed.
Lemma simple_lead y : simple_line y -> lead y. Proof. intros [H _]. exact H. Qed.
Lemma head_of_simple {A} (a : parser A) : In (map_p (fun _ => tt) a) block_heads ->
  forall y, simple_line y -> forall st o rest, snd (a st (mkIn o (y ++ 10 :: rest))) = Err.
Proof. intros Hin y [_ Hf] st o rest. apply (map_err (fun _ => tt)). apply Hf. assumption. Qed.

Lemma head2_fails {A B C D} (L : text -> Prop) n (x : parser A) (yp : parser B) (z : parser C) (z' : parser D) :
  local2 L n x x -> local2 anyL n yp yp ->
  (forall y, L y -> forall st o rest, snd (pair_p x yp st (mkIn o (y ++ 10 :: rest))) = Err) ->
  fails_like L n (pair_p x (pair_p yp z)) (pair_p x (pair_p yp z')).
Proof.
  intros Hx Hy Hf rest rest' st o y Hl HL Hn. pose proof (Hx rest rest' st o y Hl HL Hn) as H.
  pose proof (Hf y HL st o rest) as F1. pose proof (Hf y HL st o rest') as F2.
  unfold pair_p in F1, F2 |- *. unfold R2 in H.
  destruct (x st (mkIn o (y ++ 10 :: rest))) as [s [v r| |a]], (x st (mkIn o (y ++ 10 :: rest'))) as [s' [v' r'| |a']];
    cbn in H; destruct H as [Hs H]; try contradiction; subst; cbn in F1, F2; try discriminate; auto.
  destruct H as [-> [Ho [y2 [Hsf [Hr Hr']]]]].
  pose proof (Hy rest rest' s' (off r) y2 (lineb_sfx _ _ Hsf Hl) I) as H2.
  assert (Hlen : (length y2 <= n)%nat) by (apply sfx_length in Hsf; lia). specialize (H2 Hlen).
  rewrite (input_eta r) in F1 |- *. rewrite (input_eta r') in F2 |- *. rewrite Hr in F1 |- *. rewrite Hr' in F2 |- *. rewrite <- Ho in F2 |- *.
  unfold R2 in H2.
  destruct (yp s' (mkIn (off r) (y2 ++ 10 :: rest))) as [t [w u| |b]], (yp s' (mkIn (off r) (y2 ++ 10 :: rest'))) as [t' [w' u'| |b']];
    cbn in H2; destruct H2 as [Ht H2]; try contradiction; subst; cbn in F1, F2; try discriminate; auto.
Qed.

Section Forms.
  Variables (n : nat) (ps ps' : parser token).

  Lemma simple_head {A} w (a : parser A) : local a -> local2 simple_line n (wr w a) (wr w a).
  Proof. intros Ha. eapply local2_weaken; [apply head_local2, Ha|]. apply simple_lead. Qed.

  Lemma block_fails : fails_like simple_line n (block ps) (block ps').
  Proof.
    unfold block. apply fails_map. apply head_fails; [apply simple_head, char_local; discriminate|].
    apply head_of_simple. cbn. auto.
  Qed.
  Lemma braces_fails : fails_like simple_line n (braces ps) (braces ps').
  Proof. unfold braces. apply fails_with_scope. apply block_fails. Qed.
  Lemma label_fails : fails_like simple_line n (label ps) (label ps').
  Proof.
    unfold label. apply fails_map. apply head2_fails.
    - apply simple_head, identifier_name_local.
    - apply wr_local2_inner; [not_mws|apply char_local; discriminate].
    - apply head_of_simple. cbn. auto.
  Qed.
  Lemma config_definition_fails : fails_like simple_line n config_definition config_definition.
  Proof.
    unfold config_definition. apply fails_map. apply head_fails; [apply simple_head, keyword_local; reflexivity|].
    apply head_of_simple. cbn. auto.
  Qed.
  Lemma macro_definition_fails : fails_like simple_line n (macro_definition ps) (macro_definition ps').
  Proof.
    unfold macro_definition. apply fails_map. apply head_fails; [apply simple_head, keyword_local; reflexivity|].
    apply head_of_simple. cbn. auto 10.
  Qed.
  Lemma segment_fails : fails_like simple_line n (segment ps) (segment ps').
  Proof.
    unfold segment. apply fails_map. apply head_fails; [apply simple_head, keyword_local; reflexivity|].
    apply head_of_simple. cbn. auto 10.
  Qed.
  Lemma loop_fails : fails_like simple_line n (loop_ ps) (loop_ ps').
  Proof.
    unfold loop_. apply fails_with_scope. apply head_fails; [apply simple_head, keyword_local; reflexivity|].
    apply head_of_simple. cbn. auto 10.
  Qed.
  Lemma if_fails : fails_like simple_line n (if_ ps) (if_ ps').
  Proof.
    unfold if_. apply fails_map. apply head_fails; [apply simple_head, keyword_local; reflexivity|].
    apply head_of_simple. cbn. auto 10.
  Qed.
  Lemma import_fails : fails_like simple_line n (import ps) (import ps').
  Proof.
    unfold import. apply fails_with_scope. apply head_fails; [apply simple_head, keyword_local; reflexivity|].
    apply head_of_simple. cbn. auto 12.
  Qed.
  Lemma test_fails : fails_like simple_line n (test ps) (test ps').
  Proof.
    unfold test. apply fails_map. apply head_fails; [apply simple_head, keyword_local; reflexivity|].
    apply head_of_simple. cbn. auto 12.
  Qed.

  Lemma statement_body_local2 : local2 simple_line n (statement_body ps) (statement_body ps').
  Proof.
    unfold statement_body. apply alts_map_local2. intros k _.
    assert (W : forall p p' : parser token, local2 lead n p p' -> local2 simple_line n p p').
    { intros p p' H. eapply local2_weaken; [exact H|apply simple_lead]. }
    destruct k; cbn [stmt_parser].
    - apply fails_local2, braces_fails.
    - apply fails_local2, label_fails.
    - apply W, instruction_local.
    - apply W, varconst_impl_local. reflexivity.
    - apply W, varconst_impl_local. reflexivity.
    - apply W, pc_definition_local.
    - apply fails_local2, config_definition_fails.
    - apply fails_local2, macro_definition_fails.
    - apply W, macro_invocation_local.
    - apply W, data_local.
    - apply fails_local2, segment_fails.
    - apply fails_local2, loop_fails.
    - apply fails_local2, if_fails.
    - apply W, align_local.
    - apply fails_local2, import_fails.
    - apply W, text_local.
    - apply W, file_local.
    - apply fails_local2, test_fails.
    - apply W, assert_local.
    - apply W, trace_local.
  Qed.
End Forms.

(* ---------------------------------------------------------------- the statement parser on a simple line *)
(* For a line y without LF/CR/block-comment opener whose first non-blank character does not start a line comment and
   which is not the head of a block-bearing form: `statement` reads nothing beyond the LF.  State, result, value
   (spans included) and consumed part are the same for every continuation of the file. *)
Theorem statement_line_local : forall y, lineb y = true -> simple_line y ->
  forall rest rest' st o, R2 y rest rest' (statement st (mkIn o (y ++ 10 :: rest))) (statement st (mkIn o (y ++ 10 :: rest'))).
Proof.
  intros y Hl Hs rest rest' st o. unfold statement. cbn [rem statement_fuel].
  apply (statement_body_local2 (length y)); auto.
Qed.

(* the form asked for by C01: compared with the line standing alone *)
Theorem newline_local : forall y rest st o st1 v r, lineb y = true -> simple_line y ->
  statement st (mkIn o (y ++ [10])) = (st1, Ok v r) ->
  exists r', statement st (mkIn o (y ++ 10 :: rest)) = (st1, Ok v r') /\ off r' = off r /\
             exists y2, sfx y2 y /\ rem r = y2 ++ [10] /\ rem r' = y2 ++ 10 :: rest.
Proof.
  intros y rest st o st1 v r Hl Hs E. pose proof (statement_line_local y Hl Hs [] rest st o) as H. unfold R2 in H. rewrite E in H.
  destruct (statement st (mkIn o (y ++ 10 :: rest))) as [s' [v' r'| |a]]; cbn in H; destruct H as [Hst H]; try contradiction.
  destruct H as [-> [Ho [y2 [Hsf [Hr Hr']]]]]. subst. exists r'. split; [reflexivity|]. split; [auto|]. exists y2. auto.
Qed.
(* ... and failure / abort of the statement parser on the line is the same as well (the error token is then produced by `error`) *)
Theorem newline_local_err : forall y rest st o st1, lineb y = true -> simple_line y ->
  statement st (mkIn o (y ++ [10])) = (st1, Err) -> statement st (mkIn o (y ++ 10 :: rest)) = (st1, Err).
Proof.
  intros y rest st o st1 Hl Hs E. pose proof (statement_line_local y Hl Hs [] rest st o) as H. unfold R2 in H. rewrite E in H.
  destruct (statement st (mkIn o (y ++ 10 :: rest))) as [s' [v' r'| |a]]; cbn in H; destruct H as [Hst H]; try contradiction. subst. reflexivity.
Qed.

(* ---------------------------------------------------------------- decidable sufficient conditions for `simple_line` *)
Definition kw_match (k s : text) : bool :=
  match take_bytes s (length k) with
  | BExact a b => ci_eqb a k && negb (word_tag k && starts_ident b)
  | _ => false
  end.
Lemma tag_no_case_err k st i : kw_match k (rem i) = false -> snd (tag_no_case k st i) = Err.
Proof.
  unfold kw_match, tag_no_case. destruct (take_bytes (rem i) (length k)) as [a b| |]; auto. intros ->. reflexivity.
Qed.
Lemma starts_ident_line0 b rest : starts_ident (b ++ 10 :: rest) = starts_ident b.
Proof. destruct b; reflexivity. Qed.
Lemma kw_match_line k y rest : no10 k = true -> kw_match k (y ++ 10 :: rest) = kw_match k y.
Proof.
  intros Hk. unfold kw_match. pose proof (take_bytes_line y (length k) rest) as H.
  destruct (take_bytes y (length k)) as [a b| |].
  - rewrite H, starts_ident_line0. reflexivity.
  - destruct (take_bytes (y ++ 10 :: rest) (length k)) as [a b| |]; auto. rewrite (ci_eqb_in10 a k H Hk). reflexivity.
  - rewrite H. reflexivity.
Qed.

Lemma mws_err {A} (q : parser A) y : lineb y = true -> lead y ->
  (forall st o rest, snd (q st (mkIn o (snd (take_while is_space y) ++ 10 :: rest))) = Err) ->
  forall st o rest, snd (mws q st (mkIn o (y ++ 10 :: rest))) = Err.
Proof.
  intros Hl HL Hq st o rest. destruct (opt_multiline_on_lead y Hl HL) as [tf Ho]. unfold mws, with_trivia. rewrite Ho.
  specialize (Hq st (o + blen (fst (take_while is_space y))) rest). destruct (q st _) as [s [v r| |a]]; cbn in *; congruence.
Qed.
Lemma map_err_intro {A B} (f : A -> B) (p : parser A) st i : snd (p st i) = Err -> snd (map_p f p st i) = Err.
Proof. unfold map_p. destruct (p st i) as [s [v r| |a]]; cbn; congruence. Qed.
Lemma pair_err_first {A B} (p : parser A) (q : parser B) st i : snd (p st i) = Err -> snd (pair_p p q st i) = Err.
Proof. unfold pair_p. destruct (p st i) as [s [v r| |a]]; cbn; congruence. Qed.
Lemma char_err c st o x z : x <> c -> snd (char_p c st (mkIn o (x :: z))) = Err.
Proof. intros H. unfold char_p, satisfy. cbn. destruct (c =? x) eqn:E; [apply N.eqb_eq in E; congruence|reflexivity]. Qed.
Lemma identifier_name_err st o c z : is_alpha c = false -> c <> 95 -> snd (identifier_name st (mkIn o (c :: z))) = Err.
Proof.
  intros Ha Hu. unfold identifier_name, recognize, pair_p, alt, alpha1, take_while1_p, tag, t_underscore. cbn [rem take_while is_prefix].
  rewrite Ha. assert (E : (c =? 95) = false) by (apply N.eqb_neq; assumption). rewrite E. reflexivity.
Qed.

Definition block_keywords : list text :=
  map fst [kw kw_config_definition 0; kw kw_macro_definition 0; kw kw_segment 0; kw kw_loop_ 0; kw kw_if_ 0; kw kw_import 0; kw kw_test 0].

(* (a) the first non-blank character cannot start an identifier and is not `{`, and none of the block keywords is there:
       directive lines such as `.byte 1, 2`, `* = $1000`, `.const a = 1` *)
Definition nonword_line_ok (y2 : text) : bool :=
  match y2 with
  | c :: _ => negb (is_alpha c) && negb (c =? 95) && negb (c =? 123)
  | [] => false
  end && forallb (fun k => negb (kw_match k y2)) block_keywords.

Lemma keyword_head_err k y : lineb y = true -> lead y -> no10 k = true -> kw_match k (snd (take_while is_space y)) = false ->
  forall st o rest, snd (map_p (fun _ => tt) (mws (keyword_p (k, k))) st (mkIn o (y ++ 10 :: rest))) = Err.
Proof.
  intros Hl HL Hk Hm st o rest. apply map_err_intro. apply mws_err; auto. intros st1 o1 rest1.
  unfold keyword_p. apply map_err_intro. apply tag_no_case_err. cbn [rem fst]. rewrite kw_match_line by assumption. assumption.
Qed.

Lemma block_heads_fail_nonword y : lineb y = true -> lead y -> nonword_line_ok (snd (take_while is_space y)) = true -> block_heads_fail y.
Proof.
  intros Hl HL Hok. unfold nonword_line_ok in Hok. apply andb_true_iff in Hok. destruct Hok as [Hc Hk].
  destruct (snd (take_while is_space y)) as [|c r] eqn:Ey2; [discriminate|].
  apply andb_true_iff in Hc. destruct Hc as [Hc H123]. apply andb_true_iff in Hc. destruct Hc as [Ha H95].
  apply negb_true_iff in Ha, H95, H123. apply N.eqb_neq in H95, H123.
  assert (Hkw : forall k, In k block_keywords -> kw_match k (c :: r) = false).
  { intros k Hin. rewrite forallb_forall in Hk. apply negb_true_iff. apply Hk. assumption. }
  intros h Hin st o rest. cbn in Hin.
  destruct Hin as [<-|[<-|[<-|[<-|[<-|[<-|[<-|[<-|[<-|[]]]]]]]]]].
  - apply map_err_intro. change (slot W_block 0) with W_mws. cbn [wr]. apply mws_err; auto. intros. rewrite Ey2. apply char_err. assumption.
  - apply map_err_intro. apply pair_err_first. change (slot W_label 0) with W_mws. cbn [wr]. apply mws_err; auto. intros. rewrite Ey2.
    apply identifier_name_err; assumption.
  - change (slot W_config_definition 0) with W_mws. cbn [wr]. apply (keyword_head_err _ y Hl HL); [reflexivity|]. rewrite Ey2. apply Hkw. cbn. auto.
  - change (slot W_macro_definition 0) with W_mws. cbn [wr]. apply (keyword_head_err _ y Hl HL); [reflexivity|]. rewrite Ey2. apply Hkw. cbn. auto.
  - change (slot W_segment 0) with W_mws. cbn [wr]. apply (keyword_head_err _ y Hl HL); [reflexivity|]. rewrite Ey2. apply Hkw. cbn. auto.
  - change (slot W_loop_ 0) with W_mws. cbn [wr]. apply (keyword_head_err _ y Hl HL); [reflexivity|]. rewrite Ey2. apply Hkw. cbn. auto.
  - change (slot W_if_ 0) with W_mws. cbn [wr]. apply (keyword_head_err _ y Hl HL); [reflexivity|]. rewrite Ey2. apply Hkw. cbn. auto 6.
  - change (slot W_import 1) with W_mws. cbn [wr]. apply (keyword_head_err _ y Hl HL); [reflexivity|]. rewrite Ey2. apply Hkw. cbn. auto 7.
  - change (slot W_test 0) with W_mws. cbn [wr]. apply (keyword_head_err _ y Hl HL); [reflexivity|]. rewrite Ey2. apply Hkw. cbn. auto 8.
Qed.

(* (b) the line starts with a word (instruction, macro invocation ...): only the label head has to be excluded *)
Definition label_head_fails (y : text) : Prop :=
  forall st o rest, snd (pair_p (wr (slot W_label 0) identifier_name) (wr (slot W_label 1) (char_p 58)) st (mkIn o (y ++ 10 :: rest))) = Err.
Lemma kw_match_dot k' c z : (is_alpha c || (c =? 95)) = true -> kw_match (46 :: k') (c :: z) = false.
Proof.
  intros Hc. unfold kw_match. cbn [length take_bytes].
  assert (Hw : width_utf8 c = 1%nat).
  { unfold width_utf8. assert (c < 128).
    { apply orb_true_iff in Hc. destruct Hc as [Hc|Hc].
      - unfold is_alpha in Hc. apply orb_true_iff in Hc. destruct Hc as [Hc|Hc]; apply andb_true_iff in Hc; destruct Hc as [_ Hc]; apply N.leb_le in Hc; lia.
      - apply N.eqb_eq in Hc. lia. }
    apply N.ltb_lt in H. rewrite H. reflexivity. }
  rewrite Hw. cbn [Nat.leb]. destruct (take_bytes z (S (length k') - 1)) as [a b| |]; auto.
  cbn [ci_eqb]. assert (E : (ascii_lower c =? ascii_lower 46) = false).
  { apply N.eqb_neq. change (ascii_lower 46) with 46. intros E. unfold ascii_lower in E.
    apply orb_true_iff in Hc. destruct Hc as [Hc|Hc].
    - unfold is_alpha in Hc. destruct ((65 <=? c) && (c <=? 90)) eqn:E1.
      + apply andb_true_iff in E1. destruct E1 as [A B]. apply N.leb_le in A. lia.
      + cbn in Hc. apply andb_true_iff in Hc. destruct Hc as [A B]. apply N.leb_le in A. lia.
    - apply N.eqb_eq in Hc. subst. cbn in E. discriminate. }
  rewrite E. reflexivity.
Qed.
Lemma block_heads_fail_word y : lineb y = true -> lead y ->
  match snd (take_while is_space y) with c :: _ => is_alpha c || (c =? 95) | [] => false end = true ->
  label_head_fails y -> block_heads_fail y.
Proof.
  intros Hl HL Hc Hlab. destruct (snd (take_while is_space y)) as [|c r] eqn:Ey2; [discriminate|].
  assert (H123 : c <> 123).
  { intros ->. cbn in Hc. discriminate. }
  intros h Hin st o rest. cbn in Hin.
  destruct Hin as [<-|[<-|[<-|[<-|[<-|[<-|[<-|[<-|[<-|[]]]]]]]]]].
  - apply map_err_intro. change (slot W_block 0) with W_mws. cbn [wr]. apply mws_err; auto. intros. rewrite Ey2. apply char_err. assumption.
  - apply map_err_intro. apply Hlab.
  - change (slot W_config_definition 0) with W_mws. cbn [wr]. apply (keyword_head_err _ y Hl HL); [reflexivity|]. rewrite Ey2. apply kw_match_dot. assumption.
  - change (slot W_macro_definition 0) with W_mws. cbn [wr]. apply (keyword_head_err _ y Hl HL); [reflexivity|]. rewrite Ey2. apply kw_match_dot. assumption.
  - change (slot W_segment 0) with W_mws. cbn [wr]. apply (keyword_head_err _ y Hl HL); [reflexivity|]. rewrite Ey2. apply kw_match_dot. assumption.
  - change (slot W_loop_ 0) with W_mws. cbn [wr]. apply (keyword_head_err _ y Hl HL); [reflexivity|]. rewrite Ey2. apply kw_match_dot. assumption.
  - change (slot W_if_ 0) with W_mws. cbn [wr]. apply (keyword_head_err _ y Hl HL); [reflexivity|]. rewrite Ey2. apply kw_match_dot. assumption.
  - change (slot W_import 1) with W_mws. cbn [wr]. apply (keyword_head_err _ y Hl HL); [reflexivity|]. rewrite Ey2. apply kw_match_dot. assumption.
  - change (slot W_test 0) with W_mws. cbn [wr]. apply (keyword_head_err _ y Hl HL); [reflexivity|]. rewrite Ey2. apply kw_match_dot. assumption.
Qed.

(* non-vacuity: `  .byte 1, 2 // c` is a simple line *)
Example simple_line_example : let y := [32; 32; 46; 98; 121; 116; 101; 32; 49; 44; 32; 50; 32; 47; 47; 32; 99] in
  lineb y = true /\ simple_line y.
Proof.
  cbv zeta. split; [reflexivity|]. split; [cbn; reflexivity|].
  apply block_heads_fail_nonword; [reflexivity|cbn; reflexivity|vm_compute; reflexivity].
Qed.
Print Assumptions statement_line_local.
Print Assumptions newline_local.

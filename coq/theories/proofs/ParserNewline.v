(* Neighbour independence at the text level (for C01): a parser applied to  y ++ LF :: rest  where the line y has no
   LF, CR or block-comment opener does not look past the LF -- state, result and consumed part are the same for every
   `rest` -- as long as it is built from ws-/located-wrapped terminals.  Proved compositionally: `local2 L n p p'` is
   preserved by map / pair / alt / opt / not / recognize / many0 / many1 / separated_list1 / expect / located / ws and
   holds for every terminal.  An mws-wrapped terminal is local only on a line whose first non-blank character starts
   neither a line comment nor the end of the line (`lead`); an mws terminal INSIDE a statement form (blocks, `else`,
   `from`, config maps) is where the next line can be drawn into the statement -- those forms are enumerated below. *)
From Coq Require Import List NArith Bool Arith Lia.
Import ListNotations.
From Mos Require Import model.Utf model.Nom Gen.ParserTables model.Parser model.Display spec.Lossless
  proofs.NomProofs proofs.TriviaProofs proofs.ParserProofs.
From Mos Require Gen.BinOps Gen.ExprGrammar.
Open Scope N_scope.

(* ---------------------------------------------------------------- lines *)
Definition is_eolb (c : N) : bool := (c =? 10) || (c =? 13).
Fixpoint has_open (y : text) : bool :=
  match y with
  | [] => false
  | c :: r => (match r with d :: _ => (c =? 47) && (d =? 42) | [] => false end) || has_open r
  end.
(* no line end and no block-comment opener *)
Definition lineb (y : text) : bool := forallb (fun c => negb (is_eolb c)) y && negb (has_open y).

Definition sfx (y2 y : text) : Prop := exists pre, y = pre ++ y2.
Lemma sfx_refl y : sfx y y. Proof. exists []. reflexivity. Qed.
Lemma sfx_trans a b c : sfx a b -> sfx b c -> sfx a c.
Proof. intros [p1 ->] [p2 ->]. exists (p2 ++ p1). rewrite app_assoc. reflexivity. Qed.
Lemma sfx_length a b : sfx a b -> (length a <= length b)%nat.
Proof. intros [p ->]. rewrite app_length. lia. Qed.
Lemma sfx_app a b : sfx b (a ++ b). Proof. exists a. reflexivity. Qed.

Lemma has_open_app_r a b : has_open (a ++ b) = false -> has_open b = false.
Proof.
  induction a as [|c a IH]; cbn [app]; [auto|]. intros H. cbn [has_open] in H. apply orb_false_iff in H. apply IH, H.
Qed.
Lemma lineb_sfx y2 y : sfx y2 y -> lineb y = true -> lineb y2 = true.
Proof.
  intros [p ->] H. unfold lineb in *. apply andb_true_iff in H. destruct H as [H1 H2].
  rewrite forallb_app in H1. apply andb_true_iff in H1. destruct H1 as [_ H1]. rewrite H1. cbn.
  apply negb_true_iff in H2. apply has_open_app_r in H2. rewrite H2. reflexivity.
Qed.
Lemma lineb_head c y : lineb (c :: y) = true -> c <> 10 /\ c <> 13.
Proof.
  unfold lineb. cbn. intros H. apply andb_true_iff in H. destruct H as [H _]. apply andb_true_iff in H. destruct H as [H _].
  apply negb_true_iff in H. unfold is_eolb in H. apply orb_false_iff in H. destruct H as [A B]. apply N.eqb_neq in A, B. auto.
Qed.
Lemma lineb_no_open c d y : lineb (c :: d :: y) = true -> (c =? 47) && (d =? 42) = false.
Proof.
  unfold lineb. intros H. apply andb_true_iff in H. destruct H as [_ H]. apply negb_true_iff in H. cbn [has_open] in H.
  apply orb_false_iff in H. apply H.
Qed.

(* ---------------------------------------------------------------- the relation between the two runs *)
Definition R2 {A} (y rest rest' : text) (X X' : pstate * result A) : Prop :=
  fst X = fst X' /\
  match snd X, snd X' with
  | Ok v r, Ok v' r' =>
      v = v' /\ off r = off r' /\ exists y2, sfx y2 y /\ rem r = y2 ++ 10 :: rest /\ rem r' = y2 ++ 10 :: rest'
  | Err, Err => True
  | Abort a, Abort a' => a = a'
  | _, _ => False
  end.
Definition local2 {A} (L : text -> Prop) (n : nat) (p p' : parser A) : Prop :=
  forall rest rest' st o y, lineb y = true -> L y -> (length y <= n)%nat ->
    R2 y rest rest' (p st (mkIn o (y ++ 10 :: rest))) (p' st (mkIn o (y ++ 10 :: rest'))).
Definition anyL : text -> Prop := fun _ => True.
Definition local {A} (p : parser A) : Prop := forall n, local2 anyL n p p.

Lemma local2_le {A} L n m (p p' : parser A) : local2 L n p p' -> (m <= n)%nat -> local2 L m p p'.
Proof. intros H Hm rest rest' st o y Hl HL Hn. apply H; auto. lia. Qed.
Lemma local2_weaken {A} (L L' : text -> Prop) n (p p' : parser A) : local2 L n p p' -> (forall y, L' y -> L y) -> local2 L' n p p'.
Proof. intros H HL rest rest' st o y Hl HL' Hn. apply H; auto. Qed.
Lemma local_any {A} L n (p : parser A) : local p -> local2 L n p p.
Proof. intros H. eapply local2_weaken; [apply H|]. intros; exact I. Qed.

(* applying the second parser to the related remainders *)
Lemma input_eta (r : input) : r = mkIn (off r) (rem r). Proof. destruct r; reflexivity. Qed.

Ltac r2_run H rest rest' st o y :=
  let X := fresh "X" in
  pose proof (H rest rest' st o y) as X.

(* a parser that consumes at least one character when it succeeds *)
Definition consumes {A} (p : parser A) : Prop :=
  forall st i st' v r, p st i = (st', Ok v r) -> (length (rem r) < length (rem i))%nat.
Lemma consumes_of_sound {A} (sa : A -> list atom) (p : parser A) :
  sound anyP sa p -> (forall st i st' v r, p st i = (st', Ok v r) -> exact (sa v) <> []) -> consumes p.
Proof.
  intros Hp Hn st i st' v r E. destruct (Hp _ _ _ _ E) as [_ [H1 _]]. destruct (H1 I) as [E1 _].
  specialize (Hn _ _ _ _ _ E). rewrite E1, app_length. destruct (exact (sa v)); [congruence|]. cbn. lia.
Qed.

(* ---------------------------------------------------------------- combinators *)
Lemma map_local2 {A B} L n (f : A -> B) (p p' : parser A) : local2 L n p p' -> local2 L n (map_p f p) (map_p f p').
Proof.
  intros H rest rest' st o y Hl HL Hn. specialize (H rest rest' st o y Hl HL Hn). unfold map_p, R2 in *.
  destruct (p st _) as [s [v r| |a]], (p' st _) as [s' [v' r'| |a']]; cbn in *; destruct H as [Hs H]; try contradiction; split; auto.
  destruct H as [-> H]. split; [reflexivity|exact H].
Qed.

Lemma pair_local2_gen {A B} L n (p p' : parser A) (q q' : parser B) :
  local2 L n p p' ->
  (forall rest rest' st o y y2 v r s0, lineb y = true -> L y -> (length y <= n)%nat -> sfx y2 y ->
      p st (mkIn o (y ++ 10 :: rest)) = (s0, Ok v r) -> rem r = y2 ++ 10 :: rest ->
      forall s1 o1, R2 y2 rest rest' (q s1 (mkIn o1 (y2 ++ 10 :: rest))) (q' s1 (mkIn o1 (y2 ++ 10 :: rest')))) ->
  local2 L n (pair_p p q) (pair_p p' q').
Proof.
  intros Hp Hq rest rest' st o y Hl HL Hn. pose proof (Hp rest rest' st o y Hl HL Hn) as H. unfold pair_p. unfold R2 in H.
  destruct (p st (mkIn o (y ++ 10 :: rest))) as [s [v r| |a]] eqn:E1, (p' st (mkIn o (y ++ 10 :: rest'))) as [s' [v' r'| |a']] eqn:E2;
    cbn in H; destruct H as [Hs H]; try contradiction; subst; try (split; cbn; auto; fail).
  destruct H as [-> [Ho [y2 [Hsf [Hr Hr']]]]].
  specialize (Hq rest rest' st o y y2 v' r s' Hl HL Hn Hsf E1 Hr s' (off r)).
  rewrite (input_eta r), (input_eta r'), Hr, Hr', <- Ho. unfold R2 in Hq |- *.
  destruct (q s' (mkIn (off r) (y2 ++ 10 :: rest))) as [t [w u| |b]], (q' s' (mkIn (off r) (y2 ++ 10 :: rest'))) as [t' [w' u'| |b']];
    cbn in *; destruct Hq as [Ht Hq]; try contradiction; subst; split; auto.
  destruct Hq as [-> [Ho2 [y3 [Hsf3 [Hu Hu']]]]]. split; [reflexivity|]. split; [assumption|].
  exists y3. split; [eapply sfx_trans; eassumption|]. split; assumption.
Qed.

Lemma pair_local2 {A B} L n (p p' : parser A) (q q' : parser B) :
  local2 L n p p' -> local2 anyL n q q' -> local2 L n (pair_p p q) (pair_p p' q').
Proof.
  intros Hp Hq. apply pair_local2_gen; [assumption|].
  intros rest rest' st o y y2 v r s0 Hl HL Hn Hsf _ _ s1 o1. apply Hq; [eapply lineb_sfx; eassumption|exact I|].
  apply sfx_length in Hsf. lia.
Qed.
(* after a consuming first component the second one only needs to be local on strictly shorter lines *)
Lemma pair_local2_rec {A B} L n (p p' : parser A) (q q' : parser B) :
  local2 L n p p' -> consumes p -> (forall m, (m < n)%nat -> local2 anyL m q q') -> local2 L n (pair_p p q) (pair_p p' q').
Proof.
  intros Hp Hc Hq. apply pair_local2_gen; [assumption|].
  intros rest rest' st o y y2 v r s0 Hl HL Hn Hsf E Hr s1 o1.
  apply Hc in E. cbn [rem] in E. rewrite Hr, !app_length in E. cbn [length] in E.
  apply (Hq (length y2)); [lia|eapply lineb_sfx; eassumption|exact I|lia].
Qed.

Lemma alt_local2 {A} L n (p p' q q' : parser A) : local2 L n p p' -> local2 L n q q' -> local2 L n (alt p q) (alt p' q').
Proof.
  intros Hp Hq rest rest' st o y Hl HL Hn. pose proof (Hp rest rest' st o y Hl HL Hn) as H. unfold alt, R2 in *.
  destruct (p st _) as [s [v r| |a]], (p' st _) as [s' [v' r'| |a']]; cbn in *; destruct H as [Hs H]; try contradiction; subst; try (split; auto; fail).
  apply Hq; assumption.
Qed.
Lemma fail_local2 {A} L n : local2 L n (fun st _ => (st, @Err A)) (fun st _ => (st, Err)).
Proof. intros rest rest' st o y _ _ _. split; cbn; auto. Qed.
Lemma alts_map_local2 {A E} L n (g g' : E -> parser A) (table : list E) :
  (forall e, In e table -> local2 L n (g e) (g' e)) -> local2 L n (alts (map g table)) (alts (map g' table)).
Proof.
  induction table as [|e t IH]; intros H; cbn [map alts]; [apply fail_local2|].
  apply alt_local2; [apply H; left; reflexivity|apply IH; intros; apply H; right; assumption].
Qed.

Lemma opt_local2 {A} L n (p p' : parser A) : local2 L n p p' -> local2 L n (opt p) (opt p').
Proof.
  intros Hp rest rest' st o y Hl HL Hn. pose proof (Hp rest rest' st o y Hl HL Hn) as H. unfold opt, R2 in *.
  destruct (p st _) as [s [v r| |a]], (p' st _) as [s' [v' r'| |a']]; cbn in *; destruct H as [Hs H]; try contradiction; subst; split; auto.
  - destruct H as [-> H]. split; [reflexivity|exact H].
  - split; [reflexivity|]. split; [reflexivity|]. exists y. split; [apply sfx_refl|split; reflexivity].
Qed.
Lemma not_local2 {A} L n (p p' : parser A) : local2 L n p p' -> local2 L n (not_p p) (not_p p').
Proof.
  intros Hp rest rest' st o y Hl HL Hn. pose proof (Hp rest rest' st o y Hl HL Hn) as H. unfold not_p, R2 in *.
  destruct (p st _) as [s [v r| |a]], (p' st _) as [s' [v' r'| |a']]; cbn in *; destruct H as [Hs H]; try contradiction; subst; split; auto.
  split; [reflexivity|]. split; [reflexivity|]. exists y. split; [apply sfx_refl|split; reflexivity].
Qed.
Lemma expect_local2 {A} L n (p p' : parser A) m : local2 L n p p' -> local2 L n (expect p m) (expect p' m).
Proof.
  intros Hp rest rest' st o y Hl HL Hn. pose proof (Hp rest rest' st o y Hl HL Hn) as H. unfold expect, R2 in *.
  destruct (p st _) as [s [v r| |a]], (p' st _) as [s' [v' r'| |a']]; cbn in *; destruct H as [Hs H]; try contradiction; subst; try (split; auto; fail).
  - destruct H as [-> H]. split; [reflexivity|]. split; [reflexivity|exact H].
  - destruct m; cbn; (split; [reflexivity|]); (split; [reflexivity|]); (split; [reflexivity|]);
      exists y; (split; [apply sfx_refl|split; reflexivity]).
Qed.
Lemma located_local2 {A} L n (p p' : parser A) : local2 L n p p' -> local2 L n (located_p p) (located_p p').
Proof.
  intros Hp rest rest' st o y Hl HL Hn. pose proof (Hp rest rest' st o y Hl HL Hn) as H. unfold located_p, R2 in *.
  destruct (p st _) as [s [v r| |a]], (p' st _) as [s' [v' r'| |a']]; cbn in *; destruct H as [Hs H]; try contradiction; subst; split; auto.
  destruct H as [-> [Ho H]]. rewrite Ho. split; [reflexivity|]. split; [reflexivity|exact H].
Qed.
Lemma with_scope_local2 {A B} L n (p p' : parser A) (f : A -> nat -> B) : local2 L n p p' -> local2 L n (with_scope p f) (with_scope p' f).
Proof.
  intros Hp rest rest' st o y Hl HL Hn. pose proof (Hp rest rest' st o y Hl HL Hn) as H. unfold with_scope, R2 in *.
  destruct (p st _) as [s [v r| |a]], (p' st _) as [s' [v' r'| |a']]; cbn in *; destruct H as [Hs H]; try contradiction; subst; split; auto.
  destruct H as [-> H]. split; [reflexivity|exact H].
Qed.

Lemma firstn_line {T} (y2 pre z : list T) k : k = length pre -> firstn k ((pre ++ y2) ++ z) = pre.
Proof. intros ->. rewrite <- app_assoc. apply firstn_app_exact. Qed.
Lemma recognize_local2 {A} L n (p p' : parser A) : local2 L n p p' -> local2 L n (recognize p) (recognize p').
Proof.
  intros Hp rest rest' st o y Hl HL Hn. pose proof (Hp rest rest' st o y Hl HL Hn) as H. unfold recognize, R2 in *.
  destruct (p st _) as [s [v r| |a]], (p' st _) as [s' [v' r'| |a']]; cbn in *; destruct H as [Hs H]; try contradiction; subst; split; auto.
  destruct H as [_ [Ho [y2 [[pre ->] [Hr Hr']]]]]. rewrite Hr, Hr'. split; [|split; [assumption|exists y2; split; [apply sfx_app|split; reflexivity]]].
  rewrite !app_length. cbn [length]. rewrite ?app_length.
  replace (length pre + length y2 + S (length rest) - (length y2 + S (length rest)))%nat with (length pre) by lia.
  replace (length pre + length y2 + S (length rest') - (length y2 + S (length rest')))%nat with (length pre) by lia.
  rewrite !firstn_line by reflexivity. reflexivity.
Qed.

Lemma many0_aux_local2 {A} n (p p' : parser A) : local2 anyL n p p' ->
  forall f f' rest rest' st o y, lineb y = true -> (length y <= n)%nat -> (length y < f)%nat -> (length y < f')%nat ->
    R2 y rest rest' (many0_aux f p st (mkIn o (y ++ 10 :: rest))) (many0_aux f' p' st (mkIn o (y ++ 10 :: rest'))).
Proof.
  intros Hp f. induction f as [|g IH]; intros f' rest rest' st o y Hl Hn Hf Hf'; [lia|].
  destruct f' as [|g']; [lia|]. cbn [many0_aux]. pose proof (Hp rest rest' st o y Hl I Hn) as H. unfold R2 in H.
  destruct (p st (mkIn o (y ++ 10 :: rest))) as [s [v r| |a]], (p' st (mkIn o (y ++ 10 :: rest'))) as [s' [v' r'| |a']];
    cbn in H; destruct H as [Hs H]; try contradiction; subst.
  - destruct H as [-> [Ho [y2 [Hsf [Hr Hr']]]]]. cbn [rem]. rewrite Hr, Hr', !app_length. cbn [length].
    destruct (length y2 + S (length rest) =? length y + S (length rest))%nat eqn:E1.
    + apply Nat.eqb_eq in E1. assert (E2 : (length y2 + S (length rest') =? length y + S (length rest'))%nat = true) by (apply Nat.eqb_eq; lia).
      rewrite E2. split; cbn; auto.
    + apply Nat.eqb_neq in E1. assert (E2 : (length y2 + S (length rest') =? length y + S (length rest'))%nat = false) by (apply Nat.eqb_neq; lia).
      rewrite E2. pose proof (sfx_length _ _ Hsf) as Hlen.
      specialize (IH g' rest rest' s' (off r) y2 (lineb_sfx _ _ Hsf Hl)).
      rewrite (input_eta r), (input_eta r'), Hr, Hr', <- Ho.
      assert (Hx : R2 y2 rest rest' (many0_aux g p s' (mkIn (off r) (y2 ++ 10 :: rest))) (many0_aux g' p' s' (mkIn (off r) (y2 ++ 10 :: rest')))).
      { apply IH; lia. }
      unfold R2 in Hx |- *.
      destruct (many0_aux g p s' _) as [t [l u| |b]], (many0_aux g' p' s' _) as [t' [l' u'| |b']]; cbn in *; destruct Hx as [Ht Hx]; try contradiction; subst; split; auto.
      destruct Hx as [-> [Ho2 [y3 [Hsf3 [Hu Hu']]]]]. split; [reflexivity|]. split; [assumption|].
      exists y3. split; [eapply sfx_trans; eassumption|split; assumption].
  - split; cbn; auto. split; [reflexivity|]. split; [reflexivity|]. exists y. split; [apply sfx_refl|split; reflexivity].
  - split; cbn; auto.
Qed.
Lemma many0_local2 {A} L n (p p' : parser A) : local2 anyL n p p' -> local2 L n (many0 p) (many0 p').
Proof.
  intros Hp rest rest' st o y Hl _ Hn. unfold many0. cbn [rem]. apply (many0_aux_local2 n); auto; rewrite app_length; cbn [length]; lia.
Qed.
Lemma many1_local2 {A} L n (p p' : parser A) : local2 anyL n p p' -> local2 L n (many1 p) (many1 p').
Proof.
  intros Hp. unfold many1. apply map_local2. apply pair_local2; [eapply local2_weaken; [exact Hp|intros; exact I]|apply many0_local2; exact Hp].
Qed.
Lemma separated_list1_local2 {A B} L n (sep sep' : parser B) (f f' : parser A) :
  local2 anyL n f f' -> local2 anyL n sep sep' -> local2 L n (separated_list1 sep f) (separated_list1 sep' f').
Proof.
  intros Hf Hs. unfold separated_list1. apply map_local2. apply pair_local2; [eapply local2_weaken; [exact Hf|intros; exact I]|].
  apply many0_local2. apply pair_local2; assumption.
Qed.
Lemma with_trivia_local2 {A} L n (tp : parser ltrivia) (p p' : parser A) :
  local2 L n tp tp -> local2 anyL n p p' -> local2 L n (with_trivia tp p) (with_trivia tp p').
Proof.
  intros Ht Hp rest rest' st o y Hl HL Hn. unfold with_trivia.
  pose proof (opt_local2 L n tp tp Ht rest rest' st o y Hl HL Hn) as H. unfold R2 in H.
  destruct (opt tp st (mkIn o (y ++ 10 :: rest))) as [s [t r| |a]], (opt tp st (mkIn o (y ++ 10 :: rest'))) as [s' [t' r'| |a']];
    cbn in H; destruct H as [Hs H]; try contradiction; subst; try (split; cbn; auto; fail).
  destruct H as [-> [Ho [y2 [Hsf [Hr Hr']]]]].
  pose proof (Hp rest rest' s' (off r) y2 (lineb_sfx _ _ Hsf Hl) I) as Hq.
  rewrite (input_eta r), (input_eta r'), Hr, Hr', <- Ho. cbn [off].
  assert (Hlen : (length y2 <= n)%nat) by (apply sfx_length in Hsf; lia). specialize (Hq Hlen). unfold R2 in *.
  destruct (p s' _) as [t [w u| |b]], (p' s' _) as [t2 [w' u'| |b']]; cbn in *; destruct Hq as [Ht2 Hq]; try contradiction; subst; split; auto.
  destruct Hq as [-> [Ho2 [y3 [Hsf3 [Hu Hu']]]]]. rewrite Ho2. split; [reflexivity|]. split; [reflexivity|].
  exists y3. split; [eapply sfx_trans; eassumption|split; assumption].
Qed.

(* ---------------------------------------------------------------- terminals *)
Lemma take_while_line f y rest : f 10 = false ->
  take_while f (y ++ 10 :: rest) = (fst (take_while f y), snd (take_while f y) ++ 10 :: rest).
Proof.
  intros Hf. induction y as [|c y IH]; cbn [app take_while]; [rewrite Hf; reflexivity|].
  destruct (f c); [|reflexivity]. rewrite IH. destruct (take_while f y); reflexivity.
Qed.
Lemma take_while_sfx f y : sfx (snd (take_while f y)) y.
Proof. destruct (take_while f y) as [a b] eqn:E. apply take_while_app in E. subst. apply sfx_app. Qed.

Lemma take_while1_local f : f 10 = false -> local (take_while1_p f).
Proof.
  intros Hf n rest rest' st o y Hl _ _. unfold take_while1_p. cbn [rem]. rewrite !take_while_line by assumption.
  pose proof (take_while_sfx f y) as Hs. destruct (take_while f y) as [a b]. cbn [fst snd] in *.
  destruct a; split; cbn; auto. split; [reflexivity|]. split; [reflexivity|]. exists b. auto.
Qed.
Lemma take_while0_local f : f 10 = false -> local (take_while0_p f).
Proof.
  intros Hf n rest rest' st o y Hl _ _. unfold take_while0_p. cbn [rem]. rewrite !take_while_line by assumption.
  pose proof (take_while_sfx f y) as Hs. destruct (take_while f y) as [a b]. cbn [fst snd] in *.
  split; cbn; auto. split; [reflexivity|]. split; [reflexivity|]. exists b. auto.
Qed.
Lemma satisfy_local f : f 10 = false -> local (satisfy f).
Proof.
  intros Hf n rest rest' st o y Hl _ _. unfold satisfy. cbn [rem]. destruct y as [|c y]; cbn [app].
  - rewrite Hf. split; cbn; auto.
  - destruct (f c); split; cbn; auto. split; [reflexivity|]. split; [reflexivity|]. exists y. split; [exists [c]; reflexivity|auto].
Qed.
Lemma char_local c : c <> 10 -> local (char_p c).
Proof. intros H. apply satisfy_local. apply N.eqb_neq. assumption. Qed.
Lemma value_local {A} (v : A) : local (value_p v).
Proof.
  intros n rest rest' st o y _ _ _. unfold value_p. split; cbn; auto. split; [reflexivity|]. split; [reflexivity|].
  exists y. split; [apply sfx_refl|auto].
Qed.

Definition no10 (t : text) : bool := forallb (fun c => negb (c =? 10)) t.
Lemma is_prefix_line t : no10 t = true -> forall y rest, is_prefix t (y ++ 10 :: rest) = is_prefix t y.
Proof.
  induction t as [|x t IH]; intros Ht y rest; [destruct y; reflexivity|].
  cbn in Ht. apply andb_true_iff in Ht. destruct Ht as [Hx Ht]. destruct y as [|c y]; cbn [app is_prefix].
  - apply negb_true_iff in Hx. rewrite N.eqb_sym, Hx. reflexivity.
  - rewrite IH by assumption. reflexivity.
Qed.
Lemma is_prefix_length t : forall y, is_prefix t y = true -> (length t <= length y)%nat.
Proof.
  induction t as [|x t IH]; intros [|c y] H; cbn in *; try lia; try discriminate.
  apply andb_true_iff in H. destruct H as [_ H]. apply IH in H. lia.
Qed.
Lemma tag_local t : no10 t = true -> local (tag t).
Proof.
  intros Ht n rest rest' st o y Hl _ _. unfold tag. cbn [rem]. rewrite !is_prefix_line by assumption.
  destruct (is_prefix t y) eqn:E; [|split; cbn; auto]. apply is_prefix_length in E.
  rewrite !firstn_app, !skipn_app. replace (length t - length y)%nat with 0%nat by lia. cbn [firstn skipn]. rewrite !app_nil_r.
  split; cbn; auto. split; [reflexivity|]. split; [reflexivity|]. exists (skipn (length t) y).
  split; [exists (firstn (length t) y); symmetry; apply firstn_skipn|auto].
Qed.

Lemma take_bytes_line y : forall n rest,
  match take_bytes y n with
  | BExact a b => take_bytes (y ++ 10 :: rest) n = BExact a (b ++ 10 :: rest)
  | BInside => take_bytes (y ++ 10 :: rest) n = BInside
  | BShort => match take_bytes (y ++ 10 :: rest) n with BExact a _ => In 10 a | _ => True end
  end.
Proof.
  induction y as [|c y IH]; intros n rest.
  - destruct n; cbn [take_bytes app]; [reflexivity|].
    change (width_utf8 10) with 1%nat. cbn [Nat.leb]. destruct (take_bytes rest (S n - 1)); auto. left; reflexivity.
  - destruct n; cbn [take_bytes app]; [reflexivity|].
    destruct (width_utf8 c <=? S n)%nat; [|reflexivity].
    specialize (IH (S n - width_utf8 c)%nat rest). destruct (take_bytes y (S n - width_utf8 c)).
    + rewrite IH. reflexivity.
    + destruct (take_bytes (y ++ 10 :: rest) (S n - width_utf8 c)); auto. right; assumption.
    + rewrite IH. reflexivity.
Qed.
Lemma lower_is_10 c : ascii_lower c = 10 -> c = 10.
Proof.
  unfold ascii_lower. destruct ((65 <=? c) && (c <=? 90)) eqn:E; [|auto].
  apply andb_true_iff in E. destruct E as [A B]. apply N.leb_le in A. lia.
Qed.
Lemma ci_eqb_in10 a : forall t, In 10 a -> no10 t = true -> ci_eqb a t = false.
Proof.
  induction a as [|x a IH]; intros t Hin Ht; [destruct Hin|]. destruct t as [|z t]; [reflexivity|].
  cbn in Ht. apply andb_true_iff in Ht. destruct Ht as [Hz Ht]. cbn [ci_eqb]. destruct Hin as [->|Hin].
  - destruct (ascii_lower 10 =? ascii_lower z) eqn:E; [|reflexivity]. apply N.eqb_eq in E. symmetry in E.
    change (ascii_lower 10) with 10 in E. apply lower_is_10 in E. subst. discriminate.
  - rewrite (IH t Hin Ht). apply andb_false_r.
Qed.
Lemma starts_ident_line b rest rest' : starts_ident (b ++ 10 :: rest) = starts_ident (b ++ 10 :: rest').
Proof. destruct b; reflexivity. Qed.
Lemma tag_no_case_local t : no10 t = true -> local (tag_no_case t).
Proof.
  intros Ht n rest rest' st o y Hl _ _. unfold tag_no_case. cbn [rem].
  pose proof (take_bytes_line y (length t) rest) as H1. pose proof (take_bytes_line y (length t) rest') as H2.
  destruct (take_bytes y (length t)) as [a b| |] eqn:E.
  - rewrite H1, H2, (starts_ident_line b rest rest'). apply take_bytes_app in E.
    destruct (ci_eqb a t && negb (word_tag t && starts_ident (b ++ 10 :: rest'))); split; cbn; auto.
    split; [reflexivity|]. split; [reflexivity|]. exists b. subst. split; [apply sfx_app|auto].
  - assert (F : forall r0, match take_bytes (y ++ 10 :: r0) (length t) with BExact a _ => In 10 a | _ => True end ->
                 snd (match take_bytes (y ++ 10 :: r0) (length t) with
                      | BExact a b => if ci_eqb a t && negb (word_tag t && starts_ident b) then (st, Ok a (consume a b (mkIn o (y ++ 10 :: r0)))) else (st, Err)
                      | _ => (st, Err) end) = Err /\
                 fst (match take_bytes (y ++ 10 :: r0) (length t) with
                      | BExact a b => if ci_eqb a t && negb (word_tag t && starts_ident b) then (st, Ok a (consume a b (mkIn o (y ++ 10 :: r0)))) else (st, Err)
                      | _ => (st, Err) end) = st).
    { intros r0 H. destruct (take_bytes (y ++ 10 :: r0) (length t)) as [a b| |]; auto.
      rewrite (ci_eqb_in10 a t H Ht). cbn. auto. }
    destruct (F rest H1) as [A1 A2], (F rest' H2) as [B1 B2]. unfold R2. rewrite A1, A2, B1, B2. auto.
  - rewrite H1, H2. split; cbn; auto.
Qed.

(* ---------------------------------------------------------------- trivia and wrappers *)
Lemma c_comment_line : local c_comment.
Proof.
  intros n rest rest' st o y Hl _ _. unfold c_comment, tag, t_slash_star. cbn [rem].
  assert (F : forall r0, is_prefix [47; 42] (y ++ 10 :: r0) = false).
  { intros r0. destruct y as [|c [|d y]]; cbn.
    - reflexivity.
    - rewrite andb_false_r. reflexivity.
    - pose proof (lineb_no_open _ _ _ Hl) as H. rewrite andb_true_r. exact H. }
  rewrite !F. split; cbn; auto.
Qed.
Lemma cpp_comment_local : local cpp_comment.
Proof.
  intros n. unfold cpp_comment. apply recognize_local2. apply pair_local2; [apply tag_local; reflexivity|].
  apply opt_local2. apply take_while1_local. reflexivity.
Qed.
Lemma trivia_impl_local : local trivia_impl.
Proof.
  intros n. unfold trivia_impl. cbn [alts]. repeat apply alt_local2; [| | |apply fail_local2].
  - apply map_local2. apply take_while1_local. reflexivity.
  - apply map_local2. apply c_comment_line.
  - apply map_local2. apply cpp_comment_local.
Qed.
Lemma trivia_p_local : local trivia_p.
Proof. intros n. unfold trivia_p. apply map_local2, located_local2, many1_local2, trivia_impl_local. Qed.

Lemma ws_local2 {A} L n (p p' : parser A) : local2 anyL n p p' -> local2 L n (ws p) (ws p').
Proof. intros H. unfold ws. apply with_trivia_local2; [apply local_any, trivia_p_local|exact H]. Qed.

(* a line whose first non-blank character exists and does not start a line comment: there an mws wrapper stays on the line *)
Definition lead (y : text) : Prop :=
  match snd (take_while is_space y) with
  | [] => False
  | c :: r => (c =? 47) && (match r with d :: _ => d =? 47 | [] => false end) = false
  end.

Definition starts_comment (c : N) (z : text) : bool :=
  (c =? 47) && (match z with d :: _ => (d =? 42) || (d =? 47) | [] => false end).

Lemma no_trivia_item_here st o c z : is_space c = false -> c <> 10 -> c <> 13 -> starts_comment c z = false ->
  alt trivia_impl newline st (mkIn o (c :: z)) = (st, Err).
Proof.
  intros Hs H10 H13 Hc. unfold starts_comment in Hc.
  assert (P1 : is_prefix [47; 42] (c :: z) = false /\ is_prefix [47; 47] (c :: z) = false).
  { cbn. destruct (c =? 47) eqn:E; [|auto]. cbn in Hc. destruct z as [|d t]; [auto|].
    apply orb_false_iff in Hc. destruct Hc as [A B]. rewrite A, B. auto. }
  destruct P1 as [P1 P2].
  unfold alt, trivia_impl. cbn [alts]. unfold alt, map_p, space1, take_while1_p, c_comment, cpp_comment, recognize, pair_p, tag, t_slash_star, t_slash_slash.
  cbn [rem take_while]. rewrite Hs, P1, P2. unfold newline, map_p, pair_p, opt, char_p, satisfy. cbn [rem].
  assert (E13 : (13 =? c) = false) by (apply N.eqb_neq; congruence).
  assert (E10 : (10 =? c) = false) by (apply N.eqb_neq; congruence).
  rewrite E13. cbn [rem]. rewrite E10. reflexivity.
Qed.

Lemma take_while_all f a c z : forallb f a = true -> f c = false -> take_while f (a ++ c :: z) = (a, c :: z).
Proof.
  intros Ha Hc. induction a as [|x a IH]; cbn [app take_while]; [rewrite Hc; reflexivity|].
  cbn in Ha. apply andb_true_iff in Ha. destruct Ha as [Hx Ha]. rewrite Hx, (IH Ha). reflexivity.
Qed.
Lemma blanks_item st o s0 sp c z : forallb is_space (s0 :: sp) = true -> is_space c = false ->
  alt trivia_impl newline st (mkIn o ((s0 :: sp) ++ c :: z)) =
  (st, Ok (TWhitespace (s0 :: sp)) (mkIn (o + blen (s0 :: sp)) (c :: z))).
Proof.
  intros Ha Hc. unfold alt, trivia_impl. cbn [alts]. unfold alt at 1. unfold map_p at 1. unfold space1, take_while1_p. cbn [rem].
  rewrite (take_while_all is_space (s0 :: sp) c z Ha Hc). reflexivity.
Qed.

Lemma take_while_split f y : forallb f (fst (take_while f y)) = true /\
  match snd (take_while f y) with c :: _ => f c = false | [] => True end.
Proof.
  induction y as [|x0 y0 IH]; cbn [take_while]; [cbn; auto|]. destruct (f x0) eqn:E.
  - destruct (take_while f y0) as [a b]. cbn in *. rewrite E. exact IH.
  - cbn. auto.
Qed.

(* on a `lead` line the optional multi-line trivia is exactly the leading blanks, whatever follows the line *)
Lemma opt_multiline_on_lead y : lineb y = true -> lead y ->
  exists (tf : N -> option ltrivia) sp y2, sfx y2 y /\
    forall st o rest, opt multiline_trivia st (mkIn o (y ++ 10 :: rest)) = (st, Ok (tf o) (mkIn (o + blen sp) (y2 ++ 10 :: rest))).
Proof.
  intros Hl Hlead. unfold lead in Hlead. pose proof (take_while_sfx is_space y) as Hsf.
  pose proof (take_while_split is_space y) as [Hsp Hc_space].
  destruct (take_while is_space y) as [sp y2] eqn:Etw. cbn [fst snd] in *.
  destruct y2 as [|c r]; [contradiction|].
  assert (Hy : y = sp ++ c :: r) by (apply take_while_app in Etw; exact Etw).
  pose proof (lineb_sfx _ _ Hsf Hl) as Hl2. destruct (lineb_head _ _ Hl2) as [H10 H13].
  assert (Hcmt : forall rest, starts_comment c (r ++ 10 :: rest) = false).
  { intros rest. unfold starts_comment. destruct (c =? 47) eqn:E; [|reflexivity]. cbn. destruct r as [|d r']; cbn; [reflexivity|].
    pose proof (lineb_no_open _ _ _ Hl2) as Ho. rewrite E in Ho, Hlead. cbn in Ho, Hlead. rewrite Ho, Hlead. reflexivity. }
  destruct sp as [|s0 sp].
  - exists (fun _ => None), [], (c :: r). split; [assumption|]. intros st o rest. cbn [app] in Hy. subst y.
    unfold opt, multiline_trivia, map_p, located_p, many1, map_p, pair_p. cbn [app].
    rewrite (no_trivia_item_here st o c (r ++ 10 :: rest) Hc_space H10 H13 (Hcmt rest)). cbn. rewrite N.add_0_r. reflexivity.
  - exists (fun o => Some (mkTriv o (o + blen (s0 :: sp)) [TWhitespace (s0 :: sp)])), (s0 :: sp), (c :: r).
    split; [assumption|]. intros st o rest. subst y.
    unfold opt, multiline_trivia, map_p, located_p, many1, map_p, pair_p. rewrite <- app_assoc. cbn [app].
    change (s0 :: sp ++ c :: r ++ 10 :: rest) with ((s0 :: sp) ++ c :: (r ++ 10 :: rest)).
    rewrite (blanks_item st o s0 sp c (r ++ 10 :: rest) Hsp Hc_space).
    unfold many0. cbn [rem length many0_aux].
    rewrite (no_trivia_item_here st _ c (r ++ 10 :: rest) Hc_space H10 H13 (Hcmt rest)). reflexivity.
Qed.

Lemma mws_local2 {A} n (p p' : parser A) : local2 anyL n p p' -> local2 lead n (mws p) (mws p').
Proof.
  intros Hp rest rest' st o y Hl HL Hn. destruct (opt_multiline_on_lead y Hl HL) as [tf [sp [y2 [Hsf Ho]]]].
  unfold mws, with_trivia. rewrite !Ho.
  pose proof (Hp rest rest' st (o + blen sp) y2 (lineb_sfx _ _ Hsf Hl) I) as Hq.
  assert (Hlen : (length y2 <= n)%nat) by (apply sfx_length in Hsf; lia). specialize (Hq Hlen). unfold R2 in *.
  destruct (p st _) as [t [w u| |b]], (p' st _) as [t2 [w' u'| |b']]; cbn in *; destruct Hq as [Ht2 Hq]; try contradiction; subst; split; auto.
  destruct Hq as [-> [Ho2 [y3 [Hsf3 [Hu Hu']]]]]. rewrite Ho2. split; [reflexivity|]. split; [reflexivity|].
  exists y3. split; [eapply sfx_trans; eassumption|split; assumption].
Qed.

(* the wrapper of a terminal, by its kind: ws and located never leave the line; mws needs a `lead` line *)
Definition wrapL (w : wrapper) : text -> Prop := match w with W_mws => lead | _ => anyL end.
Lemma wr_local2 {A} n w (p p' : parser A) : local2 anyL n p p' -> local2 (wrapL w) n (wr w p) (wr w p').
Proof.
  intros Hp. destruct w; cbn [wr wrapL]; [apply ws_local2; exact Hp|apply mws_local2; exact Hp|apply located_local2; exact Hp].
Qed.
(* a wrapper the table says is not mws *)
Lemma wr_local2_inner {A} L n w (p p' : parser A) : w <> W_mws -> local2 anyL n p p' -> local2 L n (wr w p) (wr w p').
Proof.
  intros Hw Hp. eapply local2_weaken; [apply wr_local2; exact Hp|]. intros y _. destruct w; cbn; auto. congruence.
Qed.

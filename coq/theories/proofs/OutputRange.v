(* C09, last clause: data outside $0000-$FFFF is an error, never a truncated or shifted image.
   Stated over the model of Segment::emit (model/Segment.v, limits translated from segment.rs into Gen/CodegenConsts.v). *)
From Coq Require Import List NArith ZArith Bool Lia ZifyBool.
Import ListNotations.
From Mos Require Import Gen.CodegenConsts.
From Mos Require model.Encode model.Segment.
Open Scope Z_scope.

Lemma emit_limits : emit_start_limit = 65535 /\ emit_end_limit = 65536.
Proof. split; reflexivity. Qed.

Lemma emit_range_exact (s : Segment.segment) (bytes : list N) :
  let e := Segment.g_pc s + Z.of_nat (length bytes) in
  e < Encode.two64 ->
  (Segment.seg_emit s bytes = Segment.EmitOutOfRange <-> (65535 < Segment.g_pc s \/ 65536 < e)) /\
  (forall s', Segment.seg_emit s bytes = Segment.EmitOk s' ->
     Segment.g_pc s <= 65535 /\ e <= 65536 /\ Segment.g_pc s' = e /\
     Segment.g_writes s' = (Segment.g_pc s, bytes) :: Segment.g_writes s).
Proof.
  intros e He. unfold Segment.seg_emit. fold e.
  destruct emit_limits as [-> ->].
  replace (Encode.two64 <=? e) with false by lia.
  destruct ((65535 <? Segment.g_pc s) || (65536 <? e)) eqn:E.
  - split; [split; [intros _; lia | reflexivity] | intros s' H; discriminate].
  - split; [split; [discriminate | intros H; lia] |].
    intros s' H. injection H as <-. cbn. repeat split; lia.
Qed.

(* Proofs about rename: model/SymGraph.v (rename as edge relabelling) and model/Rename.v (the handler). *)
From Coq Require Import List NArith Arith Bool Lia.
Import ListNotations.
From Mos Require Import model.SymGraph model.Analysis model.Rename spec.NavSpec spec.RenameSpec
  proofs.SymGraphProofs proofs.NavProofs proofs.GreedyProofs.

(* ---------- rename is a relabelling ---------- *)
Lemma rename_relabelled : forall g p c new, relabelled g (rename g p c new) p c new.
Proof.
  intros g p c new. unfold relabelled, rename. induction g as [|e g IH]; cbn; constructor; [|assumption].
  destruct (Nat.eqb (e_src e) p && Nat.eqb (e_dst e) c) eqn:E; cbn; [|auto].
  apply andb_true_iff in E as [E1 E2]. apply Nat.eqb_eq in E1, E2. auto.
Qed.

Lemma rename_in : forall g p c new e',
  In e' (rename g p c new) <->
  exists e, In e g /\ e' = if Nat.eqb (e_src e) p && Nat.eqb (e_dst e) c then mkEdge p new c else e.
Proof. intros. unfold rename. rewrite in_map_iff. split; intros [e [H1 H2]]; exists e; auto. Qed.

Lemma parent_rename : forall g p c new n, parent (rename g p c new) n = parent g n.
Proof.
  intros g p c new n. unfold parent, rename. induction g as [|e g IH]; [reflexivity|]. cbn.
  destruct (Nat.eqb (e_src e) p && Nat.eqb (e_dst e) c) eqn:E; cbn.
  - apply andb_true_iff in E as [E1 E2]. apply Nat.eqb_eq in E1, E2. rewrite E2.
    destruct (Nat.eqb c n); cbn; [congruence|]. apply IH.
  - destruct (Nat.eqb (e_dst e) n); cbn; [reflexivity|]. apply IH.
Qed.

(* child, as a relation on edges *)
Lemma child_some : forall g n id t, child g n id = Some t -> In (mkEdge n id t) g.
Proof.
  unfold child. intros g n id t H. destruct (find _ g) as [e|] eqn:F; [|discriminate].
  apply find_some in F as [I P]. apply andb_true_iff in P as [P1 P2]. apply Nat.eqb_eq in P1. apply ident_eqb_eq in P2.
  cbn in H. inversion H. destruct e; cbn in *; subst. assumption.
Qed.

Lemma child_of_edge : forall g n id t, functional g -> In (mkEdge n id t) g -> child g n id = Some t.
Proof.
  unfold child. intros g n id t F I. destruct (find _ g) as [e|] eqn:Fi.
  - apply find_some in Fi as [I' P]. apply andb_true_iff in P as [P1 P2]. apply Nat.eqb_eq in P1. apply ident_eqb_eq in P2.
    cbn. f_equal. apply (F e (mkEdge n id t)); auto.
  - exfalso. pose proof (find_none _ _ Fi _ I) as H. cbn in H. rewrite Nat.eqb_refl, ident_eqb_refl in H. discriminate.
Qed.

Lemma rename_functional : forall g p c new, functional g -> fresh g new -> functional (rename g p c new).
Proof.
  intros g p c new F [Fr _] e1 e2 I1 I2 Hs Hl.
  apply rename_in in I1 as [a [Ia Ea]]. apply rename_in in I2 as [b [Ib Eb]].
  destruct (Nat.eqb (e_src a) p && Nat.eqb (e_dst a) c) eqn:Ca; destruct (Nat.eqb (e_src b) p && Nat.eqb (e_dst b) c) eqn:Cb; subst; cbn in *.
  - reflexivity.
  - exfalso. apply (Fr b Ib). congruence.
  - exfalso. apply (Fr a Ia). congruence.
  - apply F; assumption.
Qed.

Section Iso.
  Variables (g : graph) (p c : node) (new : ident).
  Hypothesis Fun : functional g.
  Hypothesis Fresh : fresh g new.
  Let g' := rename g p c new.

  Lemma new_not_super : is_super new = false.
  Proof. exact (proj2 Fresh). Qed.

  (* a step of the resolving walk is repeated by the renamed identifier in the renamed table *)
  Lemma step_forward : forall n id t,
    index_step g n id = Some t ->
    index_step g' n (if negb (is_super id) && Nat.eqb n p && Nat.eqb t c then new else id) = Some t.
  Proof.
    intros n id t H. destruct (is_super id) eqn:S.
    - change (negb true && Nat.eqb n p && Nat.eqb t c) with false. cbv iota.
      unfold index_step in *. rewrite S in *. unfold g'. rewrite parent_rename. assumption.
    - change (negb false && Nat.eqb n p && Nat.eqb t c) with (Nat.eqb n p && Nat.eqb t c).
      unfold index_step in H. rewrite S in H. apply child_some in H.
      destruct (Nat.eqb n p && Nat.eqb t c) eqn:E.
      + apply andb_true_iff in E as [E1 E2]. apply Nat.eqb_eq in E1, E2. subst n t.
        unfold index_step. rewrite new_not_super. apply child_of_edge; [apply rename_functional; assumption|].
        apply rename_in. exists (mkEdge p id c). split; [assumption|]. cbn [e_src e_dst]. rewrite !Nat.eqb_refl. reflexivity.
      + unfold index_step. rewrite S. apply child_of_edge; [apply rename_functional; assumption|].
        apply rename_in. exists (mkEdge n id t). split; [assumption|]. cbn [e_src e_dst]. rewrite E. reflexivity.
  Qed.

  (* ... and a step of ANY walk in the renamed table along a renamed identifier is a step of the old table along
     the old identifier, whenever the old identifier really labels an edge p -> c where it was replaced *)
  Lemma step_backward : forall a id id' b,
    (id' = id /\ id <> new) \/ (id' = new /\ is_super id = false /\ In (mkEdge p id c) g) ->
    index_step g' a id' = Some b -> index_step g a id = Some b.
  Proof.
    intros a id id' b Hid H. unfold index_step in *. destruct Hid as [[-> NE]|[-> [S I]]].
    - destruct (is_super id) eqn:S.
      + unfold g' in H. rewrite parent_rename in H. assumption.
      + apply child_some in H. apply rename_in in H as [e [Ie Ee]].
        destruct (Nat.eqb (e_src e) p && Nat.eqb (e_dst e) c); [inversion Ee; congruence|].
        subst e. apply child_of_edge; assumption.
    - rewrite new_not_super in H. rewrite S. apply child_some in H. apply rename_in in H as [e [Ie Ee]].
      destruct (Nat.eqb (e_src e) p && Nat.eqb (e_dst e) c) eqn:E.
      + inversion Ee; subst. apply child_of_edge; assumption.
      + exfalso. apply (proj1 Fresh e Ie). rewrite <- Ee. reflexivity.
  Qed.

  Lemma walk_forward : forall pth n l, walk g n pth = Some l -> walk g' n (ren_path p c new n l pth) = Some l.
  Proof.
    induction pth as [|id pth IH]; intros n l H; cbn in H.
    - inversion H. reflexivity.
    - destruct (index_step g n id) as [t|] eqn:S; [|discriminate].
      destruct (walk g t pth) as [l'|] eqn:W; [|discriminate]. cbn in H. inversion H; subst. cbn.
      rewrite (step_forward _ _ _ S). rewrite (IH _ _ W). reflexivity.
  Qed.

  (* the relation between a path and its renaming along the resolving walk (n, l) *)
  Inductive renamed : node -> list node -> path -> path -> Prop :=
  | rn_nil : forall n, renamed n [] [] []
  | rn_cons : forall n t l id pth pth',
      index_step g n id = Some t -> renamed t l pth pth' ->
      renamed n (t :: l) (id :: pth) ((if negb (is_super id) && Nat.eqb n p && Nat.eqb t c then new else id) :: pth').

  Lemma renamed_ren_path : forall pth n l, walk g n pth = Some l -> renamed n l pth (ren_path p c new n l pth).
  Proof.
    induction pth as [|id pth IH]; intros n l H; cbn in H.
    - inversion H. constructor.
    - destruct (index_step g n id) as [t|] eqn:S; [|discriminate].
      destruct (walk g t pth) as [l'|] eqn:W; [|discriminate]. cbn in H. inversion H; subst. cbn. constructor; auto.
  Qed.

  Lemma walk_backward : forall n l pth pth', renamed n l pth pth' ->
    forall m l2, walk g' m pth' = Some l2 -> walk g m pth = Some l2.
  Proof.
    induction 1 as [|n t l id pth pth' S R IH]; intros m l2 W; cbn in W |- *.
    - assumption.
    - destruct (index_step g' m _) as [b|] eqn:Sb; [|discriminate].
      destruct (walk g' b pth') as [l3|] eqn:W3; [|discriminate]. cbn in W. inversion W; subst.
      assert (Sg : index_step g m id = Some b).
      { eapply step_backward; [|exact Sb].
        destruct (negb (is_super id) && Nat.eqb n p && Nat.eqb t c) eqn:E.
        - right. apply andb_true_iff in E as [E E3]. apply andb_true_iff in E as [E1 E2].
          apply negb_true_iff in E1. apply Nat.eqb_eq in E2, E3. subst. split; [reflexivity|]. split; [assumption|].
          unfold index_step in S. rewrite E1 in S. apply child_some in S. assumption.
        - left. split; [reflexivity|]. intro Hn. subst id.
          unfold index_step in S. rewrite new_not_super in S. apply child_some in S.
          apply (proj1 Fresh _ S). reflexivity. }
      rewrite Sg. rewrite (IH _ _ W3). reflexivity.
  Qed.

  Lemma renamed_contains_super : forall n l pth pth', renamed n l pth pth' -> contains_super pth' = contains_super pth.
  Proof.
    unfold contains_super. induction 1 as [|n t l id pth pth' S R IH]; [reflexivity|]. cbn [existsb]. rewrite IH. f_equal.
    destruct (is_super id) eqn:Si.
    - change (negb true && Nat.eqb n p && Nat.eqb t c) with false. cbv iota. assumption.
    - change (negb false && Nat.eqb n p && Nat.eqb t c) with (Nat.eqb n p && Nat.eqb t c).
      destruct (Nat.eqb n p && Nat.eqb t c); [apply new_not_super|assumption].
  Qed.

  Lemma renamed_nonempty : forall n l pth pth', renamed n l pth pth' -> pth <> [] -> pth' <> [].
  Proof. induction 1; intros; congruence. Qed.

  (* Every lookup that resolved, resolves through the same nodes after the rename when each identifier that crossed
     an edge p -> c is replaced by the new name: same bubbling steps, same Symbol steps. *)
  Theorem rename_iso : forall fuel scope pth steps,
    pth <> [] ->
    query_traversal_steps fuel g scope pth = Some steps ->
    symbols_of steps <> [] ->
    query_traversal_steps fuel g' scope
      (ren_path p c new (resolving_scope scope steps) (symbols_of steps) pth) = Some steps.
  Proof.
    induction fuel as [|fuel IH]; intros scope pth steps NE Q Res; [discriminate|].
    cbn in Q. destruct (walk g scope pth) as [l|] eqn:W.
    - destruct pth as [|id pth]; [congruence|]. inversion Q; subst steps; clear Q.
      rewrite symbols_of_map in *. destruct l as [|t l]; [cbn in Res; congruence|].
      change (resolving_scope scope (map Symbol (t :: l))) with scope.
      pose proof (walk_forward _ _ _ W) as WF. cbn [query_traversal_steps]. rewrite WF.
      destruct (ren_path p c new scope (t :: l) (id :: pth)) eqn:RP; [cbn in RP; discriminate|]. reflexivity.
    - destruct (contains_super pth) eqn:CS; [inversion Q; subst; cbn in Res; congruence|].
      destruct (parent g scope) as [pn|] eqn:P; [|inversion Q; subst; cbn in Res; congruence].
      destruct (query_traversal_steps fuel g pn pth) as [r|] eqn:Qr; [|discriminate].
      cbn in Q. inversion Q; subst steps; clear Q. cbn [symbols_of resolving_scope] in *.
      pose proof (qts_shape _ _ _ _ _ NE Qr) as Sh.
      pose proof (shape_walk _ _ _ _ Sh Res) as Wr.
      pose proof (renamed_ren_path _ _ _ Wr) as Rn.
      pose proof (IH pn pth r NE Qr Res) as IHr.
      remember (ren_path p c new (resolving_scope pn r) (symbols_of r) pth) as pth' eqn:Ep.
      cbn [query_traversal_steps].
      destruct (walk g' scope pth') as [l2|] eqn:W2.
      + exfalso. rewrite (walk_backward _ _ _ _ Rn _ _ W2) in W. discriminate.
      + rewrite (renamed_contains_super _ _ _ _ Rn), CS.
        replace (parent g' scope) with (Some pn) by (unfold g'; rewrite parent_rename; symmetry; exact P).
        rewrite IHr. reflexivity.
  Qed.
End Iso.

(* ---------- renaming back ---------- *)
Lemma rename_back : forall g p c new old,
  uniform g p c old -> rename (rename g p c new) p c old = g.
Proof.
  intros g p c new old U. unfold rename. rewrite map_map. rewrite <- (map_id g) at 2. apply map_ext_in.
  intros e I. destruct (Nat.eqb (e_src e) p && Nat.eqb (e_dst e) c) eqn:E; cbn.
  - rewrite !Nat.eqb_refl. cbn. apply andb_true_iff in E as [E1 E2]. apply Nat.eqb_eq in E1, E2.
    destruct e as [s l d]; cbn in *. subst. f_equal. symmetry. apply (U (mkEdge p l c)); auto.
  - rewrite E. reflexivity.
Qed.

Lemma ren_path_back : forall g p c new old pth n l,
  is_super new = false ->
  functional g -> uniform g p c old -> walk g n pth = Some l ->
  ren_path p c old n l (ren_path p c new n l pth) = pth.
Proof.
  intros g p c new old pth n l Sn. revert n l. induction pth as [|id pth IH]; intros n l F U W; cbn in W.
  - inversion W. reflexivity.
  - destruct (index_step g n id) as [t|] eqn:S; [|discriminate].
    destruct (walk g t pth) as [l'|] eqn:W'; [|discriminate]. cbn in W. inversion W; subst. cbn.
    rewrite (IH _ _ F U W'). f_equal.
    destruct (is_super id) eqn:Si.
    + change (negb true && Nat.eqb n p && Nat.eqb t c) with false. cbv iota. rewrite Si. reflexivity.
    + change (negb false && Nat.eqb n p && Nat.eqb t c) with (Nat.eqb n p && Nat.eqb t c).
      destruct (Nat.eqb n p && Nat.eqb t c) eqn:E.
      * (* replaced by new, and back by old; the old identifier was `old` *)
        apply andb_true_iff in E as [E1 E2]. apply Nat.eqb_eq in E1, E2. subst.
        rewrite !Nat.eqb_refl. unfold index_step in S. rewrite Si in S. apply child_some in S.
        pose proof (U _ S eq_refl eq_refl) as Hl. cbn in Hl. subst id.
        rewrite Sn. reflexivity.
      * rewrite Si. change (negb false && Nat.eqb n p && Nat.eqb t c) with (Nat.eqb n p && Nat.eqb t c).
        rewrite E. reflexivity.
Qed.

(* ---------- the handler ---------- *)
Lemma rename_symbol_spans : forall fuel g slice nx d new g' edits,
  rename_symbol fuel g slice nx d new = RenEdits g' edits ->
  map ed_span edits = map dl_span (filter (fun dl => negb (is_super_slice slice dl)) (definition_and_usages d)).
Proof.
  intros fuel g slice nx d new g' edits H. unfold rename_symbol in H.
  destruct (location d); [|discriminate]. destruct (negb (def_site_is_identifier slice d0)); [discriminate|].
  destruct (usage_steps fuel g slice (usages d)); [|discriminate].
  inversion H; subst. rewrite map_map. reflexivity.
Qed.

(* the witness of F-C15a: .import x as y from "b.asm" / lda y ; rename y -> zz *)
Definition w_x : ident := [120]%N.
Definition w_y : ident := [121]%N.
Definition w_zz : ident := [122; 122]%N.
Definition w_imp : ident := [36; 105]%N.
Definition w_x_as_y : ident := [120; 32; 97; 115; 32; 121]%N.
Definition w_graph : graph := [mkEdge 0 w_y 2; mkEdge 1 w_x 2; mkEdge 0 w_imp 1].
Definition w_def_site := mkSpan 1 0 0 0 1.
Definition w_arg := mkSpan 0 0 8 0 14.
Definition w_use := mkSpan 0 1 4 1 5.
Definition w_analysis : Analysis :=
  [(DtSymbol 2, mkDef (Some (mkLoc 1 w_def_site)) [mkLoc 0 w_use; mkLoc 0 w_arg])].
Definition w_slice (s : Span) : path :=
  if span_eqb s w_use then [w_y] else if span_eqb s w_arg then [w_x_as_y] else if span_eqb s w_def_site then [w_x] else [].

Lemma import_alias_refuted :
  exists g' edits, rename_handler 5 w_graph w_analysis w_slice 0 1 4 w_zz = RenEdits g' edits /\
    In (mkEdit w_arg []) edits /\ In (mkEdit w_def_site [w_zz]) edits /\ In (mkEdit w_use [w_zz]) edits.
Proof. eexists. eexists. split; [vm_compute; reflexivity|]. cbn. auto. Qed.

(* ---------- the guarded statement: outside the class, every edit writes the new name ---------- *)
Definition all_new (g : graph) (s t : node) (new : ident) : Prop :=
  forall e, In e g -> e_src e = s -> e_dst e = t -> e_lbl e = new.

Lemma rename_all_new : forall g s t new, all_new (rename g s t new) s t new.
Proof.
  intros g s t new e I Hs Ht. apply rename_in in I as [a [Ia Ea]].
  destruct (Nat.eqb (e_src a) s && Nat.eqb (e_dst a) t) eqn:E; subst e; [reflexivity|].
  cbn in *. subst. rewrite !Nat.eqb_refl in E. discriminate.
Qed.

Lemma rename_keeps_all_new : forall g s t s' t' new, all_new g s t new -> all_new (rename g s' t' new) s t new.
Proof.
  intros g s t s' t' new A e I Hs Ht. apply rename_in in I as [a [Ia Ea]].
  destruct (Nat.eqb (e_src a) s' && Nat.eqb (e_dst a) t') eqn:E; subst e; [reflexivity|]. apply A; assumption.
Qed.

Lemma rename_keeps_endpoints : forall g s t new a b,
  (exists e, In e g /\ e_src e = a /\ e_dst e = b) -> exists e, In e (rename g s t new) /\ e_src e = a /\ e_dst e = b.
Proof.
  intros g s t new a b [e [I [Hs Hd]]].
  exists (if Nat.eqb (e_src e) s && Nat.eqb (e_dst e) t then mkEdge s new t else e). split.
  - apply rename_in. exists e. auto.
  - destruct (Nat.eqb (e_src e) s && Nat.eqb (e_dst e) t) eqn:E; [|auto].
    apply andb_true_iff in E as [E1 E2]. apply Nat.eqb_eq in E1, E2. cbn. split; congruence.
Qed.

Lemma rename_usages_keeps : forall l g s t new,
  all_new g s t new -> all_new (rename_usages g l new) s t new.
Proof.
  induction l as [|[[dl steps] pth] l IH]; intros g s t new A; cbn; [assumption|].
  apply IH. destruct (last_symbol steps); [apply rename_keeps_all_new|]; assumption.
Qed.

Lemma rename_usages_endpoints : forall l g new a b,
  (exists e, In e g /\ e_src e = a /\ e_dst e = b) -> exists e, In e (rename_usages g l new) /\ e_src e = a /\ e_dst e = b.
Proof.
  induction l as [|[[dl steps] pth] l IH]; intros g new a b H; cbn; [assumption|].
  apply IH. destruct (last_symbol steps); [apply rename_keeps_endpoints|]; assumption.
Qed.

Lemma rename_usages_establishes : forall l g new dl steps pth t,
  In (dl, steps, pth) l -> last_symbol steps = Some t ->
  all_new (rename_usages g l new) (parent_scope dl) t new.
Proof.
  induction l as [|[[dl0 steps0] pth0] l IH]; intros g new dl steps pth t I L; [destruct I|].
  cbn. destruct I as [I|I].
  - inversion I; subst. rewrite L. apply rename_usages_keeps. apply rename_all_new.
  - eapply IH; eauto.
Qed.

Lemma usage_steps_spec : forall fuel g slice us l,
  usage_steps fuel g slice us = Some l ->
  forall e, In e l <-> exists dl, In dl us /\
     exists steps, query_traversal_steps fuel g (parent_scope dl) (slice (dl_span dl)) = Some steps /\
                   e = (dl, steps, slice (dl_span dl)).
Proof.
  induction us as [|dl us IH]; intros l H e; cbn in H.
  - inversion H. split; [intros []|intros [dl [[] _]]].
  - destruct (query_traversal_steps fuel g (parent_scope dl) (slice (dl_span dl))) as [steps|] eqn:Q; [|discriminate].
    destruct (usage_steps fuel g slice us) as [r|] eqn:U; [|discriminate]. inversion H; subst. cbn. rewrite (IH r eq_refl). split.
    + intros [<-|[dl' [I [st [Q' E]]]]].
      * exists dl. split; [auto|]. exists steps. auto.
      * exists dl'. split; [auto|]. exists st. auto.
    + intros [dl' [[<-|I] [st [Q' E]]]].
      * left. rewrite Q in Q'. inversion Q'. subst. reflexivity.
      * right. exists dl'. split; [assumption|]. exists st. auto.
Qed.

Lemma qstp_shape : forall g0 g p n steps,
  traversal_shape g0 p n steps ->
  query_steps_to_path g n steps false = query_steps_to_path g (resolving_scope n steps) (map Symbol (symbols_of steps)) false.
Proof.
  intros g0 g p n steps Sh. induction Sh.
  - rewrite symbols_of_map. destruct l; reflexivity.
  - reflexivity.
  - cbn [query_steps_to_path resolving_scope symbols_of]. rewrite IHSh.
    destruct (query_steps_to_path g (resolving_scope parent_nx rest) (map Symbol (symbols_of rest)) false); reflexivity.
Qed.

Theorem edit_text_guarded : forall fuel g slice nx d new g' edits,
  rename_symbol fuel g slice nx d new = RenEdits g' edits ->
  Known_import_alias fuel g slice nx d = false ->
  forall e, In e edits -> ed_text e = [new].
Proof.
  intros fuel g slice nx d new g' edits H K e Ie. unfold rename_symbol in H. unfold Known_import_alias in K.
  destruct (location d) as [loc|] eqn:Ld; [|discriminate].
  destruct (negb (def_site_is_identifier slice loc)); [discriminate|].
  destruct (usage_steps fuel g slice (usages d)) as [steps|] eqn:US; [|discriminate].
  inversion H; subst g' edits; clear H. apply negb_false_iff in K. rewrite forallb_forall in K.
  apply in_map_iff in Ie as [dl [<- Idl]]. cbn. apply filter_In in Idl as [Idl NS].
  destruct (find (fun e0 => loc_eqb (fst (fst e0)) dl) steps) as [[[dl' st] pth]|] eqn:F; [|reflexivity].
  apply find_some in F as [If Heq]. cbn in Heq. apply loc_eqb_eq in Heq. subst dl'.
  apply (usage_steps_spec _ _ _ _ _ US) in If as Spec. destruct Spec as [dl2 [Iu [st2 [Q E]]]]. inversion E; subst dl2 st2 pth. clear E.
  specialize (K dl Iu). unfold usage_plain in K. unfold is_super_slice in NS.
  destruct (slice (dl_span dl)) as [|id [|]] eqn:Sl; try discriminate.
  apply negb_true_iff in NS. rewrite NS in K. cbn [orb] in K. rewrite Q in K.
  destruct (last_symbol st) as [t|] eqn:L; [|discriminate].
  apply andb_true_iff in K as [Kt Kr]. apply Nat.eqb_eq in Kt. subst t.
  cbn [new_path]. replace (contains_super [id]) with false by (cbn; rewrite NS; reflexivity).
  pose proof (qts_shape _ _ _ _ _ (ltac:(discriminate) : [id] <> []) Q) as Sh.
  rewrite (qstp_shape _ _ _ _ _ Sh).
  destruct (shape_last_symbol _ _ _ _ _ Sh L) as [NE Hl].
  pose proof (shape_walk _ _ _ _ Sh NE) as W.
  set (rs := resolving_scope (parent_scope dl) st) in *.
  cbn in W. destruct (index_step g rs id) as [t|] eqn:St; [|discriminate]. cbn in W.
  assert (Hsym : symbols_of st = [t]) by (inversion W; reflexivity).
  rewrite Hsym in Hl. cbn in Hl. subst t.
  rewrite Hsym. cbn [map query_steps_to_path].
  unfold index_step in St. rewrite NS in St. apply child_some in St.
  set (g2 := rename_usages (rename g (parent_scope loc) nx new) steps new).
  assert (Ex : exists e0, In e0 g2 /\ e_src e0 = rs /\ e_dst e0 = nx).
  { apply rename_usages_endpoints. apply rename_keeps_endpoints. exists (mkEdge rs id nx). auto. }
  assert (AN : all_new g2 rs nx new).
  { apply orb_true_iff in Kr as [Kr|Kr]; apply Nat.eqb_eq in Kr.
    - rewrite Kr. apply rename_usages_keeps. apply rename_all_new.
    - rewrite Kr. eapply rename_usages_establishes; eauto. }
  destruct (find (fun e0 => Nat.eqb (e_src e0) rs && Nat.eqb (e_dst e0) nx) g2) as [e0|] eqn:Fe.
  - apply find_some in Fe as [I0 P0]. apply andb_true_iff in P0 as [P1 P2]. apply Nat.eqb_eq in P1, P2.
    cbn. rewrite (AN e0 I0 P1 P2). reflexivity.
  - reflexivity.
Qed.

(* the witness is in the class *)
Lemma witness_in_class :
  Known_import_alias 5 w_graph w_slice 2 (mkDef (Some (mkLoc 1 w_def_site)) [mkLoc 0 w_use; mkLoc 0 w_arg]) = true.
Proof. vm_compute. reflexivity. Qed.

Lemma roundtrip : forall g p c new old,
  is_super new = false -> functional g -> uniform g p c old ->
  rename (rename g p c new) p c old = g /\
  forall pth n l, walk g n pth = Some l -> ren_path p c old n l (ren_path p c new n l pth) = pth.
Proof.
  intros g p c new old Sn F U. split; [apply rename_back; assumption|].
  intros pth n l W. eapply ren_path_back; eauto.
Qed.

(* ---------- `functional` is an invariant of the table's constructors ---------- *)
Lemma functional_nil : functional [].
Proof. intros e1 e2 []. Qed.

(* add_symbol / ensure_index call insert only after the lookup of that identifier in that node failed *)
Lemma insert_functional : forall g parent_nx id new_nx,
  functional g -> child g parent_nx id = None -> functional (insert g parent_nx id new_nx).
Proof.
  intros g pn id nn F C e1 e2 I1 I2 Hs Hl. unfold insert in *.
  assert (No : forall e, In e g -> e_src e = pn -> e_lbl e = id -> False).
  { intros e I S L. unfold child in C. destruct (find _ g) eqn:Fi; [discriminate|].
    pose proof (find_none _ _ Fi _ I) as H. cbn in H. rewrite S, L, Nat.eqb_refl, ident_eqb_refl in H. discriminate. }
  destruct I1 as [<-|I1]; destruct I2 as [<-|I2]; cbn in *.
  - reflexivity.
  - exfalso. eapply No; eauto.
  - exfalso. eapply No; eauto.
  - apply F; assumption.
Qed.

Lemma export_functional : forall g to_export_nx new_nx new_id g',
  functional g -> export g to_export_nx new_nx new_id = Some g' -> functional g'.
Proof.
  intros g x n id g' F E. unfold export in E.
  destruct (existsb _ g) eqn:Ex; [discriminate|]. inversion E; subst g'; clear E.
  assert (Same : forall e, In e g -> e_src e = n -> e_lbl e = id -> e_dst e = x).
  { intros e I S L. destruct (Nat.eq_dec (e_dst e) x) as [|NE]; [assumption|]. exfalso.
    assert (existsb (fun e => Nat.eqb (e_src e) n && negb (Nat.eqb (e_dst e) x) && ident_eqb (e_lbl e) id) g = true); [|congruence].
    apply existsb_exists. exists e. split; [assumption|]. rewrite S, L, Nat.eqb_refl, ident_eqb_refl.
    apply Nat.eqb_neq in NE. rewrite NE. reflexivity. }
  intros e1 e2 I1 I2 Hs Hl. destruct I1 as [<-|I1]; destruct I2 as [<-|I2]; cbn in *.
  - reflexivity.
  - symmetry. apply Same; auto.
  - apply Same; auto.
  - apply F; assumption.
Qed.

Lemma remove_functional : forall g nx, functional g -> functional (remove g nx).
Proof.
  intros g nx F e1 e2 I1 I2. unfold remove in *. apply filter_In in I1 as [I1 _]. apply filter_In in I2 as [I2 _]. apply F; assumption.
Qed.

Lemma functional_invariant :
  functional [] /\
  (forall g parent_nx id new_nx, functional g -> child g parent_nx id = None -> functional (insert g parent_nx id new_nx)) /\
  (forall g to_export_nx new_nx new_id g', functional g -> export g to_export_nx new_nx new_id = Some g' -> functional g') /\
  (forall g nx, functional g -> functional (remove g nx)).
Proof.
  split; [exact functional_nil|]. split; [exact insert_functional|]. split; [exact export_functional|exact remove_functional].
Qed.

(* ---------- the greedy analysis seen from rename (known finding, class Known_greedy_untaken_definition) ---------- *)
(* foo: nop / { .if 0 { foo: nop } / lda foo } *)
Definition gr_outer := mkSpan 0 0 0 0 3.
Definition gr_dead := mkSpan 0 3 0 3 3.
Definition gr_occ := mkSpan 0 5 4 5 7.
Definition gr_zz : ident := [122; 122]%N.
Definition gr_slice (_ : Span) : path := [gw_foo].
Definition gr_analysed_events : list Event :=
  [EvDefine 1 (mkLoc 0 gr_outer); EvDefine 3 (mkLoc 2 gr_dead); EvUse gw_table 2 [gw_foo] gr_occ].
Definition gr_build_events : list Event :=
  [EvDefine 1 (mkLoc 0 gr_outer); EvUse (without gw_extra gw_table) 2 [gw_foo] gr_occ].

Lemma greedy_rename_refuted :
  exists a a_b g1 g2,
    run_pass 5 [] gr_analysed_events = Some a /\ run_pass 5 [] gr_build_events = Some a_b /\
    rename_handler 5 gw_table a gr_slice 0 0 0 gr_zz = RenEdits g1 [mkEdit gr_outer [gr_zz]] /\
    rename_handler 5 (without gw_extra gw_table) a_b gr_slice 0 0 0 gr_zz =
      RenEdits g2 [mkEdit gr_outer [gr_zz]; mkEdit gr_occ [gr_zz]].
Proof. do 4 eexists. repeat split; vm_compute; reflexivity. Qed.

(* Proofs about rename: the relabelling that the edited text amounts to (spec/RenameSpec.v) and the handler
   (model/Rename.v). *)
From Coq Require Import List NArith Arith Bool Lia.
Import ListNotations.
From Mos Require Import model.SymGraph model.Analysis model.Rename spec.NavSpec spec.RenameSpec
  proofs.SymGraphProofs proofs.NavProofs proofs.GreedyProofs.

(* ---------- relabel ---------- *)
Lemma relabel_relabelled : forall g c old new, relabelled g (relabel g c old new) c old new.
Proof.
  intros g c old new. unfold relabelled, relabel. induction g as [|e g IH]; cbn; constructor; [|assumption].
  destruct (Nat.eqb (e_dst e) c && ident_eqb (e_lbl e) old) eqn:E; cbn; [|auto].
  apply andb_true_iff in E as [E1 _]. apply Nat.eqb_eq in E1. auto.
Qed.

Lemma relabel_in : forall g c old new e',
  In e' (relabel g c old new) <->
  exists e, In e g /\ e' = if Nat.eqb (e_dst e) c && ident_eqb (e_lbl e) old then mkEdge (e_src e) new c else e.
Proof. intros. unfold relabel. rewrite in_map_iff. split; intros [e [H1 H2]]; exists e; auto. Qed.

Lemma parent_relabel : forall g c old new n, parent (relabel g c old new) n = parent g n.
Proof.
  intros g c old new n. unfold parent, relabel. rewrite <- map_rev. induction (rev g) as [|e l IH]; [reflexivity|]. cbn.
  destruct (Nat.eqb (e_dst e) c && ident_eqb (e_lbl e) old) eqn:E; cbn.
  - apply andb_true_iff in E as [E1 _]. apply Nat.eqb_eq in E1. rewrite E1.
    destruct (Nat.eqb c n); cbn; [reflexivity|]. apply IH.
  - destruct (Nat.eqb (e_dst e) n); cbn; [reflexivity|]. apply IH.
Qed.

(* child, as a relation on edges *)
Lemma child_some : forall g n id t, child g n id = Some t -> In (mkEdge n id t) g.
Proof.
  unfold child. intros g n id t H. destruct (find _ g) as [e|] eqn:F; [|discriminate].
  apply find_some in F as [I P]. apply andb_true_iff in P as [P1 P2]. apply Nat.eqb_eq in P1. apply ident_eqb_eq in P2.
  cbn in H. inversion H. destruct e; cbn in *; subst. assumption.
Qed.

Lemma child_of_edge : forall g n id t, functional g -> In (mkEdge n id t) g -> child g n id = Some t.
Proof.
  unfold child. intros g n id t F I. destruct (find _ g) as [e|] eqn:Fi.
  - apply find_some in Fi as [I' P]. apply andb_true_iff in P as [P1 P2]. apply Nat.eqb_eq in P1. apply ident_eqb_eq in P2.
    cbn. f_equal. apply (F e (mkEdge n id t)); auto.
  - exfalso. pose proof (find_none _ _ Fi _ I) as H. cbn in H. rewrite Nat.eqb_refl, ident_eqb_refl in H. discriminate.
Qed.

Lemma relabel_functional : forall g c old new, functional g -> fresh g new -> functional (relabel g c old new).
Proof.
  intros g c old new F [Fr _] e1 e2 I1 I2 Hs Hl.
  apply relabel_in in I1 as [a [Ia Ea]]. apply relabel_in in I2 as [b [Ib Eb]].
  destruct (Nat.eqb (e_dst a) c && ident_eqb (e_lbl a) old) eqn:Ca; destruct (Nat.eqb (e_dst b) c && ident_eqb (e_lbl b) old) eqn:Cb; subst; cbn in *.
  - reflexivity.
  - exfalso. apply (Fr b Ib). congruence.
  - exfalso. apply (Fr a Ia). congruence.
  - apply F; assumption.
Qed.

Section Iso.
  Variables (g : graph) (c : node) (old new : ident).
  Hypothesis Fun : functional g.
  Hypothesis Fresh : fresh g new.
  Hypothesis OldName : is_super old = false.
  Let g' := relabel g c old new.

  Lemma new_not_super : is_super new = false.
  Proof. exact (proj2 Fresh). Qed.

  Definition seg (t : node) (id : ident) : ident := if Nat.eqb t c && ident_eqb id old then new else id.

  Lemma step_forward : forall n id t, index_step g n id = Some t -> index_step g' n (seg t id) = Some t.
  Proof.
    intros n id t H. unfold seg. destruct (is_super id) eqn:S.
    - assert (E : ident_eqb id old = false).
      { apply ident_eqb_neq. intro. subst. congruence. }
      rewrite E, andb_false_r. unfold index_step in *. rewrite S in *. unfold g'. rewrite parent_relabel. assumption.
    - unfold index_step in H. rewrite S in H. apply child_some in H.
      destruct (Nat.eqb t c && ident_eqb id old) eqn:E.
      + apply andb_true_iff in E as [E1 E2]. apply Nat.eqb_eq in E1. apply ident_eqb_eq in E2. subst t id.
        unfold index_step. rewrite new_not_super. apply child_of_edge; [apply relabel_functional; assumption|].
        apply relabel_in. exists (mkEdge n old c). split; [assumption|]. cbn [e_src e_dst e_lbl].
        rewrite Nat.eqb_refl, ident_eqb_refl. reflexivity.
      + unfold index_step. rewrite S. apply child_of_edge; [apply relabel_functional; assumption|].
        apply relabel_in. exists (mkEdge n id t). split; [assumption|]. cbn [e_src e_dst e_lbl]. rewrite E. reflexivity.
  Qed.

  Lemma step_backward : forall a id id' b,
    (id' = id /\ id <> new) \/ (id' = new /\ id = old) ->
    index_step g' a id' = Some b -> index_step g a id = Some b.
  Proof.
    intros a id id' b Hid H. unfold index_step in *. destruct Hid as [[-> NE]|[-> ->]].
    - destruct (is_super id) eqn:S.
      + unfold g' in H. rewrite parent_relabel in H. assumption.
      + apply child_some in H. apply relabel_in in H as [e [Ie Ee]].
        destruct (Nat.eqb (e_dst e) c && ident_eqb (e_lbl e) old); [inversion Ee; congruence|].
        subst e. apply child_of_edge; assumption.
    - rewrite new_not_super in H. rewrite OldName. apply child_some in H. apply relabel_in in H as [e [Ie Ee]].
      destruct (Nat.eqb (e_dst e) c && ident_eqb (e_lbl e) old) eqn:E.
      + inversion Ee; subst. apply andb_true_iff in E as [E1 E2]. apply Nat.eqb_eq in E1. apply ident_eqb_eq in E2.
        apply child_of_edge; [assumption|]. destruct e; cbn in *; subst. assumption.
      + exfalso. apply (proj1 Fresh e Ie). rewrite <- Ee. reflexivity.
  Qed.

  Lemma walk_forward : forall pth n l, walk g n pth = Some l -> walk g' n (ren_path c old new l pth) = Some l.
  Proof.
    induction pth as [|id pth IH]; intros n l H; cbn in H.
    - inversion H. reflexivity.
    - destruct (index_step g n id) as [t|] eqn:S; [|discriminate].
      destruct (walk g t pth) as [l'|] eqn:W; [|discriminate]. cbn in H. inversion H; subst. cbn.
      fold (seg t id). rewrite (step_forward _ _ _ S). rewrite (IH _ _ W). reflexivity.
  Qed.

  (* the relation between a path and its renaming along the resolving walk (n, l) *)
  Inductive renamed : node -> list node -> path -> path -> Prop :=
  | rn_nil : forall n, renamed n [] [] []
  | rn_cons : forall n t l id pth pth',
      index_step g n id = Some t -> renamed t l pth pth' -> renamed n (t :: l) (id :: pth) (seg t id :: pth').

  Lemma renamed_ren_path : forall pth n l, walk g n pth = Some l -> renamed n l pth (ren_path c old new l pth).
  Proof.
    induction pth as [|id pth IH]; intros n l H; cbn in H.
    - inversion H. constructor.
    - destruct (index_step g n id) as [t|] eqn:S; [|discriminate].
      destruct (walk g t pth) as [l'|] eqn:W; [|discriminate]. cbn in H. inversion H; subst. cbn.
      fold (seg t id). constructor; auto.
  Qed.

  Lemma walk_backward : forall n l pth pth', renamed n l pth pth' ->
    forall m l2, walk g' m pth' = Some l2 -> walk g m pth = Some l2.
  Proof.
    induction 1 as [|n t l id pth pth' S R IH]; intros m l2 W; cbn in W |- *.
    - assumption.
    - destruct (index_step g' m (seg t id)) as [b|] eqn:Sb; [|discriminate].
      destruct (walk g' b pth') as [l3|] eqn:W3; [|discriminate]. cbn in W. inversion W; subst.
      assert (Sg : index_step g m id = Some b).
      { eapply step_backward; [|exact Sb]. unfold seg.
        destruct (Nat.eqb t c && ident_eqb id old) eqn:E.
        - right. apply andb_true_iff in E as [_ E2]. apply ident_eqb_eq in E2. auto.
        - left. split; [reflexivity|]. intro Hn. subst id.
          unfold index_step in S. rewrite new_not_super in S. apply child_some in S.
          apply (proj1 Fresh _ S). reflexivity. }
      rewrite Sg. rewrite (IH _ _ W3). reflexivity.
  Qed.

  Lemma renamed_contains_super : forall n l pth pth', renamed n l pth pth' -> contains_super pth' = contains_super pth.
  Proof.
    unfold contains_super. induction 1 as [|n t l id pth pth' S R IH]; [reflexivity|]. cbn [existsb]. rewrite IH. f_equal.
    unfold seg. destruct (Nat.eqb t c && ident_eqb id old) eqn:E; [|reflexivity].
    apply andb_true_iff in E as [_ E2]. apply ident_eqb_eq in E2. subst. rewrite new_not_super, OldName. reflexivity.
  Qed.

  (* Every lookup that resolved, resolves through the same nodes in the relabelled table when each identifier that
     reached c under the old name is replaced by the new name: same bubbling steps, same Symbol steps. *)
  Theorem relabel_iso : forall fuel scope pth steps,
    pth <> [] ->
    query_traversal_steps fuel g scope pth = Some steps ->
    symbols_of steps <> [] ->
    query_traversal_steps fuel g' scope (ren_path c old new (symbols_of steps) pth) = Some steps.
  Proof.
    induction fuel as [|fuel IH]; intros scope pth steps NE Q Res; [discriminate|].
    cbn in Q. destruct (walk g scope pth) as [l|] eqn:W.
    - destruct pth as [|id pth]; [congruence|]. inversion Q; subst steps; clear Q.
      rewrite symbols_of_map in *. destruct l as [|t l]; [cbn in Res; congruence|].
      pose proof (walk_forward _ _ _ W) as WF. cbn [query_traversal_steps]. rewrite WF.
      destruct (ren_path c old new (t :: l) (id :: pth)) eqn:RP; [cbn in RP; discriminate|]. reflexivity.
    - destruct (contains_super pth) eqn:CS; [inversion Q; subst; cbn in Res; congruence|].
      destruct (parent g scope) as [pn|] eqn:P; [|inversion Q; subst; cbn in Res; congruence].
      destruct (query_traversal_steps fuel g pn pth) as [r|] eqn:Qr; [|discriminate].
      cbn in Q. inversion Q; subst steps; clear Q. cbn [symbols_of] in *.
      pose proof (qts_shape _ _ _ _ _ NE Qr) as Sh.
      pose proof (shape_walk _ _ _ _ Sh Res) as Wr.
      pose proof (renamed_ren_path _ _ _ Wr) as Rn.
      pose proof (IH pn pth r NE Qr Res) as IHr.
      remember (ren_path c old new (symbols_of r) pth) as pth' eqn:Ep.
      cbn [query_traversal_steps].
      destruct (walk g' scope pth') as [l2|] eqn:W2.
      + exfalso. rewrite (walk_backward _ _ _ _ Rn _ _ W2) in W. discriminate.
      + rewrite (renamed_contains_super _ _ _ _ Rn), CS.
        replace (parent g' scope) with (Some pn) by (unfold g'; rewrite parent_relabel; symmetry; exact P).
        rewrite IHr. reflexivity.
  Qed.
End Iso.

(* ---------- renaming back ---------- *)
Lemma relabel_back : forall g c old new, fresh g new -> relabel (relabel g c old new) c new old = g.
Proof.
  intros g c old new [Fr _]. unfold relabel. rewrite map_map. rewrite <- (map_id g) at 2. apply map_ext_in.
  intros e I. destruct (Nat.eqb (e_dst e) c && ident_eqb (e_lbl e) old) eqn:E; cbn.
  - rewrite Nat.eqb_refl, ident_eqb_refl. cbn. apply andb_true_iff in E as [E1 E2]. apply Nat.eqb_eq in E1. apply ident_eqb_eq in E2.
    destruct e as [s l d]; cbn in *. subst. reflexivity.
  - assert (N : ident_eqb (e_lbl e) new = false) by (apply ident_eqb_neq; apply Fr; assumption).
    rewrite N, andb_false_r. reflexivity.
Qed.

Lemma ren_path_back : forall g c old new pth n l,
  fresh g new -> walk g n pth = Some l ->
  ren_path c new old l (ren_path c old new l pth) = pth.
Proof.
  intros g c old new pth n l Fr. revert n l. induction pth as [|id pth IH]; intros n l W; cbn in W.
  - inversion W. reflexivity.
  - destruct (index_step g n id) as [t|] eqn:S; [|discriminate].
    destruct (walk g t pth) as [l'|] eqn:W'; [|discriminate]. cbn in W. inversion W; subst. cbn.
    rewrite (IH _ _ W'). f_equal.
    destruct (Nat.eqb t c && ident_eqb id old) eqn:E.
    + apply andb_true_iff in E as [E1 E2]. rewrite E1, ident_eqb_refl. cbn. apply ident_eqb_eq in E2. congruence.
    + assert (N : ident_eqb id new = false).
      { apply ident_eqb_neq. intro. subst id. unfold index_step in S. rewrite (proj2 Fr) in S.
        apply child_some in S. apply (proj1 Fr _ S). reflexivity. }
      rewrite N, andb_false_r. reflexivity.
Qed.

Lemma roundtrip : forall g c old new,
  fresh g new ->
  relabel (relabel g c old new) c new old = g /\
  forall pth n l, walk g n pth = Some l -> ren_path c new old l (ren_path c old new l pth) = pth.
Proof.
  intros g c old new Fr. split; [apply relabel_back; assumption|].
  intros pth n l W. eapply ren_path_back; eauto.
Qed.

(* ---------- the handler ---------- *)
Lemma in_edits_of : forall names old new dl e,
  In e (edits_of names old new dl) <->
  exists off id, In (off, id) (names (dl_span dl)) /\ id = old /\
                 e = mkEdit (subspan (dl_span dl) off (off + List.length id)) new.
Proof.
  intros. unfold edits_of. rewrite in_map_iff. split.
  - intros [[off id] [E I]]. apply filter_In in I as [I P]. cbn in P. apply ident_eqb_eq in P. exists off, id. cbn in E. auto.
  - intros [off [id [I [-> E]]]]. exists (off, old). cbn. split; [auto|]. apply filter_In. split; [assumption|]. cbn. apply ident_eqb_refl.
Qed.

(* the edits: exactly the places where the symbol found at the position is written with the name under the cursor *)
Lemma rename_symbol_edits : forall names d f l c new old edits,
  rename_symbol names d f l c new = RenEdits old edits ->
  name_under_cursor names d f l c = Some old /\ is_super old = false /\ ident_ok old = true /\
  forall e, In e edits <->
    exists dl off id, In dl (definition_and_usages d) /\ In (off, id) (names (dl_span dl)) /\ id = old /\
                      e = mkEdit (subspan (dl_span dl) off (off + List.length id)) new.
Proof.
  intros names d f l c new old edits H. unfold rename_symbol in H.
  destruct (location d); [|discriminate].
  destruct (name_under_cursor names d f l c) as [o|] eqn:N; [|discriminate].
  destruct (negb (is_super o) && ident_ok o) eqn:K; [|discriminate]. inversion H; subst o edits; clear H.
  apply andb_true_iff in K as [K1 K2]. apply negb_true_iff in K1. repeat split; auto.
  - intro I. apply in_flat_map in I as [dl [Id Ie]]. apply in_edits_of in Ie as [off [id [I1 [I2 I3]]]]. exists dl, off, id. auto.
  - intros [dl [off [id [Id [I1 [I2 I3]]]]]]. apply in_flat_map. exists dl. split; [assumption|]. apply in_edits_of. exists off, id. auto.
Qed.

Lemma edit_text_is_new_name : forall names d f l c new old edits,
  rename_symbol names d f l c new = RenEdits old edits -> forall e, In e edits -> ed_text e = new.
Proof.
  intros names d f l c new old edits H e I. apply rename_symbol_edits in H as [_ [_ [_ S]]].
  apply S in I as [dl [off [id [_ [_ [_ ->]]]]]]. reflexivity.
Qed.

(* the name under the cursor is one of the names of a place of the symbol that contains the position *)
Lemma find_map_some : forall (A B : Type) (f : A -> option B) l y, find_map f l = Some y -> exists x, In x l /\ f x = Some y.
Proof.
  induction l as [|x l IH]; intros y H; cbn in H; [discriminate|].
  destruct (f x) eqn:E; [inversion H; subst; exists x; cbn; auto|]. destruct (IH _ H) as [x' [I F]]. exists x'. cbn. auto.
Qed.

Lemma name_under_cursor_spec : forall names d f l c old,
  name_under_cursor names d f l c = Some old ->
  exists dl off, In dl (definition_and_usages d) /\ span_contains (dl_span dl) f l c = true /\
                 In (off, old) (names (dl_span dl)) /\
                 s_c0 (dl_span dl) + off <= c <= s_c0 (dl_span dl) + off + List.length old.
Proof.
  intros names d f l c old H. unfold name_under_cursor in H. apply find_map_some in H as [dl [I N]].
  apply filter_In in I as [I C]. unfold name_at in N.
  match type of N with option_map snd ?X = _ => destruct X as [[off id]|] eqn:F end; [|discriminate]. cbn in N. inversion N; subst id.
  apply find_some in F as [In_ P]. cbn in P. apply andb_true_iff in P as [P1 P2]. apply Nat.leb_le in P1, P2.
  exists dl, off. auto.
Qed.

(* ---------- the repaired witness: .import x as y from "b.asm" / lda y ---------- *)
Definition w_x : ident := [120]%N.
Definition w_y : ident := [121]%N.
Definition w_zz : ident := [122; 122]%N.
Definition w_def_site := mkSpan 1 0 0 0 1.
Definition w_arg := mkSpan 0 0 8 0 14.
Definition w_use := mkSpan 0 1 4 1 5.
Definition w_analysis : Analysis :=
  [(DtSymbol 2, mkDef (Some (mkLoc 1 w_def_site)) [mkLoc 0 w_use; mkLoc 0 w_arg])].
Definition w_names (s : Span) : list (nat * ident) :=
  if span_eqb s w_use then [(0, w_y)] else if span_eqb s w_arg then [(0, w_x); (5, w_y)]
  else if span_eqb s w_def_site then [(0, w_x)] else [].

(* renaming the alias (cursor on `lda y`) edits the alias half of the argument and the use, not x;
   renaming x (cursor on its definition) edits the definition and the other half *)
Lemma import_alias_repaired :
  rename_handler w_analysis w_names 0 1 4 w_zz =
    RenEdits w_y [mkEdit w_use w_zz; mkEdit (mkSpan 0 0 13 0 14) w_zz] /\
  rename_handler w_analysis w_names 1 0 0 w_zz =
    RenEdits w_x [mkEdit w_def_site w_zz; mkEdit (mkSpan 0 0 8 0 9) w_zz].
Proof. vm_compute. split; reflexivity. Qed.

(* ---------- the greedy analysis seen from rename (known finding, class Known_greedy_untaken_definition) ---------- *)
(* foo: nop / { .if 0 { foo: nop } / lda foo } *)
Definition gr_outer := mkSpan 0 0 0 0 3.
Definition gr_dead := mkSpan 0 3 0 3 3.
Definition gr_occ := mkSpan 0 5 4 5 7.
Definition gr_zz : ident := [122; 122]%N.
Definition gr_names (_ : Span) : list (nat * ident) := [(0, gw_foo)].
Definition gr_analysed_events : list Event :=
  [EvDefine 1 (mkLoc 0 gr_outer); EvDefine 3 (mkLoc 2 gr_dead); EvUse gw_table 2 [gw_foo] gr_occ].
Definition gr_build_events : list Event :=
  [EvDefine 1 (mkLoc 0 gr_outer); EvUse (without gw_extra gw_table) 2 [gw_foo] gr_occ].

Lemma greedy_rename_refuted :
  exists a a_b,
    run_pass 5 [] gr_analysed_events = Some a /\ run_pass 5 [] gr_build_events = Some a_b /\
    rename_handler a gr_names 0 0 0 gr_zz = RenEdits gw_foo [mkEdit gr_outer gr_zz] /\
    rename_handler a_b gr_names 0 0 0 gr_zz = RenEdits gw_foo [mkEdit gr_outer gr_zz; mkEdit gr_occ gr_zz].
Proof. do 2 eexists. repeat split; vm_compute; reflexivity. Qed.

(* ---------- `functional` is an invariant of the table's constructors ---------- *)
Lemma functional_nil : functional [].
Proof. intros e1 e2 []. Qed.

(* add_symbol / ensure_index call insert only after the lookup of that identifier in that node failed *)
Lemma insert_functional : forall g parent_nx id new_nx,
  functional g -> child g parent_nx id = None -> functional (insert g parent_nx id new_nx).
Proof.
  intros g pn id nn F C e1 e2 I1 I2 Hs Hl. unfold insert in *.
  assert (No : forall e, In e g -> e_src e = pn -> e_lbl e = id -> False).
  { intros e I S L. unfold child in C. destruct (find _ g) eqn:Fi; [discriminate|].
    pose proof (find_none _ _ Fi _ I) as H. cbn in H. rewrite S, L, Nat.eqb_refl, ident_eqb_refl in H. discriminate. }
  destruct I1 as [<-|I1]; destruct I2 as [<-|I2]; cbn in *.
  - reflexivity.
  - exfalso. eapply No; eauto.
  - exfalso. eapply No; eauto.
  - apply F; assumption.
Qed.

Lemma export_functional : forall g to_export_nx new_nx new_id g',
  functional g -> export g to_export_nx new_nx new_id = Some g' -> functional g'.
Proof.
  intros g x n id g' F E. unfold export in E.
  destruct (existsb _ g) eqn:Ex; [discriminate|]. inversion E; subst g'; clear E.
  assert (Same : forall e, In e g -> e_src e = n -> e_lbl e = id -> e_dst e = x).
  { intros e I S L. destruct (Nat.eq_dec (e_dst e) x) as [|NE]; [assumption|]. exfalso.
    assert (existsb (fun e => Nat.eqb (e_src e) n && negb (Nat.eqb (e_dst e) x) && ident_eqb (e_lbl e) id) g = true); [|congruence].
    apply existsb_exists. exists e. split; [assumption|]. rewrite S, L, Nat.eqb_refl, ident_eqb_refl.
    apply Nat.eqb_neq in NE. rewrite NE. reflexivity. }
  intros e1 e2 I1 I2 Hs Hl. destruct I1 as [<-|I1]; destruct I2 as [<-|I2]; cbn in *.
  - reflexivity.
  - symmetry. apply Same; auto.
  - apply Same; auto.
  - apply F; assumption.
Qed.

Lemma remove_functional : forall g nx, functional g -> functional (remove g nx).
Proof.
  intros g nx F e1 e2 I1 I2. unfold remove in *. apply filter_In in I1 as [I1 _]. apply filter_In in I2 as [I2 _]. apply F; assumption.
Qed.

Lemma functional_invariant :
  functional [] /\
  (forall g parent_nx id new_nx, functional g -> child g parent_nx id = None -> functional (insert g parent_nx id new_nx)) /\
  (forall g to_export_nx new_nx new_id g', functional g -> export g to_export_nx new_nx new_id = Some g' -> functional g') /\
  (forall g nx, functional g -> functional (remove g nx)).
Proof.
  split; [exact functional_nil|]. split; [exact insert_functional|]. split; [exact export_functional|exact remove_functional].
Qed.

From Coq Require Import List NArith ZArith Bool Lia ZifyBool ZifyN.
Import ListNotations.
From Mos Require Import model.I64 Gen.BinOps Gen.ExprGrammar model.Expr model.ExprParse.
From Mos Require Import spec.ExprPrint.
Open Scope N_scope.

Lemma take_while_app (p : N -> bool) a R :
  forallb p a = true ->
  match R with [] => true | c :: _ => negb (p c) end = true ->
  take_while p (a ++ R) = (a, R).
Proof.
  induction a as [|x a IH]; cbn [app forallb take_while]; intros Ha HR.
  - destruct R as [|c R']; [reflexivity|]. cbn [take_while]. destruct (p c); [discriminate|reflexivity].
  - apply andb_true_iff in Ha as [Hx Ha]. rewrite Hx, (IH Ha HR). reflexivity.
Qed.

Lemma trivia_item_none c r : is_space c = false -> c <> 47 -> trivia_item (c :: r) = None.
Proof.
  intros Hs Hc. unfold trivia_item. rewrite Hs.
  destruct c as [|p]; [reflexivity|].
  do 6 (destruct p as [p|p|]; try reflexivity).
  all: try (exfalso; apply Hc; reflexivity).
Qed.

Lemma ws_nil : ws [] = [].
Proof. reflexivity. Qed.

Lemma ws_stop c r : is_space c = false -> c <> 47 -> ws (c :: r) = c :: r.
Proof.
  intros Hs Hc. unfold ws. cbn [length skip_trivia]. rewrite trivia_item_none by assumption. reflexivity.
Qed.

Ltac cls := unfold is_hex, is_alnum in *; unfold is_digit, is_alpha, is_bin, is_space, is_eol, to_lower in *; lia.

(* a token ends here: end of input, a space, or one of the follow characters *)
Definition tok_end (R : text) : bool :=
  match R with [] => true | c :: _ => (c =? 32) || (c =? 41) || (c =? 44) || (c =? 125) || (c =? 10) end.

Lemma tok_end_class (p : N -> bool) R :
  (forall c, (c =? 32) || (c =? 41) || (c =? 44) || (c =? 125) || (c =? 10) = true -> p c = false) ->
  tok_end R = true -> match R with [] => true | c :: _ => negb (p c) end = true.
Proof. intros Hp H. destruct R as [|c R']; [reflexivity|]. cbn in H. rewrite (Hp c H). reflexivity. Qed.

Lemma many1_ok p a R : a <> [] -> forallb p a = true ->
  match R with [] => true | c :: _ => negb (p c) end = true -> many1 p (a ++ R) = Some (a, R).
Proof.
  intros Hne Ha HR. unfold many1. rewrite take_while_app by assumption.
  destruct a; [contradiction|reflexivity].
Qed.

Lemma digits_ok_ne radix ds : digits_ok radix ds = true -> ds <> [].
Proof. unfold digits_ok. destruct ds; [discriminate|discriminate]. Qed.

Lemma number_ok radix ds R : digits_ok radix ds = true -> tok_end R = true ->
  number (pr_factor (FNum radix ds) ++ R) = Some (ENum radix ds, R).
Proof.
  intros Hd HR. pose proof (digits_ok_ne _ _ Hd) as Hne.
  unfold digits_ok in Hd. apply andb_true_iff in Hd as [_ Hd].
  cbn [pr_factor]. unfold radix_prefix.
  destruct ds as [|d ds']; [contradiction|].
  destruct (radix =? 16)%Z eqn:E16.
  - apply Z.eqb_eq in E16. subst radix.
    assert (Hh : is_hex d = true) by (cbn [forallb] in Hd; apply andb_true_iff in Hd; tauto).
    unfold number. cbn [app]. rewrite (ws_stop 36) by (cbv; congruence || reflexivity).
    cbn [char_]. replace (36 =? 36) with true by reflexivity.
    rewrite (ws_stop d) by cls.
    change (d :: ds' ++ R) with ((d :: ds') ++ R).
    rewrite many1_ok; [reflexivity|discriminate|assumption|].
    apply tok_end_class; [|assumption]. intros c Hc. cls.
  - destruct (radix =? 2)%Z eqn:E2.
    + apply Z.eqb_eq in E2. subst radix.
      assert (Hh : is_bin d = true) by (cbn [forallb] in Hd; apply andb_true_iff in Hd; tauto).
      unfold number. cbn [app]. rewrite (ws_stop 37) by (cbv; congruence || reflexivity).
      cbn [char_]. replace (37 =? 36) with false by reflexivity. replace (37 =? 37) with true by reflexivity.
      rewrite (ws_stop d) by cls.
      change (d :: ds' ++ R) with ((d :: ds') ++ R).
      rewrite many1_ok; [reflexivity|discriminate|assumption|].
      apply tok_end_class; [|assumption]. intros c Hc. cls.
    + apply andb_true_iff in Hd as [E10 Hd]. apply Z.eqb_eq in E10. subst radix.
      assert (Hh : is_digit d = true) by (cbn [forallb] in Hd; apply andb_true_iff in Hd; tauto).
      unfold number. cbn [app]. rewrite (ws_stop d) by cls.
      cbn [char_]. replace (d =? 36) with false by cls. replace (d =? 37) with false by cls.
      change (d :: ds' ++ R) with ((d :: ds') ++ R).
      rewrite many1_ok; [reflexivity|discriminate|assumption|].
      apply tok_end_class; [|assumption]. intros c Hc. cls.
Qed.

Lemma name_ok_split name : name_ok name = true ->
  exists c r, name = c :: r /\ (is_alpha c || (c =? 95)) = true /\
              forallb ident_char name = true /\
              forallb (fun x => is_alnum x || (x =? 95)) r = true.
Proof.
  unfold name_ok. destruct name as [|c r]; [discriminate|]. intros H.
  apply andb_true_iff in H as [H _]. apply andb_true_iff in H as [H _]. apply andb_true_iff in H as [Hc Hr].
  exists c, r. repeat split; try assumption.
  cbn [forallb]. apply andb_true_iff. split; [|exact Hr]. unfold ident_char. cls.
Qed.

Lemma text_eqb_eq' a : forall b, text_eqb a b = true -> a = b.
Proof.
  induction a as [|x a IH]; intros [|y b] H; try discriminate; [reflexivity|].
  cbn in H. apply andb_true_iff in H as [H1 H2]. apply N.eqb_eq in H1. f_equal; auto.
Qed.
Lemma text_eqb_refl' a : text_eqb a a = true.
Proof. induction a as [|x a IH]; cbn; [reflexivity|]. now rewrite N.eqb_refl. Qed.

Lemma name_not_keyword name : name_ok name = true ->
  map to_lower name <> t_true_tag /\ map to_lower name <> t_false_tag.
Proof.
  unfold name_ok. destruct name as [|c r]; [discriminate|]. intros H.
  apply andb_true_iff in H as [H Hf]. apply andb_true_iff in H as [_ Ht].
  apply negb_true_iff in Ht, Hf. split; intros E; rewrite E in *; cbn in *; discriminate.
Qed.

(* one step of the word-bounded tag *)
Lemma tag_no_case_word_cons x t c s : (to_lower c =? x) = true ->
  tag_no_case_word (x :: t) (c :: s) =
  match tag_no_case_word t s with Some (m, r) => Some (c :: m, r) | None => None end.
Proof.
  intros H. unfold tag_no_case_word. cbn [tag_no_case]. rewrite H.
  destruct (tag_no_case t s) as [[m r]|]; [|reflexivity].
  destruct r as [|d r']; [reflexivity|]. destruct (is_alnum d || (d =? 95)); reflexivity.
Qed.

(* a keyword made of letters does not match an identifier that is not that keyword *)
Lemma tag_no_case_word_none : forall t name R,
  forallb is_alpha t = true -> forallb ident_char name = true -> tok_end R = true ->
  map to_lower name <> t -> tag_no_case_word t (name ++ R) = None.
Proof.
  induction t as [|x t IH]; intros name R Ht Hn HR Hne.
  - destruct name as [|c name']; [contradiction|]. cbn [forallb] in Hn. apply andb_true_iff in Hn as [Hc _].
    unfold tag_no_case_word. cbn [tag_no_case app]. unfold ident_char in Hc. rewrite Hc. reflexivity.
  - cbn [forallb] in Ht. apply andb_true_iff in Ht as [Hx Ht].
    destruct name as [|c name']; cbn [app].
    + destruct R as [|d R']; [reflexivity|]. unfold tag_no_case_word. cbn [tag_no_case]. unfold tok_end in HR.
      destruct (to_lower d =? x) eqn:E; [exfalso; unfold to_lower in E; destruct ((65 <=? d) && (d <=? 90)) eqn:Eu; unfold is_alpha in *; lia | reflexivity].
    + cbn [forallb] in Hn. apply andb_true_iff in Hn as [Hc Hn].
      destruct (to_lower c =? x) eqn:E.
      * rewrite tag_no_case_word_cons by exact E. rewrite IH; try assumption; [reflexivity|].
        intros Eq. apply Hne. cbn [map]. apply N.eqb_eq in E. now rewrite E, Eq.
      * unfold tag_no_case_word. cbn [tag_no_case]. rewrite E. reflexivity.
Qed.

Lemma identifier_name_ok name R : name_ok name = true -> tok_end R = true ->
  identifier_name (name ++ R) = Some (name, R).
Proof.
  intros Hn HR. destruct (name_ok_split _ Hn) as (c & r & -> & Hc & _ & Hr).
  unfold identifier_name. cbn [app]. rewrite Hc.
  rewrite take_while_app; [reflexivity|assumption|].
  apply tok_end_class; [|assumption]. intros x Hx. cls.
Qed.

Lemma number_none_on_name name R : name_ok name = true -> tok_end R = true -> number (name ++ R) = None.
Proof.
  intros Hn HR. destruct (name_not_keyword _ Hn) as [Nt Nf].
  destruct (name_ok_split _ Hn) as (c & r & Heq & Hc & Hid & _).
  unfold number. 
  assert (Hws : ws (name ++ R) = name ++ R) by (rewrite Heq; cbn [app]; apply ws_stop; cls).
  rewrite Hws.
  rewrite !tag_no_case_word_none by (assumption || reflexivity).
  rewrite Heq. cbn [app char_]. replace (c =? 36) with false by cls. replace (c =? 37) with false by cls.
  unfold many1. cbn [take_while]. replace (is_digit c) with false by cls. reflexivity.
Qed.

Section WithP.
  Variable p_expr : text -> option (expr * text).

  Lemma ws_name name R : name_ok name = true -> ws (name ++ R) = name ++ R.
  Proof.
    intros Hn. destruct (name_ok_split _ Hn) as (c & r & -> & Hc & _ & _). cbn [app]. apply ws_stop; cls.
  Qed.

  Lemma fn_call_none name R : name_ok name = true -> tok_end R = true -> char_ 40 (ws R) = None ->
    fn_call p_expr (name ++ R) = None.
  Proof.
    intros Hn HR Hp. unfold fn_call. rewrite ws_name, identifier_name_ok by assumption. rewrite Hp. reflexivity.
  Qed.

  Lemma identifier_path_ok name R : name_ok name = true -> tok_end R = true ->
    identifier_path (name ++ R) = Some ([name], R).
  Proof.
    intros Hn HR. unfold identifier_path. rewrite ws_name by assumption. unfold path_elem.
    replace (identifier_scope (name ++ R)) with (@None (text * text)).
    2:{ destruct (name_ok_split _ Hn) as (c & r & -> & Hc & _ & _). cbn [app]. unfold identifier_scope.
        replace ((c =? 45) || (c =? 43)) with false by cls. reflexivity. }
    rewrite identifier_name_ok by assumption.
    replace (path_rest (length R) R) with (@nil text, R); [reflexivity|].
    destruct (length R); [reflexivity|]. cbn [path_rest]. destruct R as [|x R']; [reflexivity|].
    cbn [char_]. cbn in HR. replace (x =? 46) with false by lia. reflexivity.
  Qed.

  Lemma identifier_value_ok name R : name_ok name = true -> tok_end R = true ->
    identifier_value (name ++ R) = Some (EId [name] None, R).
  Proof.
    intros Hn HR. unfold identifier_value. rewrite ws_name by assumption.
    destruct (name_ok_split _ Hn) as (c & r & Heq & Hc & _ & _).
    assert (Hm : split_modifier (name ++ R) (name ++ R) = (@None modifier, name ++ R)).
    { rewrite Heq. cbn [app]. unfold split_modifier. destruct c as [|p]; [reflexivity|].
      do 6 (destruct p as [p|p|]; try reflexivity); exfalso; cls. }
    rewrite Hm. rewrite ws_name by assumption. rewrite identifier_path_ok by assumption. reflexivity.
  Qed.

  Lemma factor_id name R : name_ok name = true -> tok_end R = true -> char_ 40 (ws R) = None ->
    expression_factor p_expr (name ++ R) = Some (EId [name] None false false, R).
  Proof.
    intros Hn HR Hp.
    unfold expression_factor. rewrite ws_name by assumption.
    unfold expression_factor_inner, factor_alternatives. cbn [alt_first factor_alt].
    rewrite number_none_on_name, fn_call_none, identifier_value_ok by assumption. reflexivity.
  Qed.

  Lemma factor_num radix ds R : digits_ok radix ds = true -> tok_end R = true ->
    expression_factor p_expr (pr_factor (FNum radix ds) ++ R) = Some (ENum radix ds false false, R).
  Proof.
    intros Hd HR.
    assert (Hws : ws (pr_factor (FNum radix ds) ++ R) = pr_factor (FNum radix ds) ++ R).
    { pose proof (digits_ok_ne _ _ Hd) as Hne. unfold digits_ok in Hd. apply andb_true_iff in Hd as [_ Hd].
      cbn [pr_factor]. unfold radix_prefix. destruct ds as [|d ds']; [contradiction|].
      cbn [forallb] in Hd.
      destruct (radix =? 16)%Z; [cbn [app]; apply ws_stop; cbv; congruence|].
      destruct (radix =? 2)%Z; [cbn [app]; apply ws_stop; cbv; congruence|].
      apply andb_true_iff in Hd as [_ Hd]. apply andb_true_iff in Hd as [Hd _].
      cbn [app]. apply ws_stop; cls. }
    unfold expression_factor. rewrite Hws.
    unfold expression_factor_inner, factor_alternatives. cbn [alt_first factor_alt].
    rewrite number_ok by assumption. reflexivity.
  Qed.

  (* parentheses: the inner expression is parsed by p_expr *)
  Lemma factor_parens l e R : 
    p_expr (pr_loose l ++ 41 :: R) = Some (e, 41 :: R) ->
    expression_factor p_expr (pr_factor (FParens l) ++ R) = Some (EParens e false false, R).
  Proof.
    intros Hp. cbn [pr_factor app]. rewrite <- app_assoc. cbn [app].
    unfold expression_factor. rewrite (ws_stop 40) by (cbv; congruence).
    unfold expression_factor_inner, factor_alternatives. cbn [alt_first factor_alt].
    replace (number (40 :: pr_loose l ++ 41 :: R)) with (@None ((bool -> bool -> expr) * text)).
    2:{ unfold number. rewrite (ws_stop 40) by (cbv; congruence). reflexivity. }
    replace (fn_call p_expr (40 :: pr_loose l ++ 41 :: R)) with (@None ((bool -> bool -> expr) * text)).
    2:{ unfold fn_call. rewrite (ws_stop 40) by (cbv; congruence). reflexivity. }
    replace (identifier_value (40 :: pr_loose l ++ 41 :: R)) with (@None ((bool -> bool -> expr) * text)).
    2:{ unfold identifier_value, split_modifier. rewrite (ws_stop 40) by (cbv; congruence). cbv beta iota.
        unfold identifier_path. rewrite (ws_stop 40) by (cbv; congruence). reflexivity. }
    replace (current_pc (40 :: pr_loose l ++ 41 :: R)) with (@None ((bool -> bool -> expr) * text)).
    2:{ unfold current_pc. rewrite (ws_stop 40) by (cbv; congruence). reflexivity. }
    unfold expression_parens. rewrite (ws_stop 40) by (cbv; congruence). cbn [char_].
    replace (40 =? 40) with true by reflexivity. rewrite Hp.
    rewrite (ws_stop 41) by (cbv; congruence). cbn [char_]. replace (41 =? 41) with true by reflexivity.
    reflexivity.
  Qed.
End WithP.

(* ---------- operators ---------- *)
Lemma op_step table op X : (table = tight_ops \/ table = loose_ops) -> in_table table op = true ->
  match_op table (ws (32 :: op_text table op ++ 32 :: X)) = Some (op, 32 :: X).
Proof.
  intros [-> | ->] H; destruct op; try discriminate H; reflexivity.
Qed.

Lemma tight_stops_on_loose op X : in_table loose_ops op = true ->
  match_op tight_ops (ws (32 :: op_text loose_ops op ++ 32 :: X)) = None.
Proof. intros H; destruct op; try discriminate H; reflexivity. Qed.

Lemma follow_cases R : follow_ok R = true ->
  R = [] \/ exists c R', R = c :: R' /\ (c = 41 \/ c = 44 \/ c = 125 \/ c = 10).
Proof.
  destruct R as [|c R']; [now left|]. cbn. intros H. right. exists c, R'. split; [reflexivity|]. lia.
Qed.

Lemma stops_on_follow table R : (table = tight_ops \/ table = loose_ops) -> follow_ok R = true ->
  match_op table (ws R) = None.
Proof.
  intros Ht H. destruct (follow_cases _ H) as [-> | (c & R' & -> & Hc)].
  - destruct Ht as [-> | ->]; reflexivity.
  - rewrite ws_stop by (destruct Hc as [-> | [-> | [-> | ->]]]; cbv; congruence).
    destruct Ht as [-> | ->]; destruct Hc as [-> | [-> | [-> | ->]]]; reflexivity.
Qed.

Definition R_ok (R : text) : Prop := tok_end R = true /\ char_ 40 (ws R) = None.

Lemma R_ok_follow R : follow_ok R = true -> R_ok R.
Proof.
  intros H. destruct (follow_cases _ H) as [-> | (c & R' & -> & Hc)]; [split; reflexivity|].
  split; [cbn; lia|]. rewrite ws_stop by (destruct Hc as [-> | [-> | [-> | ->]]]; cbv; congruence).
  destruct Hc as [-> | [-> | [-> | ->]]]; reflexivity.
Qed.

Lemma R_ok_op table op X : (table = tight_ops \/ table = loose_ops) -> in_table table op = true ->
  R_ok (32 :: op_text table op ++ 32 :: X).
Proof.
  intros [-> | ->] H; (split; [reflexivity|]); destruct op; try discriminate H; reflexivity.
Qed.

(* ---------- the operator loop, generically ---------- *)
Section Loop.
  Variable table : list (text * binop).
  Variable lower : text -> option (expr * text).
  Variable B : Type.
  Variable prB : B -> text.
  Variable exprB : B -> expr.
  Variable okB : B -> Prop.
  Variable cont_ok : text -> Prop.
  Hypothesis Htable : table = tight_ops \/ table = loose_ops.
  Hypothesis Hlower : forall b R, okB b -> cont_ok R -> lower (32 :: prB b ++ R) = Some (exprB b, R).
  Hypothesis Hcont_op : forall op X, in_table table op = true -> cont_ok (32 :: op_text table op ++ 32 :: X).

  Definition pr_items (items : list (binop * B)) : text :=
    concat (map (fun ob => 32 :: op_text table (fst ob) ++ 32 :: prB (snd ob)) items).
  Definition fold_items (items : list (binop * B)) (acc : expr) : expr :=
    fold_left (fun a ob => EBin (fst ob) a (exprB (snd ob))) items acc.
  Definition items_ok (items : list (binop * B)) : Prop :=
    Forall (fun ob => in_table table (fst ob) = true /\ okB (snd ob)) items.

  Lemma cont_items items R : items_ok items -> cont_ok R -> cont_ok (pr_items items ++ R).
  Proof.
    intros Hi HR. destruct items as [|[op b] rest]; [exact HR|].
    unfold pr_items. cbn [map concat fst snd app]. inversion Hi as [|? ? [Hop _] _]; subst.
    cbn [fst] in Hop. rewrite <- ?app_assoc; cbn [app]; rewrite <- ?app_assoc. apply Hcont_op. exact Hop.
  Qed.

  Lemma loop_ok items : forall acc R m, items_ok items -> cont_ok R ->
    fold_ops (length items + m) table lower acc (pr_items items ++ R) = fold_ops m table lower (fold_items items acc) R.
  Proof.
    induction items as [|[op b] rest IH]; intros acc R m Hi HR; [reflexivity|].
    inversion Hi as [|? ? [Hop Hb] Hrest]; subst. cbn [fst snd] in Hop, Hb.
    unfold pr_items. cbn [map concat fst snd length plus]. fold (pr_items rest).
    cbn [app]. rewrite <- ?app_assoc; cbn [app]; rewrite <- ?app_assoc.
    cbn [fold_ops]. rewrite (op_step table op) by assumption.
    rewrite Hlower; [|assumption|apply cont_items; assumption].
    unfold fold_items. cbn [fold_left fst snd]. apply IH; assumption.
  Qed.

  (* the loop stops where no operator of this level follows *)
  Lemma loop_stops items acc R n : items_ok items -> cont_ok R -> match_op table (ws R) = None ->
    (length items <= n)%nat ->
    fold_ops n table lower acc (pr_items items ++ R) = (fold_items items acc, R).
  Proof.
    intros Hi HR Hstop Hn. replace n with (length items + (n - length items))%nat by lia.
    rewrite loop_ok by assumption. destruct (n - length items)%nat; [reflexivity|].
    cbn [fold_ops]. rewrite Hstop. reflexivity.
  Qed.

  Lemma pr_items_length items : (length items <= length (pr_items items))%nat.
  Proof.
    induction items as [|ob rest IH]; [apply Nat.le_refl|].
    unfold pr_items in *. cbn [map concat length]. rewrite app_length. cbn [length]. lia.
  Qed.
End Loop.

(* ---------- chains as head + items ---------- *)
Fixpoint tight_head (t : tight) : factor := match t with T1 f => f | TBin t _ _ => tight_head t end.
Fixpoint tight_list (t : tight) : list (binop * factor) :=
  match t with T1 _ => [] | TBin t op f => tight_list t ++ [(op, f)] end.
Fixpoint loose_head (l : loose) : tight := match l with L1 t => t | LBin l _ _ => loose_head l end.
Fixpoint loose_list (l : loose) : list (binop * tight) :=
  match l with L1 _ => [] | LBin l op t => loose_list l ++ [(op, t)] end.

Lemma pr_items_app table B (prB : B -> text) a b :
  pr_items table B prB (a ++ b) = pr_items table B prB a ++ pr_items table B prB b.
Proof. unfold pr_items. rewrite map_app, concat_app. reflexivity. Qed.

Lemma pr_tight_chain t : pr_tight t = pr_factor (tight_head t) ++ pr_items tight_ops factor pr_factor (tight_list t).
Proof.
  induction t as [f|t IH op f]; cbn [pr_tight tight_head tight_list].
  - unfold pr_items. cbn. now rewrite app_nil_r.
  - rewrite IH, pr_items_app. unfold pr_items at 3. cbn [map concat fst snd app].
    rewrite app_nil_r. rewrite <- !app_assoc. reflexivity.
Qed.
Lemma pr_loose_chain l : pr_loose l = pr_tight (loose_head l) ++ pr_items loose_ops tight pr_tight (loose_list l).
Proof.
  induction l as [t|l IH op t]; cbn [pr_loose loose_head loose_list].
  - unfold pr_items. cbn. now rewrite app_nil_r.
  - rewrite IH, pr_items_app. unfold pr_items at 3. cbn [map concat fst snd app].
    rewrite app_nil_r. rewrite <- !app_assoc. reflexivity.
Qed.
Lemma expr_tight_chain t :
  expr_of_tight t = fold_items factor expr_of_factor (tight_list t) (expr_of_factor (tight_head t)).
Proof.
  induction t as [f|t IH op f]; cbn [expr_of_tight tight_head tight_list]; [reflexivity|].
  unfold fold_items in *. rewrite fold_left_app. cbn [fold_left fst snd]. now rewrite <- IH.
Qed.
Lemma expr_loose_chain l :
  expr_of_loose l = fold_items tight expr_of_tight (loose_list l) (expr_of_tight (loose_head l)).
Proof.
  induction l as [t|l IH op t]; cbn [expr_of_loose loose_head loose_list]; [reflexivity|].
  unfold fold_items in *. rewrite fold_left_app. cbn [fold_left fst snd]. now rewrite <- IH.
Qed.

(* nesting depth of parentheses *)
Fixpoint depth_loose (l : loose) : nat :=
  match l with L1 t => depth_tight t | LBin l _ t => Nat.max (depth_loose l) (depth_tight t) end
with depth_tight (t : tight) : nat :=
  match t with T1 f => depth_factor f | TBin t _ f => Nat.max (depth_tight t) (depth_factor f) end
with depth_factor (f : factor) : nat :=
  match f with FParens l => S (depth_loose l) | _ => 0%nat end.

Lemma ws_space c r : is_space c = false -> ws (32 :: c :: r) = ws (c :: r).
Proof.
  intros Hc. unfold ws. cbn [length skip_trivia]. unfold trivia_item at 1.
  replace (is_space 32) with true by reflexivity. cbn [take_while].
  replace (is_space 32) with true by reflexivity. rewrite Hc. reflexivity.
Qed.

Lemma pr_factor_hd f : wf_factor f = true -> exists c r, pr_factor f = c :: r /\ is_space c = false.
Proof.
  destruct f as [radix ds|name|l]; cbn [wf_factor pr_factor]; intros H.
  - pose proof (digits_ok_ne _ _ H) as Hne. unfold digits_ok in H. apply andb_true_iff in H as [_ H].
    unfold radix_prefix. destruct ds as [|d ds']; [contradiction|]. cbn [forallb] in H.
    destruct (radix =? 16)%Z; [exists 36, (d :: ds'); split; reflexivity|].
    destruct (radix =? 2)%Z; [exists 37, (d :: ds'); split; reflexivity|].
    apply andb_true_iff in H as [_ H]. apply andb_true_iff in H as [H _].
    exists d, ds'. split; [reflexivity|cls].
  - destruct (name_ok_split _ H) as (c & r & -> & Hc & _ & _). exists c, r. split; [reflexivity|cls].
  - exists 40, (pr_loose l ++ [41]). split; reflexivity.
Qed.

Lemma wf_tight_head t : wf_tight t = true -> wf_factor (tight_head t) = true.
Proof. induction t as [f|t IH op f]; cbn [wf_tight tight_head]; [auto|]. intros H. apply IH. 
  apply andb_true_iff in H as [H _]. apply andb_true_iff in H as [H _]. exact H. Qed.
Lemma wf_loose_head l : wf_loose l = true -> wf_tight (loose_head l) = true.
Proof. induction l as [t|l IH op t]; cbn [wf_loose loose_head]; [auto|]. intros H. apply IH. 
  apply andb_true_iff in H as [H _]. apply andb_true_iff in H as [H _]. exact H. Qed.

Lemma pr_tight_hd t : wf_tight t = true -> exists c r, pr_tight t = c :: r /\ is_space c = false.
Proof.
  intros H. rewrite pr_tight_chain. destruct (pr_factor_hd _ (wf_tight_head _ H)) as (c & r & -> & Hc).
  exists c, (r ++ pr_items tight_ops factor pr_factor (tight_list t)). split; [reflexivity|exact Hc].
Qed.

Lemma expression_factor_ws P s1 s2 : ws s1 = ws s2 -> expression_factor P s1 = expression_factor P s2.
Proof. intros H. unfold expression_factor. rewrite H. reflexivity. Qed.
Lemma expression_term_ws P s1 s2 : ws s1 = ws s2 -> expression_term P s1 = expression_term P s2.
Proof. intros H. unfold expression_term. rewrite (expression_factor_ws P s1 s2 H). reflexivity. Qed.

Section Level.
  Variable P : text -> option (expr * text).
  Variable n : nat.
  Hypothesis HP : forall l R, (depth_loose l < n)%nat -> wf_loose l = true ->
    P (pr_loose l ++ 41 :: R) = Some (expr_of_loose l, 41 :: R).

  Lemma factor_ok f R : wf_factor f = true -> (depth_factor f <= n)%nat -> R_ok R ->
    expression_factor P (pr_factor f ++ R) = Some (expr_of_factor f, R).
  Proof.
    intros Hw Hd [HR Hp]. destruct f as [radix ds|name|l]; cbn [wf_factor depth_factor expr_of_factor] in *.
    - apply factor_num; assumption.
    - cbn [pr_factor]. apply factor_id; assumption.
    - apply factor_parens. apply HP; [lia|assumption].
  Qed.

  Lemma factor_ok_sp f R : wf_factor f = true -> (depth_factor f <= n)%nat -> R_ok R ->
    expression_factor P (32 :: pr_factor f ++ R) = Some (expr_of_factor f, R).
  Proof.
    intros Hw Hd HR. rewrite <- (factor_ok f R Hw Hd HR). apply expression_factor_ws.
    destruct (pr_factor_hd _ Hw) as (c & r & -> & Hc). cbn [app]. apply ws_space. exact Hc.
  Qed.

  Definition tight_items_ok (t : tight) : Prop :=
    items_ok tight_ops factor (fun f => wf_factor f = true /\ (depth_factor f <= n)%nat) (tight_list t).
  Lemma tight_items_ok_of t : wf_tight t = true -> (depth_tight t <= n)%nat -> tight_items_ok t.
  Proof.
    unfold tight_items_ok, items_ok. induction t as [f|t IH op f]; cbn [wf_tight depth_tight tight_list]; intros Hw Hd; [constructor|].
    apply andb_true_iff in Hw as [Hw Hf]. apply andb_true_iff in Hw as [Hw Hop].
    apply Forall_app. split; [apply IH; [assumption|lia]|].
    constructor; [|constructor]. cbn [fst snd]. repeat split; [assumption|assumption|lia].
  Qed.
  Lemma depth_tight_head t : (depth_factor (tight_head t) <= depth_tight t)%nat.
  Proof. induction t as [f|t IH op f]; cbn [tight_head depth_tight]; lia. Qed.

  Lemma tight_ok t R : wf_tight t = true -> (depth_tight t <= n)%nat -> R_ok R ->
    match_op tight_ops (ws R) = None ->
    expression_term P (pr_tight t ++ R) = Some (expr_of_tight t, R).
  Proof.
    intros Hw Hd HR Hstop. pose proof (tight_items_ok_of t Hw Hd) as Hi.
    assert (Hcont : R_ok (pr_items tight_ops factor pr_factor (tight_list t) ++ R)).
    { apply (cont_items tight_ops factor pr_factor (fun f => wf_factor f = true /\ (depth_factor f <= n)%nat) R_ok); try assumption.
      intros op X Hop. apply R_ok_op; [now left|assumption]. }
    unfold expression_term. rewrite pr_tight_chain, <- app_assoc.
    rewrite factor_ok; [|apply wf_tight_head; assumption|pose proof (depth_tight_head t); lia|assumption].
    rewrite (loop_stops tight_ops (expression_factor P) factor pr_factor expr_of_factor
               (fun f => wf_factor f = true /\ (depth_factor f <= n)%nat) R_ok); try assumption.
    - rewrite <- expr_tight_chain. reflexivity.
    - now left.
    - intros b R0 [Hb1 Hb2] HR0. apply factor_ok_sp; assumption.
    - intros op X Hop. apply R_ok_op; [now left|assumption].
    - rewrite app_length. pose proof (pr_items_length tight_ops factor pr_factor (tight_list t)). lia.
  Qed.

  Lemma tight_ok_sp t R : wf_tight t = true -> (depth_tight t <= n)%nat -> R_ok R ->
    match_op tight_ops (ws R) = None ->
    expression_term P (32 :: pr_tight t ++ R) = Some (expr_of_tight t, R).
  Proof.
    intros Hw Hd HR Hs. rewrite <- (tight_ok t R Hw Hd HR Hs). apply expression_term_ws.
    destruct (pr_tight_hd _ Hw) as (c & r & -> & Hc). cbn [app]. apply ws_space. exact Hc.
  Qed.

  Definition cont_loose (R : text) : Prop := R_ok R /\ match_op tight_ops (ws R) = None.

  Lemma loose_items_ok_of l : wf_loose l = true -> (depth_loose l <= n)%nat ->
    items_ok loose_ops tight (fun t => wf_tight t = true /\ (depth_tight t <= n)%nat) (loose_list l).
  Proof.
    unfold items_ok. induction l as [t|l IH op t]; cbn [wf_loose depth_loose loose_list]; intros Hw Hd; [constructor|].
    apply andb_true_iff in Hw as [Hw Ht]. apply andb_true_iff in Hw as [Hw Hop].
    apply Forall_app. split; [apply IH; [assumption|lia]|].
    constructor; [|constructor]. cbn [fst snd]. repeat split; [assumption|assumption|lia].
  Qed.
  Lemma depth_loose_head l : (depth_tight (loose_head l) <= depth_loose l)%nat.
  Proof. induction l as [t|l IH op t]; cbn [loose_head depth_loose]; lia. Qed.

  Lemma loose_ok l R : wf_loose l = true -> (depth_loose l <= n)%nat -> follow_ok R = true ->
    expression_body P (pr_loose l ++ R) = Some (expr_of_loose l, R).
  Proof.
    intros Hw Hd HR. pose proof (loose_items_ok_of l Hw Hd) as Hi.
    assert (HcR : cont_loose R) by (split; [apply R_ok_follow; assumption|apply stops_on_follow; [now left|assumption]]).
    assert (Hop : forall op X, in_table loose_ops op = true -> cont_loose (32 :: op_text loose_ops op ++ 32 :: X)).
    { intros op X H. split; [apply R_ok_op; [now right|assumption]|apply tight_stops_on_loose; assumption]. }
    assert (Hcont : cont_loose (pr_items loose_ops tight pr_tight (loose_list l) ++ R)).
    { apply (cont_items loose_ops tight pr_tight (fun t => wf_tight t = true /\ (depth_tight t <= n)%nat) cont_loose); assumption. }
    unfold expression_body. rewrite pr_loose_chain, <- app_assoc.
    destruct Hcont as [Hc1 Hc2].
    rewrite tight_ok; [|apply wf_loose_head; assumption|pose proof (depth_loose_head l); lia|assumption|assumption].
    rewrite (loop_stops loose_ops (expression_term P) tight pr_tight expr_of_tight
               (fun t => wf_tight t = true /\ (depth_tight t <= n)%nat) cont_loose); try assumption.
    - rewrite <- expr_loose_chain. reflexivity.
    - now right.
    - intros b R0 [Hb1 Hb2] [HR1 HR2]. apply tight_ok_sp; assumption.
    - apply stops_on_follow; [now right|assumption].
    - rewrite app_length. pose proof (pr_items_length loose_ops tight pr_tight (loose_list l)). lia.
  Qed.
End Level.

Theorem expression_roundtrip : forall n l R, (depth_loose l < n)%nat -> wf_loose l = true -> follow_ok R = true ->
  expression n (pr_loose l ++ R) = Some (expr_of_loose l, R).
Proof.
  induction n as [|n IH]; intros l R Hd Hw HR; [lia|].
  cbn [expression]. apply (loose_ok (expression n) n); try assumption; [|lia].
  intros l' R' Hd' Hw'. apply IH; [assumption|assumption|reflexivity].
Qed.

Lemma depth_le_length :
  (forall l, (depth_loose l <= length (pr_loose l))%nat) /\
  (forall t, (depth_tight t <= length (pr_tight t))%nat) /\
  (forall f, (depth_factor f <= length (pr_factor f))%nat).
Proof.
  assert (H : forall k,
    (forall l, (depth_loose l <= k -> depth_loose l <= length (pr_loose l))%nat) /\
    (forall t, (depth_tight t <= k -> depth_tight t <= length (pr_tight t))%nat) /\
    (forall f, (depth_factor f <= k -> depth_factor f <= length (pr_factor f))%nat)).
  2:{ repeat split; intros x; eapply (H _); apply Nat.le_refl. }
  induction k as [|k IHk].
  - repeat split; intros x Hx; lia.
  - destruct IHk as (IHl & IHt & IHf).
    assert (Hf : forall f, (depth_factor f <= S k -> depth_factor f <= length (pr_factor f))%nat).
    { intros [radix ds|name|l]; cbn [depth_factor pr_factor]; intros Hx; try lia.
      cbn [app length]. rewrite app_length. cbn [length]. specialize (IHl l). lia. }
    assert (Ht : forall t, (depth_tight t <= S k -> depth_tight t <= length (pr_tight t))%nat).
    { induction t as [f|t IHt' op f]; cbn [depth_tight pr_tight]; intros Hx; [apply Hf; assumption|].
      rewrite !app_length. specialize (Hf f). lia. }
    repeat split; try assumption.
    induction l as [t|l IHl' op t]; cbn [depth_loose pr_loose]; intros Hx; [apply Ht; assumption|].
    rewrite !app_length. specialize (Ht t). lia.
Qed.

(* the round trip for the parser entry point *)
Theorem parse_print_roundtrip : forall l R, wf_loose l = true -> follow_ok R = true ->
  parse_expression (pr_loose l ++ R) = Some (expr_of_loose l, R).
Proof.
  intros l R Hw HR. unfold parse_expression. apply expression_roundtrip; try assumption.
  destruct depth_le_length as (Hl & _ & _). specialize (Hl l). rewrite app_length. lia.
Qed.

(* corollaries: the two documented precedence facts and parentheses, for ALL operand factors *)
Corollary mul_binds_tighter : forall lop top a b c R,
  in_table loose_ops lop = true -> in_table tight_ops top = true ->
  wf_factor a = true -> wf_factor b = true -> wf_factor c = true -> follow_ok R = true ->
  parse_expression (pr_loose (LBin (L1 (T1 a)) lop (TBin (T1 b) top c)) ++ R)
  = Some (EBin lop (expr_of_factor a) (EBin top (expr_of_factor b) (expr_of_factor c)), R).
Proof.
  intros. apply (parse_print_roundtrip (LBin (L1 (T1 a)) lop (TBin (T1 b) top c))); [|assumption].
  cbn [wf_loose wf_tight]. repeat (apply andb_true_iff; split); assumption.
Qed.

Corollary left_assoc_loose : forall op1 op2 a b c R,
  in_table loose_ops op1 = true -> in_table loose_ops op2 = true ->
  wf_factor a = true -> wf_factor b = true -> wf_factor c = true -> follow_ok R = true ->
  parse_expression (pr_loose (LBin (LBin (L1 (T1 a)) op1 (T1 b)) op2 (T1 c)) ++ R)
  = Some (EBin op2 (EBin op1 (expr_of_factor a) (expr_of_factor b)) (expr_of_factor c), R).
Proof.
  intros. apply (parse_print_roundtrip (LBin (LBin (L1 (T1 a)) op1 (T1 b)) op2 (T1 c))); [|assumption].
  cbn [wf_loose wf_tight]. repeat (apply andb_true_iff; split); assumption.
Qed.

Corollary left_assoc_tight : forall op1 op2 a b c R,
  in_table tight_ops op1 = true -> in_table tight_ops op2 = true ->
  wf_factor a = true -> wf_factor b = true -> wf_factor c = true -> follow_ok R = true ->
  parse_expression (pr_loose (L1 (TBin (TBin (T1 a) op1 b) op2 c)) ++ R)
  = Some (EBin op2 (EBin op1 (expr_of_factor a) (expr_of_factor b)) (expr_of_factor c), R).
Proof.
  intros. apply (parse_print_roundtrip (L1 (TBin (TBin (T1 a) op1 b) op2 c))); [|assumption].
  cbn [wf_loose wf_tight]. repeat (apply andb_true_iff; split); assumption.
Qed.

Corollary parens_override : forall lop top a b c R,
  in_table loose_ops lop = true -> in_table tight_ops top = true ->
  wf_factor a = true -> wf_factor b = true -> wf_factor c = true -> follow_ok R = true ->
  parse_expression (pr_loose (L1 (TBin (T1 (FParens (LBin (L1 (T1 a)) lop (T1 b)))) top c)) ++ R)
  = Some (EBin top (EParens (EBin lop (expr_of_factor a) (expr_of_factor b)) false false) (expr_of_factor c), R).
Proof.
  intros. apply (parse_print_roundtrip (L1 (TBin (T1 (FParens (LBin (L1 (T1 a)) lop (T1 b)))) top c))); [|assumption].
  cbn [wf_loose wf_tight wf_factor]. repeat (apply andb_true_iff; split); assumption.
Qed.

Corollary left_assoc : forall a b c R,
  wf_factor a = true -> wf_factor b = true -> wf_factor c = true -> follow_ok R = true ->
  (forall op1 op2, in_table loose_ops op1 = true -> in_table loose_ops op2 = true ->
     parse_expression (pr_loose (LBin (LBin (L1 (T1 a)) op1 (T1 b)) op2 (T1 c)) ++ R)
     = Some (EBin op2 (EBin op1 (expr_of_factor a) (expr_of_factor b)) (expr_of_factor c), R)) /\
  (forall op1 op2, in_table tight_ops op1 = true -> in_table tight_ops op2 = true ->
     parse_expression (pr_loose (L1 (TBin (TBin (T1 a) op1 b) op2 c)) ++ R)
     = Some (EBin op2 (EBin op1 (expr_of_factor a) (expr_of_factor b)) (expr_of_factor c), R)).
Proof. intros. split; intros; [apply left_assoc_loose|apply left_assoc_tight]; assumption. Qed.

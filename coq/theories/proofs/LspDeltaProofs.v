(* to_deltas (model/Lsp.v Part D) against the LSP decoding of spec/LspSpec.v. *)
From Coq Require Import List NArith Arith Bool Lia.
From Mos Require Import model.Lsp spec.LspSpec.
Import ListNotations.

Definition kle (a b : span_loc) : Prop := b_line a < b_line b \/ (b_line a = b_line b /\ b_col a <= b_col b).
Lemma key_le_iff : forall a b, key_le a b = true <-> kle a b.
Proof.
  intros. unfold key_le, kle. rewrite orb_true_iff, andb_true_iff, Nat.ltb_lt, Nat.eqb_eq, Nat.leb_le. tauto.
Qed.
Lemma key_le_false : forall a b, key_le a b = false -> kle b a.
Proof.
  intros a b H. destruct (key_le b a) eqn:E; [apply key_le_iff; auto|].
  exfalso. unfold key_le in *. apply orb_false_iff in H, E. destruct H as [H1 H2], E as [E1 E2].
  apply Nat.ltb_ge in H1, E1. apply andb_false_iff in H2, E2.
  rewrite Nat.eqb_neq, Nat.leb_gt in H2, E2. lia.
Qed.
Lemma kle_trans : forall a b c, kle a b -> kle b c -> kle a c.
Proof. unfold kle. intros. lia. Qed.

(* sorted by key: every element is <= all later ones *)
Fixpoint ksorted (l : list span_loc) : Prop :=
  match l with [] => True | a :: r => Forall (kle a) r /\ ksorted r end.

Lemma insert_sorted_Forall : forall (P : span_loc -> Prop) x l, P x -> Forall P l -> Forall P (insert_sorted x l).
Proof.
  induction l as [|y r IH]; simpl; intros Hx Hl; auto.
  inversion Hl; subst. destruct (key_le y x); auto.
Qed.
Lemma insert_sorted_ksorted : forall x l, ksorted l -> ksorted (insert_sorted x l).
Proof.
  induction l as [|y r IH]; simpl; intros H; auto.
  destruct H as [Hy Hr]. destruct (key_le y x) eqn:E.
  - simpl. split; auto. apply insert_sorted_Forall; auto. apply key_le_iff; auto.
  - simpl. apply key_le_false in E. repeat split; auto.
    constructor; auto. eapply Forall_impl; [|apply Hy]. intros. eapply kle_trans; eauto.
Qed.
Lemma sort_by_key_ksorted : forall l, ksorted (sort_by_key l).
Proof.
  intro l. unfold sort_by_key. induction (rev l); simpl; auto. apply insert_sorted_ksorted; auto.
Qed.
Lemma sort_by_key_Forall : forall (P : span_loc -> Prop) l, Forall P l -> Forall P (sort_by_key l).
Proof.
  intros P l H. unfold sort_by_key. apply Forall_rev in H. induction H; simpl; auto.
  apply insert_sorted_Forall; auto.
Qed.
Lemma sort_by_key_snoc : forall l x, sort_by_key (l ++ [x]) = insert_sorted x (sort_by_key l).
Proof. intros. unfold sort_by_key. rewrite rev_app_distr. reflexivity. Qed.

Lemma insert_sorted_last : forall x l, Forall (fun y => kle y x) l -> insert_sorted x l = l ++ [x].
Proof.
  induction l as [|y r IH]; simpl; intro H; auto. inversion H; subst.
  replace (key_le y x) with true by (symmetry; apply key_le_iff; auto). f_equal. auto.
Qed.
Lemma ksorted_snoc : forall l x, ksorted (l ++ [x]) -> ksorted l /\ Forall (fun y => kle y x) l.
Proof.
  induction l as [|a r IH]; simpl; intros x H; auto.
  destruct H as [Ha Hr]. apply IH in Hr. destruct Hr. apply Forall_app in Ha. destruct Ha as [Ha1 Ha2].
  inversion Ha2; subst. repeat split; auto.
Qed.
Lemma sort_by_key_id : forall l, ksorted l -> sort_by_key l = l.
Proof.
  induction l as [|x l IH] using rev_ind; intro H; auto.
  rewrite sort_by_key_snoc. apply ksorted_snoc in H. destruct H. rewrite IH by auto. apply insert_sorted_last. auto.
Qed.

(* a piece: on one line, not empty *)
Definition piece_ok (p : span_loc) : Prop := b_line p = e_line p /\ b_col p < e_col p.

Lemma split_lines_ok : forall lc fuel line col loc, Forall piece_ok (split_lines lc fuel line col loc).
Proof.
  induction fuel; intros; simpl; auto.
  assert (P : Forall piece_ok (if col <? (if line =? e_line loc then e_col loc else lc line)
              then [mkLoc line col line (if line =? e_line loc then e_col loc else lc line) (s_ty loc)] else [])).
  { destruct (col <? _) eqn:E; auto. apply Nat.ltb_lt in E. constructor; auto. split; simpl; auto. }
  destruct (line =? e_line loc); auto. apply Forall_app. split; auto.
Qed.
Lemma pieces_ok : forall lc toks, Forall piece_ok (pieces lc toks) /\ ksorted (pieces lc toks).
Proof.
  intros. unfold pieces. split; [|apply sort_by_key_ksorted].
  apply sort_by_key_Forall. apply Forall_flat_map. apply Forall_forall. intros. apply split_lines_ok.
Qed.

Definition abs_of (p : span_loc) : abs_token := mkAbs (b_line p) (b_col p) (e_col p - b_col p) (s_ty p).

(* the delta encoding of a sorted list of pieces never underflows and decodes to exactly those pieces *)
Lemma encode_decode : forall l pl ps,
  Forall piece_ok l -> ksorted l ->
  (match l with [] => True | a :: _ => pl < b_line a \/ (pl = b_line a /\ ps <= b_col a) end) ->
  exists out, encode pl ps l = Ok out /\ decode_from pl ps out = map abs_of l.
Proof.
  induction l as [|a r IH]; intros pl ps Hp Hs Hh; simpl.
  - exists []. auto.
  - inversion Hp as [|? ? [Pa1 Pa2] Pr]; subst. destruct Hs as [Ha Hr].
    destruct (IH (b_line a) (b_col a) Pr Hr) as [out [E D]].
    { destruct r as [|b r']; auto. inversion Ha; subst. auto. }
    unfold checked_sub.
    replace (b_line a <? pl) with false by (symmetry; apply Nat.ltb_ge; lia). cbn [bind].
    destruct (b_line a =? pl) eqn:EL.
    + apply Nat.eqb_eq in EL.
      replace (b_col a <? ps) with false by (symmetry; apply Nat.ltb_ge; lia). cbn [bind].
      replace (e_col a <? b_col a) with false by (symmetry; apply Nat.ltb_ge; lia). cbn [bind].
      rewrite E. cbn [bind]. eexists. split; [reflexivity|].
      cbn [decode_from delta_line delta_start tok_len tok_ty].
      replace (b_line a - pl =? 0) with true by (symmetry; apply Nat.eqb_eq; lia).
      replace (pl + (b_line a - pl)) with (b_line a) by lia.
      replace (ps + (b_col a - ps)) with (b_col a) by lia.
      rewrite D. reflexivity.
    + apply Nat.eqb_neq in EL. cbn [bind].
      replace (e_col a <? b_col a) with false by (symmetry; apply Nat.ltb_ge; lia). cbn [bind].
      rewrite E. cbn [bind]. eexists. split; [reflexivity|].
      cbn [decode_from delta_line delta_start tok_len tok_ty].
      replace (b_line a - pl =? 0) with false by (symmetry; apply Nat.eqb_neq; lia).
      replace (pl + (b_line a - pl)) with (b_line a) by lia.
      rewrite D. reflexivity.
Qed.

(* for ALL inputs (any order, spans over several lines, empty spans): no panic, the data decodes to the sorted per-line
   pieces, every token has non-zero length and tokens are sorted *)
Theorem to_deltas_decodes : forall lc toks,
  exists out, to_deltas lc toks = Ok out /\ decode out = map abs_of (pieces lc toks) /\
              Forall (fun t => 0 < a_len t) (decode out) /\ tokens_sorted (decode out).
Proof.
  intros lc toks. destruct (pieces_ok lc toks) as [P S].
  destruct (encode_decode (pieces lc toks) 0 0 P S) as [out [E D]].
  { destruct (pieces lc toks); auto. lia. }
  exists out. unfold to_deltas, decode. rewrite D. repeat split; auto.
  - apply Forall_map. eapply Forall_impl; [|apply P]. intros a [_ H]. simpl. lia.
  - clear E D P. unfold tokens_sorted. induction (pieces lc toks) as [|a r IH]; simpl; auto.
    destruct S as [Ha Hr]. split; auto. destruct r; simpl; auto. inversion Ha; subst. auto.
Qed.

(* input spans as the parser produces them for disjoint single-line lexemes *)
Definition span_before (a b : span_loc) : Prop :=
  b_line a < b_line b \/ (b_line a = b_line b /\ e_col a <= b_col b).
Definition sorted_disjoint_nonempty (l : list span_loc) : Prop := Forall piece_ok l /\ chain span_before l.

Lemma chain_ksorted : forall l, Forall piece_ok l -> chain span_before l -> ksorted l.
Proof.
  induction l as [|a r IH]; simpl; intros P C; auto.
  inversion P as [|? ? Pa Pr]; subst. destruct C as [C1 C2]. specialize (IH Pr C2). split; auto.
  destruct r as [|b r']; auto. simpl in IH. destruct IH as [Hb _].
  inversion Pr as [|? ? Pb _]; subst.
  assert (K : kle a b) by (destruct Pa, Pb; unfold span_before, kle in *; lia).
  constructor; auto. eapply Forall_impl; [|apply Hb]. intros. eapply kle_trans; eauto.
Qed.

Lemma split_loc_single : forall lc p, piece_ok p -> split_loc lc p = [p].
Proof.
  intros lc p [H1 H2]. unfold split_loc. rewrite <- H1. rewrite Nat.sub_diag. cbn [split_lines].
  rewrite H1, Nat.eqb_refl. replace (b_col p <? e_col p) with true by (symmetry; apply Nat.ltb_lt; auto).
  destruct p; simpl in *; subst; reflexivity.
Qed.
Lemma flat_map_single : forall lc l, Forall piece_ok l -> flat_map (split_loc lc) l = l.
Proof. induction 1; simpl; auto. rewrite split_loc_single by auto. simpl. f_equal. auto. Qed.

Theorem to_deltas_roundtrip : forall lc spans,
  sorted_disjoint_nonempty spans ->
  exists out, to_deltas lc spans = Ok out /\ decode out = map abs_of spans /\ tokens_wellformed (decode out).
Proof.
  intros lc spans [P C]. pose proof (chain_ksorted _ P C) as S.
  destruct (to_deltas_decodes lc spans) as [out [E [D [NZ _]]]].
  assert (Pi : pieces lc spans = spans).
  { unfold pieces. rewrite (sort_by_key_id _ S). rewrite flat_map_single by auto. apply sort_by_key_id; auto. }
  rewrite Pi in D. exists out. repeat split; auto. rewrite D.
  clear E D NZ Pi S. induction spans as [|a r IH]; simpl; auto.
  inversion P as [|? ? Pa Pr]; subst. destruct C as [C1 C2]. split; auto.
  destruct r as [|b r']; simpl; auto. destruct Pa. unfold strictly_after, span_before in *. simpl. lia.
Qed.

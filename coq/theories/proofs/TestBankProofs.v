(* C18: the RAM a test starts with, in terms of the segments of the test's own bank (composition with C09) *)
From Coq Require Import List NArith ZArith Bool Lia.
Import ListNotations.
From Mos Require model.Output spec.Layout proofs.OutputProofs.
From Mos Require Import spec.Cpu6502.
Open Scope Z_scope.

(* the image BinaryWriter::merge_segments builds for one bank from the segments assigned to it, loaded by TestRunner::new *)
Definition ram_of_bank_segments (fill : N) (segs : list Output.segment) : ram :=
  let b := fold_left (Output.merge fill) segs Output.empty_bank in
  load_program (Output.k_lo b) (Output.k_data b).

Theorem test_ram_pointwise : forall fill segs a,
  segs <> [] -> Forall Layout.nonempty segs ->
  ram_read (ram_of_bank_segments fill segs) a =
    if (Layout.spec_lo segs <=? a) && (a <? Layout.spec_hi segs)
    then byte8 (Z.of_N (Layout.spec_byte fill segs a)) else 0.
Proof.
  intros fill segs a Hne Hall.
  pose proof (OutputProofs.merge_pointwise fill segs Hne Hall) as H. cbn zeta in H.
  destruct H as (Hlo & Hhi & Hlen & Hnth).
  unfold ram_of_bank_segments, ram_read, load_program. cbn [ram_over over_find ram_base ram_image].
  unfold image_read. rewrite <- Hlo, <- Hhi.
  set (b := fold_left (Output.merge fill) segs Output.empty_bank) in *.
  rewrite Hlen.
  destruct (Output.k_lo b <=? a) eqn:L; destruct (a <? Output.k_hi b) eqn:U; cbn [andb].
  - assert ((0 <=? a - Output.k_lo b) && (a - Output.k_lo b <? Output.k_hi b - Output.k_lo b) = true) as R by lia.
    rewrite R. rewrite Hnth by lia. reflexivity.
  - assert ((0 <=? a - Output.k_lo b) && (a - Output.k_lo b <? Output.k_hi b - Output.k_lo b) = false) as R by lia.
    rewrite R. reflexivity.
  - assert ((0 <=? a - Output.k_lo b) && (a - Output.k_lo b <? Output.k_hi b - Output.k_lo b) = false) as R by lia.
    rewrite R. reflexivity.
  - assert ((0 <=? a - Output.k_lo b) && (a - Output.k_lo b <? Output.k_hi b - Output.k_lo b) = false) as R by lia.
    rewrite R. reflexivity.
Qed.

(* rename.rs `names_in`: every reported offset is where that very word stands in the text. *)
From Coq Require Import List NArith Arith Bool Lia.
Import ListNotations.
From Mos Require Import model.RenameNames.

Lemma words_offsets : forall t pre cur,
  (match cur with
   | Some (o, w) => o + length w = length pre /\ skipn o pre = rev w
   | None => True end) ->
  forall e, In e (words t (length pre) cur) -> stands_at (pre ++ t) e.
Proof.
  induction t as [|c r IH]; intros pre cur Inv e H; cbn in H.
  - destruct cur as [[o w]|]; [|destruct H]. destruct H as [<-|[]]. destruct Inv as [L S]. unfold stands_at. cbn.
    rewrite app_nil_r, S, rev_length. apply firstn_all2. rewrite rev_length. lia.
  - assert (Step : forall cur', (match cur' with Some (o, w) => o + length w = length (pre ++ [c]) /\ skipn o (pre ++ [c]) = rev w | None => True end) ->
                   In e (words r (S (length pre)) cur') -> stands_at (pre ++ c :: r) e).
    { intros cur' Inv' H'. replace (pre ++ c :: r) with ((pre ++ [c]) ++ r) by (rewrite <- app_assoc; reflexivity).
      apply (IH (pre ++ [c]) cur' Inv'). rewrite app_length. cbn. rewrite Nat.add_1_r. exact H'. }
    destruct (is_space c).
    + destruct cur as [[o w]|].
      * destruct H as [<-|H]; [|apply (Step None I H)].
        destruct Inv as [L S]. unfold stands_at. cbn [fst snd]. rewrite rev_length.
        assert (O : o <= length pre) by lia.
        rewrite skipn_app. replace (o - length pre) with 0 by lia. cbn [skipn]. rewrite S.
        rewrite firstn_app, rev_length. replace (length w - length w) with 0 by lia. cbn [firstn]. rewrite app_nil_r.
        apply firstn_all2. rewrite rev_length. lia.
      * apply (Step None I H).
    + destruct cur as [[o w]|].
      * apply (Step (Some (o, c :: w))); [|exact H]. destruct Inv as [L S]. split.
        -- rewrite app_length. cbn. lia.
        -- rewrite skipn_app. replace (o - length pre) with 0 by lia. cbn [skipn rev]. rewrite S. reflexivity.
      * apply (Step (Some (length pre, [c]))); [|exact H]. split.
        -- rewrite app_length. cbn. lia.
        -- rewrite skipn_app, skipn_all, Nat.sub_diag. reflexivity.
Qed.

Theorem names_in_offsets : forall t e, In e (names_in t) -> stands_at t e.
Proof.
  intros t e H. apply (words_offsets t [] None I). cbn [length]. unfold names_in in H.
  destruct (words t 0 None) as [|a [|b rest]]; [exact H|exact H|].
  destruct H as [<-|H]; [left; reflexivity|right; right; exact H].
Qed.

From Coq Require Import List ZArith Bool Lia.
Import ListNotations.
From Mos Require Import model.Spans.
Open Scope Z_scope.

Ltac bools :=
  repeat match goal with
         | H : _ && _ = true |- _ => apply andb_prop in H as [? ?]
         | H : _ && _ = false |- _ => apply andb_false_iff in H
         end; rewrite ?andb_true_iff.

Lemma merge_in_file f a b : in_file f a = true -> in_file f b = true -> in_file f (merge a b) = true.
Proof. unfold in_file, merge. cbn [s_low s_high]. intros A B. bools. lia. Qed.

Lemma subspan_panics_iff s b e : subspan s b e = SpPanic <-> ~ (b <= e /\ s_low s + e <= s_high s).
Proof.
  unfold subspan. destruct ((b <=? e) && (s_low s + e <=? s_high s)) eqn:E.
  - split; [discriminate|]. intros H. exfalso. apply H. bools. lia.
  - split; [|reflexivity]. intros _ [H1 H2]. bools. destruct E as [E|E]; lia.
Qed.

Lemma subspan_in_file f s b e r : in_file f s = true -> 0 <= b -> subspan s b e = SpOk r -> in_file f r = true.
Proof.
  unfold subspan, in_file. intros A Hb. destruct ((b <=? e) && (s_low s + e <=? s_high s)) eqn:E; [|discriminate].
  intros [= <-]. cbn [s_low s_high]. bools. lia.
Qed.

Lemma find_file_in files pos f : find_file files pos = SpOk f -> In f files /\ f_low f <= pos <= f_high f.
Proof.
  induction files as [|g r IH]; cbn [find_file]; [discriminate|].
  destruct ((f_low g <=? pos) && (pos <=? f_high g)) eqn:E.
  - intros [= <-]. split; [left; reflexivity | bools; lia].
  - intros H. destruct (IH H) as [I B]. split; [right; exact I | exact B].
Qed.

(* a span that lies in a file of the code map is looked up without a panic, and the file found contains it
   (files do not overlap: each starts after the end of the previous one) *)
Definition disjoint (files : list file) : Prop :=
  forall f g, In f files -> In g files -> f <> g -> f_high f < f_low g \/ f_high g < f_low f.

Lemma look_up_in_file files f s : disjoint files -> In f files -> in_file f s = true ->
  exists g, look_up_span files s = SpOk g /\ in_file g s = true.
Proof.
  intros D I A. unfold look_up_span.
  assert (F : exists g, find_file files (s_low s) = SpOk g).
  { clear D. induction files as [|h r IH]; [destruct I|]. cbn [find_file].
    destruct ((f_low h <=? s_low s) && (s_low s <=? f_high h)) eqn:E; [eauto|].
    destruct I as [->|I]; [|apply IH; exact I]. unfold in_file in A. bools. destruct E as [E|E]; lia. }
  destruct F as [g Fg]. rewrite Fg. destruct (find_file_in _ _ _ Fg) as [Ig Bg].
  assert (file_eq_dec : forall x y : file, {x = y} + {x <> y}) by (decide equality; apply Z.eq_dec).
  assert (G : g = f).
  { destruct (file_eq_dec g f) as [E|N]; [exact E|]. exfalso.
    unfold in_file in A. bools. destruct (D g f Ig I N) as [HH|HH]; lia. }
  subst g. rewrite A. eauto.
Qed.

(* files created by add_file never overlap *)
Lemma add_file_disjoint files len f' files' :
  0 <= len -> disjoint files -> (forall f, In f files -> 0 <= f_len f) ->
  (forall f, In f files -> match files with [] => True | h :: _ => f_high f <= f_high h end) ->
  add_file files len = (files', f') -> disjoint files'.
Proof.
  intros L D P M. unfold add_file. intros [= <- <-]. intros f g If Ig N.
  destruct If as [<-|If]; destruct Ig as [<-|Ig]; try congruence.
  - right. destruct files as [|h r]; [destruct Ig|]. specialize (M g Ig). cbn [f_low]. lia.
  - left. destruct files as [|h r]; [destruct If|]. specialize (M f If). cbn [f_low]. lia.
  - apply D; auto.
Qed.

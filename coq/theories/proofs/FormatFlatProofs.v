(* Proofs about the token layer of the formatter model against spec/FormatFlat.v: the chunks carry exactly the leaf texts
   and comments of the token list, in source order (same calculus as proofs/FormatTokensProofs.v, observing ALL chunks). *)
From Coq Require Import List NArith Bool Arith Lia.
Import ListNotations.
From Mos Require Import model.Utf model.Format Gen.FmtRules model.FormatTokens spec.FormatSpec spec.FormatFlat
  proofs.FormatProofs proofs.FormatTokensProofs proofs.FormatPreserved.
Open Scope nat_scope.

(* the texts of all chunks, oldest first *)
Definition chunk_all (cs : list chunk) : list text := map c_str cs.
Definition st_all (st : fstate) : list text := chunk_all (rev (f_chunks st)).
(* the non-whitespace characters of all chunks, in order *)
Definition anows (st : fstate) : text := nows (concat (st_all st)).

(* `f` appends chunks whose non-whitespace characters are exactly those of the texts `txts`, in order, and removes at most
   whitespace-only chunks *)
Definition emitsA (f : fstate -> fstate) (txts : list text) : Prop :=
  forall st, anows (f st) = anows st ++ tnows txts.

Lemma chunk_all_app : forall a b, chunk_all (a ++ b) = chunk_all a ++ chunk_all b.
Proof. intros; unfold chunk_all; apply map_app. Qed.

Lemma emitsA_id : emitsA (fun st => st) [].
Proof. intros st; unfold tnows; simpl; rewrite app_nil_r; reflexivity. Qed.

Lemma emitsA_comp : forall f g a b c, emitsA g a -> emitsA f b -> a ++ b = c -> emitsA (fun st => f (g st)) c.
Proof. intros f g a b c Hg Hf <- st. rewrite Hf, Hg, tnows_app, app_assoc. reflexivity. Qed.

Lemma emitsA_ext : forall f g c, (forall st, f st = g st) -> emitsA g c -> emitsA f c.
Proof. intros f g c H Hg st. rewrite H. apply Hg. Qed.

Lemma emitsA_eq : forall f a b, tnows a = tnows b -> emitsA f a -> emitsA f b.
Proof. intros f a b H Hf st. rewrite Hf, H. reflexivity. Qed.

(* state changes that do not touch the chunks *)
Definition same_all (f : fstate -> fstate) : Prop := forall st, st_all (f st) = st_all st.
Lemma same_emitsA : forall f, same_all f -> emitsA f [].
Proof. intros f H st; unfold anows; rewrite H; unfold tnows; simpl; rewrite app_nil_r; reflexivity. Qed.

Lemma push_type_all : forall ty s st,
  st_all (push_type ty s st) = st_all st ++ match s with [] => [] | _ => [if f_spc st then SP :: s else s] end.
Proof.
  intros ty s st. unfold push_type, st_all. destruct s as [|c r]; [rewrite app_nil_r; reflexivity|].
  cbn [f_chunks rev]. rewrite chunk_all_app. reflexivity.
Qed.

(* every push contributes the non-whitespace characters of its text (a pending space does not count) *)
Lemma emitsA_push_type : forall ty s, emitsA (push_type ty s) [s].
Proof.
  intros ty s st. unfold anows. rewrite push_type_all. unfold tnows. destruct s as [|c r].
  - rewrite app_nil_r. cbn [concat app nows filter]. rewrite app_nil_r. reflexivity.
  - rewrite concat_app, nows_app. f_equal. cbn [concat]. rewrite !app_nil_r.
    destruct (f_spc st); [|reflexivity]. change (SP :: c :: r) with ([SP] ++ c :: r). rewrite nows_app. reflexivity.
Qed.
Lemma emitsA_push : forall s, emitsA (push s) [s].
Proof. intros s. apply emitsA_push_type. Qed.
Lemma emitsA_push_label : forall s, emitsA (push_type (Some Label) s) [s].
Proof. intros s. apply emitsA_push_type. Qed.
Lemma emitsA_push_comment : forall s, emitsA (push_type (Some Comment) s) [s].
Proof. intros s. apply emitsA_push_type. Qed.

(* blanks and line breaks contribute nothing *)
Lemma emitsA_push_ws : forall s, all_ws s = true -> emitsA (push s) [].
Proof. intros s H. apply (emitsA_eq _ [s]); [unfold tnows; cbn [concat]; rewrite app_nil_r; apply all_ws_nows; exact H | apply emitsA_push]. Qed.
Lemma emitsA_push_sp : emitsA (push [SP]) []. Proof. apply emitsA_push_ws. reflexivity. Qed.
Lemma emitsA_push_nl : emitsA (push [NL]) []. Proof. apply emitsA_push_ws. reflexivity. Qed.

Lemma emitsA_spc : emitsA spc_if_next [].
Proof. apply same_emitsA; intros st; reflexivity. Qed.
Lemma emitsA_clear : emitsA clear_spc_if_next [].
Proof. apply same_emitsA; intros st; reflexivity. Qed.

Lemma emitsA_trivium : forall t, emitsA (fmt_trivium t) (trivium_comments t).
Proof.
  intros t. destruct t as [s| |s|s]; cbn [fmt_trivium trivium_comments].
  - apply emitsA_id.
  - apply emitsA_push_nl.
  - destruct s; [apply (emitsA_eq _ [[]]); [reflexivity|] |]; apply emitsA_push_comment.
  - destruct s; [apply (emitsA_eq _ [[]]); [reflexivity|] |]; apply emitsA_push_comment.
Qed.

Lemma emitsA_fold : forall {A} (f : A -> fstate -> fstate) (g : A -> list text) (l : list A),
  (forall a, In a l -> emitsA (f a) (g a)) ->
  emitsA (fun st => fold_left (fun s a => f a s) l st) (flat_map g l).
Proof.
  intros A f g l. induction l as [|a r IH]; intros H; simpl.
  - apply emitsA_id.
  - eapply emitsA_ext with (g := fun st => (fun s => fold_left (fun s a => f a s) r s) (f a st)); [reflexivity|].
    eapply emitsA_comp; [apply H; left; reflexivity | apply IH; intros; apply H; right; assumption | reflexivity].
Qed.

Lemma emitsA_trivia : forall ts, emitsA (fmt_trivia ts) (flat_map trivium_comments ts).
Proof. intros ts. unfold fmt_trivia. apply (emitsA_fold fmt_trivium trivium_comments). intros; apply emitsA_trivium. Qed.

Lemma emitsA_otrivia : forall ot, emitsA (fmt_otrivia ot) (otrivia_comments ot).
Proof. intros [ts|]; simpl; [apply emitsA_trivia | apply emitsA_id]. Qed.

Lemma emitsA_loc : forall l, emitsA (fmt_loc l) (lt_flat l).
Proof.
  intros l. unfold fmt_loc, lt_flat.
  eapply emitsA_comp; [apply emitsA_otrivia | apply emitsA_push | reflexivity].
Qed.

Lemma emitsA_opt : forall {A} (f : A -> fstate -> fstate) (g : A -> list text) (x : option A),
  (forall a, x = Some a -> emitsA (f a) (g a)) -> emitsA (fmt_opt f x) (opt_flat g x).
Proof. intros A f g [a|] H; simpl; [apply H; reflexivity | apply emitsA_id]. Qed.

Lemma emitsA_opt_loc : forall x, emitsA (fmt_opt fmt_loc x) (opt_flat lt_flat x).
Proof. intros; apply emitsA_opt; intros; apply emitsA_loc. Qed.

(* ---------------------------------------------------------------- automation: split `fun st => f (g st)` *)
Ltac emitsA_step :=
  lazymatch goal with
  | |- emitsA (fun st => st) _ => apply emitsA_id
  | |- emitsA (push [SP]) _ => apply emitsA_push_sp
  | |- emitsA (push [NL]) _ => apply emitsA_push_nl
  | |- emitsA (push _) _ => apply emitsA_push
  | |- emitsA (push_type (Some Label) _) _ => apply emitsA_push_label
  | |- emitsA spc_if_next _ => apply emitsA_spc
  | |- emitsA clear_spc_if_next _ => apply emitsA_clear
  | |- emitsA (fmt_loc _) _ => apply emitsA_loc
  | |- emitsA (fmt_otrivia _) _ => apply emitsA_otrivia
  | |- emitsA (fmt_opt fmt_loc _) _ => apply emitsA_opt_loc
  | |- emitsA (fun st => ?f (@?g st)) _ =>
      lazymatch g with
      | (fun st => st) => fail "no progress"
      | _ => eapply emitsA_comp; [ | | ]
      end
  end.

Lemma emitsA_istring : forall s, emitsA (fmt_istring s) (istring_flat s).
Proof.
  intros s. unfold fmt_istring, istring_flat.
  eapply emitsA_comp with (a := lt_flat (is_lquote s) ++ flat_map item_flat (is_items s)) (b := [[QUOTE]]);
    [ eapply emitsA_comp with (a := lt_flat (is_lquote s)); [apply emitsA_loc | | reflexivity]
    | apply emitsA_push | rewrite <- app_assoc; reflexivity ].
  apply (emitsA_fold fmt_istring_item item_flat).
  intros i _. destruct i as [l|l]; cbn [fmt_istring_item item_flat].
  - apply emitsA_push.
  - try unfold emits_interpolation_trivia.
    eapply emitsA_ext with (g := fun st => push [RBRACE] (fmt_loc l (push [LBRACE] st))); [reflexivity|].
    repeat emitsA_step; try reflexivity.
Qed.

(* ---------------------------------------------------------------- expressions *)
Lemma emitsA_args_fold : forall (args : arg_exprs),
  (forall ec, In ec args -> emitsA (format_expression (l_data (fst ec))) (expr_flat (l_data (fst ec)))) ->
  emitsA (fun st => fold_left (fun a (ec : located expr * option ltext) =>
                             spc_if_next (fmt_opt fmt_loc (snd ec)
                               (format_expression (l_data (fst ec)) (fmt_otrivia (l_trivia (fst ec)) a)))) args st)
        (flat_map (fun ec : located expr * option ltext =>
                  otrivia_comments (l_trivia (fst ec)) ++ expr_flat (l_data (fst ec)) ++ opt_flat lt_flat (snd ec)) args).
Proof.
  intros args H.
  apply (emitsA_fold (fun (ec : located expr * option ltext) a => spc_if_next (fmt_opt fmt_loc (snd ec)
                               (format_expression (l_data (fst ec)) (fmt_otrivia (l_trivia (fst ec)) a))))
                    (fun ec => otrivia_comments (l_trivia (fst ec)) ++ expr_flat (l_data (fst ec)) ++ opt_flat lt_flat (snd ec))).
  intros ec Hin. specialize (H ec Hin).
  repeat emitsA_step; try exact H; try reflexivity. rewrite app_nil_r, app_assoc. reflexivity.
Qed.

Lemma emitsA_expression : forall e, emitsA (format_expression e) (expr_flat e)
with emitsA_factor : forall f, emitsA (format_expression_factor f) (factor_flat f).
Proof.
  - intros e. destruct e as [lhs op rhs | tn tg f]; cbn [format_expression expr_flat].
    + pose proof (emitsA_expression (l_data lhs)) as Hl. pose proof (emitsA_expression (l_data rhs)) as Hr.
      repeat emitsA_step; try exact Hl; try exact Hr; try reflexivity.
      rewrite !app_nil_r, <- !app_assoc. reflexivity.
    + pose proof (emitsA_factor (l_data f)) as Hf.
      repeat emitsA_step; try exact Hf; try reflexivity.
      rewrite <- !app_assoc. reflexivity.
  - intros f. destruct f as [star | lp inner rp | name lp args rp | path modifier | ty value | s];
      cbn [format_expression_factor factor_flat].
    + apply emitsA_loc.
    + pose proof (emitsA_expression (l_data inner)) as Hi.
      repeat emitsA_step; try exact Hi; try reflexivity. rewrite <- !app_assoc. reflexivity.
    + assert (Hargs : forall ec, In ec args -> emitsA (format_expression (l_data (fst ec))) (expr_flat (l_data (fst ec)))).
      { clear - emitsA_expression. induction args as [|a r IH]; intros ec Hin; [destruct Hin|].
        destruct Hin as [<-|Hin]; [apply emitsA_expression | apply IH; assumption]. }
      pose proof (emitsA_args_fold args Hargs) as Hfold.
      eapply emitsA_comp; [ eapply emitsA_comp; [ eapply emitsA_comp; [ eapply emitsA_comp; [apply emitsA_loc | apply emitsA_loc | reflexivity]
                                                                   | exact Hfold | reflexivity ]
                                              | apply emitsA_clear | reflexivity ]
                         | apply emitsA_loc | ].
      rewrite !app_nil_r, <- !app_assoc. reflexivity.
    + repeat emitsA_step; reflexivity.
    + repeat emitsA_step; reflexivity.
    + apply emitsA_istring.
Qed.

Lemma emitsA_lexpr : forall e, emitsA (fmt_lexpr e) (lexpr_flat e).
Proof.
  intros e. unfold fmt_lexpr, lexpr_flat.
  eapply emitsA_comp; [apply emitsA_otrivia | apply emitsA_expression | reflexivity].
Qed.

Lemma emitsA_arg_exprs : forall args, emitsA (fmt_arg_exprs args) (arg_exprs_flat args).
Proof.
  intros args. unfold fmt_arg_exprs, arg_exprs_flat.
  eapply emitsA_comp; [ | apply emitsA_clear | apply app_nil_r ].
  apply (emitsA_fold (fun (ec : located expr * option ltext) a => spc_if_next (fmt_opt fmt_loc (snd ec) (fmt_lexpr (fst ec) a)))
                    (fun ec => lexpr_flat (fst ec) ++ opt_flat lt_flat (snd ec))).
  intros ec _.
  eapply emitsA_comp; [ eapply emitsA_comp; [apply emitsA_lexpr | apply emitsA_opt_loc | reflexivity] | apply emitsA_spc | apply app_nil_r ].
Qed.

Lemma emitsA_arg_ids : forall args, emitsA (fmt_arg_ids args) (arg_ids_flat args).
Proof.
  intros args. unfold fmt_arg_ids, arg_ids_flat.
  eapply emitsA_comp; [ | apply emitsA_clear | apply app_nil_r ].
  apply (emitsA_fold (fun (ic : ltext * option ltext) a => spc_if_next (fmt_opt fmt_loc (snd ic) (fmt_loc (fst ic) a)))
                    (fun ic => lt_flat (fst ic) ++ opt_flat lt_flat (snd ic))).
  intros ic _.
  eapply emitsA_comp; [ eapply emitsA_comp; [apply emitsA_loc | apply emitsA_opt_loc | reflexivity] | apply emitsA_spc | apply app_nil_r ].
Qed.

Lemma emitsA_import_as : forall a, emitsA (fmt_import_as a) (import_as_flat a).
Proof.
  intros a. unfold fmt_import_as, import_as_flat.
  eapply emitsA_comp; [ eapply emitsA_comp; [apply emitsA_loc | apply emitsA_push_sp | apply app_nil_r] | apply emitsA_loc | reflexivity ].
Qed.

Lemma emitsA_opt_import_as : forall x, emitsA (fmt_opt fmt_import_as x) (opt_flat import_as_flat x).
Proof. intros; apply emitsA_opt; intros; apply emitsA_import_as. Qed.

Lemma emitsA_if : forall (b : bool) f c, emitsA f c -> emitsA (fun st => if b then f st else st) (if b then c else []).
Proof. intros [|] f c H; [exact H | apply emitsA_id]. Qed.

Lemma emitsA_arg_specific : forall args,
  emitsA (fmt_arg_specific args) (import_args_flat (Specific args)).
Proof.
  intros args. unfold fmt_arg_specific, import_args_flat.
  eapply emitsA_comp; [ | apply emitsA_clear | apply app_nil_r ].
  apply (emitsA_fold (fun (pc : located specific_import_arg * option ltext) a =>
      let p := l_data (fst pc) in
      let a := if emits_import_arg_trivia then fmt_otrivia (l_trivia (fst pc)) a else a in
      spc_if_next (fmt_opt fmt_loc (snd pc) (fmt_opt fmt_import_as (sa_as p) (spc_if_next (fmt_loc (sa_path p) a)))))
    (fun pc => (if emits_import_arg_trivia then otrivia_comments (l_trivia (fst pc)) else []) ++
               lt_flat (sa_path (l_data (fst pc))) ++ opt_flat import_as_flat (sa_as (l_data (fst pc))) ++
               opt_flat lt_flat (snd pc))).
  intros pc _. cbv zeta.
  eapply emitsA_comp; [ eapply emitsA_comp; [ eapply emitsA_comp; [ eapply emitsA_comp; [ eapply emitsA_comp; [ | apply emitsA_loc | reflexivity ]
                                                                                   | apply emitsA_spc | reflexivity ]
                                                               | apply emitsA_opt_import_as | reflexivity ]
                                          | apply emitsA_opt_loc | reflexivity ]
                     | apply emitsA_spc | ].
  - apply (emitsA_if emits_import_arg_trivia (fmt_otrivia (l_trivia (fst pc))) _ (emitsA_otrivia _)).
  - rewrite !app_nil_r, <- !app_assoc. reflexivity.
Qed.

(* the list equations left by emitsA_comp: inner ones first (reflexivity instantiates the intermediate lists); rewriting is
   only attempted on goals without existential variables (rewriting under an evar does not terminate) *)
Ltac emitsA_eqs :=
  try reflexivity;
  try match goal with
      | |- ?g => tryif has_evar g then fail else (cbn [opt_flat fst snd]; rewrite ?app_nil_r, <- ?app_assoc; try reflexivity)
      end.

Lemma emitsA_suffix : forall o sfx, emitsA (fmt_suffix o sfx) (opt_flat (suffix_flat o) sfx).
Proof.
  intros o [[comma register]|]; cbn [opt_flat fst snd]; [|apply emitsA_id].
  eapply emitsA_ext with (g := fun st => clear_spc_if_next (fmt_loc (mkLoc (l_trivia register) (casing_format (o_register_casing o) (l_data register)))
                                                         (spc_if_next (fmt_loc comma st)))); [reflexivity|].
  repeat emitsA_step; unfold suffix_flat, lt_flat; cbn [l_trivia l_data fst snd]; emitsA_eqs.
Qed.

Ltac ecompA :=
  lazymatch goal with
  | |- emitsA (fun st => ?f (@?g st)) _ => eapply (emitsA_comp f g)
  end.

Lemma emitsA_operand : forall o op, emitsA (fmt_operand o op) (operand_flat o op).
Proof.
  intros o op. unfold fmt_operand, operand_flat.
  destruct (op_mode op).
  - eapply emitsA_comp; [ eapply emitsA_comp; [apply emitsA_opt_loc | apply emitsA_lexpr | reflexivity] | apply emitsA_suffix | ].
    rewrite <- !app_assoc; reflexivity.
  - eapply emitsA_comp; [ eapply emitsA_comp; [apply emitsA_opt_loc | apply emitsA_lexpr | reflexivity] | apply emitsA_suffix | ].
    rewrite <- !app_assoc; reflexivity.
  - eapply emitsA_comp; [ eapply emitsA_comp; [apply emitsA_opt_loc | apply emitsA_lexpr | reflexivity] | apply emitsA_suffix | ].
    rewrite <- !app_assoc; reflexivity.
  - eapply emitsA_comp; [ eapply emitsA_comp; [ eapply emitsA_comp; [apply emitsA_opt_loc | apply emitsA_lexpr | reflexivity]
                                            | apply emitsA_suffix | reflexivity ] | apply emitsA_opt_loc | ].
    rewrite <- !app_assoc; reflexivity.
  - eapply emitsA_comp; [ eapply emitsA_comp; [ eapply emitsA_comp; [apply emitsA_opt_loc | apply emitsA_lexpr | reflexivity]
                                            | apply emitsA_opt_loc | reflexivity ] | apply emitsA_suffix | ].
    rewrite <- !app_assoc; reflexivity.
Qed.

(* ---------------------------------------------------------------- token lists *)
Section FlatProofs.
Variable o : options.
Notation body := (body_flat o).
Notation blockc := (block_flat o).
Notation iblockc := (iblock_flat o).
Notation vlead := vlead_flat.

Definition veof_flat (veof : option (option (list trivia))) : list text :=
  match veof with Some tr => otrivia_comments tr | None => [] end.

(* what the loop emitsA: every token's body, each followed by the leading trivia of the next token *)
Fixpoint tail_flat (veof : option (option (list trivia))) (ts : list token) : list text :=
  match ts with
  | [] => []
  | t :: r => body t ++ match r with n :: _ => lead_comments n | [] => veof_flat veof end ++ tail_flat veof r
  end.

Lemma emitsA_newline_before : forall prev t, emitsA (newline_before prev t) [].
Proof.
  intros prev t st. unfold newline_before.
  destruct prev as [p|]; [|apply emitsA_id].
  destruct (kind_of t); try apply emitsA_id;
    repeat match goal with |- context [if ?c then _ else _] => destruct c end;
    repeat rewrite (emitsA_push_nl _); unfold tnows; cbn [concat nows filter]; rewrite ?app_nil_r; reflexivity.
Qed.

Lemma emitsA_loop : forall ft veof ts prev,
  (forall t, In t ts -> emitsA (ft t) (body t)) ->
  existsb is_value_token ts = false ->
  emitsA (format_tokens_loop ft veof prev ts) (tail_flat veof ts).
Proof.
  intros ft veof ts. induction ts as [|t rest IH]; intros prev Hft Hex.
  - cbn [format_tokens_loop tail_flat]. destruct veof as [tr|]; [apply emitsA_newline_before | apply emitsA_id].
  - cbn [existsb] in Hex. apply orb_false_elim in Hex as [Ht Hrest].
    assert (Ht' : emitsA (fun st => ft t (newline_before prev t st)) (body t)).
    { ecompA; [apply emitsA_newline_before | apply Hft; left; reflexivity | reflexivity]. }
    assert (Hloop : emitsA (format_tokens_loop ft veof (Some t) rest) (tail_flat veof rest)).
    { apply IH; [intros; apply Hft; right; assumption | assumption]. }
    cbn [format_tokens_loop tail_flat].
    destruct rest as [|n rest'].
    + destruct veof as [tr|].
      * eapply emitsA_ext with (g := fun st => format_tokens_loop ft (Some tr) (Some t) [] (fmt_otrivia tr (ft t (newline_before prev t st))));
          [reflexivity|].
        ecompA; [ ecompA; [exact Ht' | apply emitsA_otrivia | reflexivity] | exact Hloop | ].
        cbn [veof_flat]. rewrite <- !app_assoc. reflexivity.
      * eapply emitsA_ext with (g := fun st => format_tokens_loop ft None (Some t) [] (ft t (newline_before prev t st)));
          [reflexivity|].
        ecompA; [exact Ht' | exact Hloop | ]. cbn [veof_flat app]. reflexivity.
    + cbn [existsb] in Hrest. apply orb_false_elim in Hrest as [Hn _].
      eapply emitsA_ext with (g := fun st => format_tokens_loop ft veof (Some t) (n :: rest')
                                           (fmt_otrivia (token_trivia n) (ft t (newline_before prev t st)))); [reflexivity|].
      ecompA; [ ecompA; [exact Ht' | apply emitsA_otrivia | reflexivity] | exact Hloop | ].
      rewrite (lead_not_expression n Hn), <- !app_assoc. reflexivity.
Qed.

Lemma nows_chunk_all_drop : forall l,
  nows (concat (chunk_all (drop_nl_chunks l))) = nows (concat (chunk_all l)).
Proof.
  induction l as [|c r IH]; [reflexivity|]. cbn [drop_nl_chunks].
  destruct (is_nl_chunk c) eqn:E; [|reflexivity].
  rewrite IH. unfold chunk_all. cbn [map concat]. rewrite nows_app. unfold is_nl_chunk in E. rewrite (nows_single_nl _ E). reflexivity.
Qed.

(* dropping newline chunks at the END of the oldest-first list *)
Lemma nows_chunk_all_drop_rev : forall l,
  nows (concat (chunk_all (rev (drop_nl_chunks l)))) = nows (concat (chunk_all (rev l))).
Proof.
  induction l as [|c r IH]; [reflexivity|]. cbn [drop_nl_chunks].
  destruct (is_nl_chunk c) eqn:E; [|reflexivity].
  rewrite IH. cbn [rev]. rewrite chunk_all_app, concat_app, nows_app.
  unfold chunk_all at 3. cbn [map concat]. unfold is_nl_chunk in E. rewrite app_nil_r, (nows_single_nl _ E), app_nil_r. reflexivity.
Qed.

Lemma tokens_flat_tail : forall veof ts,
  existsb is_value_token ts = false ->
  match ts with
  | t :: _ => otrivia_comments (token_trivia t)
  | [] => veof_flat veof
  end ++ tail_flat veof ts = tokens_flat o ts ++ veof_flat veof.
Proof.
  intros veof ts. induction ts as [|t rest IH]; intros Hex.
  - cbn. rewrite app_nil_r. reflexivity.
  - cbn [existsb] in Hex. apply orb_false_elim in Hex as [Ht Hrest]. specialize (IH Hrest).
    unfold tokens_flat in *. cbn [flat_map tail_flat]. rewrite <- (lead_not_expression t Ht).
    rewrite <- !app_assoc. f_equal. f_equal.
    destruct rest as [|n rest'].
    + cbn in *. rewrite ?app_nil_r. reflexivity.
    + cbn [existsb] in Hrest. apply orb_false_elim in Hrest as [Hn _].
      rewrite <- (lead_not_expression n Hn) in IH. exact IH.
Qed.

Lemma emitsA_tokens_with : forall ft veof ts trim,
  (forall t, In t ts -> emitsA (ft t) (body t)) ->
  existsb is_value_token ts = false ->
  emitsA (format_tokens_with ft veof ts trim) (tokens_flat o ts ++ veof_flat veof).
Proof.
  intros ft veof ts trim Hft Hex.
  rewrite <- (tokens_flat_tail veof ts Hex).
  unfold format_tokens_with.
  set (first_trivia := match ts with t :: _ => token_trivia t | [] => match veof with Some tr => tr | None => None end end).
  assert (Hfirst : match ts with t :: _ => otrivia_comments (token_trivia t) | [] => veof_flat veof end = otrivia_comments first_trivia).
  { subst first_trivia. destruct ts; [destruct veof as [[?|]|]|]; reflexivity. }
  rewrite Hfirst.
  cbv zeta.
  ecompA; [ | apply (emitsA_loop ft veof ts None Hft Hex) | reflexivity ].
  intros st.
  set (sub := fmt_otrivia first_trivia (mkF [] (f_spc st) (f_indent st))).
  pose proof (emitsA_otrivia first_trivia (mkF [] (f_spc st) (f_indent st))) as Hsub. fold sub in Hsub.
  change (anows {| f_chunks := []; f_spc := f_spc st; f_indent := f_indent st |}) with (@nil N) in Hsub.
  cbn [app] in Hsub. rewrite <- Hsub.
  unfold anows, st_all. cbn [f_chunks].
  rewrite rev_app_distr, rev_involutive, chunk_all_app, concat_app, nows_app. f_equal.
  destruct trim; [apply nows_chunk_all_drop | reflexivity].
Qed.

(* ---------------------------------------------------------------- format_token / format_block *)
Lemma go_flat_mapA : forall ts,
  (fix go (ts : list token) : list text :=
     match ts with [] => [] | t :: r => lead_comments t ++ body t ++ go r end) ts =
  tokens_flat o ts.
Proof.
  induction ts as [|t r IH]; [reflexivity|]. unfold tokens_flat in *. cbn [flat_map]. rewrite <- IH, <- app_assoc. reflexivity.
Qed.

Lemma emitsA_indent_by : forall k, emitsA (indent_by k) [].
Proof. intros k. apply same_emitsA. intros st. reflexivity. Qed.
Lemma emitsA_dedent_by : forall k, emitsA (dedent_by k) [].
Proof. intros k. apply same_emitsA. intros st. reflexivity. Qed.

Lemma emitsA_pop_newlines : emitsA pop_newlines [].
Proof.
  intros st. unfold pop_newlines, anows, st_all. cbn [f_chunks]. rewrite nows_chunk_all_drop_rev.
  unfold tnows; cbn; rewrite app_nil_r; reflexivity.
Qed.

Lemma emitsA_open_block : forall lp, emitsA (open_block o lp) [l_data lp].
Proof.
  intros lp st. unfold open_block.
  destruct (o_braces o); [|destruct (emits_lbrace_trivia && last_is_nl st)];
    repeat rewrite (emitsA_push _ _); unfold tnows; cbn [concat nows filter]; rewrite ?app_nil_r, <- ?app_assoc, ?app_nil_r; reflexivity.
Qed.

Lemma emitsA_lbrace_trivium : forall t, emitsA (fmt_lbrace_trivium t) (trivium_comments t).
Proof.
  intros t. destruct t as [s| |s|s]; cbn [fmt_lbrace_trivium trivium_comments].
  - apply emitsA_id.
  - apply emitsA_id.
  - destruct s; [apply (emitsA_eq _ [[]]); [reflexivity|] |]; apply emitsA_push_comment.
  - eapply emitsA_ext with (g := fun st => push [NL] (push_type (Some Comment) s st)); [reflexivity|].
    ecompA; [ | apply emitsA_push_nl | apply app_nil_r ].
    destruct s; [apply (emitsA_eq _ [[]]); [reflexivity|] |]; apply emitsA_push_comment.
Qed.

Lemma emitsA_fmt_lbrace_trivia : forall ot, emitsA (fmt_lbrace_trivia ot) (otrivia_comments ot).
Proof.
  intros [ts|]; cbn [fmt_lbrace_trivia otrivia_comments]; [|apply emitsA_id].
  apply (emitsA_fold fmt_lbrace_trivium trivium_comments). intros; apply emitsA_lbrace_trivium.
Qed.

Lemma emitsA_block_of_tokens : forall lt lp inner rp,
  (forall t, In t inner -> emitsA (format_token o t) (body t)) ->
  existsb is_value_token inner = false ->
  emitsA (format_block o lt (mkBlock lp inner rp))
        ((if lt && emits_lbrace_trivia then lt_comments lp else []) ++ blockc (mkBlock lp inner rp)).
Proof.
  intros lt lp inner rp Hft Hex. cbn [format_block block_flat].
  rewrite go_flat_mapA.
  pose proof (emitsA_tokens_with (format_token o) (Some (l_trivia rp)) inner true Hft Hex) as Hts.
  cbn [veof_flat] in Hts.
  cbv zeta.
  ecompA; [ ecompA; [ ecompA; [ ecompA; [ ecompA; [ ecompA;
      [ ecompA; [ | apply emitsA_open_block | reflexivity ] | apply emitsA_indent_by | reflexivity ]
      | exact Hts | reflexivity ]
      | apply emitsA_dedent_by | reflexivity ]
      | apply emitsA_pop_newlines | reflexivity ]
      | apply emitsA_push_nl | reflexivity ]
      | apply emitsA_push | ].
  - apply (emitsA_if (lt && emits_lbrace_trivia) (fmt_lbrace_trivia (l_trivia lp)) _ (emitsA_fmt_lbrace_trivia _)).
  - unfold lt_flat. cbn [app]. rewrite ?app_nil_r, <- ?app_assoc. cbn [app]. reflexivity.
Qed.

Ltac emitsA_leaf :=
  lazymatch goal with
  | |- emitsA (fmt_lexpr _) _ => apply emitsA_lexpr
  | |- emitsA (fmt_arg_exprs _) _ => apply emitsA_arg_exprs
  | |- emitsA (fmt_arg_ids _) _ => apply emitsA_arg_ids
  | |- emitsA (fmt_istring _) _ => apply emitsA_istring
  | |- emitsA (fmt_opt fmt_istring _) _ => apply emitsA_opt; intros; apply emitsA_istring
  | |- emitsA (fmt_opt (fmt_operand _) _) _ => apply emitsA_opt; intros; apply emitsA_operand
  | |- emitsA (fmt_arg_specific _) _ => apply emitsA_arg_specific
  | |- emitsA (fmt_opt fmt_import_as _) _ => apply emitsA_opt_import_as
  | |- emitsA (format_expression _) _ => apply emitsA_expression
  | _ => emitsA_step
  end.

Lemma vleadA_nonvalue : forall t, is_value_token t = false -> vlead t = [].
Proof. intros t H. destruct t; try reflexivity; discriminate. Qed.

(* `emitsA (format_block o lt b) (...)` for a block b of the token being proved; IH is the lemma being proved, used on
   the elements of the block's token list by structural recursion on that list *)
Ltac block_caseA IH o b Hb :=
  let lp := fresh "lp" in let inner := fresh "inner" in let rp := fresh "rp" in
  let Hex := fresh "Hex" in let Hall := fresh "Hall" in
  let a := fresh "a" in let r := fresh "r" in let IHr := fresh "IHr" in let t' := fresh "t'" in let Hin := fresh "Hin" in
  let Ha := fresh "Ha" in let Hr := fresh "Hr" in
  destruct b as [lp inner rp]; destruct (ok_block_inv _ _ _ Hb) as [Hex Hall];
  apply emitsA_block_of_tokens; [ | exact Hex ];
  clear - IH Hall Hex; induction inner as [|a r IHr]; intros t' Hin; [destruct Hin|];
  cbn [existsb] in Hex; apply orb_false_elim in Hex as [Ha Hr];
  destruct Hin as [<-|Hin];
  [ rewrite <- (app_nil_l (body a)), <- (vleadA_nonvalue a Ha); apply IH; apply Hall; left; reflexivity
  | apply IHr; [exact Hr | intros; apply Hall; right; assumption | assumption] ].

Lemma inner_blockcA : forall b, iblockc b = (if true && emits_lbrace_trivia then lt_comments (block_lparen b) else []) ++ blockc b.
Proof. intros [lp inner rp]. reflexivity. Qed.

Ltac prepA := cbn [format_token body_flat vlead_flat app]; rewrite ?inner_blockcA.

Lemma emitsA_token : forall t, ok_tok t -> emitsA (format_token o t) (vlead t ++ body t).
Proof.
  fix IH 1. intros t Hok.
  destruct t.
  - (* Align *) prepA. repeat emitsA_leaf; emitsA_eqs.
  - (* Assert *) prepA. repeat emitsA_leaf; emitsA_eqs.
  - (* Braces *) prepA. assert (Hb : ok_block b) by exact Hok.
    change (blockc b) with ((if false && emits_lbrace_trivia then lt_comments (block_lparen b) else []) ++ blockc b).
    block_caseA IH o b Hb.
  - (* Config *) assert (Hb : ok_block b) by exact Hok.
    cbn [format_token body_flat vlead_flat].
    replace (lead_comments (Config b) ++ blockc b)
      with ((if true && emits_lbrace_trivia then lt_comments (block_lparen b) else []) ++ blockc b) by (destruct b; reflexivity).
    block_caseA IH o b Hb.
  - (* ConfigPair *)
    assert (H2 : (match l_data value with Config _ | Expression _ => false | _ => true end) || any_tok P_ bad_shape (l_data value) = false) by exact Hok.
    apply orb_false_elim in H2 as [_ Hv0].
    assert (Hv : emitsA (format_token o (l_data value)) (vlead (l_data value) ++ body (l_data value))) by (apply IH; exact Hv0).
    cbn [format_token body_flat vlead_flat app].
    repeat emitsA_leaf; try exact Hv; emitsA_eqs.
  - (* Data *) prepA. repeat emitsA_leaf; emitsA_eqs.
  - (* Definition *)
    destruct value as [v|].
    + assert (H2 : (match v with Config _ => false | _ => true end) || any_tok P_ bad_shape v = false) by exact Hok.
      apply orb_false_elim in H2 as [_ Hv0].
      assert (Hv : emitsA (format_token o v) (vlead v ++ body v)) by (apply IH; exact Hv0).
      cbn [format_token body_flat vlead_flat app].
      repeat emitsA_leaf; try exact Hv; emitsA_eqs.
    + prepA. repeat emitsA_leaf; emitsA_eqs.
  - (* Eof *) prepA. apply emitsA_id.
  - (* Error *) prepA. apply emitsA_push.
  - (* Expression *) prepA. apply emitsA_expression.
  - (* File *) prepA. repeat emitsA_leaf; emitsA_eqs.
  - (* If *)
    destruct tag_else as [te|]; [destruct else_ as [eb|] | destruct else_ as [eb|]]; prepA.
    + assert (H2 : any_block P_ bad_shape if_ || any_block P_ bad_shape eb = false) by exact Hok.
      apply orb_false_elim in H2 as [Hb1 Hb2].
      assert (Hif : emitsA (format_block o true if_) ((if true && emits_lbrace_trivia then lt_comments (block_lparen if_) else []) ++ blockc if_))
        by (block_caseA IH o if_ Hb1).
      assert (Helse : emitsA (format_block o true eb) ((if true && emits_lbrace_trivia then lt_comments (block_lparen eb) else []) ++ blockc eb))
        by (block_caseA IH o eb Hb2).
      destruct (o_braces o).
      * repeat emitsA_leaf; try exact Hif; try exact Helse; cbn [opt_flat]; emitsA_eqs.
      * ecompA; [ ecompA; [ | apply emitsA_loc | reflexivity ] | exact Helse | ].
        -- instantiate (1 := [l_data tag_if] ++ lexpr_flat value ++ (if true && emits_lbrace_trivia then lt_comments (block_lparen if_) else []) ++ blockc if_).
           destruct (trivia_has_newline (l_trivia te)).
           ++ repeat emitsA_leaf; try exact Hif; emitsA_eqs.
           ++ repeat emitsA_leaf; try exact Hif; emitsA_eqs.
        -- cbn [opt_flat]. emitsA_eqs.
    + assert (H2 : any_block P_ bad_shape if_ || false = false) by exact Hok.
      rewrite orb_false_r in H2.
      assert (Hif : emitsA (format_block o true if_) ((if true && emits_lbrace_trivia then lt_comments (block_lparen if_) else []) ++ blockc if_))
        by (block_caseA IH o if_ H2).
      destruct (o_braces o).
      * repeat emitsA_leaf; try exact Hif; cbn [opt_flat]; emitsA_eqs.
      * ecompA; [ | apply emitsA_loc | ].
        -- instantiate (1 := [l_data tag_if] ++ lexpr_flat value ++ (if true && emits_lbrace_trivia then lt_comments (block_lparen if_) else []) ++ blockc if_).
           destruct (trivia_has_newline (l_trivia te)).
           ++ repeat emitsA_leaf; try exact Hif; emitsA_eqs.
           ++ repeat emitsA_leaf; try exact Hif; emitsA_eqs.
        -- cbn [opt_flat]. emitsA_eqs.
    + discriminate Hok.
    + assert (H2 : any_block P_ bad_shape if_ || false = false) by exact Hok.
      rewrite orb_false_r in H2.
      assert (Hif : emitsA (format_block o true if_) ((if true && emits_lbrace_trivia then lt_comments (block_lparen if_) else []) ++ blockc if_))
        by (block_caseA IH o if_ H2).
      repeat emitsA_leaf; try exact Hif; cbn [opt_flat]; emitsA_eqs.
  - (* Import *)
    destruct args as [c as_ | sargs]; destruct b as [bb|]; prepA; cbn [import_args_flat].
    + assert (Hb : ok_block bb) by exact Hok.
      assert (Hbb : emitsA (format_block o true bb) ((if true && emits_lbrace_trivia then lt_comments (block_lparen bb) else []) ++ blockc bb))
        by (block_caseA IH o bb Hb).
      repeat emitsA_leaf; try exact Hbb; emitsA_eqs.
    + repeat emitsA_leaf; emitsA_eqs.
    + assert (Hb : ok_block bb) by exact Hok.
      assert (Hbb : emitsA (format_block o true bb) ((if true && emits_lbrace_trivia then lt_comments (block_lparen bb) else []) ++ blockc bb))
        by (block_caseA IH o bb Hb).
      repeat emitsA_leaf; try exact Hbb; emitsA_eqs.
    + repeat emitsA_leaf; emitsA_eqs.
  - (* Instruction *) prepA. repeat emitsA_leaf; emitsA_eqs.
  - (* Label *)
    destruct b as [bb|]; prepA.
    + assert (H2 : (match l_trivia colon with Some _ => true | None => false end) || any_block P_ bad_shape bb = false) by exact Hok.
      apply orb_false_elim in H2 as [_ Hb].
      assert (Hbb : emitsA (format_block o true bb) ((if true && emits_lbrace_trivia then lt_comments (block_lparen bb) else []) ++ blockc bb))
        by (block_caseA IH o bb Hb).
      repeat emitsA_leaf; try exact Hbb; emitsA_eqs.
    + apply emitsA_push_label.
  - (* Loop *) prepA.
    assert (Hb : ok_block b) by exact Hok.
    assert (Hbb : emitsA (format_block o true b) ((if true && emits_lbrace_trivia then lt_comments (block_lparen b) else []) ++ blockc b))
      by (block_caseA IH o b Hb).
    repeat emitsA_leaf; try exact Hbb; emitsA_eqs.
  - (* MacroDefinition *) prepA.
    assert (Hb : ok_block b) by exact Hok.
    assert (Hbb : emitsA (format_block o true b) ((if true && emits_lbrace_trivia then lt_comments (block_lparen b) else []) ++ blockc b))
      by (block_caseA IH o b Hb).
    repeat emitsA_leaf; try exact Hbb; emitsA_eqs.
  - (* MacroInvocation *) prepA. repeat emitsA_leaf; emitsA_eqs.
  - (* ProgramCounterDefinition *) prepA. repeat emitsA_leaf; emitsA_eqs.
  - (* Segment *)
    destruct b as [bb|]; prepA.
    + assert (Hb : ok_block bb) by exact Hok.
      assert (Hbb : emitsA (format_block o true bb) ((if true && emits_lbrace_trivia then lt_comments (block_lparen bb) else []) ++ blockc bb))
        by (block_caseA IH o bb Hb).
      repeat emitsA_leaf; try exact Hbb; emitsA_eqs.
    + repeat emitsA_leaf; emitsA_eqs.
  - (* Test *) prepA.
    assert (Hb : ok_block b) by exact Hok.
    assert (Hbb : emitsA (format_block o true b) ((if true && emits_lbrace_trivia then lt_comments (block_lparen b) else []) ++ blockc b))
      by (block_caseA IH o b Hb).
    repeat emitsA_leaf; try exact Hbb; emitsA_eqs.
  - (* Text *) prepA. repeat emitsA_leaf; emitsA_eqs.
  - (* Trace *) prepA. repeat emitsA_leaf; emitsA_eqs.
  - (* VariableDefinition *) prepA. repeat emitsA_leaf; emitsA_eqs.
Qed.

(* ---------------------------------------------------------------- the file level *)
Lemma format_chunks_flat : forall ts, wf_tokens ts = true ->
  nows (concat (chunk_all (format_chunks o ts))) = tnows (tokens_flat o ts).
Proof.
  intros ts Hwf. destruct (ok_tokens_inv ts Hwf) as [Hex Hall].
  assert (Hft : forall t, In t ts -> emitsA (format_token o t) (body t)).
  { intros t Hin. rewrite <- (app_nil_l (body t)), <- (vleadA_nonvalue t (existsb_false_in _ _ _ Hex Hin)).
    apply emitsA_token. apply Hall. exact Hin. }
  pose proof (emitsA_tokens_with (format_token o) None ts false Hft Hex f_init) as H.
  cbn [veof_flat] in H. rewrite app_nil_r in H.
  change (anows f_init) with (@nil N) in H. cbn [app] in H. exact H.
Qed.

End FlatProofs.

(* The whole formatter on the model, ALL well-formed token lists, ALL options: the non-whitespace characters of the
   formatted text are exactly those of the token list's leaf texts and comments, in source order. *)
Theorem format_flat : forall o ts, wf_tokens ts = true ->
  nows (format o ts) = tnows (tokens_flat o ts).
Proof.
  intros o ts Hwf. rewrite format_accounts. rewrite <- (format_chunks_flat o ts Hwf). reflexivity.
Qed.

(* C06 over the listing model of C11 (model/Listing.v): under C11's well-formedness of the emission and n > 0 the
   listing writer does not panic (corollary of C11's listing_rows). *)
From Coq Require Import List NArith ZArith Bool Arith.
Import ListNotations.
From Mos Require Import model.SourceMap model.Listing spec.ListingSpec proofs.ListingProofs.

Lemma listing_file_total : forall cm segs es n f,
  wf_emission segs es -> spans_ok cm es -> (0 < n)%nat -> to_listing_file cm (map fst es) segs n f <> Panic.
Proof. intros cm segs es n f W S N. rewrite (listing_rows cm segs es n f W S N). discriminate. Qed.

(* The trivia layer of parser/mod.rs (space1, c_comment, cpp_comment, trivia_impl, newline, trivia, multiline_trivia,
   ws / mws / located wrappers): soundness, independence of the parser state, progress, and what is known about the
   input where a trivia loop stopped. *)
From Coq Require Import List NArith Bool Arith Lia.
Import ListNotations.
From Mos Require Import model.Utf model.Nom Gen.ParserTables model.Parser model.Display spec.Lossless proofs.NomProofs.
Open Scope N_scope.

(* ---------------------------------------------------------------- re-tagging a terminal's piece *)
Lemma retag_sound {A} P (txt : A -> text) (mk : A -> atom) (p : parser A) :
  (forall v, exact_atom (mk v) = txt v) -> (forall v, span_atom (mk v) = None) ->
  (forall v, lossy_atom (mk v) = false) -> (forall v, atom_ok (mk v)) ->
  sound P (fun v => [AText None (txt v)]) p -> sound P (fun v => [mk v]) p.
Proof.
  intros Hx Hsp Hl Hok Hp st i st' res E. destruct (Hp _ _ _ _ E) as [Hs Hr]. split; [assumption|].
  destruct res; auto. destruct Hr as [H1 _]. split; [|split].
  - intros HP. destruct (H1 HP) as [E1 T1]. unfold exact in *. cbn in *. rewrite Hx, Hsp. split; assumption.
  - repeat constructor. apply Hok.
  - intros _ Hf. unfold lossy in Hf. cbn in Hf. rewrite Hl in Hf. discriminate.
Qed.

(* ---------------------------------------------------------------- c_comment *)
Lemma c_comment_scan_app s : forall depth a b t, c_comment_scan depth s = (a, b, t) -> s = a ++ b.
Proof.
  induction s as [s IH] using (well_founded_induction (Wf_nat.well_founded_ltof _ (@length N))).
  intros depth a b t H. destruct s as [|c r]; cbn [c_comment_scan] in H; [inversion H; reflexivity|].
  destruct r as [|d r']; [inversion H; reflexivity|].
  destruct ((c =? 47) && (d =? 42)).
  - destruct (c_comment_scan (S depth) r') as [[a' b'] t'] eqn:E. inversion H; subst.
    apply IH in E; [|unfold ltof; cbn; lia]. cbn. rewrite E at 1. reflexivity.
  - destruct ((c =? 42) && (d =? 47)).
    + destruct depth.
      * inversion H; subst. reflexivity.
      * destruct (c_comment_scan depth r') as [[a' b'] t'] eqn:E. inversion H; subst.
        apply IH in E; [|unfold ltof; cbn; lia]. cbn. rewrite E at 1. reflexivity.
    + destruct (c_comment_scan depth (d :: r')) as [[a' b'] t'] eqn:E. inversion H; subst.
      apply IH in E; [|unfold ltof; cbn; lia]. cbn. rewrite E at 1. reflexivity.
Qed.

Lemma set_ignore_sle st : errors st <> [] -> sle st (set_ignore_next st).
Proof. intros H. split; cbn; auto. intros _ _. assumption. Qed.

Lemma c_comment_sound P : sound P (fun x => [AItem (TCStyle (fst x) (snd x))]) c_comment.
Proof.
  intros st i st' res E. unfold c_comment in E.
  destruct (tag t_slash_star st i) as [st1 [v r1| |x]] eqn:Et;
    destruct (tag_terminal _ _ _ _ _ Et) as [-> Hr]; [|inversion E; subst; split; [apply sle_refl|exact I]..].
  destruct Hr as [E1 O1]. destruct (c_comment_scan 0 (rem r1)) as [[a b] t] eqn:Es.
  apply c_comment_scan_app in Es.
  assert (Ev : v = t_slash_star).
  { unfold tag in Et. destruct (is_prefix t_slash_star (rem i)) eqn:Ep; [|discriminate]. inversion Et; subst.
    unfold t_slash_star in *. cbn in Ep. destruct (rem i) as [|c1 [|c2 r]]; try discriminate.
    - rewrite andb_false_r in Ep. discriminate.
    - apply andb_true_iff in Ep. destruct Ep as [Ep1 Ep2]. apply andb_true_iff in Ep2. destruct Ep2 as [Ep2 _].
      apply N.eqb_eq in Ep1, Ep2. subst. reflexivity. }
  subst v.
  assert (Efull : rem i = (47 :: 42 :: a) ++ b).
  { rewrite E1, Es. reflexivity. }
  destruct t; inversion E; subst; clear E.
  - split; [apply sle_refl|]. cbn [fst snd]. split; [|split].
    + intros _. unfold exact. cbn. rewrite app_nil_r. split; [exact Efull|]. split; [exact I|reflexivity].
    + repeat constructor.
    + intros _ Hf. discriminate.
  - set (d := mkDiag _ _ _). split.
    + split.
      * intros Hi _. cbn. apply report_error_nonempty. assumption.
      * intros He. cbn. apply (proj2 (report_error_sle d st)). assumption.
    + cbn [fst snd]. split; [|split].
      * intros _. unfold exact. cbn. rewrite app_nil_r. split; [exact Efull|]. split; [exact I|reflexivity].
      * repeat constructor.
      * intros Hi _. cbn. apply report_error_nonempty. assumption.
Qed.

(* ---------------------------------------------------------------- trivia_impl, newline *)
Lemma cpp_comment_sound P : sound P (fun s => [AText None s]) cpp_comment.
Proof.
  unfold cpp_comment. eapply recognize_sound. apply pair_sound.
  - apply terminal_sound. apply tag_terminal.
  - apply opt_sound. apply terminal_sound. apply take_while1_terminal.
Qed.

Lemma trivia_impl_sound P : sound P (fun t => [AItem t]) trivia_impl.
Proof.
  unfold trivia_impl. cbn [alts]. repeat apply alt_sound; [| | |apply fail_sound].
  - eapply map_sound with (sa := fun s => [AItem (TWhitespace s)]); [|reflexivity].
    apply (retag_sound P (fun s => s) (fun s => AItem (TWhitespace s))); [reflexivity|reflexivity|reflexivity|intros; exact I|].
    apply terminal_sound. apply take_while1_terminal.
  - eapply map_sound; [apply c_comment_sound|reflexivity].
  - eapply map_sound with (sa := fun s => [AItem (TCppStyle s)]); [|reflexivity].
    apply (retag_sound P (fun s => s) (fun s => AItem (TCppStyle s))); [reflexivity|reflexivity|reflexivity|intros; exact I|].
    apply cpp_comment_sound.
Qed.

Lemma newline_sound P : sound P (fun t => [AItem t]) newline.
Proof.
  intros st i st' res E. unfold newline, map_p, pair_p, opt, char_p, satisfy in E.
  destruct (rem i) as [|c r] eqn:Ri.
  - cbn in E. rewrite Ri in E. inversion E; subst. split; [apply sle_refl|exact I].
  - destruct (13 =? c) eqn:E13.
    + apply N.eqb_eq in E13. subst c. cbn [rem consume] in E.
      destruct r as [|d r2].
      * inversion E; subst. split; [apply sle_refl|exact I].
      * destruct (10 =? d) eqn:E10.
        -- apply N.eqb_eq in E10. subst d. inversion E; subst. split; [apply sle_refl|].
           split; [|split].
           ++ intros _. unfold exact. cbn. split; [first [assumption|reflexivity]|]. split; [exact I|]. lia.
           ++ repeat constructor.
           ++ intros _ Hf. discriminate.
        -- inversion E; subst. split; [apply sle_refl|exact I].
    + rewrite Ri in E. destruct (10 =? c) eqn:E10.
      * apply N.eqb_eq in E10. subst c. inversion E; subst. split; [apply sle_refl|].
        split; [|split].
        -- intros _. unfold exact. cbn. split; [first [assumption|reflexivity]|]. split; [exact I|reflexivity].
        -- repeat constructor.
        -- intros _ Hf. discriminate.
      * inversion E; subst. split; [apply sle_refl|exact I].
Qed.

Lemma exact_items l : exact (concat (map (fun t => [AItem t]) l)) = concat (map triv_exact l).
Proof. induction l; cbn; [reflexivity|]. unfold exact in *. cbn. rewrite IHl. reflexivity. Qed.
Lemma lossy_items l : lossy (concat (map (fun t => [AItem t]) l)) = existsb triv_lossy l.
Proof. induction l; cbn; [reflexivity|]. unfold lossy in *. cbn. rewrite IHl. reflexivity. Qed.

Lemma to_ltrivia_sound P (q : parser (list trivia)) :
  sound anyP (fun l => concat (map (fun t => [AItem t]) l)) q ->
  sound P (fun t => [ATriv t]) (map_p to_ltrivia (located_p q)).
Proof.
  intros Hq st i st' res E. unfold map_p, located_p in E.
  destruct (q st i) as [st1 [l r| |x]] eqn:Eq; destruct (Hq _ _ _ _ Eq) as [Hs Hr]; inversion E; subst; split; auto.
  destruct Hr as [H1 [O1 L1]]. destruct (H1 I) as [E1 T1]. apply tiling_len in T1. rewrite exact_items in *.
  unfold to_ltrivia. cbn [lo hi data]. split; [|split].
  - intros _. unfold exact. cbn. rewrite app_nil_r. split; [assumption|]. split; [split; [reflexivity|assumption]|lia].
  - repeat constructor.
  - intros Hi Hf. apply L1; [assumption|]. rewrite lossy_items. unfold lossy in Hf. cbn in Hf.
    rewrite orb_false_r in Hf. assumption.
Qed.

Lemma trivia_p_sound P : sound P (fun t => [ATriv t]) trivia_p.
Proof. apply to_ltrivia_sound. apply many1_sound. apply trivia_impl_sound. Qed.
Lemma multiline_trivia_sound P : sound P (fun t => [ATriv t]) multiline_trivia.
Proof. apply to_ltrivia_sound. apply many1_sound. apply alt_sound; [apply trivia_impl_sound|apply newline_sound]. Qed.

(* ---------------------------------------------------------------- wrappers *)
Lemma wr_sound {A} P (sa : A -> list atom) w (p : parser A) : sound anyP sa p -> sound P (a_loc sa) (wr w p).
Proof.
  intros Hp. destruct w; cbn [wr].
  - apply with_trivia_sound; [apply trivia_p_sound|assumption].
  - apply with_trivia_sound; [apply multiline_trivia_sound|assumption].
  - apply located_sound. apply sound_any. assumption.
Qed.
Lemma wr_span_sound {A} P (txt : A -> text) w (p : parser A) (mk : option span -> A -> atom) :
  (forall sp v, exact_atom (mk sp v) = txt v) -> (forall sp v, span_atom (mk sp v) = sp) ->
  (forall sp v, lossy_atom (mk sp v) = false) -> (forall sp sp' v, atom_ok (mk sp v) -> atom_ok (mk sp' v)) ->
  sound anyP (fun v => [mk None v]) p ->
  sound P (fun l => a_triv (triv l) ++ [mk (sp_of l) (data l)]) (wr w p).
Proof.
  intros Hx Hsp Hl Hok Hp. destruct w; cbn [wr].
  - eapply with_trivia_span_sound; eauto. apply trivia_p_sound.
  - eapply with_trivia_span_sound; eauto. apply multiline_trivia_sound.
  - eapply located_span_sound; eauto. apply sound_any. assumption.
Qed.

Lemma wr_text_sound P w (p : parser text) : sound anyP (fun s => [AText None s]) p -> sound P a_text (wr w p).
Proof. intros Hp. unfold a_text. apply (wr_span_sound P (fun s => s) w p (fun sp s => AText sp s)); auto. Qed.
Lemma wr_textf_sound {A} P (txt : A -> text) w (p : parser A) :
  sound anyP (fun v => [AText None (txt v)]) p -> sound P (fun l => a_triv (triv l) ++ [AText (sp_of l) (txt (data l))]) (wr w p).
Proof. intros Hp. apply (wr_span_sound P txt w p (fun sp v => AText sp (txt v))); auto. Qed.
Lemma char_sound P c : sound P (fun x => [AText None [x]]) (char_p c).
Proof. apply terminal_sound. apply satisfy_terminal. Qed.
Lemma wr_char_sound P w c : sound P a_char (wr w (char_p c)).
Proof. unfold a_char. apply (wr_span_sound P (fun c => [c]) w _ (fun sp c => AText sp [c])); auto. apply char_sound. Qed.

(* char(c) returns c *)
Lemma char_const_sound P c : sound P (fun _ => [AText None [c]]) (char_p c).
Proof.
  intros st i st' res E. pose proof (char_sound P c _ _ _ _ E) as [Hs Hr]. split; [assumption|].
  destruct res; auto. unfold char_p, satisfy in E. destruct (rem i) as [|x r']; [discriminate|].
  destruct (c =? x) eqn:Ec; [|discriminate]. apply N.eqb_eq in Ec. inversion E; subst. assumption.
Qed.
Lemma is_prefix_firstn t : forall s, is_prefix t s = true -> firstn (length t) s = t.
Proof.
  induction t as [|x t IH]; intros s H; [reflexivity|]. destruct s as [|c s]; [discriminate|].
  cbn in H. apply andb_true_iff in H. destruct H as [H1 H2]. apply N.eqb_eq in H1. subst. cbn. f_equal. auto.
Qed.
Lemma tag_const_sound P t : sound P (fun _ => [AText None t]) (tag t).
Proof.
  intros st i st' res E. pose proof (terminal_sound (fun s => s) _ P (tag_terminal t) _ _ _ _ E) as [Hs Hr].
  split; [assumption|]. destruct res; auto. unfold tag in E. destruct (is_prefix t (rem i)) eqn:Ep; [|discriminate].
  rewrite (is_prefix_firstn _ _ Ep) in E. inversion E; subst. assumption.
Qed.

(* ---------------------------------------------------------------- keywords *)
Lemma ci_eq_trans a b c : ci_eq a b -> ci_eq b c -> ci_eq a c.
Proof.
  intros H. revert c. induction H; intros c Hc; inversion Hc; subst; constructor; [congruence|]. apply IHForall2. assumption.
Qed.

Lemma tagged_entry_sound {V} P (disp : V -> text) (e : text * V) :
  ci_eq (fst e) (disp (snd e)) ->
  sound P (fun vo => [AKw None (disp (fst vo)) (snd vo)]) (map_p (fun o => (snd e, o)) (tag_no_case (fst e))).
Proof.
  intros Hc st i st' res E. unfold map_p in E.
  destruct (tag_no_case (fst e) st i) as [st1 [a r| |x]] eqn:Et;
    destruct (tag_no_case_terminal _ _ _ _ _ Et) as [-> Hr]; inversion E; subst; (split; [apply sle_refl|]); auto.
  destruct Hr as [E1 O1]. cbn [fst snd]. split; [|split].
  - intros _. unfold exact. cbn. rewrite app_nil_r. split; [assumption|]. split; [exact I|]. lia.
  - repeat constructor. cbn. eapply ci_eq_trans; [|eassumption]. eapply tag_no_case_ci; eassumption.
  - intros _ Hf. discriminate.
Qed.
Lemma tagged_sound {V} P (disp : V -> text) (table : list (text * V)) :
  forallb (fun e => ci_eqb (fst e) (disp (snd e))) table = true ->
  sound P (fun vo => [AKw None (disp (fst vo)) (snd vo)]) (tagged table).
Proof.
  intros H. unfold tagged. apply alts_map_sound. intros e He.
  rewrite forallb_forall in H. specialize (H e He).
  apply tagged_entry_sound. apply ci_eqb_ok. assumption.
Qed.
Lemma keyword_sound P (k : text * text) :
  ci_eqb (fst k) (snd k) = true ->
  sound P (fun kw : keyword => [AKw None (fst kw) (snd kw)]) (keyword_p k).
Proof.
  intros H. unfold keyword_p.
  apply (tagged_entry_sound P (fun c : text => c) k). apply ci_eqb_ok. assumption.
Qed.
Lemma wr_kw_sound P w k : ci_eqb (fst k) (snd k) = true -> sound P a_kw (wr w (keyword_p k)).
Proof.
  intros H. unfold a_kw.
  apply (wr_span_sound P (fun kw : keyword => snd kw) w _ (fun sp kw => AKw sp (fst kw) (snd kw))); auto.
  apply keyword_sound. assumption.
Qed.
Lemma wr_tagged_sound {V} P w (disp : V -> text) (table : list (text * V)) :
  forallb (fun e => ci_eqb (fst e) (disp (snd e))) table = true ->
  sound P (a_tagged disp) (wr w (tagged table)).
Proof.
  intros H. unfold a_tagged.
  apply (wr_span_sound P (fun vo : V * text => snd vo) w _ (fun sp vo => AKw sp (disp (fst vo)) (snd vo))); auto.
  apply tagged_sound. assumption.
Qed.

(* ---------------------------------------------------------------- where a trivia loop stops *)
(* the result (not the state) of a parser does not depend on the state *)
Definition oblivious {A} (p : parser A) : Prop := forall st1 st2 i, snd (p st1 i) = snd (p st2 i).

Lemma oblivious_terminal {A} (f : input -> result A) (p : parser A) :
  (forall st i, p st i = (st, f i)) -> oblivious p.
Proof. intros H st1 st2 i. rewrite !H. reflexivity. Qed.
Lemma oblivious_map {A B} (f : A -> B) p : oblivious p -> oblivious (map_p f p).
Proof.
  intros H st1 st2 i. unfold map_p. specialize (H st1 st2 i).
  destruct (p st1 i) as [s1 r1], (p st2 i) as [s2 r2]. cbn in H. subst. destruct r2; reflexivity.
Qed.
Lemma oblivious_pair {A B} (p : parser A) (q : parser B) : oblivious p -> oblivious q -> oblivious (pair_p p q).
Proof.
  intros Hp Hq st1 st2 i. unfold pair_p. specialize (Hp st1 st2 i).
  destruct (p st1 i) as [s1 r1], (p st2 i) as [s2 r2]. cbn in Hp. subst. destruct r2; try reflexivity.
  specialize (Hq s1 s2 r). destruct (q s1 r) as [t1 q1], (q s2 r) as [t2 q2]. cbn in Hq. subst. destruct q2; reflexivity.
Qed.
Lemma oblivious_alt {A} (p q : parser A) : oblivious p -> oblivious q -> oblivious (alt p q).
Proof.
  intros Hp Hq st1 st2 i. unfold alt. specialize (Hp st1 st2 i).
  destruct (p st1 i) as [s1 r1], (p st2 i) as [s2 r2]. cbn in Hp. subst. destruct r2; try reflexivity. apply Hq.
Qed.
Lemma oblivious_opt {A} (p : parser A) : oblivious p -> oblivious (opt p).
Proof.
  intros Hp st1 st2 i. unfold opt. specialize (Hp st1 st2 i).
  destruct (p st1 i) as [s1 r1], (p st2 i) as [s2 r2]. cbn in Hp. subst. destruct r2; reflexivity.
Qed.
Lemma oblivious_recognize {A} (p : parser A) : oblivious p -> oblivious (recognize p).
Proof.
  intros Hp st1 st2 i. unfold recognize. specialize (Hp st1 st2 i).
  destruct (p st1 i) as [s1 r1], (p st2 i) as [s2 r2]. cbn in Hp. subst. destruct r2; reflexivity.
Qed.
Lemma oblivious_located {A} (p : parser A) : oblivious p -> oblivious (located_p p).
Proof.
  intros Hp st1 st2 i. unfold located_p. specialize (Hp st1 st2 i).
  destruct (p st1 i) as [s1 r1], (p st2 i) as [s2 r2]. cbn in Hp. subst. destruct r2; reflexivity.
Qed.
Lemma oblivious_many0_aux {A} (p : parser A) fuel : oblivious p -> oblivious (many0_aux fuel p).
Proof.
  intros Hp. induction fuel as [|f IH]; intros st1 st2 i; cbn [many0_aux]; [reflexivity|].
  specialize (Hp st1 st2 i). destruct (p st1 i) as [s1 r1], (p st2 i) as [s2 r2]. cbn in Hp. subst.
  destruct r2; try reflexivity. destruct (_ =? _)%nat; [reflexivity|].
  specialize (IH s1 s2 r). destruct (many0_aux f p s1 r) as [t1 q1], (many0_aux f p s2 r) as [t2 q2]. cbn in IH. subst.
  destruct q2; reflexivity.
Qed.
Lemma oblivious_many0 {A} (p : parser A) : oblivious p -> oblivious (many0 p).
Proof. intros Hp st1 st2 i. unfold many0. apply oblivious_many0_aux. assumption. Qed.
Lemma oblivious_many1 {A} (p : parser A) : oblivious p -> oblivious (many1 p).
Proof. intros Hp. unfold many1. apply oblivious_map. apply oblivious_pair; [assumption|apply oblivious_many0; assumption]. Qed.

Lemma oblivious_take_while1 f : oblivious (take_while1_p f).
Proof. intros st1 st2 i. unfold take_while1_p. destruct (take_while f (rem i)) as [a b]. destruct a; reflexivity. Qed.
Lemma oblivious_tag t : oblivious (tag t).
Proof. intros st1 st2 i. unfold tag. destruct (is_prefix t (rem i)); reflexivity. Qed.
Lemma oblivious_satisfy f : oblivious (satisfy f).
Proof. intros st1 st2 i. unfold satisfy. destruct (rem i); [reflexivity|]. destruct (f n); reflexivity. Qed.
Lemma oblivious_c_comment : oblivious c_comment.
Proof.
  intros st1 st2 i. unfold c_comment. pose proof (oblivious_tag t_slash_star st1 st2 i) as H.
  destruct (tag t_slash_star st1 i) as [s1 r1] eqn:E1, (tag t_slash_star st2 i) as [s2 r2] eqn:E2. cbn in H. subst.
  destruct r2; try reflexivity. destruct (c_comment_scan 0 (rem r)) as [[a b] t]. destruct t; reflexivity.
Qed.
Lemma oblivious_trivia_impl : oblivious trivia_impl.
Proof.
  unfold trivia_impl. cbn [alts]. repeat apply oblivious_alt.
  - apply oblivious_map, oblivious_take_while1.
  - apply oblivious_map, oblivious_c_comment.
  - apply oblivious_map. unfold cpp_comment. apply oblivious_recognize, oblivious_pair; [apply oblivious_tag|].
    apply oblivious_opt, oblivious_take_while1.
  - intros st1 st2 i. reflexivity.
Qed.
Lemma oblivious_newline : oblivious newline.
Proof.
  unfold newline. apply oblivious_map, oblivious_pair; [apply oblivious_opt|]; apply oblivious_satisfy.
Qed.
Lemma oblivious_trivia_p : oblivious trivia_p.
Proof. unfold trivia_p. apply oblivious_map, oblivious_located, oblivious_many1, oblivious_trivia_impl. Qed.
Lemma oblivious_multiline_trivia : oblivious multiline_trivia.
Proof.
  unfold multiline_trivia. apply oblivious_map, oblivious_located, oblivious_many1, oblivious_alt;
    [apply oblivious_trivia_impl|apply oblivious_newline].
Qed.

(* many0 stops where its parser fails; it fails only after an iteration that did not consume *)
Lemma many0_aux_stop {A} (p : parser A) fuel : forall st i st' l r,
  many0_aux fuel p st i = (st', Ok l r) -> exists sa sb, p sa r = (sb, Err).
Proof.
  induction fuel as [|f IH]; intros st i st' l r E; cbn [many0_aux] in E; [discriminate|].
  destruct (p st i) as [st1 [a r1| |x]] eqn:Ep; try discriminate.
  - destruct (_ =? _)%nat; [discriminate|].
    destruct (many0_aux f p st1 r1) as [st2 [l' r'| |y]] eqn:Em; inversion E; subst. eapply IH. eassumption.
  - inversion E; subst. eauto.
Qed.
Lemma many0_aux_err {A} (p : parser A) fuel : forall st i st',
  many0_aux fuel p st i = (st', Err) ->
  exists sa sb i1 v r1, p sa i1 = (sb, Ok v r1) /\ length (rem r1) = length (rem i1).
Proof.
  induction fuel as [|f IH]; intros st i st' E; cbn [many0_aux] in E; [discriminate|].
  destruct (p st i) as [st1 [a r1| |x]] eqn:Ep; try discriminate.
  destruct (length (rem r1) =? length (rem i))%nat eqn:El.
  - apply Nat.eqb_eq in El. exists st, st1, i, a, r1. split; assumption.
  - destruct (many0_aux f p st1 r1) as [st2 [l' r'| |y]] eqn:Em; inversion E; subst. eapply IH. eassumption.
Qed.

(* a parser that consumes at least one character whenever it succeeds *)
Definition progress {A} (p : parser A) : Prop := forall st i st' v r, p st i = (st', Ok v r) -> length (rem r) <> length (rem i).
Lemma progress_of_sound {A} (sa : A -> list atom) (p : parser A) :
  sound anyP sa p -> (forall st i st' v r, p st i = (st', Ok v r) -> exact (sa v) <> []) -> progress p.
Proof.
  intros Hp Hn st i st' v r E. destruct (Hp _ _ _ _ E) as [_ [H1 _]]. destruct (H1 I) as [E1 _].
  specialize (Hn _ _ _ _ _ E). rewrite E1, app_length. destruct (exact (sa v)); [congruence|]. cbn. lia.
Qed.
Lemma take_while1_nonempty f st i st' v r : take_while1_p f st i = (st', Ok v r) -> v <> [].
Proof. unfold take_while1_p. destruct (take_while f (rem i)) as [a b]. destruct a; intros H; inversion H; subst; discriminate. Qed.
Lemma progress_trivia_impl : progress trivia_impl.
Proof.
  apply (progress_of_sound _ _ (trivia_impl_sound anyP)). intros st i st' v r E.
  unfold trivia_impl in E. cbn [alts] in E. unfold alt in E.
  destruct (map_p TWhitespace space1 st i) as [s1 [a1 r1| |x1]] eqn:E1.
  - inversion E; subst. unfold map_p in E1. destruct (space1 st i) as [s [a r2| |x]] eqn:Es; inversion E1; subst.
    unfold exact. cbn. rewrite app_nil_r. eapply take_while1_nonempty. exact Es.
  - destruct (map_p (fun x => TCStyle (fst x) (snd x)) c_comment s1 i) as [s2 [a2 r2| |x2]] eqn:E2.
    + inversion E; subst. unfold map_p in E2. destruct (c_comment s1 i) as [s [a r3| |x]] eqn:Es; inversion E2; subst.
      unfold c_comment in Es. destruct (tag t_slash_star s1 i) as [s3 [v3 r4| |x3]]; try discriminate.
      destruct (c_comment_scan 0 (rem r4)) as [[aa bb] tt]. destruct tt; inversion Es; subst; unfold exact; cbn; discriminate.
    + destruct (map_p TCppStyle cpp_comment s2 i) as [s3 [a3 r3| |x3]] eqn:E3; inversion E; subst.
      unfold map_p in E3. destruct (cpp_comment s2 i) as [s [a r4| |x]] eqn:Es; inversion E3; subst.
      unfold exact. cbn. rewrite app_nil_r.
      unfold cpp_comment, recognize, pair_p in Es.
      destruct (tag t_slash_slash s2 i) as [s4 [v4 r5| |x4]] eqn:Et; try discriminate.
      destruct (tag_terminal _ _ _ _ _ Et) as [-> [Ei _]].
      assert (v4 = t_slash_slash).
      { unfold tag in Et. destruct (is_prefix t_slash_slash (rem i)) eqn:Ep; [|discriminate]. inversion Et; subst.
        apply is_prefix_firstn in Ep. exact Ep. }
      subst v4.
      destruct (opt (is_not cpp_comment_stop) s2 r5) as [s5 [v5 r6| |x5]] eqn:Eo; inversion Es; subst.
      pose proof (opt_sound anyP _ _ (terminal_sound (fun s => s) _ anyP (take_while1_terminal _)) _ _ _ _ Eo) as [_ [H1 _]].
      destruct (H1 I) as [E6 _]. intros Hc. apply (f_equal (@length N)) in Hc. rewrite firstn_length in Hc.
      rewrite Ei, E6 in Hc. unfold t_slash_slash in Hc. rewrite !app_length in Hc. cbn [length] in Hc. lia.
    + discriminate.
  - discriminate.
Qed.
Lemma progress_newline : progress newline.
Proof.
  apply (progress_of_sound _ _ (newline_sound anyP)). intros st i st' v r E.
  unfold newline, map_p in E. destruct (pair_p (opt (char_p 13)) (char_p 10) st i) as [s [a r1| |x]]; inversion E; subst.
  unfold exact. cbn. destruct (fst a); discriminate.
Qed.
Lemma progress_alt {A} (p q : parser A) : progress p -> progress q -> progress (alt p q).
Proof.
  intros Hp Hq st i st' v r E. unfold alt in E. destruct (p st i) as [s1 [a r1| |x]] eqn:Ep.
  - inversion E; subst. eapply Hp; eassumption.
  - eapply Hq; eassumption.
  - discriminate.
Qed.

(* after opt(located(many1(p))) the rest is an input on which p fails in every state *)
Lemma opt_many1_stop (p : parser trivia) : oblivious p -> progress p ->
  forall st i st' t r, opt (map_p to_ltrivia (located_p (many1 p))) st i = (st', Ok t r) ->
  forall st2, snd (p st2 r) = Err.
Proof.
  intros Ho Hpr st i st' t r E st2. unfold opt, map_p, located_p, many1 in E. unfold map_p, pair_p in E.
  destruct (p st i) as [s1 [a r1| |x]] eqn:Ep.
  - unfold many0 in E. destruct (many0_aux (S (length (rem r1))) p s1 r1) as [s2 [l r2| |y]] eqn:Em.
    + inversion E; subst. apply many0_aux_stop in Em. destruct Em as [sa [sb Hf]].
      rewrite (Ho st2 sa r), Hf. reflexivity.
    + apply many0_aux_err in Em. destruct Em as [sa [sb [i1 [v [r3 [Hv Hl]]]]]]. exfalso. eapply Hpr; eassumption.
    + discriminate.
  - inversion E; subst. rewrite (Ho st2 st r), Ep. reflexivity.
  - discriminate.
Qed.

(* no single-line trivia item starts here *)
Definition notriv (i : input) : Prop := forall st, snd (trivia_impl st i) = Err.
(* ... nor a newline *)
Definition notriv_m (i : input) : Prop := forall st, snd (alt trivia_impl newline st i) = Err.

Lemma notriv_m_notriv i : notriv_m i -> notriv i.
Proof.
  intros H st. specialize (H st). unfold alt in H. destruct (trivia_impl st i) as [s [a r| |x]]; cbn in *; try reflexivity; try discriminate.
Qed.
Lemma notriv_m_newline i : notriv_m i -> forall st, snd (newline st i) = Err.
Proof.
  intros H st. pose proof (H st) as H1. unfold alt in H1. destruct (trivia_impl st i) as [s [a r| |x]] eqn:Et; cbn in *; try discriminate.
  rewrite (oblivious_newline st s i). assumption.
Qed.
Lemma opt_trivia_notriv st i st' t r : opt trivia_p st i = (st', Ok t r) -> notriv r.
Proof. intros E st2. eapply (opt_many1_stop trivia_impl oblivious_trivia_impl progress_trivia_impl); eassumption. Qed.
Lemma opt_multiline_notriv st i st' t r : opt multiline_trivia st i = (st', Ok t r) -> notriv_m r.
Proof.
  intros E st2. eapply (opt_many1_stop (alt trivia_impl newline)); try eassumption.
  - apply oblivious_alt; [apply oblivious_trivia_impl|apply oblivious_newline].
  - apply progress_alt; [apply progress_trivia_impl|apply progress_newline].
Qed.
(* on such an input the optional trivia is absent and nothing moves *)
Lemma opt_trivia_none i : notriv i -> forall st, exists st', opt trivia_p st i = (st', Ok None i).
Proof.
  intros H st. unfold opt, trivia_p, map_p, located_p, many1, map_p, pair_p. specialize (H st).
  destruct (trivia_impl st i) as [s [a r| |x]]; cbn in H; try discriminate. eauto.
Qed.
Lemma opt_multiline_none i : notriv_m i -> forall st, exists st', opt multiline_trivia st i = (st', Ok None i).
Proof.
  intros H st. unfold opt, multiline_trivia, map_p, located_p, many1, map_p, pair_p. specialize (H st).
  destruct (alt trivia_impl newline st i) as [s [a r| |x]]; cbn in H; try discriminate. eauto.
Qed.

(* refined wrapper lemma: the wrapped parser may rely on starting where no trivia starts *)
Definition after (w : wrapper) (P : input -> Prop) : input -> Prop :=
  match w with W_ws => notriv | W_mws => notriv_m | W_located => P end.
Lemma wr_sound_after {A} P (sa : A -> list atom) w (p : parser A) :
  sound (after w P) sa p -> sound P (a_loc sa) (wr w p).
Proof.
  intros Hp. destruct w; cbn [wr after] in *; [| |apply located_sound; assumption].
  - intros st i st' res E. unfold ws, with_trivia in E.
    pose proof (opt_sound anyP _ _ (trivia_p_sound anyP)) as Ho.
    destruct (opt trivia_p st i) as [st1 [t r| |x]] eqn:Eo; destruct (Ho _ _ _ _ Eo) as [Hs1 Hr1];
      [|inversion E; subst; split; auto..].
    pose proof (opt_trivia_notriv _ _ _ _ _ Eo) as Hn.
    destruct (p st1 r) as [st2 [a r'| |y]] eqn:Ep; destruct (Hp _ _ _ _ Ep) as [Hs2 Hr2]; inversion E; subst;
      (split; [eapply sle_trans; eassumption|]); auto.
    destruct Hr1 as [H1 [O1 L1]]. destruct Hr2 as [H2 [O2 L2]]. unfold a_loc. cbn [triv data].
    assert (Et : a_opt (fun t => [ATriv t]) t = a_triv t) by (destruct t; reflexivity). rewrite Et in *.
    split; [intros _; split|split].
    + destruct (H1 I) as [E1 _]. destruct (H2 Hn) as [E2 _]. rewrite exact_app, <- app_assoc, <- E2. assumption.
    + destruct (H1 I) as [_ T1]. destruct (H2 Hn) as [_ T2]. rewrite pieces_app. eapply tiling_app; eassumption.
    + apply Forall_app. split; assumption.
    + intros Hi Hl. rewrite lossy_app in Hl. apply orb_true_iff in Hl. destruct Hl as [Hl|Hl].
      * apply (proj2 Hs2). apply L1; assumption.
      * apply L2; [apply (proj1 Hs1); assumption|assumption].
  - intros st i st' res E. unfold mws, with_trivia in E.
    pose proof (opt_sound anyP _ _ (multiline_trivia_sound anyP)) as Ho.
    destruct (opt multiline_trivia st i) as [st1 [t r| |x]] eqn:Eo; destruct (Ho _ _ _ _ Eo) as [Hs1 Hr1];
      [|inversion E; subst; split; auto..].
    pose proof (opt_multiline_notriv _ _ _ _ _ Eo) as Hn.
    destruct (p st1 r) as [st2 [a r'| |y]] eqn:Ep; destruct (Hp _ _ _ _ Ep) as [Hs2 Hr2]; inversion E; subst;
      (split; [eapply sle_trans; eassumption|]); auto.
    destruct Hr1 as [H1 [O1 L1]]. destruct Hr2 as [H2 [O2 L2]]. unfold a_loc. cbn [triv data].
    assert (Et : a_opt (fun t => [ATriv t]) t = a_triv t) by (destruct t; reflexivity). rewrite Et in *.
    split; [intros _; split|split].
    + destruct (H1 I) as [E1 _]. destruct (H2 Hn) as [E2 _]. rewrite exact_app, <- app_assoc, <- E2. assumption.
    + destruct (H1 I) as [_ T1]. destruct (H2 Hn) as [_ T2]. rewrite pieces_app. eapply tiling_app; eassumption.
    + apply Forall_app. split; assumption.
    + intros Hi Hl. rewrite lossy_app in Hl. apply orb_true_iff in Hl. destruct Hl as [Hl|Hl].
      * apply (proj2 Hs2). apply L1; assumption.
      * apply L2; [apply (proj1 Hs1); assumption|assumption].
Qed.

(* Proofs for C10 (builds are reproducible) over model/Repro.v. *)
From Coq Require Import List NArith ZArith Bool Permutation Sorted Lia Arith.
Import ListNotations.
From Mos Require Import model.Repro.

Definition valid (pi : oracle) : Prop := forall A (c : list nat) (l : list A), Permutation (pi A c l) l.

Lemma valid_ident : valid ident_oracle.
Proof. intros A c l. apply Permutation_refl. Qed.
Lemma valid_rev : valid rev_oracle.
Proof. intros A c l. apply Permutation_sym, Permutation_rev. Qed.

Lemma valid_rev_at : forall c0, valid (rev_at_oracle c0).
Proof. intros c0 A c l. unfold rev_at_oracle. destruct (call_eqb c c0); [apply Permutation_sym, Permutation_rev | apply Permutation_refl]. Qed.

(* ------------------------------------------------------------------ orders *)
Record good_order {A} (eqb leb : A -> A -> bool) : Prop := mkGood {
  go_eqb : forall a b, eqb a b = true <-> a = b;
  go_total : forall a b, leb a b = true \/ leb b a = true;
  go_trans : forall a b c, leb a b = true -> leb b c = true -> leb a c = true;
  go_antisym : forall a b, leb a b = true -> leb b a = true -> a = b
}.

Lemma good_N : good_order N.eqb N.leb.
Proof.
  split; intros.
  - apply N.eqb_eq.
  - destruct (N.leb_spec a b); [left; reflexivity | right; apply N.leb_le; lia].
  - apply N.leb_le in H, H0. apply N.leb_le. lia.
  - apply N.leb_le in H, H0. lia.
Qed.
Lemma good_nat : good_order Nat.eqb Nat.leb.
Proof.
  split; intros.
  - apply Nat.eqb_eq.
  - destruct (Nat.leb_spec a b); [left; reflexivity | right; apply Nat.leb_le; lia].
  - apply Nat.leb_le in H, H0. apply Nat.leb_le. lia.
  - apply Nat.leb_le in H, H0. lia.
Qed.

Lemma list_eqb_spec {A} (eqb : A -> A -> bool) :
  (forall a b, eqb a b = true <-> a = b) -> forall a b, list_eqb eqb a b = true <-> a = b.
Proof.
  intros H a. induction a as [|x a IH]; intros [|y b]; cbn; split; intro E; try reflexivity; try discriminate.
  - apply andb_true_iff in E as [E1 E2]. apply H in E1. apply IH in E2. subst. reflexivity.
  - inversion E; subst. apply andb_true_iff. split; [apply H; reflexivity | apply IH; reflexivity].
Qed.

Lemma good_lex {A} (eqb leb : A -> A -> bool) :
  good_order eqb leb -> good_order (list_eqb eqb) (lex_leb eqb leb).
Proof.
  intros [He Ht Htr Ha].
  assert (Hne : forall x y, eqb x y = false -> x <> y).
  { intros x y E F. apply He in F. congruence. }
  assert (Hsym : forall x y, eqb x y = eqb y x).
  { intros x y. destruct (eqb x y) eqn:E.
    - apply He in E. subst. symmetry. apply He. reflexivity.
    - destruct (eqb y x) eqn:E2; [|reflexivity]. apply He in E2. subst.
      assert (eqb x x = true) by (apply He; reflexivity). congruence. }
  split.
  - apply list_eqb_spec, He.
  - intros a. induction a as [|x a IH]; intros [|y b]; cbn; auto.
    rewrite (Hsym y x). destruct (eqb x y); [apply IH | apply Ht].
  - intros a. induction a as [|x a IH]; intros [|y b] [|z c]; cbn; auto; try discriminate.
    destruct (eqb x y) eqn:Exy.
    + apply He in Exy. subst y. destruct (eqb x z) eqn:Exz; [apply IH | auto].
    + destruct (eqb y z) eqn:Eyz.
      * apply He in Eyz. subst z. rewrite Exy. auto.
      * intros H1 H2. destruct (eqb x z) eqn:Exz.
        -- apply He in Exz. subst z. exfalso. apply (Hne _ _ Exy). apply Ha; assumption.
        -- eapply Htr; eassumption.
  - intros a. induction a as [|x a IH]; intros [|y b]; cbn; auto; try discriminate.
    rewrite (Hsym y x). destruct (eqb x y) eqn:Exy.
    + apply He in Exy. subst. intros H1 H2. f_equal. apply IH; assumption.
    + intros H1 H2. exfalso. apply (Hne _ _ Exy). apply Ha; assumption.
Qed.

Definition pair_eqb {A B} (ea : A -> A -> bool) (eb : B -> B -> bool) (x y : A * B) : bool :=
  ea (fst x) (fst y) && eb (snd x) (snd y).

Lemma good_pair {A B} (ea la : A -> A -> bool) (eb lb : B -> B -> bool) :
  good_order ea la -> good_order eb lb -> good_order (pair_eqb ea eb) (pair_leb ea la lb).
Proof.
  intros [He Ht Htr Ha] [He' Ht' Htr' Ha'].
  assert (Hne : forall x y, ea x y = false -> x <> y).
  { intros x y E F. apply He in F. congruence. }
  assert (Hsym : forall x y, ea x y = ea y x).
  { intros x y. destruct (ea x y) eqn:E.
    - apply He in E. subst. symmetry. apply He. reflexivity.
    - destruct (ea y x) eqn:E2; [|reflexivity]. apply He in E2. subst.
      assert (ea x x = true) by (apply He; reflexivity). congruence. }
  split; unfold pair_eqb, pair_leb.
  - intros [a b] [a' b']; cbn. rewrite andb_true_iff, He, He'. split; [intros [-> ->]; reflexivity | intros E; inversion E; auto].
  - intros [a b] [a' b']; cbn. rewrite (Hsym a' a). destruct (ea a a'); [apply Ht' | apply Ht].
  - intros [a b] [a' b'] [a'' b'']; cbn.
    destruct (ea a a') eqn:E1.
    + apply He in E1. subst a'. destruct (ea a a''); [apply Htr' | auto].
    + destruct (ea a' a'') eqn:E2.
      * apply He in E2. subst a''. rewrite E1. auto.
      * intros H1 H2. destruct (ea a a'') eqn:E3.
        -- apply He in E3. subst a''. exfalso. apply (Hne _ _ E1). apply Ha; assumption.
        -- eapply Htr; eassumption.
  - intros [a b] [a' b']; cbn. rewrite (Hsym a' a). destruct (ea a a') eqn:E1.
    + apply He in E1. subst. intros H1 H2. f_equal. apply Ha'; assumption.
    + intros H1 H2. exfalso. apply (Hne _ _ E1). apply Ha; assumption.
Qed.

Lemma good_option {A} (eqb leb : A -> A -> bool) :
  good_order eqb leb ->
  good_order (fun a b => match a, b with None, None => true | Some x, Some y => eqb x y | _, _ => false end)
             (fun a b => match a, b with None, _ => true | Some _, None => false | Some x, Some y => leb x y end).
Proof.
  intros [He Ht Htr Ha]. split.
  - intros [a|] [b|]; split; intro E; try discriminate; try reflexivity.
    + apply He in E. subst. reflexivity.
    + inversion E. apply He. reflexivity.
  - intros [a|] [b|]; auto.
  - intros [a|] [b|] [c|]; auto; try discriminate. apply Htr.
  - intros [a|] [b|]; auto; try discriminate. intros. f_equal. apply Ha; assumption.
Qed.

Lemma good_name : good_order name_eqb name_leb.
Proof. apply good_lex, good_N. Qed.
Lemma good_path : good_order path_eqb path_leb.
Proof. apply good_lex, good_name. Qed.
Lemma good_span : good_order (pair_eqb N.eqb N.eqb) span_leb.
Proof. apply good_pair; apply good_N. Qed.
Lemma good_ospan : good_order ospan_eqb ospan_leb.
Proof. exact (good_option _ _ good_span). Qed.

(* ------------------------------------------------------------------ the stable sort *)
Section SortFacts.
  Context {A : Type}.
  Variable leb : A -> A -> bool.
  Notation le := (fun a b => leb a b = true).

  Lemma insert_perm : forall x l, Permutation (insert leb x l) (x :: l).
  Proof.
    induction l as [|y t IH]; cbn; [apply Permutation_refl|].
    destruct (leb x y); [apply Permutation_refl|].
    eapply Permutation_trans; [apply perm_skip, IH | apply perm_swap].
  Qed.
  Lemma sort_perm : forall l, Permutation (sort leb l) l.
  Proof.
    induction l as [|x t IH]; cbn; [constructor|].
    eapply Permutation_trans; [apply insert_perm | apply perm_skip, IH].
  Qed.

  Hypothesis total : forall a b, leb a b = true \/ leb b a = true.
  Hypothesis trans : forall a b c, leb a b = true -> leb b c = true -> leb a c = true.

  Lemma insert_sorted : forall x l, StronglySorted le l -> StronglySorted le (insert leb x l).
  Proof.
    induction l as [|y t IH]; intro S; cbn.
    - repeat constructor.
    - destruct (leb x y) eqn:E.
      + constructor; [assumption|]. constructor; [assumption|].
        inversion S; subst. eapply Forall_impl; [|eassumption]. cbn. intros. eapply trans; eassumption.
      + inversion S; subst. constructor; [apply IH; assumption|].
        assert (leb y x = true) by (destruct (total x y); congruence).
        eapply Permutation_Forall; [apply Permutation_sym, insert_perm|]. constructor; assumption.
  Qed.
  Lemma sort_sorted : forall l, StronglySorted le (sort leb l).
  Proof. induction l; cbn; [constructor | apply insert_sorted; assumption]. Qed.

  Hypothesis antisym : forall a b, leb a b = true -> leb b a = true -> a = b.

  Lemma sorted_perm_eq : forall l l', StronglySorted le l -> StronglySorted le l' -> Permutation l l' -> l = l'.
  Proof.
    induction l as [|x t IH]; intros l' S S' P.
    - apply Permutation_nil in P. subst. reflexivity.
    - destruct l' as [|y t']; [apply Permutation_sym, Permutation_nil in P; discriminate|].
      inversion S; subst. inversion S'; subst.
      assert (x = y).
      { assert (In y (x :: t)) by (eapply Permutation_in; [apply Permutation_sym; eassumption | left; reflexivity]).
        assert (In x (y :: t')) by (eapply Permutation_in; [eassumption | left; reflexivity]).
        destruct H as [->|Hy]; [reflexivity|]. destruct H0 as [->|Hx]; [reflexivity|].
        rewrite Forall_forall in H2, H4. apply antisym; [apply H2 | apply H4]; assumption. }
      subst y. f_equal. apply IH; try assumption. eapply Permutation_cons_inv; eassumption.
  Qed.

  (* sorting by a total order on the WHOLE element: the result does not depend on the order of the input *)
  Theorem sort_perm_invariant : forall l l', Permutation l l' -> sort leb l = sort leb l'.
  Proof.
    intros. apply sorted_perm_eq; try apply sort_sorted.
    eapply Permutation_trans; [apply sort_perm|]. eapply Permutation_trans; [eassumption|]. apply Permutation_sym, sort_perm.
  Qed.
End SortFacts.

(* sorting by a key *)
Section SortByKey.
  Context {A K : Type}.
  Variable key : A -> K.
  Variable lek : K -> K -> bool.
  Definition by_key (a b : A) : bool := lek (key a) (key b).

  Lemma map_insert_key : forall x l, map key (insert by_key x l) = insert lek (key x) (map key l).
  Proof.
    induction l as [|y t IH]; cbn; [reflexivity|]. unfold by_key at 1. destruct (lek (key x) (key y)); cbn; [reflexivity|].
    rewrite IH. reflexivity.
  Qed.
  Lemma map_sort_key : forall l, map key (sort by_key l) = sort lek (map key l).
  Proof. induction l as [|x t IH]; cbn; [reflexivity|]. rewrite map_insert_key, IH. reflexivity. Qed.

  Hypothesis total : forall a b, lek a b = true \/ lek b a = true.
  Hypothesis trans : forall a b c, lek a b = true -> lek b c = true -> lek a c = true.
  Hypothesis antisym : forall a b, lek a b = true -> lek b a = true -> a = b.

  (* the keys come out in the same order whatever the input order ... *)
  Theorem sort_by_key_keys_invariant : forall l l', Permutation l l' ->
    map key (sort by_key l) = map key (sort by_key l').
  Proof.
    intros. rewrite !map_sort_key. apply sort_perm_invariant; try assumption. apply Permutation_map. assumption.
  Qed.

  (* ... hence anything that is a function of the key alone *)
  Corollary sort_by_key_image_invariant : forall {R} (g : K -> R) l l', Permutation l l' ->
    map (fun a => g (key a)) (sort by_key l) = map (fun a => g (key a)) (sort by_key l').
  Proof.
    intros. rewrite <- !(map_map key g). f_equal. apply sort_by_key_keys_invariant. assumption.
  Qed.

  Lemma map_key_inj_eq : forall s s', map key s = map key s' ->
    (forall a b, In a s -> In b s' -> key a = key b -> a = b) -> s = s'.
  Proof.
    induction s as [|x s IH]; intros [|y s'] E Inj; try discriminate; [reflexivity|].
    cbn in E. inversion E. f_equal.
    - apply Inj; [left; reflexivity | left; reflexivity | assumption].
    - apply IH; [assumption|]. intros. apply Inj; try (right; assumption). assumption.
  Qed.

  (* ... and the elements themselves when the key is injective on them (a stable sort by a partial key is
     order-independent exactly when no two elements share a key) *)
  Theorem sort_by_injective_key_invariant : forall l l', Permutation l l' ->
    (forall a b, In a l -> In b l -> key a = key b -> a = b) ->
    sort by_key l = sort by_key l'.
  Proof.
    intros l l' P Inj. apply map_key_inj_eq; [apply sort_by_key_keys_invariant; assumption|].
    intros a b Ha Hb. apply Inj.
    - eapply Permutation_in; [apply sort_perm | eassumption].
    - eapply Permutation_in; [apply Permutation_sym; eassumption|]. eapply Permutation_in; [apply sort_perm | eassumption].
  Qed.
End SortByKey.

(* ------------------------------------------------------------------ undefined symbols *)
Lemma good_undef_key : good_order (pair_eqb name_eqb ospan_eqb) (pair_leb name_eqb name_leb ospan_leb).
Proof. apply good_pair; [apply good_name | apply good_ospan]. Qed.

Theorem report_undefined_invariant : forall pi pi', valid pi -> valid pi' ->
  forall und, report_undefined KeyNameSpan pi und = report_undefined KeyNameSpan pi' und.
Proof.
  intros pi pi' V V' und. unfold report_undefined, undef_diag.
  destruct good_undef_key as [_ Ht Htr Ha].
  apply (sort_by_key_image_invariant undef_key_of (pair_leb name_eqb name_leb ospan_leb) Ht Htr Ha diag_of_key).
  eapply Permutation_trans; [apply V | apply Permutation_sym, V'].
Qed.

(* sorted by name only: reproducible exactly when no name is reported twice *)
Definition no_repeated_undefined_name (und : list undefined_symbol) : Prop := NoDup (map us_id und).

Lemma NoDup_map_inj {A B} (f : A -> B) : forall l, NoDup (map f l) -> forall a b, In a l -> In b l -> f a = f b -> a = b.
Proof.
  induction l as [|x l IH]; cbn; intros N a b Ha Hb E; [contradiction|].
  inversion N; subst. destruct Ha as [->|Ha], Hb as [->|Hb]; try reflexivity.
  - exfalso. apply H1. rewrite E. apply in_map. assumption.
  - exfalso. apply H1. rewrite <- E. apply in_map. assumption.
  - apply IH; assumption.
Qed.

Theorem report_undefined_by_name_guarded : forall pi pi', valid pi -> valid pi' ->
  forall und, no_repeated_undefined_name und ->
  report_undefined KeyName pi und = report_undefined KeyName pi' und.
Proof.
  intros pi pi' V V' und N. unfold report_undefined. f_equal.
  destruct good_name as [_ Ht Htr Ha].
  apply (sort_by_injective_key_invariant us_id name_leb Ht Htr Ha).
  - eapply Permutation_trans; [apply V | apply Permutation_sym, V'].
  - intros a b Ha' Hb'. apply (NoDup_map_inj us_id und N).
    + eapply Permutation_in; [apply V | eassumption].
    + eapply Permutation_in; [apply V | eassumption].
Qed.

Definition undef_witness : list undefined_symbol :=
  [mkUndef 0 [102;111;111]%N (Some (5, 8)%N); mkUndef 0 [102;111;111]%N (Some (17, 20)%N)].

Theorem report_undefined_by_name_refuted :
  exists pi pi' und, valid pi /\ valid pi' /\ report_undefined KeyName pi und <> report_undefined KeyName pi' und.
Proof.
  exists ident_oracle, rev_oracle, undef_witness. split; [apply valid_ident|]. split; [apply valid_rev|].
  vm_compute. discriminate.
Qed.

(* ------------------------------------------------------------------ symbol enumeration, VICE *)
Lemma Permutation_concat {A} : forall (l l' : list (list A)), Permutation l l' -> Permutation (concat l) (concat l').
Proof.
  induction 1; cbn.
  - constructor.
  - apply Permutation_app_head. assumption.
  - rewrite !app_assoc. apply Permutation_app_tail, Permutation_app_comm.
  - eapply Permutation_trans; eassumption.
Qed.

Lemma Permutation_concat_map {A B} (f g : A -> list B) : forall l,
  Forall (fun a => Permutation (f a) (g a)) l -> Permutation (concat (map f l)) (concat (map g l)).
Proof. induction 1; cbn; [constructor | apply Permutation_app; assumption]. Qed.

Fixpoint sym_node_size (n : sym_node) : nat :=
  match n with Node _ _ ch => S (fold_right (fun c acc => sym_node_size (snd c) + acc) 0 ch) end.

Lemma all_impl_perm : forall pi pi', valid pi -> valid pi' ->
  forall k n, sym_node_size n <= k -> forall c c' p, Permutation (all_impl pi c n p) (all_impl pi' c' n p).
Proof.
  intros pi pi' V V'. induction k as [|k IH]; intros [nx d ch] Hs c c' p; cbn in Hs; [lia|].
  cbn [all_impl]. apply Permutation_app_head.
  eapply Permutation_trans; [apply Permutation_concat, V|].
  eapply Permutation_trans; [|apply Permutation_concat, Permutation_sym, V'].
  apply Permutation_concat_map. apply Forall_forall. intros [id n'] Hin. cbn [fst snd].
  apply IH. apply le_S_n in Hs.
  clear - Hs Hin. induction ch as [|x ch IHc]; [contradiction|]. cbn in Hs. destruct Hin as [->|Hin]; cbn in *; [lia|].
  apply IHc; [lia | assumption].
Qed.

Lemma all_perm : forall pi pi', valid pi -> valid pi' -> forall root, Permutation (all pi root) (all pi' root).
Proof.
  intros. unfold all. eapply Permutation_trans; [apply H|]. eapply Permutation_trans; [|apply Permutation_sym, H0].
  eapply all_impl_perm; eauto.
Qed.

Lemma filter_map_perm {A B} (f : A -> option B) : forall l l', Permutation l l' -> Permutation (filter_map f l) (filter_map f l').
Proof.
  induction 1; cbn.
  - constructor.
  - destruct (f x); [apply perm_skip|]; assumption.
  - destruct (f x), (f y); try apply Permutation_refl. apply perm_swap.
  - eapply Permutation_trans; eassumption.
Qed.

Theorem vice_sort_invariant : forall pi pi', valid pi -> valid pi' ->
  forall root, to_vice_symbols true pi root = to_vice_symbols true pi' root.
Proof.
  intros. unfold to_vice_symbols. f_equal.
  destruct good_name as [_ Ht Htr Ha]. apply sort_perm_invariant; try assumption.
  apply filter_map_perm, all_perm; assumption.
Qed.

Definition vice_witness : sym_node :=
  Node 0 None [([97]%N, Node 1 (Some (mkSym TyLabel 8192)) []); ([98]%N, Node 2 (Some (mkSym TyLabel 8193)) [])].

Theorem vice_unsorted_refuted :
  exists pi pi' root, valid pi /\ valid pi' /\ to_vice_symbols false pi root <> to_vice_symbols false pi' root.
Proof.
  exists ident_oracle, (rev_at_oracle [2]), vice_witness. split; [apply valid_ident|]. split; [apply valid_rev_at|].
  vm_compute. discriminate.
Qed.

(* ------------------------------------------------------------------ listing files *)
Lemma good_listing_entry : good_order (pair_eqb path_eqb name_eqb) listing_entry_leb.
Proof. apply good_pair; [apply good_path | apply good_name]. Qed.

Theorem listing_invariant : forall stem pi pi', valid pi -> valid pi' ->
  forall listing, write_listings IterSortedByKey stem pi listing = write_listings IterSortedByKey stem pi' listing.
Proof.
  intros. unfold write_listings. f_equal.
  destruct good_listing_entry as [_ Ht Htr Ha]. apply sort_perm_invariant; try assumption.
  eapply Permutation_trans; [apply H | apply Permutation_sym, H0].
Qed.

(* main.asm and sub/main.asm: same stem, the listing written last survives *)
Definition listing_witness : list (path * name) :=
  [([[109]%N], [49]%N); ([[115]%N; [109]%N], [50]%N)].
Definition last_component (p : path) : name := last p [].

Theorem listing_hashed_refuted :
  exists pi pi' l, valid pi /\ valid pi' /\
    fs_lookup (write_listings IterHashed last_component pi l) [109%N] <>
    fs_lookup (write_listings IterHashed last_component pi' l) [109%N].
Proof.
  exists ident_oracle, rev_oracle, listing_witness. split; [apply valid_ident|]. split; [apply valid_rev|].
  vm_compute. discriminate.
Qed.

(* ------------------------------------------------------------------ the import work list *)
Theorem parse_ordered_invariant : forall pi pi' p main, parse Ordered pi p main = parse Ordered pi' p main.
Proof.
  intros pi pi' p main. unfold parse. generalize (parse_fuel p) as fuel, 0%nat as iter, [main] as work, (mkPState 0 0 [] []) as st.
  induction fuel as [|fuel IH]; intros iter work st; destruct work as [|f rest]; cbn [parse_loop]; try reflexivity.
  destruct (already_imported st f); [apply IH|].
  destruct (find_file p f); [|reflexivity].
  destruct (parse_events _ _ _ _ _ _) as [[[counter scopes] to_import] errs].
  cbn [iterate]. destruct (fold_left _ _ _) as [work' errs']. apply IH.
Qed.

Lemma perm_short {A} : forall (l l' : list A), Permutation l' l -> length l <= 1 -> l' = l.
Proof.
  intros l l' P L. destruct l as [|x [|y t]]; cbn in L; try lia.
  - apply Permutation_sym, Permutation_nil in P. assumption.
  - apply Permutation_sym, Permutation_length_1_inv in P. assumption.
Qed.

Fixpoint keys_insert (m : list path) (k : path) : list path :=
  match m with
  | [] => [k]
  | k' :: t => if path_eqb k' k then k' :: t else k' :: keys_insert t k
  end.
Lemma map_insert_keys : forall m k v, map fst (map_insert m k v) = keys_insert (map fst m) k.
Proof.
  induction m as [|[k' v'] t IH]; intros; cbn; [reflexivity|]. destruct (path_eqb k' k); cbn; [reflexivity|].
  rewrite IH. reflexivity.
Qed.
Fixpoint import_keys (evs : list event) (acc : list path) : list path :=
  match evs with
  | [] => acc
  | EImport f _ :: t => import_keys t (keys_insert acc f)
  | _ :: t => import_keys t acc
  end.
Lemma parse_events_keys : forall evs base counter scopes ti errs,
  map fst (snd (fst (parse_events base evs counter scopes ti errs))) = import_keys evs (map fst ti).
Proof.
  induction evs as [|e t IH]; intros; cbn; [reflexivity|]. destruct e; cbn; rewrite IH; try reflexivity.
  rewrite map_insert_keys. reflexivity.
Qed.

Lemma find_file_in : forall p f s, find_file p f = Some s -> exists g, In (g, s) p.
Proof.
  induction p as [|[g s'] t IH]; cbn; intros; [discriminate|]. destruct (path_eqb g f).
  - inversion H; subst. eexists. left. reflexivity.
  - destruct (IH _ _ H) as [g' Hg]. eexists. right. eassumption.
Qed.

Theorem parse_hashed_guarded : forall pi pi', valid pi -> valid pi' ->
  forall p main, at_most_one_import_per_file p = true -> parse Hashed pi p main = parse Hashed pi' p main.
Proof.
  intros pi pi' V V' p main G. unfold parse.
  generalize (parse_fuel p) as fuel, 0%nat as iter, [main] as work, (mkPState 0 0 [] []) as st.
  induction fuel as [|fuel IH]; intros iter work st; destruct work as [|f rest]; cbn [parse_loop]; try reflexivity.
  destruct (already_imported st f); [apply IH|].
  destruct (find_file p f) as [src|] eqn:F; [|reflexivity].
  destruct (parse_events _ _ _ _ _ _) as [[[counter scopes] to_import] errs] eqn:PE.
  assert (L : length to_import <= 1).
  { destruct (find_file_in _ _ _ F) as [g Hg].
    unfold at_most_one_import_per_file in G. rewrite forallb_forall in G. specialize (G _ Hg). cbn [snd] in G.
    apply Nat.leb_le in G. unfold to_import_of in G.
    rewrite <- (map_length fst) in G |- *.
    rewrite parse_events_keys in G.
    pose proof (parse_events_keys (src_events src) (ps_end st + 1)%N (ps_counter st) [] [] []) as K.
    rewrite PE in K. cbn [fst snd] in K. rewrite K. exact G. }
  cbn [iterate].
  rewrite (perm_short to_import (pi _ [4; iter] to_import) (V _ _ _) L).
  rewrite (perm_short to_import (pi' _ [4; iter] to_import) (V' _ _ _) L).
  destruct (fold_left _ _ _) as [work' errs']. apply IH.
Qed.

Definition p_ [A] (x : A) := x.
Definition f_main : path := [[109]%N].
Definition f_a : path := [[97]%N].
Definition f_b : path := [[98]%N].
Definition f_c : path := [[99]%N].
(* main imports a, b, c; each of them opens one anonymous scope *)
Definition import_witness : project :=
  [(f_main, mkSource 70 [EImport f_a (15, 22)%N; EImport f_b (38, 45)%N; EImport f_c (61, 68)%N]);
   (f_a, mkSource 10 [EScope]); (f_b, mkSource 10 [EScope]); (f_c, mkSource 10 [EScope])].

Theorem parse_hashed_refuted :
  exists pi pi' p main, valid pi /\ valid pi' /\ parse Hashed pi p main <> parse Hashed pi' p main.
Proof.
  exists ident_oracle, rev_oracle, import_witness, f_main. split; [apply valid_ident|]. split; [apply valid_rev|].
  vm_compute. discriminate.
Qed.

(* the guard is satisfiable by a project that does import *)
Example guard_satisfiable :
  at_most_one_import_per_file [(f_main, mkSource 30 [EImport f_a (15, 22)%N; EScope]); (f_a, mkSource 10 [EScope; EImport f_b (1, 2)%N]);
                               (f_b, mkSource 5 [])] = true.
Proof. reflexivity. Qed.

(* fuel: the loop never runs out of it -- every iteration either pops an entry or parses a file not parsed before *)
(* (not needed for the invariance theorems, which hold for the out-of-fuel result as well) *)

(* ------------------------------------------------------------------ the work-list loop never runs out of fuel *)
(* measure: imports of the files not parsed yet (counted per project entry whose path is not in the code map) *)
Definition unparsed_imports (p : project) (st : parse_state) : nat :=
  fold_right (fun fs n => (if already_imported st (fst fs) then 0 else count_imports (snd fs)) + n) 0 p.

Lemma parse_events_to_import_len : forall evs base counter scopes ti errs,
  length (snd (fst (parse_events base evs counter scopes ti errs))) <= length ti + count_imports (mkSource 0 evs).
Proof.
  induction evs as [|e t IH]; intros; cbn [parse_events].
  - cbn. lia.
  - destruct e; unfold count_imports in *; cbn [src_events filter length] in *.
    + specialize (IH base (S counter) (S counter :: scopes) ti errs). lia.
    + specialize (IH base (S counter) (S counter :: scopes) (map_insert ti target (shift base sp)) errs).
      assert (length (map_insert ti target (shift base sp)) <= S (length ti)).
      { clear. induction ti as [|[k v] t IHt]; cbn; [lia|]. destruct (path_eqb k target); cbn; lia. }
      cbn. lia.
    + specialize (IH base counter scopes ti (ParseError (shift base sp) :: errs)). lia.
Qed.

Lemma push_len : forall (p : project) l acc,
  length (fst (fold_left (fun (acc : list path * list diag) (e : path * span) =>
                 match find_file p (fst e) with
                 | Some _ => (fst e :: fst acc, snd acc)
                 | None => (fst acc, snd acc ++ [FileNotFound (fst e) (snd e)])
                 end) l acc)) <= length l + length (fst acc).
Proof.
  induction l as [|e t IH]; intros acc; cbn [fold_left]; [cbn; lia|].
  destruct (find_file p (fst e)); etransitivity; [apply IH | cbn; lia | apply IH | cbn; lia].
Qed.

Lemma already_imported_app : forall st f pf c e er,
  already_imported (mkPState c e (ps_files st ++ [pf]) er) f = already_imported st f || path_eqb (pf_path pf) f.
Proof. intros. unfold already_imported. cbn. rewrite existsb_app. cbn. rewrite orb_false_r. reflexivity. Qed.

Lemma path_eqb_eq : forall a b, path_eqb a b = true <-> a = b.
Proof. apply (go_eqb _ _ good_path). Qed.

Lemma unparsed_after : forall p st f src c e er scopes base,
  find_file p f = Some src -> already_imported st f = false ->
  unparsed_imports p (mkPState c e (ps_files st ++ [mkParsed f base scopes]) er) + count_imports src <= unparsed_imports p st.
Proof.
  induction p as [|[g s] t IH]; intros st f src c e er scopes base F A; cbn in F; [discriminate|].
  unfold unparsed_imports. cbn [fold_right fst snd]. fold (unparsed_imports t st).
  fold (unparsed_imports t (mkPState c e (ps_files st ++ [mkParsed f base scopes]) er)).
  rewrite (already_imported_app st g (mkParsed f base scopes) c e er). cbn [pf_path].
  destruct (path_eqb g f) eqn:E.
  - apply path_eqb_eq in E. subst g. inversion F; subst s. rewrite A.
    assert (path_eqb f f = true) by (apply path_eqb_eq; reflexivity). rewrite H. cbn [orb].
    assert (M : unparsed_imports t (mkPState c e (ps_files st ++ [mkParsed f base scopes]) er) <= unparsed_imports t st).
    { clear. induction t as [|[g s] t IHt]; [cbn; lia|]. unfold unparsed_imports. cbn [fold_right fst snd].
      fold (unparsed_imports t st). fold (unparsed_imports t (mkPState c e (ps_files st ++ [mkParsed f base scopes]) er)).
      rewrite (already_imported_app st g (mkParsed f base scopes) c e er).
      destruct (already_imported st g); cbn [orb]; [lia|]. destruct (path_eqb _ g); lia. }
    lia.
  - assert (path_eqb f g = false).
    { destruct (path_eqb f g) eqn:E2; [|reflexivity]. apply path_eqb_eq in E2. subst. 
      assert (path_eqb g g = true) by (apply path_eqb_eq; reflexivity). congruence. }
    rewrite H. rewrite orb_false_r. specialize (IH st f src c e er scopes base F A). destruct (already_imported st g); lia.
Qed.

Lemma parse_loop_fuel : forall k pi, valid pi -> forall p fuel iter work st,
  length work + unparsed_imports p st <= fuel -> parse_loop k pi p fuel iter work st <> ParseOutOfFuel.
Proof.
  intros k pi V p. induction fuel as [|fuel IH]; intros iter work st H; destruct work as [|f rest]; cbn [parse_loop]; try discriminate.
  - cbn in H. lia.
  - destruct (already_imported st f) eqn:A.
    + apply IH. cbn in H. lia.
    + destruct (find_file p f) as [src|] eqn:F; [|discriminate].
      destruct (parse_events _ _ _ _ _ _) as [[[counter scopes] to_import] errs] eqn:PE.
      destruct (fold_left _ _ _) as [work' errs'] eqn:FL. apply IH.
      pose proof (push_len p (iterate k pi [4; iter] to_import)
                    (rest, ps_errors (mkPState counter (ps_end st + 1 + src_len src)
                              (ps_files st ++ [mkParsed f (ps_end st + 1)%N (rev scopes)]) (ps_errors st ++ rev errs)))) as PL.
      rewrite FL in PL. cbn [fst snd] in PL.
      assert (LI : length (iterate k pi [4; iter] to_import) = length to_import).
      { destruct k; cbn [iterate]; [apply Permutation_length, V | reflexivity]. }
      pose proof (parse_events_to_import_len (src_events src) (ps_end st + 1)%N (ps_counter st) [] [] []) as TL.
      rewrite PE in TL. cbn [fst snd length] in TL.
      assert (CI : count_imports (mkSource 0 (src_events src)) = count_imports src) by reflexivity.
      pose proof (unparsed_after p st f src counter (ps_end st + 1 + src_len src)%N errs' (rev scopes) (ps_end st + 1)%N F A) as UA.
      cbn [ps_counter ps_end ps_files]. cbn [length] in H. lia.
Qed.

Lemma unparsed_initial : forall p, unparsed_imports p (mkPState 0 0 [] []) = fold_right (fun fs n => count_imports (snd fs) + n) 0 p.
Proof. induction p as [|[g s] t IH]; [reflexivity|]. unfold unparsed_imports in *. cbn [fold_right fst snd]. rewrite IH. reflexivity. Qed.

Theorem parse_never_out_of_fuel : forall k pi, valid pi -> forall p main, parse k pi p main <> ParseOutOfFuel.
Proof.
  intros. unfold parse. apply parse_loop_fuel; [assumption|]. rewrite unparsed_initial. unfold parse_fuel. cbn. lia.
Qed.

Theorem build_never_out_of_fuel : forall sc stem codegen pi, valid pi -> forall p main,
  build sc stem codegen pi p main <> BuildOutOfFuel.
Proof.
  intros sc stem codegen pi V p main. unfold build.
  pose proof (parse_never_out_of_fuel (sc_to_import sc) pi V p main) as N.
  destruct (parse (sc_to_import sc) pi p main) as [st|]; [|contradiction].
  destruct (ps_errors st); [|discriminate].
  destruct (cg_errors _); [|discriminate].
  destruct (cg_undefined _); discriminate.
Qed.

(* ------------------------------------------------------------------ import *: export loop *)
Lemma good_child_key : good_order (pair_eqb Nat.eqb name_eqb) (pair_leb Nat.eqb Nat.leb name_leb).
Proof. apply good_pair; [apply good_nat | apply good_name]. Qed.

Lemma child_key_inj : forall a b, child_key a = child_key b -> a = b.
Proof. intros [a1 a2] [b1 b2]; unfold child_key; cbn. intro E. inversion E. reflexivity. Qed.

Theorem children_order_invariant : forall pi pi', valid pi -> valid pi' ->
  forall call call' children,
  children_order IterSortedByKey pi call children = children_order IterSortedByKey pi' call' children.
Proof.
  intros. unfold children_order.
  destruct good_child_key as [_ Ht Htr Ha].
  apply (sort_by_injective_key_invariant child_key (pair_leb Nat.eqb Nat.leb name_leb) Ht Htr Ha).
  - eapply Permutation_trans; [apply H | apply Permutation_sym, H0].
  - intros. apply child_key_inj. assumption.
Qed.

Theorem import_all_invariant : forall pi pi', valid pi -> valid pi' ->
  forall call call' children existing sp,
  import_all IterSortedByKey pi call children existing sp = import_all IterSortedByKey pi' call' children existing sp.
Proof. intros. unfold import_all. f_equal. apply children_order_invariant; assumption. Qed.

Theorem import_all_hashed_refuted :
  exists pi pi' children existing sp, valid pi /\ valid pi' /\
    import_all IterHashed pi 0 children existing sp <> import_all IterHashed pi' 0 children existing sp.
Proof.
  exists ident_oracle, rev_oracle, [([97]%N, 3); ([98]%N, 4)], [[97]%N; [98]%N], (1, 2)%N.
  split; [apply valid_ident|]. split; [apply valid_rev|]. vm_compute. discriminate.
Qed.

(* ------------------------------------------------------------------ config validator *)
Theorem missing_required_invariant : forall pi pi', valid pi -> valid pi' ->
  forall req, missing_required pi req = missing_required pi' req.
Proof.
  intros. unfold missing_required. f_equal.
  destruct good_name as [_ Ht Htr Ha]. apply sort_perm_invariant; try assumption.
  eapply Permutation_trans; [apply H | apply Permutation_sym, H0].
Qed.

(* ------------------------------------------------------------------ the whole build *)
Definition sites_reproducible (sc : site_config) : Prop :=
  sc_to_import sc = Ordered /\ sc_undef_key sc = KeyNameSpan /\ sc_vice_sorted sc = true /\ sc_listing sc = IterSortedByKey /\
  sc_import_all sc = IterSortedByKey.

(* the code generator may use its callback in any way, but only through its values *)
Definition uses_callback_extensionally (codegen : children_iter -> parse_state -> codegen_result) : Prop :=
  forall f f' : children_iter, (forall call ch, f call ch = f' call ch) -> forall st, codegen f st = codegen f' st.

Theorem build_invariant : forall sc, sites_reproducible sc ->
  forall stem codegen, uses_callback_extensionally codegen ->
  forall pi pi', valid pi -> valid pi' ->
  forall p main, build sc stem codegen pi p main = build sc stem codegen pi' p main.
Proof.
  intros sc (E1 & E2 & E3 & E4 & E5) stem codegen X pi pi' V V' p main. unfold build. rewrite E1, E2, E3, E4, E5.
  rewrite (parse_ordered_invariant pi pi').
  destruct (parse Ordered pi' p main) as [st|]; [|reflexivity].
  destruct (ps_errors st); [|reflexivity].
  rewrite (X (children_order IterSortedByKey pi) (children_order IterSortedByKey pi')
             (fun call ch => children_order_invariant pi pi' V V' call call ch) st).
  set (cg := codegen (children_order IterSortedByKey pi') st).
  destruct (cg_errors cg); [|reflexivity].
  destruct (cg_undefined cg) eqn:U.
  - f_equal; [apply vice_sort_invariant | apply listing_invariant]; assumption.
  - rewrite <- U. rewrite (report_undefined_invariant pi pi' V V'). reflexivity.
Qed.
